(* SharedMoreREx.v -- non-vacuity of SharedMoreR.v on the toy replica of SoundCore.v.

   The state: sc_R1, the replica created from the public key alone and synced to length 6 by the writer's upgrade
   proof (nothing held; RDInv: ReplicaDisk7.sc_synced_RDInv).  Task 0 applies the writer's proof for block 4 (six
   micro-steps, with a flush) and asks for info; task 1 calls missing_nodes 4, create_proof for block 4 (two
   micro-steps), key_pair, missing_nodes 4 again, create_proof for block 4 again and reads block 4.  Before the
   application the replica answers missing_nodes 4 = 1 and create_proof = Ok None (one EvGet); after it
   missing_nodes 4 = 0 and the replica SERVES block 4 with the writer's value and the writer's sibling node --
   the very proof it was given. *)
From HC Require Import Base NMap Codec CodecFacts Crypto FlatTree Storage Bitfield Oplog Merkle Core.
From HC Require Import FlatTreeFacts StorageFacts BitfieldFacts OplogFacts TreeRef OffsetFacts CoreFacts Crash Refine.
From HC Require Import ClearRefine Reopen ContigBridge Unified1 Unified2 CrashCore1 CrashCore2 CrashCore3 CrashClear1.
From HC Require Import Sound NoPanic Replicate SoundCoreLib SoundCore SoundCoreUp SoundCoreBU ReplicaCorA.
From HC Require Import ReplicaDisk1 ReplicaDisk2 ReplicaDisk3 ReplicaDisk4 ReplicaDisk5 ReplicaDisk6 ReplicaDisk7.
From HC Require Import ProofContent.
From HC Require Shared.
From HC Require Import SharedInst ReplicaMiscC SharedMore SharedMoreR.
From Coq Require Import FMapPositive ZifyN ZifyNat ZifyBool.
Ltac Zify.zify_post_hook ::= Z.div_mod_to_equations.
Arguments N.add : simpl never.
Arguments N.sub : simpl never.
Arguments N.mul : simpl never.
Arguments N.of_nat : simpl never.
Arguments N.to_nat : simpl never.

Definition ex_rq (k : N) : option req_block := Some (mkReqBlock 4 k).

Definition ex_qprogs (pf : proof) : list (list qcall) :=
  [[QOld (QApply (Some true) pf); QOld QInfo];
   [QMissingNodes 4; QCreateProof (ex_rq 0) None None None; QKeyPair; QMissingNodes 4;
    QCreateProof (ex_rq 1) None None None; QOld (QGet 4)]].

Definition ex_qsched : list nat :=
  ([1; 1; 1; 1] ++                     (* t1: missing_nodes 4 *)
   [1; 1; 1; 0; 1; 1] ++               (* t1: create_proof (two micro-steps); t0 starts its application in between *)
   [0; 0; 0; 1; 0; 0; 0; 0; 0] ++      (* t0: the application (six micro-steps); t1 starts key_pair in between *)
   [1; 1; 1] ++                        (* t1: key_pair *)
   [1; 1; 1; 1] ++                     (* t1: missing_nodes 4 *)
   [1; 1; 1; 0; 1; 1] ++               (* t1: create_proof; t0 starts info in between *)
   [0; 0; 0] ++                        (* t0: info *)
   [1; 1; 1; 1])%nat.                  (* t1: get 4 *)

Definition ex_qexpected_log (pf : proof) (kp : keypair) : list (nat * qcall * qobs) :=
  [(1%nat, QMissingNodes 4, QOMissing (Ok 1));
   (1%nat, QCreateProof (ex_rq 0) None None None, QOProof (Ok None));
   (0%nat, QOld (QApply (Some true) pf), QOOld (ROApply (Ok true)));
   (1%nat, QKeyPair, QOKeyPair kp);
   (1%nat, QMissingNodes 4, QOMissing (Ok 0));
   (1%nat, QCreateProof (ex_rq 1) None None None, QOProof (Ok (Some pf)));     (* the proof it was given *)
   (0%nat, QOld QInfo, QOOld (ROInfo (mkInfo 6 11 0 0 false)));
   (1%nat, QOld (QGet 4), QOOld (ROGet (Ok (Some [9; 10]))))].

(* computed facts about the split run, in the form needed below *)
Lemma ex_qrun_computed :
  match fst sc_R1, sc_block_proof (fst sc_R1) 4 with
  | Some (c, w), Some pf =>
      p_hash pf = None /\ p_seek pf = None /\ p_upgrade pf = None /\
      match p_block pf with Some b => db_index b = 4 | None => False end /\
      kp_secret (c_keypair c) = None /\ blk sc_blocks 4 = [9; 10] /\
      match Shared.run_sched qsplit_l0 (qsplit_body sc_cr) qsplit_res ex_qsched
                             (Shared.init (c, w) (ex_qprogs pf)) with
      | Some cfg => Shared.holder cfg = None /\ all_done cfg = true /\
                    Shared.log cfg = ex_qexpected_log pf (c_keypair c) /\
                    w_events w = [EvUpgrade] /\
                    w_events (snd (Shared.shared cfg)) = [EvHave 4 1 false; EvGet 4; EvUpgrade]
      | None => False
      end
  | _, _ => False
  end.
Proof. vm_compute. repeat split. Qed.

(* the same programs with one micro-step per call give the same results when the calls complete in the same order *)
Definition ex_qsched1 : list nat :=
  ([1; 1; 1; 1] ++ [1; 1; 1; 1] ++ [0; 0; 0; 0] ++ [1; 1; 1; 1] ++ [1; 1; 1; 1] ++ [1; 1; 1; 1] ++ [0; 0; 0; 0] ++
   [1; 1; 1; 1])%nat.

Example ex_qone_run :
  match fst sc_R1, sc_block_proof (fst sc_R1) 4 with
  | Some (c, w), Some pf =>
      match Shared.run_sched qone_l0 (qone_body sc_cr) qone_res ex_qsched1 (Shared.init (c, w) (ex_qprogs pf)) with
      | Some cfg => Shared.holder cfg = None /\ all_done cfg = true /\
                    Shared.log cfg = ex_qexpected_log pf (c_keypair c)
      | None => False
      end
  | _, _ => False
  end.
Proof. vm_compute. repeat split. Qed.

(* create_proof is really interleaved and really protected: after task 1's first micro-step of its first
   create_proof (the valueless proof is built, the block not yet read) task 1 holds the lock, and task 0, which has
   started its application, cannot move *)
Definition qmidway_view (cfg : Shared.config rstate qlocal qobs qcall) : option nat * option (bool * nat) * bool :=
  (Shared.holder cfg,
   match nth_error (Shared.tasks cfg) 1 with
   | Some tk => match Shared.st tk with
                | Shared.Running _ l rest => Some (match l with QLVp _ => true | _ => false end, length rest)
                | _ => None
                end
   | None => None
   end,
   match Shared.fire qsplit_l0 (qsplit_body sc_cr) qsplit_res 0 cfg with None => false | Some _ => true end).

Example ex_qcreate_proof_midway :
  match fst sc_R1, sc_block_proof (fst sc_R1) 4 with
  | Some (c, w), Some pf =>
      match Shared.run_sched qsplit_l0 (qsplit_body sc_cr) qsplit_res (firstn 8 ex_qsched)
                             (Shared.init (c, w) (ex_qprogs pf)) with
      | Some cfg => qmidway_view cfg = (Some 1%nat, Some (true, 1%nat), false)
      | None => False
      end
  | _, _ => False
  end.
Proof. vm_compute. reflexivity. Qed.

Lemma ex_qrun_facts c w pf :
  fst sc_R1 = Some (c, w) -> sc_block_proof (fst sc_R1) 4 = Some pf ->
  p_hash pf = None /\ p_seek pf = None /\ p_upgrade pf = None /\
  (exists b, p_block pf = Some b /\ db_index b = 4) /\
  blk sc_blocks 4 = [9; 10] /\
  exists cfg,
    Shared.run_sched qsplit_l0 (qsplit_body sc_cr) qsplit_res ex_qsched (Shared.init (c, w) (ex_qprogs pf)) = Some cfg /\
    Shared.holder cfg = None /\ all_done cfg = true /\ Shared.log cfg = ex_qexpected_log pf (c_keypair c).
Proof.
  intros H1 H2. pose proof ex_qrun_computed as M. rewrite H2 in M. rewrite H1 in M.
  destruct M as (A1 & A2 & A3 & A4 & _ & A6 & M).
  split; [exact A1|]. split; [exact A2|]. split; [exact A3|]. split; [|split; [exact A6|]].
  - clear M H1 H2. destruct (p_block pf) as [b|]; [|contradiction]. exists b. split; [reflexivity|exact A4].
  - clear A4. destruct (Shared.run_sched qsplit_l0 (qsplit_body sc_cr) qsplit_res ex_qsched
                (Shared.init (c, w) (ex_qprogs pf))) as [cfg|]; [|contradiction].
    exists cfg. destruct M as (M1 & M2 & M3 & _). split; [reflexivity|]. split; [exact M1|]. split; [exact M2|exact M3].
Qed.

(* The hypotheses of the theorems are met, and the theorems (not a computation) yield the conclusions for the
   concrete interleaved run: the projection on the old calls conforms to the replica spec and the final shared
   state satisfies RDInv for the held set {4}; the first create_proof (2nd completed call) returned Ok None because
   block 4 was not held at that point, with exactly one EvGet 4; the second create_proof (6th completed call)
   returned the sound proof of the replica state after the application: the block it carries is the WRITER's block 4
   and every node is the writer's node. *)
Example ex_qend_to_end :
  match fst sc_R1, sc_block_proof (fst sc_R1) 4 with
  | Some (c, w), Some pf =>
      RDInv sc_cr sc_blocks c (w_disk w) (fun _ => false) /\
      Forall (Forall qcall_ok) (ex_qprogs pf) /\
      exists cfg,
        Shared.run_sched qsplit_l0 (qsplit_body sc_cr) qsplit_res ex_qsched
                         (Shared.init (c, w) (ex_qprogs pf)) = Some cfg /\
        Shared.holder cfg = None /\
        nth_error (Shared.results (Shared.log cfg)) 1 = Some (QOProof (Ok None)) /\
        nth_error (Shared.results (Shared.log cfg)) 5 = Some (QOProof (Ok (Some pf))) /\
        ((qmodel_run sc_cr sc_blocks c (Shared.shared cfg) (Shared.calls (Shared.log cfg))
                     (Shared.results (Shared.log cfg)) (fun _ => false) /\
          (forall i, qheld_by (fun _ => false) (Shared.calls (Shared.log cfg)) (Shared.results (Shared.log cfg)) i
                     = (i =? 4)) /\
          (* the 2nd completed call *)
          qheld_at (fun _ => false) (Shared.log cfg) 1 4 = false /\
          (exists ci wi, qrun sc_cr (c, w) (firstn 1 (Shared.calls (Shared.log cfg))) =
                           ((ci, wi), firstn 1 (Shared.results (Shared.log cfg))) /\
                         qnew_events (QCreateProof (ex_rq 0) None None None) (ci, wi) = [EvGet 4]) /\
          (* the 6th completed call *)
          qheld_at (fun _ => false) (Shared.log cfg) 5 4 = true /\
          (exists ci, t_length (c_tree ci) <= 6 /\
             proof_sound sc_cr sc_blocks ci (qheld_at (fun _ => false) (Shared.log cfg) 5) (ex_rq 1) None
                         (Ok (Some pf))) /\
          (exists b, p_block pf = Some b /\ db_value b = blk sc_blocks 4) /\
          (* missing_nodes and key_pair *)
          nth_error (Shared.results (Shared.log cfg)) 3 = Some (QOKeyPair (c_keypair c))) \/
         some_collision sc_cr \/ forged_signature sc_cr sc_blocks (kp_public (c_keypair c)))
  | _, _ => False
  end.
Proof.
  pose proof sc_synced_RDInv as HX.
  destruct (fst sc_R1) as [[c w]|] eqn:E1; [|exact HX]. destruct HX as [X L6].
  destruct (sc_block_proof (Some (c, w)) 4) as [pf|] eqn:Ep.
  2:{ clear X L6. vm_compute in E1. injection E1 as <- <-. vm_compute in Ep. discriminate Ep. }
  rewrite <- E1 in Ep.
  destruct (ex_qrun_facts c w pf E1 Ep) as (A1 & A2 & A3 & (b & Hb & Hbi) & Hblk & cfg & Erun & Hfree & _ & Hlog).
  assert (Hrd : rd_proof_ok pf)
    by (split; [split; [exact A1|split; [exact A2|rewrite A3; exact I]]|rewrite A3; exact I]).
  assert (Hall : Forall (Forall qcall_ok) (ex_qprogs pf)).
  { unfold ex_qprogs. repeat (constructor; try exact I; try exact Hrd). }
  split; [exact X|]. split; [exact Hall|].
  exists cfg. split; [exact Erun|]. split; [exact Hfree|].
  split; [rewrite Hlog; reflexivity|]. split; [rewrite Hlog; reflexivity|].
  pose proof (Shared.run_sched_sound _ _ _ _ _ _ _ _ _ _ Erun) as Hst.
  destruct w as [d j ev]. cbn [w_disk] in X.
  assert (Hnp : forall i k, (k < i)%nat -> nth_error (Shared.results (Shared.log cfg)) k <> Some qframe_panic).
  { intros i k _ Hk. apply nth_error_In in Hk. rewrite Hlog in Hk. cbn in Hk.
    repeat (destruct Hk as [Hk|Hk]; [discriminate Hk|]). exact Hk. }
  (* the final state, by the theorem *)
  destruct (qcore_split_replica sc_cr sc_blocks sc_crc_ok sc_hash32 sc_nonblank sc_hashbytes sc_writer_fits
              (ex_qprogs pf) c d j ev _ X Hall cfg Hst)
    as (s1 & Hs1 & [Hm|[(k & f0 & pf0 & _ & Hp)|B]]);
    [|exfalso; exact (Hnp (Datatypes.S k) k ltac:(lia) Hp)|right; exact B].
  rewrite (Hs1 Hfree) in Hm.
  (* the held sets *)
  assert (Hh : forall i, qheld_by (fun _ => false) (Shared.calls (Shared.log cfg))
                                  (Shared.results (Shared.log cfg)) i = (i =? 4)).
  { intros i. rewrite Hlog. unfold ex_qexpected_log.
    cbn [Shared.calls Shared.results map Shared.call_of fst snd qheld_by qhold1 hold1].
    unfold hold. rewrite Hb, Hbi. apply orb_false_r. }
  assert (Hh1 : qheld_at (fun _ => false) (Shared.log cfg) 1 4 = false).
  { unfold qheld_at. rewrite Hlog. reflexivity. }
  assert (Hh5 : qheld_at (fun _ => false) (Shared.log cfg) 5 4 = true).
  { unfold qheld_at. rewrite Hlog. unfold ex_qexpected_log.
    cbn [Shared.calls Shared.results map Shared.call_of fst snd firstn qheld_by qhold1 hold1].
    unfold hold. rewrite Hb, Hbi. reflexivity. }
  (* the 2nd completed call, by the theorem *)
  assert (Hi1 : nth_error (Shared.log cfg) 1 =
                Some (1%nat, QCreateProof (ex_rq 0) None None None, QOProof (Ok None)))
    by (rewrite Hlog; reflexivity).
  destruct (qcore_split_create_proof_outcome sc_cr sc_blocks sc_crc_ok sc_hash32 sc_nonblank sc_hashbytes
              sc_writer_fits (ex_qprogs pf) c d j ev _ X Hall cfg 1%nat 1%nat _ _ _ _ _ Hst Hi1 (Hnp 1%nat))
    as [(c1 & d1 & j1 & ev1 & r1 & Er1 & Hrun1 & _ & _ & _ & _ & _ & Hnone1 & _)|B]; [|right; exact B].
  injection Er1 as <-.
  destruct (Hnone1 eq_refl) as (rb & Hrb & _ & Hev1). injection Hrb as <-. cbn [rb_index] in Hev1.
  (* the 6th completed call, by the theorem *)
  assert (Hi5 : nth_error (Shared.log cfg) 5 =
                Some (1%nat, QCreateProof (ex_rq 1) None None None, QOProof (Ok (Some pf))))
    by (rewrite Hlog; reflexivity).
  destruct (qcore_split_create_proof_outcome sc_cr sc_blocks sc_crc_ok sc_hash32 sc_nonblank sc_hashbytes
              sc_writer_fits (ex_qprogs pf) c d j ev _ X Hall cfg 5%nat 1%nat _ _ _ _ _ Hst Hi5 (Hnp 5%nat))
    as [(c5 & d5 & j5 & ev5 & r5 & Er5 & _ & _ & _ & L5 & _ & Hs5 & _)|B]; [|right; exact B].
  injection Er5 as <-.
  assert (Hval : exists b0, p_block pf = Some b0 /\ db_value b0 = blk sc_blocks 4).
  { destruct Hs5 as [Hs5 _]. destruct (Hs5 pf eq_refl) as (_ & _ & Hblock & _).
    destruct (Hblock b Hb) as (_ & Hv & _). exists b. split; [exact Hb|]. rewrite Hv, Hbi. reflexivity. }
  (* key_pair, by the theorem *)
  assert (Hi3 : nth_error (Shared.log cfg) 3 = Some (1%nat, QKeyPair, QOKeyPair (c_keypair c)))
    by (rewrite Hlog; reflexivity).
  left. split; [exact Hm|]. split; [exact Hh|]. split; [exact Hh1|].
  split; [exists c1, (mkWorld d1 j1 ev1); split; [exact Hrun1|exact Hev1]|].
  split; [exact Hh5|].
  split; [exists c5; split; [exact L5|exact Hs5]|].
  split; [exact Hval|].
  unfold Shared.results. rewrite (map_nth_error _ _ _ Hi3). reflexivity.
Qed.

Print Assumptions ex_qrun_computed.
Print Assumptions ex_qone_run.
Print Assumptions ex_qcreate_proof_midway.
Print Assumptions ex_qend_to_end.

(* CrashClear2.v — C02 over all four stores for writers WITH clears, part 2: the runs of flush, append and
   clear from a YInv state, written out operation by operation; every cut of their journals leaves a disk that
   reopens (YDisk) in the state before or after the call; the complete runs preserve YInv. *)
From HC Require Import Base NMap Codec CodecFacts Crypto FlatTree Storage Bitfield Oplog Merkle Core.
From HC Require Import FlatTreeFacts StorageFacts BitfieldFacts OplogFacts TreeRef OffsetFacts CoreFacts Crash Refine.
From HC Require Import ClearRefine Reopen ContigBridge Unified1 Unified2 CrashCore1 CrashCore2 CrashClear1.
From Coq Require Import FMapPositive ZifyN ZifyNat ZifyBool.
Ltac Zify.zify_post_hook ::= Z.div_mod_to_equations.
Arguments N.add : simpl never.
Arguments N.sub : simpl never.
Arguments N.mul : simpl never.
Arguments N.div : simpl never.
Arguments N.modulo : simpl never.
Arguments N.pow : simpl never.
Arguments N.eqb : simpl never.
Arguments N.ltb : simpl never.
Arguments N.leb : simpl never.
Arguments N.max : simpl never.
Arguments N.min : simpl never.
Arguments N.of_nat : simpl never.
Arguments N.to_nat : simpl never.

(* ====================================================================================== *)
(* A. The data store                                                                       *)
(* ====================================================================================== *)

(* a smaller held set *)
Lemma DataY_sub f bs cl cl' :
  (forall i, held (N.of_nat (length bs)) cl' i = true -> held (N.of_nat (length bs)) cl i = true) ->
  DataY f bs cl -> DataY f bs cl'.
Proof. intros Hsub H i Hi. apply H, Hsub, Hi. Qed.

(* writing after the blocks (whatever was there: nothing, zeros or junk) keeps the held blocks readable *)
Lemma DataY_write_after f bs cl data :
  DataY f bs cl -> DataY (f_write f (sumN (map len bs)) data) bs cl.
Proof.
  intros H i Hi Hpos. pose proof (H i Hi Hpos) as R. pose proof R as R'. apply f_read_spec in R' as (R1 & _).
  rewrite f_read_write_other; [exact R|exact R1|left; apply prefix_size_block_total].
Qed.

(* the data write of an append: the new blocks are readable, the old held ones stay *)
Lemma DataY_append f bs (batch : list bytes) cl :
  DataY f bs cl ->
  DataY (f_write f (sumN (map len bs)) (concat batch)) (bs ++ batch) (cl_mask cl (N.of_nat (length bs))).
Proof.
  intros H i Hi Hpos. set (n := N.of_nat (length bs)) in *. set (B := bs ++ batch) in *.
  assert (HlenB : N.of_nat (length B) = n + N.of_nat (length batch)) by (unfold B, n; rewrite app_length; lia).
  pose proof (held_lt _ _ _ Hi) as Hlt.
  destruct (N.lt_ge_cases i n) as [A|A].
  - assert (Hh : held n cl i = true).
    { unfold held, cl_mask in *. fold n in Hi. rewrite HlenB in Hi.
      assert (i <? n = true) as E by lia. rewrite E in *. rewrite andb_true_r in Hi.
      destruct (cl i); [cbn in Hi; rewrite andb_false_r in Hi; discriminate Hi|reflexivity]. }
    assert (Hnth : nth (N.to_nat i) B [] = nth (N.to_nat i) bs []) by (unfold B; apply app_nth1; unfold n in A; lia).
    rewrite Hnth in *. unfold B. rewrite prefix_size_app_l by (fold n; lia).
    pose proof (H i Hh Hpos) as R. pose proof R as R'. apply f_read_spec in R' as (R1 & _).
    rewrite f_read_write_other; [exact R|exact R1|left; apply prefix_size_block_total].
  - set (jn := (N.to_nat i - length bs)%nat).
    assert (Hjn : (jn < length batch)%nat) by (unfold jn, n in *; lia).
    assert (Hi' : i = n + N.of_nat jn) by (unfold jn, n in *; lia).
    assert (Hnth : nth (N.to_nat i) B [] = nth jn batch []).
    { unfold B. rewrite app_nth2 by (unfold n in A; lia). reflexivity. }
    rewrite Hnth in *. rewrite Hi'. unfold B, n. rewrite prefix_size_app_r.
    rewrite (concat_split batch jn Hjn) at 1. apply f_read_write_part.
Qed.

(* ClearRefine.del_hole_preserves without a bound on the length of the store: deleting the byte range of the
   blocks [s', e'), none of which is held, leaves every held non-empty block readable, whether the delete
   zero-fills or (reaching the end of the store) truncates *)
Lemma del_hole_preserves_Y (bs : list bytes) (cl' : N -> bool) (s' e' : N) (f f' : file) :
  let n := N.of_nat (length bs) in
  s' <= e' ->
  (forall i, s' <= i -> i < e' -> held n cl' i = false) ->
  DataY f bs cl' ->
  f_del f (prefix_size bs s') (prefix_size bs e' - prefix_size bs s') = Some f' ->
  DataY f' bs cl'.
Proof.
  intros n Hse Hhole Hread Hdel.
  set (off := prefix_size bs s') in *. set (L := prefix_size bs e' - off) in *.
  assert (Hoe : off + L = prefix_size bs e') by (pose proof (prefix_size_mono bs s' e' Hse); unfold L, off; lia).
  destruct (f_del_cases _ _ _ _ Hdel) as (D0 & D1 & D2 & D3).
  assert (Hout : forall i, held n cl' i = true -> i < s' \/ e' <= i).
  { intros i Hi. destruct (N.lt_ge_cases i s') as [A|A]; [left; exact A|].
    destruct (N.lt_ge_cases i e') as [B|B]; [|right; exact B].
    rewrite (Hhole i A B) in Hi. discriminate Hi. }
  destruct (N.eq_dec L 0) as [Z|NZ].
  - rewrite (D1 Z). exact Hread.
  - destruct (N.le_gt_cases (f_len f) (off + L)) as [T|T].
    + rewrite (D2 NZ T).
      intros i Hi Hpos. pose proof (Hread i Hi Hpos) as R.
      assert (B : prefix_size bs i + len (nth (N.to_nat i) bs []) <= f_len f)
        by (apply f_read_spec in R; tauto).
      destruct (Hout i Hi) as [A|A].
      * pose proof (prefix_size_block_le bs i s' A) as Q. fold off in Q.
        apply (f_read_preserved f); [exact R|rewrite f_truncate_len; lia|].
        intros k K1 K2. apply f_truncate_at_shrink; lia.
      * pose proof (prefix_size_mono bs e' i A). lia.
    + destruct (D3 NZ T) as [E1 E2].
      intros i Hi Hpos. pose proof (Hread i Hi Hpos) as R.
      assert (B : prefix_size bs i + len (nth (N.to_nat i) bs []) <= f_len f)
        by (apply f_read_spec in R; tauto).
      apply (f_read_preserved f); [exact R|rewrite E1; exact B|].
      intros k K1 K2. rewrite E2.
      destruct (Hout i Hi) as [A|A].
      * pose proof (prefix_size_block_le bs i s' A) as Q. fold off in Q.
        assert ((off <=? k) && (k <? off + L) = false) as -> by lia. reflexivity.
      * pose proof (prefix_size_mono bs e' i A) as Q.
        assert ((off <=? k) && (k <? off + L) = false) as -> by lia. reflexivity.
Qed.

(* ====================================================================================== *)
(* B. A flush from a YInv state: result and cuts                                           *)
(* ====================================================================================== *)

Section FlushY.
  Variable cr : crypto.
  Hypothesis Hhash32 : forall x, length (cr_hash cr x) = 32%nat.
  Hypothesis Hnonblank : forall x, all_zero (cr_hash cr x) = false.

  Lemma flush_all_Y c d j ev bs cl :
    YInv cr c d bs cl ->
    exists c' d' fl,
      flush_all cr false c (mkWorld d j ev) = (c', mkWorld d' (rev fl ++ j) ev, Ok tt) /\
      apply_sops d fl = Some d' /\ YInv cr c' d' bs cl /\ c_keypair c' = c_keypair c /\
      cuts_ok d fl (fun dk => YDisk cr (c_keypair c) dk bs cl).
  Proof.
    intros X.
    pose proof X as (((HL & HB & HF & HR & Hlook & Hun & Hs & Hn) & Hbf & Hcg & Hd) &
                     s0 & s1 & body & st0 & st1 & hf & l & kf & Hcont & G & Hlen & Hbytes & Hhf & Hhc & Hch &
                     Hstore & Hby & Hsync).
    set (n := N.of_nat (length bs)) in *.
    pose proof (gchain_le cr bs l kf n Hch) as Hle.
    pose proof Hhc as (Hok & Hkp & Hfk & Hln & Hrh & Hsg).
    assert (Hfits : hdr_fits false (c_header c)).
    { apply hdr_fits_real; [exact Hok|exact Hrh|]. destruct Hsg as [->|Hsg]; unfold len; [cbn; lia|rewrite Hsg; lia]. }
    destruct (flush_all_run cr Hhash32 Hnonblank c (mkWorld d j ev) Hun Hfits) as (o' & oops & d3 & OF & A & E).
    cbn [w_disk w_journal w_events] in *. cbv zeta in A, E.
    set (b := c_bitfield c) in *. set (t := c_tree c) in *. set (ws := unflushed_nodes t) in *.
    (* the oplog step *)
    pose proof G as (H0 & H1 & Hchs & Hf & Hoks).
    unfold oplog_flush in OF. apply bind_ok in OF as ([bits1 ops1] & Hins & OF). injection OF as <- <-.
    destruct (header_write_step cr s0 s1 st0 st1 _ hf (c_header c) 0 false bits1 ops1 H0 H1 Hchs Hok Hfits Hins)
      as (fr & pad & Hfr & Hl & _ & -> & -> & Hw & st0' & st1' & S0 & S1 & Hch' & Hcb).
    set (bits := ol_bits (c_oplog c)) in *.
    set (s0' := put0 (w_slot bits) (fr ++ pad) s0) in *. set (s1' := put1 (w_slot bits) (fr ++ pad) s1) in *.
    assert (L0' : length s0' = SLOT) by (destruct st0'; apply S0).
    assert (L1' : length s1' = SLOT) by (destruct st1'; apply S1).
    (* the disks *)
    set (fb := write_pages (d_bitfield d) (bf_bits b) (bf_dirty b)).
    set (ft := write_nodes (d_tree d) ws).
    set (fo1 := f_write (d_oplog d) (w_slot bits) (fr ++ pad)).
    set (fo2 := f_truncate fo1 (ENTRIES_OFFSET + 0)).
    assert (Ed3 : d3 = mkDisk ft (d_data d) fb fo2).
    { unfold page_ops in A. rewrite CoreFacts.apply_sops_app, apply_page_writes, CoreFacts.apply_sops_app, apply_node_writes in A.
      cbn [apply_sops apply_sop d_get d_set d_tree d_oplog] in A. injection A as <-. reflexivity. }
    (* the stores during and after the flush *)
    assert (Hws : forall v, In v ws -> nm_get (n_index v) (t_unflushed t) = Some v)
      by (intros v Hv; apply unflushed_nodes_get; assumption).
    assert (Tw : forall ws', (forall v, In v ws' -> In v ws) -> forall m, m <= n ->
                 lookups cr tE (d_tree d) bs m -> lookups cr tE (write_nodes (d_tree d) ws') bs m).
    { intros ws' Hsub m Hm Hl0. apply (lookups_write_nodes cr bs t (d_tree d) ws' n m Hlook Hun Hm); [|exact Hl0].
      intros v Hv. apply Hws, Hsub, Hv. }
    assert (Bw : forall ps, BfY (write_pages (d_bitfield d) (bf_bits b) ps) (updates_of l) (hd_contig hf) n cl)
      by (intros ps; apply BfY_write_pages; assumption).
    assert (Hidx : forall dd o, (o + 1) * p2 dd <= n -> NODE_SIZE * ft_index (N.of_nat dd) o <= u64_max).
    { intros dd o Hfull. pose proof (ft_index_succ (N.of_nat dd) o) as S. fold (p2 dd) in S. pose proof (p2_pos dd).
      unfold NODE_SIZE in *. nia. }
    set (t' := mkTree (t_roots t) (t_length t) (t_byte_length t) (t_fork t) (t_signature t) nm_empty) in *.
    assert (LT' : lookups cr t' ft bs n).
    { intros dd o Hfull.
      apply (tree_flush_preserves_lookups t t' (map node_write ws) d (d_set d Tree ft) _ _
               (tree_flush_ok t Hun) (apply_node_writes ws d) Hun (Hidx dd o Hfull)).
      apply Hlook, Hfull. }
    assert (LT : lookups cr tE ft bs n).
    { intros dd o Hfull. rewrite <- (LT' dd o Hfull). apply required_node_same_unflushed. reflexivity. }
    assert (Hfb : forall i, fbit fb i = held n cl i).
    { intros i. unfold fb. rewrite (BfSync_flush _ _ Hsync i). apply Hbf. }
    assert (BX : BfY fb [] (hd_contig (c_header c)) n cl).
    { apply BfY_exact; [apply len_write_pages, Hby|exact Hfb|].
      apply (fexact_ext (bf_get b)); [exact Hbf|apply exact_contig_fexact, Hcg]. }
    (* a disk whose oplog and data stores are those of d *)
    assert (Old : forall dk, d_data dk = d_data d -> d_oplog dk = d_oplog d ->
                  BfY (d_bitfield dk) (updates_of l) (hd_contig hf) n cl -> lookups cr tE (d_tree dk) bs kf ->
                  YDisk cr (c_keypair c) dk bs cl).
    { intros dk Ed Eo Hb' Ht'. unfold YDisk. fold n. rewrite Ed, Eo.
      split; [exact Hs|]. split; [exact Hn|]. split; [exact Hd|].
      exists s0, s1, body, st0, st1, bits, hf, l, kf.
      split; [exact Hcont|]. split; [left; exact G|]. repeat (split; [assumption|]). exact Hb'. }
    (* the disk after the slot write *)
    assert (Mid : YDisk cr (c_keypair c) (mkDisk ft (d_data d) fb fo1) bs cl).
    { unfold YDisk. fold n. cbn [d_data d_oplog d_tree d_bitfield].
      split; [exact Hs|]. split; [exact Hn|]. split; [exact Hd|].
      exists s0', s1', body, st0', st1', (w_bits bits), (c_header c), [], n.
      split; [unfold fo1; rewrite f_content_write, Hcont; apply Hw|].
      split. { right. split; [reflexivity|]. split; [exact S0|]. split; [exact S1|]. split; [exact Hch'|].
               exists (current_bit bits), l. split; [exact Hcb|exact Hf]. }
      split; [exact Hhc|]. split; [reflexivity|]. split; [exact LT|exact BX]. }
    (* the final state *)
    assert (Hcont3 : f_content fo2 = s0' ++ s1' ++ []).
    { unfold fo2, fo1. rewrite f_content_truncate, f_content_write, Hcont, Hw, N.add_0_r.
      apply c_truncate_all_entries; assumption. }
    assert (X3 : YInv cr (mkCore (c_keypair c) (mkOplog (w_bits bits) 0 0) t' (mkBf (bf_bits b) []) (c_header c) (c_skip c))
                      (mkDisk ft (d_data d) fb fo2) bs cl).
    { split.
      - unfold YW, TInv. cbv zeta. cbn [c_tree c_bitfield c_header d_tree d_data t' t_length t_byte_length t_fork t_roots].
        fold n.
        split.
        { split; [exact HL|]. split; [exact HB|]. split; [exact HF|]. split; [exact HR|]. split; [exact LT'|].
          split. { intros i x H. unfold t' in H. cbn [t_unflushed] in H. rewrite nm_get_empty in H. discriminate H. }
          split; [exact Hs|exact Hn]. }
        split; [exact Hbf|]. split; [exact Hcg|exact Hd].
      - cbn [c_oplog c_keypair c_header c_bitfield ol_bits ol_entries_len ol_entries_bytes d_oplog d_tree d_bitfield].
        fold n. exists s0', s1', [], st0', st1', (c_header c), [], n.
        split; [exact Hcont3|].
        split. { split; [exact S0|]. split; [exact S1|]. split; [exact Hch'|]. split; reflexivity. }
        split; [reflexivity|]. split; [reflexivity|]. split; [exact Hhc|]. split; [exact Hhc|].
        split; [reflexivity|]. split; [exact LT|]. split; [exact BX|].
        intros i Hne. exfalso. apply Hne. rewrite Hfb. apply Hbf. }
    eexists. exists d3. eexists. split; [exact E|]. split; [exact A|].
    rewrite Ed3. split; [exact X3|]. split; [reflexivity|].
    (* the cuts *)
    apply (cuts_app d _ _ _ (d_set d Bitfield fb)).
    { intros k. unfold page_ops. rewrite firstn_map, apply_page_writes. eexists. split; [reflexivity|].
      apply Old; try reflexivity; [apply Bw|exact Hstore]. }
    { unfold page_ops. apply apply_page_writes. }
    apply (cuts_app _ _ _ _ (d_set (d_set d Bitfield fb) Tree ft)).
    { intros k. rewrite firstn_map, apply_node_writes. eexists. split; [reflexivity|].
      apply Old; try reflexivity; [apply Bw|].
      cbn [d_set d_tree]. apply Tw; [intros v Hv; eapply in_firstn; exact Hv|exact Hle|exact Hstore]. }
    { apply apply_node_writes. }
    intros k. destruct k as [|[|k]].
    - eexists. split; [reflexivity|]. apply Old; try reflexivity; [apply Bw|].
      cbn [d_set d_tree]. apply Tw; [intros v Hv; exact Hv|exact Hle|exact Hstore].
    - eexists. split; [reflexivity|]. exact Mid.
    - cbn [firstn]. rewrite firstn_nil. eexists. split; [reflexivity|].
      apply (YInv_YDisk cr _ _ _ _ X3).
  Qed.

  Lemma maybe_flush_Y f c d j ev bs cl :
    YInv cr c d bs cl ->
    exists c' d' fl,
      maybe_flush cr f c (mkWorld d j ev) = (c', mkWorld d' (rev fl ++ j) ev, Ok tt) /\
      apply_sops d fl = Some d' /\ YInv cr c' d' bs cl /\ c_keypair c' = c_keypair c /\
      cuts_ok d fl (fun dk => YDisk cr (c_keypair c) dk bs cl).
  Proof.
    intros X. unfold maybe_flush. rewrite mbind_get_core.
    match goal with |- context [if ?b then _ else _] => destruct b end.
    - rewrite mbind_put_skip.
      destruct (flush_all_Y _ d j ev bs cl (YInv_skip cr c d bs cl 3 X))
        as (c' & d' & fl & E & A & X' & K & C).
      exists c', d', fl. split; [exact E|]. split; [exact A|]. split; [exact X'|]. split; [exact K|exact C].
    - exists (mkCore (c_keypair c) (c_oplog c) (c_tree c) (c_bitfield c) (c_header c) (c_skip c - 1)), d, [].
      split; [reflexivity|]. split; [reflexivity|]. split; [apply YInv_skip, X|]. split; [reflexivity|].
      apply cuts_nil. apply (YInv_YDisk cr c d bs cl X).
  Qed.
End FlushY.

(* ====================================================================================== *)
(* C. Logging one entry that carries a bitfield update                                     *)
(* ====================================================================================== *)

Section LogY.
  Variable cr : crypto.
  Hypothesis Hcrc : crc_ok cr.

  (* c2/d2: the state after the entry e has been written to the oplog and its update u applied to the
     bitfield in memory (header, tree and data store may have changed too, as described by YW for c2/d2) *)
  Lemma log_entry_YInv c d bs cl batch e u o' fr c2 d2 cl' :
    YInv cr c d bs cl ->
    e_bitfield e = Some u -> entry_ok e = true ->
    oplog_append cr (c_oplog c) e = Ok (o', [SW Oplog (ENTRIES_OFFSET + ol_entries_bytes (c_oplog c)) fr]) ->
    c_oplog c2 = o' -> c_keypair c2 = c_keypair c -> c_bitfield c2 = bf_apply (c_bitfield c) u ->
    d_oplog d2 = f_write (d_oplog d) (ENTRIES_OFFSET + ol_entries_bytes (c_oplog c)) fr ->
    d_tree d2 = d_tree d -> d_bitfield d2 = d_bitfield d ->
    YW cr c2 d2 (bs ++ batch) cl' ->
    (forall kf l, gchain cr bs kf l (N.of_nat (length bs)) ->
                  gchain cr (bs ++ batch) kf (l ++ [e]) (N.of_nat (length (bs ++ batch)))) ->
    hdr_desc' (c_keypair c) (c_header c2) (N.of_nat (length (bs ++ batch))) ->
    YInv cr c2 d2 (bs ++ batch) cl'.
  Proof.
    intros (W & s0 & s1 & body & st0 & st1 & hf & l & kf & Hcont & G & Hlen & Hbytes & Hhf & Hhc & Hch &
            Hstore & Hby & Hsync) He Hok OA Eo Ek Eb Edo Edt Edb W2 Hchain Hh2.
    pose proof W as (_ & Hbf & _).
    pose proof W2 as (_ & Hbf2 & _).
    set (n := N.of_nat (length bs)) in *. set (n' := N.of_nat (length (bs ++ batch))) in *.
    set (off := ENTRIES_OFFSET + ol_entries_bytes (c_oplog c)) in *.
    assert (Eol : c_oplog c = oo_oplog (stable_result (ol_bits (c_oplog c)) hf l)).
    { cbn [stable_result oo_oplog]. destruct (c_oplog c) as [bits el eb]. cbn [ol_bits ol_entries_len ol_entries_bytes] in *.
      rewrite Hlen, Hbytes. reflexivity. }
    assert (OA' : oplog_append cr (oo_oplog (stable_result (ol_bits (c_oplog c)) hf l)) e = Ok (o', [SW Oplog off fr]))
      by (rewrite <- Eol; exact OA).
    destruct (append_crash cr Hcrc s0 s1 body st0 st1 _ hf l e o' _ G Hok OA')
      as (fr' & Eops & _ & Cw & G' & _ & Eo' & _).
    injection Eops as Eoff <-.
    assert (Hupd : forall i, held n' cl' i = upd_fun (held n cl) u i).
    { intros i. rewrite <- Hbf2, Eb, bf_get_apply_fun. apply upd_fun_ext, Hbf. }
    split; [exact W2|].
    rewrite Eo, Ek, Eb, Edo, Edt, Edb. fold n'.
    exists s0, s1, (body ++ fr), st0, st1, hf, (l ++ [e]), kf.
    split; [rewrite f_content_write, Hcont, Eoff; exact Cw|].
    split; [rewrite Eo'; exact G'|].
    split; [rewrite Eo'; reflexivity|]. split; [rewrite Eo'; reflexivity|].
    split; [exact Hhf|]. split; [exact Hh2|].
    split; [apply Hchain, Hch|].
    split.
    { intros dd0 o Hfull. rewrite (Hstore dd0 o Hfull). f_equal. symmetry. apply ref_node_app.
      pose proof (gchain_le cr bs l kf n Hch). fold n. lia. }
    split.
    { rewrite updates_of_app, (updates_of_single e u He). apply (BfY_snoc _ _ _ _ n cl); assumption. }
    apply BfSync_apply, Hsync.
  Qed.
End LogY.

(* ====================================================================================== *)
(* D. An append from a YInv state: result and cuts                                         *)
(* ====================================================================================== *)

Section AppendY.
  Variable cr : crypto.
  Hypothesis Hcrc : crc_ok cr.
  Hypothesis Hhash32 : forall x, length (cr_hash cr x) = 32%nat.
  Hypothesis Hnonblank : forall x, all_zero (cr_hash cr x) = false.
  Hypothesis Hhashbytes : forall x, bytes_ok (cr_hash cr x) = true.
  Hypothesis Hsig64 : forall sk m, length (cr_sign cr sk m) = 64%nat.
  Hypothesis Hsigbytes : forall sk m, bytes_ok (cr_sign cr sk m) = true.

  Lemma append_body_Y f batch c d j ev bs cl sk :
    YInv cr c d bs cl -> batch <> [] ->
    sumN (map len (bs ++ batch)) <= u64_max ->
    NODE_SIZE * (2 * N.of_nat (length (bs ++ batch))) <= u64_max ->
    (* the entry does not fit a 30-bit frame: the call panics after the data write; memory is untouched
       and the disk is still a disk of the old state *)
    (exists d1,
       append_body cr f batch sk c c (mkWorld d j ev) =
         (c, mkWorld d1 (SW Data (t_byte_length (c_tree c)) (concat batch) :: j) ev, Panic frame_msg) /\
       apply_sops d [SW Data (t_byte_length (c_tree c)) (concat batch)] = Some d1 /\
       YDisk cr (c_keypair c) d1 bs cl) \/
    exists c' d' delta ev',
      append_body cr f batch sk c c (mkWorld d j ev) = (c', mkWorld d' (rev delta ++ j) ev', Ok tt) /\
      apply_sops d delta = Some d' /\
      YInv cr c' d' (bs ++ batch) (cl_mask cl (N.of_nat (length bs))) /\ c_keypair c' = c_keypair c /\
      (* the cuts: before the entry write (k = 0, 1) the old state, from it on (k >= 2) the new one *)
      forall k, exists dk, apply_sops d (firstn k delta) = Some dk /\
                           if (k <? 2)%nat then YDisk cr (c_keypair c) dk bs cl
                           else YDisk cr (c_keypair c) dk (bs ++ batch) (cl_mask cl (N.of_nat (length bs))).
  Proof.
    intros X Hne Hfit Hidx.
    destruct (append_body cr f batch sk c c (mkWorld d j ev)) as [[c' w'] r] eqn:H.
    pose proof X as (W & s0 & s1 & body & st0 & st1 & hf & l & kf & Hcont & G & Hlen & Hbytes & Hhf & Hhc & Hch &
                     Hstore & Hby & Hsync).
    pose proof W as ((HL & HB & HF & HR & Hlook & Hun & Hs & Hn) & Hbf & Hcg & Hd).
    set (B := bs ++ batch) in *. set (n := N.of_nat (length bs)) in *.
    set (k := N.of_nat (length batch)).
    assert (Hk : 0 < k) by (destruct batch; [congruence|unfold k; cbn [length]; lia]).
    assert (HlenB : N.of_nat (length B) = n + k) by (unfold B, n, k; rewrite app_length; lia).
    assert (HsumB : sumN (map len B) = sumN (map len bs) + sumN (map len batch))
      by (unfold B; rewrite map_app; apply TreeRef.sumN_app).
    set (cs0 := tree_changeset (c_tree c)) in *.
    assert (R0 : cs_roots cs0 = ref_roots cr B n).
    { unfold cs0, B. cbn [tree_changeset cs_roots]. rewrite HR. symmetry. apply ref_roots_app. unfold n. lia. }
    assert (L0 : cs_length cs0 = n) by exact HL.
    assert (Hblk : forall i, (i < length batch)%nat -> nth i batch [] = blk B (n + N.of_nat i))
      by (intros i Hi; apply batch_blk, Hi).
    destruct (cs_append_all_no_panic cr B Hfit batch cs0 n R0 L0 Hblk) as [cs1 Hcs].
    { unfold cs0. cbn [tree_changeset cs_byte_length]. rewrite HB. lia. }
    destruct (cs_append_all_ref cr B batch cs0 cs1 n R0 L0 Hblk Hcs)
      as (R1 & L1 & B1 & BL1 & A1 & F1 & U1 & Sound1).
    destruct (cs_append_all_complete cr B batch cs0 cs1 n R0 L0 Hblk Hcs) as (_ & OL1 & OF1 & Compl1).
    assert (Hn64 : n + k <= 2 ^ 64).
    { rewrite HlenB in Hidx. unfold NODE_SIZE, u64_max in Hidx. change (2 ^ 64) with 18446744073709551616. lia. }
    destruct (cs_append_all_shape cr B batch cs0 cs1 n R0 L0 Hblk Hn64 Hcs) as (new & Enew & Lnew & Shape1).
    unfold cs0 in B1, BL1, A1, F1, OL1, OF1, Sound1, Enew.
    cbn [tree_changeset cs_byte_length cs_batch_length cs_ancestors cs_fork cs_orig_length cs_orig_fork cs_nodes
         cs_rnodes rev_append] in B1, BL1, A1, F1, OL1, OF1, Sound1, Enew.
    rewrite app_nil_r in Enew.
    assert (Sound : forall x, In x (cs_nodes cs1) -> x = ref_at cr B (n_index x)).
    { intros x Hx. destruct (Sound1 x Hx) as [[]|E]. exact E. }
    assert (Shape : forall x, In x (cs_nodes cs1) -> exists jj q, x = ref_node cr B jj q /\ (q + 1) * p2 jj <= n + k).
    { intros x Hx. apply in_cs_nodes in Hx. rewrite Enew in Hx.
      destruct (Shape1 x Hx) as (jj & q & -> & _ & Q2). exists jj, q. split; [reflexivity|exact Q2]. }
    unfold append_body in H. rewrite mbind_lift in H. fold cs0 in H. rewrite Hcs in H. cbv zeta in H.
    rewrite mbind_emit_SW in H. cbn [w_disk w_journal w_events d_get] in H.
    set (cs := cs_hash_and_sign cr cs1 sk) in *.
    set (bu := mkBfUpdate false (cs_ancestors cs) (cs_batch_length cs)) in *.
    assert (Hbu : bu = mkBfUpdate false n k).
    { unfold bu, cs, cs_hash_and_sign, cs_set_hash_sig. cbn [cs_ancestors cs_batch_length].
      rewrite A1, BL1, HL. f_equal; lia. }
    assert (P1 : cs_upgraded cs = true).
    { unfold cs, cs_hash_and_sign, cs_set_hash_sig. cbn [cs_upgraded]. apply U1, Hne. }
    assert (P5 : cs_orig_fork cs = t_fork (c_tree c)).
    { unfold cs, cs_hash_and_sign, cs_set_hash_sig. cbn [cs_orig_fork]. exact OF1. }
    assert (P6 : cs_orig_length cs = t_length (c_tree c)).
    { unfold cs, cs_hash_and_sign, cs_set_hash_sig. cbn [cs_orig_length]. exact OL1. }
    assert (P7 : cs_ancestors cs = t_length (c_tree c)).
    { unfold cs, cs_hash_and_sign, cs_set_hash_sig. cbn [cs_ancestors]. exact A1. }
    set (hash := cs_tree_hash cr cs1) in *.
    set (sg := cr_sign cr sk (cs_signable cs1 hash)) in *.
    assert (Ecs : cs_nodes cs = cs_nodes cs1 /\ cs_fork cs = 0 /\ cs_length cs = n + k /\
                  cs_roots cs = ref_roots cr B (n + k) /\ cs_byte_length cs = sumN (map len B) /\
                  cs_hash cs = Some hash /\ cs_signature cs = Some sg).
    { unfold cs, cs_hash_and_sign, cs_set_hash_sig.
      cbn [cs_nodes cs_rnodes cs_fork cs_length cs_roots cs_byte_length cs_hash cs_signature].
      fold (cs_nodes cs1). rewrite F1, HF, L1, R1, B1, HB, HsumB. repeat split; reflexivity. }
    destruct Ecs as (EN & EF & EL & ER & EB & EH & ES).
    set (e := mkEntry (cs_nodes cs) (Some (mkTreeUpgrade (cs_fork cs) (cs_ancestors cs) (cs_length cs) sg)) (Some bu)).
    assert (Ee : e = mkEntry (cs_nodes cs1) (Some (mkTreeUpgrade 0 n (n + k) sg)) (Some (mkBfUpdate false n (n + k - n)))).
    { unfold e. rewrite EN, EF, EL, P7, HL, Hbu. replace (n + k - n) with k by lia. reflexivity. }
    assert (Heok : entry_ok e = true).
    { rewrite Ee. apply (append_entry_ok cr Hhash32 Hhashbytes B); try assumption.
      - rewrite <- HlenB. exact Hidx.
      - lia.
      - rewrite length_cs_nodes, Enew. replace (n + k - n) with k by lia. unfold k. lia.
      - apply Hsig64.
      - apply Hsigbytes. }
    assert (P4 : forall x, In x (e_nodes e) -> length (n_hash x) = 32%nat).
    { intros x Hx. unfold e in Hx. cbn [e_nodes] in Hx. rewrite EN in Hx. rewrite (Sound x Hx).
      apply ref_at_hash_length, Hhash32. }
    (* the data store after the write *)
    assert (XD0 : YDisk cr (c_keypair c) d bs cl) by (apply (YInv_YDisk cr c d bs cl X)).
    set (offd := t_byte_length (c_tree c)) in *.
    set (fd := f_write (d_data d) offd (concat batch)) in *.
    set (d1 := d_set d Data fd) in *.
    (* the cut after the data write only: still the old state, with junk in the data store *)
    assert (XD1 : YDisk cr (c_keypair c) d1 bs cl).
    { apply (YDisk_data cr (c_keypair c) d d1 bs cl XD0); try reflexivity.
      change (d_data d1) with fd. unfold fd. rewrite HB. apply DataY_write_after, Hd. }
    destruct (oplog_append_cases cr (c_oplog c) e P4) as [OA|(o' & fr & OA)].
    { match type of H with
      | mbind (log_and_commit _ _ _) _ ?c0 ?w0 = _ =>
          pose proof (log_and_commit_panic cr cs bu c0 w0 hash sg frame_msg P1 EH ES OA) as E
      end.
      rewrite (mbind_panic _ _ _ _ _ _ _ E) in H. injection H as <- <- <-. left.
      exists d1. split; [reflexivity|]. split; [reflexivity|exact XD1]. }
    match type of H with
    | mbind (log_and_commit _ _ _) _ ?c0 ?w0 = _ =>
        pose proof (log_and_commit_detail cr cs bu c0 w0 hash sg o' _ fr P1 EH ES P5 P6 P7 OA) as E
    end.
    rewrite (mbind_eq _ _ _ _ _ _ _ E) in H. clear E.
    cbn [w_disk w_journal w_events] in H.
    rewrite EN, EF, EL, ER, EB in H.
    set (off := ENTRIES_OFFSET + ol_entries_bytes (c_oplog c)) in *.
    set (d2 := d_set d1 Oplog (f_write (d_oplog d1) off fr)) in *.
    (* the state after the commit satisfies the invariant for the longer list *)
    match type of H with
    | mbind (maybe_flush _ _) _ ?c2 (mkWorld _ ?j2 ?ev2) = _ =>
        assert (X2 : YInv cr c2 d2 B (cl_mask cl n)); [|set (c2' := c2) in *]
    end.
    { assert (Tsame : d_tree d2 = d_tree d) by reflexivity.
      assert (Dsame : d_data d2 = fd) by reflexivity.
      assert (Bsame : d_bitfield d2 = d_bitfield d) by reflexivity.
      assert (Osame : d_oplog d2 = f_write (d_oplog d) off fr) by reflexivity.
      assert (GG : forall i, bf_get (bf_apply (c_bitfield c) bu) i = held (N.of_nat (length B)) (cl_mask cl n) i).
      { intros i. rewrite bf_get_apply, Hbu, HlenB. cbn [bu_start bu_length bu_drop negb]. rewrite Hbf.
        unfold held, cl_mask. fold n.
        destruct (N.leb_spec n i), (N.ltb_spec i (n + k)), (N.ltb_spec i n); cbn [andb];
          rewrite ?andb_false_r, ?andb_true_r; cbn [negb]; try reflexivity; lia. }
      assert (Hex2 : exact_contig (bf_apply (c_bitfield c) bu)
                                  (update_contig (hd_contig (c_header c)) (bf_apply (c_bitfield c) bu) bu)).
      { apply update_contig_exact; [exact Hcg|]. rewrite Hbu. cbn [bu_length]. exact Hk. }
      match goal with |- YInv cr ?c2 ?d2 B _ => assert (W2 : YW cr c2 d2 B (cl_mask cl n)) end.
      { unfold YW, TInv. cbv zeta. cbn [c_tree c_bitfield c_header t_length t_byte_length t_fork t_roots].
        rewrite Tsame, Dsame.
        split.
        { split; [symmetry; exact HlenB|].
          split; [reflexivity|].
          split; [reflexivity|].
          split; [rewrite HlenB; reflexivity|].
          split.
          { apply (commit_lookups cr Hnonblank bs batch (c_tree c) _ (d_tree d) (cs_nodes cs1)).
            - exact Sound.
            - intros jj q Q1 Q2. apply Compl1; [exact Q1|]. fold B in Q2. rewrite HlenB in Q2. exact Q2.
            - reflexivity.
            - exact Hlook. }
          split.
          { apply (commit_unflushed_ok cr Hhash32 B (c_tree c) _ (cs_nodes cs1) Hfit Sound); [reflexivity|exact Hun]. }
          split; [exact Hfit|exact Hidx]. }
        split; [exact GG|].
        split; [cbn [set_contig hd_contig]; exact Hex2|].
        unfold fd. rewrite HB. apply DataY_append, Hd. }
      apply (log_entry_YInv cr Hcrc c d bs cl batch e bu o' fr _ _ (cl_mask cl n) X);
        try reflexivity; try assumption.
      - intros kf0 l0 Hch0. apply (gchain_snoc_append cr B l0 kf0 n e).
        + apply gchain_app; [apply N.le_refl|exact Hch0].
        + fold B. rewrite HlenB. rewrite Ee. split; [lia|]. split.
          { exists sg. split; [reflexivity|]. split; [apply Hsig64|apply Hsigbytes]. }
          split; [reflexivity|]. cbn [e_nodes]. split; [exact Shape|].
          intros jj q Q1 Q2. apply Compl1; assumption.
      - cbn [c_header]. fold B. rewrite HlenB.
        destruct Hhc as (Hok & Hkp & Hfk & Hln & Hrh & Hsgc).
        apply (hdr_desc'_upd (c_keypair c) (c_header c) n _ (n + k) hash sg); try reflexivity.
        + repeat split; assumption.
        + cbn [set_contig set_tree hd_tree]. rewrite Hfk. reflexivity.
        + cbn [set_contig hd_contig].
          assert (update_contig (hd_contig (c_header c)) (bf_apply (c_bitfield c) bu) bu <= n + k); [|unfold NODE_SIZE in Hidx; lia].
          apply (fexact_le (bf_get (bf_apply (c_bitfield c) bu))); [|apply exact_contig_fexact, Hex2].
          intros i Hi. rewrite GG, HlenB in Hi. apply (held_lt _ _ _ Hi).
        + rewrite <- HlenB. unfold NODE_SIZE in Hidx. lia.
        + apply Hhash32.
        + apply Hhashbytes.
        + apply Hsig64.
        + apply Hsigbytes. }
    assert (K2 : c_keypair c2' = c_keypair c) by reflexivity.
    destruct (maybe_flush_Y cr Hhash32 Hnonblank f c2' d2 (SW Oplog off fr :: SW Data offd (concat batch) :: j) ev B _ X2)
      as (c3 & d3 & fl & E & A3 & X3 & K3 & C3).
    rewrite (mbind_eq _ _ _ _ _ _ _ E) in H.
    rewrite !mbind_send in H. unfold send in H. cbn [w_disk w_journal w_events] in H.
    injection H as <- <- <-. right.
    exists c3, d3, (SW Data offd (concat batch) :: SW Oplog off fr :: fl). eexists.
    split.
    { cbn [rev]. rewrite <- !app_assoc. reflexivity. }
    split.
    { cbn [apply_sops apply_sop d_get]. exact A3. }
    split; [exact X3|]. split; [rewrite K3; exact K2|].
    intros k0. destruct k0 as [|[|k0]].
    - exists d. split; [reflexivity|exact XD0].
    - exists d1. split; [reflexivity|exact XD1].
    - destruct (C3 k0) as (dk & Ak & Xk). exists dk. split.
      + cbn [firstn apply_sops apply_sop d_get]. exact Ak.
      + change (YDisk cr (c_keypair c) dk B (cl_mask cl n)). rewrite <- K2. exact Xk.
  Qed.
End AppendY.

(* ====================================================================================== *)
(* E. core_append: preservation of YInv and the cuts                                       *)
(* ====================================================================================== *)

Section CoreAppendY.
  Variable cr : crypto.
  Hypothesis Hcrc : crc_ok cr.
  Hypothesis Hhash32 : forall x, length (cr_hash cr x) = 32%nat.
  Hypothesis Hnonblank : forall x, all_zero (cr_hash cr x) = false.
  Hypothesis Hhashbytes : forall x, bytes_ok (cr_hash cr x) = true.
  Hypothesis Hsig64 : forall sk m, length (cr_sign cr sk m) = 64%nat.
  Hypothesis Hsigbytes : forall sk m, bytes_ok (cr_sign cr sk m) = true.

  Lemma cl_mask_below cl n i : i < n -> cl_mask cl n i = cl i.
  Proof. intros H. unfold cl_mask. assert (i <? n = true) as -> by lia. apply andb_true_r. Qed.

  (* the run of an append from a YInv state: result, journal, final state, and every cut *)
  Theorem append_Y f batch c d j ev bs cl sk :
    YInv cr c d bs cl -> kp_secret (c_keypair c) = Some sk ->
    sumN (map len (bs ++ batch)) <= u64_max ->
    NODE_SIZE * (2 * N.of_nat (length (bs ++ batch))) <= u64_max ->
    (* the oplog entry does not fit a 30-bit frame: panic after the data write, memory untouched, the disk
       is still a disk of the old state *)
    (exists d1,
       core_append cr f batch c (mkWorld d j ev) =
         (c, mkWorld d1 (SW Data (t_byte_length (c_tree c)) (concat batch) :: j) ev, Panic frame_msg) /\
       apply_sops d [SW Data (t_byte_length (c_tree c)) (concat batch)] = Some d1 /\
       YDisk cr (c_keypair c) d1 bs cl) \/
    exists c' d' delta ev',
      core_append cr f batch c (mkWorld d j ev) =
        (c', mkWorld d' (rev delta ++ j) ev',
         Ok (N.of_nat (length (bs ++ batch)), sumN (map len (bs ++ batch)))) /\
      apply_sops d delta = Some d' /\
      YInv cr c' d' (bs ++ batch) (cl_mask cl (N.of_nat (length bs))) /\ c_keypair c' = c_keypair c /\
      forall k, exists dk, apply_sops d (firstn k delta) = Some dk /\
                           if (k <? 2)%nat then YDisk cr (c_keypair c) dk bs cl
                           else YDisk cr (c_keypair c) dk (bs ++ batch) (cl_mask cl (N.of_nat (length bs))).
  Proof.
    intros X Hsk Hfit Hidx.
    unfold core_append. rewrite mbind_get_core, Hsk.
    destruct batch as [|b0 rest].
    - right. rewrite mbind_ret, mbind_get_core. unfold ret.
      exists c, d, [], ev. rewrite app_nil_r.
      pose proof (YInv_YW cr c d bs cl X) as ((HL & HB & _) & _). rewrite HL, HB.
      assert (E : forall i, i < N.of_nat (length bs) -> cl_mask cl (N.of_nat (length bs)) i = cl i)
        by (intros i Hi; apply cl_mask_below, Hi).
      split; [reflexivity|]. split; [reflexivity|].
      split; [apply (YInv_cl_ext cr c d bs cl _ E X)|]. split; [reflexivity|].
      intros k. exists d. rewrite firstn_nil. split; [reflexivity|].
      pose proof (YInv_YDisk cr c d bs cl X) as XD.
      destruct (k <? 2)%nat; [exact XD|apply (YDisk_cl_ext cr _ d bs cl _ E XD)].
    - cbv iota. fold (append_body cr f (b0 :: rest) sk c).
      destruct (append_body_Y cr Hcrc Hhash32 Hnonblank Hhashbytes Hsig64 Hsigbytes
                  f (b0 :: rest) c d j ev bs cl sk X ltac:(discriminate) Hfit Hidx)
        as [(d1 & E & A & XD)|(c1 & d1 & delta & ev1 & E & A & X1 & K1 & C1)].
      + left. rewrite (mbind_panic _ _ _ _ _ _ _ E). exists d1. split; [reflexivity|]. split; [exact A|exact XD].
      + right. rewrite (mbind_eq _ _ _ _ _ _ _ E), mbind_get_core. unfold ret.
        pose proof (YInv_YW cr _ _ _ _ X1) as ((HL & HB & _) & _). rewrite HL, HB.
        exists c1, d1, delta, ev1.
        split; [reflexivity|]. split; [exact A|]. split; [exact X1|]. split; [exact K1|exact C1].
  Qed.

  (* core_append preserves YInv, for every flush decision *)
  Theorem append_YInv f batch c d j ev bs cl sk c' w' r :
    YInv cr c d bs cl -> kp_secret (c_keypair c) = Some sk ->
    sumN (map len (bs ++ batch)) <= u64_max ->
    NODE_SIZE * (2 * N.of_nat (length (bs ++ batch))) <= u64_max ->
    core_append cr f batch c (mkWorld d j ev) = (c', w', r) ->
    r = Panic frame_msg \/
    (r = Ok (N.of_nat (length (bs ++ batch)), sumN (map len (bs ++ batch))) /\
     YInv cr c' (w_disk w') (bs ++ batch) (cl_mask cl (N.of_nat (length bs))) /\ c_keypair c' = c_keypair c).
  Proof.
    intros X Hsk Hfit Hidx H.
    destruct (append_Y f batch c d j ev bs cl sk X Hsk Hfit Hidx)
      as [(d1 & E & _)|(c1 & d1 & delta & ev1 & E & A & X1 & K1 & C1)]; rewrite E in H; injection H as <- <- <-.
    - left. reflexivity.
    - right. split; [reflexivity|]. split; [exact X1|exact K1].
  Qed.
End CoreAppendY.

(* ====================================================================================== *)
(* F. core_clear: preservation of YInv and the cuts                                        *)
(* ====================================================================================== *)

Section ClearY.
  Variable cr : crypto.
  Hypothesis Hcrc : crc_ok cr.
  Hypothesis Hhash32 : forall x, length (cr_hash cr x) = 32%nat.
  Hypothesis Hnonblank : forall x, all_zero (cr_hash cr x) = false.
  Hypothesis Hhashbytes : forall x, bytes_ok (cr_hash cr x) = true.

  (* clear(start, end_) with start < end_ (end_ possibly beyond the length, a u64), start < length, for every
     flush decision, from a YInv state.  The journal is: the oplog entry write (the commit point), then the
     delete of the hole in the data store (when there is one), then the flush group.  Every cut is a crash
     disk of the state before (k = 0) or after (k >= 1) the clear. *)
  Theorem clear_Y f c d j ev bs cl start end_ :
    let n := N.of_nat (length bs) in
    YInv cr c d bs cl -> start < n -> start < end_ -> end_ <= u64_max ->
    exists c' d' delta,
      core_clear cr f start end_ c (mkWorld d j ev) = (c', mkWorld d' (rev delta ++ j) ev, Ok tt) /\
      apply_sops d delta = Some d' /\
      YInv cr c' d' bs (cl_clear cl start end_) /\ c_keypair c' = c_keypair c /\
      (exists fr rest, delta = SW Oplog (ENTRIES_OFFSET + ol_entries_bytes (c_oplog c)) fr :: rest) /\
      forall k, exists dk, apply_sops d (firstn k delta) = Some dk /\
                           YDisk cr (c_keypair c) dk bs (if (k <? 1)%nat then cl else cl_clear cl start end_).
  Proof.
    intros n X Hsn Hse Hend.
    destruct (core_clear cr f start end_ c (mkWorld d j ev)) as [[c' w'] r] eqn:H.
    pose proof (YInv_YW cr c d bs cl X) as W.
    assert (Hhc : hdr_desc' (c_keypair c) (c_header c) n).
    { destruct X as (_ & s0 & s1 & body & st0 & st1 & hf & l & kf & _ & _ & _ & _ & _ & Hhc & _). exact Hhc. }
    pose proof W as (T & Hbf & Hcg & Hd).
    pose proof T as (HL & HB & HF & HR & Hlook & Hun & Hs & Hn).
    unfold core_clear in H.
    destruct (N.leb_spec end_ start) as [L|_]; [lia|].
    rewrite mbind_get_core in H. cbv zeta in H. rewrite mbind_lift in H.
    destruct (clear_entry_logged cr (c_oplog c) start (end_ - start)) as (o' & fr & OA). rewrite OA in H.
    cbv iota in H.
    rewrite mbind_put_oplog, mbind_emit_SW, mbind_put_bitfield, mbind_cond_header in H.
    cbn [c_keypair c_oplog c_tree c_bitfield c_header c_skip w_disk w_journal w_events d_get] in H.
    rewrite mbind_get_disk in H. cbn [w_disk] in H.
    set (cl' := cl_clear cl start end_).
    set (u := mkBfUpdate true start (end_ - start)) in *.
    set (e := mkEntry [] None (Some u)) in *.
    set (b' := bf_set_range (c_bitfield c) start (end_ - start) false) in *.
    set (off := ENTRIES_OFFSET + ol_entries_bytes (c_oplog c)) in *.
    set (d1 := d_set d Oplog (f_write (d_oplog d) off fr)) in *.
    assert (Dt : d_tree d1 = d_tree d) by (destruct d; reflexivity).
    assert (Dd : d_data d1 = d_data d) by (destruct d; reflexivity).
    assert (Db : d_bitfield d1 = d_bitfield d) by (destruct d; reflexivity).
    assert (Do : d_oplog d1 = f_write (d_oplog d) off fr) by (destruct d; reflexivity).
    assert (Hb' : forall i, bf_get b' i = held n cl' i).
    { intros i. unfold b'. rewrite bf_get_set_range, Hbf. unfold held, cl', cl_clear.
      replace (start + (end_ - start)) with end_ by lia.
      destruct ((start <=? i) && (i <? end_)); [rewrite orb_true_r; cbn [negb]; rewrite andb_false_r; reflexivity|].
      rewrite orb_false_r. reflexivity. }
    assert (Hcl' : forall i, start <= i -> i < end_ -> cl' i = true).
    { intros i A B. unfold cl', cl_clear. assert ((start <=? i) && (i <? end_) = true) as -> by lia.
      apply orb_true_r. }
    assert (Hsub : forall i, held n cl' i = true -> held n cl i = true).
    { intros i. unfold held, cl', cl_clear. destruct (i <? n); [|intros E; exact E]. cbn [andb].
      destruct (cl i); [intros E; exact E|reflexivity]. }
    pose proof (hole_bounds b' n start end_ cl' Hb' Hsn Hse Hcl') as HB'. cbv zeta in HB'. fold n in HL.
    rewrite HL in H.
    set (s' := match bf_last_index_of_true b' start with Some i => i + 1 | None => 0 end) in *.
    set (e' := match bf_index_of_true b' end_ with Some i => i | None => n end) in *.
    destruct HB' as (B1 & B2 & B3 & B4 & B5).
    rewrite Dt in H.
    rewrite mbind_lift, (byte_offset_tinv cr (c_tree c) (d_tree d) bs s' T) in H by (fold n; lia).
    rewrite mbind_lift in H. unfold sub64 at 1 in H.
    destruct (N.leb_spec 1 e') as [_|L]; [|lia].
    rewrite mbind_lift, (byte_range_tinv cr (c_tree c) (d_tree d) bs (e' - 1) T) in H by (fold n; lia).
    cbv iota in H.
    assert (Pe : prefix_size bs (e' - 1) + len (nth (N.to_nat (e' - 1)) bs []) = prefix_size bs e').
    { change (nth (N.to_nat (e' - 1)) bs []) with (blk bs (e' - 1)). rewrite <- prefix_size_succ. f_equal. lia. }
    rewrite Pe in H. rewrite mbind_lift in H. unfold sub64 in H.
    pose proof (prefix_size_mono bs s' e' ltac:(lia)) as Pm.
    destruct (N.leb_spec (prefix_size bs s') (prefix_size bs e')) as [_|L]; [|lia].
    (* the state after the entry write satisfies the invariant for the larger cleared set *)
    match type of H with
    | mbind _ _ ?c2 _ = _ => assert (W2 : YW cr c2 d1 bs cl'); [|set (c2' := c2) in *]
    end.
    { unfold YW. cbv zeta. cbn [c_tree c_bitfield c_header]. rewrite Dt, Dd. fold n.
      split; [exact T|]. split; [exact Hb'|]. split.
      - destruct Hcg as [G1 G2]. destruct (N.ltb_spec start (hd_contig (c_header c))) as [A|A].
        + cbn [set_contig hd_contig]. split.
          * intros i Hi. unfold b'. rewrite bf_get_set_range.
            assert ((start <=? i) && (i <? start + (end_ - start)) = false) as -> by lia. apply G1. lia.
          * unfold b'. rewrite bf_get_set_range.
            assert ((start <=? start) && (start <? start + (end_ - start)) = true) as -> by lia. reflexivity.
        + split.
          * intros i Hi. unfold b'. rewrite bf_get_set_range.
            assert ((start <=? i) && (i <? start + (end_ - start)) = false) as -> by lia. apply G1. lia.
          * unfold b'. rewrite bf_get_set_range.
            destruct ((start <=? hd_contig (c_header c)) && (hd_contig (c_header c) <? start + (end_ - start)));
              [reflexivity|exact G2].
      - apply (DataY_sub _ _ cl); [exact Hsub|exact Hd]. }
    assert (Hn64 : n <= u64_max) by (unfold NODE_SIZE in Hn; fold n in Hn; lia).
    assert (Hcd : cdesc e).
    { exists start, (end_ - start). split; [reflexivity|]. split; [lia|]. split; lia. }
    assert (F2 : YInv cr c2' d1 (bs ++ []) cl').
    { apply (log_entry_YInv cr Hcrc c d bs cl [] e u o' fr c2' d1 cl' X);
        try reflexivity; try assumption.
      - apply cdesc_entry_ok, Hcd.
      - rewrite app_nil_r. exact W2.
      - intros kf0 l0 Hch0. rewrite app_nil_r. apply gchain_snoc_clear; assumption.
      - rewrite app_nil_r. fold n. unfold c2'. cbn [c_header].
        destruct (start <? hd_contig (c_header c)); [|exact Hhc]. apply hdr_desc'_contig; [exact Hhc|lia]. }
    rewrite app_nil_r in F2.
    assert (K2 : c_keypair c2' = c_keypair c) by reflexivity.
    assert (XD0 : YDisk cr (c_keypair c) d bs cl) by (apply (YInv_YDisk cr c d bs cl X)).
    assert (XD1 : YDisk cr (c_keypair c) d1 bs cl') by (rewrite <- K2; apply (YInv_YDisk cr c2' d1 bs cl' F2)).
    rewrite Dd in H.
    destruct ((0 <? prefix_size bs e' - prefix_size bs s') && (prefix_size bs s' <? f_len (d_data d))) eqn:G.
    - (* a delete is issued; it starts inside the store *)
      destruct (f_del_some (d_data d) (prefix_size bs s') (prefix_size bs e' - prefix_size bs s') ltac:(lia))
        as [f' Edel].
      rewrite (mbind_emit_SD_some Data _ _ f') in H by (cbn [w_disk d_get]; rewrite Dd; exact Edel).
      cbn [w_disk w_journal w_events] in H.
      destruct W2 as (T2 & Hbf2 & Hcg2 & Hd2). rewrite Dd in Hd2.
      pose proof (del_hole_preserves_Y bs cl' s' e' (d_data d) f' ltac:(lia) B4 Hd2 Edel) as Hd3.
      set (d2 := d_set d1 Data f') in *.
      assert (F3 : YInv cr c2' d2 bs cl').
      { apply (YInv_data cr c2' d1 d2 bs cl' F2); try (destruct d1; reflexivity).
        assert (d_data d2 = f') as -> by (destruct d1; reflexivity). exact Hd3. }
      assert (XD2 : YDisk cr (c_keypair c) d2 bs cl') by (rewrite <- K2; apply (YInv_YDisk cr c2' d2 bs cl' F3)).
      match type of H with maybe_flush _ _ _ (mkWorld _ ?j2 _) = _ =>
        destruct (maybe_flush_Y cr Hhash32 Hnonblank f c2' d2 j2 ev bs cl' F3)
          as (c3 & d3 & fl & E & A3 & X3 & K3 & C3)
      end.
      rewrite E in H. injection H as <- <- <-.
      set (sd := SD Data (prefix_size bs s') (prefix_size bs e' - prefix_size bs s')) in *.
      exists c3, d3, (SW Oplog off fr :: sd :: fl).
      split. { cbn [rev]. rewrite <- !app_assoc. reflexivity. }
      assert (Asd : apply_sop d1 sd = Some d2).
      { unfold sd. cbn [apply_sop d_get]. rewrite Dd, Edel. reflexivity. }
      split. { cbn [apply_sops apply_sop d_get]. fold d1. rewrite Asd. exact A3. }
      split; [exact X3|]. split; [rewrite K3; exact K2|].
      split; [exists fr; eexists; reflexivity|].
      intros k0. destruct k0 as [|[|k0]].
      + exists d. split; [reflexivity|exact XD0].
      + exists d1. split; [reflexivity|exact XD1].
      + destruct (C3 k0) as (dk & Ak & Xk). exists dk. split.
        * cbn [firstn apply_sops apply_sop d_get]. fold d1. rewrite Asd. exact Ak.
        * change (YDisk cr (c_keypair c) dk bs cl'). rewrite <- K2. exact Xk.
    - (* no delete is issued: the data store is unchanged *)
      rewrite mbind_ret in H.
      match type of H with maybe_flush _ _ _ (mkWorld _ ?j2 _) = _ =>
        destruct (maybe_flush_Y cr Hhash32 Hnonblank f c2' d1 j2 ev bs cl' F2)
          as (c3 & d3 & fl & E & A3 & X3 & K3 & C3)
      end.
      rewrite E in H. injection H as <- <- <-.
      exists c3, d3, (SW Oplog off fr :: fl).
      split. { cbn [rev]. rewrite <- !app_assoc. reflexivity. }
      split. { cbn [apply_sops apply_sop d_get]. exact A3. }
      split; [exact X3|]. split; [rewrite K3; exact K2|].
      split; [exists fr; eexists; reflexivity|].
      intros k0. destruct k0 as [|k0].
      + exists d. split; [reflexivity|exact XD0].
      + destruct (C3 k0) as (dk & Ak & Xk). exists dk. split.
        * cbn [firstn apply_sops apply_sop d_get]. exact Ak.
        * change (YDisk cr (c_keypair c) dk bs cl'). rewrite <- K2. exact Xk.
  Qed.

  (* core_clear preserves YInv, for every flush decision *)
  Theorem clear_YInv f c d j ev bs cl start end_ c' w' r :
    let n := N.of_nat (length bs) in
    YInv cr c d bs cl -> start < n -> start < end_ -> end_ <= u64_max ->
    core_clear cr f start end_ c (mkWorld d j ev) = (c', w', r) ->
    r = Ok tt /\ YInv cr c' (w_disk w') bs (cl_clear cl start end_) /\ c_keypair c' = c_keypair c.
  Proof.
    intros n X Hsn Hse Hend H.
    destruct (clear_Y f c d j ev bs cl start end_ X Hsn Hse Hend) as (c1 & d1 & delta & E & _ & X1 & K1 & _).
    rewrite E in H. injection H as <- <- <-. split; [reflexivity|]. split; [exact X1|exact K1].
  Qed.
End ClearY.

(* ====================================================================================== *)
(* G. The cut theorems: die anywhere inside an append or a clear, reopen                   *)
(* ====================================================================================== *)

Section CutsY.
  Variable cr : crypto.
  Hypothesis Hcrc : crc_ok cr.
  Hypothesis Hhash32 : forall x, length (cr_hash cr x) = 32%nat.
  Hypothesis Hnonblank : forall x, all_zero (cr_hash cr x) = false.
  Hypothesis Hhashbytes : forall x, bytes_ok (cr_hash cr x) = true.
  Hypothesis Hsig64 : forall sk m, length (cr_sign cr sk m) = 64%nat.
  Hypothesis Hsigbytes : forall sk m, bytes_ok (cr_sign cr sk m) = true.

  Lemma journal_unique (delta delta0 j : list sop) : rev delta0 ++ j = rev delta ++ j -> delta0 = delta.
  Proof.
    intros Hj. apply app_inv_tail in Hj. apply (f_equal (@rev sop)) in Hj. rewrite !rev_involutive in Hj. exact Hj.
  Qed.

  (* the process dies after any k operations of the journal of a successful append; reopening the disk reached
     succeeds and gives the state before the call (k = 0: nothing written; k = 1: only the data write) or the
     state after it (k >= 2: the oplog entry is written), with the same key pair *)
  Theorem append_cut_recovers_Y f batch c d j ev bs cl sk c' w' x delta :
    YInv cr c d bs cl -> kp_secret (c_keypair c) = Some sk ->
    sumN (map len (bs ++ batch)) <= u64_max ->
    NODE_SIZE * (2 * N.of_nat (length (bs ++ batch))) <= u64_max ->
    core_append cr f batch c (mkWorld d j ev) = (c', w', Ok x) ->
    w_journal w' = rev delta ++ j ->
    forall k, exists dk,
      apply_sops d (firstn k delta) = Some dk /\
      exists ck dk' ops,
        core_open cr None true dk = (dk', ops, Ok ck) /\
        (if (k <? 2)%nat then YInv cr ck dk' bs cl
         else YInv cr ck dk' (bs ++ batch) (cl_mask cl (N.of_nat (length bs)))) /\
        c_keypair ck = c_keypair c /\ c_skip ck = 0.
  Proof.
    intros X Hsk Hfit Hidx H Hj k.
    destruct (append_Y cr Hcrc Hhash32 Hnonblank Hhashbytes Hsig64 Hsigbytes f batch c d j ev bs cl sk X Hsk Hfit Hidx)
      as [(d1 & E & _)|(c1 & d1 & delta0 & ev1 & E & A & X1 & K1 & C1)]; rewrite E in H; [discriminate H|].
    injection H as <- <- <-. cbn [w_journal] in Hj. apply journal_unique in Hj. subst delta0.
    destruct (C1 k) as (dk & Ak & XD). exists dk. split; [exact Ak|].
    destruct (k <? 2)%nat.
    - destruct (reopen_Y cr Hcrc Hhash32 Hnonblank Hhashbytes (c_keypair c) dk _ _ XD)
        as (ck & dk' & ops & Eo & Xk & Kk & Sk & _).
      exists ck, dk', ops. split; [exact Eo|]. split; [exact Xk|]. split; [exact Kk|exact Sk].
    - destruct (reopen_Y cr Hcrc Hhash32 Hnonblank Hhashbytes (c_keypair c) dk _ _ XD)
        as (ck & dk' & ops & Eo & Xk & Kk & Sk & _).
      exists ck, dk', ops. split; [exact Eo|]. split; [exact Xk|]. split; [exact Kk|exact Sk].
  Qed.

  (* an append that panics (30-bit frame guard) dies after its data write: reopening gives the state before *)
  Theorem append_panic_recovers_Y f batch c d j ev bs cl sk c' w' s :
    YInv cr c d bs cl -> kp_secret (c_keypair c) = Some sk ->
    sumN (map len (bs ++ batch)) <= u64_max ->
    NODE_SIZE * (2 * N.of_nat (length (bs ++ batch))) <= u64_max ->
    core_append cr f batch c (mkWorld d j ev) = (c', w', Panic s) ->
    s = frame_msg /\ c' = c /\ w_events w' = ev /\
    exists o, w_journal w' = o :: j /\ apply_sop d o = Some (w_disk w') /\
    exists ck dk' ops,
      core_open cr None true (w_disk w') = (dk', ops, Ok ck) /\
      YInv cr ck dk' bs cl /\ c_keypair ck = c_keypair c.
  Proof.
    intros X Hsk Hfit Hidx H.
    destruct (append_Y cr Hcrc Hhash32 Hnonblank Hhashbytes Hsig64 Hsigbytes f batch c d j ev bs cl sk X Hsk Hfit Hidx)
      as [(d1 & E & A & XD)|(c1 & d1 & delta0 & ev1 & E & _)]; rewrite E in H; [|discriminate H].
    injection H as <- <- <-. split; [reflexivity|]. split; [reflexivity|]. split; [reflexivity|].
    eexists. split; [reflexivity|]. cbn [w_disk].
    split. { cbn [apply_sops] in A. destruct (apply_sop d _) as [dx|]; [exact A|discriminate A]. }
    destruct (reopen_Y cr Hcrc Hhash32 Hnonblank Hhashbytes (c_keypair c) d1 bs cl XD)
      as (ck & dk' & ops & Eo & Xk & Kk & _).
    exists ck, dk', ops. split; [exact Eo|]. split; [exact Xk|exact Kk].
  Qed.

  (* the process dies after any k operations of the journal of a clear; reopening the disk reached succeeds and
     gives the state before the call (k = 0) or the state after it (k >= 1: the oplog entry is written; the
     hole in the data store may not have been punched yet — the cleared blocks are simply not held) *)
  Theorem clear_cut_recovers_Y f c d j ev bs cl start end_ c' w' r delta :
    let n := N.of_nat (length bs) in
    YInv cr c d bs cl -> start < n -> start < end_ -> end_ <= u64_max ->
    core_clear cr f start end_ c (mkWorld d j ev) = (c', w', r) ->
    w_journal w' = rev delta ++ j ->
    r = Ok tt /\
    forall k, exists dk,
      apply_sops d (firstn k delta) = Some dk /\
      exists ck dk' ops,
        core_open cr None true dk = (dk', ops, Ok ck) /\
        YInv cr ck dk' bs (if (k <? 1)%nat then cl else cl_clear cl start end_) /\
        c_keypair ck = c_keypair c /\ c_skip ck = 0.
  Proof.
    intros n X Hsn Hse Hend H Hj.
    destruct (clear_Y cr Hcrc Hhash32 Hnonblank Hhashbytes f c d j ev bs cl start end_ X Hsn Hse Hend)
      as (c1 & d1 & delta0 & E & A & X1 & K1 & _ & C1).
    rewrite E in H. injection H as <- <- <-. split; [reflexivity|]. intros k.
    cbn [w_journal] in Hj. apply journal_unique in Hj. subst delta0.
    destruct (C1 k) as (dk & Ak & XD). exists dk. split; [exact Ak|].
    destruct (reopen_Y cr Hcrc Hhash32 Hnonblank Hhashbytes (c_keypair c) dk _ _ XD)
      as (ck & dk' & ops & Eo & Xk & Kk & Sk & _).
    exists ck, dk', ops. split; [exact Eo|]. split; [exact Xk|]. split; [exact Kk|exact Sk].
  Qed.

  (* with the observations spelled out: after the cut and the reopen, info / has / get are those of the model
     "list of blocks + cleared set" for the state before or the state after the call *)
  Corollary clear_cut_observations f c d j ev bs cl start end_ c' w' r delta :
    let n := N.of_nat (length bs) in
    YInv cr c d bs cl -> start < n -> start < end_ -> end_ <= u64_max ->
    core_clear cr f start end_ c (mkWorld d j ev) = (c', w', r) ->
    w_journal w' = rev delta ++ j ->
    forall k, exists dk,
      apply_sops d (firstn k delta) = Some dk /\
      exists ck dk' ops,
        core_open cr None true dk = (dk', ops, Ok ck) /\
        (obs_cleared ck dk' bs cl \/ obs_cleared ck dk' bs (cl_clear cl start end_)).
  Proof.
    intros n X Hsn Hse Hend H Hj k.
    destruct (clear_cut_recovers_Y f c d j ev bs cl start end_ c' w' r delta X Hsn Hse Hend H Hj) as [_ C].
    destruct (C k) as (dk & A & ck & dk' & ops & E & Xk & _).
    exists dk. split; [exact A|]. exists ck, dk', ops. split; [exact E|].
    pose proof (YInv_observations cr ck dk' _ _ Xk) as O.
    destruct (k <? 1)%nat; [left|right]; exact O.
  Qed.

  Corollary append_cut_observations_Y f batch c d j ev bs cl sk c' w' x delta :
    YInv cr c d bs cl -> kp_secret (c_keypair c) = Some sk ->
    sumN (map len (bs ++ batch)) <= u64_max ->
    NODE_SIZE * (2 * N.of_nat (length (bs ++ batch))) <= u64_max ->
    core_append cr f batch c (mkWorld d j ev) = (c', w', Ok x) ->
    w_journal w' = rev delta ++ j ->
    forall k, exists dk,
      apply_sops d (firstn k delta) = Some dk /\
      exists ck dk' ops,
        core_open cr None true dk = (dk', ops, Ok ck) /\
        (obs_cleared ck dk' bs cl \/ obs_cleared ck dk' (bs ++ batch) (cl_mask cl (N.of_nat (length bs)))).
  Proof.
    intros X Hsk Hfit Hidx H Hj k.
    destruct (append_cut_recovers_Y f batch c d j ev bs cl sk c' w' x delta X Hsk Hfit Hidx H Hj k)
      as (dk & A & ck & dk' & ops & E & Xk & _).
    exists dk. split; [exact A|]. exists ck, dk', ops. split; [exact E|].
    destruct (k <? 2)%nat; [left|right]; apply (YInv_observations cr ck dk' _ _ Xk).
  Qed.
End CutsY.

(* ====================================================================================== *)
(* H. A crash during the recovery itself                                                   *)
(* ====================================================================================== *)

(* whatever core_open returns, its disk is the old disk after the operations it reports *)
Lemma core_open_journal cr kp flag d d' ops r :
  core_open cr kp flag d = (d', ops, r) -> (d' = d /\ ops = []) \/ apply_sops d ops = Some d'.
Proof.
  unfold core_open.
  destruct (if flag then match kp with Some _ => Err BadArgument | None => Ok None end else Ok kp) as [key| | |];
    try (intros H; injection H as <- <- _; left; split; reflexivity).
  destruct (oplog_open cr key (f_content (d_oplog d))) as [oo| | |];
    try (intros H; injection H as <- <- _; left; split; reflexivity).
  destruct (apply_sops d (oo_ops oo)) as [d1|] eqn:E;
    intros H; injection H as <- <- _; [right; exact E|left; split; reflexivity].
Qed.

Section RecoveryCuts.
  Variable cr : crypto.
  Hypothesis Hcrc : crc_ok cr.
  Hypothesis Hhash32 : forall x, length (cr_hash cr x) = 32%nat.
  Hypothesis Hnonblank : forall x, all_zero (cr_hash cr x) = false.
  Hypothesis Hhashbytes : forall x, bytes_ok (cr_hash cr x) = true.

  (* the open after a crash issues at most one storage operation (the truncate of the stale entries); dying
     before or after it leaves again a crash disk of the same state: recovery can be repeated *)
  Theorem reopen_cuts_Y kp d bs cl :
    YDisk cr kp d bs cl ->
    exists c' d' ops, core_open cr None true d = (d', ops, Ok c') /\
      forall k, exists dk, apply_sops d (firstn k ops) = Some dk /\ YDisk cr kp dk bs cl.
  Proof.
    intros XD.
    destruct (reopen_Y cr Hcrc Hhash32 Hnonblank Hhashbytes kp d bs cl XD)
      as (c' & d' & ops & E & X & K & _ & _ & _ & _ & Hops).
    exists c', d', ops. split; [exact E|]. intros k.
    destruct Hops as [(-> & ->)| ->].
    - exists d. rewrite firstn_nil. split; [reflexivity|exact XD].
    - destruct k as [|k].
      + exists d. split; [reflexivity|exact XD].
      + exists d'. cbn [firstn]. rewrite firstn_nil.
        destruct (core_open_journal _ _ _ _ _ _ _ E) as [(_ & Habs)|A]; [discriminate Habs|].
        split; [exact A|]. rewrite <- K. apply (YInv_YDisk cr c' d' bs cl X).
  Qed.
End RecoveryCuts.

Print Assumptions del_hole_preserves_Y.
Print Assumptions flush_all_Y.
Print Assumptions maybe_flush_Y.
Print Assumptions log_entry_YInv.
Print Assumptions append_body_Y.
Print Assumptions append_Y.
Print Assumptions append_YInv.
Print Assumptions clear_Y.
Print Assumptions clear_YInv.
Print Assumptions append_cut_recovers_Y.
Print Assumptions append_panic_recovers_Y.
Print Assumptions clear_cut_recovers_Y.
Print Assumptions clear_cut_observations.
Print Assumptions append_cut_observations_Y.
Print Assumptions core_open_journal.
Print Assumptions reopen_cuts_Y.

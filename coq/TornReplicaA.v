(* TornReplicaA.v — C07 on replicas, part A: the torn-tolerant replica invariant.
   A torn write of the flush group of an accepted proof application leaves
     - a partial last bitfield page (TornClear.BfZ: bf_open reads whole 4-byte words only), or
     - a damaged record of the tree store: a partial record at the end of the store, or the first t bytes of a node
       over a blank record.  ReplicaDisk1.RDisk (SoundCore.file_sound) rejects both.
   Every lookup of the core reads the tree store through [fget] and consults the unflushed map first; a damaged
   record lies at the index of a node of a pending oplog entry, which open puts into the unflushed map: the record
   is SHADOWED until the next flush rewrites it in full.  RTreeZ states soundness of the tree store for the records
   that are not shadowed; RDiskZ / RDInvZ are RDisk / RDInv with RTreeZ, BfZ and TornCoreA.TreeOk.
   The frozen soundness theorems (SoundCore*, ReplicaDisk3) are reused on the COMPLETED disk: the tree store with
   every unflushed node written in full satisfies SoundCore.file_sound and gives the same lookups. *)
From HC Require Import Base NMap Codec CodecFacts Crypto FlatTree Storage Bitfield Oplog Merkle Core.
From HC Require Import FlatTreeFacts StorageFacts BitfieldFacts OplogFacts TreeRef OffsetFacts CoreFacts Crash Refine.
From HC Require Import ClearRefine Reopen ContigBridge Unified1 Unified2 CrashCore1 CrashCore2 CrashClear1.
From HC Require Import Sound NoPanic Replicate SoundCoreLib SoundCore SoundCoreUp SoundCoreBU.
From HC Require Import ReplicaDisk1 ReplicaDisk2 ReplicaDisk3 ReplicaDisk4.
From HC Require Import TornCoreA TornCoreB TornClear.
From Coq Require Import FMapPositive ZifyN ZifyNat ZifyBool.
Ltac Zify.zify_post_hook ::= Z.div_mod_to_equations.
Arguments N.add : simpl never.
Arguments N.sub : simpl never.
Arguments N.mul : simpl never.
Arguments N.div : simpl never.
Arguments N.modulo : simpl never.
Arguments N.pow : simpl never.
Arguments N.eqb : simpl never.
Arguments N.ltb : simpl never.
Arguments N.leb : simpl never.
Arguments N.max : simpl never.
Arguments N.min : simpl never.
Arguments N.of_nat : simpl never.
Arguments N.to_nat : simpl never.
Arguments N.testbit : simpl never.

(* ====================================================================================== *)
(* A. Lookups read the tree store through fget                                             *)
(* ====================================================================================== *)

(* the node a record of the tree store holds: None = unreadable (beyond the end) or blank *)
Definition fget (tf : file) (j : N) : option node :=
  match f_read tf (NODE_SIZE * j) NODE_SIZE with
  | None => None
  | Some data => let n := node_from_bytes j data in if node_blank n then None else Some n
  end.

Lemma node_get_fget t tf j am :
  node_get t tf j am =
  match nm_get j (t_unflushed t) with
  | Some n => if node_blank n then (if am then Ok None else Err InvalidOperation) else Ok (Some n)
  | None =>
      off <- mul64 "40 * index" NODE_SIZE j ;;
      match fget tf j with
      | None => if am then Ok None else Err InvalidOperation
      | Some n => Ok (Some n)
      end
  end.
Proof.
  unfold node_get, fget. destruct (nm_get j (t_unflushed t)); [reflexivity|].
  unfold mul64. destruct (fits_u64 (NODE_SIZE * j)); [|reflexivity]. cbn [bind].
  destruct (f_read tf (NODE_SIZE * j) NODE_SIZE) as [data|]; [|reflexivity].
  cbv zeta. destruct (node_blank (node_from_bytes j data)); reflexivity.
Qed.

(* two tree stores that hold the same nodes at the records the unflushed map U does not shadow *)
Definition veq (U : nmap node) (tf tf' : file) : Prop :=
  forall j, nm_get j U = None -> fget tf j = fget tf' j.

Lemma veq_refl U tf : veq U tf tf.
Proof. intros j _. reflexivity. Qed.

Lemma veq_sym U tf tf' : veq U tf tf' -> veq U tf' tf.
Proof. intros H j Hj. symmetry. apply H, Hj. Qed.

Lemma veq_trans U tf1 tf2 tf3 : veq U tf1 tf2 -> veq U tf2 tf3 -> veq U tf1 tf3.
Proof. intros H1 H2 j Hj. rewrite (H1 j Hj). apply H2, Hj. Qed.

(* more shadowing: a weaker requirement *)
Lemma veq_mono U U' tf tf' :
  (forall j, nm_get j U' = None -> nm_get j U = None) -> veq U tf tf' -> veq U' tf tf'.
Proof. intros Hs H j Hj. apply H, Hs, Hj. Qed.

(* the lookups of a tree t give the same results on both stores *)
Definition same_lookups (t : mtree) (tf tf' : file) : Prop :=
  forall j am, node_get t tf j am = node_get t tf' j am.

Lemma veq_same_lookups t tf tf' : veq (t_unflushed t) tf tf' -> same_lookups t tf tf'.
Proof.
  intros H j am. rewrite !node_get_fget. destruct (nm_get j (t_unflushed t)) eqn:G; [reflexivity|].
  rewrite (H j G). reflexivity.
Qed.

Lemma same_lookups_unflushed t t' tf tf' :
  t_unflushed t' = t_unflushed t -> same_lookups t tf tf' -> same_lookups t' tf tf'.
Proof.
  intros E H j am.
  rewrite (node_get_unflushed_eq t t' tf j am), (node_get_unflushed_eq t t' tf' j am) by (rewrite E; reflexivity).
  apply H.
Qed.

Section LookupExt.
  Variables (t : mtree) (tf tf' : file).
  Hypothesis Hs : same_lookups t tf tf'.

  Lemma required_node_ext j : required_node t tf j = required_node t tf' j.
  Proof. unfold required_node. rewrite (Hs j false). reflexivity. Qed.

  Lemma offset_descend_ext fuel : forall it index offset,
    offset_descend fuel t tf it index offset = offset_descend fuel t tf' it index offset.
  Proof.
    induction fuel as [|f IH]; intros it index offset; cbn [offset_descend]; [reflexivity|].
    destruct (it_index it =? index); [reflexivity|].
    destruct (index <? it_index it); [apply IH|].
    rewrite required_node_ext.
    destruct (required_node t tf' (it_index (it_left_child it))) as [nd| | |]; cbn [bind]; [apply IH|reflexivity..].
  Qed.

  Lemma offset_roots_ext roots : forall index head offset,
    offset_roots t tf roots index head offset = offset_roots t tf' roots index head offset.
  Proof.
    induction roots as [|r rest IH]; intros index head offset; cbn [offset_roots]; [reflexivity|].
    match goal with |- context [sub64 ?s ?a ?b] => destruct (sub64 s a b) as [dd| | |] end; cbn [bind];
      [|reflexivity..].
    destruct (head + 2 * (dd + 1) <=? index); [apply IH|apply offset_descend_ext].
  Qed.

  Lemma byte_offset_from_nodes_ext index : byte_offset_from_nodes t tf index = byte_offset_from_nodes t tf' index.
  Proof. unfold byte_offset_from_nodes. apply offset_roots_ext. Qed.

  Lemma byte_range_ext hi : byte_range t tf hi = byte_range t tf' hi.
  Proof.
    unfold byte_range. destruct (validate_hypercore_index t hi) as [ix| | |]; cbn [bind]; [|reflexivity..].
    rewrite required_node_ext, byte_offset_from_nodes_ext. reflexivity.
  Qed.

  Lemma byte_offset_in_changeset_ext hi cs :
    byte_offset_in_changeset t tf hi cs = byte_offset_in_changeset t tf' hi cs.
  Proof.
    unfold byte_offset_in_changeset. destruct (t_length t =? hi); [reflexivity|].
    match goal with |- context [mul64 ?s ?a ?b] => destruct (mul64 s a b) as [ix| | |] end; cbn [bind];
      [|reflexivity..].
    destruct (cs_path_walk (cs_nodes cs) (it_new ix) 0 false None) as [[to parent]| | |]; cbn [bind];
      [|reflexivity..].
    destruct parent as [p|]; [destruct (position_of (n_index p) (cs_roots cs) 0); [reflexivity|]|];
      rewrite byte_offset_from_nodes_ext; reflexivity.
  Qed.

  Lemma verify_proof_ext cr pf pk : verify_proof cr t tf pf pk = verify_proof cr t tf' pf pk.
  Proof.
    unfold verify_proof.
    destruct (verify_tree cr (p_block pf) (p_hash pf) (p_seek pf) (tree_changeset t)) as [[root c1]| | |];
      cbn [bind]; [|reflexivity..].
    match goal with |- bind ?m _ = bind ?m _ => destruct m as [[root2 c2]| | |] end; cbn [bind]; [|reflexivity..].
    destruct root2 as [r|]; [|reflexivity]. rewrite required_node_ext. reflexivity.
  Qed.
End LookupExt.

(* ====================================================================================== *)
(* B. Records of the tree store under whole and torn node writes                           *)
(* ====================================================================================== *)

(* record j lies entirely beyond the end of the store or entirely inside it *)
Definition rec_ok (tf : file) (j : N) : Prop :=
  f_len tf <= NODE_SIZE * j \/ NODE_SIZE * j + NODE_SIZE <= f_len tf.

Lemma fget_beyond tf j : f_len tf < NODE_SIZE * j + NODE_SIZE -> fget tf j = None.
Proof. intros H. unfold fget. rewrite f_read_none by exact H. reflexivity. Qed.

Lemma fget_zero tf j :
  NODE_SIZE * j + NODE_SIZE <= f_len tf ->
  (forall k, NODE_SIZE * j <= k -> k < NODE_SIZE * j + NODE_SIZE -> f_byte tf k = 0) -> fget tf j = None.
Proof.
  intros Hl Hz. unfold fget. destruct (f_read tf (NODE_SIZE * j) NODE_SIZE) as [data|] eqn:R; [|reflexivity].
  apply f_read_spec in R as (_ & Rl & Rn). cbv zeta.
  rewrite node_from_zero_blank; [reflexivity|].
  intros k. destruct (Nat.lt_ge_cases k (length data)) as [Lk|Lk]; [|apply nth_overflow; lia].
  replace k with (N.to_nat (N.of_nat k)) by lia. rewrite Rn by (unfold NODE_SIZE in *; lia).
  apply Hz; unfold NODE_SIZE in *; lia.
Qed.

(* a write of at most one record (whole or torn) at another index *)
Lemma fget_write_other tf i data j :
  i <> j -> len data <= NODE_SIZE -> rec_ok tf j ->
  fget (f_write tf (NODE_SIZE * i) data) j = fget tf j /\ rec_ok (f_write tf (NODE_SIZE * i) data) j.
Proof.
  intros Hij Hd [Hb|Hin].
  - (* beyond the end *)
    rewrite (fget_beyond tf j) by (unfold NODE_SIZE in *; lia).
    destruct (N.lt_ge_cases i j) as [L|L].
    + assert (Hl : f_len (f_write tf (NODE_SIZE * i) data) <= NODE_SIZE * j)
        by (rewrite f_write_len; unfold NODE_SIZE in *; lia).
      split; [apply fget_beyond; unfold NODE_SIZE in *; lia|left; exact Hl].
    + assert (Hl : NODE_SIZE * j + NODE_SIZE <= f_len (f_write tf (NODE_SIZE * i) data))
        by (rewrite f_write_len; unfold NODE_SIZE in *; lia).
      split; [|right; exact Hl]. apply fget_zero; [exact Hl|].
      intros k K1 K2. rewrite f_write_byte.
      destruct (N.leb_spec (NODE_SIZE * i) k) as [A|A]; [unfold NODE_SIZE in *; lia|]. cbn [andb].
      destruct (N.leb_spec (f_len tf) k) as [B|B]; [|unfold NODE_SIZE in *; lia].
      destruct (N.ltb_spec k (NODE_SIZE * i + len data)) as [C|C]; [reflexivity|unfold NODE_SIZE in *; lia].
  - split; [|right; rewrite f_write_len; lia].
    unfold fget. rewrite f_read_write_other; [reflexivity|exact Hin|]. unfold NODE_SIZE in *. lia.
Qed.

Lemma fget_write_nodes_other ws : forall tf j,
  (forall v, In v ws -> length (n_hash v) = 32%nat) -> (forall v, In v ws -> n_index v <> j) -> rec_ok tf j ->
  fget (write_nodes tf ws) j = fget tf j /\ rec_ok (write_nodes tf ws) j.
Proof.
  induction ws as [|v ws IH]; intros tf j H32 Hno Hr; [split; [reflexivity|exact Hr]|].
  unfold write_nodes. cbn [fold_left].
  fold (write_nodes (f_write tf (NODE_SIZE * n_index v) (node_to_bytes v)) ws).
  assert (L0 : len (node_to_bytes v) = NODE_SIZE) by (apply len_node_to_bytes, H32; left; reflexivity).
  destruct (fget_write_other tf (n_index v) (node_to_bytes v) j) as [E1 R1];
    [apply Hno; left; reflexivity|rewrite L0; lia|exact Hr|].
  destruct (IH (f_write tf (NODE_SIZE * n_index v) (node_to_bytes v)) j) as [E2 R2];
    [intros x Hx; apply H32; right; exact Hx|intros x Hx; apply Hno; right; exact Hx|exact R1|].
  split; [rewrite E2; exact E1|exact R2].
Qed.

(* the length of the store after node writes *)
Lemma write_nodes_len_cases ws : forall tf,
  (forall v, In v ws -> length (n_hash v) = 32%nat) ->
  f_len tf <= f_len (write_nodes tf ws) /\
  (forall v, In v ws -> NODE_SIZE * n_index v + NODE_SIZE <= f_len (write_nodes tf ws)) /\
  (f_len (write_nodes tf ws) = f_len tf \/
   exists v, In v ws /\ f_len (write_nodes tf ws) = NODE_SIZE * n_index v + NODE_SIZE).
Proof.
  induction ws as [|v ws IH]; intros tf H32.
  - split; [cbn; lia|]. split; [intros v []|left; reflexivity].
  - unfold write_nodes. cbn [fold_left].
    set (f1 := f_write tf (NODE_SIZE * n_index v) (node_to_bytes v)). fold (write_nodes f1 ws).
    assert (L0 : len (node_to_bytes v) = NODE_SIZE) by (apply len_node_to_bytes, H32; left; reflexivity).
    assert (Hl1 : f_len f1 = N.max (f_len tf) (NODE_SIZE * n_index v + NODE_SIZE))
      by (unfold f1; rewrite f_write_len, L0; reflexivity).
    destruct (IH f1) as (I1 & I2 & I3); [intros x Hx; apply H32; right; exact Hx|].
    split; [lia|]. split.
    + intros x [<-|Hx]; [lia|apply I2, Hx].
    + destruct I3 as [E|(x & Hx & E)].
      * rewrite E, Hl1. destruct (N.max_spec (f_len tf) (NODE_SIZE * n_index v + NODE_SIZE)) as [[_ ->]|[_ ->]].
        -- right. exists v. split; [left; reflexivity|reflexivity].
        -- left. reflexivity.
      * right. exists x. split; [right; exact Hx|exact E].
Qed.

Section TreeZ.
  Variable cr : crypto.
  Hypothesis Hhash32 : forall x, length (cr_hash cr x) = 32%nat.
  Hypothesis Hnonblank : forall x, all_zero (cr_hash cr x) = false.
  Variable bs : list bytes.
  Hypothesis Hfit : sumN (map len bs) <= u64_max.

  (* a node list that is authentic reads back after it is written *)
  Lemma fget_write_nodes_in ws tf r v :
    auth_list cr bs r ws -> In v ws -> fget (write_nodes tf ws) (n_index v) = Some v.
  Proof.
    intros Hws Hv. pose proof (auth_list_32 cr Hhash32 bs r ws Hws) as H32.
    destruct (write_nodes_read ws tf (n_index v) H32) as [(v' & Hin & Hk & Hr)|[Hno _]];
      [|exfalso; apply (Hno v Hv); reflexivity].
    assert (Ev : v' = v).
    { destruct (Hws v' Hin) as [E1 _]. destruct (Hws v Hv) as [E2 _]. rewrite E1, E2, Hk. reflexivity. }
    subst v'. unfold fget. rewrite Hr. cbv zeta.
    rewrite (auth_roundtrip cr Hhash32 bs Hfit r v (Hws v Hv)).
    destruct (Hws v Hv) as [E _]. rewrite E at 1. rewrite (T_nonblank cr Hnonblank bs). reflexivity.
  Qed.

  (* ---------- the tree store of a replica, damaged records shadowed ---------- *)

  (* every node a record that is not shadowed holds is the writer's *)
  Definition file_soundZ (U : nmap node) (tf : file) (r : N) : Prop :=
    forall j n, nm_get j U = None -> fget tf j = Some n -> n = ref_at cr bs j /\ in_len r j.

  (* every record that is not shadowed lies entirely inside or entirely beyond the store *)
  Definition tail_ok (U : nmap node) (tf : file) : Prop := forall j, nm_get j U = None -> rec_ok tf j.

  (* ReplicaDisk1.RTree with file_sound weakened to the records that the unflushed map does not shadow *)
  Definition RTreeZ (t : mtree) (tf df : file) (H : N -> bool) : Prop :=
    let r := t_length t in
    r <= N.of_nat (length bs) /\ t_fork t = 0 /\
    t_roots t = ref_roots cr bs r /\ t_byte_length t = prefix_size bs r /\
    unfl_sound cr bs t r /\
    (file_soundZ (t_unflushed t) tf r /\ tail_ok (t_unflushed t) tf) /\
    (forall x, In x (t_roots t) -> required_node t tf (n_index x) = Ok x) /\
    (forall i, H i = true ->
       i < r /\ required_node t tf (2 * i) = Ok (ref_node cr bs 0 i) /\ left_avail cr bs t tf i r /\
       (len (blk bs i) <> 0 ->
        f_read df (prefix_size bs i) (len (blk bs i)) = Some (blk bs i))).

  Lemma file_sound_fget tf r j n : file_sound cr bs tf r -> fget tf j = Some n -> n = ref_at cr bs j /\ in_len r j.
  Proof.
    intros [_ Hf] G. unfold fget in G. destruct (f_read tf (NODE_SIZE * j) NODE_SIZE) as [data|] eqn:R; [|discriminate G].
    cbv zeta in G. destruct (node_blank (node_from_bytes j data)) eqn:B; [discriminate G|]. injection G as <-.
    apply (Hf j data R B).
  Qed.

  Lemma file_sound_rec_ok tf r j : file_sound cr bs tf r -> rec_ok tf j.
  Proof. clear Hfit. intros [Hal _]. unfold rec_ok. unfold NODE_SIZE in Hal |- *. lia. Qed.

  (* a sound store is an instance *)
  Lemma RTree_RTreeZ_same t tf df H : RTree cr bs t tf df H -> RTreeZ t tf df H.
  Proof.
    intros (H1 & H2 & H3 & H4 & H5 & H6 & H7 & H8). unfold RTreeZ. cbv zeta.
    repeat (split; [assumption|]). split; [|split; assumption].
    split; [intros j n _ G; apply (file_sound_fget tf _ j n H6 G)|intros j _; apply (file_sound_rec_ok tf _ j H6)].
  Qed.

  (* ws lists the unflushed map *)
  Definition covers (U : nmap node) (ws : list node) : Prop :=
    (forall v, In v ws -> nm_get (n_index v) U = Some v) /\ (forall j n, nm_get j U = Some n -> In n ws).

  Lemma covers_unflushed t : unflushed_ok t -> covers (t_unflushed t) (unflushed_nodes t).
  Proof.
    intros Hok. split.
    - intros v Hv. apply (unflushed_nodes_get t v Hok Hv).
    - intros j n G. unfold unflushed_nodes. apply in_map_iff. exists (j, n). split; [reflexivity|].
      apply nm_elements_in. exact G.
  Qed.

  Lemma covers_auth t r ws : unfl_sound cr bs t r -> covers (t_unflushed t) ws -> auth_list cr bs r ws.
  Proof.
    intros Hu [C1 _] v Hv. destruct (Hu _ _ (C1 v Hv)) as [E I]. split; assumption.
  Qed.

  (* the COMPLETED store: every unflushed node written in full.  It is sound and holds the same nodes at the
     records that are not shadowed *)
  Lemma complete_store t tf r ws :
    unfl_sound cr bs t r -> covers (t_unflushed t) ws ->
    file_soundZ (t_unflushed t) tf r -> tail_ok (t_unflushed t) tf ->
    file_sound cr bs (write_nodes tf ws) r /\ veq (t_unflushed t) tf (write_nodes tf ws).
  Proof.
    intros Hu Hc Hfs Htl. pose proof (covers_auth t r ws Hu Hc) as Hws.
    pose proof (auth_list_32 cr Hhash32 bs r ws Hws) as H32. destruct Hc as [C1 C2].
    assert (Other : forall j, nm_get j (t_unflushed t) = None ->
              fget (write_nodes tf ws) j = fget tf j /\ rec_ok (write_nodes tf ws) j).
    { intros j G. apply fget_write_nodes_other; [exact H32| |apply Htl, G].
      intros v Hv E. rewrite <- E, (C1 v Hv) in G. discriminate G. }
    split; [|intros j G; symmetry; apply (Other j G)].
    destruct (write_nodes_len_cases ws tf H32) as (L1 & L2 & L3).
    split.
    - destruct L3 as [E|(v & _ & E)]; [|rewrite E; unfold NODE_SIZE; lia].
      set (j0 := f_len tf / NODE_SIZE).
      destruct (nm_get j0 (t_unflushed t)) as [n|] eqn:G.
      + specialize (L2 n (C2 j0 n G)). destruct (Hu _ _ G) as [En _].
        assert (Ei : n_index n = j0) by (rewrite En; apply ref_at_index_id).
        rewrite Ei, E in L2. unfold j0, NODE_SIZE in *. lia.
      + destruct (Htl j0 G) as [A|A]; rewrite E; unfold j0, NODE_SIZE in *; lia.
    - intros j data R B.
      assert (G : fget (write_nodes tf ws) j = Some (node_from_bytes j data)).
      { unfold fget. rewrite R. cbv zeta. rewrite B. reflexivity. }
      destruct (nm_get j (t_unflushed t)) as [n|] eqn:Gu.
      + destruct (Hu _ _ Gu) as [En In]. assert (Ei : n_index n = j) by (rewrite En; apply ref_at_index_id).
        rewrite <- Ei in G. rewrite (fget_write_nodes_in ws tf r n Hws (C2 j n Gu)) in G. injection G as G.
        rewrite Ei in G. rewrite <- G. split; [exact En|exact In].
      + destruct (Other j Gu) as [E _]. rewrite E in G. apply (Hfs j _ Gu G).
  Qed.

  Lemma left_avail_ext t tf tf' i r : same_lookups t tf tf' -> left_avail cr bs t tf i r -> left_avail cr bs t tf' i r.
  Proof.
    intros Hs Ha dd o C1 C2 C3. rewrite <- (required_node_ext t tf tf' Hs). apply Ha; assumption.
  Qed.

  (* RTreeZ -> RTree on the completed store *)
  Lemma RTreeZ_complete t tf df H ws :
    RTreeZ t tf df H -> covers (t_unflushed t) ws ->
    RTree cr bs t (write_nodes tf ws) df H /\ veq (t_unflushed t) tf (write_nodes tf ws).
  Proof.
    intros (H1 & H2 & H3 & H4 & H5 & (H6 & H6') & H7 & H8) Hc.
    destruct (complete_store t tf (t_length t) ws H5 Hc H6 H6') as [Fs Hv].
    pose proof (veq_same_lookups t _ _ Hv) as Hs.
    split; [|exact Hv].
    split; [exact H1|]. split; [exact H2|]. split; [exact H3|]. split; [exact H4|]. split; [exact H5|].
    split; [exact Fs|]. split.
    - intros x Hx. rewrite <- (required_node_ext t _ _ Hs). apply H7, Hx.
    - intros i Hi. destruct (H8 i Hi) as (A1 & A2 & A3 & A4).
      split; [exact A1|]. split; [rewrite <- (required_node_ext t _ _ Hs); exact A2|].
      split; [apply (left_avail_ext t tf _ i _ Hs A3)|exact A4].
  Qed.

  (* RTree on some store tfv -> RTreeZ on every store that holds the same nodes where it is not shadowed *)
  Lemma RTree_RTreeZ t tfv tf df H :
    RTree cr bs t tfv df H -> veq (t_unflushed t) tf tfv -> tail_ok (t_unflushed t) tf -> RTreeZ t tf df H.
  Proof.
    intros (H1 & H2 & H3 & H4 & H5 & H6 & H7 & H8) Hv Htl.
    pose proof (veq_same_lookups t _ _ (veq_sym _ _ _ Hv)) as Hs.
    split; [exact H1|]. split; [exact H2|]. split; [exact H3|]. split; [exact H4|]. split; [exact H5|].
    split.
    { split; [|exact Htl]. intros j n G F. rewrite (Hv j G) in F. apply (file_sound_fget tfv _ j n H6 F). }
    split.
    - intros x Hx. rewrite <- (required_node_ext t _ _ Hs). apply H7, Hx.
    - intros i Hi. destruct (H8 i Hi) as (A1 & A2 & A3 & A4).
      split; [exact A1|]. split; [rewrite <- (required_node_ext t _ _ Hs); exact A2|].
      split; [apply (left_avail_ext t tfv _ i _ Hs A3)|exact A4].
  Qed.

  (* the store changes at shadowed records only *)
  Lemma RTreeZ_veq t tf tf' df H :
    RTreeZ t tf df H -> veq (t_unflushed t) tf' tf -> tail_ok (t_unflushed t) tf' -> RTreeZ t tf' df H.
  Proof.
    intros (H1 & H2 & H3 & H4 & H5 & (H6 & H6') & H7 & H8) Hv Htl.
    pose proof (veq_same_lookups t _ _ (veq_sym _ _ _ Hv)) as Hs.
    split; [exact H1|]. split; [exact H2|]. split; [exact H3|]. split; [exact H4|]. split; [exact H5|].
    split.
    { split; [|exact Htl]. intros j n G F. rewrite (Hv j G) in F. apply (H6 j n G F). }
    split.
    - intros x Hx. rewrite <- (required_node_ext t _ _ Hs). apply H7, Hx.
    - intros i Hi. destruct (H8 i Hi) as (A1 & A2 & A3 & A4).
      split; [exact A1|]. split; [rewrite <- (required_node_ext t _ _ Hs); exact A2|].
      split; [apply (left_avail_ext t tf _ i _ Hs A3)|exact A4].
  Qed.

  Lemma RTreeZ_ext t t' tf df H H' :
    t_roots t' = t_roots t -> t_length t' = t_length t -> t_byte_length t' = t_byte_length t ->
    t_fork t' = t_fork t -> t_unflushed t' = t_unflushed t -> (forall i, H' i = H i) ->
    RTreeZ t tf df H -> RTreeZ t' tf df H'.
  Proof.
    intros Er El Eb Ef Eu EH (H1 & H2 & H3 & H4 & H5 & H6 & H7 & H8).
    assert (Rq : forall j, required_node t' tf j = required_node t tf j)
      by (intros j; apply required_node_same_unflushed; exact Eu).
    unfold RTreeZ. cbv zeta. rewrite El, Ef, Er, Eb, Eu.
    split; [exact H1|]. split; [exact H2|]. split; [exact H3|]. split; [exact H4|].
    split. { intros j nd G. rewrite Eu in G. apply (H5 j nd G). }
    split; [exact H6|]. split. { intros x Hx. rewrite Rq. apply H7, Hx. }
    intros i Hi. rewrite EH in Hi. destruct (H8 i Hi) as (A1 & A2 & A3 & A4).
    split; [exact A1|]. split; [rewrite Rq; exact A2|]. split; [|exact A4].
    intros dd o C1 C2 C3. rewrite Rq. apply A3; assumption.
  Qed.

  Lemma RTreeZ_held_lt t tf df H i : RTreeZ t tf df H -> H i = true -> i < t_length t.
  Proof. intros (_ & _ & _ & _ & _ & _ & _ & H8) Hi. apply (H8 i Hi). Qed.
End TreeZ.

(* ====================================================================================== *)
(* C. A torn node write over a store whose length fields are bytes                         *)
(* ====================================================================================== *)

(* the first tt bytes of the record of v written over a record that already holds v (or over another record):
   nothing changes *)
Lemma torn_same_record tf v tt j data :
  TreeOk tf -> length (n_hash v) = 32%nat ->
  f_read tf (NODE_SIZE * j) NODE_SIZE = Some data ->
  (n_index v = j -> node_from_bytes j data = v) ->
  f_read (f_write tf (NODE_SIZE * n_index v) (firstn tt (node_to_bytes v))) (NODE_SIZE * j) NODE_SIZE = Some data.
Proof.
  intros Hok H32 R Hsame.
  pose proof (length_node_to_bytes v H32) as L40.
  pose proof R as R'. apply f_read_spec in R' as (Rb & Rl & Rn).
  assert (Ld : len (firstn tt (node_to_bytes v)) <= 40) by (unfold len; rewrite firstn_length; lia).
  destruct (N.eq_dec (n_index v) j) as [E|E].
  - specialize (Hsame E). rewrite E in *.
    assert (Edata : data = node_to_bytes v).
    { rewrite <- Hsame. unfold node_to_bytes, node_from_bytes. cbn [n_length n_hash].
      rewrite <- (firstn_skipn 8 data) at 1. f_equal.
      assert (L8 : length (firstn 8 data) = 8%nat) by (rewrite firstn_length; unfold NODE_SIZE in Rl; lia).
      rewrite <- L8 at 2. symmetry. apply le_bytes_le_val.
      apply forallb_forall. intros x Hx. apply (In_nth _ _ 0) in Hx as (k & Hk & <-).
      rewrite L8 in Hk. rewrite nth_firstn_lt by exact Hk.
      specialize (Rn (N.of_nat k) ltac:(unfold NODE_SIZE; lia)). rewrite Nat2N.id in Rn. rewrite Rn.
      unfold byte_ok. apply N.ltb_lt. apply Hok; unfold NODE_SIZE in *; lia. }
    apply f_read_spec. rewrite f_write_len. split; [lia|]. split; [exact Rl|].
    intros k Hk. rewrite f_write_byte, (Rn k Hk).
    destruct (N.leb_spec (NODE_SIZE * j) (NODE_SIZE * j + k)) as [A|A]; [|lia].
    destruct (N.ltb_spec (NODE_SIZE * j + k) (NODE_SIZE * j + len (firstn tt (node_to_bytes v)))) as [B|B]; cbn [andb].
    + unfold len in B. rewrite firstn_length in B. rewrite nth_firstn_lt by lia.
      rewrite <- Edata. rewrite <- (Rn k Hk). f_equal. lia.
    + destruct (N.leb_spec (f_len tf) (NODE_SIZE * j + k)); cbn [andb]; [lia|reflexivity].
  - rewrite f_read_write_other; [exact R|exact Rb|]. unfold NODE_SIZE in *.
    destruct (N.lt_ge_cases (n_index v) j); [right|left]; lia.
Qed.

Section TornNode.
  Variable cr : crypto.
  Hypothesis Hhash32 : forall x, length (cr_hash cr x) = 32%nat.
  Hypothesis Hnonblank : forall x, all_zero (cr_hash cr x) = false.
  Variable bs : list bytes.
  Hypothesis Hfit : sumN (map len bs) <= u64_max.

  (* a lookup that gave the writer's node keeps giving it when the first tt bytes of a writer's node are written *)
  Lemma lookup_torn_node t tf r v tt j x :
    authentic cr bs r v -> TreeOk tf -> required_node t tf j = Ok x -> x = ref_at cr bs j ->
    required_node t (f_write tf (NODE_SIZE * n_index v) (firstn tt (node_to_bytes v))) j = Ok x.
  Proof.
    intros Hv Hok H Ex. destruct Hv as [Ev _].
    assert (H32 : length (n_hash v) = 32%nat) by (rewrite Ev; apply (T_hash32 cr Hhash32 bs)).
    unfold required_node, node_get in H |- *.
    destruct (nm_get j (t_unflushed t)) as [n0|]; [exact H|].
    unfold mul64 in H |- *. destruct (fits_u64 (NODE_SIZE * j)); [|discriminate H]. cbn [bind] in H |- *.
    destruct (f_read tf (NODE_SIZE * j) NODE_SIZE) as [data|] eqn:R; [|discriminate H].
    rewrite (torn_same_record tf v tt j data Hok H32 R); [exact H|].
    intros E. destruct (node_blank (node_from_bytes j data)); [discriminate H|]. cbn [bind] in H.
    injection H as ->. rewrite Ex, Ev, E. reflexivity.
  Qed.

  Lemma store_roots_torn_node tf kf r v tt :
    authentic cr bs r v -> TreeOk tf -> store_roots cr bs tf kf ->
    store_roots cr bs (f_write tf (NODE_SIZE * n_index v) (firstn tt (node_to_bytes v))) kf.
  Proof.
    intros Hv Hok Hst x Hx. destruct Hv as [Ev _].
    assert (H32 : length (n_hash v) = 32%nat) by (rewrite Ev; apply (T_hash32 cr Hhash32 bs)).
    destruct (Hst x Hx) as (data & R & Rn). exists data. split; [|exact Rn].
    apply (torn_same_record tf v tt (n_index x) data Hok H32 R).
    intros E. rewrite Rn, Ev, E. apply (in_ref_roots cr bs x kf Hx).
  Qed.

  Lemma rchain_torn_node pk tf r v tt l U a b :
    authentic cr bs r v -> TreeOk tf -> rchain cr bs pk tf U a l b ->
    rchain cr bs pk (f_write tf (NODE_SIZE * n_index v) (firstn tt (node_to_bytes v))) U a l b.
  Proof.
    intros Hv Hok. apply rchain_store. intros V j x Hreq Ex.
    apply (lookup_torn_node (tU V) tf r v tt j x Hv Hok Hreq Ex).
  Qed.

  (* records that the unflushed map does not shadow are untouched by a torn write of an unflushed node *)
  Lemma veq_torn_node (U : nmap node) tf v tt :
    nm_get (n_index v) U <> None -> length (n_hash v) = 32%nat -> tail_ok U tf ->
    veq U (f_write tf (NODE_SIZE * n_index v) (firstn tt (node_to_bytes v))) tf /\
    tail_ok U (f_write tf (NODE_SIZE * n_index v) (firstn tt (node_to_bytes v))).
  Proof.
    clear Hfit. intros Hin H32 Htl.
    assert (Ld : len (firstn tt (node_to_bytes v)) <= NODE_SIZE).
    { unfold len. rewrite firstn_length, (length_node_to_bytes v H32). unfold NODE_SIZE. lia. }
    assert (A : forall j, nm_get j U = None ->
              fget (f_write tf (NODE_SIZE * n_index v) (firstn tt (node_to_bytes v))) j = fget tf j /\
              rec_ok (f_write tf (NODE_SIZE * n_index v) (firstn tt (node_to_bytes v))) j).
    { intros j G. apply fget_write_other; [intros E; rewrite E in Hin; contradiction|exact Ld|apply Htl, G]. }
    split; [intros j G; apply (A j G)|intros j G; apply (A j G)].
  Qed.

  Lemma veq_write_nodes (U : nmap node) tf ws :
    (forall v, In v ws -> nm_get (n_index v) U <> None) -> (forall v, In v ws -> length (n_hash v) = 32%nat) ->
    tail_ok U tf -> veq U (write_nodes tf ws) tf /\ tail_ok U (write_nodes tf ws).
  Proof.
    intros Hin H32 Htl.
    assert (A : forall j, nm_get j U = None ->
              fget (write_nodes tf ws) j = fget tf j /\ rec_ok (write_nodes tf ws) j).
    { intros j G. apply fget_write_nodes_other; [exact H32| |apply Htl, G].
      intros v Hv E. apply (Hin v Hv). rewrite E. exact G. }
    split; [intros j G; apply (A j G)|intros j G; apply (A j G)].
  Qed.
End TornNode.

(* ====================================================================================== *)
(* D. The bitfield store of a replica with a partial last page                              *)
(* ====================================================================================== *)

(* TornClear.BfZ speaks of a list length n and a cleared set cl; a replica holds an arbitrary set H below a
   bound nb: H = held nb (clH H) *)
Definition clH (H : N -> bool) : N -> bool := fun i => negb (H i).

Lemma held_clH nb H : (forall i, H i = true -> i < nb) -> forall i, held nb (clH H) i = H i.
Proof.
  intros Hb i. unfold held, clH. rewrite Bool.negb_involutive.
  destruct (H i) eqn:Hi; [|apply andb_false_r]. specialize (Hb i Hi).
  destruct (N.ltb_spec i nb); [reflexivity|lia].
Qed.

Definition BfR (nb : N) (f : file) (us : list bf_update) (c0 : N) (H : N -> bool) : Prop :=
  BfZ f us c0 nb (clH H).

Lemma BfR_ext nb f us c0 H H' : (forall i, H' i = H i) -> BfR nb f us c0 H -> BfR nb f us c0 H'.
Proof.
  intros E. apply BfZ_cl_ext. intros i _. unfold clH. rewrite E. reflexivity.
Qed.

(* whole pages (ReplicaDisk1.BfH) are an instance *)
Lemma BfH_BfR nb f us c0 H : (forall i, H i = true -> i < nb) -> BfH f us c0 H -> BfR nb f us c0 H.
Proof.
  intros Hb (Hm & Hrep & B0 & Hex & HB). apply BfY_BfZ.
  split; [exact Hm|]. split; [intros i; rewrite (held_clH nb H Hb); apply Hrep|].
  exists B0. split; [exact Hex|]. intros i. rewrite (held_clH nb H Hb). apply HB.
Qed.

Lemma BfR_write_pages nb f (b : bitfield) ps us c0 H :
  (forall i, H i = true -> i < nb) ->
  BfR nb f us c0 H -> (forall i, bf_get b i = H i) -> BfR nb (write_pages f (bf_bits b) ps) us c0 H.
Proof.
  intros Hb X Hg. apply BfZ_write_pages; [exact X|]. intros i. rewrite (held_clH nb H Hb). apply Hg.
Qed.

Lemma BfR_write_image nb f off data (b : bitfield) us c0 H :
  (forall i, H i = true -> i < nb) ->
  BfR nb f us c0 H -> (forall i, bf_get b i = H i) -> mem_image (bf_bits b) off data ->
  BfR nb (f_write f off data) us c0 H.
Proof.
  intros Hb X Hg Him. apply (BfZ_write_image f off data b); [exact X| |exact Him].
  intros i. rewrite (held_clH nb H Hb). apply Hg.
Qed.

Lemma BfR_snoc nb f us u c0 H H' :
  (forall i, H i = true -> i < nb) -> (forall i, H' i = true -> i < nb) ->
  BfR nb f us c0 H -> (forall i, H' i = upd_fun H u i) -> BfR nb f (us ++ [u]) c0 H'.
Proof.
  intros Hb Hb' X Hu. apply (BfZ_snoc f us u c0 nb (clH H)); [exact X|].
  intros i. rewrite (held_clH nb H' Hb'), Hu. apply upd_fun_ext. intros k. symmetry. apply (held_clH nb H Hb).
Qed.

Lemma BfR_exact nb f H c0 :
  (forall i, H i = true -> i < nb) ->
  (forall i, fbit f i = H i) -> (forall i, rbit f i = H i) -> fexact H c0 -> BfR nb f [] c0 H.
Proof.
  intros Hb Hf Hr Hex. apply BfZ_exact.
  - intros i. rewrite (held_clH nb H Hb). apply Hf.
  - intros i. rewrite (held_clH nb H Hb). apply Hr.
  - apply (fexact_ext H); [intros i; symmetry; apply (held_clH nb H Hb)|exact Hex].
Qed.

(* a whole-page file that holds exactly the bits of a bitfield in memory: the bitfield store of the completed
   disk (the frozen theorems ask for whole pages; what they conclude about this store is not used) *)
Lemma image_file (b : bitfield) nb :
  (forall i, bf_get b i = true -> i < nb) ->
  exists f, f_len f mod PAGE_BYTES = 0 /\ forall i, fbit f i = bf_get b i.
Proof.
  intros Hb.
  set (ps := map N.of_nat (seq 0 (S (N.to_nat (nb / PAGE_BITS))))).
  exists (write_pages file_empty (bf_bits b) ps).
  split; [apply len_write_pages; reflexivity|].
  intros i. destruct (fbit_write_pages (bf_bits b) ps file_empty i) as [I1 I2].
  destruct (in_dec N.eq_dec (i / PAGE_BITS) ps) as [Hin|Hnin].
  - rewrite (I1 Hin). reflexivity.
  - rewrite (I2 Hnin), fbit_empty. symmetry.
    destruct (bf_get b i) eqn:G; [|reflexivity]. exfalso. apply Hnin. specialize (Hb i G).
    unfold ps. apply in_map_iff. exists (N.to_nat (i / PAGE_BITS)). split; [lia|].
    apply in_seq. unfold PAGE_BITS in *. lia.
Qed.

Lemma image_BfH f (b : bitfield) us c0 nb H :
  BfR nb f us c0 H -> (forall i, H i = true -> i < nb) ->
  (forall i, bf_get b i = H i) ->
  forall fi, f_len fi mod PAGE_BYTES = 0 -> (forall i, fbit fi i = bf_get b i) ->
  BfH fi us c0 H /\ BfSync fi b.
Proof.
  intros (H1 & _ & _ & B0 & Hex & HB) Hb Hg fi Hm Hfi. split.
  - split; [exact Hm|]. split.
    + intros i. rewrite upds_fun_rep, Hfi, Hg. rewrite <- (held_clH nb H Hb i), <- (H1 i). apply rep_idem.
    + exists B0. split; [exact Hex|]. intros i. rewrite upds_fun_rep, <- (held_clH nb H Hb i). apply HB.
  - intros i Hne. exfalso. apply Hne. symmetry. apply Hfi.
Qed.

(* ====================================================================================== *)
(* E. RDiskZ, RDInvZ                                                                       *)
(* ====================================================================================== *)

Section DefsZ.
  Variable cr : crypto.
  Variable bs : list bytes.               (* the writer's blocks *)

  (* the four stores of a replica as a crash — also one with a torn last write — may leave them *)
  Definition RDiskZ (pk : bytes) (d : disk) (H : N -> bool) (r : N) : Prop :=
    TreeOk (d_tree d) /\
    exists s0 s1 body st0 st1 bits hf l kf,
      f_content (d_oplog d) = s0 ++ s1 ++ body /\
      OplX cr s0 s1 body st0 st1 bits hf l /\
      hdr_rep cr bs pk hf kf /\
      rchain cr bs pk (d_tree d) [] kf l r /\
      store_roots cr bs (d_tree d) kf /\
      RTreeZ cr bs (rtree cr bs r None (flat_map e_nodes l)) (d_tree d) (d_data d) H /\
      BfR (N.of_nat (length bs)) (d_bitfield d) (updates_of l) (hd_contig hf) H.

  (* SoundCore.RInv with damaged records tolerated where the unflushed map shadows them *)
  Definition RInvZ (c : core) (d : disk) : Prop :=
    RTreeZ cr bs (c_tree c) (d_tree d) (d_data d) (bf_get (c_bitfield c)).

  (* memory and disk between two calls *)
  Definition RDInvZ (c : core) (d : disk) (H : N -> bool) : Prop :=
    let r := t_length (c_tree c) in
    let pk := kp_public (c_keypair c) in
    RInvZ c d /\
    (forall i, bf_get (c_bitfield c) i = H i) /\
    fexact H (hd_contig (c_header c)) /\
    c_keypair c = hd_keypair (c_header c) /\
    t_signature (c_tree c) = sig_of (hd_tree (c_header c)) /\
    TreeOk (d_tree d) /\
    exists s0 s1 body st0 st1 hf l kf,
      f_content (d_oplog d) = s0 ++ s1 ++ body /\
      good cr s0 s1 body st0 st1 (ol_bits (c_oplog c)) hf l /\
      ol_entries_len (c_oplog c) = N.of_nat (length l) /\
      ol_entries_bytes (c_oplog c) = entries_size l /\
      hdr_rep cr bs pk hf kf /\
      c_header c = hdr_after cr bs hf l (hd_contig (c_header c)) /\
      rchain cr bs pk (d_tree d) [] kf l r /\
      t_unflushed (c_tree c) = add_nodes nm_empty (flat_map e_nodes l) /\
      store_roots cr bs (d_tree d) kf /\
      BfR (N.of_nat (length bs)) (d_bitfield d) (updates_of l) (hd_contig hf) H /\
      BfSyncZ (d_bitfield d) (c_bitfield c).
End DefsZ.

Section BasicZ.
  Variable cr : crypto.
  Hypothesis Hhash32 : forall x, length (cr_hash cr x) = 32%nat.
  Hypothesis Hnonblank : forall x, all_zero (cr_hash cr x) = false.
  Variable bs : list bytes.
  Hypothesis Hw : writer_fits bs.

  Lemma RInv_RInvZ c d : SoundCore.RInv cr bs c d -> RInvZ cr bs c d.
  Proof. intros W. unfold RInvZ. apply RTree_RTreeZ_same. exact (proj1 (RInv_RTree cr bs c d) W). Qed.

  Lemma RInvZ_held_lt c d i : RInvZ cr bs c d -> bf_get (c_bitfield c) i = true -> i < N.of_nat (length bs).
  Proof.
    intros W Hi. pose proof (RTreeZ_held_lt cr bs _ _ _ _ i W Hi). destruct W as (H1 & _). lia.
  Qed.

  Lemma RDInvZ_held_nb c d H i : RDInvZ cr bs c d H -> H i = true -> i < N.of_nat (length bs).
  Proof. intros (W & Hb & _) Hi. apply (RInvZ_held_lt c d i W). rewrite Hb. exact Hi. Qed.

  Lemma RDInvZ_held_lt c d H i : RDInvZ cr bs c d H -> H i = true -> i < t_length (c_tree c).
  Proof. intros (W & Hb & _) Hi. apply (RTreeZ_held_lt cr bs _ _ _ _ i W). rewrite Hb. exact Hi. Qed.

  (* ---------- the invariants of ReplicaDisk1 are instances ---------- *)

  Theorem RDInv_RDInvZ c d H : RDInv cr bs c d H -> TreeOk (d_tree d) -> RDInvZ cr bs c d H.
  Proof.
    intros X Hok.
    pose proof X as (W & Hb & Hex & Hk & Hs & s0 & s1 & body & st0 & st1 & hf & l & kf &
                     Hcont & G & Hlen & Hbytes & Hhf & Hh & Hch & Hu & Hst & Hbf & Hsync).
    assert (Hnb : forall i, H i = true -> i < N.of_nat (length bs)).
    { intros i Hi. pose proof (RDInv_held_lt cr bs c d H i X Hi). destruct W as (W1 & _). lia. }
    split; [apply RInv_RInvZ, W|]. split; [exact Hb|]. split; [exact Hex|]. split; [exact Hk|]. split; [exact Hs|].
    split; [exact Hok|].
    exists s0, s1, body, st0, st1, hf, l, kf. repeat (split; [assumption|]).
    split; [apply BfH_BfR; assumption|]. apply BfSync_BfSyncZ; [apply Hbf|exact Hsync].
  Qed.

  Theorem RDisk_RDiskZ pk d H r : RDisk cr bs pk d H r -> TreeOk (d_tree d) -> RDiskZ cr bs pk d H r.
  Proof.
    intros (s0 & s1 & body & st0 & st1 & bits & hf & l & kf & Hcont & HO & Hhf & Hch & Hst & HT & Hbf) Hok.
    split; [exact Hok|].
    exists s0, s1, body, st0, st1, bits, hf, l, kf. repeat (split; [assumption|]).
    split; [apply RTree_RTreeZ_same, HT|]. apply BfH_BfR; [|exact Hbf].
    intros i Hi. pose proof (RTree_held_lt cr bs _ _ _ H i HT Hi) as L. destruct HT as (H1 & _).
    cbn [rtree t_length] in *. lia.
  Qed.

  (* the disk part alone *)
  Theorem RDInvZ_RDiskZ c d H :
    RDInvZ cr bs c d H -> RDiskZ cr bs (kp_public (c_keypair c)) d H (t_length (c_tree c)).
  Proof.
    intros (W & Hb & Hex & Hk & Hs & Hok & s0 & s1 & body & st0 & st1 & hf & l & kf &
            Hcont & G & Hlen & Hbytes & Hhf & Hh & Hch & Hu & Hst & Hbf & Hsync).
    split; [exact Hok|].
    exists s0, s1, body, st0, st1, (ol_bits (c_oplog c)), hf, l, kf.
    split; [exact Hcont|]. split; [left; exact G|]. split; [exact Hhf|]. split; [exact Hch|].
    split; [exact Hst|]. split; [|exact Hbf].
    apply (RTreeZ_ext cr bs (c_tree c) _ _ _ (bf_get (c_bitfield c)) H); try reflexivity.
    - cbn [rtree t_roots]. destruct W as (_ & _ & -> & _). reflexivity.
    - cbn [rtree t_byte_length]. destruct W as (_ & _ & _ & -> & _). reflexivity.
    - cbn [rtree t_fork]. destruct W as (_ & -> & _). reflexivity.
    - cbn [rtree t_unflushed]. symmetry. exact Hu.
    - intros i. symmetry. apply Hb.
    - exact W.
  Qed.

  Lemma RDInvZ_ext c d H H' : (forall i, H' i = H i) -> RDInvZ cr bs c d H -> RDInvZ cr bs c d H'.
  Proof.
    intros E (W & Hb & Hex & Hk & Hs & Hok & s0 & s1 & body & st0 & st1 & hf & l & kf &
              Hcont & G & Hlen & Hbytes & Hhf & Hh & Hch & Hu & Hst & Hbf & Hsync).
    split; [exact W|]. split; [intros i; rewrite E; apply Hb|].
    split; [apply (fexact_ext H); [intros i; symmetry; apply E|exact Hex]|].
    split; [exact Hk|]. split; [exact Hs|]. split; [exact Hok|].
    exists s0, s1, body, st0, st1, hf, l, kf. repeat (split; [assumption|]).
    split; [apply (BfR_ext _ _ _ _ H); assumption|exact Hsync].
  Qed.

  Lemma RDiskZ_ext pk d H H' r : (forall i, H' i = H i) -> RDiskZ cr bs pk d H r -> RDiskZ cr bs pk d H' r.
  Proof.
    intros E (Hok & s0 & s1 & body & st0 & st1 & bits & hf & l & kf & Hcont & HO & Hhf & Hch & Hst & HT & Hbf).
    split; [exact Hok|].
    exists s0, s1, body, st0, st1, bits, hf, l, kf. repeat (split; [assumption|]).
    split; [apply (RTreeZ_ext cr bs (rtree cr bs r None (flat_map e_nodes l)) _ _ _ H H'); try reflexivity; assumption|].
    apply (BfR_ext _ _ _ _ H); assumption.
  Qed.

  Lemma RDInvZ_skip c d H s :
    RDInvZ cr bs c d H ->
    RDInvZ cr bs (mkCore (c_keypair c) (c_oplog c) (c_tree c) (c_bitfield c) (c_header c) s) d H.
  Proof. intros X. exact X. Qed.

  (* ---------- the completed disk: every unflushed node written in full, the bitfield store an image of
     memory.  It satisfies ReplicaDisk1.RDInv and gives the same lookups ---------- *)

  Definition completed (c : core) (d dv : disk) : Prop :=
    d_data dv = d_data d /\ d_oplog dv = d_oplog d /\
    d_tree dv = write_nodes (d_tree d) (unflushed_nodes (c_tree c)) /\
    veq (t_unflushed (c_tree c)) (d_tree d) (d_tree dv) /\
    f_len (d_bitfield dv) mod PAGE_BYTES = 0 /\ (forall i, fbit (d_bitfield dv) i = bf_get (c_bitfield c) i).

  Theorem RDInvZ_completed c d H :
    RDInvZ cr bs c d H -> exists dv, RDInv cr bs c dv H /\ completed c d dv.
  Proof.
    intros X.
    pose proof X as (W & Hb & Hex & Hk & Hs & Hok & s0 & s1 & body & st0 & st1 & hf & l & kf &
                     Hcont & G & Hlen & Hbytes & Hhf & Hh & Hch & Hu & Hst & Hbf & Hsync).
    destruct Hw as [Hw1 Hw2].
    assert (Hnb : forall i, H i = true -> i < N.of_nat (length bs)) by (intros i; apply (RDInvZ_held_nb c d H i X)).
    assert (Hun : unflushed_ok (c_tree c)).
    { apply (unfl_sound_ok cr Hhash32 bs (c_tree c) (t_length (c_tree c)) Hw1). apply W. }
    pose proof (covers_unflushed (c_tree c) Hun) as Hc.
    set (ws := unflushed_nodes (c_tree c)) in *.
    destruct (RTreeZ_complete cr Hhash32 Hnonblank bs Hw1 _ _ _ _ ws W Hc) as [WT Hv].
    assert (Hws : auth_list cr bs (t_length (c_tree c)) ws) by (apply (covers_auth cr bs (c_tree c)); [apply W|exact Hc]).
    destruct (image_file (c_bitfield c) (N.of_nat (length bs))) as (fi & Hm & Hfi).
    { intros i Hi. apply Hnb. rewrite <- Hb. exact Hi. }
    destruct (image_BfH _ (c_bitfield c) _ _ _ H Hbf Hnb Hb fi Hm Hfi) as [BH BS].
    exists (mkDisk (write_nodes (d_tree d) ws) (d_data d) fi (d_oplog d)).
    split; [|repeat split; assumption].
    split; [apply RInv_RTree; exact WT|]. split; [exact Hb|]. split; [exact Hex|]. split; [exact Hk|]. split; [exact Hs|].
    exists s0, s1, body, st0, st1, hf, l, kf. cbn [d_oplog d_tree d_bitfield].
    split; [exact Hcont|]. split; [exact G|]. split; [exact Hlen|]. split; [exact Hbytes|]. split; [exact Hhf|].
    split; [exact Hh|].
    split; [apply (rchain_write_nodes cr Hhash32 Hnonblank bs Hw1 _ _ (t_length (c_tree c))); assumption|].
    split; [exact Hu|].
    split; [apply (store_roots_write_nodes cr Hhash32 bs Hw1 _ _ (t_length (c_tree c))); assumption|].
    split; [exact BH|exact BS].
  Qed.

  (* back: RDInv on a disk dv, the real disk d differs from it at shadowed tree records and in the bitfield store *)
  Lemma RInv_RInvZ_veq c d dv :
    SoundCore.RInv cr bs c dv -> d_data dv = d_data d ->
    veq (t_unflushed (c_tree c)) (d_tree d) (d_tree dv) -> tail_ok (t_unflushed (c_tree c)) (d_tree d) ->
    RInvZ cr bs c d.
  Proof.
    intros W Ed Hv Htl. pose proof (proj1 (RInv_RTree cr bs c dv) W) as WT. rewrite Ed in WT.
    apply (RTree_RTreeZ cr bs _ (d_tree dv)); assumption.
  Qed.

  (* ---------- observations ---------- *)

  Theorem RDZ_has c d H i : RDInvZ cr bs c d H -> core_has c i = H i.
  Proof. intros (_ & Hb & _). unfold core_has. apply Hb. Qed.

  Lemma RDInvZ_keypair c d H :
    RDInvZ cr bs c d H -> c_keypair c = mkKeypair (kp_public (c_keypair c)) None.
  Proof.
    intros X. destruct (RDInvZ_completed c d H X) as (dv & Xv & _). apply (RDInv_keypair cr bs c dv H Xv).
  Qed.

  Theorem RDZ_info c d H :
    RDInvZ cr bs c d H ->
    let r := t_length (c_tree c) in
    core_info c = mkInfo r (prefix_size bs r) (hd_contig (c_header c)) 0 false /\
    r <= N.of_nat (length bs) /\ fexact H (hd_contig (c_header c)).
  Proof.
    intros X. destruct (RDInvZ_completed c d H X) as (dv & Xv & _). apply (RD_info cr bs c dv H Xv).
  Qed.

  (* core_get reads the tree store through lookups and the data store *)
  Lemma core_get_disk i c d d' j ev :
    same_lookups (c_tree c) (d_tree d) (d_tree d') -> d_data d = d_data d' ->
    core_get i c (mkWorld d j ev) =
    match core_get i c (mkWorld d' j ev) with
    | (c1, w1, r) => (c1, mkWorld d (w_journal w1) (w_events w1), r)
    end.
  Proof.
    intros Hs Ed. unfold core_get. rewrite !mbind_get_core.
    destruct (negb (bf_get (c_bitfield c) i)); [reflexivity|].
    rewrite !mbind_get_disk. cbn [w_disk]. rewrite !mbind_lift.
    rewrite (byte_range_ext (c_tree c) _ _ Hs i), Ed.
    destruct (byte_range (c_tree c) (d_tree d') i) as [[off l]| | |]; try reflexivity.
    destruct (l =? 0); [reflexivity|].
    destruct (f_read (d_data d') off l); reflexivity.
  Qed.

  Theorem RDZ_get c d H j ev i :
    RDInvZ cr bs c d H ->
    core_get i c (mkWorld d j ev) =
    if H i then (c, mkWorld d j ev, Ok (Some (blk bs i)))
    else (c, mkWorld d j (EvGet i :: ev), Ok None).
  Proof.
    intros X. destruct (RDInvZ_completed c d H X) as (dv & Xv & Ed & _ & _ & Hv & _).
    rewrite (core_get_disk i c d dv j ev (veq_same_lookups _ _ _ Hv) (eq_sym Ed)).
    rewrite (RD_get cr bs Hw c dv H j ev i Xv). destruct (H i); reflexivity.
  Qed.

  Theorem RDZ_observations c d H : RDInvZ cr bs c d H -> obs_replica bs c d H (t_length (c_tree c)).
  Proof.
    intros D. split; [|split].
    - exists (hd_contig (c_header c)). destruct (RDZ_info c d H D) as (A & _ & B). split; assumption.
    - intros i. apply (RDZ_has c d H i D).
    - intros i j ev. apply (RDZ_get c d H j ev i D).
  Qed.
End BasicZ.

(* ====================================================================================== *)
(* F. core_open on a replica disk with damaged shadowed records and a partial last page    *)
(* ====================================================================================== *)

Section ReopenRZ.
  Variable cr : crypto.
  Hypothesis Hcrc : crc_ok cr.
  Hypothesis Hhash32 : forall x, length (cr_hash cr x) = 32%nat.
  Hypothesis Hnonblank : forall x, all_zero (cr_hash cr x) = false.
  Hypothesis Hhashbytes : forall x, bytes_ok (cr_hash cr x) = true.
  Variable bs : list bytes.
  Hypothesis Hw : writer_fits bs.

  Lemma open_tail_RZ pk d H r s0 s1 body st0 st1 bits hf l kf ops :
    TreeOk (d_tree d) ->
    f_content (d_oplog d) = s0 ++ s1 ++ body ->
    good cr s0 s1 body st0 st1 bits hf l ->
    hdr_rep cr bs pk hf kf -> rchain cr bs pk (d_tree d) [] kf l r ->
    store_roots cr bs (d_tree d) kf ->
    RTreeZ cr bs (rtree cr bs r None (flat_map e_nodes l)) (d_tree d) (d_data d) H ->
    BfR (N.of_nat (length bs)) (d_bitfield d) (updates_of l) (hd_contig hf) H ->
    exists c', open_tail cr d (mkOpenOutcome (mkOplog bits (N.of_nat (length l)) (entries_size l)) hf ops l) = Ok c' /\
      RDInvZ cr bs c' d H /\ c_keypair c' = mkKeypair pk None /\ c_skip c' = 0 /\
      c_oplog c' = mkOplog bits (N.of_nat (length l)) (entries_size l) /\
      (exists cg, c_header c' = hdr_after cr bs hf l cg) /\
      c_tree c' = rtree cr bs r (sig_of (hd_tree (c_header c'))) (flat_map e_nodes l).
  Proof.
    intros Hok Hcont G Hhf Hch Hst HT Hbf.
    pose proof Hhf as (Hhok & Hkp & Hfk & Hln & Hkfn & Hcase).
    unfold open_tail. cbn [oo_header oo_entries oo_oplog].
    assert (Hsg : ht_signature (hd_tree hf) = [] \/ length (ht_signature (hd_tree hf)) = 64%nat).
    { destruct Hcase as [(_ & _ & E)|(_ & E & _)]; [left|right]; exact E. }
    rewrite (tree_open_sparse cr Hnonblank bs (d_tree d) (hd_tree hf) kf Hst Hln Hsg). cbn [bind]. rewrite Hfk.
    change (mkTree (ref_roots cr bs kf) kf (prefix_size bs kf) 0 (sig_of (hd_tree hf)) nm_empty)
      with (rtree cr bs kf (sig_of (hd_tree hf)) []).
    destruct (replay_rchain cr Hnonblank bs pk (d_tree d) l [] kf r (bf_open (d_bitfield d)) hf Hfk Hch)
      as (b' & cg & Hrepl).
    rewrite Hrepl. cbn [bind app].
    assert (Hrle : r <= N.of_nat (length bs)) by apply HT.
    assert (Hnb : forall i, H i = true -> i < N.of_nat (length bs)).
    { intros i Hi. pose proof (RTreeZ_held_lt cr bs _ _ _ H i HT Hi) as L. cbn [rtree t_length] in L. lia. }
    destruct (replay_bitfield_Z cr (d_tree d) l _ (d_bitfield d) hf _ b' _ _ _ Hrepl
                (rchain_no_drops cr bs pk (d_tree d) l [] kf r Hch) Hbf) as (Hbf' & Hex' & Eb').
    assert (Hbf'' : forall i, bf_get b' i = H i) by (intros i; rewrite Hbf'; apply (held_clH _ H Hnb)).
    destruct (hdr_after_fields cr bs hf l cg) as (F1 & F2 & F3 & F4 & F5 & F6).
    rewrite F6 in Hex'.
    assert (Hex'' : fexact H cg) by (apply (fexact_ext (bf_get b')); [exact Hbf''|apply exact_contig_fexact, Hex']).
    eexists. split; [reflexivity|].
    split; [|split; [rewrite F4; exact Hkp|split; [reflexivity|split; [reflexivity|split; [exists cg; reflexivity|reflexivity]]]]].
    unfold RDInvZ. cbv zeta. cbn [c_tree c_bitfield c_header c_keypair c_oplog].
    split.
    { unfold RInvZ. cbn [c_tree c_bitfield].
      apply (RTreeZ_ext cr bs (rtree cr bs r None (flat_map e_nodes l)) _ _ _ H (bf_get b')); try reflexivity; assumption. }
    split; [exact Hbf''|]. split; [rewrite F6; exact Hex''|]. split; [reflexivity|].
    split; [reflexivity|]. split; [exact Hok|].
    rewrite F4, Hkp. cbn [kp_public rtree t_length t_unflushed ol_bits ol_entries_len ol_entries_bytes].
    exists s0, s1, body, st0, st1, hf, l, kf.
    split; [exact Hcont|]. split; [exact G|]. split; [reflexivity|]. split; [reflexivity|].
    split; [exact Hhf|]. split; [rewrite F6; reflexivity|]. split; [exact Hch|]. split; [reflexivity|].
    split; [exact Hst|]. split; [exact Hbf|].
    rewrite Eb'. apply (BfSyncZ_open _ _ _ _ _ Hbf).
  Qed.

  (* the disk reopens to the invariant for the held set H and the length r, with public key pk; only the oplog
     store may change, and its header slots stay hygienic if they were *)
  Definition recoversR (pk : bytes) (d : disk) (H : N -> bool) (r : N) : Prop :=
    exists c' d' ops, core_open cr None true d = (d', ops, Ok c') /\
      RDInvZ cr bs c' d' H /\ t_length (c_tree c') = r /\
      c_keypair c' = mkKeypair pk None /\ c_skip c' = 0 /\
      d_tree d' = d_tree d /\ d_data d' = d_data d /\ d_bitfield d' = d_bitfield d /\
      (hyg cr (f_content (d_oplog d)) -> hyg cr (f_content (d_oplog d'))).

  Theorem reopen_RDiskZ pk d H r :
    RDiskZ cr bs pk d H r ->
    exists c' d' ops, core_open cr None true d = (d', ops, Ok c') /\
      RDInvZ cr bs c' d' H /\ t_length (c_tree c') = r /\
      c_keypair c' = mkKeypair pk None /\ c_skip c' = 0 /\
      d_tree d' = d_tree d /\ d_data d' = d_data d /\ d_bitfield d' = d_bitfield d /\
      (ops = [] /\ d' = d \/ ops = [ST Oplog ENTRIES_OFFSET]) /\
      (hyg cr (f_content (d_oplog d)) -> hyg cr (f_content (d_oplog d'))).
  Proof.
    intros (Hok & s0 & s1 & body & st0 & st1 & bits & hf & l & kf & Hcont & HO & Hhf & Hch & Hst & HT & Hbf).
    destruct (OplX_open cr Hcrc Hhash32 Hnonblank Hhashbytes s0 s1 body st0 st1 bits hf l HO)
      as (ops & Hopen & [(-> & G)|(-> & L0 & L1 & G)]).
    - rewrite <- Hcont in Hopen.
      rewrite (core_open_eq cr d _ d Hopen eq_refl). cbn [oo_ops].
      destruct (open_tail_RZ pk d H r s0 s1 body st0 st1 bits hf l kf [] Hok Hcont G Hhf Hch Hst HT Hbf)
        as (c' & E & X & K & Sk & _ & _ & Et).
      exists c', d, []. split; [rewrite E; reflexivity|]. split; [exact X|].
      split; [rewrite Et; reflexivity|]. split; [exact K|]. split; [exact Sk|].
      repeat (split; [reflexivity|]). split; [left; split; reflexivity|]. intros Hh; exact Hh.
    - rewrite <- Hcont in Hopen.
      set (d' := d_set d Oplog (f_truncate (d_oplog d) ENTRIES_OFFSET)).
      assert (Ha : apply_sops d [ST Oplog ENTRIES_OFFSET] = Some d') by reflexivity.
      rewrite (core_open_eq cr d _ d' Hopen Ha). cbn [oo_ops].
      assert (Hcont' : f_content (d_oplog d') = s0 ++ s1 ++ []).
      { unfold d'. destruct d as [ft fd fb fo]. cbn [d_set d_oplog] in *.
        rewrite f_content_truncate, Hcont. apply c_truncate_all_entries; assumption. }
      assert (Et : d_tree d' = d_tree d) by (destruct d; reflexivity).
      assert (Ed : d_data d' = d_data d) by (destruct d; reflexivity).
      assert (Eb : d_bitfield d' = d_bitfield d) by (destruct d; reflexivity).
      destruct (open_tail_RZ pk d' H r s0 s1 [] st0 st1 bits hf l kf [ST Oplog ENTRIES_OFFSET])
        as (c' & E & X & K & Sk & _ & _ & Ett); try (rewrite ?Ed, ?Et, ?Eb; assumption).
      exists c', d', [ST Oplog ENTRIES_OFFSET]. split; [rewrite E; reflexivity|]. split; [exact X|].
      split; [rewrite Ett; reflexivity|]. split; [exact K|]. split; [exact Sk|].
      repeat (split; [assumption|]). split; [right; reflexivity|].
      rewrite Hcont, Hcont'. apply (hyg_body cr s0 s1 body [] L0 L1).
  Qed.

  Corollary RDiskZ_recovers pk d H r : RDiskZ cr bs pk d H r -> recoversR pk d H r.
  Proof.
    intros X. destruct (reopen_RDiskZ pk d H r X) as (c' & d' & ops & E & X' & L & K & S & T & D & B & _ & Hh).
    exists c', d', ops. repeat (split; [assumption|]). exact Hh.
  Qed.

  (* reopening a running state: nothing to repair *)
  Theorem reopen_RDInvZ c d H :
    RDInvZ cr bs c d H ->
    exists c', core_open cr None true d = (d, [], Ok c') /\
      RDInvZ cr bs c' d H /\ t_length (c_tree c') = t_length (c_tree c) /\ c_keypair c' = c_keypair c /\ c_skip c' = 0.
  Proof.
    intros X. pose proof (RDInvZ_keypair cr Hhash32 Hnonblank bs Hw c d H X) as Kc.
    pose proof X as (_ & _ & _ & _ & _ & _ & s0 & s1 & body & st0 & st1 & hf & l & kf & Hcont & G & _).
    destruct (reopen_RDiskZ _ d H _ (RDInvZ_RDiskZ cr bs c d H X))
      as (c' & d' & ops & E & X' & L & K & Sk & _ & _ & _ & [(-> & ->) | -> ] & _).
    - exists c'. split; [exact E|]. split; [exact X'|]. split; [exact L|]. split; [rewrite K; symmetry; exact Kc|exact Sk].
    - exfalso. unfold core_open in E. cbv iota in E. rewrite Hcont in E.
      rewrite (good_open cr Hcrc _ _ _ _ _ _ _ _ G) in E. cbn [stable_result oo_ops apply_sops] in E.
      injection E as _ E _. discriminate E.
  Qed.

  (* open repairs the oplog store (ops), after which the disk is a stable replica disk *)
  Lemma reopen_after_repair_R pk d d' H r s0 s1 body st0 st1 bits hf l kf ops :
    oplog_open cr None (f_content (d_oplog d)) =
      Ok (mkOpenOutcome (mkOplog bits (N.of_nat (length l)) (entries_size l)) hf ops l) ->
    apply_sops d ops = Some d' ->
    d_tree d' = d_tree d -> d_data d' = d_data d -> d_bitfield d' = d_bitfield d ->
    TreeOk (d_tree d) ->
    f_content (d_oplog d') = s0 ++ s1 ++ body ->
    good cr s0 s1 body st0 st1 bits hf l ->
    hdr_rep cr bs pk hf kf -> rchain cr bs pk (d_tree d) [] kf l r ->
    store_roots cr bs (d_tree d) kf ->
    RTreeZ cr bs (rtree cr bs r None (flat_map e_nodes l)) (d_tree d) (d_data d) H ->
    BfR (N.of_nat (length bs)) (d_bitfield d) (updates_of l) (hd_contig hf) H ->
    (hyg cr (f_content (d_oplog d)) -> hyg cr (f_content (d_oplog d'))) ->
    recoversR pk d H r.
  Proof.
    intros Hopen Ha Et Ed Eb Hok Hcont G Hhf Hch Hst HT Hbf Hhyg.
    pose proof (core_open_eq cr d _ d' Hopen Ha) as E. cbn [oo_ops] in E.
    destruct (open_tail_RZ pk d' H r s0 s1 body st0 st1 bits hf l kf ops)
      as (c' & Et' & X & K & Sk & _ & _ & Ett); try (rewrite ?Et, ?Ed, ?Eb; assumption).
    exists c', d', ops. split; [rewrite E, Et'; reflexivity|]. split; [exact X|].
    split; [rewrite Ett; reflexivity|]. repeat (split; [assumption|]). exact Hhyg.
  Qed.
End ReopenRZ.

Print Assumptions verify_proof_ext.
Print Assumptions complete_store.
Print Assumptions RTreeZ_complete.
Print Assumptions torn_same_record.
Print Assumptions RDInv_RDInvZ.
Print Assumptions RDInvZ_completed.
Print Assumptions RDZ_observations.
Print Assumptions open_tail_RZ.
Print Assumptions reopen_RDiskZ.
Print Assumptions reopen_RDInvZ.
Print Assumptions reopen_after_repair_R.

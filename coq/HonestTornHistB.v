(* HonestTornHistB.v -- honest proof applications from closed torn-tolerant states (C07 history level, part 2) *)
From HC Require Import Base NMap Codec CodecFacts Crypto FlatTree Storage Bitfield Oplog Merkle Core.
From HC Require Import FlatTreeFacts StorageFacts BitfieldFacts OplogFacts Sound NoPanic TreeRef OffsetFacts CoreFacts Crash Refine Replicate Replicate2 Replicate2Z Replicate2D Replicate2E.
From HC Require Import ClearRefine Reopen ContigBridge Unified1 Unified2 CrashCore1 CrashCore2 CrashCore3 CrashClear1.
From HC Require Import SoundCoreLib SoundCore SoundCoreUp SoundCoreBU ReplicaDisk1 ReplicaDisk2 ReplicaDisk3 ReplicaDisk4 ReplicaDisk5 ReplicaDisk6.
From HC Require Import TornCoreA TornCoreB TornClear TornReplicaA TornReplicaB TornReplica.
From HC Require Import AcceptAll1 AcceptAll2 AcceptAll3 AcceptAll AcceptAllCore1 AcceptAllClo AcceptAllClo2 AcceptAllFlush AcceptAllCore2 AcceptAllCore3 AcceptAllHist.
From HC Require Import HonestApply1 HonestApply2 HonestApply3 HonestCrash1 HonestTorn HonestTornHistA.
From Coq Require Import FMapPositive ZifyN ZifyNat ZifyBool.
Ltac Zify.zify_post_hook ::= Z.div_mod_to_equations.
Arguments N.add : simpl never.
Arguments N.sub : simpl never.
Arguments N.mul : simpl never.
Arguments N.div : simpl never.
Arguments N.modulo : simpl never.
Arguments N.pow : simpl never.
Arguments N.eqb : simpl never.
Arguments N.ltb : simpl never.
Arguments N.leb : simpl never.
Arguments N.max : simpl never.
Arguments N.min : simpl never.
Arguments N.of_nat : simpl never.
Arguments N.to_nat : simpl never.
Arguments N.log2 : simpl never.
Arguments N.testbit : simpl never.

(* ====================================================================================== *)
(* A. An accepted HONEST application from a closed torn-tolerant state                      *)
(*    (HonestTorn.honest_apply_Z with the closure of the stored nodes carried through)       *)
(* ====================================================================================== *)

Section HonestApplyCZ.
  Variable cr : crypto.
  Hypothesis Hcrc : crc_ok cr.
  Hypothesis Hhash32 : forall x, length (cr_hash cr x) = 32%nat.
  Hypothesis Hnonblank : forall x, all_zero (cr_hash cr x) = false.
  Hypothesis Hhashbytes : forall x, bytes_ok (cr_hash cr x) = true.
  Variable bs : list bytes.
  Hypothesis Hw : writer_fits bs.

  Theorem honest_apply_ZC f pf c d j ev H cs c' w' :
    RCInvZ cr bs c d H ->
    verifier_says cr c (mkWorld d j ev) pf = Ok cs ->
    honest_changeset cr bs c pf cs ->
    core_apply_proof cr f pf c (mkWorld d j ev) = (c', w', Ok true) ->
    let pk := kp_public (c_keypair c) in
    let H' := hold H (p_block pf) in
    let r := t_length (c_tree c) in
    let r' := t_length (c_tree c') in
    exists delta,
      w_journal w' = rev delta ++ j /\
      apply_sops d delta = Some (w_disk w') /\
      RCInvZ cr bs c' (w_disk w') H' /\ c_keypair c' = c_keypair c /\
      r' = (if cs_upgraded cs then cs_length cs else r) /\ r <= r' /\
      (f = Some true -> hyg cr (f_content (d_oplog (w_disk w')))) /\
      (exists pre off fr fl, delta = pre ++ SW Oplog off fr :: fl /\ length pre = commit_point pf /\
                             (forall o, In o pre -> sop_store o = Data)) /\
      (forall k, exists dk,
         apply_sops d (firstn k delta) = Some dk /\
         (if (k <=? commit_point pf)%nat then RCDiskZ cr bs pk dk H r else RCDiskZ cr bs pk dk H' r') /\
         (hyg cr (f_content (d_oplog d)) -> hyg cr (f_content (d_oplog dk)))) /\
      (forall k o t, nth_error delta k = Some o -> (t < wlen o)%nat ->
         exists dk dkt,
           apply_sops d (firstn k delta) = Some dk /\ apply_sop dk (tear o t) = Some dkt /\
           (tear_safe cr dk o t ->
            (if (k <=? commit_point pf)%nat then recoversRC cr bs pk dkt H r else recoversRC cr bs pk dkt H' r') \/
            (is_slot_write o = true /\ Crash.collision cr t))).
  Proof.
    intros RC Hv Hhon Happ. cbv zeta. pose proof RC as [X Hclo].
    pose proof Hhon as (Href & Hblk & Hup & Hnoup & Hsb).
    destruct (RDInvZ_completed cr Hhash32 Hnonblank bs Hw c d H X) as (dv & Xv & Edv & Eov & Etv & Hveq & Hmv & Hfiv).
    pose proof (RDInv_RInv cr bs c dv H Xv) as Wv.
    pose proof Wv as (Wr & Wf & Wroots & Wbl & Wu & Wfs & Wrl & Wheld).
    pose proof (veq_same_lookups (c_tree c) _ _ Hveq) as Hsl.
    pose proof (RCInvZ_RCDiskZ cr bs c d H RC) as XD.
    pose proof X as (W & Hb & _).
    pose proof W as (_ & _ & _ & _ & _ & (_ & W6') & _ & W8).
    pose proof Hw as [Hw1 Hw2].
    destruct (accepted_gates cr _ _ _ _ _ _ Happ) as (cs0 & Ef & V & Cm & Ht).
    rewrite Hv in V. injection V as <-.
    apply apply_tail_inv_j in Ht. destruct Ht as (bu & c1 & w1 & c2 & w2 & w3 & Hbu & Hlc & Hmf & Hd3 & Hj3).
    cbn [w_disk] in Hbu.
    pose proof Hv as V0. unfold verifier_says in V0. cbn [w_disk] in V0.
    assert (V0v : verify_proof cr (c_tree c) (d_tree dv) pf (kp_public (c_keypair c)) = Ok cs)
      by (rewrite <- (verify_proof_ext _ _ _ Hsl); exact V0).
    (* the stored nodes of the completed disk are closed as well *)
    assert (Hclo_v : ClosedR (c_tree c) (d_tree dv)).
    { apply (ClosedR_ext (c_tree c) (d_tree d)); [reflexivity| |exact Hclo].
      intros q. unfold navail, required_node. rewrite (Hsl q false). split; intros E; exact E. }
    set (r := t_length (c_tree c)) in *.
    set (m := if cs_upgraded cs then cs_length cs else r).
    assert (H64r : 2 * r <= u64_max) by (unfold NODE_SIZE in Hw2; lia).
    assert (Hrm : r <= m) by (unfold m; destruct (cs_upgraded cs); [apply (Hup eq_refl)|lia]).
    assert (Hmn : m <= N.of_nat (length bs)) by (unfold m; destruct (cs_upgraded cs); [apply (Hup eq_refl)|exact Wr]).
    assert (HRt : forall x, In x (t_roots (c_tree c)) -> navail (c_tree c) (d_tree dv) (n_index x)).
    { intros x Hx. exists x. apply Wrl, Hx. }
    assert (Ecr : cs_roots cs = ref_roots cr bs m).
    { unfold m. destruct (cs_upgraded cs) eqn:Up; [apply (Hup eq_refl)|].
      destruct (verify_proof_good cr _ _ pf _ cs Hclo_v HRt V0v) as (_ & _ & Hsame). rewrite (Hsame Up). exact Wroots. }
    (* the block part, on the real and on the completed disk: the block is written at the writer's offset *)
    assert (Hoffv : forall b, p_block pf = Some b ->
              byte_offset_in_changeset (c_tree c) (d_tree dv) (db_index b) cs = Ok (prefix_size bs (db_index b))).
    { intros b Eb. destruct (Hblk b Eb) as (Hleaf & Hb64 & Hval).
      apply (offset_value cr bs (c_tree c) (d_tree dv) r Hclo_v Wroots Wbl eq_refl
               (replica_sound cr bs c dv H Xv) H64r Hw1 (db_index b) cs m Hb64 Href Hleaf Ecr
               (verify_proof_parent_later cr _ _ pf _ cs V0v)). }
    assert (Hoffd : forall b, p_block pf = Some b ->
              byte_offset_in_changeset (c_tree c) (d_tree d) (db_index b) cs = Ok (prefix_size bs (db_index b))).
    { intros b Eb. rewrite (byte_offset_in_changeset_ext (c_tree c) _ _ Hsl). apply Hoffv, Eb. }
    pose proof (block_part_at pf c d cs j ev (fun b => prefix_size bs (db_index b)) Hoffd) as Hbp.
    pose proof (block_part_at pf c dv cs j ev (fun b => prefix_size bs (db_index b)) Hoffv) as Hbu_v.
    cbv beta in Hbp, Hbu_v.
    set (bu0 := match p_block pf with Some b => Some (mkBfUpdate false (db_index b) 1) | None => None end) in *.
    set (pre := match p_block pf with Some b => [SW Data (prefix_size bs (db_index b)) (db_value b)] | None => [] end) in *.
    set (d1 := match p_block pf with
               | Some b => d_set d Data (f_write (d_data d) (prefix_size bs (db_index b)) (db_value b)) | None => d end) in *.
    set (dv1 := match p_block pf with
                | Some b => d_set dv Data (f_write (d_data dv) (prefix_size bs (db_index b)) (db_value b)) | None => dv end) in *.
    rewrite Hbp in Hbu.
    assert (Ec1 : c1 = c) by congruence. assert (Ew1 : w1 = mkWorld d1 (rev pre ++ j) ev) by congruence.
    assert (Ebu : bu = bu0) by congruence. subst c1 w1 bu. clear Hbu.
    assert (A1 : apply_sops d pre = Some d1) by (unfold pre, d1; destruct (p_block pf); reflexivity).
    assert (Et1 : d_tree d1 = d_tree d) by (unfold d1; destruct (p_block pf); destruct d; reflexivity).
    assert (Eo1 : d_oplog d1 = d_oplog d) by (unfold d1; destruct (p_block pf); destruct d; reflexivity).
    assert (Eb1 : d_bitfield d1 = d_bitfield d) by (unfold d1; destruct (p_block pf); destruct d; reflexivity).
    assert (Et1v : d_tree dv1 = d_tree dv) by (unfold dv1; destruct (p_block pf); destruct dv; reflexivity).
    assert (Edd1 : d_data dv1 = d_data d1).
    { unfold dv1, d1. destruct (p_block pf); [|exact Edv]. rewrite Edv. destruct d, dv; reflexivity. }
    assert (Edv1 : d_data dv1 = match p_block pf with
                                | Some b => f_write (d_data dv) (prefix_size bs (db_index b)) (blk bs (db_index b))
                                | None => d_data dv
                                end).
    { unfold dv1. destruct (p_block pf) as [b|] eqn:Eb; [|reflexivity].
      destruct (Hblk b eq_refl) as (_ & _ & Hval). rewrite Hval. destruct dv; reflexivity. }
    (* what the proof's block section looks like *)
    assert (Hpre : (p_block pf = None /\ pre = [] /\ d1 = d) \/
                   (exists b, p_block pf = Some b /\ pre = [SW Data (prefix_size bs (db_index b)) (db_value b)] /\
                              d_data d1 = f_write (d_data d) (prefix_size bs (db_index b)) (db_value b) /\
                              apply_sop d (SW Data (prefix_size bs (db_index b)) (db_value b)) = Some d1)).
    { unfold pre, d1. destruct (p_block pf) as [b|]; [right; exists b|left]; repeat split; try (destruct d; reflexivity). }
    (* the commit, on both *)
    destruct (log_and_commit_other_disk cr cs bu0 c d1 (rev pre ++ j) ev c2 w2 tt dv1 Hlc) as (fr & Ew2 & Hlc_v).
    set (off := ENTRIES_OFFSET + ol_entries_bytes (c_oplog c)) in *.
    set (d2 := d_set d1 Oplog (f_write (d_oplog d1) off fr)) in *.
    set (d2v := d_set dv1 Oplog (f_write (d_oplog dv1) off fr)) in *.
    assert (Dt2 : d_tree d2 = d_tree d) by (unfold d2; destruct d1; exact Et1).
    assert (Dt2v : d_tree d2v = d_tree dv) by (unfold d2v; destruct dv1; exact Et1v).
    assert (Dd2 : d_data d2 = d_data d1) by (unfold d2; destruct d1; reflexivity).
    assert (Dd2v : d_data d2v = d_data dv1) by (unfold d2v; destruct dv1; reflexivity).
    (* the state after the commit on the completed disk satisfies SoundCore.RInv -- directly *)
    destruct (log_and_commit_inv cr cs bu0 c _ c2 w2 tt Hlc) as (t' & TC & Et' & _ & Ebf & _ & _).
    destruct (commit_reference_changeset_keeps_RInv cr Hhash32 Hnonblank bs Hw c dv c2 d2v pf _ cs
                (option_map db_index (p_block pf)) Wv Hclo_v V0v ltac:(rewrite Et'; exact TC) Href)
      as (W2v & Hclo2v & Hauth & _ & _).
    { exact Hrm. }
    { exact Hmn. }
    { intros Up. fold r m. unfold m. rewrite Up. apply (Hup Up). }
    { exact Dt2v. }
    { unfold block_stored, bu0 in *. rewrite Dd2v, Edv1. destruct (p_block pf) as [b|]; cbn [option_map].
      - destruct (Hblk b eq_refl) as (Hleaf & _ & _). split; [exact Hleaf|].
        split; [intros i'; rewrite Ebf; reflexivity|reflexivity].
      - split; [intros i'; rewrite Ebf; reflexivity|reflexivity]. }
    fold r m in Hauth.
    (* hence the real state satisfies RInvZ *)
    destruct (tree_commit_inv (c_tree c) cs t' TC) as (Eu2 & _).
    assert (Eu2' : t_unflushed (c_tree c2) = add_nodes (t_unflushed (c_tree c)) (cs_nodes cs))
      by (rewrite Et'; exact Eu2).
    assert (W2r : RInvZ cr bs c2 d2).
    { apply (RInv_RInvZ_veq cr bs c2 d2 d2v W2v).
      - rewrite Dd2v, Dd2. exact Edd1.
      - rewrite Dt2, Dt2v, Eu2'. apply (veq_mono (t_unflushed (c_tree c))); [apply add_nodes_none_mono|exact Hveq].
      - rewrite Dt2, Eu2'. intros q Gq. apply W6', (add_nodes_none_mono _ _ _ Gq). }
    assert (Hclo2 : ClosedR (c_tree c2) (d_tree d2)).
    { apply (ClosedR_lookups (c_tree c2) (d_tree d2v)); [|exact Hclo2v].
      apply veq_same_lookups. rewrite Dt2, Dt2v, Eu2'. apply veq_sym.
      apply (veq_mono (t_unflushed (c_tree c))); [apply add_nodes_none_mono|exact Hveq]. }
    (* the signature of an upgraded changeset *)
    assert (Hsig : cs_upgraded cs = true ->
                   exists sg, cs_signature cs = Some sg /\ length sg = 64%nat /\ bytes_ok sg = true /\
                     cs_hash cs = Some (tree_hash cr (cs_roots cs)) /\
                     cr_verify cr (kp_public (c_keypair c))
                       (signable (tree_hash cr (cs_roots cs)) (cs_length cs) (cs_fork cs)) sg = true).
    { intros Up. destruct (p_upgrade pf) as [u|] eqn:Eu.
      - destruct (verify_proof_upgrade_sig cr _ _ pf _ cs u Eu V0) as (L & S & Hh' & Hvv & _).
        exists (du_signature u). repeat split; assumption.
      - rewrite (Hnoup eq_refl) in Up. discriminate Up. }
    assert (Hanc : cs_upgraded cs = true -> cs_ancestors cs = r) by (intros Up; apply (Hup Up)).
    assert (Hbus : match bu0 with Some u => bu_drop u = false /\ bu_length u = 1 | None => True end).
    { unfold bu0. destruct (p_block pf); [split; reflexivity|exact I]. }
    rewrite Ew2 in Hlc.
    destruct (RDInvZ_commit cr Hcrc Hhash32 Hnonblank Hhashbytes bs Hw c d d1 H cs bu0 (rev pre ++ j) ev c2 _ tt
                X Et1 Eo1 Eb1 Hlc W2r Hrm Hmn Hauth Hanc Hsig Hbus)
      as (X2 & Em & Ek2 & _ & _ & _ & Hh2 & e & o' & fr' & Heok & OA & Ew2').
    cbn [w_disk] in X2, Hh2. fold off in OA, Ew2'. injection Ew2' as _ Efr. subst fr'.
    fold r m in Em.
    (* the flush decision *)
    destruct (maybe_flush_RCZ cr Hcrc Hhash32 Hnonblank Hhashbytes bs Hw f c2 d2 (SW Oplog off fr :: rev pre ++ j) ev _ (conj X2 Hclo2))
      as (c3 & d3 & fl & Emf & Afl & RC3 & El3 & Ek3 & Hh3 & C3 & T3).
    rewrite Ew2, Emf in Hmf. injection Hmf as Ec3 Ew3. subst c3 w3.
    cbn [w_disk w_journal] in Hd3, Hj3.
    (* the held set *)
    assert (EH : forall i, hold H (p_block pf) i = held_after H bu0 i).
    { intros i. unfold hold, held_after, bu0. destruct (p_block pf) as [b|]; [|reflexivity].
      unfold upd_fun. cbn [bu_start bu_length bu_drop negb].
      destruct (N.eqb_spec i (db_index b)) as [->|Ne].
      - destruct (N.leb_spec (db_index b) (db_index b)) as [_|L]; [|lia].
        destruct (N.ltb_spec (db_index b) (db_index b + 1)) as [_|L]; [reflexivity|lia].
      - destruct ((db_index b <=? i) && (i <? db_index b + 1)) eqn:E; [lia|reflexivity]. }
    assert (Xfin : RCInvZ cr bs c' d3 (hold H (p_block pf))) by (apply (RCInvZ_ext cr bs c' d3 _ _ EH), RC3).
    (* every held block is readable from the data store after the data write *)
    assert (Hd1 : forall i, H i = true -> len (blk bs i) <> 0 ->
                    f_read (d_data d1) (prefix_size bs i) (len (blk bs i)) = Some (blk bs i)).
    { intros i Hi Hlen.
      destruct W2r as (_ & _ & _ & _ & _ & _ & _ & V8).
      assert (Hi2 : bf_get (c_bitfield c2) i = true).
      { destruct X2 as (_ & Hb2 & _). rewrite Hb2, <- EH. unfold hold. destruct (p_block pf); [rewrite Hi; apply orb_true_r|exact Hi]. }
      destruct (V8 i Hi2) as (_ & _ & _ & A4). rewrite <- Dd2. apply A4, Hlen. }
    assert (Hd0 : forall i, H i = true -> len (blk bs i) <> 0 ->
                    f_read (d_data d) (prefix_size bs i) (len (blk bs i)) = Some (blk bs i)).
    { intros i Hi Hlen. rewrite <- Hb in Hi. apply (W8 i Hi), Hlen. }
    assert (Before1 : RCDiskZ cr bs (kp_public (c_keypair c)) d1 H r)
      by (apply (RCDiskZ_data cr bs _ d d1 H _ XD Et1 Eo1 Eb1 Hd1)).
    assert (A2 : apply_sop d1 (SW Oplog off fr) = Some d2) by reflexivity.
    (* the cuts from the entry write on *)
    assert (After : forall k, exists dk, apply_sops d2 (firstn k fl) = Some dk /\
                     RCDiskZ cr bs (kp_public (c_keypair c)) dk (hold H (p_block pf)) (t_length (c_tree c')) /\
                     (hyg cr (f_content (d_oplog d)) -> hyg cr (f_content (d_oplog dk)))).
    { intros k. destruct (C3 k) as (dk & Ak & Pk & Hk). exists dk. split; [exact Ak|]. split.
      - rewrite El3, <- Ek2. apply (RCDiskZ_ext cr bs _ dk _ _ _ EH), Pk.
      - intros Hh0. apply Hk, Hh2, Hh0. }
    assert (TornAfter : forall k o t, nth_error fl k = Some o -> (t < wlen o)%nat ->
              exists dk dkt, apply_sops d2 (firstn k fl) = Some dk /\ apply_sop dk (tear o t) = Some dkt /\
                (tear_safe cr dk o t ->
                 recoversRC cr bs (kp_public (c_keypair c)) dkt (hold H (p_block pf)) (t_length (c_tree c')) \/
                 (is_slot_write o = true /\ Crash.collision cr t))).
    { intros k o t Hk Ht. destruct (T3 k o t Hk ltac:(lia)) as (dk & dkt & Ak & At & Q).
      exists dk, dkt. split; [exact Ak|]. split; [exact At|]. intros Hsafe.
      destruct (Q Hsafe) as [Yd|Cl]; [left|right; exact Cl].
      apply (RCDiskZ_recovers cr Hcrc Hhash32 Hnonblank Hhashbytes bs).
      rewrite El3, <- Ek2. apply (RCDiskZ_ext cr bs _ dkt _ _ _ EH), Yd. }
    (* the torn entry write *)
    assert (TornE : forall t, (t < length fr)%nat ->
              recoversRC cr bs (kp_public (c_keypair c))
                (d_set d1 Oplog (f_write (d_oplog d1) off (firstn t fr))) H r).
    { intros t Ht.
      apply (torn_entry_recovers_RC cr Hcrc Hhash32 Hnonblank Hhashbytes bs c d d1 H e o' fr t RC Heok OA Ht Et1 Eb1 Eo1 Hd1). }
    exists (pre ++ SW Oplog off fr :: fl).
    split. { rewrite Hj3. rewrite rev_app_distr. cbn [rev]. rewrite <- !app_assoc. reflexivity. }
    split. { rewrite CoreFacts.apply_sops_app, A1. cbn [apply_sops]. rewrite A2, Hd3. exact Afl. }
    split; [rewrite Hd3; exact Xfin|]. split; [rewrite Ek3; exact Ek2|].
    split; [rewrite El3; exact Em|]. split; [rewrite El3, Em; exact Hrm|].
    split; [rewrite Hd3; exact Hh3|].
    unfold commit_point.
    destruct Hpre as [(Epb & Epre & Ed1)|(b & Epb & Epre & Edata1 & A1')]; rewrite Epb, Epre in *.
    - (* without a block: entry write, flush group *)
      rewrite Ed1 in *.
      split. { exists [], off, fr, fl. split; [reflexivity|]. split; [reflexivity|intros o []]. }
      split.
      + intros [|k].
        * exists d. split; [reflexivity|]. split; [exact XD|intros Hh0; exact Hh0].
        * destruct (After k) as (dk & Ak & Pk & Hk). exists dk.
          split; [cbn [app firstn apply_sops]; rewrite A2; exact Ak|]. split; [exact Pk|exact Hk].
      + intros [|k] o t Hk Ht.
        * cbn [app nth_error] in Hk. injection Hk as <-. cbn [wlen] in Ht.
          exists d. eexists. split; [reflexivity|]. split; [reflexivity|]. intros _. left.
          cbn [Nat.leb]. apply TornE, Ht.
        * cbn [app nth_error] in Hk. destruct (TornAfter k o t Hk Ht) as (dk & dkt & Ak & At & Q).
          exists dk, dkt. split; [cbn [app firstn apply_sops]; rewrite A2; exact Ak|]. split; [exact At|exact Q].
    - (* with a block: data write, entry write, flush group *)
      set (off0 := prefix_size bs (db_index b)) in *.
      split. { exists [SW Data off0 (db_value b)], off, fr, fl. split; [reflexivity|]. split; [reflexivity|].
               intros o [<-|[]]; reflexivity. }
      split.
      + intros [|[|k]].
        * exists d. split; [reflexivity|]. split; [exact XD|intros Hh0; exact Hh0].
        * exists d1. split; [cbn [app firstn apply_sops]; rewrite A1'; reflexivity|]. split; [exact Before1|].
          rewrite Eo1. intros Hh0; exact Hh0.
        * destruct (After k) as (dk & Ak & Pk & Hk). exists dk.
          split; [cbn [app firstn apply_sops]; rewrite A1', A2; exact Ak|]. split; [exact Pk|exact Hk].
      + intros [|[|k]] o t Hk Ht.
        * (* the torn data write: bytes of a block that is not held, or the same bytes again *)
          cbn [app nth_error] in Hk. injection Hk as <-. cbn [wlen] in Ht.
          exists d. eexists. split; [reflexivity|]. split; [reflexivity|]. intros _. left. cbn [Nat.leb].
          apply (RCDiskZ_recovers cr Hcrc Hhash32 Hnonblank Hhashbytes bs).
          apply (RCDiskZ_data cr bs _ d _ H _ XD); try (destruct d; reflexivity).
          intros i Hi Hlen.
          replace (d_data (d_set d Data (f_write (d_get d Data) off0 (firstn t (db_value b)))))
            with (f_write (d_data d) off0 (firstn t (db_value b))) by (destruct d; reflexivity).
          apply f_read_torn_write; [apply Hd0; assumption|]. rewrite <- Edata1. apply Hd1; assumption.
        * cbn [app nth_error] in Hk. injection Hk as <-. cbn [wlen] in Ht.
          exists d1. eexists. split; [cbn [app firstn apply_sops]; rewrite A1'; reflexivity|]. split; [reflexivity|].
          intros _. left. cbn [Nat.leb]. apply TornE, Ht.
        * cbn [app nth_error] in Hk. destruct (TornAfter k o t Hk Ht) as (dk & dkt & Ak & At & Q).
          exists dk, dkt. split; [cbn [app firstn apply_sops]; rewrite A1', A2; exact Ak|]. split; [exact At|exact Q].
  Qed.
End HonestApplyCZ.
Print Assumptions honest_apply_ZC.

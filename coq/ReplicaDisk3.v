(* ReplicaDisk3.v -- replicas end to end, part 3: an ACCEPTED core_apply_proof preserves RDInv (goal 2), for
   every flush decision, or exhibits a hash collision / a signature on a message the writer never signed.
   The held set grows by the block of the proof, the length moves to the length of the accepted upgrade. *)
From HC Require Import Base NMap Codec CodecFacts Crypto FlatTree Storage Bitfield Oplog Merkle Core.
From HC Require Import FlatTreeFacts StorageFacts BitfieldFacts OplogFacts TreeRef OffsetFacts CoreFacts Crash Refine.
From HC Require Import ClearRefine Reopen ContigBridge Unified1 Unified2 CrashCore1 CrashClear1.
From HC Require Import Sound NoPanic Replicate SoundCoreLib SoundCore SoundCoreUp SoundCoreBU.
From HC Require Import ReplicaDisk1 ReplicaDisk2.
From Coq Require Import FMapPositive ZifyN ZifyNat ZifyBool.
Ltac Zify.zify_post_hook ::= Z.div_mod_to_equations.
Arguments N.add : simpl never.
Arguments N.sub : simpl never.
Arguments N.mul : simpl never.
Arguments N.div : simpl never.
Arguments N.modulo : simpl never.
Arguments N.pow : simpl never.
Arguments N.eqb : simpl never.
Arguments N.ltb : simpl never.
Arguments N.leb : simpl never.
Arguments N.max : simpl never.
Arguments N.min : simpl never.
Arguments N.of_nat : simpl never.
Arguments N.to_nat : simpl never.

(* ====================================================================================== *)
(* A. What the verifier's changeset carries (no soundness reasoning)                        *)
(* ====================================================================================== *)

Section Shape.
  Variable cr : crypto.

  Lemma cs_verify_sig_inv c sg pk c4 :
    cs_verify_and_set_signature cr c sg pk = Ok c4 ->
    length sg = 64%nat /\ cs_signature c4 = Some sg /\ cs_hash c4 = Some (tree_hash cr (cs_roots c4)) /\
    cr_verify cr pk (signable (tree_hash cr (cs_roots c4)) (cs_length c4) (cs_fork c4)) sg = true /\
    cs_fork c4 = cs_fork c.
  Proof.
    unfold cs_verify_and_set_signature, parse_signature. intros H.
    destruct (Nat.eqb (length sg) 64) eqn:E; [|discriminate H]. cbn [bind] in H.
    destruct (cr_verify cr pk (cs_signable c (cs_tree_hash cr c)) sg) eqn:V; [|discriminate H].
    injection H as <-. apply Nat.eqb_eq in E.
    cbn [cs_set_hash_sig cs_signature cs_hash cs_roots cs_length cs_fork].
    repeat split; try assumption; reflexivity.
  Qed.

  Lemma verify_upgrade_sig fork u root pk c consumed c4 :
    verify_upgrade cr fork u root pk c = Ok (consumed, c4) ->
    length (du_signature u) = 64%nat /\ cs_signature c4 = Some (du_signature u) /\
    cs_hash c4 = Some (tree_hash cr (cs_roots c4)) /\
    cr_verify cr pk (signable (tree_hash cr (cs_roots c4)) (cs_length c4) (cs_fork c4)) (du_signature u) = true /\
    cs_fork c4 = fork.
  Proof.
    unfold verify_upgrade. intros H.
    apply bind_ok in H. destruct H as (sl & _ & H).
    apply bind_ok in H. destruct H as (to & _ & H).
    apply bind_ok in H. destruct H as ([[c1 q1] itx] & _ & H).
    apply bind_ok in H. destruct H as (li & _ & H).
    apply bind_ok in H. destruct H as ([[c2 it2] rest] & _ & H).
    apply bind_ok in H. destruct H as ([c3 it3] & _ & H).
    apply bind_ok in H. destruct H as (c4' & Hs & H). injection H as _ <-.
    apply cs_verify_sig_inv in Hs. cbn [cs_set_fork cs_fork] in Hs. exact Hs.
  Qed.

  Lemma verify_proof_upgrade_sig t tf pf pk cs u :
    p_upgrade pf = Some u -> verify_proof cr t tf pf pk = Ok cs ->
    length (du_signature u) = 64%nat /\ cs_signature cs = Some (du_signature u) /\
    cs_hash cs = Some (tree_hash cr (cs_roots cs)) /\
    cr_verify cr pk (signable (tree_hash cr (cs_roots cs)) (cs_length cs) (cs_fork cs)) (du_signature u) = true /\
    cs_fork cs = p_fork pf.
  Proof.
    intros Hu H. unfold verify_proof in H. rewrite Hu in H.
    apply bind_ok in H. destruct H as ([root c1] & _ & H).
    apply bind_ok in H. destruct H as ([root2 c2] & Hvu & H).
    apply bind_ok in Hvu. destruct Hvu as ([consumed c4] & Hvu & E). injection E as _ <-.
    apply verify_upgrade_sig in Hvu.
    destruct root2 as [r0|].
    - apply bind_ok in H. destruct H as (nn & _ & H).
      destruct (bytes_eqb (n_hash nn) (n_hash r0)); [|discriminate H]. injection H as <-. exact Hvu.
    - injection H as <-. exact Hvu.
  Qed.

  Lemma verify_proof_no_upgrade t tf pf pk cs :
    p_upgrade pf = None -> p_hash pf = None -> p_seek pf = None ->
    verify_proof cr t tf pf pk = Ok cs -> cs_upgraded cs = false.
  Proof.
    intros Hu Hh Hs H. unfold verify_proof in H. rewrite Hu, Hh, Hs in H.
    apply bind_ok in H. destruct H as ([root c1] & Hvt & H). cbn [bind] in H.
    assert (Hc1 : cs_upgraded c1 = false).
    { destruct (p_block pf) as [b|].
      - apply verify_tree_block_inv in Hvt. destruct Hvt as (r0 & visited & _ & _ & _ & ->). reflexivity.
      - cbn in Hvt. injection Hvt as _ <-. reflexivity. }
    destruct root as [r0|].
    - apply bind_ok in H. destruct H as (nn & _ & H).
      destruct (bytes_eqb (n_hash nn) (n_hash r0)); [|discriminate H]. injection H as <-. exact Hc1.
    - injection H as <-. exact Hc1.
  Qed.

  (* the encoding of a list of nodes is at least as long as the list *)
  Lemma enc_all_nodes_len (l : list node) : forall b, enc_all enc_node l = Ok b -> N.of_nat (length l) <= len b.
  Proof.
    induction l as [|x l IH]; intros b H; cbn [enc_all] in H.
    - injection H as <-. cbn [length]. lia.
    - apply bind_ok in H. destruct H as (a & Ha & H). apply bind_ok in H. destruct H as (b' & Hb & H).
      injection H as <-. specialize (IH b' Hb). rewrite len_app. cbn [length].
      unfold enc_node in Ha. destruct (Nat.eqb (length (n_hash x)) 32) eqn:E; [|discriminate Ha].
      injection Ha as <-. apply Nat.eqb_eq in E. rewrite !len_app. unfold len at 3. rewrite E. lia.
  Qed.

  (* an entry that was framed has fewer than 2^30 nodes *)
  Lemma appended_nodes_count o e o' ops :
    oplog_append cr o e = Ok (o', ops) -> N.of_nat (length (e_nodes e)) < 1073741824.
  Proof.
    intros H. apply oplog_append_inv in H. destruct H as (payload & fr & Hp & Hfr & _).
    unfold frame in Hfr. destruct (N.leb_spec 1073741824 (len payload)) as [L|L]; [discriminate Hfr|].
    unfold enc_entry in Hp. apply bind_ok in Hp. destruct Hp as (ns & Hns & Hp). injection Hp as <-.
    unfold len in L. cbn [app length] in L. rewrite !app_length in L.
    destruct (e_nodes e) as [|x l] eqn:El; [cbn [length]; lia|].
    unfold enc_nodes in Hns. apply bind_ok in Hns. destruct Hns as (b & Hb & Hns). injection Hns as <-.
    apply enc_all_nodes_len in Hb. unfold len in Hb. rewrite app_length in L. lia.
  Qed.
End Shape.

(* ====================================================================================== *)
(* B. The nodes of an accepted changeset are the writer's nodes (soundness lemmas of         *)
(*    SoundCoreLib / SoundCoreUp / SoundCoreBU, read for the list of nodes that is logged)   *)
(* ====================================================================================== *)

Section Nodes.
  Variable cr : crypto.
  Hypothesis Hhash32 : forall x, length (cr_hash cr x) = 32%nat.
  Hypothesis Hnonblank : forall x, all_zero (cr_hash cr x) = false.
  Variable bs : list bytes.
  Hypothesis Hw : writer_fits bs.

  Lemma path_authentic m k i :
    span_end k (i / p2 k) <= m ->
    Forall (authentic cr bs m) (ref_node cr bs 0 i :: ref_path cr bs k 0 i).
  Proof.
    intros Hspan. destruct Hw as [Hw1 _]. constructor.
    - unfold authentic. rewrite ref_node_index. split; [symmetry; apply ref_at_index|].
      apply in_len_index. pose proof (span_end_up k 0 i) as U. unfold span_end in *. cbn [Nat.add] in U. lia.
    - pose proof (ref_path_authentic cr bs Hw1 m k 0 i) as A. cbn [Nat.add] in A. apply A, Hspan.
  Qed.

  (* length after the changeset, and what its nodes are *)
  Lemma accepted_changeset_nodes c d pf cs :
    SoundCore.RInv cr bs c d -> block_upgrade_ok pf ->
    verify_proof cr (c_tree c) (d_tree d) pf (kp_public (c_keypair c)) = Ok cs ->
    (let r := t_length (c_tree c) in
     let m := if cs_upgraded cs then cs_length cs else r in
     r <= m /\ m <= N.of_nat (length bs) /\ Forall (authentic cr bs m) (cs_nodes cs) /\
     (cs_upgraded cs = true -> cs_ancestors cs = r)) \/
    some_collision cr \/ forged_signature cr bs (kp_public (c_keypair c)).
  Proof.
    intros W (Hh & Hs & Hshape) V. pose proof W as (H1 & H2 & H3 & H4 & H5 & H6 & H7 & H8).
    destruct Hw as [Hw1 Hw2].
    destruct pf as [fork ob oh os ou]. cbn [p_hash p_seek p_block p_upgrade p_fork] in *. subst oh os.
    set (t := c_tree c) in *. set (r := t_length t) in *. cbv zeta.
    destruct ou as [u|].
    - destruct Hshape as (A1 & A2 & A3 & A4). destruct ob as [b|].
      + (* block and upgrade *)
        destruct A4 as [A4 A5].
        destruct (verify_block_upgrade_inv cr Hhash32 Hnonblank bs (conj Hw1 Hw2) t (d_tree d) r fork b u _ cs
                    H5 H6 H3 eq_refl H4 H1 A1 A2 A3 A5 V)
          as [(m & new & k & Hvb)|[C|F]]; [left|right; left; exact C|right; right; exact F].
        cbv zeta in Hvb.
        destruct Hvb as (Hrm & Hmn & _ & _ & Hspan & _ & El & _ & _ & Enodes & Hauth & _ & _ & Ea & _ & _ & Hup).
        assert (Em : (if cs_upgraded cs then cs_length cs else r) = m).
        { destruct (cs_upgraded cs) eqn:Up; [exact El|]. destruct (Hup eq_refl) as [-> _]. reflexivity. }
        rewrite Em. split; [exact Hrm|]. split; [exact Hmn|]. split; [|intros _; exact Ea].
        rewrite Enodes. apply Forall_app. split; [apply path_authentic, Hspan|].
        apply Forall_rev, Hauth.
      + (* upgrade only *)
        unfold verify_proof in V. cbn [p_block p_hash p_seek p_upgrade p_fork] in V.
        change (verify_tree cr None None None (tree_changeset t)) with (Ok (@None node, tree_changeset t)) in V.
        cbn [bind] in V.
        apply bind_ok in V. destruct V as ([root2 cx] & Hvu & V).
        apply bind_ok in Hvu. destruct Hvu as ([consumed c4] & Hvu & E).
        assert (root2 = None /\ cx = c4) as [-> ->] by (destruct consumed; injection E as <- <-; auto).
        injection V as <-.
        destruct (verify_upgrade_sound cr Hhash32 bs (conj Hw1 Hw2) (tree_changeset t) r fork u None _ consumed c4
                    H1 H3 eq_refl H4 A1 A2 A3 I Hvu)
          as [(m & new & Hrm & Hmn & _ & El & _ & _ & En & Hauth & _ & _ & _ & Ea & _ & _ & Hup & _)|[C|F]];
          [left|right; left; exact C|right; right; exact F].
        cbn [tree_changeset cs_rnodes cs_ancestors] in En, Ea. rewrite app_nil_r in En.
        assert (Em : (if cs_upgraded c4 then cs_length c4 else r) = m).
        { destruct (cs_upgraded c4) eqn:Up; [exact El|]. destruct (Hup eq_refl) as [-> _]. reflexivity. }
        rewrite Em. split; [exact Hrm|]. split; [exact Hmn|]. split; [|intros _; exact Ea].
        unfold cs_nodes. rewrite rev_append_rev, app_nil_r, En. apply Forall_rev, Hauth.
    - assert (Hno : cs_upgraded cs = false)
        by (apply (verify_proof_no_upgrade cr t (d_tree d) (mkProof fork ob None None None) _ cs eq_refl eq_refl eq_refl V)).
      rewrite Hno. destruct ob as [b|].
      + (* block only *)
        destruct (verify_block_inv cr Hhash32 Hnonblank bs Hw1 _ _ _ _ _ _ _ H5 H6 V) as [(k & Hvb)|C];
          [left|right; left; exact C].
        cbv zeta in Hvb. destruct Hvb as (_ & Ecs & _ & Hspan & _).
        split; [lia|]. split; [exact H1|]. split; [|intros E; discriminate E].
        rewrite Ecs, cs_nodes_push_fresh. apply path_authentic, Hspan.
      + (* no section *)
        left. unfold verify_proof in V. cbn [p_block p_hash p_seek p_upgrade] in V.
        change (verify_tree cr None None None (tree_changeset t)) with (Ok (@None node, tree_changeset t)) in V.
        cbn [bind] in V. injection V as <-.
        split; [lia|]. split; [exact H1|]. split; [constructor|intros E; discriminate E].
  Qed.
End Nodes.

(* ====================================================================================== *)
(* C. log_and_commit, read backwards from success with all its parts                        *)
(* ====================================================================================== *)

Section Commit.
  Variable cr : crypto.

  Definition bu_apply_b (b : bitfield) (bu : option bf_update) : bitfield :=
    match bu with Some u => bf_apply b u | None => b end.
  Definition bu_apply_h (b : bitfield) (h : header) (bu : option bf_update) : header :=
    match bu with
    | Some u => set_contig h (update_contig (hd_contig h) (bf_apply b u) u)
    | None => h
    end.

  Lemma log_and_commit_full cs bu c w c' w' u0 :
    log_and_commit cr cs bu c w = (c', w', Ok u0) ->
    exists e h1 o' fr t',
      entry_of_changeset cs bu (c_header c) = Ok (e, h1) /\
      oplog_append cr (c_oplog c) e = Ok (o', [SW Oplog (ENTRIES_OFFSET + ol_entries_bytes (c_oplog c)) fr]) /\
      tree_commit (c_tree c) cs = Ok t' /\
      c' = mkCore (c_keypair c) o' t' (bu_apply_b (c_bitfield c) bu) (bu_apply_h (c_bitfield c) h1 bu) (c_skip c) /\
      w' = mkWorld (d_set (w_disk w) Oplog
                      (f_write (d_oplog (w_disk w)) (ENTRIES_OFFSET + ol_entries_bytes (c_oplog c)) fr))
                   (SW Oplog (ENTRIES_OFFSET + ol_entries_bytes (c_oplog c)) fr :: w_journal w) (w_events w).
  Proof.
    unfold log_and_commit. rewrite mbind_get_core, mbind_lift. intros H.
    destruct (entry_of_changeset cs bu (c_header c)) as [[e h1]| | |] eqn:EC; try discriminate H.
    rewrite mbind_lift in H.
    destruct (oplog_append cr (c_oplog c) e) as [[o' ops]| | |] eqn:OA; try discriminate H.
    pose proof OA as OA'. apply oplog_append_inv in OA'. destruct OA' as (payload & fr & _ & _ & _ & ->).
    rewrite mbind_put_oplog, mbind_emit_SW, mbind_put_header in H.
    cbn [w_disk w_journal w_events c_keypair c_oplog c_tree c_bitfield c_header c_skip] in H.
    exists e, h1, o', fr.
    mstep_ok H H4 c4 w4 u4.
    rewrite mbind_get_core, mbind_lift in H.
    destruct (tree_commit (c_tree c4) cs) as [t'| | |] eqn:TC; try discriminate H.
    unfold put_tree in H. injection H as <- <- _.
    destruct bu as [u|].
    - rewrite mbind_get_core, mbind_put_bitfield in H4. unfold put_header in H4.
      cbn [c_keypair c_oplog c_tree c_bitfield c_header c_skip] in H4.
      injection H4 as <- <- _. cbn [c_tree c_keypair c_oplog c_bitfield c_header c_skip] in *.
      exists t'. repeat split; assumption.
    - unfold ret in H4. injection H4 as <- <- _. cbn [c_tree c_keypair c_oplog c_bitfield c_header c_skip] in *.
      exists t'. repeat split; assumption.
  Qed.

  (* the entry and the header of an accepted changeset *)
  Lemma entry_of_changeset_inv cs bu h e h1 :
    entry_of_changeset cs bu h = Ok (e, h1) ->
    e_nodes e = cs_nodes cs /\ e_bitfield e = bu /\
    ((cs_upgraded cs = false /\ e_upgrade e = None /\ h1 = h) \/
     (exists hash sg, cs_upgraded cs = true /\ cs_hash cs = Some hash /\ cs_signature cs = Some sg /\
        e_upgrade e = Some (mkTreeUpgrade (cs_fork cs) (cs_ancestors cs) (cs_length cs) sg) /\
        h1 = set_tree h (mkHeaderTree (ht_fork (hd_tree h)) (cs_length cs) hash sg))).
  Proof.
    unfold entry_of_changeset. destruct (cs_upgraded cs).
    - destruct (cs_hash cs) as [hash|]; [|discriminate]. destruct (cs_signature cs) as [sg|]; [|discriminate].
      intros H. injection H as <- <-. repeat split. right. exists hash, sg. repeat split.
    - intros H. injection H as <- <-. repeat split. left. repeat split.
  Qed.

  Lemma tree_commit_inv t cs t' :
    tree_commit t cs = Ok t' ->
    t_unflushed t' = add_nodes (t_unflushed t) (cs_nodes cs) /\
    ((cs_upgraded cs = false /\ t_roots t' = t_roots t /\ t_length t' = t_length t /\
      t_byte_length t' = t_byte_length t /\ t_fork t' = t_fork t /\ t_signature t' = t_signature t) \/
     (cs_upgraded cs = true /\ t_roots t' = cs_roots cs /\ t_length t' = cs_length cs /\
      t_byte_length t' = cs_byte_length cs /\ t_fork t' = cs_fork cs /\ t_signature t' = cs_signature cs /\
      cs_orig_length cs = t_length t /\ cs_orig_length cs <= cs_ancestors cs)).
  Proof.
    unfold tree_commit. destruct (commitable t cs) eqn:Cm; [|discriminate]. cbn [negb].
    destruct (cs_upgraded cs) eqn:Up.
    - destruct (N.ltb_spec (cs_ancestors cs) (cs_orig_length cs)) as [L|L]; [discriminate|].
      intros H. injection H as <-. split; [reflexivity|]. right.
      unfold commitable in Cm. rewrite Up in Cm. apply andb_prop in Cm as [_ Cm]. apply N.eqb_eq in Cm.
      repeat split; assumption.
    - intros H. injection H as <-. split; [reflexivity|]. left. repeat split.
  Qed.
End Commit.

Lemma node_ok_authentic cr bs m x :
  (forall y, length (cr_hash cr y) = 32%nat) -> (forall y, bytes_ok (cr_hash cr y) = true) ->
  writer_fits bs -> m <= N.of_nat (length bs) -> authentic cr bs m x -> node_ok x = true.
Proof.
  intros Hhash32 Hhashbytes [Hw1 Hw2] Hm [Ex Hin]. unfold node_ok. rewrite Ex.
  rewrite ref_at_index_id.
  assert (F1 : fits_u64 (n_index x) = true).
  { apply fits_u64_intro. apply in_len_lt in Hin. unfold NODE_SIZE in Hw2. lia. }
  rewrite F1.
  assert (F2 : fits_u64 (n_length (ref_at cr bs (n_index x))) = true)
    by (apply fits_u64_intro, (T_fits cr bs (n_index x) Hw1)).
  rewrite F2, (T_hash32 cr Hhash32 bs (n_index x)). cbn [Nat.eqb andb].
  unfold ref_at. apply ref_node_hash_bytes, Hhashbytes.
Qed.

(* ====================================================================================== *)
(* D. The commit step: entry logged, bitfield and header updated, tree committed            *)
(* ====================================================================================== *)

Lemma set_tree_id h : set_tree h (hd_tree h) = h.
Proof. destruct h; reflexivity. Qed.

Lemma hdr_after_snoc' cr bs hf l e cg cg' :
  set_contig (set_tree (hdr_after cr bs hf l cg) (ht_step cr bs (hd_tree (hdr_after cr bs hf l cg)) e)) cg' =
  hdr_after cr bs hf (l ++ [e]) cg'.
Proof. unfold hdr_after. rewrite fold_left_app. reflexivity. Qed.

Section Step.
  Variable cr : crypto.
  Hypothesis Hcrc : crc_ok cr.
  Hypothesis Hhash32 : forall x, length (cr_hash cr x) = 32%nat.
  Hypothesis Hnonblank : forall x, all_zero (cr_hash cr x) = false.
  Hypothesis Hhashbytes : forall x, bytes_ok (cr_hash cr x) = true.
  Variable bs : list bytes.
  Hypothesis Hw : writer_fits bs.

  (* the held set after an optional bitfield update *)
  Definition held_after (H : N -> bool) (bu : option bf_update) : N -> bool :=
    match bu with Some u => upd_fun H u | None => H end.

  Lemma RDInv_commit c d d1 H cs bu j ev c2 w2 u0 :
    RDInv cr bs c d H ->
    d_tree d1 = d_tree d -> d_oplog d1 = d_oplog d -> d_bitfield d1 = d_bitfield d ->
    log_and_commit cr cs bu c (mkWorld d1 j ev) = (c2, w2, Ok u0) ->
    SoundCore.RInv cr bs c2 (w_disk w2) ->
    let r := t_length (c_tree c) in
    let m := if cs_upgraded cs then cs_length cs else r in
    r <= m -> m <= N.of_nat (length bs) -> Forall (authentic cr bs m) (cs_nodes cs) ->
    (cs_upgraded cs = true -> cs_ancestors cs = r) ->
    (cs_upgraded cs = true ->
     exists sg, cs_signature cs = Some sg /\ length sg = 64%nat /\ bytes_ok sg = true /\
       cs_hash cs = Some (tree_hash cr (cs_roots cs)) /\
       cr_verify cr (kp_public (c_keypair c))
         (signable (tree_hash cr (cs_roots cs)) (cs_length cs) (cs_fork cs)) sg = true) ->
    match bu with Some u => bu_drop u = false /\ bu_length u = 1 | None => True end ->
    RDInv cr bs c2 (w_disk w2) (held_after H bu) /\ t_length (c_tree c2) = m /\
    c_keypair c2 = c_keypair c /\
    d_tree (w_disk w2) = d_tree d /\ d_bitfield (w_disk w2) = d_bitfield d /\ d_data (w_disk w2) = d_data d1.
  Proof.
    intros X Edt Edo Edb Hlc W2 r m Hrm Hmn Hauth Hanc Hsig Hbu.
    pose proof (RDInv_keypair cr bs c d H X) as Kc.
    pose proof X as (W & Hb & Hex & Hk & Hs & s0 & s1 & body & st0 & st1 & hf & l & kf &
                     Hcont & G & Hlen & Hbytes & Hhf & Hh & Hch & Hu & Hst & Hbf & Hsync).
    set (pk := kp_public (c_keypair c)) in *. fold r in Hch.
    destruct (log_and_commit_full cr cs bu c _ c2 w2 u0 Hlc) as (e & h1 & o' & fr & t' & EC & OA & TC & -> & ->).
    cbn [w_disk w_journal w_events] in *.
    destruct (entry_of_changeset_inv cs bu (c_header c) e h1 EC) as (En & Ebu & Hecase).
    destruct (tree_commit_inv (c_tree c) cs t' TC) as (Eu & Htcase).
    cbn [c_tree c_keypair c_bitfield c_header c_oplog w_disk] in W2 |- *.
    set (d2 := d_set d1 Oplog (f_write (d_oplog d1) (ENTRIES_OFFSET + ol_entries_bytes (c_oplog c)) fr)) in *.
    assert (Et2 : d_tree d2 = d_tree d) by (unfold d2; destruct d1 as [f1 f2 f3 f4]; exact Edt).
    assert (Eb2 : d_bitfield d2 = d_bitfield d) by (unfold d2; destruct d1 as [f1 f2 f3 f4]; exact Edb).
    assert (Ed2 : d_data d2 = d_data d1) by (unfold d2; destruct d1 as [f1 f2 f3 f4]; reflexivity).
    assert (Eo2 : d_oplog d2 = f_write (d_oplog d) (ENTRIES_OFFSET + ol_entries_bytes (c_oplog c)) fr)
      by (unfold d2; destruct d1 as [f1 f2 f3 f4]; cbn [d_set d_oplog] in *; rewrite Edo; reflexivity).
    pose proof W2 as (V1 & V2 & V3 & V4 & V5 & V6 & V7 & V8). cbn [c_tree c_bitfield] in V1, V2, V3, V4, V5, V6, V7, V8.
    (* the length after the commit *)
    assert (Em : t_length t' = m).
    { unfold m. destruct Htcase as [(-> & _ & -> & _)|(-> & _ & -> & _)]; reflexivity. }
    rewrite Em in V1, V3, V4, V5, V6, V8.
    (* the entry's upgrade part and the header tree *)
    assert (Hup : match e_upgrade e with
                  | None => m = r
                  | Some u => tu_fork u = 0 /\ tu_length u = m /\ r <= tu_ancestors u /\ tu_ancestors u <= u64_max /\
                              length (tu_signature u) = 64%nat /\ bytes_ok (tu_signature u) = true /\
                              cr_verify cr pk (signable (tree_hash cr (ref_roots cr bs m)) m 0) (tu_signature u) = true
                  end /\
                  h1 = set_tree (c_header c) (ht_step cr bs (hd_tree (c_header c)) e) /\
                  t_signature t' = sig_of (ht_step cr bs (hd_tree (c_header c)) e)).
    { unfold ht_step.
      destruct Hecase as [(Up & -> & ->)|(hash & sg & Up & Hhash & Hsg & -> & ->)].
      - destruct Htcase as [(_ & _ & _ & _ & _ & Ts)|(Up' & _)]; [|rewrite Up in Up'; discriminate Up'].
        unfold m. rewrite Up. split; [reflexivity|]. split; [symmetry; apply set_tree_id|]. rewrite Ts. exact Hs.
      - destruct Htcase as [(Up' & _)|(_ & Tr & Tl & _ & Tf & Ts & _)]; [rewrite Up in Up'; discriminate Up'|].
        destruct (Hsig Up) as (sg' & Hsg' & L64 & Bok & Hh' & Hver).
        rewrite Hsg in Hsg'. injection Hsg' as <-. rewrite Hhash in Hh'. injection Hh' as ->.
        assert (Ecl : cs_length cs = m) by (unfold m; rewrite Up; reflexivity).
        assert (Ecr : cs_roots cs = ref_roots cr bs m) by (rewrite <- Tr; exact V3).
        assert (Ecf : cs_fork cs = 0) by (rewrite <- Tf; exact V2).
        cbn [tu_fork tu_length tu_ancestors tu_signature]. rewrite Ecl, Ecr, Ecf, (Hanc Up) in *.
        split.
        { repeat split; try assumption; try lia. pose proof (len_bs_u64 bs Hw). lia. }
        split; [reflexivity|]. rewrite Ts, Hsg. symmetry. apply sig_of_64, L64. }
    destruct Hup as (Hup & Eh1 & Esig).
    (* the unflushed map *)
    assert (Eu' : t_unflushed t' = add_nodes nm_empty (flat_map e_nodes l ++ e_nodes e)).
    { rewrite Eu, Hu, En, add_nodes_app. reflexivity. }
    (* the bitfield update *)
    assert (Hbu' : match e_bitfield e with
                   | None => True
                   | Some u => bu_drop u = false /\ bu_length u = 1 /\ bu_start u < m
                   end).
    { rewrite Ebu. destruct bu as [u|]; [|exact I]. destruct Hbu as [B1 B2]. split; [exact B1|]. split; [exact B2|].
      apply (V8 (bu_start u)). cbn [bu_apply_b]. rewrite bf_get_apply, B1, B2.
      destruct (N.leb_spec (bu_start u) (bu_start u)) as [_|L]; [|lia].
      destruct (N.ltb_spec (bu_start u) (bu_start u + 1)) as [_|L]; [reflexivity|lia]. }
    (* the entry is described *)
    assert (Hdesc : rdesc cr bs pk (d_tree d) (flat_map e_nodes l) r e m).
    { split; [exact Hrm|]. split; [exact Hmn|]. split; [rewrite En; exact Hauth|]. split; [|exact Hbu'].
      destruct (e_upgrade e) as [u|]; [|exact Hup].
      destruct Hup as (A1 & A2 & A3 & A3' & A4 & A5 & A6). repeat (split; [assumption|]).
      intros x Hx. rewrite <- (V7 x); [|rewrite V3; exact Hx].
      rewrite Et2. apply required_node_same_unflushed. cbn [tU t_unflushed]. symmetry. exact Eu'. }
    (* the entry is well formed *)
    assert (Hok : entry_ok e = true).
    { unfold entry_ok. rewrite En.
      assert (N1 : nodes_ok (cs_nodes cs) = true).
      { unfold nodes_ok. apply andb_true_intro. split.
        - apply fits_u64_intro. pose proof (appended_nodes_count cr _ _ _ _ OA) as Hc. rewrite En in Hc.
          unfold u64_max. lia.
        - apply forallb_forall. intros x Hx. rewrite Forall_forall in Hauth.
          apply (node_ok_authentic cr bs m x Hhash32 Hhashbytes Hw Hmn (Hauth x Hx)). }
      rewrite N1. cbn [andb]. pose proof (len_bs_u64 bs Hw) as L64.
      assert (U1 : match e_upgrade e with
                   | Some u => fits_u64 (tu_fork u) && fits_u64 (tu_ancestors u) && fits_u64 (tu_length u) &&
                               buffer_ok (tu_signature u)
                   | None => true
                   end = true).
      { destruct (e_upgrade e) as [u|]; [|reflexivity].
        destruct Hup as (A1 & A2 & A3 & A3' & A4 & A5 & A6). rewrite A1, A2.
        rewrite (fits_u64_intro 0) by (unfold u64_max; lia).
        rewrite (fits_u64_intro (tu_ancestors u)) by exact A3'.
        rewrite (fits_u64_intro m) by lia. cbn [andb].
        apply buffer_ok_intro; [unfold len; rewrite A4; unfold u64_max; lia|exact A5]. }
      rewrite U1. cbn [andb].
      destruct (e_bitfield e) as [u|]; [|reflexivity]. destruct Hbu' as (_ & B2 & B3).
      rewrite B2, (fits_u64_intro (bu_start u)) by lia. reflexivity. }
    (* the oplog store *)
    assert (Eol : c_oplog c = oo_oplog (stable_result (ol_bits (c_oplog c)) hf l)).
    { cbn [stable_result oo_oplog]. destruct (c_oplog c) as [bits el eb].
      cbn [ol_bits ol_entries_len ol_entries_bytes] in *. rewrite Hlen, Hbytes. reflexivity. }
    assert (OA' : oplog_append cr (oo_oplog (stable_result (ol_bits (c_oplog c)) hf l)) e =
                  Ok (o', [SW Oplog (ENTRIES_OFFSET + ol_entries_bytes (c_oplog c)) fr]))
      by (rewrite <- Eol; exact OA).
    destruct (append_crash cr Hcrc s0 s1 body st0 st1 _ hf l e o' _ G Hok OA')
      as (fr' & Eops & _ & Cw & G' & _ & Eo' & _).
    injection Eops as Eoff <-.
    (* the held set *)
    assert (HbH : forall i, bf_get (bu_apply_b (c_bitfield c) bu) i = held_after H bu i).
    { intros i. destruct bu as [u|]; cbn [bu_apply_b held_after]; [|apply Hb].
      rewrite bf_get_apply_fun. apply upd_fun_ext, Hb. }
    (* the header *)
    set (hfin := bu_apply_h (c_bitfield c) h1 bu).
    assert (Ehfin : hfin = hdr_after cr bs hf (l ++ [e]) (hd_contig hfin)).
    { assert (E1 : hfin = set_contig h1 (hd_contig hfin)).
      { unfold hfin. destruct bu as [u|]; cbn [bu_apply_h]; [reflexivity|]. symmetry. apply set_contig_id. }
      rewrite E1 at 1. rewrite Eh1. rewrite Hh at 1 2. apply hdr_after_snoc'. }
    assert (Etree : hd_tree hfin = ht_step cr bs (hd_tree (c_header c)) e).
    { unfold hfin. rewrite Eh1. destruct bu; reflexivity. }
    assert (Ekp : hd_keypair hfin = hd_keypair (c_header c)).
    { unfold hfin. rewrite Eh1. destruct bu; reflexivity. }
    assert (Hexfin : fexact (held_after H bu) (hd_contig hfin)).
    { unfold hfin. destruct bu as [u|]; cbn [bu_apply_h held_after set_contig hd_contig].
      - apply (fexact_ext (bf_get (bf_apply (c_bitfield c) u))).
        + intros i. rewrite bf_get_apply_fun. apply upd_fun_ext, Hb.
        + apply exact_contig_fexact. apply update_contig_exact; [|destruct Hbu as [_ ->]; lia].
          apply exact_contig_fexact. rewrite Eh1. cbn [set_tree hd_contig].
          apply (fexact_ext H); [intros i; symmetry; apply Hb|exact Hex].
      - rewrite Eh1. exact Hex. }
    split; [|split; [exact Em|split; [reflexivity|split; [exact Et2|split; [exact Eb2|exact Ed2]]]]].
    unfold RDInv. cbv zeta. cbn [c_tree c_keypair c_bitfield c_header c_oplog].
    split; [exact W2|]. split; [exact HbH|]. split; [exact Hexfin|].
    split; [rewrite Ekp; exact Hk|]. split; [rewrite Etree; exact Esig|].
    fold pk. rewrite Em.
    exists s0, s1, (body ++ fr), st0, st1, hf, (l ++ [e]), kf.
    split; [rewrite Eo2, f_content_write, Hcont, Eoff; exact Cw|].
    split; [rewrite Eo'; exact G'|].
    split; [rewrite Eo'; reflexivity|]. split; [rewrite Eo'; reflexivity|].
    split; [exact Hhf|]. split; [exact Ehfin|].
    split; [rewrite Et2; apply (rchain_snoc cr bs pk (d_tree d) l [] kf r e m Hch); exact Hdesc|].
    split; [rewrite flat_map_snoc; exact Eu'|].
    split; [rewrite Et2; exact Hst|].
    split.
    { rewrite Eb2, updates_of_app. unfold updates_of at 2. cbn [flat_map]. rewrite Ebu, app_nil_r.
      destruct bu as [u|]; cbn [held_after].
      - apply (BfH_snoc _ _ u _ H); [exact Hbf|reflexivity].
      - rewrite app_nil_r. exact Hbf. }
    rewrite Eb2. destruct bu as [u|]; cbn [bu_apply_b]; [apply BfSync_apply|]; exact Hsync.
  Qed.
End Step.

(* ====================================================================================== *)
(* E. The flush (both decisions of maybe_flush)                                            *)
(* ====================================================================================== *)

Section Flush.
  Variable cr : crypto.
  Hypothesis Hcrc : crc_ok cr.
  Hypothesis Hhash32 : forall x, length (cr_hash cr x) = 32%nat.
  Hypothesis Hnonblank : forall x, all_zero (cr_hash cr x) = false.
  Hypothesis Hhashbytes : forall x, bytes_ok (cr_hash cr x) = true.
  Variable bs : list bytes.
  Hypothesis Hw : writer_fits bs.

  (* only the skip counter differs *)
  Lemma RDInv_skip c d H s :
    RDInv cr bs c d H ->
    RDInv cr bs (mkCore (c_keypair c) (c_oplog c) (c_tree c) (c_bitfield c) (c_header c) s) d H.
  Proof. intros X. exact X. Qed.

  (* the header in memory is well formed, describes the current length, and fits its slot *)
  Lemma RDInv_header c d H :
    RDInv cr bs c d H ->
    hdr_rep cr bs (kp_public (c_keypair c)) (c_header c) (t_length (c_tree c)) /\ hdr_fits false (c_header c).
  Proof.
    intros X.
    pose proof X as (W & Hb & Hex & Hk & Hs & s0 & s1 & body & st0 & st1 & hf & l & kf &
                     Hcont & G & Hlen & Hbytes & Hhf & Hh & Hch & Hu & Hst & Hbf & Hsync).
    pose proof (len_bs_u64 bs Hw) as L64.
    assert (Hr : t_length (c_tree c) <= N.of_nat (length bs)) by apply W.
    assert (Hcg : hd_contig (c_header c) <= t_length (c_tree c)).
    { apply (fexact_le H); [|exact Hex]. intros i Hi. apply (RDInv_held_lt cr bs c d H i X Hi). }
    assert (Hrep : hdr_rep cr bs (kp_public (c_keypair c)) (c_header c) (t_length (c_tree c))).
    { rewrite Hh. apply (hdr_after_rep cr bs Hhash32 Hhashbytes _ (d_tree d) hf l kf); try assumption; lia. }
    split; [exact Hrep|].
    destruct Hrep as (Hok & _ & Hd).
    destruct (ht_desc_buffers cr bs Hhash32 Hhashbytes _ _ _ Hd ltac:(lia)) as (_ & _ & _ & _ & L1 & L2 & _).
    apply hdr_fits_real; assumption.
  Qed.

  Lemma RDInv_maybe_flush f c d j ev H c' w' u :
    RDInv cr bs c d H ->
    maybe_flush cr f c (mkWorld d j ev) = (c', w', Ok u) ->
    RDInv cr bs c' (w_disk w') H /\ t_length (c_tree c') = t_length (c_tree c) /\ c_keypair c' = c_keypair c /\
    d_data (w_disk w') = d_data d.
  Proof.
    intros X Hmf.
    pose proof (RDInv_RInv cr bs c d H X) as W.
    pose proof (RInv_flush cr Hhash32 Hnonblank bs Hw f c d j ev c' w' u W Hmf) as W'.
    destruct (RDInv_header c d H X) as (Hrep & Hfits).
    pose proof X as (_ & Hb & Hex & Hk & Hs & s0 & s1 & body & st0 & st1 & hf & l & kf &
                     Hcont & G & Hlen & Hbytes & Hhf & Hh & Hch & Hu & Hst & Hbf & Hsync).
    destruct Hw as [Hw1 Hw2].
    unfold maybe_flush in Hmf. rewrite mbind_get_core in Hmf.
    match type of Hmf with (if ?b then _ else _) _ _ = _ => destruct b end.
    2:{ unfold put_skip in Hmf. injection Hmf as <- <- _. cbn [w_disk c_tree c_keypair].
        split; [apply RDInv_skip, X|]. repeat split. }
    rewrite mbind_put_skip in Hmf.
    set (c1 := mkCore (c_keypair c) (c_oplog c) (c_tree c) (c_bitfield c) (c_header c) 3) in *.
    assert (Hun : unflushed_ok (c_tree c1)).
    { apply (unfl_sound_ok cr Hhash32 bs (c_tree c) (t_length (c_tree c)) Hw1). apply W. }
    destruct (flush_all_detail cr Hhash32 Hnonblank c1 (mkWorld d j ev) Hun)
      as [(cx & wx & E)|(o' & ops & t' & tops & d2 & d3 & jn & OF & Hops & TF & A2 & A3 & E)];
      rewrite E in Hmf; [discriminate Hmf|]. injection Hmf as <- <- _.
    cbn [w_disk c1 c_oplog c_keypair c_header c_bitfield c_tree] in *.
    destruct Hrep as (Hok & Hkp & Hd).
    destruct (flush_crash cr Hcrc s0 s1 body st0 st1 _ hf l (c_header c) (c_oplog c) o' ops G Hok Hfits eq_refl OF)
      as (wr & s0' & s1' & st0' & st1' & Eops & _ & C1 & _ & C2 & G' & _ & Eo').
    set (d1 := d_set d Bitfield (write_pages (d_bitfield d) (bf_bits (c_bitfield c)) (bf_dirty (c_bitfield c)))) in *.
    destruct (tree_flush_other_stores (c_tree c) t' tops d1 d2 TF A2 Hun) as (D2 & B2 & O2 & _).
    assert (O1 : d_oplog d1 = d_oplog d) by (destruct d as [f1 f2 f3 f4]; reflexivity).
    assert (B1 : d_bitfield d1 = write_pages (d_bitfield d) (bf_bits (c_bitfield c)) (bf_dirty (c_bitfield c)))
      by (destruct d as [f1 f2 f3 f4]; reflexivity).
    assert (Dd1 : d_data d1 = d_data d) by (destruct d as [f1 f2 f3 f4]; reflexivity).
    assert (S3 : forall s, s <> Oplog -> d_get d3 s = d_get d2 s).
    { intros s Hs'. apply (apply_sops_other _ _ _ _ A3). intros o Ho Heq.
      rewrite Forall_forall in Hops. rewrite (Hops o Ho) in Heq. apply Hs'. symmetry. exact Heq. }
    assert (Hcont' : f_content (d_oplog d3) = s0' ++ s1' ++ []).
    { apply (c_apply_all_sound ops d2 d3 _ Hops A3). rewrite O2, O1, Hcont, Eops.
      cbn [c_apply_all]. rewrite C1, C2. reflexivity. }
    rewrite (tree_flush_ok (c_tree c) Hun) in TF. injection TF as <- <-.
    assert (Bf3 : d_bitfield d3 = write_pages (d_bitfield d) (bf_bits (c_bitfield c)) (bf_dirty (c_bitfield c))).
    { change (d_bitfield d3) with (d_get d3 Bitfield). rewrite (S3 Bitfield) by discriminate.
      change (d_get d2 Bitfield) with (d_bitfield d2). rewrite B2, B1. reflexivity. }
    assert (Dd3 : d_data d3 = d_data d).
    { change (d_data d3) with (d_get d3 Data). rewrite (S3 Data) by discriminate.
      change (d_get d2 Data) with (d_data d2). rewrite D2, Dd1. reflexivity. }
    assert (Hfb : forall i, fbit (d_bitfield d3) i = H i).
    { intros i. rewrite Bf3, (BfSync_flush _ _ Hsync). apply Hb. }
    cbn [c_tree c_keypair t_length].
    split; [|repeat split; exact Dd3].
    unfold RDInv. cbv zeta. cbn [c_tree c_keypair c_bitfield c_header c_oplog t_length t_signature t_unflushed].
    split; [exact W'|].
    split; [intros i; unfold bf_get; cbn [bf_bits]; apply Hb|].
    split; [exact Hex|]. split; [exact Hk|]. split; [exact Hs|].
    exists s0', s1', [], st0', st1', (c_header c), [], (t_length (c_tree c)).
    split; [exact Hcont'|]. split; [rewrite Eo'; exact G'|].
    split; [rewrite Eo'; reflexivity|]. split; [rewrite Eo'; reflexivity|].
    split; [split; [exact Hok|split; [exact Hkp|exact Hd]]|].
    split; [symmetry; apply hdr_after_nil|].
    split; [reflexivity|]. split; [reflexivity|].
    split.
    { (* the roots of the current length are now in the tree store *)
      destruct W' as (_ & _ & V3 & _ & _ & _ & V7 & _). cbn [c_tree t_roots t_length] in V3, V7.
      intros x Hx. rewrite <- V3 in Hx. specialize (V7 x Hx).
      apply required_node_store_inv in V7; [exact V7|reflexivity]. }
    split.
    { apply BfH_exact; [rewrite Bf3; apply len_write_pages, Hbf|exact Hfb|exact Hex]. }
    intros i Hne. exfalso. apply Hne. rewrite Hfb. unfold bf_get. cbn [bf_bits]. apply Hb.
  Qed.
End Flush.

(* ====================================================================================== *)
(* F. GOAL 2: an accepted proof application preserves the invariant                        *)
(* ====================================================================================== *)

(* the proofs covered: SoundCoreBU.block_upgrade_ok, and the signature of an upgrade section consists of
   genuine bytes (what the Rust type Vec<u8> guarantees; the model's byte lists do not) *)
Definition rd_proof_ok (pf : proof) : Prop :=
  block_upgrade_ok pf /\
  match p_upgrade pf with Some u => bytes_ok (du_signature u) = true | None => True end.

(* the held set after the block section of a proof has been stored *)
Definition hold (H : N -> bool) (ob : option data_block) : N -> bool :=
  fun i => match ob with Some b => (i =? db_index b) || H i | None => H i end.

Section Main.
  Variable cr : crypto.
  Hypothesis Hcrc : crc_ok cr.
  Hypothesis Hhash32 : forall x, length (cr_hash cr x) = 32%nat.
  Hypothesis Hnonblank : forall x, all_zero (cr_hash cr x) = false.
  Hypothesis Hhashbytes : forall x, bytes_ok (cr_hash cr x) = true.
  Variable bs : list bytes.
  Hypothesis Hw : writer_fits bs.

  (* the invariant only looks at the held set as a function *)
  Lemma RDInv_ext c d H H' : (forall i, H' i = H i) -> RDInv cr bs c d H -> RDInv cr bs c d H'.
  Proof.
    intros E (W & Hb & Hex & Hk & Hs & s0 & s1 & body & st0 & st1 & hf & l & kf &
              Hcont & G & Hlen & Hbytes & Hhf & Hh & Hch & Hu & Hst & Hbf & Hsync).
    split; [exact W|]. split; [intros i; rewrite E; apply Hb|].
    split; [apply (fexact_ext H); [intros i; symmetry; apply E|exact Hex]|].
    split; [exact Hk|]. split; [exact Hs|].
    exists s0, s1, body, st0, st1, hf, l, kf. repeat (split; [assumption|]).
    split; [apply (BfH_ext _ _ _ H); assumption|exact Hsync].
  Qed.

  Definition block_part (pf : proof) (c0 : core) (d0 : disk) (cs : changeset) : M (option bf_update) :=
    match p_block pf with
    | Some b =>
        off <-- lift (byte_offset_in_changeset (c_tree c0) (d_tree d0) (db_index b) cs) ;;;
        emit [SW Data off (db_value b)] ;;;
        ret (Some (mkBfUpdate false (db_index b) 1))
    | None => ret None
    end.

  Lemma block_part_inv pf c0 d0 cs c w c1 w1 bu :
    block_part pf c0 d0 cs c w = (c1, w1, Ok bu) ->
    c1 = c /\ d_tree (w_disk w1) = d_tree (w_disk w) /\ d_oplog (w_disk w1) = d_oplog (w_disk w) /\
    d_bitfield (w_disk w1) = d_bitfield (w_disk w) /\
    bu = match p_block pf with Some b => Some (mkBfUpdate false (db_index b) 1) | None => None end /\
    (p_block pf = None -> w1 = w).
  Proof.
    unfold block_part. destruct (p_block pf) as [b|].
    - rewrite mbind_lift.
      destruct (byte_offset_in_changeset (c_tree c0) (d_tree d0) (db_index b) cs) as [off| | |]; try discriminate.
      rewrite mbind_emit_SW. unfold ret. intros E. injection E as <- <- <-. cbn [w_disk].
      destruct (w_disk w) as [f1 f2 f3 f4]. repeat split. intros E; discriminate E.
    - unfold ret. intros E. injection E as <- <- <-. repeat split.
  Qed.

  Lemma sends_tail pf (bu : option bf_update) c w :
    exists w', ((match p_upgrade pf with Some _ => send EvUpgrade | None => ret tt end) ;;;
                (match bu with Some u => send (EvHave (bu_start u) (bu_length u) false) | None => ret tt end) ;;;
                ret true) c w = (c, w', Ok true) /\ w_disk w' = w_disk w.
  Proof.
    destruct (p_upgrade pf), bu; unfold mbind, send, ret; eexists; split; reflexivity.
  Qed.

  (* the same application without a flush ends in the state the flush decision starts from *)
  Lemma apply_without_flush pf c w cs bu c1 w1 c2 w2 :
    p_fork pf = t_fork (c_tree c) -> verifier_says cr c w pf = Ok cs -> commitable (c_tree c) cs = true ->
    block_part pf c (w_disk w) cs c w = (c1, w1, Ok bu) ->
    log_and_commit cr cs bu c1 w1 = (c2, w2, Ok tt) ->
    exists w2',
      core_apply_proof cr (Some false) pf c w =
        (mkCore (c_keypair c2) (c_oplog c2) (c_tree c2) (c_bitfield c2) (c_header c2) (c_skip c2 - 1), w2', Ok true) /\
      w_disk w2' = w_disk w2.
  Proof.
    intros Ef V Cm Hbu Hlc.
    rewrite (apply_gates_pass cr (Some false) pf c w cs Ef V Cm). unfold apply_tail.
    fold (block_part pf c (w_disk w) cs).
    rewrite (mbind_eq _ _ _ _ _ _ _ Hbu), (mbind_eq _ _ _ _ _ _ _ Hlc).
    assert (Emf : maybe_flush cr (Some false) c2 w2 =
                  (mkCore (c_keypair c2) (c_oplog c2) (c_tree c2) (c_bitfield c2) (c_header c2) (c_skip c2 - 1), w2, Ok tt)).
    { unfold maybe_flush. rewrite mbind_get_core. reflexivity. }
    rewrite (mbind_eq _ _ _ _ _ _ _ Emf).
    destruct (sends_tail pf bu (mkCore (c_keypair c2) (c_oplog c2) (c_tree c2) (c_bitfield c2) (c_header c2) (c_skip c2 - 1)) w2)
      as (w2' & E & Ed).
    exists w2'. split; [exact E|exact Ed].
  Qed.

  Theorem apply_keeps_RDInv f pf c d j ev H c' w' :
    RDInv cr bs c d H -> rd_proof_ok pf ->
    core_apply_proof cr f pf c (mkWorld d j ev) = (c', w', Ok true) ->
    (RDInv cr bs c' (w_disk w') (hold H (p_block pf)) /\
     c_keypair c' = c_keypair c /\
     t_length (c_tree c) <= t_length (c_tree c') /\
     (p_upgrade pf = None -> t_length (c_tree c') = t_length (c_tree c)) /\
     (exists cs, verifier_says cr c (mkWorld d j ev) pf = Ok cs /\
                 t_length (c_tree c') = if cs_upgraded cs then cs_length cs else t_length (c_tree c))) \/
    some_collision cr \/ forged_signature cr bs (kp_public (c_keypair c)).
  Proof.
    intros X [Hok Hsb] Happ.
    pose proof (RDInv_RInv cr bs c d H X) as W.
    destruct (accepted_gates cr _ _ _ _ _ _ Happ) as (cs & Ef & V & Cm & Ht).
    apply apply_tail_inv in Ht. destruct Ht as (_ & bu & c1 & w1 & c2 & w2 & w3 & Hbu & Hlc & Hmf & Hd3).
    fold (block_part pf c (w_disk (mkWorld d j ev)) cs) in Hbu.
    pose proof V as V0. unfold verifier_says in V0. cbn [w_disk] in V0.
    destruct (accepted_changeset_nodes cr Hhash32 Hnonblank bs Hw c d pf cs W Hok V0)
      as [(Hrm & Hmn & Hauth & Hanc)|[C|F]]; [|right; left; exact C|right; right; exact F].
    (* the state before the flush decision satisfies SoundCore.RInv *)
    destruct (apply_without_flush pf c _ cs bu c1 w1 c2 w2 Ef V Cm Hbu Hlc) as (w2' & Hrun & Ed2).
    destruct (apply_keeps_replica_consistent_block_upgrade cr Hhash32 Hnonblank bs Hw (Some false) pf c d j ev _ w2'
                W Hok Hrun) as [W2|[C|F]]; [|right; left; exact C|right; right; exact F].
    rewrite Ed2 in W2.
    assert (W2' : SoundCore.RInv cr bs c2 (w_disk w2))
      by (apply (RInv_ext cr bs _ c2 _ (w_disk w2)) in W2; try reflexivity; exact W2).
    destruct (block_part_inv pf c _ cs c _ c1 w1 bu Hbu) as (-> & Et1 & Eo1 & Eb1 & Ebu & Hw1).
    cbn [w_disk] in Et1, Eo1, Eb1.
    (* the signature of an upgraded changeset *)
    assert (Hsig : cs_upgraded cs = true ->
                   exists sg, cs_signature cs = Some sg /\ length sg = 64%nat /\ bytes_ok sg = true /\
                     cs_hash cs = Some (tree_hash cr (cs_roots cs)) /\
                     cr_verify cr (kp_public (c_keypair c))
                       (signable (tree_hash cr (cs_roots cs)) (cs_length cs) (cs_fork cs)) sg = true).
    { intros Up. destruct Hok as (Hh & Hs & _).
      destruct (p_upgrade pf) as [u|] eqn:Eu.
      - destruct (verify_proof_upgrade_sig cr _ _ pf _ cs u Eu V0) as (L & S & Hh' & Hv & _).
        exists (du_signature u). repeat split; assumption.
      - rewrite (verify_proof_no_upgrade cr _ _ pf _ cs Eu Hh Hs V0) in Up. discriminate Up. }
    assert (Hbus : match bu with Some u => bu_drop u = false /\ bu_length u = 1 | None => True end).
    { rewrite Ebu. destruct (p_block pf); [split; reflexivity|exact I]. }
    destruct w1 as [d1 j1 ev1]. cbn [w_disk] in Et1, Eo1, Eb1.
    destruct (RDInv_commit cr Hcrc Hhash32 Hnonblank Hhashbytes bs Hw c d d1 H cs bu j1 ev1 c2 w2 tt
                X Et1 Eo1 Eb1 Hlc W2' Hrm Hmn Hauth Hanc Hsig Hbus) as (X2 & Em & Ek2 & _).
    destruct w2 as [d2 j2 ev2].
    destruct (RDInv_maybe_flush cr Hcrc Hhash32 Hnonblank Hhashbytes bs Hw f c2 d2 j2 ev2 _ c' w3 tt X2 Hmf)
      as (X3 & El3 & Ek3 & _).
    left. rewrite Hd3.
    split.
    { apply (RDInv_ext c' (w_disk w3) (held_after H bu)); [|exact X3].
      intros i. unfold hold, held_after. rewrite Ebu. destruct (p_block pf) as [b|]; [|reflexivity].
      unfold upd_fun. cbn [bu_start bu_length bu_drop negb].
      destruct (N.eqb_spec i (db_index b)) as [->|Ne].
      - destruct (N.leb_spec (db_index b) (db_index b)) as [_|L]; [|lia].
        destruct (N.ltb_spec (db_index b) (db_index b + 1)) as [_|L]; [reflexivity|lia].
      - destruct ((db_index b <=? i) && (i <? db_index b + 1)) eqn:E; [lia|reflexivity]. }
    split; [rewrite Ek3; exact Ek2|]. rewrite El3, Em.
    split; [exact Hrm|]. split.
    { intros Eu. destruct Hok as (Hh & Hs & _).
      rewrite (verify_proof_no_upgrade cr _ _ pf _ cs Eu Hh Hs V0). reflexivity. }
    exists cs. split; [exact V|reflexivity].
  Qed.
End Main.

Print Assumptions accepted_changeset_nodes.
Print Assumptions RDInv_commit.
Print Assumptions RDInv_maybe_flush.
Print Assumptions apply_keeps_RDInv.

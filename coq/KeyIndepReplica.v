(* KeyIndepReplica.v -- C12, replicas: core_apply_proof (verify_and_apply_proof) never reads the secret key.
   Two cores related by KeyIndep.sim (equal except key pair / header key fields / signatures of equal length)
   that carry the SAME PUBLIC KEY (verification reads it) apply the same proof with the same outcome: same
   result (accepted / refused / same error), tree, data and bitfield files identical, oplog writes of the same
   shape.  No hypothesis on the crypto record at all (nothing is signed here).  Instance: with_secret c s1 vs with_secret c s2 for any two secrets of equal length. *)
From HC Require Import Base NMap Codec CodecFacts Crypto FlatTree Storage StorageFacts Bitfield Oplog Merkle Core.
From HC Require Import CoreFacts KeyIndep.
#[local] Arguments N.add : simpl never.
#[local] Arguments N.sub : simpl never.
#[local] Arguments N.mul : simpl never.
#[local] Arguments N.eqb : simpl never.
#[local] Arguments N.ltb : simpl never.
#[local] Arguments N.leb : simpl never.

Lemma cs_sim_refl cs : cs_sim cs cs.
Proof. unfold cs_sim. repeat split; auto using olen_refl. Qed.

Section Replica.
  Variable cr : crypto.

  Lemma verify_proof_sim t t' tf pf pk : t_sim t t' -> verify_proof cr t tf pf pk = verify_proof cr t' tf pf pk.
  Proof.
    intros T. pose proof T as (_ & _ & _ & _ & _ & U). unfold verify_proof.
    rewrite (tree_changeset_sim _ _ T). cbv zeta.
    apply bind_ext. intros [root c1]. apply bind_ext. intros [root2 c2].
    destruct root2 as [r|]; [|reflexivity]. rewrite (required_node_unfl t t' tf _ U). reflexivity.
  Qed.

  Lemma byte_offset_in_changeset_sim t t' tf hi cs :
    t_sim t t' -> byte_offset_in_changeset t tf hi cs = byte_offset_in_changeset t' tf hi cs.
  Proof.
    intros T. pose proof T as (_ & L & B & _). unfold byte_offset_in_changeset. rewrite L, B.
    destruct (t_length t' =? hi); [reflexivity|].
    apply bind_ext. intros index. apply bind_ext. intros [to parent].
    destruct parent as [p|].
    - destruct (position_of _ _ _); [reflexivity|]. rewrite (byte_offset_from_nodes_sim _ _ tf _ T). reflexivity.
    - rewrite (byte_offset_from_nodes_sim _ _ tf _ T). reflexivity.
  Qed.

  Theorem apply_proof_sim f pf c1 w1 c2 w2 :
    sim c1 c2 -> w_sim w1 w2 -> kp_public (c_keypair c1) = kp_public (c_keypair c2) ->
    sim (fst (fst (core_apply_proof cr f pf c1 w1))) (fst (fst (core_apply_proof cr f pf c2 w2))) /\
    w_sim (snd (fst (core_apply_proof cr f pf c1 w1))) (snd (fst (core_apply_proof cr f pf c2 w2))) /\
    snd (core_apply_proof cr f pf c1 w1) = snd (core_apply_proof cr f pf c2 w2).
  Proof.
    intros S W PK. unfold core_apply_proof. rewrite !mbind_get_core.
    pose proof S as (K & O & T & B & H & Sk). pose proof T as (_ & TL & _ & TF & _).
    rewrite TF, PK.
    assert (X : msim eq
      (if negb (p_fork pf =? t_fork (c_tree c2)) then ret false
       else d <-- get_disk ;;;
            cs <-- lift (verify_proof cr (c_tree c1) (d_tree d) pf (kp_public (c_keypair c2))) ;;;
            if negb (commitable (c_tree c1) cs) then ret false
            else bu <-- (match p_block pf with
                         | Some b =>
                             off <-- lift (byte_offset_in_changeset (c_tree c1) (d_tree d) (db_index b) cs) ;;;
                             emit [SW Data off (db_value b)] ;;; ret (Some (mkBfUpdate false (db_index b) 1))
                         | None => ret None
                         end) ;;;
                 log_and_commit cr cs bu ;;; maybe_flush cr f ;;;
                 (match p_upgrade pf with Some _ => send EvUpgrade | None => ret tt end) ;;;
                 (match bu with Some u => send (EvHave (bu_start u) (bu_length u) false) | None => ret tt end) ;;;
                 ret true)
      (if negb (p_fork pf =? t_fork (c_tree c2)) then ret false
       else d <-- get_disk ;;;
            cs <-- lift (verify_proof cr (c_tree c2) (d_tree d) pf (kp_public (c_keypair c2))) ;;;
            if negb (commitable (c_tree c2) cs) then ret false
            else bu <-- (match p_block pf with
                         | Some b =>
                             off <-- lift (byte_offset_in_changeset (c_tree c2) (d_tree d) (db_index b) cs) ;;;
                             emit [SW Data off (db_value b)] ;;; ret (Some (mkBfUpdate false (db_index b) 1))
                         | None => ret None
                         end) ;;;
                 log_and_commit cr cs bu ;;; maybe_flush cr f ;;;
                 (match p_upgrade pf with Some _ => send EvUpgrade | None => ret tt end) ;;;
                 (match bu with Some u => send (EvHave (bu_start u) (bu_length u) false) | None => ret tt end) ;;;
                 ret true)).
    { destruct (negb _); [apply msim_ret; reflexivity|].
      apply (msim_bind d_sim); [apply msim_get_disk|]. intros d1 d2 (Dt & _). rewrite Dt.
      rewrite (verify_proof_sim _ _ _ _ _ T).
      apply (msim_bind eq); [apply msim_lift, res_rel_refl|]. intros cs ? <-.
      assert (Cm : commitable (c_tree c1) cs = commitable (c_tree c2) cs).
      { unfold commitable. rewrite TF, TL. reflexivity. }
      rewrite Cm. destruct (negb _); [apply msim_ret; reflexivity|].
      apply (msim_bind eq).
      { destruct (p_block pf) as [b|]; [|apply msim_ret; reflexivity].
        rewrite (byte_offset_in_changeset_sim _ _ _ _ _ T).
        apply (msim_bind eq); [apply msim_lift, res_rel_refl|]. intros off ? <-.
        apply (msim_bind eq); [apply msim_emit_same|]. intros _ _ _. apply msim_ret. reflexivity. }
      intros bu ? <-.
      apply (msim_bind eq); [apply msim_log_and_commit, cs_sim_refl|]. intros _ _ _.
      apply (msim_bind eq); [apply msim_maybe_flush|]. intros _ _ _.
      apply (msim_bind eq); [destruct (p_upgrade pf); [apply msim_send|apply msim_ret; reflexivity]|]. intros _ _ _.
      apply (msim_bind eq); [destruct bu; [apply msim_send|apply msim_ret; reflexivity]|]. intros _ _ _.
      apply msim_ret. reflexivity. }
    destruct (X c1 w1 c2 w2 S W) as (S' & W' & R). split; [exact S'|]. split; [exact W'|].
    apply res_rel_eq, R.
  Qed.

  (* the instance asked for: the outcome does not depend on WHICH secret the core holds *)
  Corollary apply_proof_ignores_secret f pf c w s1 s2 :
    olen s1 s2 ->
    let x := core_apply_proof cr f pf (with_secret c s1) w in
    let y := core_apply_proof cr f pf (with_secret c s2) w in
    snd x = snd y /\
    d_tree (w_disk (snd (fst x))) = d_tree (w_disk (snd (fst y))) /\
    d_bitfield (w_disk (snd (fst x))) = d_bitfield (w_disk (snd (fst y))) /\
    d_data (w_disk (snd (fst x))) = d_data (w_disk (snd (fst y))) /\
    w_events (snd (fst x)) = w_events (snd (fst y)).
  Proof.
    intros Hs. cbv zeta.
    assert (S : sim (with_secret c s1) (with_secret c s2)).
    { unfold sim, with_secret, kp_sim, hd_sim, t_sim, ht_sim, set_keypair.
      cbn [c_keypair c_oplog c_tree c_bitfield c_header c_skip kp_public kp_secret hd_key hd_ns hd_mpk hd_keypair
           hd_tree hd_contig].
      repeat split; auto using olen_refl. }
    assert (W : w_sim w w).
    { unfold w_sim, d_sim. repeat split; auto using Forall2_sop_refl. }
    destruct (apply_proof_sim f pf _ w _ w S W eq_refl) as (_ & ((Dt & Dd & Db & _) & _ & E) & R).
    auto.
  Qed.
End Replica.

Print Assumptions apply_proof_sim.
Print Assumptions apply_proof_ignores_secret.

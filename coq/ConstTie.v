(* ConstTie.v — tie between the named constants of /repo/src (SrcConsts.v, regenerated from the source on every run by
   tools/srcconsts.py) and the values the model uses. Each statement reads: if the crate still has a constant of that
   name, its value is the model's. A constant that disappeared (rename) makes the statement trivially true; a constant
   whose value changed breaks the proof, i.e. the model no longer describes the source. *)
From HC Require Import Base Codec CodecFacts Crypto Storage Bitfield Oplog Merkle OplogFacts SrcConsts.
From Coq Require Import Lia.

Definition tied {A} (src : option A) (model : A) : Prop :=
  match src with Some v => v = model | None => True end.

Ltac tie := vm_compute; first [reflexivity | exact I].

Lemma tie_node_size : tied src_NODE_SIZE NODE_SIZE.                                   Proof. tie. Qed.
Lemma tie_max_entries : tied src_MAX_OPLOG_ENTRIES_BYTE_SIZE MAX_OPLOG_ENTRIES_BYTE_SIZE. Proof. tie. Qed.
Lemma tie_header_size : tied src_HEADER_SIZE HEADER_SIZE.                             Proof. tie. Qed.
(* the entries start after the two header slots *)
Lemma tie_entries_offset : tied (option_map (N.mul 2) src_HEADER_SIZE) ENTRIES_OFFSET. Proof. tie. Qed.
Lemma tie_initial_bits : tied src_INITIAL_HEADER_BITS [fst INITIAL_HEADER_BITS; snd INITIAL_HEADER_BITS]. Proof. tie. Qed.
Lemma tie_page_bits : tied src_DYNAMIC_BITFIELD_PAGE_SIZE PAGE_BITS.                  Proof. tie. Qed.
Lemma tie_page_bits_fixed : tied src_FIXED_BITFIELD_BITS_LENGTH PAGE_BITS.            Proof. tie. Qed.
Lemma tie_page_bytes : tied src_FIXED_BITFIELD_BYTES_LENGTH PAGE_BYTES.               Proof. tie. Qed.
Lemma tie_page_words : tied (option_map (N.mul 4) src_FIXED_BITFIELD_LENGTH) PAGE_BYTES. Proof. tie. Qed.
Lemma tie_tree_ns : tied src_TREE TREE_NS.                                            Proof. tie. Qed.
Lemma tie_default_ns : tied src_DEFAULT_NAMESPACE DEFAULT_NAMESPACE.                  Proof. tie. Qed.

(* the type bytes of the three hash layouts, read off the preimages the model builds *)
Lemma tie_leaf_type : tied src_LEAF_TYPE (firstn 1 (leaf_preimage [])).            Proof. tie. Qed.
Lemma tie_parent_type (a b : node) :
  tied src_PARENT_TYPE (firstn 1 (parent_preimage a b)).
Proof. unfold parent_preimage. destruct (n_index a <=? n_index b); tie. Qed.
Lemma tie_root_type : tied src_ROOT_TYPE (firstn 1 (tree_preimage [])).               Proof. tie. Qed.

(* leader = CRC field + length field: a frame is LEADER_SIZE bytes longer than its payload, the CRC field has CRC_SIZE bytes *)
Lemma tie_leader_size cr bit partial payload fr :
  frame cr bit partial payload = Ok fr ->
  tied src_LEADER_SIZE (len fr - len payload) /\ tied src_CRC_SIZE (len (le_bytes 4 (cr_crc cr []))).
Proof.
  intros H. apply frame_length in H. split.
  - replace (len fr - len payload) with 8 by lia. tie.
  - rewrite len_le_bytes. tie.
Qed.

Theorem source_constants_are_the_models :
  tied src_NODE_SIZE NODE_SIZE /\ tied src_MAX_OPLOG_ENTRIES_BYTE_SIZE MAX_OPLOG_ENTRIES_BYTE_SIZE /\
  tied src_HEADER_SIZE HEADER_SIZE /\ tied (option_map (N.mul 2) src_HEADER_SIZE) ENTRIES_OFFSET /\
  tied src_INITIAL_HEADER_BITS [fst INITIAL_HEADER_BITS; snd INITIAL_HEADER_BITS] /\
  tied src_DYNAMIC_BITFIELD_PAGE_SIZE PAGE_BITS /\ tied src_FIXED_BITFIELD_BITS_LENGTH PAGE_BITS /\
  tied src_FIXED_BITFIELD_BYTES_LENGTH PAGE_BYTES /\ tied (option_map (N.mul 4) src_FIXED_BITFIELD_LENGTH) PAGE_BYTES /\
  tied src_TREE TREE_NS /\ tied src_DEFAULT_NAMESPACE DEFAULT_NAMESPACE /\
  tied src_LEAF_TYPE (firstn 1 (leaf_preimage [])) /\ tied src_ROOT_TYPE (firstn 1 (tree_preimage [])) /\
  (forall a b, tied src_PARENT_TYPE (firstn 1 (parent_preimage a b))) /\
  (forall cr bit partial payload fr, frame cr bit partial payload = Ok fr ->
     tied src_LEADER_SIZE (len fr - len payload) /\ tied src_CRC_SIZE (len (le_bytes 4 (cr_crc cr [])))).
Proof.
  repeat split; try tie; try (intros; apply tie_parent_type); intros; eapply tie_leader_size; eassumption.
Qed.
Print Assumptions source_constants_are_the_models.

(* ConstTie.v — tie between the named constants of /repo/src (SrcConsts.v, regenerated from the source on every run by
   tools/srcconsts.py) and the values the model uses. Each statement reads: if the crate still has a constant of that
   name, its value is the model's. A constant that disappeared (rename) makes the statement trivially true; a constant
   whose value changed breaks the proof, i.e. the model no longer describes the source.
   This file holds the vocabulary only; the obligations are split by the property that depends on the constants, so that
   a changed constant fails the gate of the properties it matters to and of no other:
   ConstTieHash.v (C05: hash type bytes, tree namespace), ConstTieLayout.v (C06: on-disk layout), ConstTieBits.v (C08: bitfield pages). *)
From HC Require Import Base Codec CodecFacts Crypto Storage Bitfield Oplog Merkle OplogFacts SrcConsts.
From Coq Require Import Lia.

Definition tied {A} (src : option A) (model : A) : Prop :=
  match src with Some v => v = model | None => True end.

Ltac tie := vm_compute; first [reflexivity | exact I].

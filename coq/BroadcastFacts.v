(* BroadcastFacts.v — C13, the fan-out of events to subscribers: what every subscriber of the event channel
   (Broadcast.v: async-broadcast 0.7.2 as /repo/src/replication/events.rs configures it) observes.
   The facts are proved on the abstract reading of BroadcastRefine.v and transferred to the model of the crate
   by `run_refines` / `step_refines` (every answer of every operation list is the same).

   (a) `reach_ginv`, `fanout_exact`, `fanout_positions`: in every reachable state, for every subscriber, the answers
       it got line up position by position with the messages sent since it subscribed; if it was never answered
       Overflowed (which is the case when it is never more than `capacity` behind at a try_recv: `recv_answer`),
       what it received followed by what is still pending for it is exactly the sequence of messages sent since it
       subscribed.  Any number of subscribers, subscription points and interleavings (the statement is an invariant
       of every operation list).
   (b) `overflow_loses_oldest`, `drain_in_order`, `lagging_subscriber`: a subscriber that is capacity + n behind (n > 0) is answered
       Overflowed n, loses exactly the n oldest pending messages, and its next try_recv calls deliver the remaining
       `capacity` messages in order.
   (c) `send_without_subscriber`, `send_without_subscriber_run`: a send while no subscriber is alive is answered
       Inactive and changes nothing: the rest of the history runs as if the send had not been made.
   (d) `drained_subscriber_sees_all`, `core_history_fanout`: a subscriber attached at the start that drains whenever
       at most `capacity` events were sent since its last drain receives exactly the events sent, in order, and is
       never answered Overflowed; instantiated with the events of an `EventsAvail.run_ops` history of core calls
       (`rev (w_events w')`) and capacity 32. *)
From HC Require Import Base Broadcast BroadcastLib BroadcastRefine.
From HC Require Import NMap Codec Crypto FlatTree Storage Bitfield Oplog Merkle Core EventsAvail.
From Coq Require Import ZifyN ZifyNat ZifyBool.
Ltac Zify.zify_post_hook ::= Z.div_mod_to_equations.
Arguments N.add : simpl never.
Arguments N.sub : simpl never.
Arguments N.mul : simpl never.
Arguments N.div : simpl never.
Arguments N.modulo : simpl never.
Arguments N.pow : simpl never.
Arguments N.eqb : simpl never.
Arguments N.ltb : simpl never.
Arguments N.leb : simpl never.
Arguments N.max : simpl never.
Arguments N.min : simpl never.
Arguments N.of_nat : simpl never.
Arguments N.to_nat : simpl never.
Arguments N.iter : simpl never.

(* ---------- segments of a list ---------- *)

Lemma skipn_skipn' {B} (l : list B) x y : skipn x (skipn y l) = skipn (y + x) l.
Proof.
  revert l. induction y as [|y IH]; intros l; [reflexivity|].
  destruct l as [|a l]; cbn [skipn plus]; [apply skipn_nil|]. apply IH.
Qed.

Lemma firstn_add {B} (l : list B) x y : firstn (x + y) l = firstn x l ++ firstn y (skipn x l).
Proof.
  revert l. induction x as [|x IH]; intros l; [reflexivity|].
  destruct l as [|a l]; cbn [plus firstn skipn app]; [now rewrite firstn_nil|]. now rewrite IH.
Qed.

Lemma Forall_l_set {B} (P : B -> Prop) l k x : Forall P l -> P x -> Forall P (l_set l k x).
Proof.
  intros H Hx. apply Forall_forall. intros y Hy. apply l_set_In in Hy. destruct Hy as [->|Hy]; [exact Hx|].
  rewrite Forall_forall in H. apply H. exact Hy.
Qed.

Section Facts.
  Variable A : Type.

  (* the messages number a, .., b-1 *)
  Definition seg (a b : N) (l : list A) : list A := firstn (N.to_nat (b - a)) (skipn (N.to_nat a) l).

  Lemma seg_nil a l : seg a a l = [].
  Proof. unfold seg. replace (N.to_nat (a - a)) with O by lia. reflexivity. Qed.

  Lemma seg_length a b l : a <= b -> b <= tail_of l -> N.of_nat (length (seg a b l)) = b - a.
  Proof.
    intros H1 H2. unfold seg. rewrite firstn_length, skipn_length. unfold tail_of in *. lia.
  Qed.

  Lemma seg_snoc a b l m : a <= b -> b <= tail_of l -> seg a b (l ++ [m]) = seg a b l.
  Proof.
    intros H1 H2. unfold seg. unfold tail_of in *. rewrite skipn_snoc by lia.
    rewrite firstn_app. rewrite skipn_length.
    replace (N.to_nat (b - a) - (length l - N.to_nat a))%nat with O by lia.
    cbn [firstn]. apply app_nil_r.
  Qed.

  Lemma seg_split a b c l : a <= b -> b <= c -> seg a c l = seg a b l ++ seg b c l.
  Proof.
    intros H1 H2. unfold seg.
    replace (N.to_nat (c - a)) with (N.to_nat (b - a) + N.to_nat (c - b))%nat by lia.
    rewrite firstn_add, skipn_skipn'. repeat f_equal. lia.
  Qed.

  Lemma seg_one p l a : nth_error l (N.to_nat p) = Some a -> seg p (p + 1) l = [a].
  Proof.
    intros H. unfold seg. replace (N.to_nat (p + 1 - p)) with 1%nat by lia.
    pose proof (skipn_hd l (N.to_nat p)) as X. rewrite H in X.
    destruct (skipn (N.to_nat p) l) as [|b r]; [discriminate|]. cbn [hd_error] in X. injection X as ->. reflexivity.
  Qed.

  Lemma seg_skipn a b l : a <= b -> seg a b l ++ skipn (N.to_nat b) l = skipn (N.to_nat a) l.
  Proof.
    intros H. unfold seg. replace (N.to_nat b) with (N.to_nat a + N.to_nat (b - a))%nat by lia.
    rewrite <- skipn_skipn'. apply firstn_skipn.
  Qed.

  Lemma seg_all a l : seg a (tail_of l) l = skipn (N.to_nat a) l.
  Proof.
    unfold seg. apply firstn_all2. rewrite skipn_length. unfold tail_of. lia.
  Qed.

  (* ---------- what a subscriber was answered ---------- *)

  (* the positions an answer accounts for: one delivered message, or n lost ones *)
  Definition holes (o : bobs A) : list (option A) :=
    match o with
    | BoMsg a => [Some a]
    | BoOverflowed n => repeat None (N.to_nat n)
    | _ => []
    end.
  Definition shape (log : list (bobs A)) : list (option A) := flat_map holes log.

  (* the messages delivered *)
  Definition msg_of (o : bobs A) : list A := match o with BoMsg a => [a] | _ => [] end.
  Definition msgs_of (log : list (bobs A)) : list A := flat_map msg_of log.

  Definition no_overflow (log : list (bobs A)) : Prop := forall n, ~ In (BoOverflowed n) log.

  Definition fits (o : option A) (a : A) : Prop := match o with Some b => b = a | None => True end.

  Lemma shape_app l1 l2 : shape (l1 ++ l2) = shape l1 ++ shape l2.
  Proof. apply flat_map_app. Qed.

  Lemma msgs_of_app l1 l2 : msgs_of (l1 ++ l2) = msgs_of l1 ++ msgs_of l2.
  Proof. apply flat_map_app. Qed.

  Lemma fits_holes (l : list A) : Forall2 fits (repeat None (length l)) l.
  Proof. induction l as [|a l IH]; cbn [length repeat]; constructor; [exact I|exact IH]. Qed.

  Lemma shape_no_overflow log : no_overflow log -> shape log = map Some (msgs_of log).
  Proof.
    induction log as [|o log IH]; intros H; [reflexivity|].
    cbn [shape msgs_of flat_map]. rewrite map_app. fold (shape log). fold (msgs_of log).
    rewrite IH by (intros n Hn; apply (H n); right; exact Hn). f_equal.
    destruct o; try reflexivity. exfalso. apply (H n). left. reflexivity.
  Qed.

  Lemma fits_exact l1 l2 : Forall2 fits (map Some l1) l2 -> l1 = l2.
  Proof.
    revert l2. induction l1 as [|a l1 IH]; intros l2 H; inversion H; subst; [reflexivity|].
    cbn [fits] in *. f_equal; [assumption|]. apply IH. assumption.
  Qed.

  Lemma no_overflow_rev log : no_overflow log -> no_overflow (rev log).
  Proof. intros H n Hn. apply (H n). apply in_rev. exact Hn. Qed.

  (* ---------- (a) the invariant of every subscriber ---------- *)

  (* the answers line up, position by position, with the messages number sub .. pos-1 *)
  Definition rinv (sent : list A) (r : srcv A) : Prop :=
    sr_sub r <= sr_pos r /\ sr_pos r <= tail_of sent /\
    Forall2 fits (shape (rev (sr_log r))) (seg (sr_sub r) (sr_pos r) sent).

  Definition ginv (s : spec A) : Prop := Forall (rinv (sp_sent s)) (sp_rcv s).

  Lemma rinv_snoc sent m r : rinv sent r -> rinv (sent ++ [m]) r.
  Proof.
    intros (H1 & H2 & H3). split; [exact H1|]. split.
    - unfold tail_of in *. rewrite app_length. cbn [length]. lia.
    - rewrite seg_snoc by assumption. exact H3.
  Qed.

  Lemma ginv_new cap : ginv (spec_new cap).
  Proof. constructor. Qed.

  Lemma ginv_step s o : ginv s -> ginv (fst (spec_step s o)).
  Proof.
    intros G. destruct o as [m| |k|k|]; cbn [spec_step].
    - destruct (nlive (sp_cur s) =? 0); cbn [fst]; [exact G|].
      unfold ginv. cbn [sp_sent sp_rcv]. eapply Forall_impl; [|exact G]. intros r. apply rinv_snoc.
    - cbn [fst]. unfold ginv. cbn [sp_sent sp_rcv]. apply Forall_app. split; [exact G|].
      constructor; [|constructor]. unfold rinv. cbn [sr_sub sr_pos sr_log rev shape flat_map].
      split; [lia|]. split; [unfold sp_tail, tail_of; lia|]. rewrite seg_nil. constructor.
    - destruct (nth_error (sp_rcv s) (N.to_nat k)) as [r|] eqn:EK; [|exact G].
      destruct (sr_live r); [|exact G].
      assert (R : rinv (sp_sent s) r).
      { unfold ginv in G. rewrite Forall_forall in G. apply G. eapply nth_error_In. exact EK. }
      destruct R as (R1 & R2 & R3). fold (tail_of (sp_sent s)) in *.
      destruct (sr_pos r + sp_cap s <? sp_tail s) eqn:EO.
      + cbn [fst]. unfold ginv. cbn [sp_sent sp_rcv]. apply Forall_l_set; [exact G|].
        unfold sp_tail in *. fold (tail_of (sp_sent s)) in *.
        unfold rinv. cbn [sr_sub sr_pos sr_log rev].
        split; [lia|]. split; [lia|].
        rewrite shape_app. rewrite (seg_split (sr_sub r) (sr_pos r)) by lia.
        apply Forall2_app; [exact R3|].
        cbn [shape flat_map holes]. rewrite app_nil_r.
        replace (N.to_nat (tail_of (sp_sent s) - sp_cap s - sr_pos r))
          with (length (seg (sr_pos r) (tail_of (sp_sent s) - sp_cap s) (sp_sent s))).
        * apply fits_holes.
        * pose proof (seg_length (sr_pos r) (tail_of (sp_sent s) - sp_cap s) (sp_sent s)). lia.
      + destruct (nth_error (sp_sent s) (N.to_nat (sr_pos r))) as [a|] eqn:EN; [|exact G].
        cbn [fst]. unfold ginv. cbn [sp_sent sp_rcv]. apply Forall_l_set; [exact G|].
        unfold rinv. cbn [sr_sub sr_pos sr_log rev].
        assert (PT : sr_pos r < tail_of (sp_sent s)) by (apply nth_error_lt in EN; unfold tail_of; lia).
        split; [lia|]. split; [lia|].
        rewrite shape_app. rewrite (seg_split (sr_sub r) (sr_pos r)) by lia.
        apply Forall2_app; [exact R3|].
        rewrite (seg_one _ _ _ EN). cbn [shape flat_map holes app]. constructor; [reflexivity|constructor].
    - destruct (nth_error (sp_rcv s) (N.to_nat k)) as [r|] eqn:EK; [|exact G].
      destruct (sr_live r); [|exact G].
      cbn [fst]. unfold ginv. cbn [sp_sent sp_rcv]. apply Forall_l_set; [exact G|].
      unfold ginv in G. rewrite Forall_forall in G. apply (G r). eapply nth_error_In. exact EK.
    - exact G.
  Qed.

  Lemma ginv_steps ops : forall s, ginv s -> ginv (snd (spec_steps s ops)).
  Proof.
    induction ops as [|o rest IH]; intros s G; cbn [spec_steps snd]; [exact G|]. apply IH. apply ginv_step. exact G.
  Qed.

  (* every reachable state of the abstract reading *)
  Theorem reach_ginv cap ops : ginv (snd (spec_steps (spec_new cap) ops)).
  Proof. apply ginv_steps. apply ginv_new. Qed.

  (* what subscriber r received so far, oldest first, and what it would still be given *)
  Definition received (r : srcv A) : list A := msgs_of (rev (sr_log r)).
  Definition pending (s : spec A) (r : srcv A) : list A := skipn (N.to_nat (sr_pos r)) (sp_sent s).
  Definition sent_since (s : spec A) (r : srcv A) : list A := skipn (N.to_nat (sr_sub r)) (sp_sent s).

  (* position by position: the i-th answer slot (a message, or one of the n slots of Overflowed n) is the i-th
     message sent since the subscription; nothing is duplicated, reordered or invented *)
  Theorem fanout_positions s k r :
    ginv s -> nth_error (sp_rcv s) k = Some r ->
    exists got, Forall2 fits (shape (rev (sr_log r))) got /\ got ++ pending s r = sent_since s r.
  Proof.
    intros G EK. unfold ginv in G. rewrite Forall_forall in G.
    destruct (G r (nth_error_In _ _ EK)) as (R1 & R2 & R3).
    exists (seg (sr_sub r) (sr_pos r) (sp_sent s)). split; [exact R3|]. apply seg_skipn. exact R1.
  Qed.

  (* (a) never answered Overflowed: received ++ pending = everything sent since it subscribed *)
  Theorem fanout_exact s k r :
    ginv s -> nth_error (sp_rcv s) k = Some r -> no_overflow (sr_log r) ->
    received r ++ pending s r = sent_since s r.
  Proof.
    intros G EK NO. destruct (fanout_positions s k r G EK) as (got & F & E).
    rewrite (shape_no_overflow _ (no_overflow_rev _ NO)) in F. apply fits_exact in F.
    unfold received. rewrite F. exact E.
  Qed.

  (* when is a try_recv answered Overflowed: exactly when the subscriber is more than `capacity` behind *)
  Theorem recv_answer s k r :
    nth_error (sp_rcv s) (N.to_nat k) = Some r -> sr_live r = true ->
    snd (spec_step s (BRecv k)) =
      if sr_pos r + sp_cap s <? sp_tail s then BoOverflowed (sp_tail s - sp_cap s - sr_pos r)
      else match nth_error (sp_sent s) (N.to_nat (sr_pos r)) with Some a => BoMsg a | None => @BoEmpty A end.
  Proof.
    intros EK LV. cbn [spec_step]. rewrite EK, LV.
    destruct (sr_pos r + sp_cap s <? sp_tail s); [reflexivity|].
    destruct (nth_error (sp_sent s) (N.to_nat (sr_pos r))); reflexivity.
  Qed.

  (* ---------- (b) falling behind ---------- *)

  Theorem overflow_loses_oldest s k r n :
    nth_error (sp_rcv s) (N.to_nat k) = Some r -> sr_live r = true ->
    0 < n -> sp_tail s - sr_pos r = sp_cap s + n ->
    exists r',
      spec_step s (BRecv k) =
        (mkSpec (sp_cap s) (sp_sent s) (l_set (sp_rcv s) (N.to_nat k) r'), BoOverflowed n) /\
      sr_live r' = true /\ sr_sub r' = sr_sub r /\ sr_pos r' = sr_pos r + n /\ sr_log r' = BoOverflowed n :: sr_log r /\
      (* exactly the n oldest pending messages are lost, the other `capacity` ones stay pending, in order *)
      pending s r' = skipn (N.to_nat n) (pending s r) /\
      N.of_nat (length (pending s r')) = sp_cap s.
  Proof.
    intros EK LV Hn HB. cbn [spec_step]. rewrite EK, LV.
    destruct (sr_pos r + sp_cap s <? sp_tail s) eqn:EO; [|lia].
    replace (sp_tail s - sp_cap s - sr_pos r) with n by lia.
    eexists. split; [reflexivity|]. cbn [sr_live sr_sub sr_log sr_pos].
    split; [reflexivity|]. split; [reflexivity|]. split; [lia|]. split; [reflexivity|].
    unfold pending. cbn [sr_pos]. split.
    - rewrite skipn_skipn'. f_equal. lia.
    - rewrite skipn_length. unfold sp_tail in *. lia.
  Qed.

  (* a subscriber that is at most `capacity` behind: its next j try_recv calls deliver its next j pending messages,
     in order; nothing else changes *)
  Lemma drain_in_order j : forall s k r,
    nth_error (sp_rcv s) (N.to_nat k) = Some r -> sr_live r = true ->
    sp_tail s <= sr_pos r + sp_cap s -> sr_pos r + N.of_nat j <= sp_tail s ->
    exists log',
      spec_steps s (repeat (BRecv k) j) =
        (map BoMsg (seg (sr_pos r) (sr_pos r + N.of_nat j) (sp_sent s)),
         mkSpec (sp_cap s) (sp_sent s)
                (l_set (sp_rcv s) (N.to_nat k) (mkSrcv true (sr_sub r) (sr_pos r + N.of_nat j) log'))).
  Proof.
    induction j as [|j IH]; intros s k r EK LV HB HJ.
    - cbn [repeat spec_steps]. exists (sr_log r). replace (sr_pos r + N.of_nat 0) with (sr_pos r) by lia.
      rewrite seg_nil. cbn [map]. f_equal. destruct s as [cap sent rcv]. cbn [sp_cap sp_sent sp_rcv] in *. f_equal.
      symmetry. apply l_set_same. rewrite EK. destruct r as [lv sb ps lg]. cbn [sr_live sr_sub sr_pos sr_log] in *.
      subst lv. reflexivity.
    - cbn [repeat spec_steps]. cbn [spec_step]. rewrite EK, LV.
      destruct (sr_pos r + sp_cap s <? sp_tail s) eqn:EO; [lia|].
      destruct (nth_error (sp_sent s) (N.to_nat (sr_pos r))) as [a|] eqn:EN.
      2:{ apply nth_error_None in EN. unfold sp_tail in *. lia. }
      cbn [fst snd].
      set (r1 := mkSrcv true (sr_sub r) (sr_pos r + 1) (BoMsg a :: sr_log r)).
      set (s1 := mkSpec (sp_cap s) (sp_sent s) (l_set (sp_rcv s) (N.to_nat k) r1)).
      assert (EK1 : nth_error (sp_rcv s1) (N.to_nat k) = Some r1).
      { unfold s1. cbn [sp_rcv]. apply l_set_nth_eq. eapply nth_error_lt. exact EK. }
      destruct (IH s1 k r1 EK1 eq_refl) as (log' & E).
      { unfold s1, r1. cbn [sp_cap sr_pos]. unfold sp_tail in *. cbn [sp_sent]. lia. }
      { unfold s1, r1. cbn [sr_pos]. unfold sp_tail in *. cbn [sp_sent]. lia. }
      rewrite E. exists log'. unfold s1, r1. cbn [fst snd sp_cap sp_sent sp_rcv sr_sub sr_pos].
      replace (sr_pos r + N.of_nat (S j)) with (sr_pos r + 1 + N.of_nat j) by lia.
      rewrite l_set_twice. f_equal.
      rewrite (seg_split (sr_pos r) (sr_pos r + 1) (sr_pos r + 1 + N.of_nat j)) by lia.
      rewrite (seg_one _ _ _ EN). reflexivity.
  Qed.

  (* a subscriber that has caught up is answered Empty, and nothing changes *)
  Lemma recv_empty (s : spec A) k r :
    nth_error (sp_rcv s) (N.to_nat k) = Some r -> sr_live r = true -> sr_pos r = sp_tail s ->
    spec_step s (BRecv k) = (s, BoEmpty).
  Proof.
    intros EK LV HP. cbn [spec_step]. rewrite EK, LV.
    destruct (sr_pos r + sp_cap s <? sp_tail s) eqn:EO; [lia|].
    destruct (nth_error (sp_sent s) (N.to_nat (sr_pos r))) as [a|] eqn:EN; [|reflexivity].
    apply nth_error_lt in EN. unfold sp_tail in *. lia.
  Qed.

  Lemma recv_empty_n j (s : spec A) k r :
    nth_error (sp_rcv s) (N.to_nat k) = Some r -> sr_live r = true -> sr_pos r = sp_tail s ->
    spec_steps s (repeat (BRecv k) j) = (repeat BoEmpty j, s).
  Proof.
    intros EK LV HP. induction j as [|j IH]; [reflexivity|].
    cbn [repeat spec_steps]. rewrite (recv_empty s k r EK LV HP). cbn [fst snd]. rewrite IH. reflexivity.
  Qed.

  (* ---------- (c) a send that nobody is subscribed for ---------- *)

  Theorem send_without_subscriber (c : bsys A) s m :
    sim c s -> nlive (sp_cur s) = 0 ->
    bsys_step c (BSend m) = (c, BoInactive) /\ spec_step s (BSend m) = (s, BoInactive).
  Proof.
    intros (R & C & I) NL. split.
    - cbn [bsys_step]. pose proof (send_sim A _ _ _ m I) as X. rewrite R, NL in X.
      change (0 =? 0) with true in X. cbv iota in X. rewrite X. destruct c. reflexivity.
    - cbn [spec_step]. rewrite NL. reflexivity.
  Qed.

  Lemma bsys_steps_app (c : bsys A) ops1 ops2 :
    bsys_steps c (ops1 ++ ops2) =
      (fst (bsys_steps c ops1) ++ fst (bsys_steps (snd (bsys_steps c ops1)) ops2),
       snd (bsys_steps (snd (bsys_steps c ops1)) ops2)).
  Proof.
    revert c. induction ops1 as [|o r IH]; intros c; cbn [app bsys_steps fst snd].
    - destruct (bsys_steps c ops2); reflexivity.
    - rewrite IH. reflexivity.
  Qed.

  Lemma spec_steps_app (s : spec A) ops1 ops2 :
    spec_steps s (ops1 ++ ops2) =
      (fst (spec_steps s ops1) ++ fst (spec_steps (snd (spec_steps s ops1)) ops2),
       snd (spec_steps (snd (spec_steps s ops1)) ops2)).
  Proof.
    revert s. induction ops1 as [|o r IH]; intros s; cbn [app spec_steps fst snd].
    - destruct (spec_steps s ops2); reflexivity.
    - rewrite IH. reflexivity.
  Qed.

  (* ... so later subscribers cannot see it: the history with the send is the history without it, plus the answer
     Inactive *)
  Theorem send_without_subscriber_run cap (ops1 : list (bop A)) m ops2 :
    0 < cap ->
    nlive (bs_rcv (snd (bsys_steps (bsys_new cap) ops1))) = 0 ->
    run_bc cap (ops1 ++ BSend m :: ops2) =
      fst (bsys_steps (bsys_new cap) ops1) ++ BoInactive :: fst (bsys_steps (snd (bsys_steps (bsys_new cap) ops1)) ops2) /\
    run_bc cap (ops1 ++ ops2) =
      fst (bsys_steps (bsys_new cap) ops1) ++ fst (bsys_steps (snd (bsys_steps (bsys_new cap) ops1)) ops2).
  Proof.
    intros Hc NL. unfold run_bc. rewrite !bsys_steps_app. cbn [fst]. split; [|reflexivity].
    f_equal. cbn [bsys_steps].
    destruct (steps_refine A ops1 _ _ (sim_new A cap Hc)) as (_ & S).
    assert (NL' : nlive (sp_cur (snd (spec_steps (spec_new cap) ops1))) = 0).
    { destruct S as (R & _). rewrite <- R. exact NL. }
    destruct (send_without_subscriber _ _ m S NL') as (E & _). rewrite E. reflexivity.
  Qed.

  (* ---------- (d) a subscriber that keeps up sees every event, in order ---------- *)

  Definition is_sent (o : bobs A) : Prop := match o with BoSent _ => True | _ => False end.

  Lemma sends_spec l : forall s,
    nlive (sp_cur s) <> 0 ->
    Forall is_sent (fst (spec_steps s (map BSend l))) /\
    snd (spec_steps s (map BSend l)) = mkSpec (sp_cap s) (sp_sent s ++ l) (sp_rcv s).
  Proof.
    induction l as [|m l IH]; intros s NL; cbn [map spec_steps fst snd].
    - split; [constructor|]. rewrite app_nil_r. destruct s; reflexivity.
    - cbn [spec_step]. destruct (nlive (sp_cur s) =? 0) eqn:E; [lia|]. cbn [fst snd].
      destruct (IH (mkSpec (sp_cap s) (sp_sent s ++ [m]) (sp_rcv s))) as (F & E2); [exact NL|].
      split; [constructor; [exact I|exact F]|]. rewrite E2. cbn [sp_cap sp_sent sp_rcv]. rewrite <- app_assoc. reflexivity.
  Qed.

  Lemma msgs_of_sent l : Forall is_sent l -> msgs_of l = [] /\ no_overflow l.
  Proof.
    induction 1 as [|o l Ho _ (IH1 & IH2)]; [split; [reflexivity|intros n []]|].
    destruct o; try destruct Ho. split; [exact IH1|].
    intros n [Hn|Hn]; [discriminate|exact (IH2 n Hn)].
  Qed.

  Lemma msgs_of_msgs l : msgs_of (map BoMsg l) = l /\ no_overflow (map BoMsg l).
  Proof.
    induction l as [|a l (IH1 & IH2)]; [split; [reflexivity|intros n []]|]. split.
    - cbn [map msgs_of flat_map msg_of app]. fold (msgs_of (map BoMsg l)). now rewrite IH1.
    - intros n [Hn|Hn]; [discriminate|exact (IH2 n Hn)].
  Qed.

  Lemma msgs_of_empty j : msgs_of (repeat (@BoEmpty A) j) = [] /\ no_overflow (repeat (@BoEmpty A) j).
  Proof.
    induction j as [|j (IH1 & IH2)]; [split; [reflexivity|intros n []]|]. split; [exact IH1|].
    intros n [Hn|Hn]; [discriminate|exact (IH2 n Hn)].
  Qed.

  Lemma no_overflow_app l1 l2 : no_overflow l1 -> no_overflow l2 -> no_overflow (l1 ++ l2).
  Proof. intros H1 H2 n Hn. apply in_app_or in Hn. destruct Hn as [Hn|Hn]; [exact (H1 n Hn)|exact (H2 n Hn)]. Qed.

  (* the subscriber: after every chunk of events it calls try_recv `dr` times (dr >= the size of the chunk; the
     calls beyond the pending messages are answered Empty) *)
  Definition feed (k : N) (dr : nat) (chunks : list (list A)) : list (bop A) :=
    flat_map (fun ch => map BSend ch ++ repeat (BRecv k) dr) chunks.

  Lemma feed_spec dr chunks : forall s k r,
    nth_error (sp_rcv s) (N.to_nat k) = Some r -> sr_live r = true -> sr_pos r = sp_tail s ->
    Forall (fun ch => N.of_nat (length ch) <= sp_cap s /\ (length ch <= dr)%nat) chunks ->
    msgs_of (fst (spec_steps s (feed k dr chunks))) = concat chunks /\
    no_overflow (fst (spec_steps s (feed k dr chunks))).
  Proof.
    induction chunks as [|ch rest IH]; intros s k r EK LV HP HC; [split; [reflexivity|intros n []]|].
    inversion HC as [|? ? (HL & HD) HR]; subst.
    cbn [feed flat_map concat]. fold (feed k dr rest).
    rewrite !spec_steps_app. cbn [fst snd].
    assert (NL : nlive (sp_cur s) <> 0).
    { assert (Hin : In (Some (sr_pos r)) (sp_cur s)).
      { unfold sp_cur. apply in_map_iff. exists r. split; [unfold cpos; rewrite LV; reflexivity|eapply nth_error_In; exact EK]. }
      intros Z. exact (nlive_zero _ _ Z Hin). }
    destruct (sends_spec ch s NL) as (FS & ES). rewrite ES.
    set (s1 := mkSpec (sp_cap s) (sp_sent s ++ ch) (sp_rcv s)).
    assert (T1 : sp_tail s1 = sp_tail s + N.of_nat (length ch)).
    { unfold sp_tail, s1. cbn [sp_sent]. rewrite app_length. lia. }
    assert (DR : repeat (@BRecv A k) dr = repeat (BRecv k) (length ch) ++ repeat (BRecv k) (dr - length ch)).
    { rewrite <- repeat_app. f_equal. lia. }
    rewrite DR, spec_steps_app. cbn [fst snd].
    destruct (drain_in_order (length ch) s1 k r EK LV) as (log' & ED).
    { unfold s1 in *. cbn [sp_cap] in *. lia. }
    { lia. }
    rewrite ED. cbn [fst snd].
    set (r2 := mkSrcv true (sr_sub r) (sr_pos r + N.of_nat (length ch)) log').
    set (s2 := mkSpec (sp_cap s1) (sp_sent s1) (l_set (sp_rcv s1) (N.to_nat k) r2)).
    assert (EK2 : nth_error (sp_rcv s2) (N.to_nat k) = Some r2).
    { unfold s2. cbn [sp_rcv]. apply l_set_nth_eq. eapply nth_error_lt. exact EK. }
    assert (HP2 : sr_pos r2 = sp_tail s2).
    { unfold r2. cbn [sr_pos]. unfold sp_tail at 1. unfold s2. cbn [sp_sent]. fold (sp_tail s1). lia. }
    rewrite (recv_empty_n _ s2 k r2 EK2 eq_refl HP2). cbn [fst snd].
    destruct (IH s2 k r2 EK2 eq_refl HP2) as (IM & IO).
    { eapply Forall_impl; [|exact HR]. intros l Hl. exact Hl. }
    assert (SG : seg (sr_pos r) (sr_pos r + N.of_nat (length ch)) (sp_sent s1) = ch).
    { rewrite HP. replace (sp_tail s + N.of_nat (length ch)) with (tail_of (sp_sent s1)) by (fold (sp_tail s1); lia).
      rewrite seg_all. unfold s1. cbn [sp_sent]. unfold sp_tail. rewrite skipn_app.
      replace (N.to_nat (N.of_nat (length (sp_sent s)))) with (length (sp_sent s)) by lia.
      rewrite skipn_all. replace (length (sp_sent s) - length (sp_sent s))%nat with O by lia. reflexivity. }
    rewrite SG.
    destruct (msgs_of_sent _ FS) as (M1 & O1). destruct (msgs_of_msgs ch) as (M2 & O2).
    destruct (msgs_of_empty (dr - length ch)) as (M3 & O3).
    split.
    - rewrite !msgs_of_app, M1, M2, M3, IM. cbn [app]. rewrite app_nil_r. reflexivity.
    - repeat apply no_overflow_app; assumption.
  Qed.

  (* (b) as one history: a subscriber that has caught up, then capacity + n sends (n > 0) while it does not read, then
     capacity + 2 try_recv calls: Overflowed n, the newest `capacity` messages in order, Empty *)
  Lemma lagging_spec (s : spec A) k r (l : list A) n :
    nth_error (sp_rcv s) (N.to_nat k) = Some r -> sr_live r = true -> sr_pos r = sp_tail s ->
    0 < n -> N.of_nat (length l) = sp_cap s + n ->
    exists obs_s,
      fst (spec_steps s (map BSend l ++ repeat (BRecv k) (S (N.to_nat (sp_cap s))) ++ [BRecv k])) =
        obs_s ++ BoOverflowed n :: map BoMsg (skipn (N.to_nat n) l) ++ [BoEmpty] /\
      Forall is_sent obs_s.
  Proof.
    intros EK LV HP Hn HL.
    assert (NL : nlive (sp_cur s) <> 0).
    { assert (Hin : In (Some (sr_pos r)) (sp_cur s)).
      { unfold sp_cur. apply in_map_iff. exists r. split; [unfold cpos; rewrite LV; reflexivity|eapply nth_error_In; exact EK]. }
      intros Z. exact (nlive_zero _ _ Z Hin). }
    destruct (sends_spec l s NL) as (FS & ES).
    exists (fst (spec_steps s (map BSend l))). split; [|exact FS].
    rewrite spec_steps_app. cbn [fst]. f_equal. rewrite ES.
    set (s1 := mkSpec (sp_cap s) (sp_sent s ++ l) (sp_rcv s)).
    assert (T1 : sp_tail s1 = sp_tail s + N.of_nat (length l)).
    { unfold sp_tail, s1. cbn [sp_sent]. rewrite app_length. lia. }
    cbn [repeat app spec_steps fst snd].
    destruct (overflow_loses_oldest s1 k r n EK LV Hn) as (r' & E & LV' & SB' & PS' & LG' & PD & PL).
    { unfold s1 at 2. cbn [sp_cap]. lia. }
    rewrite E. cbn [fst snd]. f_equal.
    set (s2 := mkSpec (sp_cap s1) (sp_sent s1) (l_set (sp_rcv s1) (N.to_nat k) r')).
    assert (EK2 : nth_error (sp_rcv s2) (N.to_nat k) = Some r').
    { unfold s2. cbn [sp_rcv]. apply l_set_nth_eq. eapply nth_error_lt. exact EK. }
    assert (T2 : sp_tail s2 = sp_tail s1) by reflexivity.
    assert (C2 : sp_cap s2 = sp_cap s) by reflexivity.
    rewrite spec_steps_app. cbn [fst snd].
    destruct (drain_in_order (N.to_nat (sp_cap s)) s2 k r' EK2 LV') as (log' & ED).
    { rewrite T2, C2. lia. }
    { rewrite T2. lia. }
    rewrite ED. cbn [fst snd]. f_equal.
    - f_equal. replace (sr_pos r' + N.of_nat (N.to_nat (sp_cap s))) with (tail_of (sp_sent s2)).
      2:{ change (tail_of (sp_sent s2)) with (sp_tail s1). lia. }
      rewrite seg_all. unfold s2, s1. cbn [sp_sent]. rewrite skipn_app.
      rewrite skipn_all2 by (unfold sp_tail in *; lia). cbn [app]. f_equal. unfold sp_tail in *. lia.
    - set (r3 := mkSrcv true (sr_sub r') (sr_pos r' + N.of_nat (N.to_nat (sp_cap s))) log').
      set (s3 := mkSpec (sp_cap s2) (sp_sent s2) (l_set (sp_rcv s2) (N.to_nat k) r3)).
      assert (EK3 : nth_error (sp_rcv s3) (N.to_nat k) = Some r3).
      { unfold s3. cbn [sp_rcv]. apply l_set_nth_eq. eapply nth_error_lt. exact EK2. }
      cbn [spec_steps]. rewrite (recv_empty s3 k r3 EK3 eq_refl).
      + reflexivity.
      + unfold r3. cbn [sr_pos]. change (sp_tail s3) with (sp_tail s1). lia.
  Qed.

  Theorem lagging_subscriber cap (l : list A) n :
    0 < cap -> 0 < n -> N.of_nat (length l) = cap + n ->
    exists obs_s,
      run_bc cap (BNew :: map BSend l ++ repeat (BRecv 0) (S (N.to_nat cap)) ++ [BRecv 0]) =
        BoNew 0 :: obs_s ++ BoOverflowed n :: map BoMsg (skipn (N.to_nat n) l) ++ [BoEmpty] /\
      Forall is_sent obs_s.
  Proof.
    intros Hc Hn HL. rewrite (run_refines A cap _ Hc). cbn [spec_steps]. cbn [spec_step spec_new sp_rcv length fst snd].
    destruct (lagging_spec (mkSpec cap [] [mkSrcv true 0 0 []]) 0 (mkSrcv true 0 0 []) l n) as (obs_s & E & F);
      try reflexivity; try assumption.
    exists obs_s. split; [|exact F]. f_equal. exact E.
  Qed.

  (* (d) on the model of the crate: a fresh channel, one subscriber attached at the start, events sent in chunks of at
     most `cap`, the subscriber calls try_recv `dr` >= chunk size times after each chunk: the messages it is given are
     exactly the events, in order, and it is never answered Overflowed *)
  Theorem drained_subscriber_sees_all cap dr chunks :
    0 < cap -> Forall (fun ch => N.of_nat (length ch) <= cap /\ (length ch <= dr)%nat) chunks ->
    exists obs,
      run_bc cap (BNew :: feed 0 dr chunks) = BoNew 0 :: obs /\
      msgs_of obs = concat chunks /\ no_overflow obs.
  Proof.
    intros Hc HC. rewrite (run_refines A cap _ Hc). cbn [spec_steps]. cbn [spec_step spec_new sp_rcv length fst snd].
    eexists. split; [reflexivity|].
    apply (feed_spec dr chunks _ 0 (mkSrcv true 0 0 [])); try reflexivity. exact HC.
  Qed.
End Facts.

Arguments seg {A}.
Arguments shape {A}.
Arguments msgs_of {A}.
Arguments no_overflow {A}.
Arguments fits {A}.
Arguments rinv {A}.
Arguments ginv {A}.
Arguments received {A}.
Arguments pending {A}.
Arguments sent_since {A}.
Arguments feed {A}.

(* ---------- (d) composed with Core.v: the events of a history of core calls ---------- *)

(* the events a history of calls sends are `rev (w_events w')` (w_events is newest first; EventsAvail.run_ops runs
   the calls one after the other, going on after a failed call); Events::send passes each of them to try_broadcast
   of a channel of capacity 32.  A subscriber attached before the history that drains (32 try_recv calls) whenever at
   most 32 events were sent since its last drain — in particular after every call: a call sends at most 2 events
   (C13_append_events, C13_apply_events, C13_get_events, C13_create_proof_events) — is given exactly the events of the
   history, in order, and never Overflowed. *)
Theorem core_history_fanout :
  forall (cr : crypto) (ops : list op) (c : core) (d : disk) (j : list sop) (c' : core) (w' : world) (oks : list bool)
         (chunks : list (list event)),
    run_ops cr ops c (mkWorld d j []) = (c', w', oks) ->
    concat chunks = rev (w_events w') ->
    Forall (fun ch => (length ch <= 32)%nat) chunks ->
    exists obs,
      run_bc 32 (BNew :: feed 0 32 chunks) = BoNew 0 :: obs /\
      msgs_of obs = rev (w_events w') /\ no_overflow obs.
Proof.
  intros cr ops c d j c' w' oks chunks _ HC HF.
  destruct (drained_subscriber_sees_all event 32 32 chunks) as (obs & E & M & O).
  - reflexivity.
  - eapply Forall_impl; [|exact HF]. intros ch Hch. cbv beta in *. split; lia.
  - exists obs. split; [exact E|]. split; [rewrite M; exact HC|exact O].
Qed.

Print Assumptions reach_ginv.
Print Assumptions fanout_positions.
Print Assumptions fanout_exact.
Print Assumptions recv_answer.
Print Assumptions overflow_loses_oldest.
Print Assumptions drain_in_order.
Print Assumptions lagging_subscriber.
Print Assumptions send_without_subscriber.
Print Assumptions send_without_subscriber_run.
Print Assumptions drained_subscriber_sees_all.
Print Assumptions core_history_fanout.

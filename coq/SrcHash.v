(* generated on every run by tools/srchash.py from /repo/src/crypto/hash.rs: for Hash::data, Hash::parent, Hash::tree and
   signable_tree the ordered, symbolically classified sequence of byte strings hashed / written, as the source states it now
   (None = not found in a recognisable form). HashTie.v proves that the preimages of Crypto.v are their interpretation. *)
From HC Require Import HashDesc.
Local Open Scope string_scope.
Local Open Scope N_scope.

(* LEAF_TYPE ++ le64(data.len()) ++ raw(data) *)
(* (node1, node2) = if (left.index <= right.index) { (left, right) } else { (right, left) }; PARENT_TYPE ++ le64((node1.length + node2.length)) ++ hash(node1) ++ hash(node2) *)
(* ROOT_TYPE ++ for node { hash(node) ++ le64(node.index()) ++ le64(node.len()) } ++ - *)
(* TREE ++ hash32(hash) ++ le64(length) ++ le64(fork) *)

Definition src_hash_data : option (list hitem) := Some [HConst "LEAF_TYPE" [0]; HLe64 (RVar "data.len()"); HRaw "data"].
Definition src_hash_parent : option parent_desc := Some {| pd_cond := (RBin OLe (RVar "left.index") (RVar "right.index")); pd_names := ("node1", "node2"); pd_then := ("left", "right"); pd_else := ("right", "left"); pd_items := [HConst "PARENT_TYPE" [1]; HLe64 (RBin OAdd (RVar "node1.length") (RVar "node2.length")); HHash "node1"; HHash "node2"] |}.
Definition src_hash_tree : option tree_desc := Some {| td_before := [HConst "ROOT_TYPE" [2]]; td_var := "node"; td_body := [HHash "node"; HLe64 (RVar "node.index()"); HLe64 (RVar "node.len()")]; td_after := [] |}.
Definition src_signable_tree : option (list hitem) := Some [HConst "TREE" [159; 172; 112; 181; 12; 161; 78; 252; 78; 145; 200; 51; 178; 4; 231; 91; 139; 90; 173; 139; 88; 129; 191; 192; 173; 181; 239; 56; 163; 39; 91; 156]; HHash32 "hash"; HLe64 (RVar "length"); HLe64 (RVar "fork")].

(* AcceptAllClo.v -- the replica's stored nodes stay CLOSED under accepted proofs (index-level).
   A tree is closed when every stored node is a root or has its sibling and its parent stored.
   An accepted proof (verify_proof) followed by tree_commit keeps the tree closed, keeps the roots
   stored, and stores exactly the old nodes and the nodes of the changeset. *)
From HC Require Import Base NMap Codec CodecFacts Crypto FlatTree Storage Bitfield Oplog Merkle Core.
From HC Require Import FlatTreeFacts StorageFacts BitfieldFacts OplogFacts TreeRef OffsetFacts CoreFacts
                       Sound NoPanic Refine Replicate SoundCoreLib SoundCore SoundCoreUp.
From Coq Require Import FMapPositive ZifyN ZifyNat ZifyBool.
Ltac Zify.zify_post_hook ::= Z.div_mod_to_equations.
Arguments N.add : simpl never.
Arguments N.sub : simpl never.
Arguments N.mul : simpl never.
Arguments N.div : simpl never.
Arguments N.modulo : simpl never.
Arguments N.pow : simpl never.
Arguments N.eqb : simpl never.
Arguments N.ltb : simpl never.
Arguments N.leb : simpl never.
Arguments N.of_nat : simpl never.
Arguments N.to_nat : simpl never.

(* ====================================================================================== *)
(* 0. Definitions                                                                          *)
(* ====================================================================================== *)

Definition navail (t : mtree) (tf : file) (j : N) : Prop := exists n, required_node t tf j = Ok n.

(* every stored node is a root of the tree or has its sibling and its parent stored *)
Definition ClosedR (t : mtree) (tf : file) : Prop :=
  forall j, navail t tf j ->
    In j (map n_index (t_roots t)) \/ (navail t tf (ft_sibling j) /\ navail t tf (ft_parent j)).

Lemma ClosedR_ext t tf t' tf' :
  t_roots t' = t_roots t -> (forall j, navail t' tf' j <-> navail t tf j) -> ClosedR t tf -> ClosedR t' tf'.
Proof.
  intros Hr Hn Hc j Hj. rewrite Hr. rewrite !Hn. apply Hc. apply Hn. exact Hj.
Qed.

Lemma ClosedR_empty tf :
  (forall j, ~ navail (mkTree [] 0 0 0 None nm_empty) tf j) -> ClosedR (mkTree [] 0 0 0 None nm_empty) tf.
Proof. intros H j Hj. destruct (H j Hj). Qed.

(* ====================================================================================== *)
(* 1. Flat-tree index facts: sibling / parent of iterator positions                         *)
(* ====================================================================================== *)

Definition isat (it : fiter) : Prop := exists d o, it = it_at d o.

Lemma isat_at d o : isat (it_at d o).
Proof. exists d, o. reflexivity. Qed.

Lemma isat_new i : isat (it_new i).
Proof. rewrite it_new_at. apply isat_at. Qed.

Lemma isat_sibling it : isat it -> isat (it_sibling it).
Proof. intros (d & o & ->). rewrite it_sibling_at_sib. apply isat_at. Qed.

Lemma isat_parent it : isat it -> isat (it_parent it).
Proof. intros (d & o & ->). rewrite it_parent_at. apply isat_at. Qed.

Lemma ft_parent_index d o : ft_parent (ft_index d o) = ft_index (d + 1) (o / 2).
Proof. unfold ft_parent. rewrite ft_depth_index, ft_offset_index. reflexivity. Qed.

Lemma idx_sibling it : isat it -> it_index (it_sibling it) = ft_sibling (it_index it).
Proof.
  intros (d & o & ->). rewrite it_sibling_at_sib. cbn [it_at it_index].
  rewrite ft_sibling_index. reflexivity.
Qed.

Lemma idx_parent it : isat it -> it_index (it_parent it) = ft_parent (it_index it).
Proof.
  intros (d & o & ->). rewrite it_parent_at. cbn [it_at it_index].
  rewrite ft_parent_index. reflexivity.
Qed.

Lemma ft_sibling_invol j : ft_sibling (ft_sibling j) = j.
Proof.
  rewrite <- (ft_index_depth_offset j) at 2. rewrite <- (ft_index_depth_offset j) at 1.
  rewrite !ft_sibling_index, sib_invol. reflexivity.
Qed.

Lemma ft_parent_sibling j : ft_parent (ft_sibling j) = ft_parent j.
Proof.
  rewrite <- (ft_index_depth_offset j).
  rewrite ft_sibling_index, !ft_parent_index, sib_div. reflexivity.
Qed.

(* the parent position reached through the sibling, as the climb and the merge do *)
Lemma idx_parent_sibling it : isat it -> it_index (it_parent (it_sibling it)) = ft_parent (it_index it).
Proof.
  intros H. rewrite idx_parent by (apply isat_sibling, H).
  rewrite idx_sibling by exact H. apply ft_parent_sibling.
Qed.

(* ====================================================================================== *)
(* 2. The queue                                                                            *)
(* ====================================================================================== *)

Lemma q_shift_spec q i n q' :
  q_shift q i = Ok (n, q') ->
  n_index n = i /\
  (q_extra q' = q_extra q \/ (q_extra q = Some n /\ q_extra q' = None)).
Proof.
  unfold q_shift. intros H. destruct (q_extra q) as [e|] eqn:He.
  - destruct (N.eqb_spec (n_index e) i) as [E|E].
    + injection H as <- <-. split; [exact E|]. right. split; reflexivity.
    + destruct (q_nodes q) as [|x r]; [discriminate H|].
      destruct (N.eqb_spec (n_index x) i) as [E'|E']; [|discriminate H].
      injection H as <- <-. split; [exact E'|]. left. reflexivity.
  - destruct (q_nodes q) as [|x r]; [discriminate H|].
    destruct (N.eqb_spec (n_index x) i) as [E'|E']; [|discriminate H].
    injection H as <- <-. split; [exact E'|]. left. reflexivity.
Qed.

Lemma q_length_0_extra q : q_length q = 0 -> q_extra q = None.
Proof. unfold q_length. destruct (q_extra q); [lia|reflexivity]. Qed.

(* ====================================================================================== *)
(* 3. The climb: every visited node except the top has its sibling and parent visited       *)
(* ====================================================================================== *)

Definition closedL (L : list N) (j : N) : Prop := In (ft_sibling j) L /\ In (ft_parent j) L.

Lemma closedL_incl L L' j : incl L L' -> closedL L j -> closedL L' j.
Proof. intros H [H1 H2]. split; apply H; assumption. Qed.

Section Climb.
  Variable cr : crypto.

  Lemma climb_closed : forall fuel q it cur acc r out,
    climb cr fuel q it cur acc = Ok (r, out) ->
    isat it -> n_index cur = it_index it ->
    exists V, out = acc ++ V /\
      (forall e, q_extra q = Some e -> In (n_index e) (map n_index V)) /\
      (forall j, In j (n_index cur :: map n_index V) ->
                 j = n_index r \/ closedL (n_index cur :: map n_index V) j).
  Proof.
    induction fuel as [|f IH]; intros q it cur acc r out H Hat Hcur; [discriminate H|].
    rewrite climb_S in H. destruct (N.eqb_spec (q_length q) 0) as [E0|E0].
    - injection H as <- <-. exists []. split; [rewrite app_nil_r; reflexivity|]. split.
      + intros e He. rewrite (q_length_0_extra q E0) in He. discriminate He.
      + intros j [<-|[]]. left. reflexivity.
    - cbv zeta in H. apply bind_ok in H. destruct H as ([n q'] & Hs & H).
      apply bind_ok in H. destruct H as (l & _ & H).
      apply q_shift_spec in Hs. destruct Hs as [Hn Hx].
      apply IH in H; [|apply isat_parent, isat_sibling, Hat|reflexivity].
      destruct H as (V' & -> & HE & HC). cbn [n_index] in HC.
      rewrite idx_sibling in Hn by exact Hat. rewrite idx_parent_sibling in HC by exact Hat.
      rewrite <- Hcur in Hn, HC.
      exists (n :: mkNode (it_index (it_parent (it_sibling it))) l (parent_hash cr cur n) :: V').
      split; [rewrite <- app_assoc; reflexivity|].
      cbn [map n_index]. rewrite (idx_parent_sibling it Hat), <- Hcur. split.
      + intros e He. destruct Hx as [Hx|[Hx _]].
        * right. right. apply HE. rewrite Hx. exact He.
        * rewrite He in Hx. injection Hx as ->. left. reflexivity.
      + intros j [<-|[<-|Hj]].
        * right. split; [right; left; exact Hn|right; right; left; reflexivity].
        * right. rewrite Hn. split.
          -- left. symmetry. apply ft_sibling_invol.
          -- right. right. left. symmetry. apply ft_parent_sibling.
        * destruct (HC j Hj) as [Ht|Hc]; [left; exact Ht|right].
          eapply closedL_incl; [|exact Hc]. intros x Hx'. right. right. exact Hx'.
  Qed.
End Climb.

(* ====================================================================================== *)
(* 4. verify_tree: the pushed nodes are closed among themselves, except the returned top    *)
(* ====================================================================================== *)

(* every index of L has its sibling and parent in L, except possibly the index of the top *)
Definition topclosed (L : list N) (top : option node) : Prop :=
  forall j, In j L -> closedL L j \/ exists t, top = Some t /\ j = n_index t.

Section VerifyTree.
  Variable cr : crypto.

  Lemma push_rnodes c l : cs_rnodes (cs_push_nodes c l) = rev l ++ cs_rnodes c.
  Proof. unfold cs_push_nodes. cbn [cs_rnodes]. apply rev_append_rev. Qed.

  Lemma vt_seek_closed c sn root c1 :
    vt_seek cr c sn = Ok (root, c1) ->
    exists Vis, cs_rnodes c1 = rev Vis ++ cs_rnodes c /\ topclosed (map n_index Vis) root.
  Proof.
    unfold vt_seek. destruct sn as [|n0 rest].
    - intros H. injection H as <- <-. exists []. split; [reflexivity|]. intros j [].
    - intros H. apply bind_ok in H. destruct H as ([n q] & Hs & H).
      apply bind_ok in H. destruct H as ([r visited] & Hc & H). injection H as <- <-.
      apply q_shift_spec in Hs. destruct Hs as [Hn _].
      apply climb_closed in Hc; [|apply isat_new|exact Hn].
      destruct Hc as (V & -> & _ & HC). exists (n :: V). split; [apply push_rnodes|].
      cbn [map]. intros j Hj. destruct (HC j Hj) as [Ht|Hcl]; [right|left; exact Hcl].
      exists r. split; [reflexivity|exact Ht].
  Qed.

  Lemma vt_main_closed root c u root' c' :
    vt_main cr root c u = Ok (root', c') ->
    exists Vis, cs_rnodes c' = rev Vis ++ cs_rnodes c /\ topclosed (map n_index Vis) root' /\
      ((root' = root /\ Vis = []) \/ forall r1, root = Some r1 -> In (n_index r1) (map n_index Vis)).
  Proof.
    unfold vt_main. destruct u as [[[value index] nodes]|].
    - intros H. apply bind_ok in H. destruct H as ([n q] & Hs & H).
      apply bind_ok in H. destruct H as ([r visited] & Hc & H). injection H as <- <-.
      assert (Hnq : n_index n = it_index (it_new index) /\
                    forall r1, root = Some r1 -> q_extra q = Some r1 \/ n = r1).
      { destruct value as [v|].
        - injection Hs as <- <-. split; [reflexivity|]. intros r1 ->. left. reflexivity.
        - apply q_shift_spec in Hs. cbn [q_extra] in Hs. destruct Hs as [Hn Hx]. split; [exact Hn|].
          intros r1 ->. destruct Hx as [Hx|[Hx _]]; [left; exact Hx|right]. now injection Hx as ->. }
      destruct Hnq as [Hn Hq].
      apply climb_closed in Hc; [|apply isat_new|exact Hn].
      destruct Hc as (V & -> & HE & HC). exists (n :: V). split; [apply push_rnodes|].
      cbn [map]. split.
      + intros j Hj. destruct (HC j Hj) as [Ht|Hcl]; [right|left; exact Hcl].
        exists r. split; [reflexivity|exact Ht].
      + right. intros r1 Hr1. destruct (Hq r1 Hr1) as [Hx| ->]; [right; apply HE, Hx|left; reflexivity].
    - intros H. injection H as <- <-. exists []. split; [reflexivity|]. split; [intros j []|].
      left. split; reflexivity.
  Qed.

  Lemma verify_tree_closed block hash seek c root c1 :
    verify_tree cr block hash seek c = Ok (root, c1) ->
    exists Vis, cs_rnodes c1 = rev Vis ++ cs_rnodes c /\ topclosed (map n_index Vis) root.
  Proof.
    rewrite verify_tree_eq. intros H. apply bind_ok in H. destruct H as (u & _ & H). cbv zeta in H.
    assert (B : ('(root, c1) <- vt_seek cr c (match seek with Some s => ds_nodes s | None => [] end) ;;
                 vt_main cr root c1 u) = Ok (root, c1) ->
                exists Vis, cs_rnodes c1 = rev Vis ++ cs_rnodes c /\ topclosed (map n_index Vis) root).
    { intros H'. apply bind_ok in H'. destruct H' as ([r1 c0] & H1 & H2).
      apply vt_seek_closed in H1. destruct H1 as (V1 & E1 & T1).
      apply vt_main_closed in H2. destruct H2 as (V2 & E2 & T2 & Hr).
      exists (V1 ++ V2). split; [rewrite E2, E1, rev_app_distr, app_assoc; reflexivity|].
      rewrite map_app. intros j Hj. apply in_app_or in Hj. destruct Hj as [Hj|Hj].
      - destruct (T1 j Hj) as [Hcl|(t & Et & Ej)].
        + left. eapply closedL_incl; [|exact Hcl]. apply incl_appl, incl_refl.
        + destruct Hr as [[-> ->]|Hr].
          * right. exists t. split; assumption.
          * specialize (Hr t Et). rewrite <- Ej in Hr.
            destruct (T2 j Hr) as [Hcl|Ht]; [left|right; exact Ht].
            eapply closedL_incl; [|exact Hcl]. apply incl_appr, incl_refl.
      - destruct (T2 j Hj) as [Hcl|Ht]; [left|right; exact Ht].
        eapply closedL_incl; [|exact Hcl]. apply incl_appr, incl_refl. }
    destruct u as [x|]; [exact (B H)|].
    destruct (match seek with Some s => ds_nodes s | None => [] end) as [|n0 rest] eqn:E.
    - injection H as <- <-. exists []. split; [reflexivity|]. intros j [].
    - exact (B H).
  Qed.
End VerifyTree.

(* ====================================================================================== *)
(* 5. The invariant threaded through append_root and the upgrade loops                      *)
(* ====================================================================================== *)

Section Inv.
  Variable cr : crypto.
  Variable A0 : N -> Prop.         (* the indices stored before the proof *)

  (* stored before, or pushed by the changeset *)
  Definition SinL (nr : list node) (j : N) : Prop := A0 j \/ In j (map n_index nr).
  (* a root, or sibling and parent present *)
  Definition GoodL (rr nr : list node) (j : N) : Prop :=
    In j (map n_index rr) \/ (SinL nr (ft_sibling j) /\ SinL nr (ft_parent j)).

  Definition Sin (c : changeset) : N -> Prop := SinL (cs_rnodes c).
  Definition Good (c : changeset) : N -> Prop := GoodL (cs_roots c) (cs_rnodes c).
  Definition Rinv (c : changeset) : Prop := forall x, In x (cs_roots c) -> Sin c (n_index x).

  Lemma SinL_cons n nr j : SinL nr j -> SinL (n :: nr) j.
  Proof. intros [H|H]; [left; exact H|right; right; exact H]. Qed.

  Lemma SinL_head n nr : SinL (n :: nr) (n_index n).
  Proof. right. left. reflexivity. Qed.

  Lemma merge_roots_good : forall fuel a rest nr d o rr' nr' it',
    merge_roots cr fuel (a :: rest) nr (it_at (N.of_nat d) o) = Ok (rr', nr', it') ->
    n_index a = ft_index (N.of_nat d) o ->
    (forall x, In x (a :: rest) -> SinL nr (n_index x)) ->
    (forall x, In x rr' -> SinL nr' (n_index x)) /\
    (forall j, SinL nr j -> SinL nr' j) /\
    (forall j, GoodL (a :: rest) nr j -> GoodL rr' nr' j) /\
    (forall j, SinL nr' j -> SinL nr j \/ GoodL rr' nr' j) /\
    (exists k, it' = it_at (N.of_nat (d + k)) (o / p2 k)).
  Proof.
    induction fuel as [|f IH]; intros a rest nr d o rr' nr' it' H Ia HR; [discriminate H|].
    assert (Hstop : (rr', nr', it') = (a :: rest, nr, it_at (N.of_nat d) o) ->
      (forall x, In x rr' -> SinL nr' (n_index x)) /\
      (forall j, SinL nr j -> SinL nr' j) /\
      (forall j, GoodL (a :: rest) nr j -> GoodL rr' nr' j) /\
      (forall j, SinL nr' j -> SinL nr j \/ GoodL rr' nr' j) /\
      (exists k, it' = it_at (N.of_nat (d + k)) (o / p2 k))).
    { intros [= -> -> ->]. split; [exact HR|]. split; [auto|]. split; [auto|]. split; [auto|].
      exists 0%nat. rewrite Nat.add_0_r, p2_0, N.div_1_r. reflexivity. }
    cbn [merge_roots] in H. destruct rest as [|b rest2].
    { apply Hstop. now injection H as <- <- <-. }
    rewrite it_sibling_at_sib in H. cbn [it_at it_index] in H.
    destruct (N.eqb_spec (ft_index (N.of_nat d) (sib o)) (n_index b)) as [Eb|Eb]; cbn [negb] in H.
    2:{ apply Hstop. now injection H as <- <- <-. }
    apply bind_ok in H. destruct H as (l & _ & H).
    fold (it_at (N.of_nat d) (sib o)) in H. rewrite it_parent_at, sib_div in H.
    replace (N.of_nat d + 1) with (N.of_nat (S d)) in H by lia.
    set (n := mkNode (it_index (it_at (N.of_nat (S d)) (o / 2))) l (parent_hash cr a b)) in H.
    assert (In_ : n_index n = ft_index (N.of_nat (S d)) (o / 2)) by reflexivity.
    (* facts about the two merged roots *)
    assert (Sa : SinL nr (n_index a)) by (apply HR; left; reflexivity).
    assert (Sb : SinL nr (n_index b)) by (apply HR; right; left; reflexivity).
    assert (Fa : ft_sibling (n_index a) = n_index b) by (rewrite Ia, ft_sibling_index; exact Eb).
    assert (Fb : ft_sibling (n_index b) = n_index a) by (rewrite <- Fa; apply ft_sibling_invol).
    assert (Pa : ft_parent (n_index a) = n_index n).
    { rewrite Ia, ft_parent_index, In_. f_equal. lia. }
    assert (Pb : ft_parent (n_index b) = n_index n) by (rewrite <- Fa, ft_parent_sibling; exact Pa).
    apply IH in H; [|exact In_|].
    2:{ intros x [<-|Hx]; [apply SinL_head|]. apply SinL_cons, HR. right. right. exact Hx. }
    destruct H as (H1 & H2 & H3 & H4 & k & Hk).
    split; [exact H1|].
    split; [intros j Hj; apply H2, SinL_cons, Hj|].
    split.
    - intros j Hj. apply H3. destruct Hj as [Hj|[Hs Hp]].
      + cbn [map] in Hj. destruct Hj as [<-|[<-|Hj]].
        * right. rewrite Fa, Pa. split; [apply SinL_cons, Sb|apply SinL_head].
        * right. rewrite Fb, Pb. split; [apply SinL_cons, Sa|apply SinL_head].
        * left. right. exact Hj.
      + right. split; apply SinL_cons; assumption.
    - split.
      + intros j Hj. destruct (H4 j Hj) as [[Hj'|Hj']|Hg]; [left; left; exact Hj'| |right; exact Hg].
        cbn [map] in Hj'. destruct Hj' as [<-|Hj'].
        * right. apply H3. left. left. reflexivity.
        * left. right. exact Hj'.
      + exists (S k). rewrite Hk. f_equal; [lia|]. rewrite <- div_p2_S. reflexivity.
  Qed.

  (* c' extends c: nodes are only added; what was good stays good; what is new is good *)
  Record Step (c c' : changeset) : Prop := mkStep {
    st_rinv : Rinv c';
    st_mono : forall j, Sin c j -> Sin c' j;
    st_pres : forall j, Good c j -> Good c' j;
    st_new : forall j, Sin c' j -> Sin c j \/ Good c' j;
    st_up : cs_upgraded c' = false -> cs_upgraded c = false /\ cs_roots c' = cs_roots c }.

  Lemma Step_refl c : Rinv c -> Step c c.
  Proof. intros H. constructor; auto. Qed.

  Lemma Step_trans a b c : Step a b -> Step b c -> Step a c.
  Proof.
    intros [A1 A2 A3 A4 A5] [B1 B2 B3 B4 B5]. constructor; auto.
    - intros j Hj. destruct (B4 j Hj) as [H|H]; [|right; exact H].
      destruct (A4 j H) as [H'|H']; [left; exact H'|right; apply B3, H'].
    - intros Hu. destruct (B5 Hu) as [Hu' E]. destruct (A5 Hu') as [Hu'' E']. split; [exact Hu''|congruence].
  Qed.

  Lemma in_map_rev (l : list node) j : In j (map n_index (rev l)) <-> In j (map n_index l).
  Proof. rewrite map_rev. split; intros H; [apply in_rev in H; exact H|apply in_rev; rewrite rev_involutive; exact H]. Qed.

  Lemma append_root_step c n d o c' it' :
    append_root cr c n (it_at (N.of_nat d) o) = Ok (c', it') ->
    n_index n = ft_index (N.of_nat d) o -> Rinv c ->
    Step c c' /\ Good c' (n_index n) /\ exists k, it' = it_at (N.of_nat (d + k)) (o / p2 k).
  Proof.
    intros H Hn HR. unfold append_root in H. apply bind_ok in H. destruct H as (bl & _ & H).
    apply bind_ok in H. destruct H as ([[rr nr] it1] & Hm & H). injection H as <- <-.
    apply merge_roots_good in Hm; [|exact Hn|].
    2:{ intros x [<-|Hx]; [apply SinL_head|]. apply SinL_cons, HR. apply in_rev. exact Hx. }
    destruct Hm as (H1 & H2 & H3 & H4 & Hk).
    assert (G0 : forall j, GoodL (cs_roots c) (cs_rnodes c) j -> GoodL (n :: rev (cs_roots c)) (n :: cs_rnodes c) j).
    { intros j [Hj|[Hs Hp]].
      - left. cbn [map]. right. apply in_map_rev. exact Hj.
      - right. split; apply SinL_cons; assumption. }
    assert (G1 : forall j, GoodL rr nr j -> Good
      (mkCs (cs_length c + it_factor (it_at (N.of_nat d) o) / 2) (cs_ancestors c) bl (cs_batch_length c)
            (cs_fork c) (rev rr) nr (cs_hash c) (cs_signature c) true (cs_orig_length c) (cs_orig_fork c)) j).
    { intros j [Hj|Hj]; [left|right; exact Hj]. cbn [cs_roots]. apply in_map_rev. exact Hj. }
    split; [|split; [|exact Hk]].
    - constructor; unfold Sin, Rinv; cbn [cs_roots cs_rnodes cs_upgraded].
      + intros x Hx. apply H1. apply in_rev. exact Hx.
      + intros j Hj. apply H2, SinL_cons, Hj.
      + intros j Hj. apply G1, H3, G0, Hj.
      + intros j Hj. destruct (H4 j Hj) as [[Hj'|Hj']|Hg]; [left; left; exact Hj'| |right; apply G1, Hg].
        cbn [map] in Hj'. destruct Hj' as [<-|Hj']; [|left; right; exact Hj'].
        right. apply G1, H3. left. left. reflexivity.
      + discriminate.
    - apply G1, H3. left. left. reflexivity.
  Qed.

  (* ---------- the extra node of the queue (the root computed by verify_tree) ---------- *)

  Definition QX (c' : changeset) (q q' : nodeq) : Prop :=
    q_extra q' = q_extra q \/
    exists e, q_extra q = Some e /\ q_extra q' = None /\ Good c' (n_index e).

  Lemma QX_refl c q : QX c q q.
  Proof. left. reflexivity. Qed.

  Lemma QX_trans c1 c2 q q1 q2 : QX c1 q q1 -> Step c1 c2 -> QX c2 q1 q2 -> QX c2 q q2.
  Proof.
    intros [H1|(e & E1 & E2 & G)] S [H2|(e' & E1' & E2' & G')].
    - left. congruence.
    - right. exists e'. split; [congruence|]. split; assumption.
    - right. exists e. split; [exact E1|]. split; [congruence|apply (st_pres _ _ S), G].
    - rewrite E2 in E1'. discriminate E1'.
  Qed.

  Lemma QX_shift c1 q i n q1 : q_shift q i = Ok (n, q1) -> Good c1 (n_index n) -> QX c1 q q1.
  Proof.
    intros H G. apply q_shift_spec in H. destruct H as [_ [H|[H1 H2]]]; [left; exact H|right].
    exists n. split; [exact H1|]. split; assumption.
  Qed.

  Lemma grow_loop_step : forall fuel c q d o ri c' q' it',
    grow_loop cr fuel c q (it_at (N.of_nat d) o) ri = Ok (c', q', it') -> Rinv c ->
    Step c c' /\ QX c' q q' /\ exists d' o', it' = it_at (N.of_nat d') o' /\ ft_index (N.of_nat d') o' = ri.
  Proof.
    induction fuel as [|f IH]; intros c q d o ri c' q' it' H HR; [discriminate H|].
    cbn [grow_loop] in H. cbn [it_at it_index] in H.
    destruct (N.eqb_spec (ft_index (N.of_nat d) o) ri) as [E|E].
    - injection H as <- <- <-. split; [apply Step_refl, HR|]. split; [apply QX_refl|].
      exists d, o. split; [reflexivity|exact E].
    - fold (it_at (N.of_nat d) o) in H. rewrite it_sibling_at_sib in H.
      apply bind_ok in H. destruct H as ([n q1] & Hs & H).
      apply bind_ok in H. destruct H as ([c1 it1] & Ha & H).
      pose proof (q_shift_spec _ _ _ _ Hs) as [Hn _]. cbn [it_at it_index] in Hn.
      destruct (append_root_step c n d (sib o) c1 it1 Ha Hn HR) as (S1 & G1 & k & ->).
      destruct (IH _ _ _ _ _ _ _ _ H (st_rinv _ _ S1)) as (S2 & X2 & Hit).
      split; [apply (Step_trans _ _ _ S1 S2)|]. split; [|exact Hit].
      apply (QX_trans c1 c' q q1 q'); [apply (QX_shift _ _ _ _ _ Hs G1)|exact S2|exact X2].
  Qed.

  Section Url.
  Variable to : N.
  Hypothesis Hto : to mod 2 = 0.

  Lemma url_step : forall fuel c q x i (grow : bool) c' q' it',
    Jx to x ->
    upgrade_roots_loop cr fuel c q (mkIter x (x / 2) 2) to i grow = Ok (c', q', it') -> Rinv c ->
    Step c c' /\ QX c' q q'.
  Proof.
    induction fuel as [|f IH]; intros c q x i grow c' q' it' HJ H HR; [discriminate H|].
    cbn [upgrade_roots_loop] in H.
    destruct (it_full_root (mkIter x (x / 2) 2) to) as [found it1] eqn:Efr.
    destruct (full_root_at to x found it1 Hto HJ Efr) as [->|(-> & d & o & -> & Ho & Ex0 & Hstop & HJ')].
    { cbn [negb] in H. injection H as <- <- <-. split; [apply Step_refl, HR|apply QX_refl]. }
    cbn [negb] in H.
    assert (Hnext : it_next_tree (it_at (N.of_nat d) o) =
                    mkIter (x + 2 * p2 d) ((x + 2 * p2 d) / 2) 2).
    { rewrite it_next_tree_at. replace (2 * ((o + 1) * p2 d)) with (x + 2 * p2 d) by lia. reflexivity. }
    assert (Happ : forall i0,
      ('(n, q1) <- q_shift q (it_index (it_at (N.of_nat d) o)) ;;
       '(c1, it2) <- append_root cr c n (it_at (N.of_nat d) o) ;;
       upgrade_roots_loop cr f c1 q1 (it_next_tree it2) to i0 false) = Ok (c', q', it') ->
      Step c c' /\ QX c' q q').
    { intros i0 H0.
      apply bind_ok in H0. destruct H0 as ([n q1] & Hs & H0).
      apply bind_ok in H0. destruct H0 as ([c1 it2] & Ha & H0).
      pose proof (q_shift_spec _ _ _ _ Hs) as [Hn _]. cbn [it_at it_index] in Hn.
      destruct (append_root_step c n d o c1 it2 Ha Hn HR) as (S1 & G1 & k & ->).
      assert (Hrec : Step c1 c' /\ QX c' q1 q').
      { destruct k as [|k].
        - rewrite Nat.add_0_r, p2_0, N.div_1_r, Hnext in H0.
          apply (IH _ _ _ _ _ _ _ _ HJ' H0 (st_rinv _ _ S1)).
        - rewrite it_next_tree_at in H0.
          refine (IH _ _ _ _ _ _ _ _ _ H0 (st_rinv _ _ S1)).
          split; [lia|]. left.
          pose proof (merged_end_beyond o d (S k) Ho ltac:(lia)). lia. }
      destruct Hrec as [S2 X2].
      split; [apply (Step_trans _ _ _ S1 S2)|].
      apply (QX_trans c1 c' q q1 q'); [apply (QX_shift _ _ _ _ _ Hs G1)|exact S2|exact X2]. }
    destruct (nth_error (cs_roots c) i) as [r0|].
    - destruct (n_index r0 =? it_index (it_at (N.of_nat d) o)).
      + rewrite Hnext in H. apply (IH _ _ _ _ _ _ _ _ HJ' H HR).
      + destruct grow.
        * apply bind_ok in H. destruct H as (li & Hli & H).
          apply bind_ok in H. destruct H as ([[c1 q1] it2] & Hg & H).
          rewrite it_new_at in Hg.
          replace (ft_depth li) with (N.of_nat (N.to_nat (ft_depth li))) in Hg by lia.
          destruct (grow_loop_step _ _ _ _ _ _ _ _ _ Hg HR) as (S1 & X1 & d' & o' & -> & Ei).
          cbn [it_at it_index] in Ei. apply ft_index_inj in Ei. destruct Ei as [Ed ->].
          assert (d' = d) by lia. subst d'.
          rewrite Hnext in H.
          destruct (IH _ _ _ _ _ _ _ _ HJ' H (st_rinv _ _ S1)) as (S2 & X2).
          split; [apply (Step_trans _ _ _ S1 S2)|].
          apply (QX_trans c1 c' q q1 q'); assumption.
        * apply (Happ i H).
    - apply (Happ i H).
  Qed.
  End Url.

  (* ---------- the additional nodes ---------- *)

  Lemma isat_nat it : isat it -> exists (d : nat) o, it = it_at (N.of_nat d) o.
  Proof. intros (d & o & ->). exists (N.to_nat d), o. f_equal. lia. Qed.

  Lemma extra_siblings_step : forall extra c it c' it' rest,
    extra_siblings cr c it extra = Ok (c', it', rest) -> isat it -> Rinv c ->
    Step c c' /\ isat it'.
  Proof.
    induction extra as [|n extra IH]; intros c it c' it' rest H Hat HR; cbn [extra_siblings] in H.
    - injection H as <- <- <-. split; [apply Step_refl, HR|exact Hat].
    - destruct (N.eqb_spec (n_index n) (it_index (it_sibling it))) as [E|E].
      + apply bind_ok in H. destruct H as ([c1 it1] & Ha & H).
        destruct (isat_nat _ (isat_sibling _ Hat)) as (d & o & Es). rewrite Es in Ha, E.
        cbn [it_at it_index] in E.
        destruct (append_root_step c n d o c1 it1 Ha E HR) as (S1 & _ & k & ->).
        destruct (IH _ _ _ _ _ H (isat_at _ _) (st_rinv _ _ S1)) as [S2 Hat'].
        split; [apply (Step_trans _ _ _ S1 S2)|exact Hat'].
      + injection H as <- <- <-. split; [apply Step_refl, HR|apply isat_sibling, Hat].
  Qed.

  Lemma descend_to_isat : forall fuel it index it1,
    descend_to fuel it index = Ok it1 -> isat it -> isat it1 /\ it_index it1 = index.
  Proof.
    induction fuel as [|f IH]; intros it index it1 H Hat; [discriminate H|].
    cbn [descend_to] in H. destruct (N.eqb_spec (it_index it) index) as [E|E].
    - injection H as <-. split; assumption.
    - destruct (N.eqb_spec (it_factor it) 2) as [E2|E2]; [discriminate H|].
      apply IH in H; [exact H|]. destruct Hat as (d & o & ->).
      destruct (N.eq_dec d 0) as [->|Hd].
      + exfalso. apply E2. reflexivity.
      + replace d with (d - 1 + 1) by lia. rewrite it_left_child_at. apply isat_at.
  Qed.

  Lemma extra_rest_step : forall extra c it c' it',
    extra_rest cr c it extra = Ok (c', it') -> isat it -> Rinv c -> Step c c'.
  Proof.
    induction extra as [|n extra IH]; intros c it c' it' H Hat HR; cbn [extra_rest] in H.
    - injection H as <- <-. apply Step_refl, HR.
    - apply bind_ok in H. destruct H as (it1 & Hd & H).
      apply bind_ok in H. destruct H as ([c1 it2] & Ha & H).
      apply descend_to_isat in Hd; [|exact Hat]. destruct Hd as [Hat1 Hi].
      destruct (isat_nat _ Hat1) as (d & o & ->). cbn [it_at it_index] in Hi.
      destruct (append_root_step c n d o c1 it2 Ha (eq_sym Hi) HR) as (S1 & _ & k & ->).
      apply (Step_trans _ _ _ S1).
      apply (IH _ _ _ _ H); [apply isat_sibling, isat_at|apply (st_rinv _ _ S1)].
  Qed.

  Lemma Step_same c c' :
    cs_roots c' = cs_roots c -> cs_rnodes c' = cs_rnodes c -> cs_upgraded c' = cs_upgraded c ->
    Rinv c -> Step c c'.
  Proof.
    intros E1 E2 E3 HR. constructor; unfold Rinv, Sin, Good; rewrite ?E1, ?E2, ?E3; auto.
  Qed.

  (* ---------- verify_upgrade ---------- *)

  Lemma verify_upgrade_step fork u br pk c consumed c4 :
    verify_upgrade cr fork u br pk c = Ok (consumed, c4) -> Rinv c ->
    Step c c4 /\ (forall e, br = Some e -> consumed = true -> Good c4 (n_index e)).
  Proof.
    unfold verify_upgrade. intros H HR.
    apply bind_ok in H. destruct H as (sl & _ & H).
    apply bind_ok in H. destruct H as (to & Hto & H).
    apply bind_ok in H. destruct H as ([[c1 q1] it1] & H1 & H).
    apply bind_ok in H. destruct H as (li & _ & H).
    apply bind_ok in H. destruct H as ([[c2 it2] rest] & H2 & H).
    apply bind_ok in H. destruct H as ([c3 it3] & H3 & H).
    apply bind_ok in H. destruct H as (c4' & Hs & H). injection H as <- <-.
    unfold cs_verify_and_set_signature in Hs. apply bind_ok in Hs. destruct Hs as (s' & _ & Hs).
    destruct (cr_verify cr pk _ s'); [|discriminate Hs]. injection Hs as <-.
    assert (Eto : to mod 2 = 0).
    { unfold mul64 in Hto. destruct (fits_u64 (2 * sl)); [|discriminate Hto]. injection Hto as <-. lia. }
    change (it_new 0) with (mkIter 0 (0 / 2) 2) in H1.
    assert (J0 : Jx to 0) by (split; [reflexivity|right; apply aligned_0]).
    destruct (url_step to Eto _ _ _ _ _ _ _ _ _ J0 H1 HR) as [S1 X1].
    destruct (extra_siblings_step _ _ _ _ _ _ H2 (isat_new _) (st_rinv _ _ S1)) as [S2 Hat2].
    pose proof (extra_rest_step _ _ _ _ _ H3 Hat2 (st_rinv _ _ S2)) as S3.
    assert (S4 : Step c3 (cs_set_hash_sig (cs_set_fork c3 fork) (cs_tree_hash cr (cs_set_fork c3 fork)) s')).
    { apply Step_same; try reflexivity. apply (st_rinv _ _ S3). }
    pose proof (Step_trans _ _ _ S2 (Step_trans _ _ _ S3 S4)) as S24.
    split; [apply (Step_trans _ _ _ S1 S24)|].
    intros e -> Hc. destruct X1 as [X|(e' & E1 & E2 & G)].
    - cbn [q_extra] in X. rewrite X in Hc. discriminate Hc.
    - cbn [q_extra] in E1. injection E1 as <-. apply (st_pres _ _ S24), G.
  Qed.
End Inv.

(* ====================================================================================== *)
(* 6. tree_commit: what is stored afterwards                                               *)
(* ====================================================================================== *)

Lemma commit_avail t t' tf l :
  t_unflushed t' = add_nodes (t_unflushed t) l ->
  (forall x, In x l -> node_blank x = false) ->
  forall j, navail t' tf j <-> navail t tf j \/ In j (map n_index l).
Proof.
  intros Hu Hb j. destruct (add_nodes_get l (t_unflushed t) j) as [(n & Hin & Hi & Hg)|[Hno Hg]].
  - rewrite <- Hu in Hg. split.
    + intros _. right. rewrite <- Hi. apply in_map, Hin.
    + intros _. exists n. apply required_node_unflushed; [exact Hg|apply Hb, Hin].
  - rewrite <- Hu in Hg.
    assert (E : required_node t' tf j = required_node t tf j).
    { unfold required_node. f_equal. apply node_get_unflushed_eq, Hg. }
    unfold navail. rewrite E. split; [intros H; left; exact H|].
    intros [H|H]; [exact H|]. apply in_map_iff in H. destruct H as (x & Hx & Hin).
    destruct (Hno x Hin Hx).
Qed.

Lemma in_idx_cs_nodes c j : In j (map n_index (cs_nodes c)) <-> In j (map n_index (cs_rnodes c)).
Proof. unfold cs_nodes. rewrite rev_append_rev, app_nil_r. apply in_map_rev. Qed.

(* ====================================================================================== *)
(* 7. The main theorem                                                                     *)
(* ====================================================================================== *)

(* the changeset of an accepted proof: its roots are present, every present index is a root or has
   sibling and parent present, and a changeset that is not an upgrade keeps the roots *)
Lemma verify_proof_good cr t tf pf pk cs :
  ClosedR t tf ->
  (forall x, In x (t_roots t) -> navail t tf (n_index x)) ->
  verify_proof cr t tf pf pk = Ok cs ->
  Rinv (navail t tf) cs /\
  (forall j, Sin (navail t tf) cs j -> Good (navail t tf) cs j) /\
  (cs_upgraded cs = false -> cs_roots cs = t_roots t).
Proof.
  intros HC HRt H. set (A0 := navail t tf).
  apply verify_proof_accept_inv in H. destruct H as (root & c1 & Hvt & H).
  pose proof (verify_tree_frame cr _ _ _ _ _ _ Hvt) as (_ & _ & _ & _ & _ & Fr & _ & _ & Fu & _ & _).
  apply verify_tree_closed in Hvt. destruct Hvt as (Vis & Ern & HT).
  cbn [tree_changeset cs_roots cs_rnodes cs_upgraded] in Fr, Fu, Ern. rewrite app_nil_r in Ern.
  (* the start *)
  assert (G0 : forall j, A0 j -> Good A0 c1 j).
  { intros j Hj. destruct (HC j Hj) as [Hr|[Hs Hp]].
    - left. rewrite Fr. exact Hr.
    - right. split; left; assumption. }
  assert (R1 : Rinv A0 c1).
  { intros x Hx. rewrite Fr in Hx. left. apply HRt, Hx. }
  assert (G1 : forall j, Sin A0 c1 j -> Good A0 c1 j \/ exists t0, root = Some t0 /\ j = n_index t0).
  { intros j [Hj|Hj]; [left; apply G0, Hj|]. rewrite Ern in Hj. apply (proj1 (in_map_rev _ _)) in Hj.
    destruct (HT j Hj) as [[Hs Hp]|Htop]; [left|right; exact Htop].
    right. unfold SinL. rewrite Ern. split; right; apply (proj2 (in_map_rev _ _)); assumption. }
  destruct (p_upgrade pf) as [u|].
  - destruct H as (consumed & c3 & Hvu & _ & _ & _ & _ & _ & Hchk).
    destruct (verify_upgrade_step cr A0 _ _ _ _ _ _ _ Hvu R1) as [S HX].
    split; [apply (st_rinv _ _ _ S)|]. split.
    + intros j Hj. destruct (st_new _ _ _ S j Hj) as [Hj1|Hg]; [|exact Hg].
      destruct (G1 j Hj1) as [Hg|(t0 & Et & ->)]; [apply (st_pres _ _ _ S), Hg|].
      destruct consumed.
      * apply (HX t0 Et eq_refl).
      * destruct (Hchk eq_refl t0 Et) as (n & Hn & _).
        apply (st_pres _ _ _ S), G0. exists n. exact Hn.
    + intros Hu. destruct (st_up _ _ _ S Hu) as [_ E]. rewrite E. exact Fr.
  - destruct H as [-> Hchk]. split; [exact R1|]. split; [|intros _; exact Fr].
    intros j Hj. destruct (G1 j Hj) as [Hg|(t0 & Et & ->)]; [exact Hg|].
    destruct (Hchk t0 Et) as (n & Hn & _). apply G0. exists n. exact Hn.
Qed.

(* the general form: no restriction on the additional nodes of the upgrade *)
Theorem verify_commit_closed_gen cr t tf pf pk cs t' :
  ClosedR t tf ->
  (forall x, In x (t_roots t) -> navail t tf (n_index x)) ->
  verify_proof cr t tf pf pk = Ok cs ->
  (forall x, In x (cs_nodes cs) -> node_blank x = false) ->
  tree_commit t cs = Ok t' ->
  ClosedR t' tf /\
  (forall x, In x (t_roots t') -> navail t' tf (n_index x)) /\
  (forall j, navail t' tf j <-> navail t tf j \/ In j (map n_index (cs_nodes cs))).
Proof.
  intros HC HRt Hv Hb Hc.
  destruct (verify_proof_good cr t tf pf pk cs HC HRt Hv) as (R & G & U).
  assert (Ht' : t_roots t' = cs_roots cs /\ t_unflushed t' = add_nodes (t_unflushed t) (cs_nodes cs)).
  { unfold tree_commit in Hc. destruct (negb (commitable t cs)); [discriminate Hc|].
    destruct (cs_upgraded cs) eqn:Eu.
    - destruct (cs_ancestors cs <? cs_orig_length cs); [discriminate Hc|]. injection Hc as <-.
      split; reflexivity.
    - injection Hc as <-. cbn [t_roots t_unflushed]. rewrite (U eq_refl). split; reflexivity. }
  destruct Ht' as [Er Eu].
  pose proof (commit_avail t t' tf (cs_nodes cs) Eu Hb) as Hav.
  assert (HS : forall j, Sin (navail t tf) cs j <-> navail t' tf j).
  { intros j. rewrite Hav, in_idx_cs_nodes. reflexivity. }
  split; [|split; [|exact Hav]].
  - intros j Hj. apply HS in Hj. destruct (G j Hj) as [Hr|[Hs Hp]].
    + left. rewrite Er. exact Hr.
    + right. split; apply HS; assumption.
  - intros x Hx. rewrite Er in Hx. apply HS, R, Hx.
Qed.

(* the statement as requested (the hypothesis on the additional nodes is not needed) *)
Theorem verify_commit_closed cr t tf pf pk cs t' :
  ClosedR t tf ->
  (forall x, In x (t_roots t) -> navail t tf (n_index x)) ->
  (match p_upgrade pf with Some u => du_additional u = [] | None => True end) ->
  verify_proof cr t tf pf pk = Ok cs ->
  (forall x, In x (cs_nodes cs) -> node_blank x = false) ->
  tree_commit t cs = Ok t' ->
  ClosedR t' tf /\
  (forall x, In x (t_roots t') -> navail t' tf (n_index x)) /\
  (forall j, navail t' tf j <-> navail t tf j \/ In j (map n_index (cs_nodes cs))).
Proof.
  intros HC HRt _ Hv Hb Hc. exact (verify_commit_closed_gen cr t tf pf pk cs t' HC HRt Hv Hb Hc).
Qed.

(* ====================================================================================== *)
(* 8. Non-vacuity: the hypotheses hold on concrete replicas (toy crypto ex_cr of Replicate.v) *)
(* ====================================================================================== *)

(* decidable checks for trees over the empty tree file *)
Definition availb (t : mtree) (j : N) : bool :=
  match required_node t file_empty j with Ok _ => true | _ => false end.

Lemma availb_spec t j : availb t j = true <-> navail t file_empty j.
Proof.
  unfold availb, navail. destruct (required_node t file_empty j) as [n|e|s|]; split;
    try discriminate; try (intros [n' H]; discriminate H).
  - intros _. exists n. reflexivity.
  - reflexivity.
Qed.

Lemma navail_keys t j : navail t file_empty j -> In j (map fst (nm_elements (t_unflushed t))).
Proof.
  intros [n H]. unfold required_node, node_get in H.
  destruct (nm_get j (t_unflushed t)) as [x|] eqn:E.
  - apply nm_get_elements in E. apply in_map_iff. exists (j, x). split; [reflexivity|exact E].
  - exfalso. destruct (mul64 "40 * index" NODE_SIZE j) as [off| | |]; try discriminate H.
    cbn [bind] in H. unfold f_read, file_empty in H. cbn [f_len] in H.
    destruct (N.leb_spec (off + NODE_SIZE) 0) as [L|L]; [|discriminate H].
    unfold NODE_SIZE in L. lia.
Qed.

Definition closed_check (t : mtree) : bool :=
  forallb (fun j => existsb (N.eqb j) (map n_index (t_roots t)) ||
                    (availb t (ft_sibling j) && availb t (ft_parent j)))
          (map fst (nm_elements (t_unflushed t))).

Lemma closed_check_ok t : closed_check t = true -> ClosedR t file_empty.
Proof.
  unfold closed_check. rewrite forallb_forall. intros H j Hj.
  specialize (H j (navail_keys t j Hj)). apply orb_true_iff in H. destruct H as [H|H].
  - left. apply existsb_exists in H. destruct H as (x & Hx & E). apply N.eqb_eq in E. subst x. exact Hx.
  - right. apply andb_true_iff in H. destruct H as [H1 H2]. split; apply availb_spec; assumption.
Qed.

Lemma roots_check_ok t :
  forallb (fun x => availb t (n_index x)) (t_roots t) = true ->
  forall x, In x (t_roots t) -> navail t file_empty (n_index x).
Proof. rewrite forallb_forall. intros H x Hx. apply availb_spec, H, Hx. Qed.

Lemma nonblank_check_ok (l : list node) :
  forallb (fun x => negb (node_blank x)) l = true -> forall x, In x l -> node_blank x = false.
Proof. rewrite forallb_forall. intros H x Hx. apply negb_true_iff, H, Hx. Qed.

(* a run: verify a proof (built from a valueless proof and the block value) and commit it *)
Definition ex_pf (rvp : res vproof) (v : option bytes) : proof :=
  match rvp with Ok vp => vp_to_proof vp v | _ => mkProof 0 None None None None end.
Definition ex_cs (t : mtree) (pf : proof) : changeset :=
  match verify_proof ex_cr t file_empty pf ex_key with Ok cs => cs | _ => tree_changeset t end.
Definition ex_commit (t : mtree) (cs : changeset) : mtree :=
  match tree_commit t cs with Ok t' => t' | _ => t end.

(* (a) a block-only proof on the replica ex_rt of Replicate.v (length 5, stores its roots 3 and 8) *)
Definition exA_pf : proof := ex_pf ex_block_proof (Some [4]).
Definition exA_cs : changeset := ex_cs ex_rt exA_pf.
Definition exA_t : mtree := ex_commit ex_rt exA_cs.

Example verify_commit_closed_hyps_block :
  ClosedR ex_rt file_empty /\
  (forall x, In x (t_roots ex_rt) -> navail ex_rt file_empty (n_index x)) /\
  (match p_upgrade exA_pf with Some u => du_additional u = [] | None => True end) /\
  verify_proof ex_cr ex_rt file_empty exA_pf ex_key = Ok exA_cs /\
  (forall x, In x (cs_nodes exA_cs) -> node_blank x = false) /\
  tree_commit ex_rt exA_cs = Ok exA_t /\
  map n_index (cs_nodes exA_cs) = [4; 6; 5; 1; 3] /\
  map fst (nm_elements (t_unflushed exA_t)) = [3; 1; 5; 8; 4; 6] /\ closed_check exA_t = true.
Proof.
  split; [apply closed_check_ok; vm_compute; reflexivity|].
  split; [apply roots_check_ok; vm_compute; reflexivity|].
  split; [vm_compute; exact I|].
  split; [vm_compute; reflexivity|].
  split; [apply nonblank_check_ok; vm_compute; reflexivity|].
  vm_compute. repeat split.
Qed.

Example exA_closed : ClosedR exA_t file_empty.
Proof.
  destruct verify_commit_closed_hyps_block as (H1 & H2 & H3 & H4 & H5 & H6 & _).
  exact (proj1 (verify_commit_closed ex_cr ex_rt file_empty exA_pf ex_key exA_cs exA_t H1 H2 H3 H4 H5 H6)).
Qed.

(* (b) the same replica, upgraded from length 5 to 7 together with block 6 of a 7-block writer:
       the grow branch merges the old root 8 with the supplied node 10 into 9, and the root 12
       computed from the block is consumed by the upgrade *)
Definition ex_blocks7 : list bytes := ex_blocks ++ [[11]; [12; 13]].
Definition ex_writer7 : res mtree :=
  cs <- cs_append_all ex_cr (tree_changeset empty_tree) ex_blocks7 ;;
  tree_commit empty_tree (cs_hash_and_sign ex_cr cs ex_key).
Definition ex_wt7 : mtree := match ex_writer7 with Ok t => t | _ => empty_tree end.

Definition exB_pf : proof :=
  ex_pf (create_valueless_proof ex_wt7 file_empty (Some (mkReqBlock 6 0)) None None (Some (mkReqUpgrade 5 2)))
        (Some [12; 13]).
Definition exB_cs : changeset := ex_cs ex_rt exB_pf.
Definition exB_t : mtree := ex_commit ex_rt exB_cs.

Example verify_commit_closed_hyps_upgrade :
  ClosedR ex_rt file_empty /\
  (forall x, In x (t_roots ex_rt) -> navail ex_rt file_empty (n_index x)) /\
  (match p_upgrade exB_pf with Some u => du_additional u = [] | None => True end) /\
  verify_proof ex_cr ex_rt file_empty exB_pf ex_key = Ok exB_cs /\
  (forall x, In x (cs_nodes exB_cs) -> node_blank x = false) /\
  tree_commit ex_rt exB_cs = Ok exB_t /\
  option_map (fun u => map n_index (du_nodes u)) (p_upgrade exB_pf) = Some [10] /\
  map n_index (cs_nodes exB_cs) = [12; 10; 9; 12] /\
  map n_index (t_roots exB_t) = [3; 9; 12] /\
  map fst (nm_elements (t_unflushed exB_t)) = [3; 9; 8; 12; 10] /\ closed_check exB_t = true.
Proof.
  split; [apply closed_check_ok; vm_compute; reflexivity|].
  split; [apply roots_check_ok; vm_compute; reflexivity|].
  split; [vm_compute; reflexivity|].
  split; [vm_compute; reflexivity|].
  split; [apply nonblank_check_ok; vm_compute; reflexivity|].
  vm_compute. repeat split.
Qed.

Example exB_closed : ClosedR exB_t file_empty.
Proof.
  destruct verify_commit_closed_hyps_upgrade as (H1 & H2 & H3 & H4 & H5 & H6 & _).
  exact (proj1 (verify_commit_closed ex_cr ex_rt file_empty exB_pf ex_key exB_cs exB_t H1 H2 H3 H4 H5 H6)).
Qed.

(* (c) for the general form: an empty replica receives block 1 with an upgrade to length 2 of the
       7-block writer; the signature covers length 7, so the upgrade carries the additional nodes
       5, 9, 12 (the hypothesis du_additional = [] of verify_commit_closed does not hold here) *)
Definition exC_pf : proof :=
  ex_pf (create_valueless_proof ex_wt7 file_empty (Some (mkReqBlock 1 0)) None None (Some (mkReqUpgrade 0 2)))
        (Some []).
Definition exC_cs : changeset := ex_cs empty_tree exC_pf.
Definition exC_t : mtree := ex_commit empty_tree exC_cs.

Example verify_commit_closed_gen_hyps_additional :
  ClosedR empty_tree file_empty /\
  (forall x, In x (t_roots empty_tree) -> navail empty_tree file_empty (n_index x)) /\
  verify_proof ex_cr empty_tree file_empty exC_pf ex_key = Ok exC_cs /\
  (forall x, In x (cs_nodes exC_cs) -> node_blank x = false) /\
  tree_commit empty_tree exC_cs = Ok exC_t /\
  option_map (fun u => map n_index (du_additional u)) (p_upgrade exC_pf) = Some [5; 9; 12] /\
  map n_index (cs_nodes exC_cs) = [2; 0; 1; 1; 5; 3; 9; 12] /\
  map n_index (t_roots exC_t) = [3; 9; 12] /\
  map fst (nm_elements (t_unflushed exC_t)) = [3; 1; 9; 5; 0; 12; 2] /\ closed_check exC_t = true.
Proof.
  split; [apply closed_check_ok; vm_compute; reflexivity|].
  split; [intros x []|].
  split; [vm_compute; reflexivity|].
  split; [apply nonblank_check_ok; vm_compute; reflexivity|].
  vm_compute. repeat split.
Qed.

Example exC_closed : ClosedR exC_t file_empty.
Proof.
  destruct verify_commit_closed_gen_hyps_additional as (H1 & H2 & H4 & H5 & H6 & _).
  exact (proj1 (verify_commit_closed_gen ex_cr empty_tree file_empty exC_pf ex_key exC_cs exC_t H1 H2 H4 H5 H6)).
Qed.

Check ClosedR_ext.
Check ClosedR_empty.
Check verify_proof_good.
Check verify_commit_closed_gen.
Check verify_commit_closed.
Print Assumptions ClosedR_ext.
Print Assumptions ClosedR_empty.
Print Assumptions verify_proof_good.
Print Assumptions verify_commit_closed_gen.
Print Assumptions verify_commit_closed.
Print Assumptions verify_commit_closed_hyps_block.
Print Assumptions verify_commit_closed_hyps_upgrade.
Print Assumptions verify_commit_closed_gen_hyps_additional.
Print Assumptions exA_closed.
Print Assumptions exB_closed.
Print Assumptions exC_closed.

(* ContigBridge.v — the model's update_contig is an instance of ContigReplay.hint_step, so the
   relational replay theorems apply to the model's replay (Core.replay_entry / replay_entries). *)
From HC Require Import Base NMap Storage Bitfield Oplog Core CodecFacts BitfieldFacts.
From HC Require ContigReplay.
From Coq Require Import FMapPositive.
From Coq Require Import List NArith ZArith Lia Bool PeanoNat.
From Coq Require Import ZifyN ZifyNat ZifyBool.
Ltac Zify.zify_post_hook ::= Z.div_mod_to_equations.
Arguments N.add : simpl never.
Arguments N.sub : simpl never.
Arguments N.mul : simpl never.
Arguments N.div : simpl never.
Arguments N.modulo : simpl never.
Arguments N.eqb : simpl never.
Arguments N.ltb : simpl never.
Arguments N.leb : simpl never.

Module CR := ContigReplay.

Definition upd_of (u : bf_update) : CR.upd :=
  if bu_drop u then CR.UDrop (bu_start u) (bu_start u + bu_length u)
  else CR.USet (bu_start u) (bu_start u + bu_length u).

(* bf_apply is ContigReplay.app on the membership function *)
Lemma bf_get_apply_app b u i :
  bf_get (bf_apply b u) i = CR.app (upd_of u) (bf_get b) i.
Proof.
  rewrite bf_get_apply. unfold upd_of, CR.app.
  destruct (bu_drop u); cbn [negb];
    destruct ((bu_start u <=? i) && (i <? bu_start u + bu_length u)); cbn [negb].
  - rewrite andb_false_r. reflexivity.
  - rewrite andb_true_r. reflexivity.
  - rewrite orb_true_r. reflexivity.
  - rewrite orb_false_r. reflexivity.
Qed.

(* the skip loop computes ContigReplay.ext (it never runs out of fuel) *)
Lemma bf_skip_set_ext b e :
  CR.ext (bf_get b) e (bf_skip_set (S (PositiveMap.cardinal (bf_bits b))) b e).
Proof.
  destruct (bf_skip_set_stops b e) as (H1 & H2 & H3).
  unfold CR.ext. split; [exact H1|]. split; [exact H3 | exact H2].
Qed.

(* update_contig, run against any field b', is a hint step for that field *)
Lemma update_contig_hint_step b' u c :
  CR.hint_step (bf_get b') (upd_of u) c (update_contig c b' u).
Proof.
  unfold update_contig, upd_of. destruct (bu_drop u).
  - destruct (N.ltb_spec (bu_start u) c) as [H|H].
    + apply CR.hs_drop_fire. lia.
    + apply CR.hs_drop_skip. exact H.
  - destruct ((c <=? bu_start u + bu_length u) && (bu_start u <=? c)) eqn:E.
    + apply CR.hs_set_fire; [lia|]. apply bf_skip_set_ext.
    + apply CR.hs_set_skip. lia.
Qed.

Lemma exact_contig_exact b c : exact_contig b c <-> CR.exact (bf_get b) c.
Proof. reflexivity. Qed.

(* ------------------------------------------------------------------ *)
(** * the bitfield/hint part of replay *)

Definition replay_bf (st : bitfield * N) (u : bf_update) : bitfield * N :=
  let b' := bf_apply (fst st) u in (b', update_contig (snd st) b' u).

Definition drops_nonempty (us : list bf_update) :=
  forall u, In u us -> bu_drop u = true -> 0 < bu_length u.

Lemma replay_bf_pres d b c u :
  (bu_drop u = true -> 0 < bu_length u) ->
  CR.InvAB (bf_get d) (bf_get b) c ->
  CR.InvAB (bf_get (fst (replay_bf (d, c) u))) (bf_get (bf_apply b u)) (snd (replay_bf (d, c) u)).
Proof.
  intros Hne HI. unfold replay_bf. cbn [fst snd].
  apply (CR.step_pres_ext (bf_get d) (bf_get b) _ _ (upd_of u) c).
  - intros s e Hu. unfold upd_of in Hu. destruct (bu_drop u); [|discriminate].
    injection Hu as <- <-. specialize (Hne eq_refl). lia.
  - intros i. apply bf_get_apply_app.
  - intros i. apply bf_get_apply_app.
  - exact HI.
  - apply update_contig_hint_step.
Qed.

Lemma fst_replay_bf us : forall d c,
  fst (fold_left replay_bf us (d, c)) = fold_left bf_apply us d.
Proof.
  induction us as [|u us IH]; intros d c; [reflexivity|].
  cbn [fold_left]. unfold replay_bf at 2. cbn [fst snd]. apply IH.
Qed.

Lemma replay_bf_list_pres us : forall d b c,
  drops_nonempty us ->
  CR.InvAB (bf_get d) (bf_get b) c ->
  CR.InvAB (bf_get (fst (fold_left replay_bf us (d, c))))
           (bf_get (fold_left bf_apply us b))
           (snd (fold_left replay_bf us (d, c))).
Proof.
  induction us as [|u us IH]; intros d b c Hne HI; [exact HI|].
  cbn [fold_left].
  destruct (replay_bf (d, c) u) as [d1 c1] eqn:E.
  apply IH.
  - intros u' Hin. apply Hne. right. exact Hin.
  - pose proof (replay_bf_pres d b c u (Hne u (or_introl eq_refl)) HI) as H.
    rewrite E in H. exact H.
Qed.

(* model form of ContigReplay.replay_exact: d = field loaded from disk, b = field the entries were
   logged against; once the replayed disk field coincides with the replayed b, the hint is exact *)
Theorem model_replay_exact us d b c0 :
  drops_nonempty us ->
  CR.InvAB (bf_get d) (bf_get b) c0 ->
  (forall i, bf_get (fold_left bf_apply us d) i = bf_get (fold_left bf_apply us b) i) ->
  exact_contig (fold_left bf_apply us d) (snd (fold_left replay_bf us (d, c0))).
Proof.
  intros Hne HI E.
  pose proof (replay_bf_list_pres us d b c0 Hne HI) as H.
  rewrite fst_replay_bf in H.
  apply (CR.InvAB_same_exact (bf_get (fold_left bf_apply us d))
                             (bf_get (fold_left bf_apply us d))); [reflexivity|].
  eapply CR.InvAB_ext; [| |exact H].
  - reflexivity.
  - intros i. symmetry. apply E.
Qed.

(* membership after a list of updates, in ContigReplay terms *)
Lemma bf_get_fold_apply us : forall b i,
  bf_get (fold_left bf_apply us b) i = CR.apps (map upd_of us) (bf_get b) i.
Proof.
  induction us as [|u us IH]; intros b i; [reflexivity|].
  cbn [fold_left map]. rewrite IH. unfold CR.apps. cbn [fold_left].
  fold (CR.apps (map upd_of us) (bf_get (bf_apply b u))).
  fold (CR.apps (map upd_of us) (CR.app (upd_of u) (bf_get b))).
  apply CR.apps_agree_untouched. intros j _. apply bf_get_apply_app.
Qed.

(* crash recovery: c0 exact for b, the disk field d is bit by bit either b's value or the value
   after all updates; then replaying over d yields b's final field and its exact hint *)
Theorem model_replay_exact_mixture us d b c0 :
  drops_nonempty us ->
  exact_contig b c0 ->
  (forall i, bf_get d i = bf_get b i \/ bf_get d i = bf_get (fold_left bf_apply us b) i) ->
  (forall i, bf_get (fold_left bf_apply us d) i = bf_get (fold_left bf_apply us b) i) /\
  exact_contig (fold_left bf_apply us d) (snd (fold_left replay_bf us (d, c0))).
Proof.
  intros Hne Hex Hmix.
  assert (E : forall i, bf_get (fold_left bf_apply us d) i = bf_get (fold_left bf_apply us b) i).
  { intros i. rewrite !bf_get_fold_apply. apply CR.apps_mixture.
    intros j. rewrite <- bf_get_fold_apply. apply Hmix. }
  split; [exact E|].
  apply (model_replay_exact us d b c0 Hne); [|exact E].
  apply CR.exact_InvAB. exact Hex.
Qed.

(* ------------------------------------------------------------------ *)
(** * Core.replay_entry / replay_entries project onto replay_bf *)

Definition entry_bf_step (st : bitfield * N) (o : option bf_update) : bitfield * N :=
  match o with Some u => replay_bf st u | None => st end.

Definition updates_of (es : list entry) : list bf_update :=
  flat_map (fun e => match e_bitfield e with Some u => [u] | None => [] end) es.

Lemma replay_entry_bf cr tf t b h e t' b' h' :
  replay_entry cr tf (t, b, h) e = Ok (t', b', h') ->
  (b', hd_contig h') = entry_bf_step (b, hd_contig h) (e_bitfield e).
Proof.
  unfold replay_entry, entry_bf_step, replay_bf. cbn [fst snd].
  destruct (e_bitfield e) as [u|]; destruct (e_upgrade e) as [up|]; intros H.
  - apply bind_ok in H. destruct H as (cs & _ & H).
    apply bind_ok in H. destruct H as (sg & _ & H).
    apply bind_ok in H. destruct H as (t2 & _ & H).
    injection H as _ <- <-. reflexivity.
  - injection H as _ <- <-. reflexivity.
  - apply bind_ok in H. destruct H as (cs & _ & H).
    apply bind_ok in H. destruct H as (sg & _ & H).
    apply bind_ok in H. destruct H as (t2 & _ & H).
    injection H as _ <- <-. reflexivity.
  - injection H as _ <- <-. reflexivity.
Qed.

Lemma replay_entries_bf cr tf es : forall t b h t' b' h',
  replay_entries cr tf (t, b, h) es = Ok (t', b', h') ->
  (b', hd_contig h') = fold_left replay_bf (updates_of es) (b, hd_contig h).
Proof.
  induction es as [|e es IH]; intros t b h t' b' h' H.
  - cbn [replay_entries] in H. injection H as _ <- <-. reflexivity.
  - cbn [replay_entries] in H. apply bind_ok in H. destruct H as ([[t1 b1] h1] & H1 & H2).
    apply replay_entry_bf in H1. apply IH in H2. rewrite H2.
    unfold updates_of. cbn [flat_map]. rewrite fold_left_app.
    fold (updates_of es). f_equal.
    rewrite H1. unfold entry_bf_step. destruct (e_bitfield e); reflexivity.
Qed.

(* Opening after a crash: the header hint c0 = hd_contig h is exact for the field b the logged
   entries were computed against; the bitfield store holds any bitwise old/new mixture d.
   Replaying the entries gives b's final field and the exact hint in the header. *)
Theorem replay_entries_contig_exact cr tf es t d h t' b' h' b :
  replay_entries cr tf (t, d, h) es = Ok (t', b', h') ->
  drops_nonempty (updates_of es) ->
  exact_contig b (hd_contig h) ->
  (forall i, bf_get d i = bf_get b i \/
             bf_get d i = bf_get (fold_left bf_apply (updates_of es) b) i) ->
  (forall i, bf_get b' i = bf_get (fold_left bf_apply (updates_of es) b) i) /\
  exact_contig b' (hd_contig h').
Proof.
  intros Hr Hne Hex Hmix.
  apply replay_entries_bf in Hr.
  destruct (model_replay_exact_mixture (updates_of es) d b (hd_contig h) Hne Hex Hmix) as [E Hx].
  rewrite <- Hr in Hx. cbn [snd] in Hx.
  assert (Hb : b' = fold_left bf_apply (updates_of es) d).
  { rewrite <- (fst_replay_bf (updates_of es) d (hd_contig h)), <- Hr. reflexivity. }
  rewrite <- Hb in *. split; [exact E | exact Hx].
Qed.

Print Assumptions bf_get_apply_app.
Print Assumptions update_contig_hint_step.
Print Assumptions model_replay_exact.
Print Assumptions model_replay_exact_mixture.
Print Assumptions replay_entries_bf.
Print Assumptions replay_entries_contig_exact.

(* HonestApply3.v -- C03 at the core level for every well-formed request, part 3: one replication round.
   The writer serves ANY well-formed request (AcceptAll.wf_request: block or hash section, optional in-range seek,
   optional full or partial upgrade -- all 18 classes) through core_create_proof; the replica applies the proof
   with core_apply_proof, for every flush decision: the result is Ok true, the replica invariant RCInv
   (ReplicaDisk1.RDInv + closed stored nodes) holds afterwards with the requested block held, the length is the
   writer's SIGNED length whenever the request carried an upgrade (also a partial one: the additional nodes
   complete the signed head), every node of the changeset -- in particular the requested one -- is stored as
   the writer's node.  No collision / forged-signature clause. *)
From HC Require Import Base NMap Codec CodecFacts Crypto FlatTree Storage Bitfield Oplog Merkle Core.
From HC Require Import FlatTreeFacts StorageFacts BitfieldFacts Sound NoPanic TreeRef OffsetFacts CoreFacts Refine Replicate Replicate2 Replicate2Z Replicate2D Replicate2E.
From HC Require Import Unified1 SoundCoreLib SoundCore SoundCoreUp SoundCoreBU ReplicaDisk1 ReplicaDisk2 ReplicaDisk3 ReplicaDisk4.
From HC Require Import AcceptAll1 AcceptAll2 AcceptAll3 AcceptAll AcceptAllCore1 AcceptAllClo AcceptAllClo2 AcceptAllFlush AcceptAllCore2 AcceptAllCore3.
From HC Require Import HonestApply1 HonestApply2.
From Coq Require Import FMapPositive ZifyN ZifyNat ZifyBool.
Ltac Zify.zify_post_hook ::= Z.div_mod_to_equations.
Arguments N.add : simpl never.
Arguments N.sub : simpl never.
Arguments N.mul : simpl never.
Arguments N.div : simpl never.
Arguments N.modulo : simpl never.
Arguments N.pow : simpl never.
Arguments N.eqb : simpl never.
Arguments N.ltb : simpl never.
Arguments N.leb : simpl never.
Arguments N.of_nat : simpl never.
Arguments N.to_nat : simpl never.
Arguments N.log2 : simpl never.

(* the upgrade section of a created proof: none without an upgrade request, the tree's signature with one *)
Lemma create_upgrade_shape t tf b h s ou vp :
  create_valueless_proof t tf b h s ou = Ok vp ->
  match ou with
  | None => vp_upgrade vp = None
  | Some u => exists ns add sg, vp_upgrade vp = Some (mkDataUpgrade (ru_start u) (ru_length u) ns add sg) /\
                                t_signature t = Some sg
  end.
Proof.
  unfold create_valueless_proof. cbv zeta. intros H.
  apply bind_ok in H. destruct H as ([from to] & _ & H).
  apply bind_ok in H. destruct H as (ixo & _ & H).
  destruct ((to <=? from) || (2 * t_length t <? to)); [discriminate H|].
  apply bind_ok in H. destruct H as ([[sub p] un] & _ & H).
  apply bind_ok in H. destruct H as (sub' & _ & H).
  apply bind_ok in H. destruct H as (p' & _ & H).
  apply bind_ok in H. destruct H as ([db dh] & _ & H).
  apply bind_ok in H. destruct H as (dup & Hd & H).
  injection H as <-. cbn [vp_upgrade].
  destruct ou as [u|]; [|injection Hd as <-; reflexivity].
  destruct (lp_upgrade p') as [ns|]; [|discriminate Hd].
  destruct (t_signature t) as [sg|]; [|discriminate Hd]. injection Hd as <-. eauto.
Qed.

Section Round.
  Variable cr : crypto.
  Hypothesis Hcrc : OplogFacts.crc_ok cr.
  Hypothesis Hhash32 : forall x, length (cr_hash cr x) = 32%nat.
  Hypothesis Hnonblank : forall x, all_zero (cr_hash cr x) = false.
  Hypothesis Hhashbytes : forall x, bytes_ok (cr_hash cr x) = true.
  Variable bs : list bytes.               (* the writer's whole log *)
  Hypothesis Hw : writer_fits bs.

  (* the held set after the request has been served *)
  Definition held_rq (H : N -> bool) (rq : request) : N -> bool :=
    fun i => match rq_block rq with Some b => (i =? rb_index b) || H i | None => H i end.

  (* the node asked for *)
  Definition rq_node (rq : request) : option N :=
    match rq_block rq, rq_hash rq with
    | Some b, _ => Some (2 * rb_index b)
    | None, Some h => Some (rb_index h)
    | None, None => None
    end.

  Theorem honest_round f cw dw bw sg jw evw c d j ev H rq :
    let w := N.of_nat (length bw) in
    let pk := kp_public (c_keypair c) in
    writer_at cr bs cw dw bw pk sg ->
    RCInv cr bs c d H ->
    t_length (c_tree c) <= w ->
    wf_request bs (c_tree c) (d_tree d) w rq ->
    (forall vp, create_valueless_proof (c_tree cw) (d_tree dw) (rq_block rq) (rq_hash rq) (rq_seek rq) (rq_upgrade rq) = Ok vp ->
                frame_guard cr c d (vp_to_proof vp (rq_value bs rq))) ->
    exists pf cs c' w',
      core_create_proof (rq_block rq) (rq_hash rq) (rq_seek rq) (rq_upgrade rq) cw (mkWorld dw jw evw)
        = (cw, mkWorld dw jw evw, Ok (Some pf)) /\
      verifier_says cr c (mkWorld d j ev) pf = Ok cs /\
      core_apply_proof cr f pf c (mkWorld d j ev) = (c', w', Ok true) /\
      RCInv cr bs c' (w_disk w') (held_rq H rq) /\
      (* the length: the writer's signed length with an upgrade (full or partial), unchanged without *)
      t_length (c_tree c') = (match rq_upgrade rq with Some _ => w | None => t_length (c_tree c) end) /\
      t_byte_length (c_tree c') = prefix_size bs (t_length (c_tree c')) /\
      c_keypair c' = c_keypair c /\
      (* every node of the changeset is stored as the writer's node (size and hash) *)
      (forall x, In x (cs_nodes cs) ->
         required_node (c_tree c') (d_tree (w_disk w')) (n_index x) = Ok (ref_at cr bs (n_index x))) /\
      (* in particular the node asked for *)
      (forall k, rq_node rq = Some k ->
         required_node (c_tree c') (d_tree (w_disk w')) k = Ok (ref_at cr bs k)).
  Proof.
    intros w pk ((rest & Ebs) & Ww & Hsg & Hs64 & Hsgb & Hver) RC Hrw Hwf Hfr.
    pose proof RC as [X Hclo].
    pose proof Ww as (HL & HB & HF & HR & Hlookw & Hun & Hbf & Hcg & Hdat & Hs & Hn). fold w in HL, HR, Hlookw.
    pose proof Hw as [Hw1 Hw2].
    assert (Hwl : w <= N.of_nat (length bs)) by (unfold w; rewrite Ebs, app_length; lia).
    assert (H64 : 2 * w <= u64_max) by (unfold NODE_SIZE in Hw2; lia).
    assert (Hlook : lookups cr (c_tree cw) (d_tree dw) bs w).
    { intros d0 o0 Hd. rewrite (Hlookw d0 o0 Hd), Ebs. f_equal. symmetry. apply ref_node_app. exact Hd. }
    assert (Hroots : t_roots (c_tree cw) = ref_roots cr bs w).
    { rewrite HR, Ebs. symmetry. apply ref_roots_app. unfold w. lia. }
    assert (Hver' : cr_verify cr pk (signable (tree_hash cr (ref_roots cr bs w)) w (t_fork (c_tree cw))) sg = true)
      by (rewrite HF; exact Hver).
    pose proof (RDInv_RInv cr bs c d H X) as W.
    pose proof W as (Wr & Wf & Wroots & Wbl & Wu & Wfs & Wrl & Wheld).
    (* the tree-level statement *)
    destruct (wellformed_request_accepted cr bs Hw1 (c_tree cw) (d_tree dw) w sg Hlook HL Hroots Hsg H64
                (c_tree c) (d_tree d) (t_length (c_tree c)) Wroots eq_refl Wbl Hrw (replica_rep cr bs c d H X)
                pk Hs64 Hver' rq Hwf) as (vp & cs & Hc & Vf & Bsh & Hv & Hcm & Href & Hout & Hdel).
    (* the requested block exists on the writer *)
    assert (Hblt : forall b, rq_block rq = Some b -> rb_index b < w).
    { intros [i k] Eb. destruct Hwf as [Hup Hnode]. rewrite Eb in Hnode.
      destruct (rq_hash rq) as [hh|]; [destruct Hnode|]. cbn [rb_index rb_nodes] in Hnode |- *.
      destruct Hnode as [Hhi _]. rewrite p2_0 in Hhi.
      unfold rq_target in Hhi. unfold wf_upgrade in Hup. destruct (rq_upgrade rq) as [[s l]|]; cbn [ru_start ru_length] in *; lia. }
    assert (Eval : rq_value bw rq = rq_value bs rq).
    { unfold rq_value. destruct (rq_block rq) as [b|] eqn:Eb; [|reflexivity]. f_equal. rewrite Ebs. symmetry.
      apply blk_app_l. apply (Hblt b eq_refl). }
    set (pf := vp_to_proof vp (rq_value bs rq)).
    assert (Hpb : match rq_block rq with
                  | Some b => exists ns, p_block pf = Some (mkDataBlock (rb_index b) (blk bs (rb_index b)) ns)
                  | None => p_block pf = None
                  end).
    { unfold pf, vp_to_proof, rq_value, block_shape in *. cbn [p_block].
      destruct (rq_block rq) as [b|]; [destruct Bsh as (ns & ->); eauto|rewrite Bsh; reflexivity]. }
    assert (Hheld : forall i, hold H (p_block pf) i = held_rq H rq i).
    { intros i. unfold hold, held_rq. destruct (rq_block rq) as [b|]; [destruct Hpb as (ns & ->); reflexivity|rewrite Hpb; reflexivity]. }
    pose proof (create_upgrade_shape _ _ _ _ _ _ _ Hc) as Hshape.
    assert (V : verifier_says cr c (mkWorld d j ev) pf = Ok cs) by exact Hv.
    assert (Hhon : honest_changeset cr bs c pf cs).
    { split; [exact Href|]. split; [|split; [|split]].
      - intros b Eb. unfold delivered in Hdel. destruct (rq_block rq) as [rb|] eqn:Erb.
        + destruct Hpb as (ns & Epb). rewrite Epb in Eb. injection Eb as <-. cbn [db_index db_value].
          split; [exact Hdel|]. split; [|reflexivity]. pose proof (Hblt rb eq_refl). lia.
        + rewrite Hpb in Eb. discriminate Eb.
      - intros Up. unfold outcome in Hout. destruct (rq_upgrade rq) as [u|].
        + destruct Hout as (_ & R & L & B & F & _ & A). rewrite A, L, R, B, F, HF. repeat split; try reflexivity; assumption.
        + destruct Hout as [U _]. congruence.
      - apply (upgrade_none_not_upgraded cr _ _ pf _ cs Hv).
      - unfold pf, vp_to_proof. cbn [p_upgrade]. destruct (rq_upgrade rq) as [u|].
        + destruct Hshape as (ns & add & sg' & -> & Esg). cbn [du_signature]. rewrite Hsg in Esg. injection Esg as <-. exact Hsgb.
        + rewrite Hshape. exact I. }
    destruct (apply_tail_honest cr Hcrc Hhash32 Hnonblank Hhashbytes bs Hw f pf c d j ev H cs RC) as (c' & w' & Hrun & RC' & Hlen & Hk & Hstored).
    - unfold pf, vp_to_proof. cbn [p_fork]. rewrite Vf, HF, Wf. reflexivity.
    - exact V.
    - exact Hcm.
    - exact Hhon.
    - apply (Hfr vp Hc).
    - exists pf, cs, c', w'.
      split; [rewrite (writer_serves cr cw dw bw jw evw rq vp Ww Hc Bsh Hblt), Eval; reflexivity|].
      split; [exact V|]. split; [exact Hrun|].
      split; [destruct RC' as [X' Hc']; split; [apply (RDInv_ext cr bs c' (w_disk w') (hold H (p_block pf))); [intros i; symmetry; apply Hheld|exact X']|exact Hc']|].
      assert (El : t_length (c_tree c') = match rq_upgrade rq with Some _ => w | None => t_length (c_tree c) end).
      { rewrite Hlen. unfold outcome in Hout. destruct (rq_upgrade rq) as [u|].
        - destruct Hout as (U & _ & L & _). rewrite U, L. reflexivity.
        - destruct Hout as [U _]. rewrite U. reflexivity. }
      split; [exact El|]. split.
      { destruct RC' as [X' _]. apply (RDInv_RInv cr bs c' _ _ X'). }
      split; [exact Hk|]. split; [exact Hstored|].
      intros k Ek. unfold rq_node in Ek. unfold delivered in Hdel.
      destruct (rq_block rq) as [b|].
      + injection Ek as <-. specialize (Hstored _ Hdel). rewrite ref_node_index in Hstored.
        change (N.of_nat 0) with 0 in Hstored. rewrite ft_index_leaf in Hstored. exact Hstored.
      + destruct (rq_hash rq) as [h|]; [|discriminate Ek]. injection Ek as <-.
        specialize (Hstored _ Hdel). rewrite ref_at_index_id in Hstored. exact Hstored.
  Qed.
End Round.

Print Assumptions honest_round.

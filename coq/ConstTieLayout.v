(* ConstTieLayout.v — source-derived constants of the on-disk layout (pinned in props/C06.v). *)
From HC Require Import Base Codec CodecFacts Crypto Storage Bitfield Oplog Merkle OplogFacts SrcConsts ConstTie.
From Coq Require Import Lia.

Lemma tie_node_size : tied src_NODE_SIZE NODE_SIZE.                                   Proof. tie. Qed.
Lemma tie_max_entries : tied src_MAX_OPLOG_ENTRIES_BYTE_SIZE MAX_OPLOG_ENTRIES_BYTE_SIZE. Proof. tie. Qed.
Lemma tie_header_size : tied src_HEADER_SIZE HEADER_SIZE.                             Proof. tie. Qed.
(* the entries start after the two header slots *)
Lemma tie_entries_offset : tied (option_map (N.mul 2) src_HEADER_SIZE) ENTRIES_OFFSET. Proof. tie. Qed.
Lemma tie_initial_bits : tied src_INITIAL_HEADER_BITS [fst INITIAL_HEADER_BITS; snd INITIAL_HEADER_BITS]. Proof. tie. Qed.
Lemma tie_page_bytes : tied src_FIXED_BITFIELD_BYTES_LENGTH PAGE_BYTES.               Proof. tie. Qed.
Lemma tie_page_words : tied (option_map (N.mul 4) src_FIXED_BITFIELD_LENGTH) PAGE_BYTES. Proof. tie. Qed.
Lemma tie_default_ns : tied src_DEFAULT_NAMESPACE DEFAULT_NAMESPACE.                  Proof. tie. Qed.

(* leader = CRC field + length field: a frame is LEADER_SIZE bytes longer than its payload, the CRC field has CRC_SIZE bytes *)
Lemma tie_leader_size cr bit partial payload fr :
  frame cr bit partial payload = Ok fr ->
  tied src_LEADER_SIZE (len fr - len payload) /\ tied src_CRC_SIZE (len (le_bytes 4 (cr_crc cr []))).
Proof.
  intros H. apply frame_length in H. split.
  - replace (len fr - len payload) with 8 by lia. tie.
  - rewrite len_le_bytes. tie.
Qed.

Theorem source_layout_constants_are_the_models :
  tied src_NODE_SIZE NODE_SIZE /\ tied src_MAX_OPLOG_ENTRIES_BYTE_SIZE MAX_OPLOG_ENTRIES_BYTE_SIZE /\
  tied src_HEADER_SIZE HEADER_SIZE /\ tied (option_map (N.mul 2) src_HEADER_SIZE) ENTRIES_OFFSET /\
  tied src_INITIAL_HEADER_BITS [fst INITIAL_HEADER_BITS; snd INITIAL_HEADER_BITS] /\
  tied src_FIXED_BITFIELD_BYTES_LENGTH PAGE_BYTES /\ tied (option_map (N.mul 4) src_FIXED_BITFIELD_LENGTH) PAGE_BYTES /\
  tied src_DEFAULT_NAMESPACE DEFAULT_NAMESPACE /\
  (forall cr bit partial payload fr, frame cr bit partial payload = Ok fr ->
     tied src_LEADER_SIZE (len fr - len payload) /\ tied src_CRC_SIZE (len (le_bytes 4 (cr_crc cr [])))).
Proof.
  repeat split; try tie; intros; eapply tie_leader_size; eassumption.
Qed.
Print Assumptions source_layout_constants_are_the_models.

(* CrashClear1.v — C02 over all four stores for writers WITH clears, part 1: the crash-tolerant invariant
   and reopening.
   YDisk kp d bs cl : what a disk looks like after a crash at any point of an append, a clear or a flush of a
                      writer with block list bs and cleared set cl (before the next open);
   YInv c d bs cl   : memory c and disk d between two calls, tolerant of what crashes leave behind (junk after
                      the blocks in the data store or a data store that is too short, extra nodes in the tree
                      store, a bitfield store that is any mixture of the bitfield at the last header and later
                      ones).
   FInv -> YInv (the crash-free invariant of Unified1.v is the special case); YInv -> YDisk; YInv determines
   the observations (the list-with-cleared-set model); core_open from YDisk gives YInv for the same (bs, cl). *)
From HC Require Import Base NMap Codec CodecFacts Crypto FlatTree Storage Bitfield Oplog Merkle Core.
From HC Require Import FlatTreeFacts StorageFacts BitfieldFacts OplogFacts TreeRef OffsetFacts CoreFacts Crash Refine.
From HC Require Import ClearRefine Reopen ContigBridge Unified1 Unified2 CrashCore1.
From Coq Require Import FMapPositive ZifyN ZifyNat ZifyBool.
Ltac Zify.zify_post_hook ::= Z.div_mod_to_equations.
Arguments N.add : simpl never.
Arguments N.sub : simpl never.
Arguments N.mul : simpl never.
Arguments N.div : simpl never.
Arguments N.modulo : simpl never.
Arguments N.pow : simpl never.
Arguments N.eqb : simpl never.
Arguments N.ltb : simpl never.
Arguments N.leb : simpl never.
Arguments N.max : simpl never.
Arguments N.min : simpl never.
Arguments N.of_nat : simpl never.
Arguments N.to_nat : simpl never.

(* ====================================================================================== *)
(* A. Replaying bitfield updates, bit by bit                                               *)
(* ====================================================================================== *)

(* the effect of one update on the bit at index i *)
Definition ubit (u : bf_update) (i : N) (x : bool) : bool :=
  if (bu_start u <=? i) && (i <? bu_start u + bu_length u) then negb (bu_drop u) else x.

Lemma upds_fun_bit us : forall g i, upds_fun g us i = fold_left (fun x u => ubit u i x) us (g i).
Proof.
  induction us as [|u us IH]; intros g i; [reflexivity|].
  unfold upds_fun. cbn [fold_left]. fold (upds_fun (upd_fun g u) us). rewrite IH. reflexivity.
Qed.

(* the composite action of a list of updates on one bit is the identity or a constant *)
Lemma fold_ubit_shape us i :
  (forall x, fold_left (fun x u => ubit u i x) us x = x) \/
  (exists k, forall x, fold_left (fun x u => ubit u i x) us x = k).
Proof.
  induction us as [|u us IH].
  - left. reflexivity.
  - cbn [fold_left]. destruct IH as [Hid|(k & Hk)].
    + unfold ubit at 2 4. destruct ((bu_start u <=? i) && (i <? bu_start u + bu_length u)).
      * right. exists (negb (bu_drop u)). intros x. apply Hid.
      * left. intros x. apply Hid.
    + right. exists k. intros x. apply Hk.
Qed.

(* a bit that already has its old or its final value replays to the final value *)
Lemma upds_fun_mix g g' us i :
  g' i = g i \/ g' i = upds_fun g us i -> upds_fun g' us i = upds_fun g us i.
Proof.
  intros H. rewrite (upds_fun_bit us g'), (upds_fun_bit us g).
  destruct H as [->| ->]; [reflexivity|]. rewrite (upds_fun_bit us g).
  destruct (fold_ubit_shape us i) as [Hid|(k & Hk)]; [rewrite !Hid|rewrite !Hk]; reflexivity.
Qed.

Lemma upds_fun_nil g i : upds_fun g [] i = g i.
Proof. reflexivity. Qed.

Lemma bf_get_fold_fun us : forall b i, bf_get (fold_left bf_apply us b) i = upds_fun (bf_get b) us i.
Proof.
  induction us as [|u us IH]; intros b i; [reflexivity|].
  cbn [fold_left]. rewrite IH. unfold upds_fun at 2. cbn [fold_left]. fold (upds_fun (upd_fun (bf_get b) u) us).
  apply upds_fun_ext. intros j. apply bf_get_apply_fun.
Qed.

Lemma upd_fun_app g u i : upd_fun g u i = CR.app (upd_of u) g i.
Proof.
  unfold upd_fun, upd_of, CR.app.
  destruct (bu_drop u); cbn [negb];
    destruct ((bu_start u <=? i) && (i <? bu_start u + bu_length u)); cbn [negb].
  - rewrite andb_false_r. reflexivity.
  - rewrite andb_true_r. reflexivity.
  - rewrite orb_true_r. reflexivity.
  - rewrite orb_false_r. reflexivity.
Qed.

(* ContigBridge.replay_bf_list_pres with the shadow field a function: d = the field loaded from the store,
   B = the field at the last header (for which the header's hint is exact) *)
Lemma replay_bf_pres_fun us : forall d (B : N -> bool) c,
  drops_nonempty us -> CR.InvAB (bf_get d) B c ->
  CR.InvAB (bf_get (fst (fold_left replay_bf us (d, c)))) (upds_fun B us)
           (snd (fold_left replay_bf us (d, c))).
Proof.
  induction us as [|u us IH]; intros d B c Hne HI; [exact HI|].
  cbn [fold_left]. unfold upds_fun. cbn [fold_left]. fold (upds_fun (upd_fun B u) us).
  destruct (replay_bf (d, c) u) as [d1 c1] eqn:E.
  apply IH.
  - intros u' Hin. apply Hne. right. exact Hin.
  - unfold replay_bf in E. cbn [fst snd] in E. injection E as <- <-.
    apply (CR.step_pres_ext (bf_get d) B _ _ (upd_of u) c).
    + intros s e Hu. unfold upd_of in Hu. destruct (bu_drop u) eqn:Ed; [|discriminate].
      injection Hu as <- <-. pose proof (Hne u (or_introl eq_refl) Ed). lia.
    + intros i. apply bf_get_apply_app.
    + intros i. apply upd_fun_app.
    + exact HI.
    + apply update_contig_hint_step.
Qed.

Lemma fexact_InvAB (D B : N -> bool) c : fexact B c -> CR.InvAB D B c.
Proof. intros H. apply CR.exact_InvAB. exact H. Qed.

Lemma cdesc_update e : cdesc e -> exists u, e_bitfield e = Some u /\ bu_drop u = true /\ 0 < bu_length u.
Proof. intros (s & k & -> & Hk & _). eexists. split; [reflexivity|]. split; [reflexivity|exact Hk]. Qed.

Lemma gchain_drops cr bs l : forall a n, gchain cr bs a l n -> drops_nonempty (updates_of l).
Proof.
  induction l as [|e l IH]; intros a n C; cbn [gchain] in C.
  - intros u [].
  - change (e :: l) with ([e] ++ l). rewrite updates_of_app.
    intros u Hin Hd. apply in_app_or in Hin as [Hin|Hin].
    + destruct C as [(m & (_ & _ & Hbu & _) & _)|(He & _)].
      * rewrite (updates_of_single e _ Hbu) in Hin. destruct Hin as [<-|[]]. discriminate Hd.
      * destruct (cdesc_update e He) as (u0 & Hu0 & _ & Hpos).
        rewrite (updates_of_single e _ Hu0) in Hin. destruct Hin as [<-|[]]. exact Hpos.
    + destruct C as [(m & _ & C)|(_ & C)]; apply (IH _ _ C u Hin Hd).
Qed.

(* ====================================================================================== *)
(* B. The crash-tolerant clauses                                                           *)
(* ====================================================================================== *)

(* data store: every held non-empty block is readable at its place.  Nothing is said about the length of the
   store: a crashed append leaves junk after the blocks, a clear reaching the end truncates. *)
Definition DataY (f : file) (bs : list bytes) (cl : N -> bool) : Prop :=
  forall i, held (N.of_nat (length bs)) cl i = true -> 0 < len (nth (N.to_nat i) bs []) ->
    f_read f (prefix_size bs i) (len (nth (N.to_nat i) bs [])) = Some (nth (N.to_nat i) bs []).

(* bitfield store f, pending updates us (those of the oplog entries after the header on disk), c0 = the
   contiguous-length hint of that header.  Every bit of the store is decided correctly by replaying the
   pending updates; and there is a field B0 (the bitfield at the time the header was written) for which the
   hint is exact and which replays to the same result — so the store may be B0, the final field, or any
   bit-wise mixture of the fields in between. *)
Definition BfY (f : file) (us : list bf_update) (c0 : N) (n : N) (cl : N -> bool) : Prop :=
  f_len f mod PAGE_BYTES = 0 /\
  (forall i, upds_fun (fbit f) us i = held n cl i) /\
  exists B0 : N -> bool, fexact B0 c0 /\ forall i, upds_fun B0 us i = held n cl i.

Lemma DataY_cl_ext f bs cl cl' :
  (forall i, i < N.of_nat (length bs) -> cl' i = cl i) -> DataY f bs cl -> DataY f bs cl'.
Proof. intros E H i Hi. rewrite (held_ext _ cl cl' E) in Hi. apply H, Hi. Qed.

Lemma BfY_cl_ext f us c0 n cl cl' : (forall i, i < n -> cl' i = cl i) -> BfY f us c0 n cl -> BfY f us c0 n cl'.
Proof.
  intros E (H1 & H2 & B0 & H3 & H4). pose proof (held_ext n cl cl' E) as HE.
  split; [exact H1|]. split; [intros i; rewrite HE; apply H2|].
  exists B0. split; [exact H3|]. intros i. rewrite HE. apply H4.
Qed.

(* writing any pages of the memory bitfield (= the final field) keeps the store replayable *)
Lemma BfY_write_pages f (b : bitfield) ps us c0 n cl :
  BfY f us c0 n cl -> (forall i, bf_get b i = held n cl i) ->
  BfY (write_pages f (bf_bits b) ps) us c0 n cl.
Proof.
  intros (Hm & Hrep & HB) Hb. split; [apply len_write_pages, Hm|]. split; [|exact HB].
  intros i. rewrite <- (Hrep i). apply upds_fun_mix.
  destruct (fbit_write_pages (bf_bits b) ps f i) as [I1 I2].
  destruct (in_dec N.eq_dec (i / PAGE_BITS) ps) as [Hin|Hnin].
  - right. rewrite (I1 Hin), Hrep. apply Hb.
  - left. apply I2, Hnin.
Qed.

(* one more pending update *)
Lemma BfY_snoc f us u c0 n cl n' cl' :
  BfY f us c0 n cl -> (forall i, held n' cl' i = upd_fun (held n cl) u i) -> BfY f (us ++ [u]) c0 n' cl'.
Proof.
  intros (Hm & Hrep & B0 & Hex & HB) Hu. split; [exact Hm|]. split.
  - intros i. rewrite upds_fun_app. unfold upds_fun at 1. cbn [fold_left]. rewrite Hu. apply upd_fun_ext, Hrep.
  - exists B0. split; [exact Hex|].
    intros i. rewrite upds_fun_app. unfold upds_fun at 1. cbn [fold_left]. rewrite Hu. apply upd_fun_ext, HB.
Qed.

(* a store that holds exactly the current field, right after a flush *)
Lemma BfY_exact f n cl c0 :
  f_len f mod PAGE_BYTES = 0 -> (forall i, fbit f i = held n cl i) -> fexact (held n cl) c0 -> BfY f [] c0 n cl.
Proof.
  intros Hm Hf Hex. split; [exact Hm|]. split; [exact Hf|]. exists (held n cl). split; [exact Hex|reflexivity].
Qed.

(* ====================================================================================== *)
(* C. YDisk, YInv                                                                          *)
(* ====================================================================================== *)

Section Y.
  Variable cr : crypto.

  (* a disk as a crash may leave it (no memory): hf = the header on disk describing kf blocks,
     l = the entries logged since (appends and clears) *)
  Definition YDisk (kp : keypair) (d : disk) (bs : list bytes) (cl : N -> bool) : Prop :=
    let n := N.of_nat (length bs) in
    sumN (map len bs) <= u64_max /\ NODE_SIZE * (2 * n) <= u64_max /\
    DataY (d_data d) bs cl /\
    exists s0 s1 body st0 st1 bits hf l kf,
      f_content (d_oplog d) = s0 ++ s1 ++ body /\
      OplX cr s0 s1 body st0 st1 bits hf l /\
      hdr_desc' kp hf kf /\
      gchain cr bs kf l n /\
      lookups cr tE (d_tree d) bs kf /\
      BfY (d_bitfield d) (updates_of l) (hd_contig hf) n cl.

  (* the memory/tree/data part: ClearRefine.CInv without the bound on the length of the data store *)
  Definition YW (c : core) (d : disk) (bs : list bytes) (cl : N -> bool) : Prop :=
    let n := N.of_nat (length bs) in
    TInv cr (c_tree c) (d_tree d) bs /\
    (forall i, bf_get (c_bitfield c) i = held n cl i) /\
    exact_contig (c_bitfield c) (hd_contig (c_header c)) /\
    DataY (d_data d) bs cl.

  (* memory c and disk d between two calls *)
  Definition YInv (c : core) (d : disk) (bs : list bytes) (cl : N -> bool) : Prop :=
    let n := N.of_nat (length bs) in
    YW c d bs cl /\
    exists s0 s1 body st0 st1 hf l kf,
      f_content (d_oplog d) = s0 ++ s1 ++ body /\
      good cr s0 s1 body st0 st1 (ol_bits (c_oplog c)) hf l /\
      ol_entries_len (c_oplog c) = N.of_nat (length l) /\
      ol_entries_bytes (c_oplog c) = entries_size l /\
      hdr_desc' (c_keypair c) hf kf /\
      hdr_desc' (c_keypair c) (c_header c) n /\
      gchain cr bs kf l n /\
      lookups cr tE (d_tree d) bs kf /\
      BfY (d_bitfield d) (updates_of l) (hd_contig hf) n cl /\
      BfSync (d_bitfield d) (c_bitfield c).

  Lemma YInv_YW c d bs cl : YInv c d bs cl -> YW c d bs cl.
  Proof. intros [W _]. exact W. Qed.

  Lemma CInv_YW c d bs cl : CInv cr c d bs cl -> YW c d bs cl.
  Proof. intros (T & Hbf & Hcg & Hd & _). split; [exact T|]. split; [exact Hbf|]. split; [exact Hcg|exact Hd]. Qed.

  (* (1) the crash-free invariant is a special case *)
  Theorem FInv_YInv c d bs cl : FInv cr c d bs cl -> YInv c d bs cl.
  Proof.
    intros (W & s0 & s1 & body & st0 & st1 & hf & l & kf & Hcont & G & Hlen & Hbytes & Hhf & Hhc & Hch &
            Hstore & Hbm & Hbnd & Hbex & Hrep & Hdirty).
    pose proof W as (_ & Hbf & _).
    split; [apply CInv_YW, W|].
    exists s0, s1, body, st0, st1, hf, l, kf.
    repeat (split; [assumption|]).
    split.
    - split; [exact Hbm|]. split; [exact Hrep|]. exists (fbit (d_bitfield d)). split; [exact Hbex|exact Hrep].
    - intros i Hne. apply Hdirty. rewrite <- Hbf. exact Hne.
  Qed.

  (* the disk part alone *)
  Theorem YInv_YDisk c d bs cl : YInv c d bs cl -> YDisk (c_keypair c) d bs cl.
  Proof.
    intros (((HL & HB & HF & HR & Hlook & Hun & Hs & Hn) & Hbf & Hcg & Hd) &
            s0 & s1 & body & st0 & st1 & hf & l & kf & Hcont & G & Hlen & Hbytes & Hhf & Hhc & Hch &
            Hstore & Hby & Hsync).
    unfold YDisk. split; [exact Hs|]. split; [exact Hn|]. split; [exact Hd|].
    exists s0, s1, body, st0, st1, (ol_bits (c_oplog c)), hf, l, kf.
    split; [exact Hcont|]. split; [left; exact G|]. repeat (split; [assumption|]). exact Hby.
  Qed.

  (* only the values of cl below the length matter *)
  Lemma YW_cl_ext c d bs cl cl' :
    (forall i, i < N.of_nat (length bs) -> cl' i = cl i) -> YW c d bs cl -> YW c d bs cl'.
  Proof.
    intros E (T & Hbf & Hcg & Hd). pose proof (held_ext _ cl cl' E) as HE.
    split; [exact T|]. split; [intros i; rewrite HE; apply Hbf|]. split; [exact Hcg|].
    apply (DataY_cl_ext _ _ cl); assumption.
  Qed.

  Lemma YInv_cl_ext c d bs cl cl' :
    (forall i, i < N.of_nat (length bs) -> cl' i = cl i) -> YInv c d bs cl -> YInv c d bs cl'.
  Proof.
    intros E (W & s0 & s1 & body & st0 & st1 & hf & l & kf & H1 & H2 & H3 & H4 & H5 & H6 & H7 & H8 & H9 & H10).
    split; [apply (YW_cl_ext c d bs cl cl' E W)|].
    exists s0, s1, body, st0, st1, hf, l, kf. repeat (split; [assumption|]).
    split; [apply (BfY_cl_ext _ _ _ _ cl); assumption|exact H10].
  Qed.

  Lemma YDisk_cl_ext kp d bs cl cl' :
    (forall i, i < N.of_nat (length bs) -> cl' i = cl i) -> YDisk kp d bs cl -> YDisk kp d bs cl'.
  Proof.
    intros E (Hs & Hn & Hd & s0 & s1 & body & st0 & st1 & bits & hf & l & kf & H1 & H2 & H3 & H4 & H5 & H6).
    split; [exact Hs|]. split; [exact Hn|]. split; [apply (DataY_cl_ext _ _ cl); assumption|].
    exists s0, s1, body, st0, st1, bits, hf, l, kf. repeat (split; [assumption|]).
    apply (BfY_cl_ext _ _ _ _ cl); assumption.
  Qed.

  (* only the skip counter differs *)
  Lemma YInv_skip c d bs cl s :
    YInv c d bs cl ->
    YInv (mkCore (c_keypair c) (c_oplog c) (c_tree c) (c_bitfield c) (c_header c) s) d bs cl.
  Proof. intros X. exact X. Qed.

  (* only the data store differs *)
  Lemma YInv_data c d d' bs cl :
    YInv c d bs cl -> d_tree d' = d_tree d -> d_oplog d' = d_oplog d -> d_bitfield d' = d_bitfield d ->
    DataY (d_data d') bs cl -> YInv c d' bs cl.
  Proof.
    intros ((T & Hbf & Hcg & _) & D) Et Eo Eb Hd. unfold YInv, YW. rewrite Et, Eo, Eb.
    split; [|exact D]. split; [exact T|]. split; [exact Hbf|]. split; [exact Hcg|exact Hd].
  Qed.

  Lemma YDisk_data kp d d' bs cl :
    YDisk kp d bs cl -> d_tree d' = d_tree d -> d_oplog d' = d_oplog d -> d_bitfield d' = d_bitfield d ->
    DataY (d_data d') bs cl -> YDisk kp d' bs cl.
  Proof.
    intros (Hs & Hn & _ & R) Et Eo Eb Hd. unfold YDisk. rewrite Et, Eo, Eb.
    split; [exact Hs|]. split; [exact Hn|]. split; [exact Hd|exact R].
  Qed.

  (* ---------- (2) YInv determines the observations: the list-with-cleared-set model ---------- *)

  Hypothesis Hhash32 : forall x, length (cr_hash cr x) = 32%nat.
  Hypothesis Hnonblank : forall x, all_zero (cr_hash cr x) = false.

  Theorem Y_has c d bs cl i : YW c d bs cl -> core_has c i = held (N.of_nat (length bs)) cl i.
  Proof. intros (_ & Hbf & _). unfold core_has. apply Hbf. Qed.

  Lemma Y_contig c d bs cl : YW c d bs cl -> hd_contig (c_header c) = spec_contig bs cl.
  Proof.
    intros (T & Hbf & Hcg & Hd).
    apply (exact_contig_unique (c_bitfield c)); [exact Hcg|].
    destruct (spec_contig_held bs cl) as (_ & H1 & H2).
    split; [intros i Hi; rewrite Hbf; apply H1, Hi|rewrite Hbf; exact H2].
  Qed.

  Theorem Y_info c d bs cl :
    YW c d bs cl ->
    core_info c = mkInfo (N.of_nat (length bs)) (sumN (map len bs)) (spec_contig bs cl) 0
                         (match kp_secret (c_keypair c) with Some _ => true | None => false end).
  Proof.
    intros W. pose proof (Y_contig c d bs cl W) as Hc. destruct W as ((HL & HB & HF & _) & _).
    unfold core_info. rewrite HL, HB, HF, Hc. reflexivity.
  Qed.

  Theorem Y_get c d bs cl j ev i :
    YW c d bs cl ->
    core_get i c (mkWorld d j ev) =
    if held (N.of_nat (length bs)) cl i
    then (c, mkWorld d j ev, Ok (Some (nth (N.to_nat i) bs [])))
    else (c, mkWorld d j (EvGet i :: ev), Ok None).
  Proof.
    intros (T & Hbf & Hcg & Hd).
    unfold core_get. rewrite mbind_get_core, Hbf.
    destruct (held (N.of_nat (length bs)) cl i) eqn:Eh; cbn [negb].
    - assert (L : i < N.of_nat (length bs)) by (apply (held_lt _ _ _ Eh)).
      rewrite mbind_get_disk. cbn [w_disk]. rewrite mbind_lift, (byte_range_tinv cr _ _ bs i T L).
      destruct (N.eqb_spec (len (nth (N.to_nat i) bs [])) 0) as [E|E].
      + apply len_zero_nil in E. rewrite E. reflexivity.
      + rewrite (Hd i Eh) by lia. reflexivity.
    - reflexivity.
  Qed.

  (* all observations at once, as a predicate on (c, d) and the model (bs, cl) *)
  Definition obs_cleared (c : core) (d : disk) (bs : list bytes) (cl : N -> bool) : Prop :=
    let n := N.of_nat (length bs) in
    core_info c = mkInfo n (sumN (map len bs)) (spec_contig bs cl) 0
                         (match kp_secret (c_keypair c) with Some _ => true | None => false end) /\
    (forall i, core_has c i = held n cl i) /\
    (forall i j ev, core_get i c (mkWorld d j ev) =
                    if held n cl i
                    then (c, mkWorld d j ev, Ok (Some (nth (N.to_nat i) bs [])))
                    else (c, mkWorld d j (EvGet i :: ev), Ok None)).

  Theorem YInv_observations c d bs cl : YInv c d bs cl -> obs_cleared c d bs cl.
  Proof.
    intros [W _]. split; [apply (Y_info c d bs cl W)|]. split.
    - intros i. apply (Y_has c d bs cl i W).
    - intros i j ev. apply (Y_get c d bs cl j ev i W).
  Qed.
End Y.

(* ====================================================================================== *)
(* D. Replay of append and clear entries over a disk left by a crash                       *)
(* ====================================================================================== *)

Lemma set_contig_twice h x y : set_contig (set_contig h x) y = set_contig h y.
Proof. reflexivity. Qed.

Lemma set_contig_back h x : set_contig (set_contig h x) (hd_contig h) = h.
Proof. destruct h; reflexivity. Qed.

Section ReplayY.
  Variable cr : crypto.
  Hypothesis Hhash32 : forall x, length (cr_hash cr x) = 32%nat.
  Hypothesis Hnonblank : forall x, all_zero (cr_hash cr x) = false.
  Hypothesis Hhashbytes : forall x, bytes_ok (cr_hash cr x) = true.

  (* the tree/header part (CrashCore1.RInvT: nothing is said about the bitfield and the hint) is untouched by a
     clear entry *)
  Lemma replay_clear_okT bs tf kp t b h e a :
    RInvT cr bs tf kp (t, b, h) a -> cdesc e ->
    exists b' h', replay_entry cr tf (t, b, h) e = Ok (t, b', h') /\ RInvT cr bs tf kp (t, b', h') a.
  Proof.
    intros (HL & HB & HF & HR & Hlook & Hun & Hh) (s & k & -> & _).
    unfold replay_entry. cbn [e_nodes e_bitfield e_upgrade fold_left].
    do 2 eexists. split; [reflexivity|].
    unfold RInvT. repeat (split; [assumption|]). rewrite set_contig_twice. exact Hh.
  Qed.

  Lemma replay_entries_okY bs tf kp (l : list entry) : forall t b h a n,
    sumN (map len bs) <= u64_max -> n <= u64_max ->
    RInvT cr bs tf kp (t, b, h) a -> gchain cr bs a l n ->
    exists t' b' h', replay_entries cr tf (t, b, h) l = Ok (t', b', h') /\ RInvT cr bs tf kp (t', b', h') n.
  Proof.
    induction l as [|e l IH]; intros t b h a n Hfit Hn R C; cbn [gchain replay_entries] in *.
    - subst. do 3 eexists. split; [reflexivity|exact R].
    - destruct C as [(m & He & C)|(He & C)]; pose proof (gchain_le _ _ _ _ _ C) as Le.
      + destruct (replay_entry_okT cr Hhash32 Hnonblank Hhashbytes bs tf kp t b h e a m Hfit ltac:(lia) R He)
          as (t1 & b1 & h1 & E1 & R1).
        rewrite E1. cbn [bind]. apply (IH t1 b1 h1 m n Hfit Hn R1 C).
      + destruct (replay_clear_okT bs tf kp t b h e a R He) as (b1 & h1 & E1 & R1).
        rewrite E1. cbn [bind]. apply (IH t b1 h1 a n Hfit Hn R1 C).
  Qed.

  (* the bitfield part: the store d satisfies BfY; the replay gives exactly the held field and its exact hint *)
  Lemma replay_bitfield_Y tf l t (f : file) h t' b' h' n cl :
    replay_entries cr tf (t, bf_open f, h) l = Ok (t', b', h') ->
    drops_nonempty (updates_of l) ->
    BfY f (updates_of l) (hd_contig h) n cl ->
    (forall i, bf_get b' i = held n cl i) /\ exact_contig b' (hd_contig h') /\
    b' = fold_left bf_apply (updates_of l) (bf_open f).
  Proof.
    intros Hr Hne (Hm & Hrep & B0 & Hex & HB).
    apply replay_entries_bf in Hr.
    assert (Eb : b' = fold_left bf_apply (updates_of l) (bf_open f)).
    { rewrite <- (fst_replay_bf (updates_of l) (bf_open f) (hd_contig h)), <- Hr. reflexivity. }
    assert (G : forall i, bf_get b' i = held n cl i).
    { intros i. rewrite Eb, bf_get_fold_fun, <- Hrep. apply upds_fun_ext. intros j. apply bf_open_get, Hm. }
    split; [exact G|]. split; [|exact Eb].
    pose proof (replay_bf_pres_fun (updates_of l) (bf_open f) B0 (hd_contig h) Hne
                  (fexact_InvAB _ _ _ Hex)) as HI.
    rewrite <- Hr in HI. cbn [fst snd] in HI.
    apply exact_contig_fexact. apply (fexact_ext (upds_fun B0 (updates_of l))).
    - intros i. rewrite G. apply HB.
    - apply (CR.InvAB_same_exact (bf_get b')); [|exact HI]. intros i. rewrite G. symmetry. apply HB.
  Qed.
End ReplayY.

(* ====================================================================================== *)
(* E. (2) core_open from a crash disk                                                      *)
(* ====================================================================================== *)

Section ReopenY.
  Variable cr : crypto.
  Hypothesis Hcrc : crc_ok cr.
  Hypothesis Hhash32 : forall x, length (cr_hash cr x) = 32%nat.
  Hypothesis Hnonblank : forall x, all_zero (cr_hash cr x) = false.
  Hypothesis Hhashbytes : forall x, bytes_ok (cr_hash cr x) = true.

  Lemma open_tail_Y kp d bs cl s0 s1 body st0 st1 bits hf l kf ops :
    let n := N.of_nat (length bs) in
    sumN (map len bs) <= u64_max -> NODE_SIZE * (2 * n) <= u64_max ->
    DataY (d_data d) bs cl ->
    f_content (d_oplog d) = s0 ++ s1 ++ body ->
    good cr s0 s1 body st0 st1 bits hf l ->
    hdr_desc' kp hf kf -> gchain cr bs kf l n ->
    lookups cr tE (d_tree d) bs kf -> BfY (d_bitfield d) (updates_of l) (hd_contig hf) n cl ->
    exists c', open_tail cr d (mkOpenOutcome (mkOplog bits (N.of_nat (length l)) (entries_size l)) hf ops l) = Ok c' /\
               YInv cr c' d bs cl /\ c_keypair c' = kp /\ c_skip c' = 0.
  Proof.
    intros n Hs Hn Hd Hcont G Hhf Hch Hstore Hby.
    unfold open_tail. cbn [oo_header oo_entries oo_oplog].
    pose proof Hhf as (Hok & Hkp & Hfk & Hln & Hrh & Hsg).
    pose proof (gchain_le cr bs l kf n Hch) as Hle.
    assert (Hn64 : n <= u64_max) by (unfold NODE_SIZE in Hn; lia).
    destruct (tree_open_ref cr Hnonblank bs (d_tree d) (hd_tree hf) kf Hstore Hln Hsg) as [sg0 Hto].
    rewrite Hto. cbn [bind]. rewrite Hfk.
    set (t0 := mkTree (ref_roots cr bs kf) kf (prefix_size bs kf) 0 sg0 nm_empty).
    assert (R0 : RInvT cr bs (d_tree d) kp (t0, bf_open (d_bitfield d), hf) kf).
    { unfold RInvT, t0. cbn [t_length t_byte_length t_fork t_roots].
      split; [reflexivity|]. split; [reflexivity|]. split; [reflexivity|]. split; [reflexivity|].
      split. { intros dd o Hfull. rewrite <- (Hstore dd o Hfull). apply required_node_same_unflushed. reflexivity. }
      split. { intros i x H. cbn [t_unflushed] in H. rewrite nm_get_empty in H. discriminate H. }
      unfold hdr_desc. split; [apply header_ok_set_contig; [exact Hok|lia]|].
      cbn [set_contig hd_keypair hd_tree hd_contig]. repeat split; assumption. }
    destruct (replay_entries_okY cr Hhash32 Hnonblank Hhashbytes bs (d_tree d) kp l
                t0 (bf_open (d_bitfield d)) hf kf n Hs Hn64 R0 Hch) as (t' & b' & h' & Hrepl & R').
    rewrite Hrepl. cbn [bind].
    destruct R' as (HL' & HB' & HF' & HR' & Hlook' & Hun' & Hh').
    destruct (replay_bitfield_Y cr (d_tree d) l t0 (d_bitfield d) hf t' b' h' n cl Hrepl
                (gchain_drops cr bs l kf n Hch) Hby) as (Hbf' & Hex' & Eb').
    assert (Hcg' : hd_contig h' <= n).
    { apply (fexact_le (bf_get b')); [|apply exact_contig_fexact, Hex'].
      intros i Hi. rewrite Hbf' in Hi. apply (held_lt _ _ _ Hi). }
    assert (Hd' : hdr_desc' kp h' n).
    { destruct Hh' as (Hok' & Hkp' & Hfk' & Hln' & _ & Hrh' & Hsg').
      cbn [set_contig hd_keypair hd_tree] in Hkp', Hfk', Hln', Hrh', Hsg'.
      split; [|repeat split; assumption].
      rewrite <- (set_contig_back h' n). apply header_ok_set_contig; [exact Hok'|lia]. }
    pose proof Hd' as (_ & Hkp'' & _).
    eexists. split; [reflexivity|].
    split; [|split; [exact Hkp''|reflexivity]].
    destruct Hby as (Hpages & Hby').
    split.
    { unfold YW, TInv. cbv zeta. cbn [c_tree c_bitfield c_header]. fold n.
      split.
      { split; [exact HL'|]. split; [rewrite HB'; unfold n; apply prefix_size_all|].
        split; [exact HF'|]. split; [exact HR'|]. split; [exact Hlook'|]. split; [exact Hun'|].
        split; [exact Hs|exact Hn]. }
      split; [exact Hbf'|]. split; [exact Hex'|exact Hd]. }
    cbn [c_oplog c_keypair c_header c_bitfield ol_bits ol_entries_len ol_entries_bytes].
    fold n. rewrite Hkp''.
    exists s0, s1, body, st0, st1, hf, l, kf.
    split; [exact Hcont|]. split; [exact G|]. split; [reflexivity|]. split; [reflexivity|].
    split; [exact Hhf|]. split; [exact Hd'|]. split; [exact Hch|].
    split; [exact Hstore|]. split; [split; assumption|].
    rewrite Eb'. apply BfSync_fold, BfSync_open, Hpages.
  Qed.

  (* (2) reopening a crash disk: success, YInv for the same blocks and the same cleared set; only the oplog
     store may change (the truncate that removes the stale entries after a header write) *)
  Theorem reopen_Y kp d bs cl :
    YDisk cr kp d bs cl ->
    exists c' d' ops, core_open cr None true d = (d', ops, Ok c') /\
      YInv cr c' d' bs cl /\ c_keypair c' = kp /\ c_skip c' = 0 /\
      d_tree d' = d_tree d /\ d_data d' = d_data d /\ d_bitfield d' = d_bitfield d /\
      (ops = [] /\ d' = d \/ ops = [ST Oplog ENTRIES_OFFSET]).
  Proof.
    intros (Hs & Hn & Hd & s0 & s1 & body & st0 & st1 & bits & hf & l & kf & Hcont & HO & Hhf & Hch & Hstore & Hby).
    destruct (OplX_open cr Hcrc Hhash32 Hnonblank Hhashbytes s0 s1 body st0 st1 bits hf l HO)
      as (ops & Hopen & [(-> & G)|(-> & L0 & L1 & G)]).
    - rewrite <- Hcont in Hopen.
      rewrite (core_open_eq cr d _ d Hopen eq_refl). cbn [oo_ops].
      destruct (open_tail_Y kp d bs cl s0 s1 body st0 st1 bits hf l kf [] Hs Hn Hd Hcont G Hhf Hch Hstore Hby)
        as (c' & E & X & K & Sk).
      exists c', d, []. split; [rewrite E; reflexivity|].
      repeat (split; [assumption || reflexivity|]). left. split; reflexivity.
    - rewrite <- Hcont in Hopen.
      set (d' := d_set d Oplog (f_truncate (d_oplog d) ENTRIES_OFFSET)).
      assert (Ha : apply_sops d [ST Oplog ENTRIES_OFFSET] = Some d') by reflexivity.
      rewrite (core_open_eq cr d _ d' Hopen Ha). cbn [oo_ops].
      assert (Hcont' : f_content (d_oplog d') = s0 ++ s1 ++ []).
      { unfold d'. destruct d as [ft fd fb fo]. cbn [d_set d_oplog] in *.
        rewrite f_content_truncate, Hcont. apply c_truncate_all_entries; assumption. }
      assert (Et : d_tree d' = d_tree d) by (destruct d; reflexivity).
      assert (Ed : d_data d' = d_data d) by (destruct d; reflexivity).
      assert (Eb : d_bitfield d' = d_bitfield d) by (destruct d; reflexivity).
      destruct (open_tail_Y kp d' bs cl s0 s1 [] st0 st1 bits hf l kf [ST Oplog ENTRIES_OFFSET] Hs Hn)
        as (c' & E & X & K & Sk); try assumption; try (rewrite ?Ed, ?Et, ?Eb; assumption).
      exists c', d', [ST Oplog ENTRIES_OFFSET]. split; [rewrite E; reflexivity|].
      repeat (split; [assumption|]). right. reflexivity.
  Qed.

  (* reopening a running state: nothing to repair, the disk is untouched *)
  Corollary reopen_YInv c d bs cl :
    YInv cr c d bs cl ->
    exists c', core_open cr None true d = (d, [], Ok c') /\
      YInv cr c' d bs cl /\ c_keypair c' = c_keypair c /\ c_skip c' = 0.
  Proof.
    intros X.
    pose proof X as (_ & s0 & s1 & body & st0 & st1 & hf & l & kf & Hcont & G & _).
    destruct (reopen_Y (c_keypair c) d bs cl (YInv_YDisk cr c d bs cl X))
      as (c' & d' & ops & E & X' & K & Sk & _ & _ & _ & [(-> & ->) | -> ]).
    - exists c'. split; [exact E|]. split; [exact X'|]. split; [exact K|exact Sk].
    - exfalso. unfold core_open in E. cbv iota in E. rewrite Hcont in E.
      rewrite (good_open cr Hcrc _ _ _ _ _ _ _ _ G) in E. cbn [stable_result oo_ops apply_sops] in E.
      injection E as _ E _. discriminate E.
  Qed.

  (* with the observations spelled out *)
  Corollary reopen_Y_observations kp d bs cl :
    YDisk cr kp d bs cl ->
    exists c' d' ops, core_open cr None true d = (d', ops, Ok c') /\ obs_cleared c' d' bs cl /\ c_keypair c' = kp.
  Proof.
    intros XD. destruct (reopen_Y kp d bs cl XD) as (c' & d' & ops & E & X & K & _).
    exists c', d', ops. split; [exact E|]. split; [|exact K].
    apply (YInv_observations cr c' d' bs cl X).
  Qed.
End ReopenY.

(* ====================================================================================== *)
(* F. The append-only crash invariants of CrashCore1.v are the special case cl = nothing   *)
(* ====================================================================================== *)

Section FromX.
  Variable cr : crypto.

  Lemma held_nothing n i : held n (fun _ => false) i = (i <? n).
  Proof. unfold held. cbn [negb]. apply andb_true_r. Qed.

  Lemma DataY_of_prefix f bs junk : f_content f = concat bs ++ junk -> DataY f bs (fun _ => false).
  Proof.
    intros Hd i Hi _. rewrite held_nothing in Hi.
    replace (prefix_size bs i) with (prefix_size bs (N.of_nat (N.to_nat i))) by (f_equal; lia).
    apply (data_read_junk f bs junk (N.to_nat i) Hd). lia.
  Qed.

  (* a bitfield store with all bits below kf, none at or above n, anything in between *)
  Lemma BfX_BfY f bs l kf n :
    BfX f kf n -> echain cr bs kf l n -> BfY f (updates_of l) kf n (fun _ => false).
  Proof.
    intros (Hm & Hlo & Hhi) Hch. pose proof (echain_le cr bs l kf n Hch) as Hle.
    assert (Hfin : forall i, upds_fun (fun j => j <? kf) (updates_of l) i = held n (fun _ => false) i).
    { intros i. rewrite held_nothing. apply (Unified1.echain_updates cr bs l kf n i Hch). }
    split; [exact Hm|]. split.
    - intros i. rewrite <- Hfin. apply upds_fun_mix. rewrite Hfin, held_nothing.
      destruct (N.lt_ge_cases i kf) as [A|A]; [left; rewrite Hlo by exact A; lia|].
      destruct (N.lt_ge_cases i n) as [B|B].
      + destruct (fbit f i); [right|left]; lia.
      + left. rewrite Hhi by exact B. lia.
    - exists (fun j => j <? kf). split; [|exact Hfin]. split; [intros i Hi; lia|lia].
  Qed.

  Theorem XDisk_YDisk kp d bs : XDisk cr kp d bs -> YDisk cr kp d bs (fun _ => false).
  Proof.
    intros (Hs & Hn & (junk & Hd) & s0 & s1 & body & st0 & st1 & bits & hf & l & kf & Hcont & HO & Hhf & Hch &
            Hstore & Hbx).
    split; [exact Hs|]. split; [exact Hn|]. split; [apply (DataY_of_prefix _ _ junk Hd)|].
    exists s0, s1, body, st0, st1, bits, hf, l, kf.
    split; [exact Hcont|]. split; [exact HO|]. split; [apply hdr_desc_desc', Hhf|].
    split; [apply echain_gchain, Hch|]. split; [exact Hstore|].
    destruct Hhf as (_ & _ & _ & _ & -> & _). apply (BfX_BfY _ bs); assumption.
  Qed.

  Theorem XInv_YInv c d bs : XInv cr c d bs -> YInv cr c d bs (fun _ => false).
  Proof.
    intros ((HL & HB & HF & HR & Hlook & Hun & Hbf & Hcg & (junk & Hd) & Hs & Hn) &
            s0 & s1 & body & st0 & st1 & hf & l & kf & Hcont & G & Hlen & Hbytes & Hhf & Hhc & Hch &
            Hstore & Hbx & Hsync).
    split.
    - split.
      { split; [exact HL|]. split; [exact HB|]. split; [exact HF|]. split; [exact HR|]. split; [exact Hlook|].
        split; [exact Hun|]. split; [exact Hs|exact Hn]. }
      split; [intros i; rewrite held_nothing; apply Hbf|].
      split; [rewrite Hcg; split; [intros i Hi; rewrite Hbf; lia|rewrite Hbf; lia]|].
      apply (DataY_of_prefix _ _ junk Hd).
    - exists s0, s1, body, st0, st1, hf, l, kf.
      split; [exact Hcont|]. split; [exact G|]. split; [exact Hlen|]. split; [exact Hbytes|].
      split; [apply hdr_desc_desc', Hhf|]. split; [apply hdr_desc_desc', Hhc|].
      split; [apply echain_gchain, Hch|]. split; [exact Hstore|].
      split; [|exact Hsync].
      destruct Hhf as (_ & _ & _ & _ & -> & _). apply (BfX_BfY _ bs); assumption.
  Qed.
End FromX.

Print Assumptions upds_fun_mix.
Print Assumptions replay_bf_pres_fun.
Print Assumptions FInv_YInv.
Print Assumptions YInv_YDisk.
Print Assumptions YInv_cl_ext.
Print Assumptions YDisk_cl_ext.
Print Assumptions Y_has.
Print Assumptions Y_info.
Print Assumptions Y_get.
Print Assumptions YInv_observations.
Print Assumptions replay_entries_okY.
Print Assumptions replay_bitfield_Y.
Print Assumptions open_tail_Y.
Print Assumptions reopen_Y.
Print Assumptions reopen_YInv.
Print Assumptions reopen_Y_observations.
Print Assumptions XDisk_YDisk.
Print Assumptions XInv_YInv.

(* ReplicaMiscA.v -- corollary package A (property C14 on replicas, WITH reopen):
   the hypotheses that ReplicaCorC.replica_cache_transparent leaves open at the reopen steps of a replica
   history (ReplicaCorC.reopen_hyps: CacheOps.open_vm for the disk at that point, RInv and the same public key
   for the reopened core) are consequences of the replica DISK invariant of ReplicaDisk1-3:
     open_vm_RDisk   : every replica disk (RDisk: also what a crash leaves) satisfies CacheOps.open_vm --
                       the roots Hypercore::new caches are non-blank records of the tree store, and every
                       tree_add_node of the replay keeps visible nodes as they are (the replayed nodes and the
                       visible nodes are both the writer's nodes);
     open_vm_RDInv   : the same from the invariant between two calls;
     replica_reopen_hyps_RDInv : reopen_hyps along every replica history from an RDInv state;
     replica_cache_transparent_reopen : for replica histories over {apply (any outcome), get, has, info,
                       create_proof, missing_nodes, REOPEN} from an RDInv state, every eviction schedule and every
                       valid initial cache: cached run = uncached run, or collision / foreign signature. *)
From HC Require Import Base NMap Codec CodecFacts Crypto FlatTree Storage Bitfield Oplog Merkle Core.
From HC Require Import FlatTreeFacts StorageFacts BitfieldFacts OplogFacts TreeRef OffsetFacts CoreFacts Crash Refine.
From HC Require Import ClearRefine Reopen ContigBridge Unified1 Unified2 CrashCore1 CrashClear1.
From HC Require Import Sound NoPanic Replicate SoundCoreLib SoundCore SoundCoreUp SoundCoreBU.
From HC Require Import NoPanic2 EventsAvail Cache CacheModel CacheOps ReplicaCor ReplicaCorA ReplicaCorC.
From HC Require Import ReplicaDisk1 ReplicaDisk2 ReplicaDisk3.
From Coq Require Import FMapPositive ZifyN ZifyNat ZifyBool.
Ltac Zify.zify_post_hook ::= Z.div_mod_to_equations.
Arguments N.add : simpl never.
Arguments N.sub : simpl never.
Arguments N.mul : simpl never.
Arguments N.div : simpl never.
Arguments N.modulo : simpl never.
Arguments N.pow : simpl never.
Arguments N.eqb : simpl never.
Arguments N.ltb : simpl never.
Arguments N.leb : simpl never.
Arguments N.max : simpl never.
Arguments N.min : simpl never.
Arguments N.of_nat : simpl never.
Arguments N.to_nat : simpl never.

(* ====================================================================================== *)
(* 1. Adding the writer's nodes keeps visible nodes as they are                              *)
(* ====================================================================================== *)

Section AddAuthentic.
  Variable cr : crypto.
  Hypothesis Hnonblank : forall x, all_zero (cr_hash cr x) = false.
  Variable bs : list bytes.

  (* a list of nodes of the writer's tree over R leaves *)
  Definition auth_nodes (R : N) (U : list node) : Prop := forall x, In x U -> authentic cr bs R x.

  Lemma auth_nodes_app R U V : auth_nodes R U -> auth_nodes R V -> auth_nodes R (U ++ V).
  Proof. intros A B x Hx. apply in_app_or in Hx as [Hx|Hx]; [apply A, Hx|apply B, Hx]. Qed.

  Lemma auth_nodes_mono R R' U : R <= R' -> auth_nodes R U -> auth_nodes R' U.
  Proof. intros L A x Hx. destruct (A x Hx) as [E I]. split; [exact E|]. eapply in_len_mono; eassumption. Qed.

  Lemma unfl_sound_of_auth R (t : mtree) U :
    t_unflushed t = add_nodes nm_empty U -> auth_nodes R U -> unfl_sound cr bs t R.
  Proof.
    intros E A.
    apply (add_nodes_sound cr bs (mkTree [] 0 0 0 None nm_empty) t R U); [|exact A|exact E].
    intros j nd G. cbn [t_unflushed] in G. rewrite nm_get_empty in G. discriminate G.
  Qed.

  (* the tree_add_node's of one replayed entry *)
  Lemma vmono_add_authentic t tf R ns :
    unfl_sound cr bs t R -> file_sound cr bs tf R -> auth_nodes R ns ->
    vmono t tf (fold_left tree_add_node ns t) tf.
  Proof.
    intros Hu Hf Ha i am n G.
    destruct (node_get_sound cr bs t tf R i am n Hu Hf G) as [En _].
    rewrite fold_add_node. unfold node_get in *.
    cbn [t_unflushed].
    destruct (add_nodes_get ns (t_unflushed t) i) as [(x & Hin & Hi & Hg)|[_ Hg]]; rewrite Hg.
    - destruct (Ha x Hin) as [Ex _]. rewrite Hi in Ex. rewrite Ex, En.
      rewrite (ref_at_nonblank cr Hnonblank bs i). reflexivity.
    - exact G.
  Qed.
End AddAuthentic.

(* ====================================================================================== *)
(* 2. The replay of the entries of a replica disk keeps nodes immutable                      *)
(* ====================================================================================== *)

Section ReplayVm.
  Variable cr : crypto.
  Hypothesis Hnonblank : forall x, all_zero (cr_hash cr x) = false.
  Variable bs : list bytes.

  (* all the nodes of a chain of entries are the writer's nodes, inside the tree of the final length *)
  Lemma rchain_auth pk tf l : forall U a n,
    rchain cr bs pk tf U a l n -> auth_nodes cr bs n (flat_map e_nodes l).
  Proof.
    induction l as [|e l IH]; intros U a n C; cbn [rchain flat_map] in *.
    - intros x [].
    - destruct C as (m & (_ & _ & Hauth & _) & C).
      destruct (rchain_le cr bs pk tf l _ _ _ C) as [Lmn _].
      apply auth_nodes_app; [|apply (IH _ _ _ C)].
      apply (auth_nodes_mono cr bs m n _ Lmn). intros x Hx. rewrite Forall_forall in Hauth. apply Hauth, Hx.
  Qed.

  Lemma replay_vm_rchain pk tf (l : list entry) : forall U a n R b h,
    ht_fork (hd_tree h) = 0 ->
    rchain cr bs pk tf U a l n -> n <= R ->
    auth_nodes cr bs R U -> file_sound cr bs tf R ->
    replay_vm cr tf (rtree cr bs a (sig_of (hd_tree h)) U, b, h) l.
  Proof.
    induction l as [|e l IH]; intros U a n R b h Hfk C LnR HU Hf; cbn [replay_vm]; [exact I|].
    pose proof C as C0. cbn [rchain] in C. destruct C as (m & He & C).
    destruct (rchain_le cr bs pk tf l _ _ _ C) as [Lmn _].
    assert (He_auth : auth_nodes cr bs R (e_nodes e)).
    { destruct He as (_ & _ & Hauth & _). apply (auth_nodes_mono cr bs m R); [lia|].
      intros x Hx. rewrite Forall_forall in Hauth. apply Hauth, Hx. }
    cbn [fst]. split.
    - apply (vmono_add_authentic cr Hnonblank bs _ tf R (e_nodes e)); [|exact Hf|exact He_auth].
      apply (unfl_sound_of_auth cr bs R _ U); [reflexivity|exact HU].
    - destruct (replay_rdesc cr Hnonblank bs pk tf U a e m b h Hfk He) as (b1 & cg1 & E1). rewrite E1.
      set (h1 := set_contig (set_tree h (ht_step cr bs (hd_tree h) e)) cg1).
      assert (Hfk1 : ht_fork (hd_tree h1) = 0).
      { unfold h1. cbn [set_contig set_tree hd_tree]. unfold ht_step.
        destruct (e_upgrade e); [cbn [ht_fork]|]; exact Hfk. }
      change (ht_step cr bs (hd_tree h) e) with (hd_tree h1).
      apply (IH (U ++ e_nodes e) m n R b1 h1 Hfk1 C LnR); [|exact Hf].
      apply auth_nodes_app; assumption.
  Qed.
End ReplayVm.

(* ====================================================================================== *)
(* 3. open_vm from the replica disk invariant                                               *)
(* ====================================================================================== *)

Section OpenVm.
  Variable cr : crypto.
  Hypothesis Hcrc : crc_ok cr.
  Hypothesis Hhash32 : forall x, length (cr_hash cr x) = 32%nat.
  Hypothesis Hnonblank : forall x, all_zero (cr_hash cr x) = false.
  Hypothesis Hhashbytes : forall x, bytes_ok (cr_hash cr x) = true.
  Variable bs : list bytes.
  Hypothesis Hw : writer_fits bs.

  (* the roots that the open inserts into the cache are what the uncached lookup finds *)
  Lemma open_roots_cached tf kf fk sg :
    store_roots cr bs tf kf -> kf <= N.of_nat (length bs) ->
    cache_ok (add_nodes nm_empty (ref_roots cr bs kf))
             (mkTree (ref_roots cr bs kf) kf (prefix_size bs kf) fk sg nm_empty) tf.
  Proof.
    intros Hst Hkf i n G am.
    apply add_nodes_empty_get in G. destruct G as [Hin Hi].
    destruct (Hst n Hin) as (data & Rd & Rn). rewrite Hi in Rd, Rn.
    assert (Hlt : i < 2 * kf).
    { apply (full_roots_lt kf i). rewrite <- (ref_roots_indices cr bs kf). rewrite <- Hi. apply in_map, Hin. }
    assert (Hnb : node_blank n = false).
    { rewrite (in_ref_roots cr bs n kf Hin). apply (ref_at_nonblank cr Hnonblank bs). }
    unfold node_get. cbn [t_unflushed]. rewrite nm_get_empty.
    unfold mul64.
    assert (Hfit : fits_u64 (NODE_SIZE * i) = true).
    { apply fits_u64_intro. destruct Hw as [_ H2]. unfold NODE_SIZE in *. lia. }
    rewrite Hfit. cbn [bind]. rewrite Rd. cbv zeta. rewrite Rn, Hnb. reflexivity.
  Qed.

  Lemma open_vm_parts pk d H r bits hf l kf ops :
    hdr_rep cr bs pk hf kf -> rchain cr bs pk (d_tree d) [] kf l r ->
    store_roots cr bs (d_tree d) kf ->
    RTree cr bs (rtree cr bs r None (flat_map e_nodes l)) (d_tree d) (d_data d) H ->
    oplog_open cr None (f_content (d_oplog d)) =
      Ok (mkOpenOutcome (mkOplog bits (N.of_nat (length l)) (entries_size l)) hf ops l) ->
    forall d', apply_sops d ops = Some d' -> d_tree d' = d_tree d -> d_bitfield d' = d_bitfield d ->
    open_vm cr None true d.
  Proof.
    intros Hhf Hch Hst HT Hopen d' Ha Et Eb.
    pose proof Hhf as (Hok & Hkp & Hfk & Hln & Hkfn & Hcase).
    unfold open_vm. rewrite Hopen. cbn [oo_ops oo_header oo_entries]. rewrite Ha, Et, Eb.
    assert (Hsg : ht_signature (hd_tree hf) = [] \/ length (ht_signature (hd_tree hf)) = 64%nat).
    { destruct Hcase as [(_ & _ & E)|(_ & E & _)]; [left|right]; exact E. }
    rewrite (tree_open_sparse cr Hnonblank bs (d_tree d) (hd_tree hf) kf Hst Hln Hsg).
    cbn [t_roots]. split.
    - apply open_roots_cached; assumption.
    - rewrite Hfk.
      change (mkTree (ref_roots cr bs kf) kf (prefix_size bs kf) 0 (sig_of (hd_tree hf)) nm_empty)
        with (rtree cr bs kf (sig_of (hd_tree hf)) []).
      destruct HT as (_ & _ & _ & _ & _ & Hfs & _). cbn [rtree t_length] in Hfs.
      apply (replay_vm_rchain cr Hnonblank bs pk (d_tree d) l [] kf r r _ hf Hfk Hch); [lia| |exact Hfs].
      intros x [].
  Qed.

  (* every replica disk, also the one a crash leaves *)
  Theorem open_vm_RDisk pk d H r : RDisk cr bs pk d H r -> open_vm cr None true d.
  Proof.
    intros (s0 & s1 & body & st0 & st1 & bits & hf & l & kf & Hcont & HO & Hhf & Hch & Hst & HT & Hbf).
    destruct (OplX_open cr Hcrc Hhash32 Hnonblank Hhashbytes s0 s1 body st0 st1 bits hf l HO)
      as (ops & Hopen & [(-> & G)|(-> & L0 & L1 & G)]); rewrite <- Hcont in Hopen.
    - apply (open_vm_parts pk d H r bits hf l kf [] Hhf Hch Hst HT Hopen d); reflexivity.
    - apply (open_vm_parts pk d H r bits hf l kf [ST Oplog ENTRIES_OFFSET] Hhf Hch Hst HT Hopen
               (d_set d Oplog (f_truncate (d_oplog d) ENTRIES_OFFSET))); try reflexivity; destruct d; reflexivity.
  Qed.

  (* between two calls *)
  Theorem open_vm_RDInv c d H : RDInv cr bs c d H -> open_vm cr None true d.
  Proof. intros X. exact (open_vm_RDisk _ d H _ (RDInv_RDisk cr bs c d H X)). Qed.
End OpenVm.

(* ====================================================================================== *)
(* 4. Replica histories with reopen                                                        *)
(* ====================================================================================== *)

(* the calls of a replica history: ReplicaCorC.replica_hop, with ReplicaDisk3.rd_proof_ok for the proofs
   (block_upgrade_ok, and the signature of an upgrade section consists of genuine bytes) *)
Definition replica_hop_d (o : hop) : Prop :=
  match o with
  | HApplyProof _ pf => rd_proof_ok pf
  | HGet _ | HHas _ | HInfo | HCreateProof _ _ _ _ | HMissing _ | HMissingTree _ | HReopen => True
  | HAppend _ _ | HClear _ _ _ | HMakeReadOnly => False
  end.

Lemma replica_hop_d_hop o : replica_hop_d o -> replica_hop o.
Proof. destruct o; cbn [replica_hop_d replica_hop]; try (intros H; exact H). intros [H _]. exact H. Qed.

Section HistoryReopen.
  Variable cr : crypto.
  Hypothesis Hcrc : crc_ok cr.
  Hypothesis Hhash32 : forall x, length (cr_hash cr x) = 32%nat.
  Hypothesis Hnonblank : forall x, all_zero (cr_hash cr x) = false.
  Hypothesis Hhashbytes : forall x, bytes_ok (cr_hash cr x) = true.
  Variable bs : list bytes.
  Hypothesis Hw : writer_fits bs.

  (* one call (reopen included): if the process survives it, the disk invariant holds afterwards for some held
     set, with the same key pair *)
  Lemma replica_hstep_RDInv o c w H :
    RDInv cr bs c (w_disk w) H -> replica_hop_d o ->
    (forall ob c' w', hstep cr o c w = (ob, true, c', w') ->
       (exists H', RDInv cr bs c' (w_disk w') H') /\ c_keypair c' = c_keypair c) \/
    some_collision cr \/ forged_signature cr bs (kp_public (c_keypair c)).
  Proof.
    intros X Hop.
    assert (RO : forall {A} (m : M A) (mk : res A -> hobs) c' w' r,
               quiet m -> m c w = (c', w', r) ->
               forall ob c1 w1, (mk r, negb (dead r), c', w') = (ob, true, c1, w1) ->
                 (exists H', RDInv cr bs c1 (w_disk w1) H') /\ c_keypair c1 = c_keypair c).
    { intros A m mk c' w' r Hq E. destruct (Hq _ _ _ _ _ E) as (-> & Hd & _).
      intros ob c1 w1 Hst. injection Hst as _ _ <- <-. rewrite Hd. split; [exists H; exact X|reflexivity]. }
    destruct o as [f batch|f s e|i|i| |b h s u|i|i|f pf| |]; cbn [replica_hop_d] in Hop; try (exfalso; exact Hop).
    - left. cbn [hstep]. destruct (core_get i c w) as [[c' w'] r] eqn:E.
      exact (RO _ (core_get i) HOGet c' w' r (core_get_quiet i) E).
    - left. cbn [hstep]. intros ob c1 w1 Hst. injection Hst as _ <- <-. split; [exists H; exact X|reflexivity].
    - left. cbn [hstep]. intros ob c1 w1 Hst. injection Hst as _ <- <-. split; [exists H; exact X|reflexivity].
    - left. cbn [hstep]. destruct (core_create_proof b h s u c w) as [[c' w'] r] eqn:E.
      exact (RO _ (core_create_proof b h s u) HOProof c' w' r (core_create_proof_quiet b h s u) E).
    - left. cbn [hstep]. destruct (core_missing_nodes i c w) as [[c' w'] r] eqn:E.
      exact (RO _ (core_missing_nodes i) HOMissing c' w' r (proj1 (core_missing_nodes_quiet i)) E).
    - left. cbn [hstep]. destruct (core_missing_nodes_tree i c w) as [[c' w'] r] eqn:E.
      exact (RO _ (core_missing_nodes_tree i) HOMissing c' w' r (proj2 (core_missing_nodes_quiet i)) E).
    - (* apply: every outcome *)
      cbn [hstep]. destruct (core_apply_proof cr f pf c w) as [[c' w'] r] eqn:E.
      destruct (apply_replica_outcome cr Hhash32 Hnonblank bs Hw f pf c w c' w' r
                  (RDInv_RInv cr bs c _ H X) (proj1 Hop) E)
        as [[Hr _]|[(Ec & Ew & _)|[Hr|[C|F]]]];
        [| | |right; left; exact C|right; right; exact F].
      + subst r. destruct w as [d j ev]. cbn [w_disk] in X.
        destruct (apply_keeps_RDInv cr Hcrc Hhash32 Hnonblank Hhashbytes bs Hw f pf c d j ev H c' w' X Hop E)
          as [(X' & K' & _)|[C|F]]; [left|right; left; exact C|right; right; exact F].
        intros ob c1 w1 Hst. injection Hst as _ <- <-. split; [eexists; exact X'|exact K'].
      + left. intros ob c1 w1 Hst. injection Hst as _ _ <- <-. rewrite Ec, Ew. split; [exists H; exact X|reflexivity].
      + left. intros ob c1 w1 Hst. rewrite Hr in Hst. cbn [dead negb] in Hst.
        injection Hst as _ Hal _ _. discriminate Hal.
    - (* reopen *)
      left. cbn [hstep].
      destruct (reopen_RDInv cr Hcrc Hnonblank bs Hw c (w_disk w) H X) as (c1 & E & X1 & _ & _ & Ek & _).
      rewrite E. intros ob c' w' Hst. injection Hst as _ <- <-. cbn [w_disk].
      split; [exists H; exact X1|exact Ek].
  Qed.

  (* the hypotheses ReplicaCorC leaves open at the reopen steps hold along every replica history *)
  Theorem replica_reopen_hyps_RDInv ops : forall c w H,
    RDInv cr bs c (w_disk w) H -> Forall replica_hop_d ops ->
    reopen_hyps cr bs ops c w \/ some_collision cr \/ forged_signature cr bs (kp_public (c_keypair c)).
  Proof.
    induction ops as [|o rest IH]; intros c w H X Hops; [left; exact I|].
    inversion Hops as [|o' rest' Ho Hrest]; subst.
    destruct (replica_hstep_RDInv o c w H X Ho) as [Hstep|[C|F]]; [|right; left; exact C|right; right; exact F].
    cbn [reopen_hyps].
    assert (First : match o with
                    | HReopen =>
                        open_vm cr None true (w_disk w) /\
                        forall ob c' w', hstep cr HReopen c w = (ob, true, c', w') ->
                          SoundCore.RInv cr bs c' (w_disk w') /\ kp_public (c_keypair c') = kp_public (c_keypair c)
                    | _ => True
                    end).
    { destruct o; try exact I. split; [apply (open_vm_RDInv cr Hcrc Hhash32 Hnonblank Hhashbytes bs Hw c _ H X)|].
      intros ob c' w' E. destruct (Hstep ob c' w' E) as [(H' & X') K'].
      split; [apply (RDInv_RInv cr bs c' _ H' X')|rewrite K'; reflexivity]. }
    destruct (hstep cr o c w) as [[[ob alive] c1] w1] eqn:E.
    destruct alive; [|left; split; [exact First|exact I]].
    destruct (Hstep ob c1 w1 eq_refl) as [(H' & X') K'].
    destruct (IH c1 w1 H' X' Hrest) as [Hr|[C|F]];
      [left; split; [exact First|exact Hr]|right; left; exact C|right; right; rewrite <- K'; exact F].
  Qed.

  (* C14 on replicas, reopen included, no hypothesis besides the disk invariant: for every eviction schedule and
     every valid initial cache, a replica history with the node cache gives the same observations, final core,
     disk, journal and events as without it *)
  Theorem replica_cache_transparent_reopen (ev : evo) (ops : list hop) st c w H :
    evictor ev -> RDInv cr bs c (w_disk w) H -> Forall replica_hop_d ops -> valid st c w ->
    snd (hrun_c cr ev ops st c w) = hrun cr ops c w \/
    some_collision cr \/ forged_signature cr bs (kp_public (c_keypair c)).
  Proof.
    intros Hev X Hops Hval.
    destruct (replica_reopen_hyps_RDInv ops c w H X Hops) as [Hre|[C|F]];
      [|right; left; exact C|right; right; exact F].
    apply (replica_cache_transparent cr Hhash32 Hnonblank bs Hw ev ops st c w Hev
             (RDInv_RInv cr bs c _ H X)); [|exact Hre|exact Hval].
    apply Forall_forall. intros o Ho. rewrite Forall_forall in Hops. apply replica_hop_d_hop, Hops, Ho.
  Qed.

  (* ... and node immutability itself along such histories *)
  Theorem replica_hist_vm_reopen (ops : list hop) c w H :
    RDInv cr bs c (w_disk w) H -> Forall replica_hop_d ops ->
    hist_vm cr ops c w \/ some_collision cr \/ forged_signature cr bs (kp_public (c_keypair c)).
  Proof.
    intros X Hops.
    destruct (replica_reopen_hyps_RDInv ops c w H X Hops) as [Hre|[C|F]];
      [|right; left; exact C|right; right; exact F].
    apply (replica_hist_vm cr Hhash32 Hnonblank bs Hw ops c w (RDInv_RInv cr bs c _ H X)); [|exact Hre].
    apply Forall_forall. intros o Ho. rewrite Forall_forall in Hops. apply replica_hop_d_hop, Hops, Ho.
  Qed.
End HistoryReopen.

(* ====================================================================================== *)
(* 5. After a crash: the first open of the disk a crash leaves, then any replica history    *)
(* ====================================================================================== *)

Section CrashReopen.
  Variable cr : crypto.
  Hypothesis Hcrc : crc_ok cr.
  Hypothesis Hhash32 : forall x, length (cr_hash cr x) = 32%nat.
  Hypothesis Hnonblank : forall x, all_zero (cr_hash cr x) = false.
  Hypothesis Hhashbytes : forall x, bytes_ok (cr_hash cr x) = true.
  Variable bs : list bytes.
  Hypothesis Hw : writer_fits bs.

  (* the disk satisfies RDisk (what a crash inside a proof application or a flush leaves, ReplicaDisk4); the
     memory c and its cache st are whatever they are (they are dropped by the open) *)
  Theorem replica_cache_transparent_crash_reopen (ev : evo) (ops : list hop) st c w pk H r :
    evictor ev -> RDisk cr bs pk (w_disk w) H r -> Forall replica_hop_d ops -> valid st c w ->
    snd (hrun_c cr ev (HReopen :: ops) st c w) = hrun cr (HReopen :: ops) c w \/
    some_collision cr \/ forged_signature cr bs pk.
  Proof.
    intros Hev XD Hops Hval.
    assert (Hv : hist_vm cr (HReopen :: ops) c w \/ some_collision cr \/ forged_signature cr bs pk).
    { cbn [hist_vm step_vm hstep].
      destruct (reopen_RDisk cr Hcrc Hhash32 Hnonblank Hhashbytes bs Hw pk (w_disk w) H r XD)
        as (c' & d' & sops & E & X' & _ & K' & _).
      rewrite E.
      destruct (replica_hist_vm_reopen cr Hcrc Hhash32 Hnonblank Hhashbytes bs Hw ops c'
                  (mkWorld d' (rev sops ++ w_journal w) (w_events w)) H X' Hops) as [Hr|[C|F]];
        [left|right; left; exact C|right; right; rewrite K' in F; exact F].
      split; [|exact Hr].
      apply (open_vm_RDisk cr Hcrc Hhash32 Hnonblank Hhashbytes bs Hw pk _ H r XD). }
    destruct Hv as [Hv|[C|F]]; [left|right; left; exact C|right; right; exact F].
    exact (cache_transparent_history cr ev Hev (HReopen :: ops) st c w Hval Hv).
  Qed.
End CrashReopen.

(* ====================================================================================== *)
(* Non-vacuity on the toy instance of SoundCore.v                                           *)
(* ====================================================================================== *)
From HC Require Import CrashCore2 CrashCore3 ReplicaDisk4 ReplicaDisk5 ReplicaDisk6 ReplicaDisk7.

(* from the synced replica of SoundCore.v (length 6, nothing held, the upgrade entry PENDING in the oplog, the
   tree store empty): a read that misses; a reopen that replays the pending entry (tree_add_node of nodes 3 and
   9); the writer's proof for block 4 applied with a flush (nodes to the tree store); a reopen that reads the
   roots 3 and 9 from the store and caches them; a read that hits (its offset lookups go through the cache);
   has, info, a proof request; the same proof applied again without flush (pending entry whose nodes are already
   in the store); a reopen that replays it over the stored nodes; reads; a refused proof; a last reopen *)
Definition sc_hops_reopen (pf : proof) : list hop :=
  [HGet 4; HReopen; HMissing 4; HApplyProof (Some true) pf; HReopen; HGet 4; HHas 4; HInfo;
   HCreateProof (Some (mkReqBlock 4 0)) None None None; HApplyProof None pf; HReopen; HGet 4; HMissingTree 3;
   HApplyProof None (mkProof 1 (p_block pf) None None None); HReopen; HInfo].

Definition ob_tag_r (o : hobs) : N :=
  match o with
  | HOReopen (Ok tt) => 9
  | _ => ob_tag o
  end.

Lemma valid_st_empty c w : valid st_empty c w.
Proof. intros i n G. unfold st_empty in G. cbn [k_cache] in G. rewrite nm_get_empty in G. discriminate G. Qed.

Example sc_replica_cache_transparent_reopen (ev : evo) :
  evictor ev ->
  match fst sc_R1, sc_block_proof (fst sc_R1) 4 with
  | Some (c, w), Some pf =>
      RDInv sc_cr sc_blocks c (w_disk w) (fun _ => false) /\ Forall replica_hop_d (sc_hops_reopen pf) /\
      valid st_empty c w /\
      map ob_tag_r (fst (fst (hrun sc_cr (sc_hops_reopen pf) c w))) =
        [2; 9; 21; 7; 9; 1; 3; 16; 5; 7; 9; 1; 20; 8; 9; 16] /\
      k_hits (fst (hrun_c sc_cr ev_never (sc_hops_reopen pf) st_empty c w)) = 3%nat /\
      k_hits (fst (hrun_c sc_cr ev_always (sc_hops_reopen pf) st_empty c w)) = 0%nat /\
      (snd (hrun_c sc_cr ev (sc_hops_reopen pf) st_empty c w) = hrun sc_cr (sc_hops_reopen pf) c w \/
       some_collision sc_cr \/ forged_signature sc_cr sc_blocks (kp_public (c_keypair c)))
  | _, _ => False
  end.
Proof.
  intros Hev. pose proof sc_synced_RDInv as HX.
  destruct (fst sc_R1) as [[c w]|] eqn:E; [|destruct HX]. destruct HX as [X _].
  destruct (sc_block_proof (Some (c, w)) 4) as [pf|] eqn:Ep.
  2:{ vm_compute in E. injection E as <- <-. vm_compute in Ep. discriminate Ep. }
  assert (Hshape : Forall replica_hop_d (sc_hops_reopen pf) /\
                   map ob_tag_r (fst (fst (hrun sc_cr (sc_hops_reopen pf) c w))) =
                     [2; 9; 21; 7; 9; 1; 3; 16; 5; 7; 9; 1; 20; 8; 9; 16] /\
                   k_hits (fst (hrun_c sc_cr ev_never (sc_hops_reopen pf) st_empty c w)) = 3%nat /\
                   k_hits (fst (hrun_c sc_cr ev_always (sc_hops_reopen pf) st_empty c w)) = 0%nat).
  { clear X. vm_compute in E. injection E as <- <-. vm_compute in Ep. injection Ep as <-.
    split; [repeat constructor|]. split; [vm_compute; reflexivity|]. split; vm_compute; reflexivity. }
  destruct Hshape as (Hops & Hobs & Hhits & Hhits0).
  split; [exact X|]. split; [exact Hops|]. split; [apply valid_st_empty|].
  split; [exact Hobs|]. split; [exact Hhits|]. split; [exact Hhits0|].
  exact (replica_cache_transparent_reopen sc_cr sc_crc_ok sc_hash32 sc_nonblank sc_hashbytes sc_blocks sc_writer_fits
           ev (sc_hops_reopen pf) st_empty c w _ Hev X Hops (valid_st_empty c w)).
Qed.

(* after a crash: the same proof applied with a flush from the synced state; the process dies after k of the nine
   storage operations of the call, for EVERY k; the disk left is opened (with whatever memory and cache the dead
   process had: they are dropped) and a history with a second reopen follows *)
Definition sc_crash_tail : list hop := [HGet 4; HInfo; HMissing 4; HReopen; HGet 4].

Example sc_crash_reopen_cache_transparent (ev : evo) :
  evictor ev ->
  match fst sc_R1, sc_block_proof (fst sc_R1) 4 with
  | Some (c, w), Some pf =>
      exists c' w',
        core_apply_proof sc_cr (Some true) pf c w = (c', w', Ok true) /\
        ((exists ops,
            w_journal w' = rev ops ++ w_journal w /\ length ops = 9%nat /\
            forall k, exists dk,
              apply_sops (w_disk w) (firstn k ops) = Some dk /\
              forall st c0 j evs, valid st c0 (mkWorld dk j evs) ->
                snd (hrun_c sc_cr ev (HReopen :: sc_crash_tail) st c0 (mkWorld dk j evs)) =
                  hrun sc_cr (HReopen :: sc_crash_tail) c0 (mkWorld dk j evs) \/
                some_collision sc_cr \/ forged_signature sc_cr sc_blocks (kp_public (c_keypair c))) \/
         some_collision sc_cr \/ forged_signature sc_cr sc_blocks (kp_public (c_keypair c)))
  | _, _ => False
  end.
Proof.
  intros Hev. pose proof sc_synced_RDInv as HX.
  destruct (fst sc_R1) as [[c w]|] eqn:E1; [|exact HX]. destruct HX as [X L6].
  destruct (sc_block_proof (Some (c, w)) 4) as [pf|] eqn:Ep.
  2:{ clear X L6. vm_compute in E1. injection E1 as <- <-. vm_compute in Ep. discriminate Ep. }
  destruct (core_apply_proof sc_cr (Some true) pf c w) as [[c' w'] r] eqn:Happ.
  rewrite <- E1 in Ep.
  destruct (sc_block4_run c w pf c' w' r E1 Ep Happ) as (-> & A1 & A2 & A3 & (b & Hb & Hi) & Hjw & Hlen).
  assert (Hrd : rd_proof_ok pf)
    by (split; [split; [exact A1|split; [exact A2|rewrite A3; exact I]]|rewrite A3; exact I]).
  exists c', w'. split; [reflexivity|].
  destruct w as [d j ev0]. cbn [w_disk w_journal] in *.
  destruct (apply_crash_cuts sc_cr sc_crc_ok sc_hash32 sc_nonblank sc_hashbytes sc_blocks sc_writer_fits
              (Some true) pf c d j ev0 _ c' w' X Hrd Happ)
    as [(pre & off & fr & fl & Hj & _ & _ & _ & _ & Hcuts)|[C|F]]; [left|right; left; exact C|right; right; exact F].
  exists (pre ++ SW Oplog off fr :: fl). split; [exact Hj|]. split.
  { rewrite Hj, app_length, rev_length, Hjw in Hlen. lia. }
  intros k. destruct (Hcuts k) as (dk & Ak & HR). exists dk. split; [exact Ak|].
  intros st c0 j0 evs Hval.
  assert (Hops : Forall replica_hop_d sc_crash_tail) by (repeat constructor).
  destruct (k <=? commit_point pf)%nat.
  - exact (replica_cache_transparent_crash_reopen sc_cr sc_crc_ok sc_hash32 sc_nonblank sc_hashbytes sc_blocks
             sc_writer_fits ev sc_crash_tail st c0 (mkWorld dk j0 evs) _ _ _ Hev HR Hops Hval).
  - exact (replica_cache_transparent_crash_reopen sc_cr sc_crc_ok sc_hash32 sc_nonblank sc_hashbytes sc_blocks
             sc_writer_fits ev sc_crash_tail st c0 (mkWorld dk j0 evs) _ _ _ Hev HR Hops Hval).
Qed.

(* what those runs show, computed: cut before the entry write (k <= 1) block 4 is not held, afterwards it is; the
   cache is hit when the flush had reached the tree store (k = 9) *)
Example sc_crash_reopen_computed :
  match fst sc_R1, sc_block_proof (fst sc_R1) 4 with
  | Some (c, w), Some pf =>
      let '(c', w', r) := core_apply_proof sc_cr (Some true) pf c w in
      let dl := journal_delta (w_journal w) (w_journal w') in
      map (fun k => match apply_sops (w_disk w) (firstn k dl) with
                    | Some dk =>
                        let w0 := mkWorld dk (rev (firstn k dl) ++ w_journal w) (w_events w) in
                        (map ob_tag_r (fst (fst (hrun sc_cr (HReopen :: sc_crash_tail) c w0))),
                         k_hits (fst (hrun_c sc_cr ev_never (HReopen :: sc_crash_tail) st_empty c w0)))
                    | None => ([], 0%nat)
                    end) [0; 1; 2; 5; 9]%nat =
      [([9; 2; 16; 21; 9; 2], 0%nat); ([9; 2; 16; 21; 9; 2], 0%nat); ([9; 1; 16; 20; 9; 1], 0%nat);
       ([9; 1; 16; 20; 9; 1], 0%nat); ([9; 1; 16; 20; 9; 1], 1%nat)]
  | _, _ => False
  end.
Proof. vm_compute. reflexivity. Qed.

Print Assumptions open_vm_RDisk.
Print Assumptions open_vm_RDInv.
Print Assumptions replica_hstep_RDInv.
Print Assumptions replica_reopen_hyps_RDInv.
Print Assumptions replica_hist_vm_reopen.
Print Assumptions replica_cache_transparent_reopen.
Print Assumptions replica_cache_transparent_crash_reopen.
Print Assumptions sc_replica_cache_transparent_reopen.
Print Assumptions sc_crash_reopen_cache_transparent.

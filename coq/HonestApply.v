(* HonestApply.v -- C03 at the core level for EVERY well-formed request class: histories ("replicas converge").
   A history (AcceptAllHist.revent) is a list of events
     EServe f rq cw dw jw evw bw sg : the writer, in the state it has when its log is the prefix bw of bs, serves rq;
                                      the replica applies the proof with the flush decision f;
     EReopen                        : the replica is closed and opened again.
   If every request is well formed for the state in which it is sent (AcceptAll.wf_request -- block or hash
   section, optional in-range seek, optional full or PARTIAL upgrade; no core_scope restriction), then every step
   succeeds, the replica invariant (memory + disk + closed stored nodes) holds at the end, the length is the
   writer's signed length of the last request that carried an upgrade, every block requested on the way is held,
   nothing held is lost, every held block reads byte-identical to the writer's.
   There is NO escape clause (no collision, no forged signature): the proofs are the writer's own, every node they
   carry is the writer's reference node, so the invariant is preserved directly (HonestApply2). *)
From HC Require Import Base NMap Codec CodecFacts Crypto FlatTree Storage Bitfield Oplog Merkle Core.
From HC Require Import FlatTreeFacts StorageFacts BitfieldFacts Sound NoPanic TreeRef OffsetFacts CoreFacts Refine Replicate Replicate2 Replicate2Z Replicate2D Replicate2E.
From HC Require Import Unified1 SoundCoreLib SoundCore SoundCoreUp SoundCoreBU ReplicaDisk1 ReplicaDisk2 ReplicaDisk3 ReplicaDisk4.
From HC Require Import AcceptAll1 AcceptAll2 AcceptAll3 AcceptAll AcceptAllCore1 AcceptAllClo AcceptAllClo2 AcceptAllFlush AcceptAllCore2 AcceptAllCore3 AcceptAllHist.
From HC Require Import HonestApply1 HonestApply2 HonestApply3.
From Coq Require Import FMapPositive ZifyN ZifyNat ZifyBool.
Ltac Zify.zify_post_hook ::= Z.div_mod_to_equations.
Arguments N.add : simpl never.
Arguments N.sub : simpl never.
Arguments N.mul : simpl never.
Arguments N.div : simpl never.
Arguments N.modulo : simpl never.
Arguments N.pow : simpl never.
Arguments N.eqb : simpl never.
Arguments N.ltb : simpl never.
Arguments N.leb : simpl never.
Arguments N.of_nat : simpl never.
Arguments N.to_nat : simpl never.
Arguments N.log2 : simpl never.

Section Histories.
  Variable cr : crypto.
  Hypothesis Hcrc : OplogFacts.crc_ok cr.
  Hypothesis Hhash32 : forall x, length (cr_hash cr x) = 32%nat.
  Hypothesis Hnonblank : forall x, all_zero (cr_hash cr x) = false.
  Hypothesis Hhashbytes : forall x, bytes_ok (cr_hash cr x) = true.
  Variable bs : list bytes.
  Hypothesis Hw : writer_fits bs.

  (* the request of an event is well formed for the replica state it is sent from: any of the 18 classes *)
  Definition pre_all (c : core) (d : disk) (e : revent) : Prop :=
    match e with
    | EServe f rq cw dw jw evw bw sg =>
        let w := N.of_nat (length bw) in
        writer_at cr bs cw dw bw (kp_public (c_keypair c)) sg /\
        t_length (c_tree c) <= w /\
        wf_request bs (c_tree c) (d_tree d) w rq /\
        (forall vp, create_valueless_proof (c_tree cw) (d_tree dw) (rq_block rq) (rq_hash rq) (rq_seek rq) (rq_upgrade rq) = Ok vp ->
                    frame_guard cr c d (vp_to_proof vp (rq_value bs rq)))
    | EReopen => True
    end.

  Fixpoint hist_all (es : list revent) (c : core) (w : world) : Prop :=
    match es with
    | [] => True
    | e :: rest => pre_all c (w_disk w) e /\ forall c' w', exec cr c w e = Some (c', w') -> hist_all rest c' w'
    end.

  (* the length after an event: the writer's signed length when the request carried an upgrade *)
  Definition len1 (r : N) (e : revent) : N :=
    match e with
    | EServe _ rq _ _ _ _ bw _ => match rq_upgrade rq with Some _ => N.of_nat (length bw) | None => r end
    | EReopen => r
    end.

  Definition len_all (r : N) (es : list revent) : N := fold_left len1 es r.

  (* one event *)
  Lemma honest_event_step c d j ev H e :
    RCInv cr bs c d H -> pre_all c d e ->
    exists c' w', exec cr c (mkWorld d j ev) e = Some (c', w') /\ RCInv cr bs c' (w_disk w') (held1 H e) /\
                  c_keypair c' = c_keypair c /\ t_length (c_tree c') = len1 (t_length (c_tree c)) e /\
                  t_length (c_tree c) <= t_length (c_tree c').
  Proof.
    intros RC Hpre. destruct e as [f rq cw dw jw evw bw sg|].
    - destruct Hpre as (Hwa & Hrw & Hwf & Hfr). cbv zeta in *.
      destruct (honest_round cr Hcrc Hhash32 Hnonblank Hhashbytes bs Hw f cw dw bw sg jw evw c d j ev H rq
                  Hwa RC Hrw Hwf Hfr) as (pf & cs & c' & w' & Hcreate & _ & Happ & RC' & Hlen & _ & Hk & _).
      exists c', w'. cbn [exec]. rewrite Hcreate, Happ. split; [reflexivity|]. split; [exact RC'|].
      split; [exact Hk|]. cbn [len1]. split; [exact Hlen|]. rewrite Hlen.
      destruct (rq_upgrade rq); lia.
    - destruct RC as [X Hc].
      destruct (reopen_RDInv cr Hcrc Hnonblank bs Hw c d H X) as (c' & Hopen & X' & Et & _ & Ek & _).
      exists c', (mkWorld d j ev). cbn [exec w_disk w_journal w_events]. rewrite Hopen.
      split; [reflexivity|]. cbn [held1 w_disk len1]. split; [split; [exact X'|rewrite Et; exact Hc]|].
      split; [exact Ek|]. rewrite Et. split; [reflexivity|lia].
  Qed.

  Theorem honest_replicas_converge es : forall c d j ev H,
    RCInv cr bs c d H -> hist_all es c (mkWorld d j ev) ->
    exists c' w',
      run cr es c (mkWorld d j ev) = Some (c', w') /\
      RCInv cr bs c' (w_disk w') (held_all H es) /\
      c_keypair c' = c_keypair c /\
      (* the length: the writer's signed length of the last request with an upgrade *)
      t_length (c_tree c') = len_all (t_length (c_tree c)) es /\
      t_byte_length (c_tree c') = prefix_size bs (t_length (c_tree c')) /\
      t_length (c_tree c) <= t_length (c_tree c') /\
      (* every requested block is held, nothing held is lost *)
      (forall i, requested es i -> core_has c' i = true) /\
      (forall i, H i = true -> core_has c' i = true) /\
      (* every held block reads byte-identical to the writer's block *)
      (forall i j2 ev2, core_has c' i = true ->
         core_get i c' (mkWorld (w_disk w') j2 ev2) = (c', mkWorld (w_disk w') j2 ev2, Ok (Some (blk bs i)))).
  Proof.
    induction es as [|e es IH]; intros c d j ev H RC Hh.
    - exists c, (mkWorld d j ev). cbn [run held_all len_all fold_left w_disk].
      split; [reflexivity|]. split; [exact RC|]. split; [reflexivity|]. split; [reflexivity|].
      destruct RC as [X _]. split; [apply (RDInv_RInv cr bs c d H X)|]. split; [lia|].
      split; [intros i []|]. split.
      + intros i Hi. rewrite (RD_has cr bs c d H i X). exact Hi.
      + intros i j2 ev2 Hi. rewrite (RD_has cr bs c d H i X) in Hi.
        rewrite (RD_get cr bs Hw c d H j2 ev2 i X), Hi. reflexivity.
    - cbn [hist_all] in Hh. destruct Hh as [Hpre Hrest]. cbn [w_disk] in Hpre.
      destruct (honest_event_step c d j ev H e RC Hpre) as (c1 & w1 & Hex & RC1 & Hk1 & Hl1 & Hm1).
      destruct w1 as [d1 j1 ev1]. cbn [w_disk] in RC1.
      destruct (IH c1 d1 j1 ev1 (held1 H e) RC1 (Hrest _ _ Hex))
        as (c' & w' & Hrun & RC' & Hk & Hl & Hb & Hm & Hreq & Hmono & Hget).
      exists c', w'. cbn [run]. rewrite Hex. split; [exact Hrun|]. cbn [held_all len_all fold_left].
      split; [exact RC'|]. split; [congruence|]. split; [rewrite Hl, Hl1; reflexivity|]. split; [exact Hb|].
      split; [lia|]. split; [|split; [|exact Hget]].
      + intros i Hr. destruct RC' as [X' _]. rewrite (RD_has cr bs c' (w_disk w') _ i X').
        apply (held_requested (e :: es) H i Hr).
      + intros i Hi. apply Hmono. apply held1_mono, Hi.
  Qed.

  (* a replica created from the public key alone, then any well-formed history *)
  Theorem honest_fresh_replicas_converge kp es :
    OplogFacts.keypair_ok kp = true -> kp_secret kp = None ->
    exists d0 ops0 c0,
      core_open cr (Some kp) false disk_empty = (d0, ops0, Ok c0) /\
      (hist_all es c0 (mkWorld d0 [] []) ->
       exists c' w',
         run cr es c0 (mkWorld d0 [] []) = Some (c', w') /\
         RCInv cr bs c' (w_disk w') (held_all (fun _ => false) es) /\
         t_length (c_tree c') = len_all 0 es /\
         (forall i, requested es i -> core_has c' i = true) /\
         (forall i j2 ev2, core_has c' i = true ->
            core_get i c' (mkWorld (w_disk w') j2 ev2) = (c', mkWorld (w_disk w') j2 ev2, Ok (Some (blk bs i))))).
  Proof.
    intros Hk Hs.
    destruct (RDInv_fresh cr Hcrc Hhash32 Hnonblank bs kp Hk Hs) as (d0 & ops0 & c0 & Hopen & X & K & L0).
    exists d0, ops0, c0. split; [exact Hopen|]. intros Hh.
    destruct (honest_replicas_converge es c0 d0 [] [] (fun _ => false)
                (RCInv_length0 cr bs c0 d0 _ X L0) Hh)
      as (c' & w' & Hrun & RC' & _ & Hl & _ & _ & Hreq & _ & Hget).
    exists c', w'. rewrite L0 in Hl. auto.
  Qed.
End Histories.

Print Assumptions honest_replicas_converge.
Print Assumptions honest_fresh_replicas_converge.

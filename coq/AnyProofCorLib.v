(* AnyProofCorLib.v -- library for AnyProofCor.v: byte_offset_in_changeset on the changeset of an accepted
   proof of ANY shape.

   The walk of byte_offset_in_changeset subtracts the sizes of consecutive nodes on the path above the
   block ("node.length - parent.length", a checked subtraction).  The sizes of the nodes a peer supplies
   are not bound by the hashes (AnyProof.v), so the walk is safe only because no supplied node lies ON
   the path:
     - the siblings of a block section are beside the path, the seek section lies under one of them;
     - the nodes an upgrade section appends (its own, the additional ones) are leaves of the merge
       forest whose tops are the signed roots: they are pairwise disjoint, and disjoint from the
       sub-tree of the block (forest argument, section Forest).
   Every other node on the path is the leaf computed from the block value or a parent computed by the
   verifier, whose size the hash chain determines. *)
From HC Require Import Base NMap Codec CodecFacts Crypto FlatTree Storage Bitfield Oplog Merkle Core.
From HC Require Import FlatTreeFacts StorageFacts BitfieldFacts OplogFacts TreeRef OffsetFacts CoreFacts
                       Sound NoPanic Refine Replicate SoundCoreLib SoundCore SoundCoreUp SoundCoreBU
                       NoPanic2 AnyProofLib AnyProofUp AnyProof.
From Coq Require Import FMapPositive ZifyN ZifyNat ZifyBool.
Ltac Zify.zify_post_hook ::= Z.div_mod_to_equations.
Arguments N.add : simpl never.
Arguments N.sub : simpl never.
Arguments N.mul : simpl never.
Arguments N.div : simpl never.
Arguments N.modulo : simpl never.
Arguments N.pow : simpl never.
Arguments N.eqb : simpl never.
Arguments N.ltb : simpl never.
Arguments N.leb : simpl never.
Arguments N.of_nat : simpl never.
Arguments N.to_nat : simpl never.

(* ====================================================================================== *)
(* A. "block i lies under node x"                                                          *)
(* ====================================================================================== *)

Definition covers (x : node) (i : N) : Prop :=
  i / 2 ^ ft_depth (n_index x) = ft_offset (n_index x).

Lemma covers_at x d o i : n_index x = ft_index (N.of_nat d) o -> (covers x i <-> i / p2 d = o).
Proof. intros E. unfold covers. rewrite E, ft_depth_index, ft_offset_index, p2_N. reflexivity. Qed.

Lemma covers_nat x i :
  covers x i <-> i / p2 (N.to_nat (ft_depth (n_index x))) = ft_offset (n_index x).
Proof. apply covers_at. apply index_at_nat. Qed.

Lemma classic_covers x i : covers x i \/ ~ covers x i.
Proof. unfold covers. destruct (N.eq_dec (i / 2 ^ ft_depth (n_index x)) (ft_offset (n_index x))); auto. Qed.

Lemma div_p2_range i d o : i / p2 d = o <-> o * p2 d <= i < (o + 1) * p2 d.
Proof.
  pose proof (p2_pos d) as Hp. split.
  - intros <-. apply div_p2_bounds.
  - intros [A B]. symmetry. apply (N.div_unique i (p2 d) o (i - o * p2 d)); lia.
Qed.

Lemma div_p2_S' a k : a / p2 k / 2 = a / p2 (S k).
Proof. rewrite p2_S, (N.mul_comm 2), N.div_div; [reflexivity| |lia]. pose proof (p2_pos k). lia. Qed.

(* the two children of a computed parent lie under it, and are disjoint *)
Lemma merged_covers cr a b P i :
  merged_of cr a b P -> (covers a i \/ covers b i) -> covers P i.
Proof.
  intros (d & o & Ia & Ib & -> & _) H.
  apply (proj2 (covers_at (mkNode (ft_index (N.of_nat (S d)) (o / 2)) (n_length a + n_length b) (parent_hash cr a b))
                  (S d) (o / 2) i eq_refl)).
  rewrite <- div_p2_S'.
  destruct H as [H|H].
  - apply (covers_at a d o i Ia) in H. rewrite H. reflexivity.
  - apply (covers_at b d (sib o) i Ib) in H. rewrite H. apply sib_div.
Qed.

Lemma merged_disj cr a b P i : merged_of cr a b P -> covers a i -> covers b i -> False.
Proof.
  intros (d & o & Ia & Ib & _) Ha Hb.
  apply (covers_at a d o i Ia) in Ha. apply (covers_at b d (sib o) i Ib) in Hb.
  apply (sib_neq o). congruence.
Qed.

(* ====================================================================================== *)
(* B. the walk                                                                             *)
(* ====================================================================================== *)

Section Walk.
  Variable cr : crypto.
  Variable bs : list bytes.
  Let R := ref_node cr bs.

  (* every node of the list above block i has the writer's size *)
  Definition path_sizes (L : list node) (i : N) : Prop :=
    forall x, In x L -> covers x i -> wsize cr bs x.

  Lemma path_sizes_app L1 L2 i : path_sizes L1 i -> path_sizes L2 i -> path_sizes (L1 ++ L2) i.
  Proof. intros H1 H2 x Hx. apply in_app_or in Hx. destruct Hx; auto. Qed.

  Lemma wsize_at x d o : n_index x = ft_index (N.of_nat d) o -> wsize cr bs x -> n_length x = n_length (R d o).
  Proof. intros E H. unfold wsize in H. rewrite H, E, ref_at_index. reflexivity. Qed.

  Lemma walk_path_sizes i : forall L d off p,
    path_sizes L i -> n_length p = n_length (R d (i / p2 d)) ->
    returns (cs_path_walk L (it_at (N.of_nat (S d)) (i / p2 (S d))) off (N.odd (i / p2 d)) (Some p)) = true.
  Proof.
    induction L as [|x L IH]; intros d off p HP Hp; [reflexivity|].
    assert (HP' : path_sizes L i) by (intros y Hy; apply HP; right; exact Hy).
    cbn [cs_path_walk]. cbn [it_at it_index].
    destruct (N.eqb_spec (n_index x) (ft_index (N.of_nat (S d)) (i / p2 (S d)))) as [E|E].
    - assert (Hx : n_length x = n_length (R (S d) (i / p2 (S d)))).
      { apply (wsize_at x (S d) _ E). apply HP; [left; reflexivity|]. apply (covers_at x _ _ i E). reflexivity. }
      fold (it_at (N.of_nat (S d)) (i / p2 (S d))).
      rewrite it_parent_at, it_is_right_at.
      replace (N.of_nat (S d) + 1) with (N.of_nat (S (S d))) by lia.
      rewrite div_p2_S'.
      destruct (R_parent cr bs d (i / p2 d)) as [_ Rl]. fold R in Rl. rewrite div_p2_S' in Rl.
      destruct (N.odd (i / p2 d)).
      + unfold sub64. destruct (N.leb_spec (n_length p) (n_length x)) as [_|Lt]; [|lia].
        cbn [bind]. apply IH; assumption.
      + cbn [bind]. apply IH; assumption.
    - apply IH; assumption.
  Qed.

  Lemma walk_from_leaf i : forall L off,
    path_sizes L i -> returns (cs_path_walk L (it_at (N.of_nat 0) i) off false None) = true.
  Proof.
    induction L as [|x L IH]; intros off HP; [reflexivity|].
    assert (HP' : path_sizes L i) by (intros y Hy; apply HP; right; exact Hy).
    cbn [cs_path_walk]. cbn [it_at it_index].
    destruct (N.eqb_spec (n_index x) (ft_index (N.of_nat 0) i)) as [E|E].
    - assert (Hx : n_length x = n_length (R 0 i)).
      { apply (wsize_at x 0%nat _ E). apply HP; [left; reflexivity|]. apply (covers_at x _ _ i E).
        rewrite p2_0. apply N.div_1_r. }
      fold (it_at (N.of_nat 0) i). rewrite it_parent_at, it_is_right_at. cbn [bind].
      replace (N.of_nat 0 + 1) with (N.of_nat 1) by lia.
      pose proof (walk_path_sizes i L 0%nat off x HP') as W.
      rewrite p2_0, N.div_1_r in W. replace (p2 1) with 2 in W by reflexivity. apply W. exact Hx.
    - apply IH; assumption.
  Qed.

  (* byte_offset_in_changeset returns a value or an error as soon as the nodes of the changeset above the
     block have the writer's sizes *)
  Lemma byte_offset_in_changeset_returns t tf i cs :
    roots_ok t -> 2 * t_length t <= B57 -> 2 * i <= u64_max -> path_sizes (cs_nodes cs) i ->
    returns (byte_offset_in_changeset t tf i cs) = true.
  Proof.
    intros HRo HB Hi2 HP. unfold byte_offset_in_changeset.
    destruct (t_length t =? i); [reflexivity|].
    unfold mul64. assert (fits_u64 (2 * i) = true) as -> by (unfold fits_u64; lia). cbn [bind].
    rewrite it_new_leaf2.
    pose proof (walk_from_leaf i (cs_nodes cs) 0 HP) as W.
    destruct (cs_path_walk (cs_nodes cs) (it_at (N.of_nat 0) i) 0 false None) as [[off par]|e|s|];
      [|reflexivity|discriminate W|discriminate W]. cbn [bind].
    destruct par as [p|].
    - destruct (position_of (n_index p) (cs_roots cs) 0); [reflexivity|].
      apply returns_bind; [apply byte_offset_from_nodes_ret; assumption|intros o _; reflexivity].
    - apply returns_bind; [apply byte_offset_from_nodes_ret; assumption|intros o _; reflexivity].
  Qed.
End Walk.

(* ====================================================================================== *)
(* C. positions along a climb; the nodes verify_tree pushes for a block section            *)
(* ====================================================================================== *)

Section Climb.
  Variable cr : crypto.
  Hypothesis Hhash32 : forall x, length (cr_hash cr x) = 32%nat.

  (* the siblings taken by a climb from (d, o) are beside the path *)
  Lemma chain_sibs : forall steps cur root d o,
    chain cr cur steps root -> n_index cur = ft_index (N.of_nat d) o ->
    forall n, In n (map fst steps) ->
      exists k, n_index n = ft_index (N.of_nat (d + k)) (sib (o / p2 k)).
  Proof.
    induction steps as [|[n p] steps IH]; intros cur root d o H Hi x Hx; cbn [chain map fst In] in *; [destruct Hx|].
    destruct H as [(d' & o' & Ia & Ib & Ep & _) H]. rewrite Hi in Ia. apply ft_index_inj in Ia.
    destruct Ia as [Ed <-]. assert (d' = d) by lia. subst d'.
    destruct Hx as [<-|Hx].
    - exists 0%nat. rewrite Nat.add_0_r, p2_0, N.div_1_r. exact Ib.
    - destruct (IH p root (S d) (o / 2) H ltac:(rewrite Ep; reflexivity) x Hx) as (k & Hk).
      exists (S k). rewrite Hk, div_p2_S. f_equal. lia.
  Qed.

  (* every node of a climb lies under its top *)
  Lemma chain_desc : forall steps cur root d o,
    chain cr cur steps root -> n_index cur = ft_index (N.of_nat d) o ->
    forall x, In x (cur :: flat steps) ->
      exists d' o' k, n_index x = ft_index (N.of_nat d') o' /\ (d' + k = d + length steps)%nat /\
                      o' / p2 k = o / p2 (length steps).
  Proof.
    induction steps as [|[n p] steps IH]; intros cur root d o H Hi x Hx; cbn [chain flat length In] in *.
    - destruct Hx as [<-|[]]. exists d, o, 0%nat. split; [exact Hi|]. split; reflexivity.
    - destruct H as [(d' & o' & Ia & Ib & Ep & _) H]. rewrite Hi in Ia. apply ft_index_inj in Ia.
      destruct Ia as [Ed <-]. assert (d' = d) by lia. subst d'.
      destruct Hx as [<-|[<-|Hx]].
      + exists d, o, (S (length steps)). split; [exact Hi|]. split; reflexivity.
      + exists d, (sib o), (S (length steps)). split; [exact Ib|]. split; [reflexivity|].
        rewrite <- !div_p2_S, sib_div. reflexivity.
      + destruct (IH p root (S d) (o / 2) H ltac:(rewrite Ep; reflexivity) x Hx) as (d1 & o1 & k & E1 & E2 & E3).
        exists d1, o1, k. split; [exact E1|]. split; [lia|]. rewrite E3, div_p2_S. reflexivity.
  Qed.

  (* the seek phase, as a climb *)
  Lemma vt_seek_chain c sn root c' :
    vt_seek cr c sn = Ok (root, c') -> Forall node_wire sn ->
    (root = None /\ c' = c) \/
    exists n0 steps r, root = Some r /\ cs_rnodes c' = rev (n0 :: flat steps) ++ cs_rnodes c /\
                       chain cr n0 steps r /\ node_fit r /\ (forall x, In x (n0 :: map fst steps) -> In x sn).
  Proof.
    intros H Hw. unfold vt_seek in H. destruct sn as [|n0 rest].
    - injection H as <- <-. left. split; reflexivity.
    - right. cbv zeta in H. rewrite Sound.it_index_it_new in H.
      unfold q_shift in H. cbn [q_extra q_nodes] in H. rewrite N.eqb_refl in H. cbn [bind] in H.
      apply bind_ok in H. destruct H as ([r vis] & Hc & H). injection H as <- <-.
      inversion Hw as [|? ? [[Hn32 Hnl] Hni] Hw']; subst.
      rewrite it_new_at_nat in Hc.
      assert (Hq : Forall hash32 (q_list (mkQ rest None))).
      { unfold q_list. cbn [q_nodes q_extra]. rewrite app_nil_r.
        eapply Forall_impl; [|exact Hw']. intros x [[A _] _]. exact A. }
      destruct (climb_chain cr Hhash32 _ _ _ _ _ _ _ _ Hc (index_at_nat _) Hn32 Hq)
        as (steps & -> & Hch & Hfs & _).
      unfold q_list in Hfs. cbn [q_nodes q_extra] in Hfs. rewrite app_nil_r in Hfs.
      exists n0, steps, r. split; [reflexivity|]. split; [apply rnodes_push|]. split; [exact Hch|]. split.
      + destruct steps as [|s steps].
        * cbn [chain] in Hch. subst r. split; assumption.
        * apply (chain_root_fit cr Hhash32 _ _ _ Hch). discriminate.
      + intros x [<-|Hx]; [left; reflexivity|right; apply Hfs, Hx].
  Qed.

  (* the top of a climb has an index below the largest index it met *)
  Lemma chain_index_bound (B : N) : forall steps cur root,
    chain cr cur steps root -> n_index cur <= B -> (forall n, In n (map fst steps) -> n_index n <= B) ->
    n_index root <= B.
  Proof.
    induction steps as [|[n p] steps IH]; cbn [chain map fst In]; intros cur root H Hc Hs.
    - subst. exact Hc.
    - destruct H as [M H]. apply (IH p root H).
      + destruct (merged_of_fit cr Hhash32 cur n p M) as [_ L]. specialize (Hs n (or_introl eq_refl)). lia.
      + intros x Hx. apply Hs. right. exact Hx.
  Qed.

  (* the node the block / hash / seek sections climb to has a u64 flat index: AnyProof.tree_root_fits is a
     consequence of what the wire decoder guarantees *)
  Theorem verify_tree_root_u64 block hash seek c root c' :
    verify_tree cr block hash seek c = Ok (Some root, c') -> vt_wire block hash seek ->
    n_index root <= u64_max.
  Proof.
    intros H (Wb & Wh & Ws).
    rewrite verify_tree_eq in H. apply bind_ok in H. destruct H as (u & Hu & H). cbv zeta in H.
    set (sn := match seek with Some s => ds_nodes s | None => [] end) in *.
    assert (Wsn : Forall node_wire sn).
    { unfold sn. destruct seek as [s|]; [apply (Ws s eq_refl)|constructor]. }
    assert (Hseek : forall c0 r1 c1, vt_seek cr c0 sn = Ok (r1, c1) ->
                      forall e, r1 = Some e -> node_fit e /\ n_index e <= u64_max).
    { intros c0 r1 c1 H1 e ->.
      destruct (vt_seek_chain _ _ _ _ H1 Wsn) as [[E _]|(n0 & ssteps & e' & E & _ & Hsch & Hef & Hin)]; [discriminate E|].
      injection E as <-. split; [exact Hef|].
      rewrite Forall_forall in Wsn.
      apply (chain_index_bound u64_max _ _ _ Hsch).
      - apply (Wsn n0). apply Hin. left. reflexivity.
      - intros x Hx. apply (Wsn x). apply Hin. right. exact Hx. }
    assert (Hboth : forall u0, u = Some u0 ->
              ('(root, c) <- vt_seek cr c sn ;; vt_main cr root c u) = Ok (Some root, c') ->
              n_index root <= u64_max).
    { intros [[value index] nodes] -> H12.
      apply bind_ok in H12. destruct H12 as ([r1 c1] & H1 & H2).
      assert (Hun : Forall node_wire nodes /\ (forall v, value = Some v -> len v <= u64_max /\ index <= u64_max)).
      { unfold vt_untrusted in Hu. destruct block as [b|].
        - apply bind_ok in Hu. destruct Hu as (i & Hi & Hu). injection Hu as <- <- <-.
          unfold mul64 in Hi. destruct (fits_u64 (db_index b * 2)) eqn:F; [|discriminate Hi]. injection Hi as <-.
          destruct (Wb b eq_refl) as [A B]. split; [exact A|]. intros v [= <-]. split; [exact B|].
          unfold fits_u64 in F. lia.
        - destruct hash as [h|]; [|discriminate Hu]. injection Hu as <- <- <-.
          split; [apply (Wh h eq_refl)|discriminate]. }
      destruct Hun as (Wn & Wv).
      destruct (vt_main_shape cr Hhash32 r1 c1 value index nodes (Some root) c' H2 Wn
                  (fun v E => proj1 (Wv v E)) (fun e E => proj1 (Hseek _ _ _ H1 e E)))
        as (cur & steps & r & E & _ & _ & Hch & _ & Hci & Hval).
      injection E as ->.
      assert (Hmem : forall x, In x nodes \/ Some x = r1 -> n_index x <= u64_max).
      { intros x [Hx|Hx].
        - rewrite Forall_forall in Wn. apply (Wn x Hx).
        - apply (Hseek _ _ _ H1 x). symmetry. exact Hx. }
      apply (chain_index_bound u64_max _ _ _ Hch).
      - destruct value as [v|].
        + rewrite Hci. apply (Wv v eq_refl).
        + apply Hmem. apply Hval. left. reflexivity.
      - intros x Hx. apply Hmem. destruct value as [v|].
        + destruct Hval as [_ Hq]. apply Hq, Hx.
        + apply Hval. right. exact Hx. }
    destruct u as [u0|]; [apply (Hboth u0 eq_refl H)|].
    destruct sn as [|n0 rest] eqn:Esn.
    - discriminate H.
    - apply bind_ok in H. destruct H as ([r1 c1] & H1 & H2).
      cbn [vt_main] in H2. injection H2 as -> <-.
      apply (Hseek _ _ _ H1 root eq_refl).
  Qed.

  (* what verify_tree pushes for a block section: the nodes of the seek section (none above the block),
     the leaf computed from the value, then the climb *)
  Lemma verify_tree_block block hash seek c root c' b :
    verify_tree cr block hash seek c = Ok (root, c') -> vt_wire block hash seek -> block = Some b ->
    exists vs steps r,
      root = Some r /\
      cs_rnodes c' = rev (vs ++ block_node cr (2 * db_index b) (db_value b) :: flat steps) ++ cs_rnodes c /\
      chain cr (block_node cr (2 * db_index b) (db_value b)) steps r /\
      2 * db_index b <= u64_max /\
      (forall x, In x vs -> ~ covers x (db_index b)).
  Proof.
    intros H (Wb & Wh & Ws) ->.
    rewrite verify_tree_eq in H. apply bind_ok in H. destruct H as (u & Hu & H). cbv zeta in H.
    set (sn := match seek with Some s => ds_nodes s | None => [] end) in *.
    assert (Wsn : Forall node_wire sn).
    { unfold sn. destruct seek as [s|]; [apply (Ws s eq_refl)|constructor]. }
    unfold vt_untrusted in Hu. apply bind_ok in Hu. destruct Hu as (i2 & Hi & Hu). injection Hu as <-.
    unfold mul64 in Hi. destruct (fits_u64 (db_index b * 2)) eqn:F; [|discriminate Hi]. injection Hi as <-.
    assert (Hfit : 2 * db_index b <= u64_max) by (unfold fits_u64 in F; lia).
    replace (db_index b * 2) with (2 * db_index b) in H by lia.
    destruct (Wb b eq_refl) as [Wn Wv].
    apply bind_ok in H. destruct H as ([r1 c1] & H1 & H2).
    set (i := db_index b) in *.
    destruct (vt_seek_chain _ _ _ _ H1 Wsn) as [[-> ->]|(n0 & ssteps & e & -> & Rs & Hsch & Hef & _)].
    - (* no seek nodes *)
      destruct (vt_main_shape cr Hhash32 None c (Some (db_value b)) (2 * i) (db_nodes b) root c' H2 Wn
                  ltac:(intros v [= <-]; exact Wv) ltac:(discriminate))
        as (cur & steps & r & -> & Rm & _ & Hch & _ & _ & -> & _).
      exists [], steps, r. cbn [app]. split; [reflexivity|]. split; [exact Rm|]. split; [exact Hch|].
      split; [exact Hfit|]. intros x [].
    - destruct (vt_main_shape cr Hhash32 (Some e) c1 (Some (db_value b)) (2 * i) (db_nodes b) root c' H2 Wn
                  ltac:(intros v [= <-]; exact Wv) ltac:(intros e0 [= <-]; exact Hef))
        as (cur & steps & r & -> & Rm & _ & Hch & _ & _ & -> & Hq).
      exists (n0 :: flat ssteps), steps, r. split; [reflexivity|]. split.
      { rewrite Rm, Rs, rev_app_distr, <- app_assoc. reflexivity. }
      split; [exact Hch|]. split; [exact Hfit|].
      (* the seek root is one of the siblings of the climb *)
      assert (He : In e (map fst steps)) by (apply Hq; right; reflexivity).
      assert (Hcur : n_index (block_node cr (2 * i) (db_value b)) = ft_index (N.of_nat 0) i).
      { cbn [block_node n_index]. change (N.of_nat 0) with 0. symmetry. apply ft_index_leaf. }
      destruct (chain_sibs _ _ _ _ _ Hch Hcur e He) as (K & HK). cbn [Nat.add] in HK.
      pose proof (chain_index cr _ _ _ _ _ Hsch (index_at_nat (n_index n0))) as Hei.
      rewrite HK in Hei. apply ft_index_inj in Hei. destruct Hei as [EK EO].
      intros x Hx Hc.
      destruct (chain_desc _ _ _ _ _ Hsch (index_at_nat (n_index n0)) x Hx) as (d' & o' & k & E1 & E2 & E3).
      apply (covers_at x d' o' i E1) in Hc. subst o'.
      rewrite div_p2_add in E3. rewrite <- EO in E3.
      replace (d' + k)%nat with K in E3 by lia.
      apply (sib_neq (i / p2 K)). symmetry. exact E3.
  Qed.
End Climb.

Lemma proof_wire_root_fits cr (Hhash32 : forall x, length (cr_hash cr x) = 32%nat) pf t :
  proof_wire pf -> tree_root_fits cr pf t.
Proof.
  intros [Wvt _] u root c1 _ Hv. apply (verify_tree_root_u64 cr Hhash32 _ _ _ _ _ _ Hv Wvt).
Qed.


(* ====================================================================================== *)
(* D. The merge forest of an upgrade                                                       *)
(* ====================================================================================== *)

(* pairwise disjoint (as occurrences of a list) *)
Fixpoint pdisj (l : list node) : Prop :=
  match l with
  | [] => True
  | x :: r => (forall y i, In y r -> covers x i -> covers y i -> False) /\ pdisj r
  end.

Lemma pdisj_app a b :
  pdisj (a ++ b) <-> pdisj a /\ pdisj b /\ (forall x y i, In x a -> In y b -> covers x i -> covers y i -> False).
Proof.
  induction a as [|x a IH]; cbn [app pdisj].
  - split; [intros H; split; [exact I|split; [exact H|intros x y i []]]|intros (_ & H & _); exact H].
  - rewrite IH. split.
    + intros (H1 & H2 & H3 & H4). split; [split; [|exact H2]|split; [exact H3|]].
      * intros y i Hy. apply (H1 y i). apply in_or_app. left. exact Hy.
      * intros x' y i [<-|Hx] Hy; [apply (H1 y i); apply in_or_app; right; exact Hy|apply (H4 x' y i Hx Hy)].
    + intros ((H1 & H2) & H3 & H4). split; [|split; [exact H2|split; [exact H3|]]].
      * intros y i Hy. apply in_app_or in Hy. destruct Hy as [Hy|Hy]; [apply (H1 y i Hy)|].
        apply (H4 x y i); [left; reflexivity|exact Hy].
      * intros x' y i Hx Hy. apply (H4 x' y i); [right; exact Hx|exact Hy].
Qed.

(* two members of a pairwise disjoint list that lie above the same block are the same node *)
Lemma pdisj_same l x y i : pdisj l -> In x l -> In y l -> covers x i -> covers y i -> x = y.
Proof.
  induction l as [|z l IH]; intros H Hx Hy Cx Cy; [destruct Hx|]. cbn [pdisj] in H. destruct H as [H1 H2].
  destruct Hx as [<-|Hx], Hy as [<-|Hy].
  - reflexivity.
  - exfalso. apply (H1 y i Hy Cx Cy).
  - exfalso. apply (H1 x i Hx Cy Cx).
  - apply (IH H2 Hx Hy Cx Cy).
Qed.

(* the full roots of a length: pairwise disjoint, and every block below the length lies under one *)
Lemma tiles_lower : forall l a b, tiles l a b ->
  a <= b /\ forall x, In x l -> a <= snd x * p2 (fst x).
Proof.
  induction l as [|x r IH]; intros a b H; cbn [tiles] in H.
  - subst. split; [lia|intros x []].
  - destruct H as [-> H]. destruct (IH _ _ H) as [L1 L2]. pose proof (p2_pos (fst x)). split; [nia|].
    intros y [<-|Hy]; [lia|]. specialize (L2 y Hy). nia.
Qed.

Lemma tiles_cover : forall l a b i, tiles l a b -> a <= i < b ->
  exists x, In x l /\ i / p2 (fst x) = snd x.
Proof.
  induction l as [|x r IH]; intros a b i H Hi; cbn [tiles] in H; [lia|].
  destruct H as [-> H].
  destruct (N.lt_ge_cases i ((snd x + 1) * p2 (fst x))) as [L|L].
  - exists x. split; [left; reflexivity|]. apply div_p2_range. lia.
  - destruct (IH _ _ i H ltac:(lia)) as (y & Hy & E). exists y. split; [right; exact Hy|exact E].
Qed.

Section RefRoots.
  Variable cr : crypto.
  Variable bs : list bytes.

  Lemma covers_rn x i : covers (rn cr bs x) i <-> i / p2 (fst x) = snd x.
  Proof. apply covers_at. unfold rn. apply ref_node_index. Qed.

  Lemma tiles_pdisj : forall l a b, tiles l a b -> pdisj (map (rn cr bs) l).
  Proof.
    induction l as [|x r IH]; intros a b H; cbn [tiles map pdisj] in *; [exact I|].
    destruct H as [-> H]. split; [|apply (IH _ _ H)].
    intros y i Hy Cx Cy. apply in_map_iff in Hy. destruct Hy as (z & <- & Hz).
    apply covers_rn, div_p2_range in Cx. apply covers_rn, div_p2_range in Cy.
    destruct (tiles_lower _ _ _ H) as [_ L2]. specialize (L2 z Hz). lia.
  Qed.

  Lemma ref_roots_pdisj m : pdisj (ref_roots cr bs m).
  Proof. rewrite ref_roots_rrl. apply (tiles_pdisj _ 0 (m * p2 0)). apply tiles_rrl. Qed.

  Lemma ref_roots_cover m i : i < m -> exists G, In G (ref_roots cr bs m) /\ covers G i.
  Proof.
    intros Hi. pose proof (tiles_rrl m 0) as T. rewrite p2_0, N.mul_1_r in T.
    destruct (tiles_cover _ _ _ i T ltac:(lia)) as (x & Hx & E).
    exists (rn cr bs x). split; [rewrite ref_roots_rrl; apply in_map, Hx|apply covers_rn, E].
  Qed.
End RefRoots.

Lemma Forall2_in_r {A B} (R : A -> B -> Prop) l l' :
  Forall2 R l l' -> forall y, In y l' -> exists x, In x l /\ R x y.
Proof.
  induction 1 as [|x y l l' Hxy _ IH]; intros z Hz; [destruct Hz|].
  destruct Hz as [<-|Hz]; [exists x; split; [left; reflexivity|exact Hxy]|].
  destruct (IH z Hz) as (x' & Hx' & Hr). exists x'. split; [right; exact Hx'|exact Hr].
Qed.

Section Forest.
  Variable cr : crypto.
  Hypothesis Hhash32 : forall x, length (cr_hash cr x) = 32%nat.

  (* P is the top of a tree of merges whose leaves are, from the top of the root stack down, ls *)
  Inductive mtree_of : node -> list node -> Prop :=
  | mo_leaf x : mtree_of x [x]
  | mo_merge a b P la lb : merged_of cr a b P -> mtree_of a la -> mtree_of b lb -> mtree_of P (la ++ lb).

  Lemma mtree_covers P ls : mtree_of P ls -> forall l i, In l ls -> covers l i -> covers P i.
  Proof.
    induction 1 as [x|a b P la lb M Ha IHa Hb IHb]; intros l i Hl Hc.
    - destruct Hl as [<-|[]]. exact Hc.
    - apply (merged_covers cr a b P i M). apply in_app_or in Hl. destruct Hl as [Hl|Hl].
      + left. apply (IHa l i Hl Hc).
      + right. apply (IHb l i Hl Hc).
  Qed.

  Lemma mtree_pdisj P ls : mtree_of P ls -> pdisj ls.
  Proof.
    induction 1 as [x|a b P la lb M Ha IHa Hb IHb].
    - cbn [pdisj]. split; [intros y i []|exact I].
    - apply pdisj_app. split; [exact IHa|]. split; [exact IHb|].
      intros x y i Hx Hy Cx Cy.
      apply (merged_disj cr a b P i M); [apply (mtree_covers a la Ha x i Hx Cx)|apply (mtree_covers b lb Hb y i Hy Cy)].
  Qed.

  Lemma forest_pdisj : forall roots lss, Forall2 mtree_of roots lss -> pdisj roots -> pdisj (concat lss).
  Proof.
    induction 1 as [|r ls roots lss Hr Hrest IH]; intros Hd; cbn [concat]; [exact I|].
    cbn [pdisj] in Hd. destruct Hd as [Hd1 Hd2].
    apply pdisj_app. split; [apply (mtree_pdisj r ls Hr)|]. split; [apply IH, Hd2|].
    intros x y i Hx Hy Cx Cy. apply in_concat in Hy. destruct Hy as (ls' & Hls' & Hy).
    destruct (Forall2_in_r _ _ _ Hrest ls' Hls') as (r' & Hr' & Hm').
    apply (Hd1 r' i Hr'); [apply (mtree_covers r ls Hr x i Hx Cx)|apply (mtree_covers r' ls' Hm' y i Hy Cy)].
  Qed.

  Lemma pdisj_rev l : pdisj l -> pdisj (rev l).
  Proof.
    induction l as [|x l IH]; intros H; [exact I|]. cbn [pdisj] in H. destruct H as [H1 H2].
    cbn [rev]. apply pdisj_app. split; [apply IH, H2|]. split; [cbn [pdisj]; split; [intros y i []|exact I]|].
    intros a b i Ha [<-|[]] Ca Cb. apply in_rev in Ha. apply (H1 a i Ha Cb Ca).
  Qed.

  (* ---------- the invariant ---------- *)

  Variable Sq : node -> Prop.             (* the nodes handed to the upgrade *)
  Hypothesis Sq_wf : forall x, Sq x -> length (n_hash x) = 32%nat /\ n_index x < 2 ^ 64.
  Variable c0 : changeset.                (* the changeset the upgrade starts from *)

  (* atoms: the nodes appended so far as roots, newest first; new: everything pushed, newest first *)
  Record FI (c : changeset) (atoms new : list node) : Prop := mkFI {
    fi_wf : Forall root_wf (cs_roots c);
    fi_rnodes : cs_rnodes c = new ++ cs_rnodes c0;
    fi_forest : exists lss, Forall2 mtree_of (rev (cs_roots c)) lss /\ concat lss = atoms ++ rev (cs_roots c0);
    fi_new : Forall (fun P => In P atoms \/ exists a b, merged_of cr a b P) new }.

  Lemma FI_init : Forall root_wf (cs_roots c0) -> FI c0 [] [].
  Proof.
    intros HW. constructor; [exact HW|reflexivity| |constructor].
    exists (map (fun r => [r]) (rev (cs_roots c0))). cbn [app]. split.
    - induction (rev (cs_roots c0)) as [|r l IH]; cbn [map]; constructor; [apply mo_leaf|exact IH].
    - induction (rev (cs_roots c0)) as [|r l IH]; cbn [map concat app]; [reflexivity|]. rewrite IH. reflexivity.
  Qed.

  Lemma merge_forest : forall fuel a rest nodes d o rr nodes' it' la lss,
    merge_roots cr fuel (a :: rest) nodes (it_at (N.of_nat d) o) = Ok (rr, nodes', it') ->
    n_index a = ft_index (N.of_nat d) o -> root_wf a -> Forall root_wf rest ->
    mtree_of a la -> Forall2 mtree_of rest lss ->
    exists lss' new0 k,
      Forall2 mtree_of rr lss' /\ concat lss' = la ++ concat lss /\ Forall root_wf rr /\
      nodes' = new0 ++ nodes /\ Forall (fun P => exists x y, merged_of cr x y P) new0 /\
      it' = it_at (N.of_nat (d + k)) (o / p2 k).
  Proof.
    induction fuel as [|f IH]; intros a rest nodes d o rr nodes' it' la lss H Ia Wa Wr Ta Tr; [discriminate H|].
    assert (Hstop : (rr, nodes', it') = (a :: rest, nodes, it_at (N.of_nat d) o) ->
      exists lss' new0 k,
        Forall2 mtree_of rr lss' /\ concat lss' = la ++ concat lss /\ Forall root_wf rr /\
        nodes' = new0 ++ nodes /\ Forall (fun P => exists x y, merged_of cr x y P) new0 /\
        it' = it_at (N.of_nat (d + k)) (o / p2 k)).
    { intros [= -> -> ->]. exists (la :: lss), [], 0%nat. cbn [concat app].
      rewrite Nat.add_0_r, p2_0, N.div_1_r.
      split; [constructor; assumption|]. split; [reflexivity|]. split; [constructor; assumption|].
      split; [reflexivity|]. split; [constructor|reflexivity]. }
    cbn [merge_roots] in H. destruct rest as [|b rest2].
    { apply Hstop. now injection H as <- <- <-. }
    rewrite it_sibling_at_sib in H. cbn [it_at it_index] in H.
    destruct (N.eqb_spec (ft_index (N.of_nat d) (sib o)) (n_index b)) as [Eb|Eb]; cbn [negb] in H.
    2:{ apply Hstop. now injection H as <- <- <-. }
    clear Hstop. fold (it_at (N.of_nat d) (sib o)) in H. rewrite it_parent_at, sib_div in H.
    replace (N.of_nat d + 1) with (N.of_nat (S d)) in H by lia.
    apply bind_ok in H. destruct H as (l & Hadd & H).
    unfold add64 in Hadd. destruct (fits_u64 (n_length a + n_length b)) eqn:F; [|discriminate Hadd].
    injection Hadd as <-. cbn [it_at it_index] in H. fold (it_at (N.of_nat (S d)) (o / 2)) in H.
    set (P := mkNode (ft_index (N.of_nat (S d)) (o / 2)) (n_length a + n_length b) (parent_hash cr a b)) in *.
    inversion Wr as [|? ? Wb Wr2]; subst.
    inversion Tr as [|? lb ? lss2 Tb Tr2]; subst.
    pose proof Wa as (Wa1 & Wa2 & Wa3). pose proof Wb as (Wb1 & Wb2 & Wb3).
    assert (Hl64 : n_length a + n_length b <= u64_max) by (unfold fits_u64 in F; lia).
    assert (WP : root_wf P).
    { split; [apply Hhash32|]. split; [|apply u64_lt; exact Hl64].
      pose proof (parent_index_lt d o) as Lt. unfold P. cbn [n_index]. rewrite <- Ia, Eb in Lt. lia. }
    assert (MP : merged_of cr a b P).
    { exists d, o. repeat split; auto. }
    destruct (IH P rest2 (P :: nodes) (S d) (o / 2) rr nodes' it' (la ++ lb) lss2 H eq_refl WP Wr2
                (mo_merge a b P la lb MP Ta Tb) Tr2)
      as (lss' & new0 & k & T' & C' & W' & -> & M' & ->).
    exists lss', (new0 ++ [P]), (S k).
    split; [exact T'|]. split; [rewrite C'; cbn [concat]; rewrite app_assoc; reflexivity|].
    split; [exact W'|]. split; [rewrite <- app_assoc; reflexivity|]. split.
    - apply Forall_app. split; [exact M'|]. constructor; [exists a, b; exact MP|constructor].
    - rewrite div_p2_S. f_equal. lia.
  Qed.

  Lemma append_root_forest c atoms new n d o c' it' :
    append_root cr c n (it_at (N.of_nat d) o) = Ok (c', it') ->
    n_index n = ft_index (N.of_nat d) o -> Sq n -> FI c atoms new ->
    exists new0 k, FI c' (n :: atoms) (new0 ++ n :: new) /\ it' = it_at (N.of_nat (d + k)) (o / p2 k).
  Proof.
    intros H Hidx Sn [U1 U2 (lss & T & C) U4].
    unfold append_root in H. apply bind_ok in H. destruct H as (bl & Hbl & H).
    apply bind_ok in H. destruct H as ([[rr nr] it1] & Hm & H). injection H as <- <-.
    unfold add64 in Hbl. destruct (fits_u64 (cs_byte_length c + n_length n)) eqn:F; [|discriminate Hbl].
    injection Hbl as <-.
    destruct (Sq_wf n Sn) as [Sn1 Sn2].
    assert (Wn : root_wf n).
    { split; [exact Sn1|]. split; [exact Sn2|]. apply u64_lt. unfold fits_u64 in F. lia. }
    destruct (merge_forest _ _ _ _ _ _ _ _ _ [n] lss Hm Hidx Wn (Forall_rev U1) (mo_leaf n) T)
      as (lss' & new0 & k & T' & C' & W' & -> & M' & ->).
    exists new0, k. split; [|reflexivity].
    constructor; cbn [cs_roots cs_rnodes].
    - apply Forall_rev. exact W'.
    - rewrite U2, <- app_assoc. reflexivity.
    - exists lss'. rewrite rev_involutive. split; [exact T'|]. rewrite C', C. reflexivity.
    - apply Forall_app. split.
      + eapply Forall_impl; [|exact M']. intros P HP. right. exact HP.
      + constructor; [left; left; reflexivity|].
        eapply Forall_impl; [|exact U4]. intros P [HP|HP]; [left; right; exact HP|right; exact HP].
  Qed.

  Lemma grow_loop_f : forall fuel c atoms new q d o ri c' q' it',
    grow_loop cr fuel c q (it_at (N.of_nat d) o) ri = Ok (c', q', it') ->
    FI c atoms new -> Forall Sq (q_list q) ->
    exists atoms1 new1, FI c' (atoms1 ++ atoms) (new1 ++ new) /\ Forall Sq (q_list q') /\
      qtrackh q q' (atoms1 ++ atoms) /\
      exists d' o', it' = it_at (N.of_nat d') o' /\ ft_index (N.of_nat d') o' = ri.
  Proof.
    induction fuel as [|f IH]; intros c atoms new q d o ri c' q' it' H U Hq; [discriminate H|].
    cbn [grow_loop] in H. cbn [it_at it_index] in H.
    destruct (N.eqb_spec (ft_index (N.of_nat d) o) ri) as [E|E].
    - injection H as <- <- <-. exists [], []. split; [exact U|]. split; [exact Hq|].
      split; [apply qtrackh_refl|]. exists d, o. split; [reflexivity|exact E].
    - fold (it_at (N.of_nat d) o) in H. rewrite it_sibling_at_sib in H.
      apply bind_ok in H. destruct H as ([n q1] & Hs & H).
      apply bind_ok in H. destruct H as ([c1 it1] & Ha & H).
      pose proof Hs as Hs0. apply q_shift_inv in Hs. destruct Hs as (Hn & _ & HF). cbn [it_at it_index] in Hn.
      apply HF in Hq. destruct Hq as [Sn Hq1].
      destruct (append_root_forest c atoms new n d (sib o) c1 it1 Ha Hn Sn U) as (new0 & k & U1 & ->).
      destruct (IH c1 (n :: atoms) (new0 ++ n :: new) q1 (d + k)%nat (sib o / p2 k) ri c' q' it' H U1 Hq1)
        as (atoms1 & new1 & U2 & Hq2 & Ht & Hit).
      exists (atoms1 ++ [n]), (new1 ++ new0 ++ [n]).
      replace ((atoms1 ++ [n]) ++ atoms) with (atoms1 ++ n :: atoms) by (rewrite <- app_assoc; reflexivity).
      replace ((new1 ++ new0 ++ [n]) ++ new) with (new1 ++ new0 ++ n :: new)
        by (rewrite <- !app_assoc; reflexivity).
      split; [exact U2|]. split; [exact Hq2|]. split; [|exact Hit].
      apply (qtrackh_step q q1 q' n); try assumption.
      + intros e He. apply (q_shift_extra _ _ _ _ _ Hs0 He).
      + intros He. apply (q_shift_extra_none _ _ _ _ Hs0 He).
      + apply in_or_app. right. left. reflexivity.
  Qed.

  Section UrlF.
  Variable to : N.
  Hypothesis Hto : to mod 2 = 0.

  Lemma url_f : forall fuel c atoms new q x i (grow : bool) c' q' it',
    SoundCoreUp.Jx to x ->
    upgrade_roots_loop cr fuel c q (mkIter x (x / 2) 2) to i grow = Ok (c', q', it') ->
    FI c atoms new -> Forall Sq (q_list q) ->
    exists atoms1 new1, FI c' (atoms1 ++ atoms) (new1 ++ new) /\ Forall Sq (q_list q') /\
      qtrackh q q' (atoms1 ++ atoms).
  Proof.
    induction fuel as [|f IH]; intros c atoms new q x i grow c' q' it' HJ H U Hq; [discriminate H|].
    cbn [upgrade_roots_loop] in H.
    destruct (it_full_root (mkIter x (x / 2) 2) to) as [found it1] eqn:Efr.
    destruct (SoundCoreUp.full_root_at to x found it1 Hto HJ Efr) as [->|(-> & d & o & -> & Ho & Ex0 & Hstop & HJ')].
    { cbn [negb] in H. injection H as <- <- <-. exists [], []. split; [exact U|]. split; [exact Hq|apply qtrackh_refl]. }
    cbn [negb] in H.
    assert (Hnext : it_next_tree (it_at (N.of_nat d) o) =
                    mkIter (x + 2 * p2 d) ((x + 2 * p2 d) / 2) 2).
    { rewrite it_next_tree_at. replace (2 * ((o + 1) * p2 d)) with (x + 2 * p2 d) by lia. reflexivity. }
    assert (Happ : forall i0,
      ('(n, q1) <- q_shift q (it_index (it_at (N.of_nat d) o)) ;;
       '(c1, it2) <- append_root cr c n (it_at (N.of_nat d) o) ;;
       upgrade_roots_loop cr f c1 q1 (it_next_tree it2) to i0 false) = Ok (c', q', it') ->
      exists atoms1 new1, FI c' (atoms1 ++ atoms) (new1 ++ new) /\ Forall Sq (q_list q') /\
        qtrackh q q' (atoms1 ++ atoms)).
    { intros i0 H0.
      apply bind_ok in H0. destruct H0 as ([n q1] & Hs & H0).
      apply bind_ok in H0. destruct H0 as ([c1 it2] & Ha & H0).
      pose proof Hs as Hs0. apply q_shift_inv in Hs. destruct Hs as (Hn & _ & HF). cbn [it_at it_index] in Hn.
      pose proof Hq as Hq'. apply HF in Hq'. destruct Hq' as [Sn Hq1].
      destruct (append_root_forest c atoms new n d o c1 it2 Ha Hn Sn U) as (new0 & k & U1 & ->).
      assert (Hrec : exists atoms1 new1, FI c' (atoms1 ++ n :: atoms) (new1 ++ new0 ++ n :: new) /\
                                  Forall Sq (q_list q') /\ qtrackh q1 q' (atoms1 ++ n :: atoms)).
      { destruct k as [|k].
        - rewrite Nat.add_0_r, p2_0, N.div_1_r, Hnext in H0. apply (IH _ _ _ _ _ _ _ _ _ _ HJ' H0 U1 Hq1).
        - rewrite it_next_tree_at in H0.
          refine (IH _ _ _ _ _ _ _ _ _ _ _ H0 U1 Hq1).
          split; [lia|]. left.
          pose proof (SoundCoreUp.merged_end_beyond o d (S k) Ho ltac:(lia)). lia. }
      destruct Hrec as (atoms1 & new1 & U2 & Hq2 & Ht).
      exists (atoms1 ++ [n]), (new1 ++ new0 ++ [n]).
      replace ((atoms1 ++ [n]) ++ atoms) with (atoms1 ++ n :: atoms) by (rewrite <- app_assoc; reflexivity).
      replace ((new1 ++ new0 ++ [n]) ++ new) with (new1 ++ new0 ++ n :: new)
        by (rewrite <- !app_assoc; reflexivity).
      split; [exact U2|]. split; [exact Hq2|].
      apply (qtrackh_step q q1 q' n); try assumption.
      + intros e He. apply (q_shift_extra _ _ _ _ _ Hs0 He).
      + intros He. apply (q_shift_extra_none _ _ _ _ Hs0 He).
      + apply in_or_app. right. left. reflexivity. }
    destruct (nth_error (cs_roots c) i) as [r0|].
    - destruct (n_index r0 =? it_index (it_at (N.of_nat d) o)).
      + rewrite Hnext in H. apply (IH _ _ _ _ _ _ _ _ _ _ HJ' H U Hq).
      + destruct grow.
        * apply bind_ok in H. destruct H as (li & Hli & H).
          apply bind_ok in H. destruct H as ([[c1 q1] it2] & Hg & H).
          rewrite it_new_at_nat in Hg.
          destruct (grow_loop_f _ _ _ _ _ _ _ _ _ _ _ Hg U Hq) as (atoms0 & new0 & U1 & Hq1 & Ht1 & d' & o' & -> & Ei).
          cbn [it_at it_index] in Ei. apply ft_index_inj in Ei. destruct Ei as [Ed ->].
          assert (d' = d) by lia. subst d'.
          rewrite Hnext in H.
          destruct (IH _ _ _ _ _ _ _ _ _ _ HJ' H U1 Hq1) as (atoms1 & new1 & U2 & Hq2 & Ht2).
          exists (atoms1 ++ atoms0), (new1 ++ new0). rewrite <- !app_assoc. split; [exact U2|]. split; [exact Hq2|].
          apply (qtrackh_trans q q1 q' (atoms0 ++ atoms)); [|exact Ht1|exact Ht2].
          intros y Hy. apply in_or_app. right. exact Hy.
        * apply (Happ i H).
    - apply (Happ i H).
  Qed.
  End UrlF.

  Lemma extra_siblings_f : forall extra c atoms new d o c' it' rest,
    extra_siblings cr c (it_at (N.of_nat d) o) extra = Ok (c', it', rest) ->
    FI c atoms new -> Forall Sq extra ->
    exists atoms1 new1, FI c' (atoms1 ++ atoms) (new1 ++ new) /\ Forall Sq rest /\
      exists d' o', it' = it_at (N.of_nat d') o'.
  Proof.
    induction extra as [|n r IH]; intros c atoms new d o c' it' rest H U Hq; cbn [extra_siblings] in H.
    - injection H as <- <- <-. exists [], []. split; [exact U|]. split; [constructor|]. eauto.
    - rewrite it_sibling_at_sib in H. cbn [it_at it_index] in H.
      destruct (N.eqb_spec (n_index n) (ft_index (N.of_nat d) (sib o))) as [E|E].
      + fold (it_at (N.of_nat d) (sib o)) in H.
        apply bind_ok in H. destruct H as ([c1 it1] & Ha & H).
        inversion Hq as [|? ? Sn Hq1]; subst.
        destruct (append_root_forest c atoms new n d (sib o) c1 it1 Ha E Sn U) as (new0 & k & U1 & ->).
        destruct (IH _ _ _ _ _ _ _ _ H U1 Hq1) as (atoms1 & new1 & U2 & Hr & Hit).
        exists (atoms1 ++ [n]), (new1 ++ new0 ++ [n]).
        replace ((atoms1 ++ [n]) ++ atoms) with (atoms1 ++ n :: atoms) by (rewrite <- app_assoc; reflexivity).
        replace ((new1 ++ new0 ++ [n]) ++ new) with (new1 ++ new0 ++ n :: new)
          by (rewrite <- !app_assoc; reflexivity).
        split; [exact U2|]. split; [exact Hr|exact Hit].
      + injection H as <- <- <-. exists [], []. split; [exact U|]. split; [exact Hq|].
        exists d, (sib o). reflexivity.
  Qed.

  Lemma extra_rest_f : forall extra c atoms new d o c' it',
    extra_rest cr c (it_at (N.of_nat d) o) extra = Ok (c', it') ->
    FI c atoms new -> Forall Sq extra ->
    exists atoms1 new1, FI c' (atoms1 ++ atoms) (new1 ++ new).
  Proof.
    induction extra as [|n r IH]; intros c atoms new d o c' it' H U Hq; cbn [extra_rest] in H.
    - injection H as <- <-. exists [], []. exact U.
    - apply bind_ok in H. destruct H as (it1 & Hd & H).
      apply bind_ok in H. destruct H as ([c1 it2] & Ha & H).
      destruct (AnyProofUp.descend_to_at _ _ _ _ _ Hd) as (d1 & o1 & -> & Ei).
      inversion Hq as [|? ? Sn Hq1]; subst.
      destruct (append_root_forest c atoms new n d1 o1 c1 it2 Ha (eq_sym Ei) Sn U) as (new0 & k & U1 & ->).
      rewrite it_sibling_at_sib in H.
      destruct (IH _ _ _ _ _ _ _ H U1 Hq1) as (atoms1 & new1 & U2).
      exists (atoms1 ++ [n]), (new1 ++ new0 ++ [n]).
      replace ((atoms1 ++ [n]) ++ atoms) with (atoms1 ++ n :: atoms) by (rewrite <- app_assoc; reflexivity).
      replace ((new1 ++ new0 ++ [n]) ++ new) with (new1 ++ new0 ++ n :: new)
        by (rewrite <- !app_assoc; reflexivity).
      exact U2.
  Qed.
End Forest.

(* verify_upgrade: the appended nodes (atoms) are the leaves, beside the roots the upgrade started from, of
   a merge forest whose tops are the final roots; every pushed node is an atom or a computed parent; the
   root of the tree sections, when consumed, is one of the atoms *)
Section VerifyUpgradeF.
  Variable cr : crypto.
  Hypothesis Hhash32 : forall x, length (cr_hash cr x) = 32%nat.

  Lemma verify_upgrade_forest c1 fork u root pk consumed c4 :
    Forall root_wf (cs_roots c1) ->
    Forall node_wire (du_nodes u) -> Forall node_wire (du_additional u) ->
    (forall r0, root = Some r0 -> hash32 r0 /\ n_index r0 < 2 ^ 64) ->
    verify_upgrade cr fork u root pk c1 = Ok (consumed, c4) ->
    exists atoms new lss,
      cs_rnodes c4 = new ++ cs_rnodes c1 /\
      Forall2 (mtree_of cr) (rev (cs_roots c4)) lss /\ concat lss = atoms ++ rev (cs_roots c1) /\
      Forall (fun P => In P atoms \/ exists a b, merged_of cr a b P) new /\
      (forall r0, root = Some r0 -> consumed = true -> In r0 atoms).
  Proof.
    intros HW Wn Wa Hroot H.
    unfold verify_upgrade in H.
    apply bind_ok in H. destruct H as (sl & _ & H).
    apply bind_ok in H. destruct H as (to & Hto & H).
    apply bind_ok in H. destruct H as ([[c2 q1] itx] & Hurl & H).
    apply bind_ok in H. destruct H as (li & _ & H).
    apply bind_ok in H. destruct H as ([[c2' it2] rest] & Hes & H).
    apply bind_ok in H. destruct H as ([c3 it3] & Her & H).
    apply bind_ok in H. destruct H as (c4' & Hsig & H). injection H as Econs <-.
    assert (Eto : to mod 2 = 0).
    { unfold mul64 in Hto. destruct (fits_u64 (2 * sl)); [|discriminate Hto]. injection Hto as <-. lia. }
    set (Sq := up_supplied u root).
    assert (Sq_wf : forall x, Sq x -> length (n_hash x) = 32%nat /\ n_index x < 2 ^ 64).
    { intros x [Hx|[Hx|Hx]].
      - rewrite Forall_forall in Wn. destruct (Wn x Hx) as [[A _] B]. split; [exact A|apply u64_lt, B].
      - rewrite Forall_forall in Wa. destruct (Wa x Hx) as [[A _] B]. split; [exact A|apply u64_lt, B].
      - apply Hroot. symmetry. exact Hx. }
    assert (Hq0 : Forall Sq (q_list (mkQ (du_nodes u) root))).
    { unfold q_list. cbn [q_nodes q_extra]. apply Forall_app. split.
      - apply Forall_forall. intros x Hx. left. exact Hx.
      - destruct root as [r0|]; [constructor; [right; right; reflexivity|constructor]|constructor]. }
    change (it_new 0) with (mkIter 0 (0 / 2) 2) in Hurl.
    assert (HJ : SoundCoreUp.Jx to 0) by (split; [reflexivity|right; apply SoundCoreUp.aligned_0]).
    destruct (url_f cr Hhash32 Sq Sq_wf c1 to Eto _ _ [] [] _ _ _ _ _ _ _ HJ Hurl
                (FI_init cr c1 HW) Hq0) as (atoms1 & new1 & U1 & _ & Ht).
    rewrite app_nil_r in U1, Ht. rewrite app_nil_r in U1.
    rewrite it_new_at_nat in Hes.
    assert (Hadd : Forall Sq (du_additional u)).
    { apply Forall_forall. intros x Hx. right. left. exact Hx. }
    destruct (extra_siblings_f cr Hhash32 Sq Sq_wf c1 _ _ _ _ _ _ _ _ _ Hes U1 Hadd)
      as (atoms2 & new2 & U2 & Hrest & d2 & o2 & ->).
    destruct (extra_rest_f cr Hhash32 Sq Sq_wf c1 _ _ _ _ _ _ _ _ Her U2 Hrest) as (atoms3 & new3 & U3).
    destruct U3 as [B1 B2 (lss & T & C) B4].
    assert (Efields : cs_rnodes c4' = cs_rnodes c3 /\ cs_roots c4' = cs_roots c3).
    { unfold cs_verify_and_set_signature in Hsig. apply bind_ok in Hsig. destruct Hsig as (s0 & _ & Hs0).
      match type of Hs0 with (if ?v then _ else _) = _ => destruct v end; [|discriminate Hs0].
      injection Hs0 as <-. cbn. split; reflexivity. }
    destruct Efields as (E1 & E2).
    exists (atoms3 ++ atoms2 ++ atoms1), (new3 ++ new2 ++ new1), lss.
    split; [rewrite E1; exact B2|]. split; [rewrite E2; exact T|]. split; [exact C|]. split; [exact B4|].
    intros r0 -> Hc. unfold qtrackh in Ht. cbn [q_extra] in Ht.
    destruct Ht as [E|[_ Hin]].
    - rewrite E in Econs. subst consumed. discriminate Hc.
    - apply in_or_app. right. apply in_or_app. right. exact Hin.
  Qed.
End VerifyUpgradeF.


(* ====================================================================================== *)
(* E. The nodes of an accepted changeset above the carried block have the writer's sizes    *)
(* ====================================================================================== *)

Section PathSizes.
  Variable cr : crypto.
  Hypothesis Hhash32 : forall x, length (cr_hash cr x) = 32%nat.
  Variable bs : list bytes.
  Hypothesis Hw : writer_fits bs.

  Lemma chain_root_in : forall steps cur root, chain cr cur steps root -> In root (cur :: flat steps).
  Proof.
    induction steps as [|[n p] steps IH]; intros cur root H; cbn [chain flat] in *.
    - subst. left. reflexivity.
    - destruct H as [_ H]. right. right. apply (IH p root H).
  Qed.

  Theorem accepted_path_sizes t tf pf pk cs m b :
    t_length t <= N.of_nat (length bs) ->
    t_roots t = ref_roots cr bs (t_length t) ->
    hunfl_sound cr bs t (t_length t) -> hfile_sound cr bs tf (t_length t) ->
    proof_wire pf -> tree_root_fits cr pf t ->
    verify_proof cr t tf pf pk = Ok cs -> accepted cr bs t tf pf pk cs m ->
    p_block pf = Some b ->
    (path_sizes cr bs (cs_nodes cs) (db_index b) /\ 2 * db_index b <= u64_max) \/ some_collision cr.
  Proof.
    intros Hr HR Hu Hf [Wvt Wup] Hfits V Acc Eb.
    apply verify_proof_accept_inv in V. destruct V as (root & c1 & Hv & H).
    pose proof (verify_tree_frame cr _ _ _ _ _ _ Hv) as (_ & _ & _ & _ & _ & F6 & _).
    cbn [tree_changeset cs_roots] in F6.
    destruct (verify_tree_block cr Hhash32 _ _ _ _ _ _ b Hv Wvt Eb) as (vs & steps & r & Eroot & Rv & Hch & Hfit & Hvs).
    cbn [tree_changeset cs_rnodes] in Rv. rewrite app_nil_r in Rv.
    set (i := db_index b) in *. set (cur := block_node cr (2 * i) (db_value b)) in *.
    assert (Hcur : n_index cur = ft_index (N.of_nat 0) i).
    { unfold cur. cbn [block_node n_index]. change (N.of_nat 0) with 0. symmetry. apply ft_index_leaf. }
    (* what remains once the list of pushed nodes is known *)
    assert (Hfinish : forall extra,
      cs_nodes cs = (vs ++ cur :: flat steps) ++ extra ->
      (forall x, In x extra -> covers x i -> wsize cr bs x \/ some_collision cr \/
                                             (x = r) \/ exists a b', merged_of cr a b' x) ->
      (path_sizes cr bs (cs_nodes cs) i /\ 2 * i <= u64_max) \/ some_collision cr).
    { intros extra En Hextra.
      assert (Hin : forall x, In x ((vs ++ cur :: flat steps) ++ extra) -> In x (spool t cs)).
      { intros x Hx. unfold spool. apply in_or_app. right. rewrite En. exact Hx. }
      assert (Hsb : forall x, In x (cs_nodes cs) -> size_bound cr t pf cs x -> wsize cr bs x \/ some_collision cr).
      { intros x Hx Hb. apply (size_bound_sound cr Hhash32 bs Hw t tf pf pk cs m Acc HR x Hb).
        unfold spool. apply in_or_app. right. exact Hx. }
      assert (Hchain : forall x, In x (cur :: flat steps) -> covers x i -> wsize cr bs x \/ some_collision cr).
      { intros x Hx Hc.
        assert (Hxn : In x (cs_nodes cs)).
        { rewrite En. apply in_or_app. left. apply in_or_app. right. exact Hx. }
        destruct Hx as [<-|Hx].
        - apply (Hsb cur Hxn). apply sb_leaf. exists b. split; [exact Eb|reflexivity].
        - pose proof (chain_made cr _ _ _ Hch) as Hm. rewrite Forall_forall in Hm.
          destruct (Hm x Hx) as [Hs|(a & b' & M & _)].
          + exfalso. destruct (chain_sibs cr _ _ _ _ _ Hch Hcur x Hs) as (k & Hk). cbn [Nat.add] in Hk.
            apply (covers_at x k _ i Hk) in Hc. apply (sib_neq (i / p2 k)). symmetry. exact Hc.
          + apply (Hsb x Hxn). apply (sb_computed cr t pf cs a b' x M). }
      assert (Hall : Forall (fun x => covers x i -> wsize cr bs x) (cs_nodes cs) \/ some_collision cr).
      { apply Forall_or_ext. intros x Hx. rewrite En in Hx.
        apply in_app_or in Hx. destruct Hx as [Hx|Hx].
        - apply in_app_or in Hx. destruct Hx as [Hx|Hx].
          + left. intros Hc. exfalso. apply (Hvs x Hx Hc).
          + destruct (classic_covers x i) as [Hc|Hn]; [|left; intros Hc; contradiction].
            destruct (Hchain x Hx Hc) as [A|C]; [left; intros _; exact A|right; exact C].
        - destruct (classic_covers x i) as [Hc|Hn]; [|left; intros Hc; contradiction].
          destruct (Hextra x Hx Hc) as [A|[C|[->|(a & b' & M)]]].
          + left. intros _. exact A.
          + right. exact C.
          + destruct (Hchain r (chain_root_in _ _ _ Hch) Hc) as [A|C]; [left; intros _; exact A|right; exact C].
          + assert (Hxn : In x (cs_nodes cs)) by (rewrite En; apply in_or_app; right; exact Hx).
            destruct (Hsb x Hxn (sb_computed cr t pf cs a b' x M)) as [A|C]; [left; intros _; exact A|right; exact C]. }
      destruct Hall as [Hall|C]; [left|right; exact C].
      split; [|exact Hfit]. intros x Hx. rewrite Forall_forall in Hall. apply (Hall x Hx). }
    destruct (p_upgrade pf) as [u|] eqn:Eu.
    - (* with an upgrade section *)
      destruct H as (consumed & c3 & Hvu & _ & _ & _ & _ & _ & Hst).
      destruct (Wup u eq_refl) as [Wn Wa].
      assert (Hri : n_index r = ft_index (N.of_nat (length steps)) (i / p2 (length steps))).
      { apply (chain_index cr _ _ _ 0%nat i Hch Hcur). }
      assert (Hrc : covers r i) by (apply (covers_at r _ _ i Hri); reflexivity).
      assert (Hroot : forall r0, root = Some r0 -> hash32 r0 /\ n_index r0 < 2 ^ 64).
      { intros r0 E. rewrite Eroot in E. injection E as <-. split.
        - apply (chain_root_hash32 cr Hhash32 _ _ _ Hch). unfold hash32, cur. cbn [block_node n_hash]. apply Hhash32.
        - apply u64_lt. apply (Hfits u r c1 Eu). rewrite <- Eroot. exact Hv. }
      assert (HW1 : Forall root_wf (cs_roots c1)).
      { rewrite F6, HR. apply Forall_forall. intros x Hx. apply (ref_root_facts cr Hhash32 bs Hw _ x Hr Hx). }
      destruct (verify_upgrade_forest cr Hhash32 c1 (p_fork pf) u root pk consumed cs HW1 Wn Wa Hroot Hvu)
        as (atoms & new & lss & Rn & T & C & Hnew & Hcons).
      assert (Hpd : pdisj (atoms ++ rev (cs_roots c1))).
      { rewrite <- C. apply (forest_pdisj cr _ _ T). apply pdisj_rev.
        rewrite (ac_roots _ _ _ _ _ _ _ _ Acc). apply ref_roots_pdisj. }
      apply (Hfinish (rev new)).
      + rewrite cs_nodes_rnodes, Rn, Rv, rev_app_distr, rev_involutive. reflexivity.
      + intros x Hx Hc. apply in_rev in Hx. rewrite Forall_forall in Hnew.
        destruct (Hnew x Hx) as [Hat|M]; [|right; right; right; exact M].
        destruct consumed.
        * (* the root of the tree sections is an atom: the only one above block i *)
          right. right. left.
          pose proof (Hcons r Eroot eq_refl) as Hra.
          apply (pdisj_same _ x r i Hpd); try assumption; apply in_or_app; left; assumption.
        * (* the root of the tree sections lies inside the old tree, whose roots are disjoint from the atoms *)
          exfalso.
          pose proof (stored_hauth cr bs t tf _ r Hu Hf (Hst eq_refl r Eroot)) as [_ Hil].
          rewrite Hri in Hil. apply in_len_index in Hil.
          pose proof (div_p2_bounds i (length steps)) as Bd.
          destruct (ref_roots_cover cr bs (t_length t) i ltac:(lia)) as (G & HG & HGc).
          apply pdisj_app in Hpd. destruct Hpd as (_ & _ & Hcross).
          apply (Hcross x G i Hat); [|exact Hc|exact HGc].
          apply -> in_rev. rewrite F6, HR. exact HG.
    - (* no upgrade section *)
      destruct H as [-> _].
      apply (Hfinish []).
      + rewrite cs_nodes_rnodes, Rv, rev_involutive, app_nil_r. reflexivity.
      + intros x [].
  Qed.
End PathSizes.

Print Assumptions byte_offset_in_changeset_returns.
Print Assumptions verify_tree_block.
Print Assumptions proof_wire_root_fits.
Print Assumptions verify_upgrade_forest.
Print Assumptions ref_roots_pdisj.
Print Assumptions ref_roots_cover.
Print Assumptions accepted_path_sizes.

(* ConstTieHash.v — source-derived constants the Merkle / signature scheme depends on (pinned in props/C05.v). *)
From HC Require Import Base Codec CodecFacts Crypto Storage Bitfield Oplog Merkle OplogFacts SrcConsts ConstTie.
From Coq Require Import Lia.

Lemma tie_tree_ns : tied src_TREE TREE_NS.                                            Proof. tie. Qed.

(* the type bytes of the three hash layouts, read off the preimages the model builds *)
Lemma tie_leaf_type : tied src_LEAF_TYPE (firstn 1 (leaf_preimage [])).            Proof. tie. Qed.
Lemma tie_parent_type (a b : node) :
  tied src_PARENT_TYPE (firstn 1 (parent_preimage a b)).
Proof. unfold parent_preimage. destruct (n_index a <=? n_index b); tie. Qed.
Lemma tie_root_type : tied src_ROOT_TYPE (firstn 1 (tree_preimage [])).               Proof. tie. Qed.

Theorem source_hash_constants_are_the_models :
  tied src_TREE TREE_NS /\
  tied src_LEAF_TYPE (firstn 1 (leaf_preimage [])) /\ tied src_ROOT_TYPE (firstn 1 (tree_preimage [])) /\
  (forall a b, tied src_PARENT_TYPE (firstn 1 (parent_preimage a b))).
Proof.
  repeat split; try tie; intros; apply tie_parent_type.
Qed.
Print Assumptions source_hash_constants_are_the_models.

(* AnyReopenB.v -- library for AnyReopen1.v, part B: the invariant over MEMORY AND THE FOUR STORES.

   HInvR (AnyReopenA.v) speaks about the tree in memory and the tree store only; whether a reopen succeeds
   depends on the oplog store (header, pending entries), and what it reconstructs depends on the nodes
   those entries carry.  HDInvR c d H is ReplicaDisk1.RDInv with SoundCore.RInv replaced by HInvR and the
   description of the pending entries taken at the hash level:
     - HInvR c d; every non-blank record of the tree store has a u64 size (hfile_fit); the roots of the
       current length can be looked up (roots_avail);
     - H is the held set: bitfield in memory = H, every held index below the length, contiguous hint exact;
     - the oplog store holds a header hf (length kf, fork 0, signature empty or 64 bytes) and the entries l
       logged since; the oplog state in memory matches; the header in memory describes the current length;
     - hchain: each pending entry takes the replica from a length a to a length m <= |bs|, its nodes carry the
       writer's hashes (sizes free), an upgrade entry has fork 0, a 64-byte signature, and the roots of m can be
       looked up once its nodes are added; the unflushed map is what a replay of the entries builds;
     - the roots of kf are in the tree store as non-blank records; the bitfield store replays to H.
   This file: definitions, facts about the tree store under node writes, RDInv -> HDInvR, the fresh replica. *)
From HC Require Import Base NMap Codec CodecFacts Crypto FlatTree Storage Bitfield Oplog Merkle Core.
From HC Require Import FlatTreeFacts StorageFacts BitfieldFacts OplogFacts TreeRef OffsetFacts CoreFacts Crash Refine.
From HC Require Import ClearRefine Reopen ContigBridge Unified1 Unified2 CrashCore1 CrashClear1.
From HC Require Import Sound NoPanic Replicate SoundCoreLib SoundCore SoundCoreUp SoundCoreBU NoPanic2.
From HC Require Import ReplicaDisk1 ReplicaDisk2 ReplicaDisk3 AcceptAllFlush AnyProofLib AnyProofUp AnyProof AnyReopenA.
From Coq Require Import FMapPositive ZifyN ZifyNat ZifyBool.
Ltac Zify.zify_post_hook ::= Z.div_mod_to_equations.
Arguments N.add : simpl never.
Arguments N.sub : simpl never.
Arguments N.mul : simpl never.
Arguments N.div : simpl never.
Arguments N.modulo : simpl never.
Arguments N.pow : simpl never.
Arguments N.eqb : simpl never.
Arguments N.ltb : simpl never.
Arguments N.leb : simpl never.
Arguments N.max : simpl never.
Arguments N.min : simpl never.
Arguments N.of_nat : simpl never.
Arguments N.to_nat : simpl never.

(* ====================================================================================== *)
(* A. Definitions                                                                          *)
(* ====================================================================================== *)

(* every non-blank record of the tree store carries a u64 size *)
Definition hfile_fit (tf : file) : Prop :=
  forall j data, f_read tf (NODE_SIZE * j) NODE_SIZE = Some data ->
    node_blank (node_from_bytes j data) = false -> n_length (node_from_bytes j data) <= u64_max.

(* the roots of length r can be looked up *)
Definition roots_avail (t : mtree) (tf : file) (r : N) : Prop :=
  forall i, In i (ft_full_roots (2 * r)) -> exists x, required_node t tf i = Ok x.

(* the records of the roots of length kf are in the tree store and not blank (what MerkleTree::open reads) *)
Definition store_rootsH (tf : file) (kf : N) : Prop :=
  forall i, In i (ft_full_roots (2 * kf)) ->
    exists data, f_read tf (NODE_SIZE * i) NODE_SIZE = Some data /\ node_blank (node_from_bytes i data) = false.

Section DefsH.
  Variable cr : crypto.
  Variable bs : list bytes.               (* the writer's blocks *)

  (* sg is a signature, valid under pk, of the message the writer signed at length r *)
  Definition wsig (pk : bytes) (r : N) (sg : bytes) : Prop :=
    cr_verify cr pk (signable (tree_hash cr (ref_roots cr bs r)) r 0) sg = true.

  (* a header of a replica with public key pk (no secret key) describing length r: fork 0, a root hash of at most
     32 bytes (its content is not looked at by open), no signature at length 0 or a 64-byte signature of the
     writer's message at length r *)
  Definition hdrH (pk : bytes) (h : header) (r : N) : Prop :=
    header_ok h = true /\ hd_keypair h = mkKeypair pk None /\
    ht_fork (hd_tree h) = 0 /\ ht_length (hd_tree h) = r /\
    len (ht_root_hash (hd_tree h)) <= 32 /\
    ((r = 0 /\ ht_signature (hd_tree h) = []) \/
     (length (ht_signature (hd_tree h)) = 64%nat /\ wsig pk r (ht_signature (hd_tree h)))).

  (* the signature the tree carries: none needed at length 0, else the writer's signature for this length *)
  Definition tsigH (pk : bytes) (t : mtree) : Prop :=
    t_length t = 0 \/
    exists sg, t_signature t = Some sg /\ length sg = 64%nat /\ wsig pk (t_length t) sg.

  (* the entry logged by a proof application that took the replica from length a to length m; U = the nodes of
     the entries logged before it since the last flush, tf = the tree store *)
  Definition hdesc (pk : bytes) (tf : file) (U : list node) (a : N) (e : entry) (m : N) : Prop :=
    a <= m /\ m <= N.of_nat (length bs) /\
    Forall (fun x => hauth cr bs m x /\ node_fit x) (e_nodes e) /\
    match e_upgrade e with
    | None => m = a
    | Some u =>
        tu_fork u = 0 /\ tu_length u = m /\ a <= tu_ancestors u /\
        length (tu_signature u) = 64%nat /\ bytes_ok (tu_signature u) = true /\ wsig pk m (tu_signature u) /\
        (* the roots of the new length can be looked up *)
        (forall i, In i (ft_full_roots (2 * m)) -> exists x, required_node (tU (U ++ e_nodes e)) tf i = Ok x)
    end /\
    match e_bitfield e with
    | None => True
    | Some u => bu_drop u = false /\ bu_length u = 1 /\ bu_start u < m
    end.

  Fixpoint hchain (pk : bytes) (tf : file) (U : list node) (a : N) (l : list entry) (b : N) : Prop :=
    match l with
    | [] => a = b
    | e :: r => exists m, hdesc pk tf U a e m /\ hchain pk tf (U ++ e_nodes e) m r b
    end.

  (* memory and disk between two calls; H = the held set *)
  Definition HDInvR (c : core) (d : disk) (H : N -> bool) : Prop :=
    let r := t_length (c_tree c) in
    let pk := kp_public (c_keypair c) in
    HInvR cr bs c d /\ hfile_fit (d_tree d) /\ roots_avail (c_tree c) (d_tree d) r /\
    tsigH pk (c_tree c) /\
    (forall i, H i = true -> i < r) /\
    (forall i, bf_get (c_bitfield c) i = H i) /\
    fexact H (hd_contig (c_header c)) /\
    c_keypair c = mkKeypair pk None /\
    hdrH pk (c_header c) r /\
    exists s0 s1 body st0 st1 hf l kf,
      f_content (d_oplog d) = s0 ++ s1 ++ body /\
      good cr s0 s1 body st0 st1 (ol_bits (c_oplog c)) hf l /\
      ol_entries_len (c_oplog c) = N.of_nat (length l) /\
      ol_entries_bytes (c_oplog c) = entries_size l /\
      hdrH pk hf kf /\
      hchain pk (d_tree d) [] kf l r /\
      t_unflushed (c_tree c) = add_nodes nm_empty (flat_map e_nodes l) /\
      store_rootsH (d_tree d) kf /\
      BfH (d_bitfield d) (updates_of l) (hd_contig hf) H /\
      BfSync (d_bitfield d) (c_bitfield c).
End DefsH.

(* ====================================================================================== *)
(* B. Basic facts                                                                          *)
(* ====================================================================================== *)

Section BasicH.
  Variable cr : crypto.
  Hypothesis Hhash32 : forall x, length (cr_hash cr x) = 32%nat.
  Hypothesis Hnonblank : forall x, all_zero (cr_hash cr x) = false.
  Variable bs : list bytes.
  Hypothesis Hw : writer_fits bs.

  Lemma hagree_nonblank x : hagree cr bs x -> node_blank x = false.
  Proof.
    intros A. unfold node_blank. rewrite A.
    apply (ref_at_nonblank cr Hnonblank bs (n_index x)).
  Qed.

  Lemma hauth_index_fits m x : m <= N.of_nat (length bs) -> hauth cr bs m x -> NODE_SIZE * n_index x <= u64_max.
  Proof.
    intros Hm [_ I]. apply in_len_lt in I. destruct Hw as [_ Hw2]. unfold NODE_SIZE in *. lia.
  Qed.

  Lemma tsigH_sig_ok pk t : tsigH cr bs pk t -> sig_ok t.
  Proof. intros [E|(sg & E & _)]; [left; exact E|right; rewrite E; discriminate]. Qed.

  Lemma hchain_le pk tf l : forall U a b, hchain cr bs pk tf U a l b -> a <= b.
  Proof.
    clear Hhash32 Hnonblank Hw.
    induction l as [|e l IH]; intros U a b H; cbn [hchain] in H; [subst; lia|].
    destruct H as (m & (H1 & _) & H). specialize (IH _ _ _ H). lia.
  Qed.

  Lemma hchain_snoc pk tf l : forall U a m e b,
    hchain cr bs pk tf U a l m -> hdesc cr bs pk tf (U ++ flat_map e_nodes l) m e b ->
    hchain cr bs pk tf U a (l ++ [e]) b.
  Proof.
    induction l as [|e0 l IH]; intros U a m e b H He; cbn [hchain app flat_map] in *.
    - subst. rewrite app_nil_r in He. exists b. split; [exact He|reflexivity].
    - destruct H as (m0 & H0 & H). exists m0. split; [exact H0|].
      apply (IH _ _ m); [exact H|]. rewrite <- app_assoc. exact He.
  Qed.

  (* the nodes of the pending entries carry the writer's hashes inside the final tree *)
  Lemma hchain_nodes pk tf l : forall U a b,
    hchain cr bs pk tf U a l b -> Forall (fun x => hauth cr bs b x /\ node_fit x) (flat_map e_nodes l).
  Proof.
    induction l as [|e l IH]; intros U a b H; cbn [hchain flat_map] in *; [constructor|].
    destruct H as (m & (_ & _ & Hn & _) & H). apply Forall_app. split; [|apply (IH _ _ _ H)].
    pose proof (hchain_le _ _ _ _ _ _ H) as L.
    eapply Forall_impl; [|exact Hn]. intros x [A B]. split; [apply (hauth_mono cr bs m b x L A)|exact B].
  Qed.

  Lemma hchain_no_drops pk tf l : forall U a n, hchain cr bs pk tf U a l n -> drops_nonempty (updates_of l).
  Proof.
    induction l as [|e l IH]; intros U a n C; cbn [hchain] in C.
    - intros u [].
    - destruct C as (m & (_ & _ & _ & _ & Hbu) & C).
      change (e :: l) with ([e] ++ l). rewrite updates_of_app.
      intros u Hin Hd. apply in_app_or in Hin as [Hin|Hin].
      + unfold updates_of in Hin. cbn [flat_map] in Hin. destruct (e_bitfield e) as [u0|]; [|destruct Hin].
        rewrite app_nil_r in Hin. destruct Hin as [<-|[]]. destruct Hbu as (Hbu & _). rewrite Hbu in Hd. discriminate Hd.
      + apply (IH _ _ _ C u Hin Hd).
  Qed.

  (* ---------- lookups ---------- *)

  Lemma required_node_nonblank t tf i x : required_node t tf i = Ok x -> node_blank x = false.
  Proof.
    intros H. unfold required_node in H. apply bind_ok in H. destruct H as ([y|] & Hg & H); [|discriminate H].
    injection H as <-. unfold node_get in Hg.
    destruct (nm_get i (t_unflushed t)) as [n0|].
    - destruct (node_blank n0) eqn:B; [discriminate Hg|]. injection Hg as <-. exact B.
    - apply bind_ok in Hg. destruct Hg as (off & _ & Hg).
      destruct (f_read tf off NODE_SIZE) as [data|]; [|discriminate Hg]. cbv zeta in Hg.
      destruct (node_blank (node_from_bytes i data)) eqn:B; [discriminate Hg|]. injection Hg as <-. exact B.
  Qed.

  (* adding non-blank nodes to the unflushed map keeps every lookup successful *)
  Lemma lookup_add_nodes t t' tf l i x :
    required_node t tf i = Ok x -> (forall y, In y l -> node_blank y = false) ->
    t_unflushed t' = add_nodes (t_unflushed t) l ->
    exists x', required_node t' tf i = Ok x'.
  Proof.
    intros H Hl E.
    destruct (add_nodes_get l (t_unflushed t) i) as [(n & Hin & Hi & Hg)|[_ Hg]].
    - exists n. apply required_node_unflushed; [rewrite E; exact Hg|apply Hl, Hin].
    - exists x. rewrite <- H. unfold required_node.
      rewrite (node_get_unflushed_eq t t' tf i false); [reflexivity|]. rewrite E. exact Hg.
  Qed.

  (* a node of the list can be looked up afterwards *)
  Lemma lookup_added t' m0 tf l y :
    In y l -> (forall z, In z l -> node_blank z = false) ->
    t_unflushed t' = add_nodes m0 l -> exists x', required_node t' tf (n_index y) = Ok x'.
  Proof.
    intros Hy Hl E.
    destruct (add_nodes_get l m0 (n_index y)) as [(n & Hin & Hi & Hg)|[Hno _]].
    - exists n. apply required_node_unflushed; [rewrite E; exact Hg|apply Hl, Hin].
    - exfalso. apply (Hno y Hy). reflexivity.
  Qed.

  (* a lookup in a tree with an empty unflushed map reads a non-blank record of the store *)
  Lemma roots_avail_store t tf r :
    t_unflushed t = nm_empty -> roots_avail t tf r -> store_rootsH tf r.
  Proof.
    intros E Ha i Hi. destruct (Ha i Hi) as (x & Hx).
    pose proof (required_node_nonblank _ _ _ _ Hx) as B.
    destruct (required_node_store_inv t tf i x E Hx) as (data & R & En).
    exists data. split; [exact R|]. rewrite En. exact B.
  Qed.

  (* ---------- the tree store under the node writes of a flush ---------- *)

  Lemma tree_flush_fit t t' ops d d' r :
    tree_flush t = Ok (t', ops) -> apply_sops d ops = Some d' ->
    hunfl_sound cr bs t r -> f_len (d_tree d) mod NODE_SIZE = 0 -> hfile_fit (d_tree d) ->
    hfile_fit (d_tree d').
  Proof.
    intros Hf Ha Hu Hal Hfit. pose proof (hunfl_sound_ok cr Hhash32 bs t r Hu) as Hok.
    rewrite (tree_flush_ok t Hok) in Hf. injection Hf as <- <-.
    rewrite apply_node_writes in Ha. injection Ha as <-.
    set (ws := map snd (nm_elements (t_unflushed t))) in *.
    assert (Hws : forall v, In v ws -> nm_get (n_index v) (t_unflushed t) = Some v).
    { intros v Hv. apply in_map_iff in Hv as ([k v'] & E & Hv). cbn [snd] in E. subst v'.
      apply nm_elements_in in Hv. destruct (Hok k v Hv) as (-> & _). exact Hv. }
    assert (H32 : forall v, In v ws -> length (n_hash v) = 32%nat).
    { intros v Hv. apply Hws in Hv. apply Hok in Hv. tauto. }
    cbn [d_set d_tree]. intros k data R B.
    destruct (write_nodes_read ws (d_tree d) k H32) as [(v & Hin & Hk & Hr)|[Hno _]].
    - rewrite Hr in R. injection R as <-.
      pose proof (Hws v Hin) as G. destruct (Hok _ _ G) as (_ & Hh & Hl).
      rewrite <- Hk. rewrite node_bytes_roundtrip; [exact Hl|rewrite Hh; reflexivity|unfold u64_max in Hl; lia].
    - destruct (write_nodes_read_back ws (d_tree d) k data H32 Hal R B) as [(v & Hin & Hk)|R0].
      + exfalso. apply (Hno v Hin Hk).
      + apply (Hfit k data R0 B).
  Qed.

  (* what was found before the flush is found, with the same value, afterwards *)
  Lemma tree_flush_lookup_fwd t t' ops d d' r k x :
    tree_flush t = Ok (t', ops) -> apply_sops d ops = Some d' ->
    hunfl_sound cr bs t r -> r <= N.of_nat (length bs) ->
    required_node t (d_tree d) k = Ok x -> required_node t' (d_tree d') k = Ok x.
  Proof.
    intros Hf Ha Hu Hr Hreq. pose proof (hunfl_sound_ok cr Hhash32 bs t r Hu) as Hok.
    rewrite (tree_flush_ok t Hok) in Hf. injection Hf as <- <-.
    rewrite apply_node_writes in Ha. injection Ha as <-.
    set (ws := map snd (nm_elements (t_unflushed t))) in *.
    assert (Hws : forall v, In v ws -> nm_get (n_index v) (t_unflushed t) = Some v).
    { intros v Hv. apply in_map_iff in Hv as ([j v'] & E & Hv). cbn [snd] in E. subst v'.
      apply nm_elements_in in Hv. destruct (Hok j v Hv) as (-> & _). exact Hv. }
    assert (H32 : forall v, In v ws -> length (n_hash v) = 32%nat).
    { intros v Hv. apply Hws in Hv. apply Hok in Hv. tauto. }
    pose proof (required_node_nonblank _ _ _ _ Hreq) as Bx.
    cbn [d_set d_tree].
    unfold required_node, node_get. cbn [t_unflushed]. rewrite nm_get_empty.
    unfold required_node, node_get in Hreq.
    destruct (nm_get k (t_unflushed t)) as [n0|] eqn:G.
    - (* the node was in the unflushed map: the flush wrote it *)
      destruct (node_blank n0) eqn:B0; [discriminate Hreq|]. cbn [bind] in Hreq. injection Hreq as <-.
      destruct (Hu k n0 G) as (Hi & Ha & Hl). destruct (Hok k n0 G) as (_ & Hh & _).
      assert (Fit : fits_u64 (NODE_SIZE * k) = true).
      { apply fits_u64_intro. rewrite <- Hi. apply (hauth_index_fits r n0 Hr Ha). }
      unfold mul64. rewrite Fit. cbn [bind].
      assert (Hin : In n0 ws).
      { apply in_map_iff. exists (k, n0). split; [reflexivity|]. apply nm_elements_in, G. }
      destruct (write_nodes_read ws (d_tree d) k H32) as [(v & Hv & Hk & Hr')|[Hno _]].
      + pose proof (Hws v Hv) as Gv. rewrite Hk, G in Gv. injection Gv as <-.
        rewrite Hr'. cbv zeta. rewrite <- Hi.
        rewrite node_bytes_roundtrip; [|rewrite Hh; reflexivity|unfold u64_max in Hl; lia].
        rewrite B0. reflexivity.
      + exfalso. apply (Hno n0 Hin Hi).
    - (* it was read from the store: no write of the flush targets its record *)
      unfold mul64 in *. destruct (fits_u64 (NODE_SIZE * k)) eqn:Fit; [|discriminate Hreq]. cbn [bind] in *.
      destruct (f_read (d_tree d) (NODE_SIZE * k) NODE_SIZE) as [data|] eqn:R; [|discriminate Hreq].
      cbv zeta in Hreq.
      destruct (node_blank (node_from_bytes k data)) eqn:B; [discriminate Hreq|]. cbn [bind] in Hreq.
      destruct (write_nodes_read ws (d_tree d) k H32) as [(v & Hv & Hk & _)|[_ Hsame]].
      + exfalso. pose proof (Hws v Hv) as Gv. rewrite Hk, G in Gv. discriminate Gv.
      + pose proof R as R'. apply f_read_spec in R'. destruct R' as (Rb & _).
        rewrite (Hsame Rb), R. cbv zeta. rewrite B. exact Hreq.
  Qed.

  (* node writes of non-blank 32-byte-hash records keep the roots of a length in the store *)
  Lemma tree_flush_store_roots t t' ops d d' r kf :
    tree_flush t = Ok (t', ops) -> apply_sops d ops = Some d' ->
    hunfl_sound cr bs t r -> store_rootsH (d_tree d) kf -> store_rootsH (d_tree d') kf.
  Proof.
    intros Hf Ha Hu Hst i Hi. pose proof (hunfl_sound_ok cr Hhash32 bs t r Hu) as Hok.
    rewrite (tree_flush_ok t Hok) in Hf. injection Hf as <- <-.
    rewrite apply_node_writes in Ha. injection Ha as <-.
    set (ws := map snd (nm_elements (t_unflushed t))) in *.
    assert (Hws : forall v, In v ws -> nm_get (n_index v) (t_unflushed t) = Some v).
    { intros v Hv. apply in_map_iff in Hv as ([j v'] & E & Hv). cbn [snd] in E. subst v'.
      apply nm_elements_in in Hv. destruct (Hok j v Hv) as (-> & _). exact Hv. }
    assert (H32 : forall v, In v ws -> length (n_hash v) = 32%nat).
    { intros v Hv. apply Hws in Hv. apply Hok in Hv. tauto. }
    destruct (Hst i Hi) as (data & R & B). cbn [d_set d_tree].
    destruct (write_nodes_read ws (d_tree d) i H32) as [(v & Hv & Hk & Hr')|[_ Hsame]].
    - exists (node_to_bytes v). split; [exact Hr'|].
      pose proof (Hws v Hv) as G. destruct (Hok _ _ G) as (_ & Hh & Hl). destruct (Hu _ _ G) as (_ & [Ha _] & _).
      rewrite <- Hk. rewrite node_bytes_roundtrip; [|rewrite Hh; reflexivity|unfold u64_max in Hl; lia].
      apply (hagree_nonblank v Ha).
    - exists data. split; [|exact B]. pose proof R as R'. apply f_read_spec in R'. destruct R' as (Rb & _).
      rewrite (Hsame Rb). exact R.
  Qed.
End BasicH.

(* ====================================================================================== *)
(* C. The size-level invariant of ReplicaDisk1 implies the hash-level one                   *)
(* ====================================================================================== *)

Section FromRDInv.
  Variable cr : crypto.
  Hypothesis Hhash32 : forall x, length (cr_hash cr x) = 32%nat.
  Hypothesis Hnonblank : forall x, all_zero (cr_hash cr x) = false.
  Variable bs : list bytes.
  Hypothesis Hw : writer_fits bs.

  Lemma hdr_rep_hdrH pk h r : hdr_rep cr bs pk h r -> hdrH cr bs pk h r.
  Proof.
    intros (Hok & Hkp & Hfk & Hln & _ & Hcase). split; [exact Hok|]. split; [exact Hkp|]. split; [exact Hfk|].
    split; [exact Hln|]. destruct Hcase as [(E0 & E1 & E2)|(E1 & E2 & _ & E4)].
    - split; [rewrite E1; unfold len; cbn [length]; lia|]. left. split; assumption.
    - split; [rewrite E1; unfold tree_hash, len; rewrite Hhash32; lia|]. right. split; [exact E2|exact E4].
  Qed.

  Lemma authentic_fit m x : authentic cr bs m x -> node_fit x.
  Proof.
    intros [E _]. destruct Hw as [Hw1 _]. rewrite E. split; [apply (T_hash32 cr Hhash32 bs)|apply (T_fits cr bs _ Hw1)].
  Qed.

  Lemma rchain_hchain pk tf l : forall U a b, rchain cr bs pk tf U a l b -> hchain cr bs pk tf U a l b.
  Proof.
    induction l as [|e l IH]; intros U a b H; cbn [rchain hchain] in *; [exact H|].
    destruct H as (m & (H1 & H2 & H3 & H4 & H5) & H). exists m. split; [|apply IH, H].
    split; [exact H1|]. split; [exact H2|]. split.
    { eapply Forall_impl; [|exact H3]. intros x A. split; [apply (authentic_hauth cr bs m x A)|apply (authentic_fit m x A)]. }
    split; [|exact H5].
    destruct (e_upgrade e) as [u|]; [|exact H4].
    destruct H4 as (A1 & A2 & A3 & A4 & A5 & A6 & A7). repeat (split; [assumption|]).
    intros i Hi. exists (ref_at cr bs i).
    assert (Hin : In (ref_at cr bs i) (ref_roots cr bs m)) by (unfold ref_roots; apply in_map, Hi).
    pose proof (A7 _ Hin) as Hq. rewrite ref_at_index_id in Hq. exact Hq.
  Qed.

  Hypothesis Hhashbytes : forall x, bytes_ok (cr_hash cr x) = true.

  Theorem RDInv_HDInvR c d H : RDInv cr bs c d H -> HDInvR cr bs c d H.
  Proof.
    intros X. pose proof (RDInv_keypair cr bs c d H X) as Kc.
    destruct (RDInv_header cr Hhash32 Hnonblank Hhashbytes bs Hw c d H X) as [Hrep _].
    pose proof X as (W & Hb & Hex & Hk & Hs & s0 & s1 & body & st0 & st1 & hf & l & kf &
                     Hcont & G & Hlen & Hbytes & Hhf & Hh & Hch & Hu & Hst & Hbf & Hsync).
    pose proof W as (W1 & W2 & W3 & W4 & W5 & W6 & W7 & W8). destruct Hw as [Hw1 Hw2].
    split; [apply (HInv_HInvR cr Hhash32 bs (conj Hw1 Hw2)), (RInv_HInv cr bs (conj Hw1 Hw2)), W|].
    split.
    { intros j data R B. destruct W6 as [_ W6]. destruct (W6 j data R B) as [E _]. rewrite E. apply (T_fits cr bs _ Hw1). }
    split.
    { intros i Hi. exists (ref_at cr bs i).
      assert (Hin : In (ref_at cr bs i) (t_roots (c_tree c))) by (rewrite W3; unfold ref_roots; apply in_map, Hi).
      pose proof (W7 _ Hin) as Hq. rewrite ref_at_index_id in Hq. exact Hq. }
    split.
    { unfold tsigH. rewrite Hs. destruct Hrep as (_ & _ & _ & Hl & _ & [(E0 & _)|(_ & E2 & _ & E4)]).
      - left. exact E0.
      - right. exists (ht_signature (hd_tree (c_header c))). split; [|split; [exact E2|exact E4]].
        unfold sig_of. destruct (ht_signature (hd_tree (c_header c))); [discriminate E2|reflexivity]. }
    split; [intros i Hi; apply (RDInv_held_lt cr bs c d H i X Hi)|].
    split; [exact Hb|]. split; [exact Hex|]. split; [exact Kc|].
    split; [apply hdr_rep_hdrH, Hrep|].
    exists s0, s1, body, st0, st1, hf, l, kf.
    split; [exact Hcont|]. split; [exact G|]. split; [exact Hlen|]. split; [exact Hbytes|].
    split; [apply hdr_rep_hdrH, Hhf|]. split; [apply (rchain_hchain _ _ _ _ _ _ Hch)|]. split; [exact Hu|].
    split; [|split; [exact Hbf|exact Hsync]].
    intros i Hi.
    assert (Hin : In (ref_at cr bs i) (ref_roots cr bs kf)) by (unfold ref_roots; apply in_map, Hi).
    destruct (Hst _ Hin) as (data & R & E). rewrite ref_at_index_id in R, E.
    exists data. split; [exact R|]. rewrite E. apply (ref_at_nonblank cr Hnonblank bs i).
  Qed.
End FromRDInv.

Print Assumptions tree_flush_fit.
Print Assumptions tree_flush_lookup_fwd.
Print Assumptions tree_flush_store_roots.
Print Assumptions RDInv_HDInvR.

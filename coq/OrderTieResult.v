(* OrderTieResult.v — Storage::flush_info(s) and the checkpoint return a Result: in the model a failing storage operation ends the
   call with the error (Core.emit; Fault.v / CrashClear4.fault_is_cut). In the source every such call must be followed by `.await?`
   (pinned in props/C10.v). *)
From Coq Require Import List String NArith.
From HC Require Import SrcOrder OrderTie.
Import ListNotations.
Local Open Scope string_scope.

Theorem source_propagates_every_storage_result :
  tied_order src_unpropagated_append_batch 0%N /\
  tied_order src_unpropagated_clear 0%N /\
  tied_order src_unpropagated_verify_and_apply_proof 0%N /\
  tied_order src_unpropagated_make_read_only 0%N /\
  tied_order src_unpropagated_flush_bitfield_and_tree_and_oplog 0%N.
Proof. repeat split; tie. Qed.

Print Assumptions source_propagates_every_storage_result.

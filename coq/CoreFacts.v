(* CoreFacts.v — facts about the Hypercore state machine of Core.v:
   a small library about the state+error monad (which operations send events, touch the journal,
   the disk, the core), the read-only facts (C12), refusal of proofs is a no-op (C04), the exact
   events sent by each operation (C13), the shape of the storage journal of an append (C02). *)
From HC Require Import Base NMap Codec CodecFacts Crypto FlatTree Storage Bitfield Oplog Merkle Core.
From Coq Require Import ZifyN ZifyNat ZifyBool.
Ltac Zify.zify_post_hook ::= Z.div_mod_to_equations.
Arguments N.add : simpl never.
Arguments N.sub : simpl never.
Arguments N.mul : simpl never.
Arguments N.div : simpl never.
Arguments N.modulo : simpl never.
Arguments N.pow : simpl never.
Arguments N.eqb : simpl never.
Arguments N.ltb : simpl never.
Arguments N.leb : simpl never.

(* ====================================================================================== *)
(* 0. Monad library                                                                        *)
(* ====================================================================================== *)

(* events only grow *)
Definition frame_ev {A} (m : M A) : Prop :=
  forall c w c' w' r, m c w = (c', w', r) -> exists evs, w_events w' = evs ++ w_events w.

(* no event is sent *)
Definition silent {A} (m : M A) : Prop :=
  forall c w c' w' r, m c w = (c', w', r) -> w_events w' = w_events w.

(* the journal only grows and the disk is the old disk after the journalled operations
   (the prefix is newest first, so it is replayed reversed) *)
Definition journaled {A} (m : M A) : Prop :=
  forall c w c' w' r, m c w = (c', w', r) ->
    exists ops, w_journal w' = ops ++ w_journal w /\ apply_sops (w_disk w) (rev ops) = Some (w_disk w').

(* the journal only grows *)
Definition journal_grows {A} (m : M A) : Prop :=
  forall c w c' w' r, m c w = (c', w', r) -> exists ops, w_journal w' = ops ++ w_journal w.

(* a pure read: core, disk and journal are untouched (events may be sent) *)
Definition quiet {A} (m : M A) : Prop :=
  forall c w c' w' r, m c w = (c', w', r) ->
    c' = c /\ w_disk w' = w_disk w /\ w_journal w' = w_journal w.

(* a component of the core is never modified *)
Definition keeps {X A} (proj : core -> X) (m : M A) : Prop :=
  forall c w c' w' r, m c w = (c', w', r) -> proj c' = proj c.

(* inversion of one bind *)
Lemma mbind_inv {A B} (m : M A) (f : A -> M B) c w c' w' r :
  mbind m f c w = (c', w', r) ->
  exists c1 w1 r1, m c w = (c1, w1, r1) /\
    match r1 with
    | Ok a => f a c1 w1 = (c', w', r)
    | Err e => c' = c1 /\ w' = w1 /\ r = Err e
    | Panic s => c' = c1 /\ w' = w1 /\ r = Panic s
    | OutOfFuel => c' = c1 /\ w' = w1 /\ r = OutOfFuel
    end.
Proof.
  unfold mbind. destruct (m c w) as [[c1 w1] r1]. intros H.
  exists c1, w1, r1. split; [reflexivity|].
  destruct r1; [assumption| | |]; inversion H; subst; repeat split.
Qed.

(* [mstep H]: H : mbind m f c w = (c', w', r). Names the intermediate state, leaves
   [Hm : m c w = (c1, w1, r1)] and cases on r1; in the three failure cases the identities
   c' = c1, w' = w1, r = ... are substituted. *)
Ltac mstep_as H Hm :=
  let c1 := fresh "c" in let w1 := fresh "w" in let r1 := fresh "r" in
  apply mbind_inv in H; destruct H as (c1 & w1 & r1 & Hm & H);
  destruct r1 as [?a|?e|?s|];
  [ | destruct H as (? & ? & H); first [discriminate H | subst]
    | destruct H as (? & ? & H); first [discriminate H | subst]
    | destruct H as (? & ? & H); first [discriminate H | subst] ].
Ltac mstep H := let Hm := fresh "Hm" in mstep_as H Hm.

(* inversion of the primitive computations *)
Ltac prim_inv H :=
  match type of H with
  | ret _ _ _ = _ => unfold ret in H
  | lift _ _ _ = _ => unfold lift in H
  | get_core _ _ = _ => unfold get_core in H
  | get_disk _ _ = _ => unfold get_disk in H
  | set_core _ _ _ = _ => unfold set_core in H
  | send _ _ _ = _ => unfold send in H
  | put_header _ _ _ = _ => unfold put_header in H
  | put_oplog _ _ _ = _ => unfold put_oplog in H
  | put_tree _ _ _ = _ => unfold put_tree in H
  | put_bitfield _ _ _ = _ => unfold put_bitfield in H
  | put_skip _ _ _ = _ => unfold put_skip in H
  | put_keypair _ _ _ = _ => unfold put_keypair in H
  end; inversion H; subst; clear H.

(* computation rules for binds on primitives *)
Lemma mbind_get_core {B} (f : core -> M B) c w : mbind get_core f c w = f c c w.
Proof. reflexivity. Qed.
Lemma mbind_get_disk {B} (f : disk -> M B) c w : mbind get_disk f c w = f (w_disk w) c w.
Proof. reflexivity. Qed.
Lemma mbind_ret {A B} (a : A) (f : A -> M B) c w : mbind (ret a) f c w = f a c w.
Proof. reflexivity. Qed.
Lemma mbind_lift {A B} (x : res A) (f : A -> M B) c w :
  mbind (lift x) f c w = match x with
                         | Ok a => f a c w
                         | Err e => (c, w, Err e)
                         | Panic s => (c, w, Panic s)
                         | OutOfFuel => (c, w, OutOfFuel)
                         end.
Proof. unfold mbind, lift. now destruct x. Qed.
Lemma mbind_send {B} e (f : unit -> M B) c w :
  mbind (send e) f c w = f tt c (mkWorld (w_disk w) (w_journal w) (e :: w_events w)).
Proof. reflexivity. Qed.

(* ---------- emit ---------- *)

Lemma emit_inv ops : forall c w c' w' r, emit ops c w = (c', w', r) ->
  c' = c /\ w_events w' = w_events w /\
  exists done, w_journal w' = rev done ++ w_journal w /\ apply_sops (w_disk w) done = Some (w_disk w') /\
               match r with
               | Ok _ => done = ops
               | Err e => e = InvalidOperation /\ exists o rest, ops = done ++ o :: rest /\ apply_sop (w_disk w') o = None
               | _ => False
               end.
Proof.
  induction ops as [|o ops IH]; intros c w c' w' r H.
  - cbn [emit] in H. prim_inv H. repeat split. exists []. repeat split.
  - cbn [emit] in H. destruct (apply_sop (w_disk w) o) as [d'|] eqn:E.
    + apply IH in H. cbn [w_disk w_journal w_events] in H.
      destruct H as (-> & Hev & done & Hj & Hd & Hr). repeat split; [assumption|].
      exists (o :: done). cbn [rev apply_sops]. rewrite E, <- app_assoc. cbn [app].
      repeat split; try assumption.
      destruct r; try assumption.
      * now subst.
      * destruct Hr as (-> & o' & rest & -> & Hn). split; [reflexivity|]. now exists o', rest.
    + inversion H; subst. repeat split. exists []. repeat split.
      exists o, ops. split; [reflexivity | assumption].
Qed.

Lemma emit_ok ops c w c' w' u : emit ops c w = (c', w', Ok u) ->
  c' = c /\ w_events w' = w_events w /\ w_journal w' = rev ops ++ w_journal w /\
  apply_sops (w_disk w) ops = Some (w_disk w').
Proof.
  intros H. apply emit_inv in H. destruct H as (-> & Hev & done & Hj & Hd & ->). auto.
Qed.

(* ---------- silent ---------- *)

Lemma silent_ret {A} (a : A) : silent (ret a).
Proof. intros c w c' w' r H. now prim_inv H. Qed.
Lemma silent_lift {A} (x : res A) : silent (lift x).
Proof. intros c w c' w' r H. now prim_inv H. Qed.
Lemma silent_get_core : silent get_core.
Proof. intros c w c' w' r H. now prim_inv H. Qed.
Lemma silent_get_disk : silent get_disk.
Proof. intros c w c' w' r H. now prim_inv H. Qed.
Lemma silent_set_core c0 : silent (set_core c0).
Proof. intros c w c' w' r H. now prim_inv H. Qed.
Lemma silent_put_header h : silent (put_header h).
Proof. intros c w c' w' r H. now prim_inv H. Qed.
Lemma silent_put_oplog o : silent (put_oplog o).
Proof. intros c w c' w' r H. now prim_inv H. Qed.
Lemma silent_put_tree t : silent (put_tree t).
Proof. intros c w c' w' r H. now prim_inv H. Qed.
Lemma silent_put_bitfield b : silent (put_bitfield b).
Proof. intros c w c' w' r H. now prim_inv H. Qed.
Lemma silent_put_skip s : silent (put_skip s).
Proof. intros c w c' w' r H. now prim_inv H. Qed.
Lemma silent_put_keypair k : silent (put_keypair k).
Proof. intros c w c' w' r H. now prim_inv H. Qed.
Lemma silent_emit ops : silent (emit ops).
Proof. intros c w c' w' r H. now apply emit_inv in H. Qed.

Lemma silent_bind {A B} (m : M A) (f : A -> M B) :
  silent m -> (forall a, silent (f a)) -> silent (mbind m f).
Proof.
  intros Hm Hf c w c' w' r H. mstep_as H H1; apply Hm in H1; try assumption.
  apply Hf in H. congruence.
Qed.

(* [monad_tac bindlemma prims]: structural proof of a predicate closed under mbind *)
Ltac hyp := match goal with H : _ |- _ => apply H end.
Ltac case_head :=
  match goal with
  | |- _ (match ?x with _ => _ end) => destruct x
  end.

Ltac silent_prim :=
  first [ apply silent_ret | apply silent_lift | apply silent_get_core | apply silent_get_disk
        | apply silent_set_core | apply silent_put_header | apply silent_put_oplog
        | apply silent_put_tree | apply silent_put_bitfield | apply silent_put_skip
        | apply silent_put_keypair | apply silent_emit ].
Ltac silent_tac :=
  repeat first [ silent_prim | hyp | apply silent_bind; [|intros ?] | case_head ].

(* ---------- frame_ev ---------- *)

Lemma silent_frame_ev {A} (m : M A) : silent m -> frame_ev m.
Proof. intros Hs c w c' w' r H. exists []. now apply Hs in H. Qed.

Lemma frame_ev_send e : frame_ev (send e).
Proof. intros c w c' w' r H. prim_inv H. now exists [e]. Qed.

Lemma frame_ev_bind {A B} (m : M A) (f : A -> M B) :
  frame_ev m -> (forall a, frame_ev (f a)) -> frame_ev (mbind m f).
Proof.
  intros Hm Hf c w c' w' r H. mstep_as H H1; apply Hm in H1; try assumption.
  apply Hf in H. destruct H1 as [e1 H1], H as [e2 H]. exists (e2 ++ e1).
  now rewrite H, H1, app_assoc.
Qed.

Ltac frame_ev_tac :=
  repeat first [ apply frame_ev_send | apply silent_frame_ev; silent_prim | hyp
               | apply frame_ev_bind; [|intros ?] | case_head ].

(* ---------- journaled ---------- *)

Lemma journaled_same {A} (m : M A) :
  (forall c w c' w' r, m c w = (c', w', r) -> w_disk w' = w_disk w /\ w_journal w' = w_journal w) ->
  journaled m.
Proof. intros Hq c w c' w' r H. apply Hq in H. destruct H as [Hd Hj]. exists []. now rewrite Hd, Hj. Qed.

Lemma journaled_ret {A} (a : A) : journaled (ret a).
Proof. apply journaled_same. intros c w c' w' r H. now prim_inv H. Qed.
Lemma journaled_lift {A} (x : res A) : journaled (lift x).
Proof. apply journaled_same. intros c w c' w' r H. now prim_inv H. Qed.
Lemma journaled_get_core : journaled get_core.
Proof. apply journaled_same. intros c w c' w' r H. now prim_inv H. Qed.
Lemma journaled_get_disk : journaled get_disk.
Proof. apply journaled_same. intros c w c' w' r H. now prim_inv H. Qed.
Lemma journaled_set_core c0 : journaled (set_core c0).
Proof. apply journaled_same. intros c w c' w' r H. now prim_inv H. Qed.
Lemma journaled_send e : journaled (send e).
Proof. apply journaled_same. intros c w c' w' r H. now prim_inv H. Qed.
Lemma journaled_put_header h : journaled (put_header h).
Proof. apply journaled_same. intros c w c' w' r H. now prim_inv H. Qed.
Lemma journaled_put_oplog o : journaled (put_oplog o).
Proof. apply journaled_same. intros c w c' w' r H. now prim_inv H. Qed.
Lemma journaled_put_tree t : journaled (put_tree t).
Proof. apply journaled_same. intros c w c' w' r H. now prim_inv H. Qed.
Lemma journaled_put_bitfield b : journaled (put_bitfield b).
Proof. apply journaled_same. intros c w c' w' r H. now prim_inv H. Qed.
Lemma journaled_put_skip s : journaled (put_skip s).
Proof. apply journaled_same. intros c w c' w' r H. now prim_inv H. Qed.
Lemma journaled_put_keypair k : journaled (put_keypair k).
Proof. apply journaled_same. intros c w c' w' r H. now prim_inv H. Qed.
Lemma journaled_emit ops : journaled (emit ops).
Proof.
  intros c w c' w' r H. apply emit_inv in H. destruct H as (_ & _ & done & Hj & Hd & _).
  exists (rev done). now rewrite rev_involutive.
Qed.

Lemma apply_sops_app d a b :
  apply_sops d (a ++ b) = match apply_sops d a with Some d' => apply_sops d' b | None => None end.
Proof.
  revert d. induction a as [|o a IH]; intros d; cbn [app apply_sops]; [reflexivity|].
  destruct (apply_sop d o); [apply IH | reflexivity].
Qed.

Lemma journaled_bind {A B} (m : M A) (f : A -> M B) :
  journaled m -> (forall a, journaled (f a)) -> journaled (mbind m f).
Proof.
  intros Hm Hf c w c' w' r H. mstep_as H H1; apply Hm in H1; try assumption.
  apply Hf in H. destruct H1 as (o1 & J1 & D1), H as (o2 & J2 & D2). exists (o2 ++ o1).
  rewrite J2, J1, app_assoc. split; [reflexivity|].
  now rewrite rev_app_distr, apply_sops_app, D1.
Qed.

Ltac journaled_prim :=
  first [ apply journaled_ret | apply journaled_lift | apply journaled_get_core
        | apply journaled_get_disk | apply journaled_set_core | apply journaled_send
        | apply journaled_put_header | apply journaled_put_oplog | apply journaled_put_tree
        | apply journaled_put_bitfield | apply journaled_put_skip | apply journaled_put_keypair
        | apply journaled_emit ].
Ltac journaled_tac :=
  repeat first [ journaled_prim | hyp | apply journaled_bind; [|intros ?] | case_head ].

(* ---------- quiet ---------- *)

Lemma quiet_ret {A} (a : A) : quiet (ret a).
Proof. intros c w c' w' r H. now prim_inv H. Qed.
Lemma quiet_lift {A} (x : res A) : quiet (lift x).
Proof. intros c w c' w' r H. now prim_inv H. Qed.
Lemma quiet_get_core : quiet get_core.
Proof. intros c w c' w' r H. now prim_inv H. Qed.
Lemma quiet_get_disk : quiet get_disk.
Proof. intros c w c' w' r H. now prim_inv H. Qed.
Lemma quiet_send e : quiet (send e).
Proof. intros c w c' w' r H. now prim_inv H. Qed.
Lemma quiet_emit_nil : quiet (emit []).
Proof. intros c w c' w' r H. cbn [emit] in H. now prim_inv H. Qed.

Lemma quiet_bind {A B} (m : M A) (f : A -> M B) :
  quiet m -> (forall a, quiet (f a)) -> quiet (mbind m f).
Proof.
  intros Hm Hf c w c' w' r H. mstep_as H H1; apply Hm in H1; try assumption.
  apply Hf in H. destruct H1 as (-> & D1 & J1), H as (-> & D2 & J2). repeat split; congruence.
Qed.

Lemma journaled_grows {A} (m : M A) : journaled m -> journal_grows m.
Proof. intros Hj c w c' w' r H. apply Hj in H. destruct H as (ops & H & _). now exists ops. Qed.

Lemma quiet_journaled {A} (m : M A) : quiet m -> journaled m.
Proof. intros Hq. apply journaled_same. intros c w c' w' r H. now apply Hq in H. Qed.

Ltac quiet_prim :=
  first [ apply quiet_ret | apply quiet_lift | apply quiet_get_core | apply quiet_get_disk
        | apply quiet_send | apply quiet_emit_nil ].
Ltac quiet_tac :=
  repeat first [ quiet_prim | hyp | apply quiet_bind; [|intros ?] | case_head ].

(* ---------- keeps ---------- *)

Lemma keeps_ret {X A} (p : core -> X) (a : A) : keeps p (ret a).
Proof. intros c w c' w' r H. now prim_inv H. Qed.
Lemma keeps_lift {X A} (p : core -> X) (x : res A) : keeps p (lift x).
Proof. intros c w c' w' r H. now prim_inv H. Qed.
Lemma keeps_get_core {X} (p : core -> X) : keeps p get_core.
Proof. intros c w c' w' r H. now prim_inv H. Qed.
Lemma keeps_get_disk {X} (p : core -> X) : keeps p get_disk.
Proof. intros c w c' w' r H. now prim_inv H. Qed.
Lemma keeps_send {X} (p : core -> X) e : keeps p (send e).
Proof. intros c w c' w' r H. now prim_inv H. Qed.
Lemma keeps_emit {X} (p : core -> X) ops : keeps p (emit ops).
Proof. intros c w c' w' r H. apply emit_inv in H. now destruct H as (-> & _). Qed.
Lemma keeps_bind {X A B} (p : core -> X) (m : M A) (f : A -> M B) :
  keeps p m -> (forall a, keeps p (f a)) -> keeps p (mbind m f).
Proof.
  intros Hm Hf c w c' w' r H. mstep_as H H1; apply Hm in H1; try assumption.
  apply Hf in H. congruence.
Qed.
(* the put_* that leave a given projection alone: by computation *)
Ltac keeps_put := let Hx := fresh "Hx" in intros ? ? ? ? ? Hx; prim_inv Hx; reflexivity.
Ltac keeps_prim :=
  first [ apply keeps_ret | apply keeps_lift | apply keeps_get_core | apply keeps_get_disk
        | apply keeps_send | apply keeps_emit ].
Ltac keeps_tac :=
  repeat first [ keeps_prim | hyp | apply keeps_bind; [|intros ?] | case_head
               | solve [keeps_put] ].

(* ---------- exact event lists ---------- *)

(* [emits m E]: a run of m that returns a sends exactly E a; a failing run sends nothing *)
Definition emits {A} (m : M A) (E : A -> list event) : Prop :=
  forall c w c' w' r, m c w = (c', w', r) ->
    w_events w' = (match r with Ok a => E a | _ => [] end) ++ w_events w.

(* [sender m E]: m never fails and sends exactly E; [sender_val m b E]: and returns b *)
Definition sender {A} (m : M A) (E : list event) : Prop :=
  forall c w, exists c' w' a, m c w = (c', w', Ok a) /\ w_events w' = E ++ w_events w.
Definition sender_val {A} (m : M A) (b : A) (E : list event) : Prop :=
  forall c w, exists c' w', m c w = (c', w', Ok b) /\ w_events w' = E ++ w_events w.

(* [post m Q]: every value returned by m satisfies Q *)
Definition post {A} (m : M A) (Q : A -> Prop) : Prop :=
  forall c w c' w' a, m c w = (c', w', Ok a) -> Q a.

Lemma post_true {A} (m : M A) : post m (fun _ => True).
Proof. intros c w c' w' a _. exact I. Qed.

Lemma emits_ret {A} (a : A) E : E a = [] -> emits (ret a) E.
Proof. intros HE c w c' w' r H. prim_inv H. now rewrite HE. Qed.

Lemma emits_lift {A} (x : res A) E : (forall a, x = Ok a -> E a = []) -> emits (lift x) E.
Proof. intros HE c w c' w' r H. prim_inv H. destruct r; try reflexivity. now rewrite HE. Qed.

Lemma silent_emits {A} (m : M A) : silent m -> emits m (fun _ => []).
Proof. intros Hs c w c' w' r H. apply Hs in H. now destruct r. Qed.

Lemma emits_bind_post {A B} (m : M A) (f : A -> M B) (Q : A -> Prop) E :
  silent m -> post m Q -> (forall a, Q a -> emits (f a) E) -> emits (mbind m f) E.
Proof.
  intros Hs Hq Hf c w c' w' r H. mstep_as H H1; try (apply Hs in H1; assumption).
  pose proof (Hq _ _ _ _ _ H1) as Qa. apply Hs in H1. apply (Hf _ Qa) in H. congruence.
Qed.

Lemma emits_bind {A B} (m : M A) (f : A -> M B) E :
  silent m -> (forall a, emits (f a) E) -> emits (mbind m f) E.
Proof. intros Hs Hf. apply (emits_bind_post m f (fun _ => True)); auto using post_true. Qed.

Lemma emits_then_sender {A B} (m : M A) (f : A -> M B) E1 E2 E :
  emits m (fun _ => E1) -> (forall a, sender (f a) E2) -> (forall b, E b = E2 ++ E1) ->
  emits (mbind m f) E.
Proof.
  intros Hm Hf HE c w c' w' r H. mstep_as H H1; apply Hm in H1; try assumption.
  destruct (Hf a c0 w0) as (c2 & w2 & b & H2 & Ev). rewrite H2 in H. inversion H; subst.
  now rewrite HE, Ev, H1, app_assoc.
Qed.

Lemma sender_val_emits {A} (m : M A) b E0 E : sender_val m b E0 -> E b = E0 -> emits m E.
Proof.
  intros Hs <- c w c' w' r H. destruct (Hs c w) as (c2 & w2 & H2 & Ev).
  rewrite H2 in H. inversion H; subst. assumption.
Qed.

Lemma sender_emits {A} (m : M A) E0 E : sender m E0 -> (forall b, E b = E0) -> emits m E.
Proof.
  intros Hs HE c w c' w' r H. destruct (Hs c w) as (c2 & w2 & b & H2 & Ev).
  rewrite H2 in H. inversion H; subst. now rewrite HE.
Qed.

(* ---------- the internal flushing / logging computations ---------- *)

Section WithCrypto.
  Variable cr : crypto.

  Lemma flush_all_silent ct : silent (flush_all cr ct).
  Proof. unfold flush_all. silent_tac. Qed.
  Lemma maybe_flush_silent f : silent (maybe_flush cr f).
  Proof. pose proof flush_all_silent. unfold maybe_flush. silent_tac. Qed.
  Lemma log_and_commit_silent cs bu : silent (log_and_commit cr cs bu).
  Proof. unfold log_and_commit. silent_tac. Qed.

  Lemma flush_all_journaled ct : journaled (flush_all cr ct).
  Proof. unfold flush_all. journaled_tac. Qed.
  Lemma maybe_flush_journaled f : journaled (maybe_flush cr f).
  Proof. pose proof flush_all_journaled. unfold maybe_flush. journaled_tac. Qed.
  Lemma log_and_commit_journaled cs bu : journaled (log_and_commit cr cs bu).
  Proof. unfold log_and_commit. journaled_tac. Qed.

  Lemma flush_all_journal_grows ct : journal_grows (flush_all cr ct).
  Proof. apply journaled_grows, flush_all_journaled. Qed.
  Lemma maybe_flush_journal_grows f : journal_grows (maybe_flush cr f).
  Proof. apply journaled_grows, maybe_flush_journaled. Qed.
  Lemma log_and_commit_journal_grows cs bu : journal_grows (log_and_commit cr cs bu).
  Proof. apply journaled_grows, log_and_commit_journaled. Qed.

  Lemma flush_all_keeps_keypair ct : keeps c_keypair (flush_all cr ct).
  Proof. unfold flush_all. keeps_tac. Qed.
  Lemma flush_all_keeps_header ct : keeps c_header (flush_all cr ct).
  Proof. unfold flush_all. keeps_tac. Qed.
End WithCrypto.

Ltac silent_extra := fail.
Ltac silent_tac ::=
  repeat first [ silent_prim | hyp | silent_extra | apply silent_bind; [|intros ?] | case_head ].
Ltac silent_extra ::=
  first [ apply flush_all_silent | apply maybe_flush_silent | apply log_and_commit_silent ].

(* [use_silent Hm]: Hm : m c w = (c1, w1, r1) with m silent becomes w_events w1 = w_events w *)
Ltac use_silent Hm :=
  match type of Hm with
  | ?m ?c ?w = _ =>
      let S := fresh "S" in
      assert (S : silent m) by silent_tac; apply S in Hm; clear S
  end.

(* ====================================================================================== *)
(* 1-2. C12: a core without secret key cannot append; make_read_only twice is a no-op      *)
(* ====================================================================================== *)

Section Theorems.
  Variable cr : crypto.

  Theorem append_not_writable f batch c w :
    kp_secret (c_keypair c) = None ->
    core_append cr f batch c w = (c, w, Err NotWritable).
  Proof. intros H. unfold core_append, mbind, get_core. rewrite H. reflexivity. Qed.

  (* make_read_only reports whether the instance was writable. (Since the repair of finding D25 the call rewrites both
     header slots also on an instance that is already read-only; that a second call changes no observation is proved
     from the disk invariant in ReadOnly.v.) *)
  Theorem make_read_only_result c w c' w' b :
    core_make_read_only cr c w = (c', w', Ok b) ->
    b = match kp_secret (c_keypair c) with Some _ => true | None => false end.
  Proof.
    unfold core_make_read_only. rewrite mbind_get_core. cbv zeta. intros H.
    mstep H; prim_inv Hm. mstep H; prim_inv Hm. mstep H. unfold ret in H. injection H as _ _ E. symmetry. exact E.
  Qed.

(* ====================================================================================== *)
(* 5. C04: a refused proof leaves core, disk, journal and events untouched                 *)
(* ====================================================================================== *)

  Theorem apply_fork_mismatch f pf c w :
    p_fork pf <> t_fork (c_tree c) ->
    core_apply_proof cr f pf c w = (c, w, Ok false).
  Proof.
    intros H. apply N.eqb_neq in H. unfold core_apply_proof, mbind, get_core. rewrite H. reflexivity.
  Qed.

  (* the general form: any non-Ok outcome of the verifier is returned as is *)
  Lemma apply_verify_fail f pf c w :
    p_fork pf = t_fork (c_tree c) ->
    core_apply_proof cr f pf c w =
      match verify_proof cr (c_tree c) (d_tree (w_disk w)) pf (kp_public (c_keypair c)) with
      | Ok cs =>
          if commitable (c_tree c) cs then core_apply_proof cr f pf c w else (c, w, Ok false)
      | Err e => (c, w, Err e)
      | Panic s => (c, w, Panic s)
      | OutOfFuel => (c, w, OutOfFuel)
      end.
  Proof.
    intros H. apply N.eqb_eq in H.
    destruct (verify_proof cr (c_tree c) (d_tree (w_disk w)) pf (kp_public (c_keypair c))) as [cs|e|s|] eqn:V.
    - destruct (commitable (c_tree c) cs) eqn:Cm; [reflexivity|].
      unfold core_apply_proof, mbind at 1 2 3, get_core, get_disk, lift. rewrite H. cbn [negb].
      rewrite V, Cm. reflexivity.
    - unfold core_apply_proof, mbind, get_core, get_disk, lift. rewrite H. cbn [negb]. now rewrite V.
    - unfold core_apply_proof, mbind, get_core, get_disk, lift. rewrite H. cbn [negb]. now rewrite V.
    - unfold core_apply_proof, mbind, get_core, get_disk, lift. rewrite H. cbn [negb]. now rewrite V.
  Qed.

  Theorem apply_verify_error f pf c w e :
    p_fork pf = t_fork (c_tree c) ->
    verify_proof cr (c_tree c) (d_tree (w_disk w)) pf (kp_public (c_keypair c)) = Err e ->
    core_apply_proof cr f pf c w = (c, w, Err e).
  Proof. intros H V. rewrite apply_verify_fail by assumption. now rewrite V. Qed.

  Theorem apply_verify_panic f pf c w s :
    p_fork pf = t_fork (c_tree c) ->
    verify_proof cr (c_tree c) (d_tree (w_disk w)) pf (kp_public (c_keypair c)) = Panic s ->
    core_apply_proof cr f pf c w = (c, w, Panic s).
  Proof. intros H V. rewrite apply_verify_fail by assumption. now rewrite V. Qed.

  Theorem apply_verify_out_of_fuel f pf c w :
    p_fork pf = t_fork (c_tree c) ->
    verify_proof cr (c_tree c) (d_tree (w_disk w)) pf (kp_public (c_keypair c)) = OutOfFuel ->
    core_apply_proof cr f pf c w = (c, w, OutOfFuel).
  Proof. intros H V. rewrite apply_verify_fail by assumption. now rewrite V. Qed.

  Theorem apply_not_commitable f pf c w cs :
    verify_proof cr (c_tree c) (d_tree (w_disk w)) pf (kp_public (c_keypair c)) = Ok cs ->
    commitable (c_tree c) cs = false ->
    core_apply_proof cr f pf c w = (c, w, Ok false).
  Proof.
    intros V Cm. destruct (N.eq_dec (p_fork pf) (t_fork (c_tree c))) as [H|H].
    - rewrite apply_verify_fail by assumption. now rewrite V, Cm.
    - now apply apply_fork_mismatch.
  Qed.


(* ====================================================================================== *)
(* 6. C13: the events sent by each operation                                               *)
(* ====================================================================================== *)

  Theorem get_events i c w c' w' r :
    core_get i c w = (c', w', r) ->
    w_events w' = (if bf_get (c_bitfield c) i then [] else [EvGet i]) ++ w_events w /\
    (bf_get (c_bitfield c) i = false ->
     r = Ok None /\ c' = c /\ w_journal w' = w_journal w /\ w_disk w' = w_disk w).
  Proof.
    unfold core_get. rewrite mbind_get_core. intros H.
    destruct (bf_get (c_bitfield c) i) eqn:B; cbn [negb] in H.
    - split; [|discriminate]. use_silent H. assumption.
    - rewrite mbind_send in H. prim_inv H. cbn [w_events w_journal w_disk app]. auto.
  Qed.

  Theorem clear_events f s e : silent (core_clear cr f s e).
  Proof. unfold core_clear. silent_tac. Qed.

  (* the two fields of a changeset that an append batch reads back *)
  Lemma append_root_fields c n it c' it' :
    append_root cr c n it = Ok (c', it') ->
    cs_ancestors c' = cs_ancestors c /\ cs_batch_length c' = cs_batch_length c.
  Proof.
    unfold append_root. intros H.
    apply bind_ok in H. destruct H as (bl & _ & H).
    apply bind_ok in H. destruct H as ([[rr nr] it2] & _ & H).
    inversion H; subst. cbn [cs_ancestors cs_batch_length]. auto.
  Qed.

  Lemma cs_append_fields c d c' :
    cs_append cr c d = Ok c' ->
    cs_ancestors c' = cs_ancestors c /\ cs_batch_length c' = cs_batch_length c + 1.
  Proof.
    unfold cs_append. intros H.
    apply bind_ok in H. destruct H as ([c1 it1] & H1 & H).
    apply append_root_fields in H1. destruct H1 as [Ha Hb].
    inversion H; subst. cbn [cs_ancestors cs_batch_length]. rewrite Ha, Hb. auto.
  Qed.

  Lemma cs_append_all_fields batch : forall cs cs',
    cs_append_all cr cs batch = Ok cs' ->
    cs_ancestors cs' = cs_ancestors cs /\
    cs_batch_length cs' = cs_batch_length cs + N.of_nat (length batch).
  Proof.
    induction batch as [|d batch IH]; intros cs cs' H; cbn [cs_append_all] in H.
    - inversion H; subst. cbn [length]. split; [reflexivity | lia].
    - apply bind_ok in H. destruct H as (cs1 & H1 & H).
      apply cs_append_fields in H1. apply IH in H. destruct H1 as [A1 B1], H as [A2 B2].
      rewrite A2, A1, B2, B1. cbn [length]. split; [reflexivity | lia].
  Qed.

  Theorem append_events f batch c w c' w' r :
    core_append cr f batch c w = (c', w', r) ->
    w_events w' = (match r, batch with
                   | Ok _, _ :: _ => [EvHave (t_length (c_tree c)) (N.of_nat (length batch)) false; EvUpgrade]
                   | _, _ => []
                   end) ++ w_events w.
  Proof.
    unfold core_append. rewrite mbind_get_core. intros H.
    destruct (kp_secret (c_keypair c)) as [sk|].
    2:{ prim_inv H. reflexivity. }
    destruct batch as [|d batch].
    { rewrite mbind_ret, mbind_get_core in H. prim_inv H. reflexivity. }
    set (B := d :: batch) in *.
    match type of H with
    | ?m c w = _ =>
        assert (Em : emits m (fun _ => [EvHave (t_length (c_tree c)) (N.of_nat (length B)) false; EvUpgrade]))
    end.
    { eapply emits_then_sender with (E2 := []); [ | | intros; reflexivity ].
      2:{ intros _ c1 w1. do 3 eexists. split; reflexivity. }
      apply emits_bind_post with
        (Q := fun cs => cs_ancestors cs = t_length (c_tree c) /\ cs_batch_length cs = N.of_nat (length B)).
      - silent_tac.
      - intros c1 w1 c2 w2 cs Hl. apply (f_equal snd) in Hl. cbn [snd lift] in Hl.
        apply cs_append_all_fields in Hl.
        cbn [tree_changeset cs_ancestors cs_batch_length] in Hl. now rewrite N.add_0_l in Hl.
      - intros cs [HA HB].
        apply emits_bind; [silent_tac | intros _].
        apply emits_bind; [silent_tac | intros _].
        apply emits_bind; [silent_tac | intros _].
        eapply sender_emits; [ | intros; reflexivity ].
        intros c1 w1. do 3 eexists. split; [reflexivity|].
        cbn [w_events bu_start bu_length cs_hash_and_sign cs_set_hash_sig cs_ancestors cs_batch_length app].
        now rewrite HA, HB. }
    apply Em in H. rewrite H. now destruct r.
  Qed.

  Theorem apply_events f pf c w c' w' r :
    core_apply_proof cr f pf c w = (c', w', r) ->
    w_events w' = (match r with
                   | Ok true => (match p_block pf with Some b => [EvHave (db_index b) 1 false] | None => [] end)
                                ++ (match p_upgrade pf with Some _ => [EvUpgrade] | None => [] end)
                   | _ => []
                   end) ++ w_events w.
  Proof.
    set (X := (match p_block pf with Some b => [EvHave (db_index b) 1 false] | None => [] end)
              ++ (match p_upgrade pf with Some _ => [EvUpgrade] | None => [] end)).
    assert (Em : emits (core_apply_proof cr f pf) (fun b : bool => if b then X else [])).
    { unfold core_apply_proof.
      apply emits_bind; [silent_tac | intros c0].
      destruct (negb (p_fork pf =? t_fork (c_tree c0))); [now apply emits_ret|].
      apply emits_bind; [silent_tac | intros d].
      apply emits_bind; [silent_tac | intros cs].
      destruct (negb (commitable (c_tree c0) cs)); [now apply emits_ret|].
      apply emits_bind_post with
        (Q := fun bu => bu = match p_block pf with
                             | Some b => Some (mkBfUpdate false (db_index b) 1)
                             | None => None
                             end).
      - silent_tac.
      - intros c1 w1 c2 w2 bu Hb. destruct (p_block pf) as [b|].
        + mstep Hb. mstep Hb. now prim_inv Hb.
        + now prim_inv Hb.
      - intros bu ->.
        apply emits_bind; [silent_tac | intros _].
        apply emits_bind; [silent_tac | intros _].
        apply sender_val_emits with (b := true) (E0 := X); [|reflexivity].
        intros c1 w1. subst X.
        destruct (p_upgrade pf) as [u|], (p_block pf) as [b|]; do 2 eexists; split; reflexivity. }
    intros H. apply Em in H. rewrite H. destruct r as [[|]| | |]; reflexivity.
  Qed.

  Theorem missing_nodes_silent i : silent (core_missing_nodes i) /\ silent (core_missing_nodes_tree i).
  Proof. split; [unfold core_missing_nodes | unfold core_missing_nodes_tree]; silent_tac. Qed.

  Theorem make_read_only_silent : silent (core_make_read_only cr).
  Proof. unfold core_make_read_only. silent_tac. Qed.

(* ====================================================================================== *)
(* 3-4. C12: make_read_only erases the secret key and never looks at it                     *)
(* ====================================================================================== *)

  Theorem make_read_only_erases_any c w c' w' r :
    core_make_read_only cr c w = (c', w', r) ->
    kp_secret (c_keypair c') = None /\ kp_secret (hd_keypair (c_header c')) = None.
  Proof.
    unfold core_make_read_only. rewrite mbind_get_core. cbv zeta. intros H.
    mstep H; prim_inv Hm. mstep H; prim_inv Hm.
    assert (K : forall c1 w1 r1,
               flush_all cr true
                 (mkCore (mkKeypair (kp_public (c_keypair c)) None) (c_oplog c) (c_tree c) (c_bitfield c)
                    (set_keypair (c_header c) (mkKeypair (kp_public (hd_keypair (c_header c))) None))
                    (c_skip c)) w = (c1, w1, r1) ->
               kp_secret (c_keypair c1) = None /\ kp_secret (hd_keypair (c_header c1)) = None).
    { intros c1 w1 r1 Hf.
      pose proof (flush_all_keeps_keypair cr true _ _ _ _ _ Hf) as K1.
      pose proof (flush_all_keeps_header cr true _ _ _ _ _ Hf) as K2.
      rewrite K1, K2. split; reflexivity. }
    mstep H.
    - prim_inv H. eapply K; eassumption.
    - eapply K; eassumption.
    - eapply K; eassumption.
    - eapply K; eassumption.
  Qed.

  Theorem make_read_only_erases c w c' w' r sk :
    kp_secret (c_keypair c) = Some sk ->
    core_make_read_only cr c w = (c', w', r) ->
    kp_secret (c_keypair c') = None /\ kp_secret (hd_keypair (c_header c')) = None.
  Proof. intros _. apply make_read_only_erases_any. Qed.

  (* replace the secret key, both in the core's key pair and in the header's copy *)
  Definition with_secret (c : core) (s : option bytes) : core :=
    mkCore (mkKeypair (kp_public (c_keypair c)) s) (c_oplog c) (c_tree c) (c_bitfield c)
           (set_keypair (c_header c) (mkKeypair (kp_public (hd_keypair (c_header c))) s))
           (c_skip c).

  (* every core is of this form *)
  Lemma with_secret_id c :
    kp_secret (hd_keypair (c_header c)) = kp_secret (c_keypair c) ->
    with_secret c (kp_secret (c_keypair c)) = c.
  Proof.
    destruct c as [[pk sk] o t b [k ns mpk [hpk hsk] ht hc] sp]. cbn. intros ->. reflexivity.
  Qed.

  (* non-interference: the complete outcome (core, disk, journal, events, result) of
     make_read_only is the same whatever the secret key bytes were *)
  Theorem make_read_only_secret_independent c w s1 s2 :
    core_make_read_only cr (with_secret c (Some s1)) w =
    core_make_read_only cr (with_secret c (Some s2)) w.
  Proof.
    unfold core_make_read_only. rewrite !mbind_get_core.
    cbn [with_secret c_keypair kp_secret].
    unfold mbind at 1 2. unfold mbind at 3 4. unfold put_keypair, put_header.
    cbn [with_secret c_keypair c_oplog c_tree c_bitfield c_header c_skip kp_public kp_secret
         set_keypair hd_key hd_ns hd_mpk hd_keypair hd_tree hd_contig].
    reflexivity.
  Qed.

  Theorem enc_header_secret_none h :
    kp_secret (hd_keypair h) = None ->
    enc_header h =
      [1; 6] ++ hd_key h
      ++ ([0; 0; 1] ++ [0] ++ hd_ns h ++ hd_mpk h)
      ++ (enc_buffer (kp_public (hd_keypair h)) ++ [0])
      ++ [0] ++ enc_header_tree (hd_tree h) ++ ([0] ++ enc_uint (hd_contig h)).
  Proof. intros H. unfold enc_header, enc_keypair. rewrite H. reflexivity. Qed.

(* ====================================================================================== *)
(* 6 (end). C13: create_proof sends at most the Get event of its internal read              *)
(* ====================================================================================== *)

  Lemma core_get_quiet i : quiet (core_get i).
  Proof. unfold core_get. quiet_tac. Qed.
  Lemma core_create_proof_quiet blk h s u : quiet (core_create_proof blk h s u).
  Proof. pose proof core_get_quiet. unfold core_create_proof. quiet_tac. Qed.
  Lemma core_missing_nodes_quiet i : quiet (core_missing_nodes i) /\ quiet (core_missing_nodes_tree i).
  Proof. split; [unfold core_missing_nodes | unfold core_missing_nodes_tree]; quiet_tac. Qed.

  (* the block index whose value create_proof will try to read and which is not held *)
  Definition proof_missing_block (blk h : option req_block) (s : option req_seek)
             (u : option req_upgrade) (c : core) (w : world) : option N :=
    match create_valueless_proof (c_tree c) (d_tree (w_disk w)) blk h s u with
    | Ok vp => match vp_block vp with
               | Some b => if bf_get (c_bitfield c) (dh_index b) then None else Some (dh_index b)
               | None => None
               end
    | _ => None
    end.

  Theorem create_proof_events blk h s u c w c' w' r :
    core_create_proof blk h s u c w = (c', w', r) ->
    w_events w' = (match proof_missing_block blk h s u c w with
                   | Some i => [EvGet i]
                   | None => []
                   end) ++ w_events w
    /\ (forall i, proof_missing_block blk h s u c w = Some i -> r = Ok None)
    /\ c' = c /\ w_disk w' = w_disk w /\ w_journal w' = w_journal w.
  Proof.
    intros H. split; [|split; [|exact (core_create_proof_quiet _ _ _ _ _ _ _ _ _ H)]];
      revert H; unfold core_create_proof, proof_missing_block;
      rewrite mbind_get_core, mbind_get_disk, mbind_lift;
      destruct (create_valueless_proof (c_tree c) (d_tree (w_disk w)) blk h s u) as [vp|e|p|];
      intros H; try (inversion H; subst; first [reflexivity | discriminate]).
    - destruct (vp_block vp) as [b|]; [|prim_inv H; reflexivity].
      mstep H; apply get_events in Hm; destruct Hm as [Hm _];
        destruct (bf_get (c_bitfield c) (dh_index b)); try assumption;
        destruct a; prim_inv H; assumption.
    - destruct (vp_block vp) as [b|]; [|discriminate].
      intros i Hi. destruct (bf_get (c_bitfield c) (dh_index b)) eqn:Bg; [discriminate|].
      mstep H; apply get_events in Hm; destruct Hm as [_ Hm]; destruct (Hm Bg) as (Hr & _);
        try discriminate.
      inversion Hr; subst. now prim_inv H.
  Qed.

  (* in words: no event when the proof has no block section or the block is held *)
  Corollary create_proof_silent_when blk h s u c w c' w' r :
    core_create_proof blk h s u c w = (c', w', r) ->
    proof_missing_block blk h s u c w = None -> w_events w' = w_events w.
  Proof. intros H Hn. apply create_proof_events in H. destruct H as [H _]. now rewrite Hn in H. Qed.

(* ====================================================================================== *)
(* 7. C02: the shape of the storage journal of an append                                    *)
(* ====================================================================================== *)

  (* neither the journal nor the disk changes *)
  Definition still {A} (m : M A) : Prop :=
    forall c w c' w' r, m c w = (c', w', r) -> w_journal w' = w_journal w /\ w_disk w' = w_disk w.

  Lemma still_bind {A B} (m : M A) (f : A -> M B) :
    still m -> (forall a, still (f a)) -> still (mbind m f).
  Proof.
    intros Hm Hf c w c' w' r H. mstep_as H H1; apply Hm in H1; try assumption.
    apply Hf in H. destruct H, H1. split; congruence.
  Qed.
  Ltac still_prim := let Hx := fresh "Hx" in intros ? ? ? ? ? Hx; prim_inv Hx; split; reflexivity.
  Ltac still_tac :=
    repeat first [ solve [still_prim] | hyp | apply still_bind; [|intros ?] | case_head ].

  (* a bitfield-page or tree-node write *)
  Definition is_bt_write (o : sop) : Prop :=
    match o with SW Bitfield _ _ | SW Tree _ _ => True | _ => False end.

  (* what a (non clear_traces) flush issues, oldest first: bitfield pages, tree nodes, then one
     header slot write followed by the truncation of the entries *)
  Definition flush_shape (fl : list sop) : Prop :=
    exists bt slot hb,
      fl = bt ++ [SW Oplog slot hb; ST Oplog ENTRIES_OFFSET] /\
      (slot = 0 \/ slot = HEADER_SIZE) /\ Forall is_bt_write bt.

  Lemma insert_header_shape h bits ct bits' ops :
    insert_header cr h 0 bits ct = Ok (bits', ops) ->
    exists slot hb, ops = [SW Oplog slot hb; ST Oplog ENTRIES_OFFSET] /\ (slot = 0 \/ slot = HEADER_SIZE).
  Proof.
    unfold insert_header, next_slot. intros H.
    destruct (xorb (fst bits) (snd bits));
      apply bind_ok in H; destruct H as (fr & _ & H);
      match type of H with (if ?b then _ else _) = _ => destruct b end; try discriminate;
      inversion H; subst; rewrite N.add_0_r; do 2 eexists; split; try reflexivity; auto.
  Qed.

  Lemma oplog_append_shape o e o' ops :
    oplog_append cr o e = Ok (o', ops) ->
    exists fr, ops = [SW Oplog (ENTRIES_OFFSET + ol_entries_bytes o) fr].
  Proof.
    unfold oplog_append. intros H.
    apply bind_ok in H. destruct H as (payload & _ & H).
    apply bind_ok in H. destruct H as (fr & _ & H).
    inversion H; subst. now exists fr.
  Qed.

  Lemma flush_all_shape c w c' w' u :
    flush_all cr false c w = (c', w', Ok u) ->
    exists fl, w_journal w' = rev fl ++ w_journal w /\ flush_shape fl.
  Proof.
    unfold flush_all. rewrite mbind_get_core. intros H.
    destruct (bf_flush (c_bitfield c)) as [b' pops] eqn:BF.
    mstep H; prim_inv Hm.
    mstep H. apply emit_ok in Hm. destruct Hm as (-> & _ & J1 & _).
    rewrite mbind_lift in H.
    destruct (tree_flush _) as [[t' tops]| | |] eqn:TF; try discriminate H.
    mstep H; prim_inv Hm.
    mstep H. apply emit_ok in Hm. destruct Hm as (-> & _ & J2 & _).
    rewrite mbind_get_core, mbind_lift in H.
    destruct (oplog_flush _ _ _ _) as [[o' oops]| | |] eqn:OF; try discriminate H.
    mstep H; prim_inv Hm.
    apply emit_ok in H. destruct H as (-> & _ & J3 & _).
    exists (pops ++ tops ++ oops). split.
    { rewrite J3, J2, J1, !rev_app_distr, <- !app_assoc. reflexivity. }
    unfold oplog_flush in OF. apply bind_ok in OF. destruct OF as ([bits1 ops1] & IH & OF).
    inversion OF; subst. apply insert_header_shape in IH. destruct IH as (slot & hb & -> & Hs).
    exists (pops ++ tops), slot, hb. rewrite <- app_assoc. repeat split; [assumption|].
    apply Forall_app. split.
    - unfold bf_flush in BF. inversion BF; subst. apply Forall_forall. intros o Ho.
      apply in_map_iff in Ho. destruct Ho as (p & <- & _). exact I.
    - unfold tree_flush in TF.
      match type of TF with (if ?b then _ else _) = _ => destruct b end; try discriminate TF.
      inversion TF; subst. apply Forall_forall. intros o Ho.
      apply in_map_iff in Ho. destruct Ho as (p & <- & _). exact I.
  Qed.

  Lemma maybe_flush_shape f c w c' w' u :
    maybe_flush cr f c w = (c', w', Ok u) ->
    exists fl, w_journal w' = rev fl ++ w_journal w /\ (fl = [] \/ flush_shape fl).
  Proof.
    unfold maybe_flush. rewrite mbind_get_core. intros H.
    match type of H with (if ?b then _ else _) _ _ = _ => destruct b end.
    - mstep H; prim_inv Hm. apply flush_all_shape in H. destruct H as (fl & J & S).
      exists fl. auto.
    - prim_inv H. exists []. auto.
  Qed.

  Lemma log_and_commit_journal cs bu c w c' w' u :
    log_and_commit cr cs bu c w = (c', w', Ok u) ->
    exists fr, w_journal w' = SW Oplog (ENTRIES_OFFSET + ol_entries_bytes (c_oplog c)) fr :: w_journal w.
  Proof.
    unfold log_and_commit. rewrite mbind_get_core, mbind_lift. intros H.
    destruct (entry_of_changeset cs bu (c_header c)) as [[e h']| | |]; try discriminate H.
    rewrite mbind_lift in H.
    destruct (oplog_append cr (c_oplog c) e) as [[o' ops]| | |] eqn:OA; try discriminate H.
    apply oplog_append_shape in OA. destruct OA as (fr & ->).
    mstep H; prim_inv Hm.
    mstep H. apply emit_ok in Hm. destruct Hm as (-> & _ & J1 & _).
    match type of H with
    | ?m _ _ = _ => assert (S : still m) by still_tac
    end.
    apply S in H. destruct H as [J2 _]. exists fr. now rewrite J2, J1.
  Qed.

  (* The journal delta of a successful non-empty append, oldest first: the data write, the
     oplog entry write, then either nothing or a flush. *)
  Theorem append_journal_order f batch c w c' w' x :
    core_append cr f batch c w = (c', w', Ok x) -> batch <> [] ->
    exists delta fr fl,
      w_journal w' = rev delta ++ w_journal w /\
      delta = SW Data (t_byte_length (c_tree c)) (concat batch)
              :: SW Oplog (ENTRIES_OFFSET + ol_entries_bytes (c_oplog c)) fr :: fl /\
      (fl = [] \/ flush_shape fl).
  Proof.
    unfold core_append. rewrite mbind_get_core. intros H Hne.
    destruct (kp_secret (c_keypair c)) as [sk|]; [|discriminate H].
    destruct batch as [|d batch]; [congruence|].
    set (B := d :: batch) in *.
    mstep H. rewrite mbind_get_core in H. prim_inv H.
    rewrite mbind_lift in Hm.
    destruct (cs_append_all cr (tree_changeset (c_tree c)) B) as [cs| | |]; try discriminate Hm.
    mstep Hm. apply emit_ok in Hm0. destruct Hm0 as (-> & _ & J1 & _).
    mstep Hm. apply log_and_commit_journal in Hm0. destruct Hm0 as (fr & J2).
    mstep Hm. apply maybe_flush_shape in Hm0. destruct Hm0 as (fl & J3 & S).
    rewrite !mbind_send in Hm. prim_inv Hm. cbn [w_journal].
    exists (SW Data (t_byte_length (c_tree c)) (concat B)
            :: SW Oplog (ENTRIES_OFFSET + ol_entries_bytes (c_oplog c)) fr :: fl), fr, fl.
    split; [|split; [reflexivity | assumption]].
    rewrite J3, J2, J1. cbn [rev app]. rewrite <- !app_assoc. reflexivity.
  Qed.

(* ====================================================================================== *)
(* Extras: every operation only adds events / journal entries, and the disk is always the   *)
(* old disk after the journalled operations                                                 *)
(* ====================================================================================== *)

  Theorem operations_journaled :
    (forall f batch, journaled (core_append cr f batch)) /\
    (forall i, journaled (core_get i)) /\
    (forall f s e, journaled (core_clear cr f s e)) /\
    (forall b h s u, journaled (core_create_proof b h s u)) /\
    (forall f pf, journaled (core_apply_proof cr f pf)) /\
    journaled (core_make_read_only cr).
  Proof.
    pose proof (flush_all_journaled cr). pose proof (maybe_flush_journaled cr).
    pose proof (log_and_commit_journaled cr).
    assert (forall i, journaled (core_get i)) by (intros; apply quiet_journaled, core_get_quiet).
    repeat split; intros.
    - unfold core_append. journaled_tac.
    - auto.
    - unfold core_clear. journaled_tac.
    - apply quiet_journaled, core_create_proof_quiet.
    - unfold core_apply_proof. journaled_tac.
    - unfold core_make_read_only. journaled_tac.
  Qed.

  Theorem operations_frame_ev :
    (forall f batch, frame_ev (core_append cr f batch)) /\
    (forall i, frame_ev (core_get i)) /\
    (forall f s e, frame_ev (core_clear cr f s e)) /\
    (forall b h s u, frame_ev (core_create_proof b h s u)) /\
    (forall f pf, frame_ev (core_apply_proof cr f pf)) /\
    frame_ev (core_make_read_only cr).
  Proof.
    assert (F1 : forall f, frame_ev (maybe_flush cr f)) by (intros; apply silent_frame_ev, maybe_flush_silent).
    assert (F2 : forall cs bu, frame_ev (log_and_commit cr cs bu))
      by (intros; apply silent_frame_ev, log_and_commit_silent).
    assert (F3 : forall i, frame_ev (core_get i)) by (intros; unfold core_get; frame_ev_tac).
    repeat split; intros.
    - unfold core_append. frame_ev_tac.
    - auto.
    - apply silent_frame_ev, clear_events.
    - unfold core_create_proof. frame_ev_tac.
    - unfold core_apply_proof. frame_ev_tac.
    - apply silent_frame_ev, make_read_only_silent.
  Qed.

End Theorems.

(* ====================================================================================== *)
(* 8. Non-vacuity: a toy crypto record, a core opened on the empty disk, concrete runs      *)
(* ====================================================================================== *)

Definition toy_crypto : crypto :=
  mkCrypto (fun b => le_bytes 32 (sumN b + 1))        (* never the all-zero (blank) hash *)
           (fun b => sumN b mod 4294967296)
           (fun sk m => le_bytes 64 (sumN sk + sumN m + 1))
           (fun pk m sg => true).

Definition toy_kp : keypair := mkKeypair (repeat 1 32) (Some (repeat 2 32)).

(* open a fresh core, then run [k] on it in a world with empty journal and no events *)
Definition toy_run {A} (k : M A) : option (core * world * res A) :=
  match core_open toy_crypto (Some toy_kp) false disk_empty with
  | (d, _, Ok c0) => Some (k c0 (mkWorld d [] []))
  | _ => None
  end.

Definition observe {A} (x : option (core * world * res A)) : option (list event * res A) :=
  match x with Some (_, w, r) => Some (w_events w, r) | None => None end.

Example toy_append_events :
  observe (toy_run (core_append toy_crypto (Some false) [[1; 2; 3]; [4]])) =
  Some ([EvHave 0 2 false; EvUpgrade], Ok (2, 4)).
Proof. vm_compute. reflexivity. Qed.

(* two appends (the second one flushing), then a read of a held and of a missing block *)
Example toy_append_get_events :
  observe (toy_run (core_append toy_crypto (Some false) [[1; 2; 3]; [4]] ;;;
                    core_append toy_crypto (Some true) [[5; 6]] ;;;
                    a <-- core_get 2 ;;; b <-- core_get 7 ;;; ret (a, b))) =
  Some ([EvGet 7; EvHave 2 1 false; EvUpgrade; EvHave 0 2 false; EvUpgrade],
        Ok (Some [5; 6], None)).
Proof. vm_compute. reflexivity. Qed.

(* the journal of a non-empty append that flushes: data, oplog entry, bitfield page, tree nodes,
   header slot, truncate *)
Example toy_append_journal :
  match toy_run (core_append toy_crypto (Some true) [[1; 2; 3]]) with
  | Some (_, w, Ok _) =>
      map (fun o => match o with
                    | SW s off _ => (s, off, 0)
                    | SD s off n => (s, off, n)
                    | ST s n => (s, n, 1)
                    end) (rev (w_journal w))
  | _ => []
  end = [(Data, 0, 0); (Oplog, 8192, 0); (Bitfield, 0, 0); (Tree, 0, 0); (Oplog, 4096, 0); (Oplog, 8192, 1)].
Proof. vm_compute. reflexivity. Qed.

(* make_read_only: true the first time, false the second; afterwards appends are refused and
   nothing is sent *)
Example toy_read_only :
  observe (toy_run (a <-- core_make_read_only toy_crypto ;;;
                    b <-- core_make_read_only toy_crypto ;;; ret (a, b))) = Some ([], Ok (true, false))
  /\ observe (toy_run (core_make_read_only toy_crypto ;;;
                       core_append toy_crypto None [[1]])) = Some ([], Err NotWritable).
Proof. split; vm_compute; reflexivity. Qed.

(* a proof created by one core and applied to a fresh read-only replica: block 1 + upgrade *)
Definition toy_proof : option proof :=
  match toy_run (core_append toy_crypto (Some true) [[1; 2; 3]; [4]] ;;;
                 core_create_proof (Some (mkReqBlock 1 0)) None None (Some (mkReqUpgrade 0 2))) with
  | Some (_, _, Ok p) => p
  | _ => None
  end.

Definition toy_replica_run {A} (k : M A) : option (core * world * res A) :=
  match core_open toy_crypto (Some (mkKeypair (repeat 1 32) None)) false disk_empty with
  | (d, _, Ok c0) => Some (k c0 (mkWorld d [] []))
  | _ => None
  end.

Example toy_apply_events :
  match toy_proof with
  | Some pf =>
      observe (toy_replica_run (core_apply_proof toy_crypto (Some false) pf)) =
        Some ([EvHave 1 1 false; EvUpgrade], Ok true)
      /\ (* the same proof presented for another fork is refused without any effect *)
      observe (toy_replica_run (core_apply_proof toy_crypto (Some false)
                 (mkProof 1 (p_block pf) (p_hash pf) (p_seek pf) (p_upgrade pf)))) =
        Some ([], Ok false)
  | None => False
  end.
Proof. vm_compute. split; reflexivity. Qed.

(* ====================================================================================== *)
Print Assumptions append_not_writable.
Print Assumptions make_read_only_result.
Print Assumptions make_read_only_erases_any.
Print Assumptions apply_fork_mismatch.
Print Assumptions apply_verify_error.
Print Assumptions apply_verify_panic.
Print Assumptions apply_verify_out_of_fuel.
Print Assumptions apply_not_commitable.
Print Assumptions get_events.
Print Assumptions clear_events.
Print Assumptions append_events.
Print Assumptions apply_events.
Print Assumptions missing_nodes_silent.
Print Assumptions make_read_only_silent.
Print Assumptions make_read_only_erases.
Print Assumptions make_read_only_secret_independent.
Print Assumptions enc_header_secret_none.
Print Assumptions create_proof_events.
Print Assumptions create_proof_silent_when.
Print Assumptions append_journal_order.
Print Assumptions operations_journaled.
Print Assumptions operations_frame_ev.
Print Assumptions flush_all_silent.
Print Assumptions maybe_flush_silent.
Print Assumptions log_and_commit_silent.
Print Assumptions flush_all_journal_grows.
Print Assumptions maybe_flush_journal_grows.
Print Assumptions log_and_commit_journal_grows.
Print Assumptions toy_append_events.
Print Assumptions toy_append_get_events.
Print Assumptions toy_append_journal.
Print Assumptions toy_read_only.
Print Assumptions toy_apply_events.

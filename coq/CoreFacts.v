(* CoreFacts.v — facts about the Hypercore state machine of Core.v:
   a small library about the state+error monad (which operations send events, touch the journal,
   the disk, the core), the read-only facts (C12), refusal of proofs is a no-op (C04), the exact
   events sent by each operation (C13), the shape of the storage journal of an append (C02). *)
From HC Require Import Base NMap Codec CodecFacts Crypto FlatTree Storage Bitfield Oplog Merkle Core.
From Coq Require Import ZifyN ZifyNat ZifyBool.
Ltac Zify.zify_post_hook ::= Z.div_mod_to_equations.
Arguments N.add : simpl never.
Arguments N.sub : simpl never.
Arguments N.mul : simpl never.
Arguments N.div : simpl never.
Arguments N.modulo : simpl never.
Arguments N.pow : simpl never.
Arguments N.eqb : simpl never.
Arguments N.ltb : simpl never.
Arguments N.leb : simpl never.

(* ====================================================================================== *)
(* 0. Monad library                                                                        *)
(* ====================================================================================== *)

(* events only grow *)
Definition frame_ev {A} (m : M A) : Prop :=
  forall c w c' w' r, m c w = (c', w', r) -> exists evs, w_events w' = evs ++ w_events w.

(* no event is sent *)
Definition silent {A} (m : M A) : Prop :=
  forall c w c' w' r, m c w = (c', w', r) -> w_events w' = w_events w.

(* the journal only grows, and the disk is the old disk after the journalled operations
   (the prefix is newest first, so it is replayed reversed) *)
Definition journal_grows {A} (m : M A) : Prop :=
  forall c w c' w' r, m c w = (c', w', r) ->
    exists ops, w_journal w' = ops ++ w_journal w /\ apply_sops (w_disk w) (rev ops) = Some (w_disk w').

(* a pure read: core, disk and journal are untouched (events may be sent) *)
Definition quiet {A} (m : M A) : Prop :=
  forall c w c' w' r, m c w = (c', w', r) ->
    c' = c /\ w_disk w' = w_disk w /\ w_journal w' = w_journal w.

(* a component of the core is never modified *)
Definition keeps {X A} (proj : core -> X) (m : M A) : Prop :=
  forall c w c' w' r, m c w = (c', w', r) -> proj c' = proj c.

(* inversion of one bind *)
Lemma mbind_inv {A B} (m : M A) (f : A -> M B) c w c' w' r :
  mbind m f c w = (c', w', r) ->
  exists c1 w1 r1, m c w = (c1, w1, r1) /\
    match r1 with
    | Ok a => f a c1 w1 = (c', w', r)
    | Err e => c' = c1 /\ w' = w1 /\ r = Err e
    | Panic s => c' = c1 /\ w' = w1 /\ r = Panic s
    | OutOfFuel => c' = c1 /\ w' = w1 /\ r = OutOfFuel
    end.
Proof.
  unfold mbind. destruct (m c w) as [[c1 w1] r1]. intros H.
  exists c1, w1, r1. split; [reflexivity|].
  destruct r1; [assumption| | |]; inversion H; subst; repeat split.
Qed.

(* [mstep H]: H : mbind m f c w = (c', w', r). Names the intermediate state, leaves
   [Hm : m c w = (c1, w1, r1)] and cases on r1; in the three failure cases the equations
   c' = c1, w' = w1, r = ... are substituted. *)
Ltac mstep_as H Hm :=
  let c1 := fresh "c" in let w1 := fresh "w" in let r1 := fresh "r" in
  apply mbind_inv in H; destruct H as (c1 & w1 & r1 & Hm & H);
  destruct r1 as [?a|?e|?s|];
  [ | destruct H as (-> & -> & ->) | destruct H as (-> & -> & ->) | destruct H as (-> & -> & ->) ].
Ltac mstep H := let Hm := fresh "Hm" in mstep_as H Hm.

(* inversion of the primitive computations *)
Ltac prim_inv H :=
  match type of H with
  | ret _ _ _ = _ => unfold ret in H
  | lift _ _ _ = _ => unfold lift in H
  | get_core _ _ = _ => unfold get_core in H
  | get_disk _ _ = _ => unfold get_disk in H
  | set_core _ _ _ = _ => unfold set_core in H
  | send _ _ _ = _ => unfold send in H
  | put_header _ _ _ = _ => unfold put_header in H
  | put_oplog _ _ _ = _ => unfold put_oplog in H
  | put_tree _ _ _ = _ => unfold put_tree in H
  | put_bitfield _ _ _ = _ => unfold put_bitfield in H
  | put_skip _ _ _ = _ => unfold put_skip in H
  | put_keypair _ _ _ = _ => unfold put_keypair in H
  end; inversion H; subst; clear H.

(* ---------- emit ---------- *)

Lemma emit_inv ops : forall c w c' w' r, emit ops c w = (c', w', r) ->
  c' = c /\ w_events w' = w_events w /\
  exists done, w_journal w' = rev done ++ w_journal w /\ apply_sops (w_disk w) done = Some (w_disk w') /\
               match r with
               | Ok _ => done = ops
               | Err e => e = InvalidOperation /\ exists o rest, ops = done ++ o :: rest /\ apply_sop (w_disk w') o = None
               | _ => False
               end.
Proof.
  induction ops as [|o ops IH]; intros c w c' w' r H.
  - cbn [emit] in H. prim_inv H. repeat split. exists []. repeat split.
  - cbn [emit] in H. destruct (apply_sop (w_disk w) o) as [d'|] eqn:E.
    + apply IH in H. cbn [w_disk w_journal w_events] in H.
      destruct H as (-> & Hev & done & Hj & Hd & Hr). repeat split; [assumption|].
      exists (o :: done). cbn [rev apply_sops]. rewrite E, <- app_assoc. cbn [app].
      repeat split; try assumption.
      destruct r; try assumption.
      * now subst.
      * destruct Hr as (-> & o' & rest & -> & Hn). split; [reflexivity|]. now exists o', rest.
    + inversion H; subst. repeat split. exists []. repeat split.
      exists o, ops. split; [reflexivity | assumption].
Qed.

Lemma emit_ok ops c w c' w' u : emit ops c w = (c', w', Ok u) ->
  c' = c /\ w_events w' = w_events w /\ w_journal w' = rev ops ++ w_journal w /\
  apply_sops (w_disk w) ops = Some (w_disk w').
Proof.
  intros H. apply emit_inv in H. destruct H as (-> & Hev & done & Hj & Hd & ->). auto.
Qed.

(* ---------- silent ---------- *)

Lemma silent_ret {A} (a : A) : silent (ret a).
Proof. intros c w c' w' r H. now prim_inv H. Qed.
Lemma silent_lift {A} (x : res A) : silent (lift x).
Proof. intros c w c' w' r H. now prim_inv H. Qed.
Lemma silent_get_core : silent get_core.
Proof. intros c w c' w' r H. now prim_inv H. Qed.
Lemma silent_get_disk : silent get_disk.
Proof. intros c w c' w' r H. now prim_inv H. Qed.
Lemma silent_set_core c0 : silent (set_core c0).
Proof. intros c w c' w' r H. now prim_inv H. Qed.
Lemma silent_put_header h : silent (put_header h).
Proof. intros c w c' w' r H. now prim_inv H. Qed.
Lemma silent_put_oplog o : silent (put_oplog o).
Proof. intros c w c' w' r H. now prim_inv H. Qed.
Lemma silent_put_tree t : silent (put_tree t).
Proof. intros c w c' w' r H. now prim_inv H. Qed.
Lemma silent_put_bitfield b : silent (put_bitfield b).
Proof. intros c w c' w' r H. now prim_inv H. Qed.
Lemma silent_put_skip s : silent (put_skip s).
Proof. intros c w c' w' r H. now prim_inv H. Qed.
Lemma silent_put_keypair k : silent (put_keypair k).
Proof. intros c w c' w' r H. now prim_inv H. Qed.
Lemma silent_emit ops : silent (emit ops).
Proof. intros c w c' w' r H. now apply emit_inv in H. Qed.

Lemma silent_bind {A B} (m : M A) (f : A -> M B) :
  silent m -> (forall a, silent (f a)) -> silent (mbind m f).
Proof.
  intros Hm Hf c w c' w' r H. mstep_as H H1; apply Hm in H1; try assumption.
  apply Hf in H. congruence.
Qed.

(* [monad_tac bindlemma prims]: structural proof of a predicate closed under mbind *)
Ltac case_head :=
  match goal with
  | |- _ (match ?x with _ => _ end) => destruct x
  end.

Ltac silent_prim :=
  first [ apply silent_ret | apply silent_lift | apply silent_get_core | apply silent_get_disk
        | apply silent_set_core | apply silent_put_header | apply silent_put_oplog
        | apply silent_put_tree | apply silent_put_bitfield | apply silent_put_skip
        | apply silent_put_keypair | apply silent_emit ].
Ltac silent_tac :=
  repeat first [ silent_prim | assumption | apply silent_bind; [|intros ?] | case_head ].

(* ---------- frame_ev ---------- *)

Lemma silent_frame_ev {A} (m : M A) : silent m -> frame_ev m.
Proof. intros Hs c w c' w' r H. exists []. now apply Hs in H. Qed.

Lemma frame_ev_send e : frame_ev (send e).
Proof. intros c w c' w' r H. prim_inv H. now exists [e]. Qed.

Lemma frame_ev_bind {A B} (m : M A) (f : A -> M B) :
  frame_ev m -> (forall a, frame_ev (f a)) -> frame_ev (mbind m f).
Proof.
  intros Hm Hf c w c' w' r H. mstep_as H H1; apply Hm in H1; try assumption.
  apply Hf in H. destruct H1 as [e1 H1], H as [e2 H]. exists (e2 ++ e1).
  now rewrite H, H1, app_assoc.
Qed.

Ltac frame_ev_tac :=
  repeat first [ apply frame_ev_send | apply silent_frame_ev; silent_prim | assumption
               | apply frame_ev_bind; [|intros ?] | case_head ].

(* ---------- journal_grows ---------- *)

Lemma journal_grows_same {A} (m : M A) :
  (forall c w c' w' r, m c w = (c', w', r) -> w_disk w' = w_disk w /\ w_journal w' = w_journal w) ->
  journal_grows m.
Proof. intros Hq c w c' w' r H. apply Hq in H. destruct H as [Hd Hj]. exists []. now rewrite Hd, Hj. Qed.

Lemma journal_grows_ret {A} (a : A) : journal_grows (ret a).
Proof. apply journal_grows_same. intros c w c' w' r H. now prim_inv H. Qed.
Lemma journal_grows_lift {A} (x : res A) : journal_grows (lift x).
Proof. apply journal_grows_same. intros c w c' w' r H. now prim_inv H. Qed.
Lemma journal_grows_get_core : journal_grows get_core.
Proof. apply journal_grows_same. intros c w c' w' r H. now prim_inv H. Qed.
Lemma journal_grows_get_disk : journal_grows get_disk.
Proof. apply journal_grows_same. intros c w c' w' r H. now prim_inv H. Qed.
Lemma journal_grows_set_core c0 : journal_grows (set_core c0).
Proof. apply journal_grows_same. intros c w c' w' r H. now prim_inv H. Qed.
Lemma journal_grows_send e : journal_grows (send e).
Proof. apply journal_grows_same. intros c w c' w' r H. now prim_inv H. Qed.
Lemma journal_grows_put_header h : journal_grows (put_header h).
Proof. apply journal_grows_same. intros c w c' w' r H. now prim_inv H. Qed.
Lemma journal_grows_put_oplog o : journal_grows (put_oplog o).
Proof. apply journal_grows_same. intros c w c' w' r H. now prim_inv H. Qed.
Lemma journal_grows_put_tree t : journal_grows (put_tree t).
Proof. apply journal_grows_same. intros c w c' w' r H. now prim_inv H. Qed.
Lemma journal_grows_put_bitfield b : journal_grows (put_bitfield b).
Proof. apply journal_grows_same. intros c w c' w' r H. now prim_inv H. Qed.
Lemma journal_grows_put_skip s : journal_grows (put_skip s).
Proof. apply journal_grows_same. intros c w c' w' r H. now prim_inv H. Qed.
Lemma journal_grows_put_keypair k : journal_grows (put_keypair k).
Proof. apply journal_grows_same. intros c w c' w' r H. now prim_inv H. Qed.
Lemma journal_grows_emit ops : journal_grows (emit ops).
Proof.
  intros c w c' w' r H. apply emit_inv in H. destruct H as (_ & _ & done & Hj & Hd & _).
  exists (rev done). now rewrite rev_involutive.
Qed.

Lemma apply_sops_app d a b :
  apply_sops d (a ++ b) = match apply_sops d a with Some d' => apply_sops d' b | None => None end.
Proof.
  revert d. induction a as [|o a IH]; intros d; cbn [app apply_sops]; [reflexivity|].
  destruct (apply_sop d o); [apply IH | reflexivity].
Qed.

Lemma journal_grows_bind {A B} (m : M A) (f : A -> M B) :
  journal_grows m -> (forall a, journal_grows (f a)) -> journal_grows (mbind m f).
Proof.
  intros Hm Hf c w c' w' r H. mstep_as H H1; apply Hm in H1; try assumption.
  apply Hf in H. destruct H1 as (o1 & J1 & D1), H as (o2 & J2 & D2). exists (o2 ++ o1).
  rewrite J2, J1, app_assoc. split; [reflexivity|].
  now rewrite rev_app_distr, apply_sops_app, D1.
Qed.

Ltac journal_grows_prim :=
  first [ apply journal_grows_ret | apply journal_grows_lift | apply journal_grows_get_core
        | apply journal_grows_get_disk | apply journal_grows_set_core | apply journal_grows_send
        | apply journal_grows_put_header | apply journal_grows_put_oplog | apply journal_grows_put_tree
        | apply journal_grows_put_bitfield | apply journal_grows_put_skip | apply journal_grows_put_keypair
        | apply journal_grows_emit ].
Ltac journal_grows_tac :=
  repeat first [ journal_grows_prim | assumption | apply journal_grows_bind; [|intros ?] | case_head ].

(* ---------- quiet ---------- *)

Lemma quiet_ret {A} (a : A) : quiet (ret a).
Proof. intros c w c' w' r H. now prim_inv H. Qed.
Lemma quiet_lift {A} (x : res A) : quiet (lift x).
Proof. intros c w c' w' r H. now prim_inv H. Qed.
Lemma quiet_get_core : quiet get_core.
Proof. intros c w c' w' r H. now prim_inv H. Qed.
Lemma quiet_get_disk : quiet get_disk.
Proof. intros c w c' w' r H. now prim_inv H. Qed.
Lemma quiet_send e : quiet (send e).
Proof. intros c w c' w' r H. now prim_inv H. Qed.
Lemma quiet_emit_nil : quiet (emit []).
Proof. intros c w c' w' r H. cbn [emit] in H. now prim_inv H. Qed.

Lemma quiet_bind {A B} (m : M A) (f : A -> M B) :
  quiet m -> (forall a, quiet (f a)) -> quiet (mbind m f).
Proof.
  intros Hm Hf c w c' w' r H. mstep_as H H1; apply Hm in H1; try assumption.
  apply Hf in H. destruct H1 as (-> & D1 & J1), H as (-> & D2 & J2). repeat split; congruence.
Qed.

Lemma quiet_journal_grows {A} (m : M A) : quiet m -> journal_grows m.
Proof. intros Hq. apply journal_grows_same. intros c w c' w' r H. now apply Hq in H. Qed.

Ltac quiet_prim :=
  first [ apply quiet_ret | apply quiet_lift | apply quiet_get_core | apply quiet_get_disk
        | apply quiet_send | apply quiet_emit_nil ].
Ltac quiet_tac :=
  repeat first [ quiet_prim | assumption | apply quiet_bind; [|intros ?] | case_head ].

(* ---------- keeps ---------- *)

Lemma keeps_ret {X A} (p : core -> X) (a : A) : keeps p (ret a).
Proof. intros c w c' w' r H. now prim_inv H. Qed.
Lemma keeps_lift {X A} (p : core -> X) (x : res A) : keeps p (lift x).
Proof. intros c w c' w' r H. now prim_inv H. Qed.
Lemma keeps_get_core {X} (p : core -> X) : keeps p get_core.
Proof. intros c w c' w' r H. now prim_inv H. Qed.
Lemma keeps_get_disk {X} (p : core -> X) : keeps p get_disk.
Proof. intros c w c' w' r H. now prim_inv H. Qed.
Lemma keeps_send {X} (p : core -> X) e : keeps p (send e).
Proof. intros c w c' w' r H. now prim_inv H. Qed.
Lemma keeps_emit {X} (p : core -> X) ops : keeps p (emit ops).
Proof. intros c w c' w' r H. apply emit_inv in H. now destruct H as (-> & _). Qed.
Lemma keeps_bind {X A B} (p : core -> X) (m : M A) (f : A -> M B) :
  keeps p m -> (forall a, keeps p (f a)) -> keeps p (mbind m f).
Proof.
  intros Hm Hf c w c' w' r H. mstep_as H H1; apply Hm in H1; try assumption.
  apply Hf in H. congruence.
Qed.
(* the put_* that leave a given projection alone: by computation *)
Ltac keeps_put := intros ? ? ? ? ? H; prim_inv H; reflexivity.
Ltac keeps_prim :=
  first [ apply keeps_ret | apply keeps_lift | apply keeps_get_core | apply keeps_get_disk
        | apply keeps_send | apply keeps_emit ].
Ltac keeps_tac :=
  repeat first [ keeps_prim | assumption | apply keeps_bind; [|intros ?] | case_head
               | solve [keeps_put] ].

(* ---------- the internal flushing / logging computations ---------- *)

Section WithCrypto.
  Variable cr : crypto.

  Lemma flush_all_silent ct : silent (flush_all cr ct).
  Proof. unfold flush_all. silent_tac. Qed.
  Lemma maybe_flush_silent f : silent (maybe_flush cr f).
  Proof. pose proof flush_all_silent. unfold maybe_flush. silent_tac. Qed.
  Lemma log_and_commit_silent cs bu : silent (log_and_commit cr cs bu).
  Proof. unfold log_and_commit. silent_tac. Qed.

  Lemma flush_all_journal_grows ct : journal_grows (flush_all cr ct).
  Proof. unfold flush_all. journal_grows_tac. Qed.
  Lemma maybe_flush_journal_grows f : journal_grows (maybe_flush cr f).
  Proof. pose proof flush_all_journal_grows. unfold maybe_flush. journal_grows_tac. Qed.
  Lemma log_and_commit_journal_grows cs bu : journal_grows (log_and_commit cr cs bu).
  Proof. unfold log_and_commit. journal_grows_tac. Qed.

  Lemma flush_all_keeps_keypair ct : keeps c_keypair (flush_all cr ct).
  Proof. unfold flush_all. keeps_tac. Qed.
  Lemma flush_all_keeps_header ct : keeps c_header (flush_all cr ct).
  Proof. unfold flush_all. keeps_tac. Qed.
End WithCrypto.

(* ====================================================================== *)
(* Shared.v -- property C15.                                              *)
(*                                                                        *)
(* Several tasks call methods of ONE shared object.  Every method body is *)
(* a single critical section: take the mutex, run some micro-steps (one   *)
(* per storage operation / await point, each of which may read and write  *)
(* the shared state), release the mutex.  We give a small-step semantics  *)
(* in which the scheduler may interleave the tasks arbitrarily and prove, *)
(* for any number of tasks, any programs and any schedule, that the run   *)
(* is equivalent to executing the calls atomically, one after the other,  *)
(* in the order in which they completed (= lock-acquisition order): no    *)
(* call ever observes a partially applied append / clear / proof.         *)
(*                                                                        *)
(* Self-contained: Coq standard library only.                             *)
(* ====================================================================== *)
From Coq Require Import List Arith Lia Bool PeanoNat ZifyBool.
Import ListNotations.

(* 0. Generic list facts (kept outside the section: inside it the name S  *)
(*    denotes the type of shared states, not the successor of nat).       *)

(* [upd n x l] replaces position n of l by x (no effect if out of range). *)
Fixpoint upd {A : Type} (n : nat) (x : A) (l : list A) : list A :=
  match l, n with
  | [], _ => []
  | _ :: l', O => x :: l'
  | a :: l', S n' => a :: upd n' x l'
  end.

Lemma length_upd : forall A n (x : A) l, length (upd n x l) = length l.
Proof. intros A n x l; revert n; induction l; intros [|n]; simpl; auto. Qed.

Lemma nth_error_upd_same : forall A n (x a : A) l,
  nth_error l n = Some a -> nth_error (upd n x l) n = Some x.
Proof. intros A n x a l; revert n; induction l; intros [|n]; simpl; try discriminate; auto. Qed.

Lemma nth_error_upd_other : forall A n m (x : A) l,
  m <> n -> nth_error (upd n x l) m = nth_error l m.
Proof.
  intros A n m x l; revert n m; induction l; intros [|n] [|m] H; simpl; auto; try lia.
Qed.

(* the one inversion principle used everywhere below *)
Lemma nth_error_upd_inv : forall A n m (x y : A) l,
  nth_error (upd n x l) m = Some y ->
  (m = n /\ y = x) \/ (m <> n /\ nth_error l m = Some y).
Proof.
  intros A n m x y l H. destruct (Nat.eq_dec m n) as [->|Hne].
  - left; split; auto.
    assert (Hlt : n < length l).
    { rewrite <- (length_upd A n x l). apply nth_error_Some. congruence. }
    destruct (nth_error l n) as [a|] eqn:E.
    + rewrite (nth_error_upd_same _ _ x _ _ E) in H. congruence.
    + apply nth_error_None in E. lia.
  - right; split; auto. now rewrite nth_error_upd_other in H.
Qed.

Lemma nth_error_snoc_inv : forall A (l : list A) e i a,
  nth_error (l ++ [e]) i = Some a ->
  (i < length l /\ nth_error l i = Some a) \/ (i = length l /\ a = e).
Proof.
  intros A l e i a H. destruct (Nat.lt_ge_cases i (length l)) as [Hlt|Hge].
  - left. now rewrite nth_error_app1 in H.
  - right. rewrite nth_error_app2 in H by assumption.
    destruct (i - length l) as [|k] eqn:E; simpl in H.
    + split; [lia | congruence].
    + destruct k; discriminate.
Qed.

Lemma map_nth_seq0 : forall A (d : A) l, map (fun t => nth t l d) (seq 0 (length l)) = l.
Proof.
  induction l as [|a l IH]; simpl; auto.
  f_equal. rewrite <- seq_shift, map_map. exact IH.
Qed.

Lemma list_sum_map_add : forall A (f g : A -> nat) l,
  list_sum (map (fun a => f a + g a) l) = list_sum (map f l) + list_sum (map g l).
Proof. induction l; simpl; lia. Qed.

Lemma list_sum_indicator : forall k n a,
  list_sum (map (fun t => if k =? t then 1 else 0) (seq a n)) =
  if (a <=? k) && (k <? a + n) then 1 else 0.
Proof.
  intros k n; induction n as [|n IH]; intros a; simpl.
  - destruct (a <=? k) eqn:E1, (k <? a + 0) eqn:E2; simpl; auto; lia.
  - rewrite IH.
    destruct (k =? a) eqn:E0, (S a <=? k) eqn:E1, (k <? S a + n) eqn:E2,
             (a <=? k) eqn:E3, (k <? a + S n) eqn:E4; simpl; lia.
Qed.

(* a list whose keys are all below n is the disjoint union of its n key classes *)
Lemma length_by_key : forall A (key : A -> nat) n l,
  (forall e, In e l -> key e < n) ->
  length l = list_sum (map (fun t => length (filter (fun e => key e =? t) l)) (seq 0 n)).
Proof.
  intros A key n; induction l as [|a l IH]; intros H.
  - simpl. induction (seq 0 n); simpl; auto.
  - rewrite (map_ext _ (fun t => (if key a =? t then 1 else 0)
                                 + length (filter (fun e => key e =? t) l))).
    + rewrite list_sum_map_add, list_sum_indicator, <- IH by (intros; apply H; now right).
      assert (key a < n) by (apply H; now left).
      destruct (0 <=? key a) eqn:E1, (key a <? 0 + n) eqn:E2; simpl; lia.
    + intros t; simpl. destruct (key a =? t); reflexivity.
Qed.

(* 1. The model                                                           *)
Section Mutex.
  Variables (S L R call : Type).  (* shared state, method-local state, result, method call *)
  Variable l0 : call -> L.        (* local state a method body starts with *)
  Variable body : call -> list (S * L -> S * L).
                                  (* micro-steps of the body; each may read/write the shared state *)
  Variable res : call -> L -> R.  (* result computed from the final local state *)

  (* running a (part of a) body *)
  Definition run_fs (fs : list (S * L -> S * L)) (x : S * L) : S * L :=
    fold_left (fun x f => f x) fs x.

  (* atomic (sequential) meaning of a call *)
  Definition atomic (c : call) (s : S) : S * R :=
    let '(s', l') := fold_left (fun x f => f x) (body c) (s, l0 c) in (s', res c l').

  (* sequential execution of a list of calls *)
  Fixpoint seq_run (s : S) (cs : list call) : S * list R :=
    match cs with
    | [] => (s, [])
    | c :: cs' => let '(s1, r) := atomic c s in
                  let '(s2, rs) := seq_run s1 cs' in (s2, r :: rs)
    end.

  Lemma seq_run_snoc : forall cs s c s1 rs,
    seq_run s cs = (s1, rs) ->
    seq_run s (cs ++ [c]) = (fst (atomic c s1), rs ++ [snd (atomic c s1)]).
  Proof.
    induction cs as [|a cs IH]; intros s c s1 rs H; simpl in *.
    - inversion H; subst. destruct (atomic c s1); reflexivity.
    - destruct (atomic a s) as [s2 r]. destruct (seq_run s2 cs) as [s3 rs'] eqn:E.
      inversion H; subst. rewrite (IH _ c _ _ E). reflexivity.
  Qed.

  (* task states *)
  Inductive tstate :=
  | Idle                                  (* between calls *)
  | Waiting (c : call)                    (* has started call c, waits for the lock *)
  | Running (c : call) (l : L) (rest : list (S * L -> S * L)).  (* holds the lock *)

  Record task := { prog : list call;     (* calls still to issue *)
                   st : tstate;
                   out : list R }.        (* results obtained so far, oldest first *)

  Record config := { shared : S;
                     holder : option nat;            (* index of the task holding the lock *)
                     tasks : list task;
                     log : list (nat * call * R) }.  (* ghost: completed calls, completion order *)

  (* successor configurations of the four rules *)
  Definition do_start (cfg : config) (t : nat) (tk : task) (c : call) (p : list call) : config :=
    {| shared := shared cfg; holder := holder cfg;
       tasks := upd t {| prog := p; st := Waiting c; out := out tk |} (tasks cfg);
       log := log cfg |}.
  Definition do_acquire (cfg : config) (t : nat) (tk : task) (c : call) : config :=
    {| shared := shared cfg; holder := Some t;
       tasks := upd t {| prog := prog tk; st := Running c (l0 c) (body c); out := out tk |} (tasks cfg);
       log := log cfg |}.
  Definition do_micro (cfg : config) (t : nat) (tk : task) (c : call) (sl : S * L)
                      (rest : list (S * L -> S * L)) : config :=
    {| shared := fst sl; holder := holder cfg;
       tasks := upd t {| prog := prog tk; st := Running c (snd sl) rest; out := out tk |} (tasks cfg);
       log := log cfg |}.
  Definition do_finish (cfg : config) (t : nat) (tk : task) (c : call) (l : L) : config :=
    {| shared := shared cfg; holder := None;
       tasks := upd t {| prog := prog tk; st := Idle; out := out tk ++ [res c l] |} (tasks cfg);
       log := log cfg ++ [(t, c, res c l)] |}.

  (* The scheduler picks any task t whose next rule is enabled.  Only [step_micro]
     touches [shared].  The rules micro/finish do not even test [holder]: that the
     running task is the holder is a theorem (lock_exclusive), not a premise. *)
  Inductive step : config -> config -> Prop :=
  | step_start : forall cfg t tk c p,
      nth_error (tasks cfg) t = Some tk -> st tk = Idle -> prog tk = c :: p ->
      step cfg (do_start cfg t tk c p)
  | step_acquire : forall cfg t tk c,
      nth_error (tasks cfg) t = Some tk -> st tk = Waiting c -> holder cfg = None ->
      step cfg (do_acquire cfg t tk c)
  | step_micro : forall cfg t tk c l f rest,
      nth_error (tasks cfg) t = Some tk -> st tk = Running c l (f :: rest) ->
      step cfg (do_micro cfg t tk c (f (shared cfg, l)) rest)
  | step_finish : forall cfg t tk c l,
      nth_error (tasks cfg) t = Some tk -> st tk = Running c l [] ->
      step cfg (do_finish cfg t tk c l).

  (* reflexive transitive closure (new steps are added at the right end) *)
  Inductive steps : config -> config -> Prop :=
  | steps_refl : forall c, steps c c
  | steps_step : forall c1 c2 c3, steps c1 c2 -> step c2 c3 -> steps c1 c3.

  Lemma steps_step_l : forall a b c, step a b -> steps b c -> steps a c.
  Proof.
    intros a b c Hab Hbc; induction Hbc.
    - eapply steps_step; [apply steps_refl | exact Hab].
    - eapply steps_step; eauto.
  Qed.

  Definition init (s0 : S) (progs : list (list call)) : config :=
    {| shared := s0; holder := None;
       tasks := map (fun p => {| prog := p; st := Idle; out := [] |}) progs;
       log := [] |}.

  (* 2. The invariant                                                     *)
  Definition call_of (e : nat * call * R) : call := snd (fst e).
  Definition is_of (t : nat) (e : nat * call * R) : bool := fst (fst e) =? t.
  Definition calls (lg : list (nat * call * R)) : list call := map call_of lg.
  Definition results (lg : list (nat * call * R)) : list R := map snd lg.

  Definition running (s : tstate) : Prop :=
    match s with Running _ _ _ => True | _ => False end.
  (* the call in progress, if any *)
  Definition current (s : tstate) : list call :=
    match s with Idle => [] | Waiting c => [c] | Running c _ _ => [c] end.

  (* Serial invariant.  Lock free: the shared state and the logged results are those of
     the sequential run of the logged calls.  Lock held by t: task t is Running c l rest,
     [dn] is the already executed prefix of [body c], and the current (shared, l) is the
     fold of [dn] from the sequential state s1 reached by the logged calls. *)
  Definition serial_inv (s0 : S) (cfg : config) : Prop :=
    match holder cfg with
    | None => seq_run s0 (calls (log cfg)) = (shared cfg, results (log cfg))
    | Some t => exists tk c l dn rest s1,
        nth_error (tasks cfg) t = Some tk /\ st tk = Running c l rest /\
        body c = dn ++ rest /\
        seq_run s0 (calls (log cfg)) = (s1, results (log cfg)) /\
        run_fs dn (s1, l0 c) = (shared cfg, l)
    end.

  Record Inv (s0 : S) (progs : list (list call)) (cfg : config) : Prop := {
    inv_len  : length (tasks cfg) = length progs;
    inv_lock : forall t tk c l rest,
        nth_error (tasks cfg) t = Some tk -> st tk = Running c l rest -> holder cfg = Some t;
    inv_ser  : serial_inv s0 cfg;
    inv_out  : forall t tk, nth_error (tasks cfg) t = Some tk ->
        out tk = map snd (filter (is_of t) (log cfg));
    inv_prog : forall t tk, nth_error (tasks cfg) t = Some tk ->
        map call_of (filter (is_of t) (log cfg)) ++ current (st tk) ++ prog tk = nth t progs [];
    inv_ids  : forall e, In e (log cfg) -> fst (fst e) < length (tasks cfg) }.

  Lemma Inv_init : forall s0 progs, Inv s0 progs (init s0 progs).
  Proof.
    intros s0 progs.
    assert (G : forall t tk, nth_error (tasks (init s0 progs)) t = Some tk ->
                st tk = Idle /\ out tk = [] /\ prog tk = nth t progs []).
    { simpl; intros t tk H. rewrite nth_error_map in H.
      destruct (nth_error progs t) as [p|] eqn:E; simpl in H; inversion H; subst; simpl.
      repeat split; auto. symmetry; now apply nth_error_nth. }
    constructor; simpl.
    - apply map_length.
    - intros t tk c l rest H Hr. apply G in H as (H & _). congruence.
    - reflexivity.
    - intros t tk H. now apply G in H as (_ & H & _).
    - intros t tk H. apply G in H as (H1 & _ & H2). now rewrite H1, H2.
    - intros e [].
  Qed.

  Lemma filter_snoc_same : forall t c r lg,
    filter (is_of t) (lg ++ [(t, c, r)]) = filter (is_of t) lg ++ [(t, c, r)].
  Proof. intros. rewrite filter_app; simpl. unfold is_of at 2; simpl. now rewrite Nat.eqb_refl. Qed.

  Lemma filter_snoc_other : forall t t' c r lg, t' <> t ->
    filter (is_of t') (lg ++ [(t, c, r)]) = filter (is_of t') lg.
  Proof.
    intros. rewrite filter_app; simpl. unfold is_of at 2; simpl.
    destruct (t =? t') eqn:E; [lia | apply app_nil_r].
  Qed.

  Lemma Inv_step : forall s0 progs c c', Inv s0 progs c -> step c c' -> Inv s0 progs c'.
  Proof.
    intros s0 progs c0 c0' [Ilen Ilock Iser Iout Iprog Iids] Hs.
    destruct Hs as [cfg t tk c p Ht Hst Hp | cfg t tk c Ht Hst Hh
                   | cfg t tk c l f rest Ht Hst | cfg t tk c l Ht Hst].
    - (* start: shared, holder, log unchanged; t becomes Waiting *)
      constructor; simpl.
      + now rewrite length_upd.
      + intros t' tk' c' l' r' H' Hr.
        apply nth_error_upd_inv in H' as [[-> ->]|[Hne H']]; simpl in *; [discriminate | eauto].
      + unfold serial_inv in *; simpl. destruct (holder cfg) as [h|]; [|exact Iser].
        destruct Iser as (tk0 & c1 & l1 & dn & rs & s1 & A & B & C & D & E).
        exists tk0, c1, l1, dn, rs, s1. repeat split; auto.
        rewrite nth_error_upd_other; auto. intros ->. congruence.
      + intros t' tk' H'. apply nth_error_upd_inv in H' as [[-> ->]|[Hne H']]; simpl; auto.
      + intros t' tk' H'. apply nth_error_upd_inv in H' as [[-> ->]|[Hne H']]; simpl; auto.
        rewrite <- (Iprog _ _ Ht), Hst, Hp. reflexivity.
      + intros e He. rewrite length_upd. auto.
    - (* acquire: holder None -> Some t, nothing of the body executed yet *)
      constructor; simpl.
      + now rewrite length_upd.
      + intros t' tk' c' l' r' H' Hr.
        apply nth_error_upd_inv in H' as [[-> ->]|[Hne H']]; simpl in *; auto.
        rewrite (Ilock _ _ _ _ _ H' Hr) in Hh. discriminate.
      + unfold serial_inv in *; simpl. rewrite Hh in Iser.
        eexists _, c, (l0 c), [], (body c), (shared cfg).
        rewrite (nth_error_upd_same _ _ _ _ _ Ht). simpl. repeat split; auto.
      + intros t' tk' H'. apply nth_error_upd_inv in H' as [[-> ->]|[Hne H']]; simpl; auto.
      + intros t' tk' H'. apply nth_error_upd_inv in H' as [[-> ->]|[Hne H']]; simpl; auto.
        rewrite <- (Iprog _ _ Ht), Hst. reflexivity.
      + intros e He. rewrite length_upd. auto.
    - (* micro: the executed prefix grows by f *)
      assert (Hh := Ilock _ _ _ _ _ Ht Hst).
      constructor; simpl.
      + now rewrite length_upd.
      + intros t' tk' c' l' r' H' Hr.
        apply nth_error_upd_inv in H' as [[-> ->]|[Hne H']]; simpl in *; eauto.
      + unfold serial_inv in *; simpl. rewrite Hh in *.
        destruct Iser as (tk0 & c1 & l1 & dn & rs & s1 & A & B & C & D & E).
        rewrite Ht in A; inversion A; subst tk0. rewrite Hst in B; inversion B; subst c1 l1 rs.
        eexists _, c, _, (dn ++ [f]), rest, s1.
        rewrite (nth_error_upd_same _ _ _ _ _ Ht). simpl. repeat split; auto.
        * now rewrite <- app_assoc.
        * unfold run_fs in *. rewrite fold_left_app, E. simpl. now destruct (f (shared cfg, l)).
      + intros t' tk' H'. apply nth_error_upd_inv in H' as [[-> ->]|[Hne H']]; simpl; auto.
      + intros t' tk' H'. apply nth_error_upd_inv in H' as [[-> ->]|[Hne H']]; simpl; auto.
        rewrite <- (Iprog _ _ Ht), Hst. reflexivity.
      + intros e He. rewrite length_upd. auto.
    - (* finish: the whole body has run = the atomic meaning of c from s1 *)
      assert (Hh := Ilock _ _ _ _ _ Ht Hst).
      constructor; simpl.
      + now rewrite length_upd.
      + intros t' tk' c' l' r' H' Hr.
        apply nth_error_upd_inv in H' as [[-> ->]|[Hne H']]; simpl in *; [discriminate|].
        rewrite (Ilock _ _ _ _ _ H' Hr) in Hh. congruence.
      + unfold serial_inv in *; simpl. rewrite Hh in *.
        destruct Iser as (tk0 & c1 & l1 & dn & rs & s1 & A & B & C & D & E).
        rewrite Ht in A; inversion A; subst tk0. rewrite Hst in B; inversion B; subst c1 l1 rs.
        rewrite app_nil_r in C. unfold calls, results in *. rewrite !map_app; simpl.
        change (call_of (t, c, res c l)) with c. rewrite (seq_run_snoc _ _ c _ _ D).
        unfold atomic, call_of; simpl. unfold run_fs in E. rewrite C, E. reflexivity.
      + intros t' tk' H'. apply nth_error_upd_inv in H' as [[-> ->]|[Hne H']]; simpl.
        * rewrite filter_snoc_same, map_app, <- (Iout _ _ Ht). reflexivity.
        * rewrite filter_snoc_other by auto. auto.
      + intros t' tk' H'. apply nth_error_upd_inv in H' as [[-> ->]|[Hne H']]; simpl.
        * rewrite filter_snoc_same, map_app, <- (Iprog _ _ Ht), Hst, <- app_assoc. reflexivity.
        * rewrite filter_snoc_other by auto. auto.
      + intros e He. rewrite length_upd. apply in_app_or in He as [He|[<-|[]]]; auto.
        simpl. apply nth_error_Some. congruence.
  Qed.

  Lemma Inv_steps : forall s0 progs cfg, steps (init s0 progs) cfg -> Inv s0 progs cfg.
  Proof.
    intros s0 progs cfg H. remember (init s0 progs) as c0 eqn:E. induction H.
    - subst; apply Inv_init.
    - eapply Inv_step; eauto.
  Qed.

  (* 3. The theorems                                                      *)

  (* the stronger invariant, also valid while the lock is held *)
  Lemma inv_reachable : forall s0 progs cfg,
    steps (init s0 progs) cfg -> serial_inv s0 cfg.
  Proof. intros. eapply inv_ser, Inv_steps; eauto. Qed.

  (* Theorem 1 *)
  Theorem serializable : forall s0 progs cfg,
    steps (init s0 progs) cfg -> holder cfg = None ->
    seq_run s0 (map (fun e => snd (fst e)) (log cfg)) = (shared cfg, map snd (log cfg)).
  Proof.
    intros s0 progs cfg H Hh. apply inv_reachable in H. unfold serial_inv in H.
    rewrite Hh in H. exact H.
  Qed.

  (* also mid-call the logged results are the sequential results of the logged calls *)
  Theorem log_serial : forall s0 progs cfg,
    steps (init s0 progs) cfg ->
    exists s1, seq_run s0 (map (fun e => snd (fst e)) (log cfg)) = (s1, map snd (log cfg)).
  Proof.
    intros s0 progs cfg H. apply inv_reachable in H. unfold serial_inv in H.
    destruct (holder cfg).
    - destruct H as (? & ? & ? & ? & ? & s1 & _ & _ & _ & D & _). now exists s1.
    - now exists (shared cfg).
  Qed.

  (* Theorem 2 *)
  Theorem results_match_log : forall s0 progs cfg,
    steps (init s0 progs) cfg ->
    forall t tk, nth_error (tasks cfg) t = Some tk ->
    out tk = map snd (filter (fun e => fst (fst e) =? t) (log cfg)).
  Proof. intros s0 progs cfg H. exact (inv_out _ _ _ (Inv_steps _ _ _ H)). Qed.

  (* there is exactly one task per program ... *)
  Theorem tasks_length : forall s0 progs cfg,
    steps (init s0 progs) cfg -> length (tasks cfg) = length progs.
  Proof. intros s0 progs cfg H. exact (inv_len _ _ _ (Inv_steps _ _ _ H)). Qed.

  (* Theorem 3: ... and it issues the calls of its program, in program order *)
  Theorem program_order : forall s0 progs cfg,
    steps (init s0 progs) cfg ->
    forall t tk, nth_error (tasks cfg) t = Some tk ->
    map (fun e => snd (fst e)) (filter (fun e => fst (fst e) =? t) (log cfg))
      ++ current (st tk) ++ prog tk = nth t progs [].
  Proof. intros s0 progs cfg H. exact (inv_prog _ _ _ (Inv_steps _ _ _ H)). Qed.

  (* Theorem 4 *)
  Theorem lock_exclusive : forall s0 progs cfg,
    steps (init s0 progs) cfg ->
    (forall t tk, nth_error (tasks cfg) t = Some tk -> (running (st tk) <-> holder cfg = Some t)) /\
    (forall t, holder cfg = Some t -> exists tk, nth_error (tasks cfg) t = Some tk) /\
    (forall t1 t2 tk1 tk2, nth_error (tasks cfg) t1 = Some tk1 -> nth_error (tasks cfg) t2 = Some tk2 ->
       running (st tk1) -> running (st tk2) -> t1 = t2).
  Proof.
    intros s0 progs cfg H. apply Inv_steps in H. destruct H as [_ Ilock Iser _ _ _].
    assert (A : forall t tk, nth_error (tasks cfg) t = Some tk -> running (st tk) -> holder cfg = Some t).
    { intros t tk Ht Hr. destruct (st tk) eqn:E; simpl in Hr; try tauto. eauto. }
    assert (B : forall t, holder cfg = Some t ->
                exists tk, nth_error (tasks cfg) t = Some tk /\ running (st tk)).
    { intros t Hh. unfold serial_inv in Iser. rewrite Hh in Iser.
      destruct Iser as (tk & c & l & dn & rs & s1 & X & Y & _). exists tk. rewrite Y. simpl; auto. }
    split; [|split].
    - intros t tk Ht; split; [eauto|]. intros Hh. destruct (B _ Hh) as (tk' & X & Y). congruence.
    - intros t Hh. destruct (B _ Hh) as (tk & X & _). eauto.
    - intros t1 t2 tk1 tk2 H1 H2 R1 R2.
      pose proof (A _ _ H1 R1). pose proof (A _ _ H2 R2). congruence.
  Qed.

  (* Theorem 5: once every task is done, every call of every program has been logged
     exactly once, and the whole run equals the sequential run of the log. *)
  Theorem finished_all_serial : forall s0 progs cfg,
    steps (init s0 progs) cfg ->
    (forall tk, In tk (tasks cfg) -> st tk = Idle /\ prog tk = []) ->
    length (log cfg) = list_sum (map (@length call) progs) /\
    (forall t, map (fun e => snd (fst e)) (filter (fun e => fst (fst e) =? t) (log cfg)) = nth t progs []) /\
    holder cfg = None /\
    seq_run s0 (map (fun e => snd (fst e)) (log cfg)) = (shared cfg, map snd (log cfg)).
  Proof.
    intros s0 progs cfg H Hdone.
    pose proof (Inv_steps _ _ _ H) as [Ilen Ilock Iser _ Iprog Iids].
    assert (P : forall t, map call_of (filter (is_of t) (log cfg)) = nth t progs []).
    { intros t. destruct (nth_error (tasks cfg) t) as [tk|] eqn:E.
      - pose proof (Iprog _ _ E) as X. destruct (Hdone tk (nth_error_In _ _ E)) as [Y Z].
        rewrite Y, Z in X. simpl in X. now rewrite app_nil_r in X.
      - apply nth_error_None in E. rewrite nth_overflow by lia.
        destruct (filter (is_of t) (log cfg)) as [|e f] eqn:F; auto.
        assert (X : In e (filter (is_of t) (log cfg))) by (rewrite F; now left).
        apply filter_In in X as [X Y]. apply Iids in X. unfold is_of in Y. lia. }
    assert (Hh : holder cfg = None).
    { destruct (holder cfg) as [h|] eqn:E; auto. unfold serial_inv in Iser. rewrite E in Iser.
      destruct Iser as (tk & c & l & dn & rs & s1 & X & Y & _).
      destruct (Hdone tk (nth_error_In _ _ X)) as [Z _]. congruence. }
    repeat split; auto.
    - rewrite (length_by_key _ (fun e => fst (fst e)) (length (tasks cfg)) (log cfg) Iids).
      rewrite Ilen.
      transitivity (list_sum (map (@length call) (map (fun t => nth t progs []) (seq 0 (length progs)))));
        [|now rewrite map_nth_seq0].
      rewrite map_map.
      apply f_equal, map_ext. intros t. rewrite <- P. now rewrite map_length.
    - now apply (serializable s0 progs).
  Qed.

  (* 4. Real-time order: a ghost clock refining [step]                    *)
  (* [now] ticks at every step; [started t] is the time of the last start step of task t;
     [tlog] is the log decorated with (start time, finish time) of every completed call. *)
  Record clock := { now : nat; started : nat -> nat;
                    tlog : list ((nat * call * R) * (nat * nat)) }.
  Definition sta (e : (nat * call * R) * (nat * nat)) : nat := fst (snd e).
  Definition fin (e : (nat * call * R) * (nat * nat)) : nat := snd (snd e).
  Definition tick (k : clock) : clock :=
    {| now := now k + 1; started := started k; tlog := tlog k |}.

  Inductive stepT : config * clock -> config * clock -> Prop :=
  | stepT_start : forall cfg k t tk c p,
      nth_error (tasks cfg) t = Some tk -> st tk = Idle -> prog tk = c :: p ->
      stepT (cfg, k) (do_start cfg t tk c p,
                      {| now := now k + 1; tlog := tlog k;
                         started := fun t' => if t' =? t then now k else started k t' |})
  | stepT_acquire : forall cfg k t tk c,
      nth_error (tasks cfg) t = Some tk -> st tk = Waiting c -> holder cfg = None ->
      stepT (cfg, k) (do_acquire cfg t tk c, tick k)
  | stepT_micro : forall cfg k t tk c l f rest,
      nth_error (tasks cfg) t = Some tk -> st tk = Running c l (f :: rest) ->
      stepT (cfg, k) (do_micro cfg t tk c (f (shared cfg, l)) rest, tick k)
  | stepT_finish : forall cfg k t tk c l,
      nth_error (tasks cfg) t = Some tk -> st tk = Running c l [] ->
      stepT (cfg, k) (do_finish cfg t tk c l,
                      {| now := now k + 1; started := started k;
                         tlog := tlog k ++ [((t, c, res c l), (started k t, now k))] |}).

  Inductive stepsT : config * clock -> config * clock -> Prop :=
  | stepsT_refl : forall x, stepsT x x
  | stepsT_step : forall x y z, stepsT x y -> stepT y z -> stepsT x z.

  Definition initT (s0 : S) (progs : list (list call)) : config * clock :=
    (init s0 progs, {| now := 0; started := fun _ => 0; tlog := [] |}).

  (* erasing the clock gives [step]; every [step] can be clocked: theorems 1-5 transfer *)
  Lemma stepT_erase : forall x y, stepT x y -> step (fst x) (fst y).
  Proof. intros x y H; destruct H; simpl; econstructor; eauto. Qed.

  Lemma stepsT_erase : forall x y, stepsT x y -> steps (fst x) (fst y).
  Proof.
    intros x y H; induction H; [apply steps_refl|].
    eapply steps_step; eauto using stepT_erase.
  Qed.

  Lemma step_lift : forall c c' k, step c c' -> exists k', stepT (c, k) (c', k').
  Proof. intros c c' k H; destruct H; eexists; econstructor; eauto. Qed.

  Lemma steps_lift : forall c c' k, steps c c' -> exists k', stepsT (c, k) (c', k').
  Proof.
    intros c c' k H; induction H as [c|c1 c2 c3 _ [k2 IH] H23].
    - exists k; apply stepsT_refl.
    - destruct (step_lift _ _ k2 H23) as [k3 H3]. exists k3. eapply stepsT_step; eauto.
  Qed.

  Theorem reachable_has_clock : forall s0 progs cfg,
    steps (init s0 progs) cfg -> exists k, stepsT (initT s0 progs) (cfg, k).
  Proof. intros; now apply steps_lift. Qed.

  Theorem timed_reachable_erase : forall s0 progs cfg k,
    stepsT (initT s0 progs) (cfg, k) -> steps (init s0 progs) cfg.
  Proof. intros s0 progs cfg k H. exact (stepsT_erase _ _ H). Qed.

  Record TInv (x : config * clock) : Prop := {
    ti_log  : map fst (tlog (snd x)) = log (fst x);
    ti_run  : forall t tk, nth_error (tasks (fst x)) t = Some tk -> st tk <> Idle ->
                started (snd x) t < now (snd x);
    ti_past : forall e, In e (tlog (snd x)) -> sta e < fin e /\ fin e < now (snd x);
    ti_rt   : forall i j a b, nth_error (tlog (snd x)) i = Some a ->
                nth_error (tlog (snd x)) j = Some b -> fin a < sta b -> i < j }.

  Lemma TInv_step : forall x y, TInv x -> stepT x y -> TInv y.
  Proof.
    intros x y [Ilog Irun Ipast Irt] H; simpl in *.
    destruct H as [cfg k t tk c p Ht Hst Hp | cfg k t tk c Ht Hst Hh
                  | cfg k t tk c l f rest Ht Hst | cfg k t tk c l Ht Hst]; simpl in *.
    2,3: (constructor; simpl; auto;   (* acquire, micro: only the clock ticks *)
      [ intros t' tk' H' Hn; apply nth_error_upd_inv in H' as [[-> ->]|[Hne H']];
        [ assert (started k t < now k) by (apply (Irun _ _ Ht); congruence); lia
        | specialize (Irun _ _ H' Hn); lia ]
      | intros e He; specialize (Ipast e He); lia ]).
    - constructor; simpl; auto.
      + intros t' tk' H' Hn. apply nth_error_upd_inv in H' as [[-> ->]|[Hne H']].
        * rewrite Nat.eqb_refl. lia.
        * destruct (t' =? t) eqn:E; [lia|]. specialize (Irun _ _ H' Hn). lia.
      + intros e He. specialize (Ipast e He). lia.
    - assert (Hs : started k t < now k) by (apply (Irun _ _ Ht); congruence).
      constructor; simpl.
      + rewrite map_app, Ilog. reflexivity.
      + intros t' tk' H' Hn. apply nth_error_upd_inv in H' as [[-> ->]|[Hne H']].
        * simpl in Hn. congruence.
        * specialize (Irun _ _ H' Hn). lia.
      + intros e He. apply in_app_or in He as [He|[<-|[]]].
        * specialize (Ipast e He). lia.
        * unfold sta, fin; simpl. lia.
      + intros i j a b Ha Hb Hab.
        apply nth_error_snoc_inv in Ha as [[Hi Ha]|[-> ->]];
        apply nth_error_snoc_inv in Hb as [[Hj Hb]|[-> ->]].
        * eauto.
        * lia.
        * apply nth_error_In in Hb. specialize (Ipast _ Hb). unfold fin at 1 in Hab; simpl in Hab. lia.
        * unfold sta, fin in Hab; simpl in Hab. lia.
  Qed.

  Lemma TInv_steps : forall s0 progs y, stepsT (initT s0 progs) y -> TInv y.
  Proof.
    intros s0 progs y H. remember (initT s0 progs) as x eqn:E. induction H.
    - subst. constructor; simpl.
      + reflexivity.
      + intros t tk H Hn. rewrite nth_error_map in H.
        destruct (nth_error progs t); simpl in H; inversion H; subst. simpl in Hn. congruence.
      + intros e [].
      + intros [|i] j a b Ha; discriminate.
    - eapply TInv_step; eauto.
  Qed.

  (* Theorem 6: if a finished before b started then a precedes b in the log *)
  Theorem realtime_respected : forall s0 progs cfg k,
    stepsT (initT s0 progs) (cfg, k) ->
    map fst (tlog k) = log cfg /\
    forall i j a b, nth_error (tlog k) i = Some a -> nth_error (tlog k) j = Some b ->
      fin a < sta b -> i < j.
  Proof.
    intros s0 progs cfg k H. apply TInv_steps in H. destruct H as [A _ _ B]. split; assumption.
  Qed.

  (* 5. An executable scheduler (to build concrete runs by computation)   *)
  (* [fire t cfg]: let task t make its next move, if it is enabled *)
  Definition fire (t : nat) (cfg : config) : option config :=
    match nth_error (tasks cfg) t with
    | None => None
    | Some tk =>
      match st tk with
      | Idle => match prog tk with c :: p => Some (do_start cfg t tk c p) | [] => None end
      | Waiting c => match holder cfg with
                     | None => Some (do_acquire cfg t tk c) | Some _ => None end
      | Running c l (f :: rest) => Some (do_micro cfg t tk c (f (shared cfg, l)) rest)
      | Running c l [] => Some (do_finish cfg t tk c l)
      end
    end.

  Fixpoint run_sched (ts : list nat) (cfg : config) : option config :=
    match ts with
    | [] => Some cfg
    | t :: ts' => match fire t cfg with Some c' => run_sched ts' c' | None => None end
    end.

  Lemma fire_sound : forall t cfg cfg', fire t cfg = Some cfg' -> step cfg cfg'.
  Proof.
    unfold fire; intros t cfg cfg' H.
    destruct (nth_error (tasks cfg) t) as [tk|] eqn:Ht; [|discriminate].
    destruct (st tk) as [|c|c l [|f rest]] eqn:Hst.
    - destruct (prog tk) as [|c p] eqn:Hp; inversion H; subst. eapply step_start; eauto.
    - destruct (holder cfg) eqn:Hh; inversion H; subst. eapply step_acquire; eauto.
    - inversion H; subst. eapply step_finish; eauto.
    - inversion H; subst. eapply step_micro; eauto.
  Qed.

  Lemma run_sched_sound : forall ts cfg cfg', run_sched ts cfg = Some cfg' -> steps cfg cfg'.
  Proof.
    induction ts as [|t ts IH]; simpl; intros cfg cfg' H.
    - inversion H; apply steps_refl.
    - destruct (fire t cfg) as [c1|] eqn:F; [|discriminate].
      eapply steps_step_l; eauto using fire_sound.
  Qed.
End Mutex.

Arguments Idle {S L call}.
Arguments Waiting {S L call} c.
Arguments Running {S L call} c l rest.
Arguments prog {S L R call} t.
Arguments st {S L R call} t.
Arguments out {S L R call} t.
Arguments shared {S L R call} c.
Arguments holder {S L R call} c.
Arguments tasks {S L R call} c.
Arguments log {S L R call} c.
Arguments init {S L R call} s0 progs.
Arguments step {S L R call} l0 body res _ _.
Arguments steps {S L R call} l0 body res _ _.
Arguments atomic {S L R call} l0 body res c s.
Arguments seq_run {S L R call} l0 body res s cs.
Arguments fire {S L R call} l0 body res t cfg.
Arguments run_sched {S L R call} l0 body res ts cfg.
Arguments running {S L call} s.
Arguments current {S L call} s.
Arguments now {R call} c.
Arguments started {R call} c.
Arguments tlog {R call} c.
Arguments sta {R call} e.
Arguments fin {R call} e.
Arguments stepT {S L R call} l0 body res _ _.
Arguments stepsT {S L R call} l0 body res _ _.
Arguments initT {S L R call} s0 progs.
Arguments serial_inv {S L R call} l0 body res s0 cfg.
Arguments run_fs {S L} fs x.
Arguments calls {R call} lg.
Arguments results {R call} lg.

(* 6. A concrete instance: an append-only log (non-vacuity check)         *)
Inductive acall := Append (x : nat) | Len.
Definition aL : Type := (nat * nat)%type.           (* scratch cell, result cell *)
Definition a_l0 (c : acall) : aL := (0, 0).
Definition a_body (c : acall) : list (list nat * aL -> list nat * aL) :=
  match c with
  | Append x =>                                     (* two micro-steps *)
      [ fun '(s, (_, r)) => (s, (x, r));            (* 1: stage x in the scratch cell *)
        fun '(s, (a, _)) => (s ++ [a], (a, length (s ++ [a]))) ]   (* 2: append, read new length *)
  | Len => [ fun '(s, (a, _)) => (s, (a, length s)) ]
  end.
Definition a_res (c : acall) (l : aL) : nat := snd l.

Definition demo_progs : list (list acall) := [[Append 7; Len]; [Append 9]].
Definition demo_init : config (list nat) aL nat acall := init [5] demo_progs.
(* task 1 starts and takes the lock; task 0 starts and has to wait while task 1 runs its two
   micro-steps and finishes; then task 0 runs Append 7 and, afterwards, Len. *)
Definition demo_sched : list nat := [1; 1; 0; 1; 1; 1; 0; 0; 0; 0; 0; 0; 0; 0].
Definition demo_final := run_sched a_l0 a_body a_res demo_sched demo_init.

Example demo_run : exists cfg,
  demo_final = Some cfg /\ steps a_l0 a_body a_res demo_init cfg /\
  holder cfg = None /\ shared cfg = [5; 9; 7] /\
  log cfg = [(1, Append 9, 2); (0, Append 7, 3); (0, Len, 3)] /\
  seq_run a_l0 a_body a_res [5] (map (fun e => snd (fst e)) (log cfg)) = (shared cfg, map snd (log cfg)).
Proof.
  eexists. split; [vm_compute; reflexivity|].
  split; [apply (run_sched_sound _ _ _ _ a_l0 a_body a_res demo_sched); vm_compute; reflexivity|].
  vm_compute. repeat split.
Qed.

(* the lock really blocks: while task 1 holds it (after 3 moves) task 0 cannot acquire *)
Example demo_blocked :
  match run_sched a_l0 a_body a_res [1; 1; 0] demo_init with
  | Some cfg => holder cfg = Some 1 /\ fire a_l0 a_body a_res 0 cfg = None
  | None => False
  end.
Proof. vm_compute. split; reflexivity. Qed.

Lemma a_atomic_append : forall x s, atomic a_l0 a_body a_res (Append x) s = (s ++ [x], length s + 1).
Proof. intros. unfold atomic; simpl. unfold a_res; simpl. now rewrite app_length. Qed.

Lemma a_atomic_len : forall s, atomic a_l0 a_body a_res Len s = (s, length s).
Proof. reflexivity. Qed.

(* number of Append calls in a list of calls *)
Fixpoint appends (cs : list acall) : nat :=
  match cs with [] => 0 | Append _ :: r => 1 + appends r | Len :: r => appends r end.

Lemma a_seq_run_results : forall cs s0 s rs,
  seq_run a_l0 a_body a_res s0 cs = (s, rs) ->
  forall i x, nth_error cs i = Some (Append x) ->
  nth_error rs i = Some (1 + appends (firstn i cs) + length s0).
Proof.
  induction cs as [|c cs IH]; intros s0 s rs H i x Hi; [destruct i; discriminate|].
  cbn [seq_run] in H.
  destruct (atomic a_l0 a_body a_res c s0) as [s1 r] eqn:A.
  destruct (seq_run a_l0 a_body a_res s1 cs) as [s2 rs'] eqn:E. inversion H; subst s rs.
  destruct i as [|i]; simpl in Hi.
  - inversion Hi; subst c. rewrite a_atomic_append in A. inversion A; subst. simpl. f_equal. lia.
  - cbn [nth_error firstn]. rewrite (IH _ _ _ E _ _ Hi).
    destruct c as [y|]; [rewrite a_atomic_append in A | rewrite a_atomic_len in A];
      inversion A; subst; simpl; rewrite ?app_length; simpl; f_equal; lia.
Qed.

(* The lengths returned by the Append calls are gap-free and increasing: the i-th log entry,
   if it is an Append, returned 1 + (number of earlier Appends) + (initial length). *)
Theorem append_lengths_gap_free : forall s0 progs cfg,
  steps a_l0 a_body a_res (init s0 progs) cfg -> holder cfg = None ->
  forall i t x r, nth_error (log cfg) i = Some (t, Append x, r) ->
  r = 1 + appends (firstn i (map (fun e => snd (fst e)) (log cfg))) + length s0.
Proof.
  intros s0 progs cfg H Hh i t x r Hi.
  pose proof (serializable _ _ _ _ _ _ _ _ _ _ H Hh) as Hser.
  pose proof (map_nth_error (fun e => snd (fst e)) _ _ Hi) as Hc.
  pose proof (map_nth_error snd _ _ Hi) as Hr. simpl in Hc, Hr.
  rewrite (a_seq_run_results _ _ _ _ Hser _ _ Hc) in Hr. congruence.
Qed.

Print Assumptions inv_reachable.
Print Assumptions serializable.
Print Assumptions log_serial.
Print Assumptions results_match_log.
Print Assumptions tasks_length.
Print Assumptions program_order.
Print Assumptions lock_exclusive.
Print Assumptions finished_all_serial.
Print Assumptions stepsT_erase.
Print Assumptions reachable_has_clock.
Print Assumptions timed_reachable_erase.
Print Assumptions realtime_respected.
Print Assumptions run_sched_sound.
Print Assumptions demo_run.
Print Assumptions demo_blocked.
Print Assumptions append_lengths_gap_free.

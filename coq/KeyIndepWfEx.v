(* KeyIndepWfEx.v -- non-vacuity of KeyIndepWf.other_files_independent_of_secret_wf: a toy crypto record that
   satisfies all six hypotheses and whose signatures depend on the key; two different key pairs; a well-formed
   history with appends, clears, flushes, TWO reopens (one with pending entries, one right after a flush),
   make_read_only, a third reopen (read-only), a clear on the read-only core and a final refused append. *)
From HC Require Import Base NMap Codec CodecFacts Crypto FlatTree Storage StorageFacts Bitfield Oplog Merkle Core.
From HC Require Import OplogFacts KeyIndep KeyIndepHist KeyIndepWf.
From Coq Require Import ZifyN ZifyNat ZifyBool Lia.
Ltac Zify.zify_post_hook ::= Z.div_mod_to_equations.

Definition kw_cr : crypto :=
  mkCrypto (fun _ => repeat 7 32%nat) (fun _ => 0) (fun sk _ => repeat (hd 0 sk mod 256) 64%nat) (fun _ _ _ => true).

Lemma kw_crc : crc_ok kw_cr.
Proof. intros b. cbn [cr_crc kw_cr]. lia. Qed.
Lemma kw_hash32 : forall x, length (cr_hash kw_cr x) = 32%nat.
Proof. reflexivity. Qed.
Lemma kw_nonblank : forall x, all_zero (cr_hash kw_cr x) = false.
Proof. reflexivity. Qed.
Lemma kw_hashbytes : forall x, bytes_ok (cr_hash kw_cr x) = true.
Proof. reflexivity. Qed.
Lemma kw_sig64 : forall sk m, length (cr_sign kw_cr sk m) = 64%nat.
Proof. intros. cbn [cr_sign kw_cr]. apply repeat_length. Qed.
Lemma kw_sigbytes : forall sk m, bytes_ok (cr_sign kw_cr sk m) = true.
Proof.
  intros sk m. cbn [cr_sign kw_cr]. unfold bytes_ok. apply forallb_forall. intros y Hy.
  apply repeat_spec in Hy. subst y. unfold byte_ok. lia.
Qed.

Definition kwA : keypair := mkKeypair (repeat 1 32%nat) (Some (repeat 2 32%nat)).
Definition kwB : keypair := mkKeypair (repeat 3 32%nat) (Some (repeat 4 32%nat)).

Example kw_signatures_differ : cr_sign kw_cr (repeat 2 32%nat) [] <> cr_sign kw_cr (repeat 4 32%nat) [].
Proof. vm_compute. discriminate. Qed.

Definition kw_hist : list hop :=
  [HAppend (Some false) [[1; 2; 3]; []; [4]]; HGet 1; HClear (Some false) 1 2; HAppend (Some true) [[5; 6]];
   HInfo; HAppend (Some false) [[8]]; HClear None 0 1; HReopen; HAppend None [[7]; [9; 9]]; HHas 1; HHas 4;
   HGet 5; HClear (Some true) 3 9; HReopen; HGet 3; HInfo; HAppend None [[10]]; HGet 7;
   HReadOnly; HReopen; HGet 3; HInfo; HClear None 4 5; HGet 0; HAppend None [[11]]].

Lemma kw_wf : wf_h kw_hist 0.
Proof. cbn [wf_h kw_hist length]. repeat split; try (right; split; vm_compute; congruence). Qed.

Lemma kw_fit : sumN (map len (happended kw_hist)) <= u64_max.
Proof. apply N.leb_le. vm_compute. reflexivity. Qed.

Lemma kw_idx : NODE_SIZE * (2 * N.of_nat (length (happended kw_hist))) <= u64_max.
Proof. apply N.leb_le. vm_compute. reflexivity. Qed.

(* the main theorem instantiated: all its hypotheses hold *)
Example kw_main :
  exists c1 w1 c2 w2,
    start kw_cr kwA = Some (c1, w1) /\ start kw_cr kwB = Some (c2, w2) /\
    let r1 := hrun kw_cr kw_hist c1 w1 in
    let r2 := hrun kw_cr kw_hist c2 w2 in
    d_tree (w_disk (snd r1)) = d_tree (w_disk (snd r2)) /\
    d_bitfield (w_disk (snd r1)) = d_bitfield (w_disk (snd r2)) /\
    d_data (w_disk (snd r1)) = d_data (w_disk (snd r2)) /\
    fst (fst r1) = fst (fst r2).
Proof.
  destruct (other_files_independent_of_secret_wf kw_cr kw_crc kw_hash32 kw_nonblank kw_hashbytes kw_sig64 kw_sigbytes
              kw_hist kwA kwB (repeat 2 32%nat) (repeat 4 32%nat) eq_refl eq_refl eq_refl eq_refl kw_wf kw_fit kw_idx)
    as (c1 & w1 & c2 & w2 & S1 & S2 & A & B & C & _ & E & _).
  exists c1, w1, c2, w2. cbv zeta in *. split; [exact S1|]. split; [exact S2|].
  split; [exact A|]. split; [exact B|]. split; [exact C|exact E].
Qed.

(* and the run is not trivial: every operation returns a value, the three stores are non-empty, the oplog files differ *)
Definition kw_check : bool :=
  match start kw_cr kwA, start kw_cr kwB with
  | Some (c1, w1), Some (c2, w2) =>
      let r1 := hrun kw_cr kw_hist c1 w1 in
      let r2 := hrun kw_cr kw_hist c2 w2 in
      Nat.eqb (length (fst (fst r1))) (length kw_hist) &&
      bytes_eqb (f_content (d_tree (w_disk (snd r1)))) (f_content (d_tree (w_disk (snd r2)))) &&
      bytes_eqb (f_content (d_bitfield (w_disk (snd r1)))) (f_content (d_bitfield (w_disk (snd r2)))) &&
      bytes_eqb (f_content (d_data (w_disk (snd r1)))) (f_content (d_data (w_disk (snd r2)))) &&
      negb (bytes_eqb (f_content (d_oplog (w_disk (snd r1)))) (f_content (d_oplog (w_disk (snd r2))))) &&
      (0 <? f_len (d_tree (w_disk (snd r1)))) && (0 <? f_len (d_bitfield (w_disk (snd r1)))) &&
      (0 <? f_len (d_data (w_disk (snd r1))))
  | _, _ => false
  end.

Example kw_run_nontrivial : kw_check = true.
Proof. vm_compute. reflexivity. Qed.

Print Assumptions kw_main.

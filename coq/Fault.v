(* Fault.v — a storage operation that fails (C10).
   Storage::flush_infos applies its operations in order and returns at the first failure (`?`). emit_fail
   is that behaviour with an I/O error injected at operation number k: nothing of operation k and
   nothing after it reaches the disk. The lemmas say that the disk a fault leaves is exactly the cut of
   the fault-free journal at k — so every fault state is one of the crash states of C02. *)
From HC Require Import Base NMap Codec Crypto FlatTree Storage Bitfield Oplog Merkle Core CoreFacts.

Fixpoint emit_fail (k : nat) (ops : list sop) : M unit :=
  match ops with
  | [] => ret tt
  | o :: r =>
      match k with
      | O => lift (Err IOErr)
      | S k' =>
          fun c w =>
            match apply_sop (w_disk w) o with
            | Some d' => emit_fail k' r c (mkWorld d' (o :: w_journal w) (w_events w))
            | None => (c, w, Err InvalidOperation)
            end
      end
  end.

Lemma apply_sops_app d l1 l2 :
  apply_sops d (l1 ++ l2) = match apply_sops d l1 with Some d1 => apply_sops d1 l2 | None => None end.
Proof.
  revert d; induction l1 as [|o l1 IH]; intros d; cbn [app apply_sops]; [reflexivity|].
  destruct (apply_sop d o); [apply IH | reflexivity].
Qed.

(* every prefix of a journal that applies is itself applicable, and the rest applies from there *)
Lemma apply_sops_prefix d l d' k :
  apply_sops d l = Some d' ->
  exists dk, apply_sops d (firstn k l) = Some dk /\ apply_sops dk (skipn k l) = Some d'.
Proof.
  intros H. rewrite <- (firstn_skipn k l) in H. rewrite apply_sops_app in H.
  destruct (apply_sops d (firstn k l)) as [dk|]; [eauto | discriminate].
Qed.

(* a flush that fails at operation k leaves exactly the first k operations on the disk and in the journal,
   reports the I/O error, and touches neither the core nor the events *)
Lemma emit_fail_is_cut : forall ops k c w c1 w1,
  (k < length ops)%nat ->
  emit ops c w = (c1, w1, Ok tt) ->
  exists wk,
    emit_fail k ops c w = (c, wk, Err IOErr) /\
    w_journal wk = rev (firstn k ops) ++ w_journal w /\
    apply_sops (w_disk w) (firstn k ops) = Some (w_disk wk) /\
    apply_sops (w_disk wk) (skipn k ops) = Some (w_disk w1) /\
    w_events wk = w_events w.
Proof.
  induction ops as [|o ops IH]; intros k c w c1 w1 Hk H; [cbn in Hk; lia|].
  cbn [emit] in H. destruct (apply_sop (w_disk w) o) as [d'|] eqn:E; [|discriminate].
  destruct k as [|k].
  - exists w. cbn [emit_fail firstn skipn rev app apply_sops]. unfold lift. rewrite E.
    apply emit_inv in H. destruct H as (_ & _ & done & _ & Hd & Hr). subst done.
    cbn [w_disk] in Hd. repeat split; assumption.
  - cbn [emit_fail]. rewrite E. cbn [length] in Hk.
    destruct (IH k c (mkWorld d' (o :: w_journal w) (w_events w)) c1 w1 ltac:(lia) H)
      as (wk & H1 & H2 & H3 & H4 & H5).
    exists wk. cbn [w_disk w_journal w_events] in *. split; [exact H1|].
    cbn [firstn skipn rev apply_sops]. rewrite E, <- app_assoc. cbn [app]. repeat split; assumption.
Qed.

(* for every operation of the core: whatever it wrote, each prefix of what it wrote is a well-defined disk;
   the k-th of these disks is the one a fault at its storage operation k leaves behind *)
Definition fault_states_are_cuts {A} (m : M A) : Prop :=
  forall c w c' w' r, m c w = (c', w', r) ->
  exists J, w_journal w' = rev J ++ w_journal w /\
            apply_sops (w_disk w) J = Some (w_disk w') /\
            forall k, exists dk, apply_sops (w_disk w) (firstn k J) = Some dk /\
                                 apply_sops dk (skipn k J) = Some (w_disk w').

Lemma journaled_fault_states {A} (m : M A) : journaled m -> fault_states_are_cuts m.
Proof.
  intros Hj c w c' w' r H. destruct (Hj _ _ _ _ _ H) as (ops & H1 & H2).
  exists (rev ops). rewrite rev_involutive. split; [exact H1|]. split; [exact H2|].
  intros k. now apply apply_sops_prefix.
Qed.

Theorem operations_fault_states cr :
  (forall f batch, fault_states_are_cuts (core_append cr f batch)) /\
  (forall f s e, fault_states_are_cuts (core_clear cr f s e)) /\
  (forall f pf, fault_states_are_cuts (core_apply_proof cr f pf)) /\
  fault_states_are_cuts (core_make_read_only cr) /\
  (forall i, fault_states_are_cuts (core_get i)).
Proof.
  destruct (operations_journaled cr) as (H1 & H2 & H3 & H4 & H5 & H6).
  repeat split; intros; apply journaled_fault_states; auto.
Qed.

Print Assumptions emit_fail_is_cut.
Print Assumptions operations_fault_states.

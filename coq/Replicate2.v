(* Replicate2.v -- C03, more classes of honest proofs are accepted.
   Part 1: the top-down enumeration of full roots, the iterator on it, the merge loop with its
           final iterator.
   Part 2: the nodes of an upgrade from length r to length u as a list of (depth, offset) pairs;
           the prover emits them, the verifier consumes them. *)
From HC Require Import Base NMap Codec CodecFacts Crypto FlatTree Storage Oplog Merkle Core.
From HC Require Import FlatTreeFacts Sound NoPanic TreeRef OffsetFacts CoreFacts Refine Replicate.
From Coq Require Import FMapPositive ZifyN ZifyNat ZifyBool.
Ltac Zify.zify_post_hook ::= Z.div_mod_to_equations.
Arguments N.add : simpl never.
Arguments N.sub : simpl never.
Arguments N.mul : simpl never.
Arguments N.div : simpl never.
Arguments N.modulo : simpl never.
Arguments N.pow : simpl never.
Arguments N.eqb : simpl never.
Arguments N.ltb : simpl never.
Arguments N.leb : simpl never.
Arguments N.of_nat : simpl never.
Arguments N.to_nat : simpl never.
Arguments N.log2 : simpl never.

(* ====================================================================================== *)
(* 1. powers of two, the decomposition rrl                                                 *)
(* ====================================================================================== *)

Lemma p2_add a b : p2 (a + b) = p2 a * p2 b.
Proof. unfold p2. rewrite Nat2N.inj_add. apply N.pow_add_r. Qed.

Lemma p2_lt_mono a b : p2 a < p2 b -> (a < b)%nat.
Proof.
  unfold p2. intros H. apply N.pow_lt_mono_r_iff in H; lia.
Qed.

Lemma p2_le_mono a b : (a <= b)%nat -> p2 a <= p2 b.
Proof. intros H. unfold p2. apply N.pow_le_mono_r; lia. Qed.

Definition log2n (y : N) : nat := N.to_nat (N.log2 y).

Lemma log2n_spec y : 0 < y -> p2 (log2n y) <= y < p2 (S (log2n y)).
Proof.
  intros H. unfold log2n, p2. rewrite Nat2N.inj_succ, N2Nat.id. apply N.log2_spec, H.
Qed.

Lemma log2n_unique y k : p2 k <= y < p2 (S k) -> log2n y = k.
Proof.
  intros H. unfold log2n. unfold p2 in H. rewrite Nat2N.inj_succ in H.
  rewrite (N.log2_unique y (N.of_nat k)); lia.
Qed.

Lemma rrl_shift j : forall d m, rrl d (m * p2 j) = rrl (d + j) m.
Proof.
  induction j as [|j IH]; intros d m.
  - rewrite p2_0, N.mul_1_r, Nat.add_0_r. reflexivity.
  - rewrite p2_S. replace (m * (2 * p2 j)) with (2 * (m * p2 j)) by lia.
    rewrite rrl_even, IH. f_equal. lia.
Qed.

Lemma rrl_bound m : forall d x, In x (rrl d m) -> (snd x + 1) * p2 (fst x) <= m * p2 d.
Proof.
  induction m as [|n IH|n IH] using N_bin_ind; intros d x Hx.
  - destruct Hx.
  - rewrite rrl_even in Hx. apply IH in Hx. rewrite p2_S in Hx. lia.
  - rewrite rrl_odd in Hx. destruct Hx as [<-|Hx].
    + cbn [fst snd]. lia.
    + apply IH in Hx. rewrite p2_S in Hx. pose proof (p2_pos d). lia.
Qed.

(* appending a smaller tree to a forest whose last bit is higher *)
Lemma rrl_push k m : rrl 0 (m * p2 (S k) + p2 k) = (k, 2 * m) :: rrl 0 (m * p2 (S k)).
Proof.
  rewrite p2_S. replace (m * (2 * p2 k) + p2 k) with ((2 * m + 1) * p2 k) by lia.
  rewrite rrl_shift, rrl_odd. cbn [Nat.add]. f_equal.
  rewrite <- p2_S, rrl_shift. reflexivity.
Qed.

Lemma idx_lt (x : nat * N) (L : N) : (snd x + 1) * p2 (fst x) <= L -> idx x < 2 * L.
Proof.
  intros H. unfold idx. pose proof (ft_index_succ (N.of_nat (fst x)) (snd x)) as Hix.
  fold (p2 (fst x)) in Hix. pose proof (p2_pos (fst x)). lia.
Qed.

(* ====================================================================================== *)
(* 2. prefixes of a length, the top-down enumeration of its roots                          *)
(* ====================================================================================== *)

(* X is u with its low bits cleared *)
Definition pref (X u : N) : Prop := exists j m, X = m * p2 j /\ X <= u /\ u - X < p2 j.

Lemma pref_0 u : pref 0 u.
Proof.
  exists (N.size_nat u), 0. split; [lia|]. split; [lia|].
  pose proof (size_nat_spec u). unfold p2. lia.
Qed.

Lemma pref_step X u :
  pref X u -> X < u ->
  let k := log2n (u - X) in
  exists m, X = m * p2 (S k) /\ X + p2 k <= u /\ u < X + p2 (S k) /\ pref (X + p2 k) u /\
            X / p2 k = 2 * m.
Proof.
  intros (j & m0 & EX & Hle & Hlt) HX k.
  pose proof (log2n_spec (u - X) ltac:(lia)) as [L1 L2]. fold k in L1, L2.
  assert (Hkj : (k < j)%nat) by (apply p2_lt_mono; lia).
  exists (m0 * p2 (j - S k)).
  assert (Ej : p2 j = p2 (j - S k) * p2 (S k)) by (rewrite <- p2_add; f_equal; lia).
  assert (E1 : X = m0 * p2 (j - S k) * p2 (S k)) by (rewrite EX, Ej; lia).
  split; [exact E1|]. split; [lia|]. split; [lia|]. split.
  - exists k, (2 * (m0 * p2 (j - S k)) + 1). rewrite p2_S in *. split; [lia|]. split; [lia|]. lia.
  - rewrite E1 at 1. rewrite p2_S.
    replace (m0 * p2 (j - S k) * (2 * p2 k)) with (2 * (m0 * p2 (j - S k)) * p2 k) by lia.
    apply N.div_mul. pose proof (p2_pos k). lia.
Qed.

Fixpoint roots_from (g : nat) (X u : N) : list (nat * N) :=
  match g with
  | O => []
  | S g' =>
      if u <=? X then []
      else let k := log2n (u - X) in (k, X / p2 k) :: roots_from g' (X + p2 k) u
  end.

Lemma roots_from_rrl g : forall X u,
  pref X u -> u - X < p2 g -> rrl 0 u = rev (roots_from g X u) ++ rrl 0 X.
Proof.
  induction g as [|g IH]; intros X u HP Hg.
  - rewrite p2_0 in Hg. destruct HP as (_ & _ & _ & Hle & _).
    assert (X = u) as -> by lia. reflexivity.
  - cbn [roots_from]. destruct (N.leb_spec u X) as [L|L].
    + destruct HP as (_ & _ & _ & Hle & _). assert (X = u) as -> by lia. reflexivity.
    + destruct (pref_step X u HP L) as (m & EX & H1 & H2 & HP' & Ed). cbv zeta in *.
      set (k := log2n (u - X)) in *.
      rewrite (IH (X + p2 k) u HP') by (rewrite p2_S in *; lia).
      cbn [rev]. rewrite <- app_assoc. cbn [app]. f_equal.
      rewrite Ed, EX. apply rrl_push.
Qed.

Lemma roots_from_0 g u : u < p2 g -> rev (rrl 0 u) = roots_from g 0 u.
Proof.
  intros H. rewrite (roots_from_rrl g 0 u (pref_0 u)) by lia.
  cbn [rrl]. rewrite app_nil_r. apply rev_involutive.
Qed.

(* ====================================================================================== *)
(* 3. the iterator on the full roots                                                        *)
(* ====================================================================================== *)

Lemma it_at_leaf X : mkIter (2 * X) X 2 = it_at 0 X.
Proof. unfold it_at. rewrite ft_index_leaf. reflexivity. Qed.

Lemma it_at_nat_S d o : it_at (N.of_nat d + 1) o = it_at (N.of_nat (S d)) o.
Proof. f_equal. lia. Qed.

(* the growth loop of full_root, from depth i to depth i + e, all offsets on the way even *)
Lemma frl_at (to : N) : forall e fuel i m,
  (e <= fuel)%nat ->
  2 * ((2 * m + 1) * p2 (i + e)) <= to -> to < 2 * ((2 * m + 2) * p2 (i + e)) ->
  it_full_root_loop fuel (it_at (N.of_nat i) (m * p2 (S e))) to = it_at (N.of_nat (i + e)) (2 * m).
Proof.
  induction e as [|e IH]; intros fuel i m Hf H1 H2.
  - rewrite Nat.add_0_r in *. rewrite p2_S, p2_0. replace (m * (2 * 1)) with (2 * m) by lia.
    destruct fuel as [|f]; [reflexivity|]. cbn [it_full_root_loop].
    unfold it_at at 1 2 3. cbn [it_index it_factor].
    pose proof (ft_index_succ (N.of_nat i) (2 * m)) as Hix. fold (p2 i) in Hix.
    rewrite pow2_succ. fold (p2 i). pose proof (p2_pos i) as Hp.
    replace (2 * p2 i / 2) with (p2 i) by lia.
    destruct (N.ltb_spec (ft_index (N.of_nat i) (2 * m) + 2 * p2 i + p2 i) to) as [L|L]; [lia|reflexivity].
  - destruct fuel as [|f]; [lia|].
    rewrite p2_add in H1, H2. rewrite p2_S in H1, H2.
    pose proof (p2_pos i) as Hp. pose proof (p2_pos e) as Hpe.
    set (o := m * p2 (S (S e))).
    assert (Eo : o = 2 * (m * p2 (S e))) by (unfold o; rewrite (p2_S (S e)); lia).
    pose proof (ft_index_succ (N.of_nat i) o) as Hix. fold (p2 i) in Hix.
    assert (F1 : it_index (it_at (N.of_nat i) o) = ft_index (N.of_nat i) o) by reflexivity.
    assert (F2 : it_offset (it_at (N.of_nat i) o) = o) by reflexivity.
    assert (F3 : it_factor (it_at (N.of_nat i) o) = 2 * p2 i)
      by (unfold it_at; cbn [it_factor]; rewrite pow2_succ; reflexivity).
    cbn [it_full_root_loop]. rewrite F1, F2, F3.
    replace (2 * p2 i / 2) with (p2 i) by lia.
    assert (Hge : p2 i <= p2 i * p2 e) by nia.
    destruct (N.ltb_spec (ft_index (N.of_nat i) o + 2 * p2 i + p2 i) to) as [L|L].
    + assert (En : mkIter (ft_index (N.of_nat i) o + p2 i) (o / 2) (2 * p2 i * 2)
                   = it_at (N.of_nat (S i)) (m * p2 (S e))).
      { unfold it_at. replace (o / 2) with (m * p2 (S e)) by lia. f_equal.
        - replace (N.of_nat (S i)) with (N.of_nat i + 1) by lia.
          rewrite ft_index_parent_left. fold (p2 i). rewrite Eo. reflexivity.
        - replace (N.of_nat (S i) + 1) with (N.of_nat i + 1 + 1) by lia.
          rewrite !pow2_succ. fold (p2 i). lia. }
      rewrite En. rewrite (IH f (S i) m); [f_equal; f_equal; lia|lia| |].
      * rewrite p2_add, p2_S. lia.
      * rewrite p2_add, p2_S. lia.
    + exfalso.
      assert (A : p2 i * (2 * o + 1) = 8 * (m * (p2 i * p2 e)) + p2 i) by (rewrite Eo, p2_S; lia).
      rewrite A in Hix.
      assert (B : 2 * ((2 * m + 1) * (p2 i * (2 * p2 e))) = 8 * (m * (p2 i * p2 e)) + 4 * (p2 i * p2 e)) by lia.
      rewrite B in H1. lia.
Qed.

Lemma full_root_at u X k m :
  X = m * p2 (S k) -> X + p2 k <= u -> u < X + p2 (S k) ->
  it_full_root (mkIter (2 * X) X 2) (2 * u) = (true, it_at (N.of_nat k) (2 * m)).
Proof.
  intros EX H1 H2. unfold it_full_root. cbn [it_index].
  replace (N.odd (2 * X)) with false by (rewrite FlatTreeFacts.odd_mod; lia).
  pose proof (p2_pos k) as Hp.
  destruct (N.leb_spec (2 * u) (2 * X)) as [L|L]; [lia|]. cbn [orb]. f_equal.
  rewrite it_at_leaf, EX. change 0 with (N.of_nat 0).
  rewrite (frl_at (2 * u) k (N.size_nat (2 * u)) 0 m); [reflexivity| | |].
  - pose proof (size_nat_spec (2 * u)) as Hs. fold (p2 (N.size_nat (2 * u))) in Hs.
    assert (p2 k < p2 (N.size_nat (2 * u))) by lia. apply p2_lt_mono in H. lia.
  - cbn [Nat.add]. rewrite p2_S in *. lia.
  - cbn [Nat.add]. rewrite p2_S in *. lia.
Qed.

Lemma full_root_none u X : u <= X -> fst (it_full_root (mkIter (2 * X) X 2) (2 * u)) = false.
Proof.
  intros H. unfold it_full_root. cbn [it_index].
  destruct (N.leb_spec (2 * u) (2 * X)) as [L|L]; [reflexivity|lia].
Qed.

Lemma next_tree_at k o : it_next_tree (it_at (N.of_nat k) o) = mkIter (2 * ((o + 1) * p2 k)) ((o + 1) * p2 k) 2.
Proof.
  unfold it_next_tree, it_at. cbn [it_index it_factor].
  pose proof (ft_index_succ (N.of_nat k) o) as Hix. fold (p2 k) in Hix.
  rewrite pow2_succ. fold (p2 k). pose proof (p2_pos k).
  replace (2 * p2 k / 2) with (p2 k) by lia.
  replace (ft_index (N.of_nat k) o + p2 k + 1) with (2 * ((o + 1) * p2 k)) by lia.
  f_equal. lia.
Qed.

(* ====================================================================================== *)
(* 4. a queue that serves a given list of nodes                                             *)
(* ====================================================================================== *)

Inductive serves : nodeq -> list node -> nodeq -> Prop :=
| serves_nil q : serves q [] q
| serves_cons q n q' l q'' :
    q_shift q (n_index n) = Ok (n, q') -> serves q' l q'' -> serves q (n :: l) q''.

Lemma serves_nil_inv q q' : serves q [] q' -> q' = q.
Proof. intros H. inversion H. reflexivity. Qed.

Lemma serves_cons_inv q n l q'' :
  serves q (n :: l) q'' -> exists q', q_shift q (n_index n) = Ok (n, q') /\ serves q' l q''.
Proof. intros H. inversion H; subst. eauto. Qed.

Lemma serves_app_inv l1 : forall q l2 q2,
  serves q (l1 ++ l2) q2 -> exists q1, serves q l1 q1 /\ serves q1 l2 q2.
Proof.
  induction l1 as [|n l1 IH]; intros q l2 q2 H; cbn [app] in H.
  - exists q. split; [constructor|exact H].
  - apply serves_cons_inv in H. destruct H as (q' & Hs & H).
    destruct (IH _ _ _ H) as (q1 & H1 & H2). exists q1. split; [|exact H2].
    econstructor; eassumption.
Qed.

Lemma serves_app l1 : forall q q1 l2 q2,
  serves q l1 q1 -> serves q1 l2 q2 -> serves q (l1 ++ l2) q2.
Proof.
  induction l1 as [|n l1 IH]; intros q q1 l2 q2 H1 H2; cbn [app].
  - apply serves_nil_inv in H1. subst. exact H2.
  - apply serves_cons_inv in H1. destruct H1 as (q' & Hs & H1).
    econstructor; [exact Hs|]. eapply IH; eassumption.
Qed.

(* a plain queue serves its own nodes; an extra node whose index is never asked for stays *)
Lemma serves_plain l e :
  (forall x, e = Some x -> Forall (fun n => n_index n <> n_index x) l) ->
  serves (mkQ l e) l (mkQ [] e).
Proof.
  induction l as [|n l IH]; intros He; [constructor|].
  econstructor; [|apply IH].
  - unfold q_shift. cbn [q_extra q_nodes]. destruct e as [x|].
    + specialize (He x eq_refl). inversion He as [|? ? Hn _]; subst.
      destruct (N.eqb_spec (n_index x) (n_index n)) as [E|E]; [congruence|].
      rewrite N.eqb_refl. reflexivity.
    + rewrite N.eqb_refl. reflexivity.
  - intros x Hx. specialize (He x Hx). inversion He; assumption.
Qed.

(* ====================================================================================== *)
(* 5. the nodes of an upgrade from r to u                                                   *)
(* ====================================================================================== *)

(* right siblings met when climbing n levels from (d, a) *)
Fixpoint conn_idx (n d : nat) (a : N) : list (nat * N) :=
  match n with
  | O => []
  | S n' => (if N.even a then [(d, a + 1)] else []) ++ conn_idx n' (S d) (a / 2)
  end.

Fixpoint upg_idx (g : nat) (X r u : N) : list (nat * N) :=
  match g with
  | O => []
  | S g' =>
      if u <=? X then []
      else let k := log2n (u - X) in
           if X + p2 k <=? r then upg_idx g' (X + p2 k) r u
           else if X <? r then conn_idx k 0 (r - 1) ++ roots_from g' (X + p2 k) u
           else roots_from (S g') X u
  end.

Definition it_hd (l : list (nat * N)) : fiter :=
  match l with x :: _ => it_at (N.of_nat (fst x)) (snd x) | [] => it_new 0 end.

Lemma rrl_nonempty d m : 0 < m -> rrl d m <> [].
Proof.
  destruct m as [|p]; [lia|]. intros _. cbn [rrl]. revert d.
  induction p as [p IH|p IH|]; intros d; cbn [rrp]; [discriminate|apply IH|discriminate].
Qed.

(* the fuel of the specification lists: 2^64 exceeds every length whose double fits in a u64 *)
Definition g64 : nat := 64.

Lemma p2_64 : p2 g64 = 18446744073709551616.
Proof. reflexivity. Qed.

Lemma climb_64 : (g64 < CLIMB)%nat.
Proof. unfold CLIMB, g64. lia. Qed.

Opaque g64.

(* notations, not definitions: the kernel never has to unfold a constant against the fuelled fixpoint *)
Notation upg_nodes cr bs r u := (map (rn cr bs) (upg_idx g64 0 r u)) (only parsing).
Notation addl_nodes cr bs u w := (if u <? w then map (rn cr bs) (upg_idx g64 0 u w) else []) (only parsing).

Section RefUpgrade.
  Variable cr : crypto.
  Variable bs : list bytes.
  Hypothesis total_fits : sumN (map len bs) <= u64_max.

  Lemma merge_ref_ok (m : N) : forall (d fuel : nat) (nodes : list node),
    (length (rrl d m) < fuel)%nat ->
    exists new,
      merge_roots cr fuel (ref_node cr bs d m :: map (rn cr bs) (rrl d m)) nodes (it_at (N.of_nat d) m)
      = Ok (map (rn cr bs) (rrl d (m + 1)), new ++ nodes, it_hd (rrl d (m + 1))) /\
      Forall (is_ref cr bs) new.
  Proof.
    induction m as [|n IH|n IH] using N_bin_ind; intros d fuel nodes Hfuel.
    - destruct fuel as [|f]; [lia|]. cbn [rrl map].
      rewrite merge_stop by exact I. exists []. split; [reflexivity|constructor].
    - destruct fuel as [|f]; [lia|].
      rewrite merge_stop.
      + exists []. split; [|constructor]. rewrite rrl_odd, rrl_even. reflexivity.
      + destruct (rrl d (2 * n)) as [|b rest] eqn:Eb; [exact I|]. cbn [map].
        assert (Hb : (S d <= fst b)%nat).
        { apply (rrl_depth (S d) n). rewrite <- rrl_even, Eb. left. reflexivity. }
        rewrite it_sibling_at_even by (rewrite FlatTreeFacts.even_mod; lia).
        unfold rn. rewrite ref_node_index. cbn [it_at it_index].
        intros Heq. apply ft_index_inj in Heq. lia.
    - destruct fuel as [|f]; [lia|].
      rewrite rrl_odd in *. cbn [map length] in *. unfold rn at 1. cbn [fst snd].
      assert (Hsib : it_sibling (it_at (N.of_nat d) (2 * n + 1)) = it_at (N.of_nat d) (2 * n)).
      { rewrite it_sibling_at_odd by (rewrite FlatTreeFacts.odd_mod; lia). f_equal. lia. }
      assert (Hidx : it_index (it_sibling (it_at (N.of_nat d) (2 * n + 1))) = n_index (ref_node cr bs d (2 * n))).
      { rewrite Hsib, ref_node_index. reflexivity. }
      assert (Hlen : n_length (ref_node cr bs (S d) n) =
                     n_length (ref_node cr bs d (2 * n + 1)) + n_length (ref_node cr bs d (2 * n))).
      { cbn [ref_node]. unfold parent_node. cbn [n_length]. lia. }
      assert (F : fits_u64 (n_length (ref_node cr bs d (2 * n + 1)) + n_length (ref_node cr bs d (2 * n))) = true).
      { rewrite <- Hlen. apply ref_node_fits, total_fits. }
      rewrite merge_step by assumption.
      rewrite Hsib, it_parent_at. replace (2 * n / 2) with n by lia.
      assert (Hnode : mkNode (it_index (it_at (N.of_nat d + 1) n))
                        (n_length (ref_node cr bs d (2 * n + 1)) + n_length (ref_node cr bs d (2 * n)))
                        (parent_hash cr (ref_node cr bs d (2 * n + 1)) (ref_node cr bs d (2 * n)))
                      = ref_node cr bs (S d) n).
      { cbn [ref_node]. unfold parent_node. cbn [it_at it_index].
        replace (N.of_nat d + 1) with (N.of_nat (S d)) by lia. f_equal; [lia|].
        apply parent_hash_comm. rewrite !ref_node_index.
        pose proof (ft_index_lt_offset (N.of_nat d) (2 * n) (2 * n + 1)). lia. }
      rewrite Hnode. rewrite it_at_nat_S.
      destruct (IH (S d) f (ref_node cr bs (S d) n :: nodes)) as (new & Hm & Hnew); [lia|].
      rewrite Hm. exists (new ++ [ref_node cr bs (S d) n]). split.
      + replace (2 * n + 1 + 1) with (2 * (n + 1)) by lia. rewrite rrl_even, <- app_assoc. reflexivity.
      + apply Forall_app. split; [exact Hnew|]. constructor; [apply ref_node_is_ref|constructor].
  Qed.

  (* what the verifier's changeset looks like when it covers the first L blocks *)
  Definition vinv (c : changeset) (L : N) : Prop :=
    cs_length c = L /\ rev (cs_roots c) = map (rn cr bs) (rrl 0 L) /\ cs_byte_length c = prefix_size bs L.

  (* growth of a changeset: only roots, length, byte length, pushed nodes and the flag change *)
  Definition cs_grown (c c' : changeset) : Prop :=
    cs_ancestors c' = cs_ancestors c /\ cs_batch_length c' = cs_batch_length c /\ cs_fork c' = cs_fork c /\
    cs_hash c' = cs_hash c /\ cs_signature c' = cs_signature c /\ cs_orig_length c' = cs_orig_length c /\
    cs_orig_fork c' = cs_orig_fork c /\
    exists new, cs_rnodes c' = new ++ cs_rnodes c /\ Forall (is_ref cr bs) new /\
                cs_upgraded c' = (match new with [] => cs_upgraded c | _ => true end).

  Lemma cs_grown_refl c : cs_grown c c.
  Proof. unfold cs_grown. repeat split. exists []. repeat split. constructor. Qed.

  Lemma cs_grown_trans a b c : cs_grown a b -> cs_grown b c -> cs_grown a c.
  Proof.
    intros (A1 & A2 & A3 & A4 & A5 & A6 & A7 & na & A8 & A9 & A10)
           (B1 & B2 & B3 & B4 & B5 & B6 & B7 & nb & B8 & B9 & B10).
    unfold cs_grown. repeat split; try congruence.
    exists (nb ++ na). split; [rewrite B8, A8, app_assoc; reflexivity|].
    split; [apply Forall_app; split; assumption|].
    rewrite B10, A10. destruct nb; destruct na; reflexivity.
  Qed.

  Lemma cs_grown_upgraded c c' : cs_grown c c' -> cs_upgraded c = true -> cs_upgraded c' = true.
  Proof.
    intros (_ & _ & _ & _ & _ & _ & _ & new & _ & _ & E) H. rewrite E. destruct new; [exact H|reflexivity].
  Qed.

  Lemma ref_node_prefix d m : prefix_size bs (m * p2 d) + n_length (ref_node cr bs d m) = prefix_size bs ((m + 1) * p2 d).
  Proof. rewrite ref_node_length. apply ref_size_prefix. Qed.

  (* append_root on a forest of m reference subtrees of depth d, with the next such subtree *)
  Lemma append_root_ref c d m :
    rev (cs_roots c) = map (rn cr bs) (rrl d m) -> cs_length c = m * p2 d ->
    cs_byte_length c = prefix_size bs (m * p2 d) ->
    exists c', append_root cr c (ref_node cr bs d m) (it_at (N.of_nat d) m) = Ok (c', it_hd (rrl d (m + 1))) /\
      rev (cs_roots c') = map (rn cr bs) (rrl d (m + 1)) /\ cs_length c' = (m + 1) * p2 d /\
      cs_byte_length c' = prefix_size bs ((m + 1) * p2 d) /\ cs_grown c c' /\ cs_upgraded c' = true.
  Proof.
    intros Hr Hl Hb. unfold append_root.
    pose proof (ref_node_prefix d m) as Hp. pose proof (prefix_size_le bs ((m + 1) * p2 d)) as Hle.
    rewrite NoPanic.add64_ok by lia. cbn [bind]. rewrite Hr.
    destruct (merge_ref_ok m d (S (length (cs_roots c))) (ref_node cr bs d m :: cs_rnodes c)) as (new & Hm & Hnew).
    { rewrite <- (map_length (rn cr bs)), <- Hr, rev_length. lia. }
    rewrite Hm. cbn [bind]. eexists. split; [reflexivity|].
    cbn [cs_roots cs_length cs_byte_length]. rewrite rev_involutive.
    split; [reflexivity|]. split.
    { unfold it_at. cbn [it_factor]. rewrite pow2_succ. fold (p2 d). pose proof (p2_pos d). rewrite Hl.
      replace (2 * p2 d / 2) with (p2 d) by lia. lia. }
    split; [lia|]. split; [|reflexivity].
    unfold cs_grown. cbn [cs_ancestors cs_batch_length cs_fork cs_hash cs_signature cs_orig_length cs_orig_fork
                          cs_rnodes cs_upgraded].
    repeat split. exists (new ++ [ref_node cr bs d m]). rewrite <- app_assoc. split; [reflexivity|]. split.
    - apply Forall_app. split; [exact Hnew|]. constructor; [apply ref_node_is_ref|constructor].
    - destruct new; reflexivity.
  Qed.

  (* ---------- the verifier: the grow branch ---------- *)

  Lemma vinv_roots_lt c L r : vinv c L -> In r (cs_roots c) -> n_index r < 2 * L.
  Proof.
    intros (_ & Hr & _) Hin. apply in_rev in Hin. rewrite Hr in Hin.
    apply in_map_iff in Hin. destruct Hin as (x & <- & Hx).
    unfold rn. rewrite ref_node_index. apply (idx_lt x).
    apply rrl_bound in Hx. rewrite p2_0 in Hx. lia.
  Qed.

  Lemma grow_spec : forall n d a c q q1 fuel xo,
    (n < fuel)%nat -> xo * p2 n <= a -> a < (xo + 1) * p2 n -> N.even xo = true ->
    rev (cs_roots c) = map (rn cr bs) (rrl d (a + 1)) -> cs_length c = (a + 1) * p2 d ->
    cs_byte_length c = prefix_size bs ((a + 1) * p2 d) ->
    serves q (map (rn cr bs) (conn_idx n d a)) q1 ->
    exists c',
      grow_loop cr fuel c q (it_hd (rrl d (a + 1))) (ft_index (N.of_nat (d + n)) xo)
        = Ok (c', q1, it_at (N.of_nat (d + n)) xo) /\
      rev (cs_roots c') = map (rn cr bs) (rrl (d + n) (xo + 1)) /\ cs_length c' = (xo + 1) * p2 (d + n) /\
      cs_byte_length c' = prefix_size bs ((xo + 1) * p2 (d + n)) /\ cs_grown c c' /\
      (a + 1 < (xo + 1) * p2 n -> cs_upgraded c' = true).
  Proof.
    induction n as [|n IH]; intros d a c q q1 fuel xo Hf H1 H2 Hxo Hr Hl Hb Hs.
    - rewrite p2_0 in *. assert (a = xo) as -> by lia. rewrite Nat.add_0_r.
      destruct fuel as [|f]; [lia|]. cbn [conn_idx map] in Hs. apply serves_nil_inv in Hs. subst q1.
      assert (E : rrl d (xo + 1) = (d, xo) :: rrl (S d) (xo / 2)).
      { rewrite FlatTreeFacts.even_mod in Hxo. replace (xo + 1) with (2 * (xo / 2) + 1) by lia.
        rewrite rrl_odd. f_equal. f_equal. lia. }
      exists c. rewrite E. cbn [it_hd fst snd grow_loop].
      unfold it_at at 1. cbn [it_index]. rewrite N.eqb_refl.
      split; [reflexivity|]. rewrite <- E. split; [exact Hr|]. split; [exact Hl|]. split; [exact Hb|].
      split; [apply cs_grown_refl|]. intros; lia.
    - rewrite p2_S in H1, H2. cbn [conn_idx] in Hs.
      replace (d + S n)%nat with (S d + n)%nat by lia.
      destruct (N.even a) eqn:Ea.
      + (* a left node: its right sibling is asked for and merged *)
        rewrite FlatTreeFacts.even_mod in Ea.
        assert (E : rrl d (a + 1) = (d, a) :: rrl (S d) (a / 2)).
        { replace (a + 1) with (2 * (a / 2) + 1) by lia. rewrite rrl_odd. f_equal. f_equal. lia. }
        cbn [app map] in Hs. apply serves_cons_inv in Hs. destruct Hs as (q' & Hq & Hs).
        unfold rn at 1 2 in Hq. cbn [fst snd] in Hq. rewrite ref_node_index in Hq.
        destruct fuel as [|f]; [lia|]. rewrite E. cbn [it_hd fst snd grow_loop].
        destruct (N.eqb_spec (it_index (it_at (N.of_nat d) a)) (ft_index (N.of_nat (S d + n)) xo)) as [Ei|Ei].
        { unfold it_at in Ei. cbn [it_index] in Ei. apply ft_index_inj in Ei. lia. }
        rewrite it_sibling_at_even by (rewrite FlatTreeFacts.even_mod; lia).
        unfold it_at at 1. cbn [it_index]. rewrite Hq. cbn [bind].
        destruct (append_root_ref c d (a + 1) Hr Hl Hb) as (c1 & Ha & R1 & L1 & B1 & G1 & U1).
        rewrite Ha. cbn [bind].
        assert (E2 : rrl d (a + 1 + 1) = rrl (S d) (a / 2 + 1)).
        { replace (a + 1 + 1) with (2 * (a / 2 + 1)) by lia. apply rrl_even. }
        rewrite E2 in *.
        destruct (IH (S d) (a / 2) c1 q' q1 f xo) as (c' & Hg & R2 & L2 & B2 & G2 & U2);
          try assumption; try lia.
        { rewrite L1, p2_S. replace (a + 1 + 1) with (2 * (a / 2 + 1)) by lia. lia. }
        { rewrite B1, p2_S. f_equal. replace (a + 1 + 1) with (2 * (a / 2 + 1)) by lia. lia. }
        exists c'. split; [exact Hg|]. split; [exact R2|]. split; [exact L2|]. split; [exact B2|].
        split; [eapply cs_grown_trans; eassumption|].
        intros _. eapply cs_grown_upgraded; eassumption.
      + (* a right node: nothing to do at this level *)
        assert (Eo : a mod 2 = 1).
        { rewrite FlatTreeFacts.even_mod in Ea. lia. }
        assert (E2 : rrl d (a + 1) = rrl (S d) (a / 2 + 1)).
        { replace (a + 1) with (2 * (a / 2 + 1)) by lia. apply rrl_even. }
        cbn [app] in Hs. rewrite E2 in *.
        destruct (IH (S d) (a / 2) c q q1 fuel xo) as (c' & Hg & R2 & L2 & B2 & G2 & U2);
          try assumption; try lia.
        { rewrite Hl, p2_S. replace (a + 1) with (2 * (a / 2 + 1)) by lia. lia. }
        { rewrite Hb, p2_S. f_equal. replace (a + 1) with (2 * (a / 2 + 1)) by lia. lia. }
        exists c'. split; [exact Hg|]. split; [exact R2|]. split; [exact L2|]. split; [exact B2|].
        split; [exact G2|]. intros Hlt. apply U2. rewrite p2_S in Hlt. lia.
  Qed.

  (* ---------- the verifier: the roots after the point where replica and writer differ ---------- *)

  Lemma vinv_at c X k m :
    vinv c X -> X = m * p2 (S k) ->
    rev (cs_roots c) = map (rn cr bs) (rrl k (2 * m)) /\ cs_length c = 2 * m * p2 k /\
    cs_byte_length c = prefix_size bs (2 * m * p2 k).
  Proof.
    intros (V1 & V2 & V3) EX. rewrite p2_S in EX.
    assert (E : X = 2 * m * p2 k) by lia.
    rewrite V2, V1, V3, E. rewrite rrl_shift. repeat split.
  Qed.

  Lemma url_rest u : forall g fuel X c q q1 i (grow : bool),
    (g < fuel)%nat -> pref X u -> u - X < p2 g -> vinv c X ->
    (grow = true -> nth_error (cs_roots c) i = None) ->
    serves q (map (rn cr bs) (roots_from g X u)) q1 ->
    exists c' it',
      upgrade_roots_loop cr fuel c q (mkIter (2 * X) X 2) (2 * u) i grow = Ok (c', q1, it') /\
      vinv c' u /\ cs_grown c c' /\ (X < u -> cs_upgraded c' = true).
  Proof.
    induction g as [|g IH]; intros fuel X c q q1 i grow Hf HP Hg V Hgrow Hs;
      (destruct fuel as [|f]; [lia|]); cbn [upgrade_roots_loop].
    - rewrite p2_0 in Hg. pose proof HP as (_ & _ & _ & Hle & _). assert (X = u) as -> by lia.
      cbn [roots_from map] in Hs. apply serves_nil_inv in Hs. subst q1.
      pose proof (full_root_none u u ltac:(lia)) as Hn.
      destruct (it_full_root (mkIter (2 * u) u 2) (2 * u)) as [found it1]. cbn [fst] in Hn. subst found.
      cbn [negb]. exists c, it1. split; [reflexivity|]. split; [exact V|]. split; [apply cs_grown_refl|lia].
    - cbn [roots_from] in Hs. destruct (N.leb_spec u X) as [L|L].
      + pose proof HP as (_ & _ & _ & Hle & _). assert (X = u) as -> by lia.
        cbn [map] in Hs. apply serves_nil_inv in Hs. subst q1.
        pose proof (full_root_none u u ltac:(lia)) as Hn.
        destruct (it_full_root (mkIter (2 * u) u 2) (2 * u)) as [found it1]. cbn [fst] in Hn. subst found.
        cbn [negb]. exists c, it1. split; [reflexivity|]. split; [exact V|]. split; [apply cs_grown_refl|lia].
      + destruct (pref_step X u HP L) as (m & EX & H1 & H2 & HP' & Ed). cbv zeta in *.
        set (k := log2n (u - X)) in *.
        rewrite (full_root_at u X k m EX H1 H2). cbn [negb].
        rewrite Ed in Hs. cbn [map] in Hs. apply serves_cons_inv in Hs. destruct Hs as (q' & Hq & Hs).
        unfold rn at 1 2 in Hq. cbn [fst snd] in Hq. rewrite ref_node_index in Hq.
        destruct (vinv_at c X k m V EX) as (Vr & Vl & Vb).
        destruct (append_root_ref c k (2 * m) Vr Vl Vb) as (c1 & Ha & R1 & L1 & B1 & G1 & U1).
        assert (Hstep : ('(n0, q'0) <- q_shift q (it_index (it_at (N.of_nat k) (2 * m))) ;;
                         '(c'0, it'0) <- append_root cr c n0 (it_at (N.of_nat k) (2 * m)) ;;
                         upgrade_roots_loop cr f c'0 q'0 (it_next_tree it'0) (2 * u) i false)
                        = upgrade_roots_loop cr f c1 q' (mkIter (2 * (X + p2 k)) (X + p2 k) 2) (2 * u) i false).
        { unfold it_at at 1. cbn [it_index]. rewrite Hq. cbn [bind]. rewrite Ha. cbn [bind].
          rewrite rrl_odd. cbn [it_hd fst snd]. rewrite next_tree_at.
          replace ((2 * m + 1) * p2 k) with (X + p2 k) by (rewrite EX, p2_S; lia). reflexivity. }
        assert (V1 : vinv c1 (X + p2 k)).
        { unfold vinv. replace (X + p2 k) with ((2 * m + 1) * p2 k) by (rewrite EX, p2_S; lia).
          rewrite rrl_shift. cbn [Nat.add]. auto. }
        destruct (IH f (X + p2 k) c1 q' q1 i false) as (c' & it' & Hrun & V' & G' & _);
          [lia|exact HP'| |exact V1|discriminate|exact Hs|].
        { assert (Hk : p2 k <= p2 g).
          { apply p2_le_mono. assert (k < S g)%nat by (apply p2_lt_mono; lia). lia. }
          rewrite p2_S in H2. lia. }
        exists c', it'. split.
        { destruct (nth_error (cs_roots c) i) as [r0|] eqn:En.
          - destruct (N.eqb_spec (n_index r0) (it_index (it_at (N.of_nat k) (2 * m)))) as [Ei|Ei].
            { exfalso. apply nth_error_In in En. apply (vinv_roots_lt c X r0 V) in En.
              unfold it_at in Ei. cbn [it_index] in Ei.
              pose proof (ft_index_succ (N.of_nat k) (2 * m)) as Hix. fold (p2 k) in Hix.
              rewrite p2_S in EX. pose proof (p2_pos k). lia. }
            destruct grow; [discriminate (Hgrow eq_refl)|].
            rewrite Hstep. exact Hrun.
          - rewrite Hstep. exact Hrun. }
        split; [exact V'|]. split; [eapply cs_grown_trans; eassumption|].
        intros _. eapply cs_grown_upgraded; eassumption.
  Qed.

  (* ---------- the verifier: the whole root loop, from a replica of length r ---------- *)

  Lemma nth_error_mid {A} (pre : list A) x post : nth_error (pre ++ x :: post) (length pre) = Some x.
  Proof. rewrite nth_error_app2 by lia. rewrite Nat.sub_diag. reflexivity. Qed.

  Lemma url_main r u c0 :
    0 < r -> r < u -> vinv c0 r ->
    forall g fuel X q q1 pre,
    (g < fuel)%nat -> (g < CLIMB)%nat -> pref X u -> u - X < p2 g -> X <= r ->
    cs_roots c0 = pre ++ map (rn cr bs) (roots_from g X r) ->
    serves q (map (rn cr bs) (upg_idx g X r u)) q1 ->
    exists c' it',
      upgrade_roots_loop cr fuel c0 q (mkIter (2 * X) X 2) (2 * u) (length pre) true = Ok (c', q1, it') /\
      vinv c' u /\ cs_grown c0 c' /\ cs_upgraded c' = true.
  Proof.
    intros Hr Hru V0. induction g as [|g IH]; intros fuel X q q1 pre Hf Hgc HP Hg HXr Hroots Hs.
    { rewrite p2_0 in Hg. lia. }
    destruct fuel as [|f]; [lia|].
    assert (L : X < u) by lia.
    destruct (pref_step X u HP L) as (m & EX & H1 & H2 & HP' & Ed). cbv zeta in *.
    pose proof EX as EX2. pose proof H2 as H22. rewrite p2_S in EX2, H22.
    cbn [upg_idx] in Hs. destruct (N.leb_spec u X) as [L'|_]; [lia|]. cbv zeta in Hs.
    set (k := log2n (u - X)) in *.
    assert (Hkg : (k <= g)%nat).
    { assert (k < S g)%nat by (apply p2_lt_mono; lia). lia. }
    assert (Hk : p2 k <= p2 g) by (apply p2_le_mono; exact Hkg).
    pose proof (p2_pos k) as Hpk.
    destruct (N.leb_spec (X + p2 k) r) as [Lm|Lm].
    - (* the root is also a root of the replica *)
      cbn [upgrade_roots_loop]. rewrite (full_root_at u X k m EX H1 H2). cbn [negb].
      cbn [roots_from] in Hroots. destruct (N.leb_spec r X) as [L'|_]; [lia|]. cbv zeta in Hroots.
      assert (Ekr : log2n (r - X) = k) by (apply log2n_unique; rewrite p2_S; lia).
      rewrite Ekr, Ed in Hroots. cbn [map] in Hroots.
      rewrite Hroots, nth_error_mid. unfold rn at 1. cbn [fst snd]. rewrite ref_node_index.
      unfold it_at at 1. cbn [it_index]. rewrite N.eqb_refl. rewrite next_tree_at.
      replace ((2 * m + 1) * p2 k) with (X + p2 k) by lia.
      specialize (IH f (X + p2 k) q q1 (pre ++ [rn cr bs (k, 2 * m)])).
      rewrite app_length in IH. cbn [length] in IH. replace (length pre + 1)%nat with (S (length pre)) in IH by lia.
      apply IH; [lia|lia|exact HP'|lia|exact Lm| |exact Hs].
      rewrite <- app_assoc. exact Hroots.
    - destruct (N.ltb_spec X r) as [Lr|Lr].
      + (* the replica ends inside this root: grow from its last root *)
        rewrite map_app in Hs. apply serves_app_inv in Hs. destruct Hs as (qm & Hs1 & Hs2).
        cbn [upgrade_roots_loop]. rewrite (full_root_at u X k m EX H1 H2). cbn [negb].
        cbn [roots_from] in Hroots. destruct (N.leb_spec r X) as [L'|_]; [lia|]. cbv zeta in Hroots.
        assert (Ekr : (log2n (r - X) < k)%nat).
        { apply p2_lt_mono. pose proof (log2n_spec (r - X) ltac:(lia)). lia. }
        cbn [map] in Hroots. rewrite Hroots, nth_error_mid. unfold rn at 1. cbn [fst snd]. rewrite ref_node_index.
        destruct (N.eqb_spec (ft_index (N.of_nat (log2n (r - X))) (X / p2 (log2n (r - X))))
                             (it_index (it_at (N.of_nat k) (2 * m)))) as [Ei|Ei].
        { unfold it_at in Ei. cbn [it_index] in Ei. apply ft_index_inj in Ei. lia. }
        pose proof V0 as (V1 & V2 & V3).
        (* the last root *)
        destruct (rrl 0 r) as [|x0 l0] eqn:Erl; [exfalso; apply (rrl_nonempty 0 r Hr Erl)|].
        unfold last_root_index. rewrite V2. cbn [map bind].
        assert (Ehd : it_new (n_index (rn cr bs x0)) = it_hd (rrl 0 (r - 1 + 1))).
        { replace (r - 1 + 1) with r by lia. rewrite Erl. cbn [it_hd]. unfold rn.
          rewrite ref_node_index. apply FlatTreeFacts.it_new_index. }
        rewrite Ehd.
        destruct (grow_spec k 0 (r - 1) c0 q qm CLIMB (2 * m)) as (c1 & Hg1 & R1 & L1 & B1 & G1 & U1).
        { lia. }
        { lia. }
        { lia. }
        { rewrite FlatTreeFacts.even_mod. lia. }
        { replace (r - 1 + 1) with r by lia. rewrite Erl. exact V2. }
        { rewrite p2_0. lia. }
        { rewrite p2_0, V3. f_equal. lia. }
        { exact Hs1. }
        cbn [Nat.add] in Hg1, R1, L1, B1.
        unfold it_at at 1. cbn [it_index]. rewrite Hg1. cbn [bind]. rewrite next_tree_at.
        replace ((2 * m + 1) * p2 k) with (X + p2 k) in * by lia.
        assert (Vc1 : vinv c1 (X + p2 k)).
        { unfold vinv. replace (X + p2 k) with ((2 * m + 1) * p2 k) by lia.
          rewrite rrl_shift. cbn [Nat.add].
          replace ((2 * m + 1) * p2 k) with (X + p2 k) by lia. auto. }
        destruct (url_rest u g f (X + p2 k) c1 qm q1 (length pre) false) as (c' & it' & Hrun & V' & G' & _);
          [lia|exact HP'|lia|exact Vc1|discriminate|exact Hs2|].
        exists c', it'. split; [exact Hrun|]. split; [exact V'|]. split; [eapply cs_grown_trans; eassumption|].
        eapply cs_grown_upgraded; [exact G'|]. apply U1. lia.
      + (* the replica ends exactly where this root starts *)
        assert (EXr : X = r) by lia.
        assert (V0' : vinv c0 X) by (rewrite EXr; exact V0).
        cbn [roots_from] in Hroots. destruct (N.leb_spec r X) as [_|L']; [|lia]. cbn [map] in Hroots.
        destruct (url_rest u (S g) (S f) X c0 q q1 (length pre) true) as (c' & it' & Hrun & V' & G' & U');
          [lia|exact HP|exact Hg|exact V0'| |exact Hs|].
        { intros _. rewrite Hroots, app_nil_r. apply nth_error_None. lia. }
        exists c', it'. split; [exact Hrun|]. split; [exact V'|]. split; [exact G'|]. apply U'. lia.
  Qed.

  (* ---------- the prover ---------- *)

  (* the sub-proof branches of the upgrade loop are switched off: no sub-tree request, or the block /
     seek part already present, or the sub-tree index not below the upgrade *)
  Definition nosub (with_sub : bool) (p : local_proof) (sub lim : N) : Prop :=
    with_sub = false \/ lp_nodes p <> None \/ lp_seek p <> None \/ lim <= sub.

  Lemma nosub_false with_sub p sub lim d o :
    nosub with_sub p sub lim -> 2 * ((o + 1) * p2 d) <= lim ->
    with_sub && (match lp_nodes p, lp_seek p with None, None => true | _, _ => false end)
      && it_contains (it_at (N.of_nat d) o) sub = false.
  Proof.
    intros [->|[H|[H|H]]] Hlim.
    - reflexivity.
    - destruct (lp_nodes p); [|congruence]. rewrite andb_false_r. reflexivity.
    - destruct (lp_seek p); [|congruence]. destruct (lp_nodes p); rewrite andb_false_r; reflexivity.
    - destruct (it_contains (it_at (N.of_nat d) o) sub) eqn:E; [|apply andb_false_r].
      apply (it_contains_spec _ _ (wf_at _ _)) in E. pose proof (hi_at (N.of_nat d) o) as Hh.
      fold (p2 d) in Hh. lia.
  Qed.

  Lemma it_new_even x : it_new (2 * x) = it_at 0 x.
  Proof.
    unfold it_new. replace (N.odd (2 * x)) with false by (rewrite FlatTreeFacts.odd_mod; lia).
    replace (2 * x / 2) with x by lia. apply it_at_leaf.
  Qed.

  Section Prover.
    Variable t : mtree.
    Variable tf : file.
    Variable w : N.
    Hypothesis Hlook : lookups cr t tf bs w.
    Variable ix : option indexed.
    Variable is_seek : bool.
    Variable sub : N.
    Variable with_sub : bool.

    Lemma connect_spec p lim :
      nosub with_sub p sub lim ->
      forall n d a fuel acc xo tl,
      (n < fuel)%nat -> xo * p2 n <= a -> a < (xo + 1) * p2 n ->
      2 * ((xo + 1) * p2 (d + n)) <= lim -> (xo + 1) * p2 (d + n) <= w ->
      a * p2 d <= tl -> tl < (a + 1) * p2 d ->
      connect_loop fuel t tf (it_at (N.of_nat d) a) (ft_index (N.of_nat (d + n)) xo) (2 * tl)
                   ix is_seek sub with_sub p acc
      = Ok (p, acc ++ map (rn cr bs) (conn_idx n d a)).
    Proof.
      intros Hns. induction n as [|n IH]; intros d a fuel acc xo tl Hf H1 H2 Hlim Hw T1 T2;
        (destruct fuel as [|f]; [lia|]); cbn [connect_loop conn_idx].
      - rewrite p2_0 in *. assert (a = xo) as -> by lia. rewrite Nat.add_0_r.
        unfold it_at at 1. cbn [it_index]. rewrite N.eqb_refl. cbn [map]. rewrite app_nil_r. reflexivity.
      - destruct (N.eqb_spec (it_index (it_at (N.of_nat d) a)) (ft_index (N.of_nat (d + S n)) xo)) as [Ei|Ei].
        { unfold it_at in Ei. cbn [it_index] in Ei. apply ft_index_inj in Ei. lia. }
        rewrite p2_S in H1, H2. pose proof (p2_pos d) as Hpd. pose proof (p2_pos n) as Hpn.
        assert (Ew : p2 (d + S n) = 2 * (p2 n * p2 d)) by (rewrite p2_add, p2_S; lia).
        replace (d + S n)%nat with (S d + n)%nat in * by lia.
        pose proof (ft_index_succ (N.of_nat d) (a + 1)) as Hi1. fold (p2 d) in Hi1.
        destruct (N.even a) eqn:Ea.
        + rewrite FlatTreeFacts.even_mod in Ea.
          rewrite it_sibling_at_even by (rewrite FlatTreeFacts.even_mod; lia).
          unfold it_at at 1. cbn [it_index].
          destruct (N.ltb_spec (2 * tl) (ft_index (N.of_nat d) (a + 1))) as [Lt|Lt]; [|lia].
          assert (Ha2 : a + 2 <= (xo + 1) * (2 * p2 n)) by lia.
          assert (Hsub : (a + 1 + 1) * p2 d <= (xo + 1) * p2 (S d + n)).
          { rewrite Ew. replace (a + 1 + 1) with (a + 2) by lia.
            apply (N.mul_le_mono_r _ _ (p2 d)) in Ha2. lia. }
          rewrite (nosub_false with_sub p sub lim d (a + 1) Hns) by lia.
          unfold it_at at 1. cbn [it_index].
          rewrite (Hlook d (a + 1)) by lia. cbn [bind].
          rewrite it_parent_at. replace ((a + 1) / 2) with (a / 2) by lia. rewrite it_at_nat_S.
          rewrite (IH (S d) (a / 2) f (acc ++ [ref_node cr bs d (a + 1)]) xo tl); try lia.
          * cbn [app map]. rewrite <- app_assoc. reflexivity.
          * rewrite p2_S. replace a with (2 * (a / 2)) in T1 by lia. lia.
          * rewrite p2_S. replace a with (2 * (a / 2)) in T2 by lia. lia.
        + assert (Eo : a mod 2 = 1) by (rewrite FlatTreeFacts.even_mod in Ea; lia).
          rewrite it_sibling_at_odd by (rewrite FlatTreeFacts.odd_mod; lia).
          pose proof (ft_index_succ (N.of_nat d) (a - 1)) as Hi2. fold (p2 d) in Hi2.
          unfold it_at at 1. cbn [it_index].
          destruct (N.ltb_spec (2 * tl) (ft_index (N.of_nat d) (a - 1))) as [Lt|Lt].
          { exfalso. replace (2 * (a - 1) + 1) with (2 * a - 1) in Hi2 by lia.
            assert (p2 d * (2 * a - 1) <= 2 * (a * p2 d)) by nia. lia. }
          cbn [bind].
          rewrite it_parent_at. replace ((a - 1) / 2) with (a / 2) by lia. rewrite it_at_nat_S.
          rewrite (IH (S d) (a / 2) f acc xo tl); try lia.
          * reflexivity.
          * rewrite p2_S. replace a with (2 * (a / 2) + 1) in T1 by lia. lia.
          * rewrite p2_S. replace a with (2 * (a / 2) + 1) in T2 by lia. lia.
    Qed.

    Lemma it_at_right_end k o :
      it_index (it_at (N.of_nat k) o) + it_factor (it_at (N.of_nat k) o) / 2 = 2 * ((o + 1) * p2 k) - 1.
    Proof.
      unfold it_at. cbn [it_index it_factor]. pose proof (ft_index_succ (N.of_nat k) o) as Hix.
      fold (p2 k) in Hix. rewrite pow2_succ. fold (p2 k). pose proof (p2_pos k).
      replace (2 * p2 k / 2) with (p2 k) by lia. lia.
    Qed.

    (* the roots after the replica's end *)
    Lemma upgrade_loop_rest r u p :
      u <= w -> nosub with_sub p sub (2 * u) ->
      forall g fuel X acc,
      (g < fuel)%nat -> pref X u -> u - X < p2 g -> r <= X ->
      upgrade_loop fuel t tf (mkIter (2 * X) X 2) (2 * r) (2 * u) ix is_seek sub with_sub true p acc
      = Ok (p, acc ++ map (rn cr bs) (roots_from g X u), true).
    Proof.
      intros Huw Hns. induction g as [|g IH]; intros fuel X acc Hf HP Hg HrX;
        (destruct fuel as [|f]; [lia|]); cbn [upgrade_loop roots_from].
      - rewrite p2_0 in Hg. pose proof HP as (_ & _ & _ & Hle & _). assert (X = u) as -> by lia.
        pose proof (full_root_none u u ltac:(lia)) as Hn.
        destruct (it_full_root (mkIter (2 * u) u 2) (2 * u)) as [found it1]. cbn [fst] in Hn. subst found.
        cbn [negb map]. rewrite app_nil_r. reflexivity.
      - destruct (N.leb_spec u X) as [L|L].
        + pose proof HP as (_ & _ & _ & Hle & _). assert (X = u) as -> by lia.
          pose proof (full_root_none u u ltac:(lia)) as Hn.
          destruct (it_full_root (mkIter (2 * u) u 2) (2 * u)) as [found it1]. cbn [fst] in Hn. subst found.
          cbn [negb map]. rewrite app_nil_r. reflexivity.
        + destruct (pref_step X u HP L) as (m & EX & H1 & H2 & HP' & Ed). cbv zeta in *.
          pose proof EX as EX2. pose proof H2 as H22. rewrite p2_S in EX2, H22.
          set (k := log2n (u - X)) in *. pose proof (p2_pos k) as Hpk.
          assert (Hk : p2 k <= p2 g).
          { apply p2_le_mono. assert (k < S g)%nat by (apply p2_lt_mono; lia). lia. }
          rewrite (full_root_at u X k m EX H1 H2). cbn [negb].
          rewrite it_at_right_end.
          destruct (N.ltb_spec (2 * ((2 * m + 1) * p2 k) - 1) (2 * r)) as [Lt|Lt]; [lia|].
          cbn [andb]. rewrite (nosub_false with_sub p sub (2 * u) k (2 * m) Hns) by lia.
          unfold it_at at 1. cbn [it_index].
          rewrite (Hlook k (2 * m)) by lia. cbn [bind]. rewrite next_tree_at.
          replace ((2 * m + 1) * p2 k) with (X + p2 k) by lia.
          rewrite (IH f (X + p2 k) (acc ++ [ref_node cr bs k (2 * m)])); [|lia|exact HP'|lia|lia].
          rewrite Ed. cbn [map]. rewrite <- app_assoc. reflexivity.
    Qed.

    Lemma upgrade_loop_spec r u p :
      0 < r -> r < u -> u <= w -> nosub with_sub p sub (2 * u) ->
      forall g fuel X acc,
      (g < fuel)%nat -> (g < CLIMB)%nat -> pref X u -> u - X < p2 g -> X <= r ->
      upgrade_loop fuel t tf (mkIter (2 * X) X 2) (2 * r) (2 * u) ix is_seek sub with_sub false p acc
      = Ok (p, acc ++ map (rn cr bs) (upg_idx g X r u), true).
    Proof.
      intros Hr Hru Huw Hns. induction g as [|g IH]; intros fuel X acc Hf Hgc HP Hg HXr.
      { rewrite p2_0 in Hg. lia. }
      destruct fuel as [|f]; [lia|].
      assert (L : X < u) by lia.
      destruct (pref_step X u HP L) as (m & EX & H1 & H2 & HP' & Ed). cbv zeta in *.
      pose proof EX as EX2. pose proof H2 as H22. rewrite p2_S in EX2, H22.
      cbn [upgrade_loop upg_idx]. destruct (N.leb_spec u X) as [L'|_]; [lia|]. cbv zeta.
      set (k := log2n (u - X)) in *. pose proof (p2_pos k) as Hpk.
      assert (Hkg : (k <= g)%nat).
      { assert (k < S g)%nat by (apply p2_lt_mono; lia). lia. }
      assert (Hk : p2 k <= p2 g) by (apply p2_le_mono; exact Hkg).
      rewrite (full_root_at u X k m EX H1 H2). cbn [negb].
      rewrite it_at_right_end.
      destruct (N.leb_spec (X + p2 k) r) as [Lm|Lm].
      - (* entirely below the replica's length: skipped *)
        destruct (N.ltb_spec (2 * ((2 * m + 1) * p2 k) - 1) (2 * r)) as [Lt|Lt]; [|lia].
        rewrite next_tree_at. replace ((2 * m + 1) * p2 k) with (X + p2 k) by lia.
        apply IH; [lia|lia|exact HP'|lia|exact Lm].
      - destruct (N.ltb_spec (2 * ((2 * m + 1) * p2 k) - 1) (2 * r)) as [Lt|Lt]; [lia|].
        cbn [negb andb].
        pose proof (it_contains_spec (it_at (N.of_nat k) (2 * m)) (2 * r - 2) (wf_at _ _)) as Hc.
        pose proof (lo_at (N.of_nat k) (2 * m)) as Hlo. pose proof (hi_at (N.of_nat k) (2 * m)) as Hhi.
        fold (p2 k) in Hlo, Hhi.
        destruct (N.ltb_spec X r) as [Lr|Lr].
        + (* the replica ends inside this root: connect *)
          destruct (it_contains (it_at (N.of_nat k) (2 * m)) (2 * r - 2)) eqn:Ec.
          2:{ exfalso. assert (Hft : false = true) by (apply Hc; lia). discriminate Hft. }
          replace (2 * r - 2) with (2 * (r - 1)) by lia. rewrite it_new_even.
          change (it_at 0 (r - 1)) with (it_at (N.of_nat 0) (r - 1)).
          change (it_index (it_at (N.of_nat k) (2 * m))) with (ft_index (N.of_nat (0 + k)) (2 * m)).
          rewrite (connect_spec p (2 * u) Hns k 0 (r - 1) CLIMB acc (2 * m) (r - 1));
            [|lia|lia|lia|cbn [Nat.add]; lia|cbn [Nat.add]; lia|rewrite p2_0; lia|rewrite p2_0; lia].
          cbn [bind]. rewrite next_tree_at. replace ((2 * m + 1) * p2 k) with (X + p2 k) by lia.
          rewrite (upgrade_loop_rest r u p Huw Hns g f (X + p2 k)); [|lia|exact HP'|lia|lia].
          rewrite map_app, app_assoc. reflexivity.
        + (* the replica ends exactly where this root starts *)
          assert (EXr : X = r) by lia.
          destruct (it_contains (it_at (N.of_nat k) (2 * m)) (2 * r - 2)) eqn:Ec.
          { exfalso. destruct Hc as [Hc _]. specialize (Hc eq_refl). lia. }
          rewrite (nosub_false with_sub p sub (2 * u) k (2 * m) Hns) by lia.
          unfold it_at at 1. cbn [it_index].
          rewrite (Hlook k (2 * m)) by lia. cbn [bind]. rewrite next_tree_at.
          replace ((2 * m + 1) * p2 k) with (X + p2 k) by lia.
          rewrite (upgrade_loop_rest r u p Huw Hns g f (X + p2 k)); [|lia|exact HP'|lia|lia].
          cbn [roots_from]. destruct (N.leb_spec u X) as [L'|_]; [lia|]. cbv zeta. fold k.
          rewrite Ed. cbn [map]. rewrite <- app_assoc. reflexivity.
    Qed.
  End Prover.

  (* ---------- class A (and the prover half of B): upgrade-only requests ---------- *)


  (* the writer creates the proof: upgrade from r to u <= w, then the additional nodes up to w *)
  Theorem upgrade_only_created t tf w r u sg :
    lookups cr t tf bs w -> t_length t = w -> t_signature t = Some sg ->
    0 < r -> r < u -> u <= w -> 2 * w <= u64_max ->
    create_valueless_proof t tf None None None (Some (mkReqUpgrade r (u - r)))
    = Ok (mkVproof (t_fork t) None None None
            (Some (mkDataUpgrade r (u - r) (upg_nodes cr bs r u) (if u <? w then upg_nodes cr bs u w else []) sg))).
  Proof.
    intros Hlook Hl Hsg Hr Hru Huw H64.
    unfold create_valueless_proof, normalize_indexed. cbn [ru_start ru_length bind].
    unfold u64_max in H64.
    rewrite !NoPanic.mul64_ok by (unfold u64_max; lia). cbn [bind].
    rewrite NoPanic.add64_ok by (unfold u64_max; lia). cbn [bind].
    replace (r * 2 + (u - r) * 2) with (2 * u) by lia. rewrite (N.mul_comm r 2), Hl.
    destruct (N.leb_spec (2 * u) (2 * r)) as [L1|_]; [lia|].
    destruct (N.ltb_spec (2 * w) (2 * u)) as [L2|_]; [lia|]. cbn [orb negb bind].
    (* the upgrade nodes *)
    assert (Hup : upgrade_proof t tf None false (2 * r) (2 * u) (2 * w) lp_empty
                  = Ok (mkLp None None (Some (upg_nodes cr bs r u)) None)).
    { unfold upgrade_proof. destruct (N.eqb_spec (2 * r) 0) as [E|_]; [lia|].
      change (it_new 0) with (mkIter (2 * 0) 0 2).
      assert (Hns : nosub true lp_empty (2 * w) (2 * u)) by (right; right; right; lia).
      rewrite (upgrade_loop_spec t tf w Hlook None false (2 * w) true r u lp_empty Hr Hru Huw Hns g64 CLIMB 0 []);
        [|apply climb_64|apply climb_64|apply pref_0|rewrite p2_64; lia|lia].
      cbn [bind app lp_seek lp_nodes lp_additional lp_empty]. reflexivity. }
    rewrite Hup. cbn [bind].
    destruct (N.ltb_spec u w) as [Lw|Lw].
    - destruct (N.ltb_spec (2 * u) (2 * w)) as [_|L3]; [|lia].
      assert (Had : additional_upgrade_proof t tf (2 * u) (2 * w) (mkLp None None (Some (upg_nodes cr bs r u)) None)
                    = Ok (mkLp None None (Some (upg_nodes cr bs r u)) (Some (upg_nodes cr bs u w)))).
      { unfold additional_upgrade_proof. destruct (N.eqb_spec (2 * u) 0) as [E|_]; [lia|].
        change (it_new 0) with (mkIter (2 * 0) 0 2).
        assert (Hns : nosub false (mkLp None None (Some (upg_nodes cr bs r u)) None) 0 (2 * w)) by (left; reflexivity).
        rewrite (upgrade_loop_spec t tf w Hlook None false 0 false u w
                   (mkLp None None (Some (upg_nodes cr bs r u)) None) ltac:(lia) Lw (N.le_refl w) Hns g64 CLIMB 0 []);
          [|apply climb_64|apply climb_64|apply pref_0|rewrite p2_64; lia|lia].
        cbn [bind app lp_seek lp_nodes lp_upgrade]. reflexivity. }
      rewrite Had. cbn [bind lp_nodes lp_seek lp_upgrade lp_additional]. rewrite Hsg. reflexivity.
    - destruct (N.ltb_spec (2 * u) (2 * w)) as [L3|_]; [lia|].
      cbn [bind lp_nodes lp_seek lp_upgrade lp_additional]. rewrite Hsg. reflexivity.
  Qed.

  (* the verifier's upgrade section, no additional nodes: from a changeset that covers r blocks *)
  Lemma vinv_roots c L : vinv c L -> cs_roots c = ref_roots cr bs L.
  Proof.
    intros (_ & V & _). rewrite <- (rev_involutive (cs_roots c)), V, <- (rev_ref_roots cr bs L).
    apply rev_involutive.
  Qed.

  Lemma verify_upgrade_ok c r u fork nodes sg pk broot q1 :
    0 < r -> r < u -> 2 * u <= u64_max -> vinv c r ->
    serves (mkQ nodes broot) (upg_nodes cr bs r u) q1 ->
    length sg = 64%nat ->
    cr_verify cr pk (signable (tree_hash cr (ref_roots cr bs u)) u fork) sg = true ->
    exists c1,
      verify_upgrade cr fork (mkDataUpgrade r (u - r) nodes [] sg) broot pk c
        = Ok (match q_extra q1 with None => true | Some _ => false end,
              cs_set_hash_sig (cs_set_fork c1 fork) (tree_hash cr (ref_roots cr bs u)) sg) /\
      vinv c1 u /\ cs_grown c c1 /\ cs_upgraded c1 = true.
  Proof.
    intros Hr Hru H64 V Hs Hsg Hver.
    pose proof (vinv_roots c r V) as Hroots.
    assert (Hroots' : cs_roots c = [] ++ map (rn cr bs) (roots_from g64 0 r)).
    { rewrite Hroots, ref_roots_rrl. cbn [app]. f_equal. apply roots_from_0. rewrite p2_64.
      unfold u64_max in H64. lia. }
    destruct (url_main r u c Hr Hru V g64 CLIMB 0 (mkQ nodes broot) q1 [])
      as (c1 & it1 & Hrun & V1 & G1 & U1);
      [apply climb_64|apply climb_64|apply pref_0|rewrite p2_64; unfold u64_max in H64; lia|lia|exact Hroots'|exact Hs|].
    exists c1. split; [|auto].
    unfold verify_upgrade. cbn [du_nodes du_start du_length du_additional du_signature].
    rewrite NoPanic.add64_ok by lia. cbn [bind]. replace (r + (u - r)) with u by lia.
    rewrite NoPanic.mul64_ok by lia. cbn [bind].
    assert (Eg : match cs_roots c with [] => false | _ :: _ => true end = true).
    { destruct V as (_ & V & _). destruct (cs_roots c) as [|x l]; [|reflexivity].
      cbn [rev] in V. symmetry in V. apply map_eq_nil in V. exfalso. apply (rrl_nonempty 0 r Hr V). }
    rewrite Eg. change (it_new 0) with (mkIter (2 * 0) 0 2). cbn [length] in Hrun. rewrite Hrun. cbn [bind].
    assert (El : exists li, last_root_index c1 = Ok li).
    { unfold last_root_index. destruct V1 as (_ & V1 & _). rewrite V1.
      destruct (rrl 0 u) as [|x l] eqn:E; [exfalso; apply (rrl_nonempty 0 u ltac:(lia) E)|].
      cbn [map]. eauto. }
    destruct El as (li & ->). cbn [bind extra_siblings extra_rest].
    unfold cs_verify_and_set_signature, parse_signature. rewrite Hsg. cbn [Nat.eqb bind].
    change (Nat.eqb 64 64) with true. cbn [bind].
    unfold cs_signable, cs_tree_hash. cbn [cs_set_fork cs_length cs_fork cs_roots].
    rewrite (vinv_roots c1 u V1). destruct V1 as (-> & _ & _). rewrite Hver. reflexivity.
  Qed.

  Lemma vinv_tree_changeset rt r :
    t_roots rt = ref_roots cr bs r -> t_length rt = r -> t_byte_length rt = prefix_size bs r ->
    vinv (tree_changeset rt) r.
  Proof.
    intros H1 H2 H3. unfold vinv, tree_changeset. cbn [cs_length cs_roots cs_byte_length].
    rewrite H1, rev_ref_roots. auto.
  Qed.

  Lemma cs_nodes_grown c c' :
    cs_grown c c' -> Forall (is_ref cr bs) (cs_nodes c) -> Forall (is_ref cr bs) (cs_nodes c').
  Proof.
    intros (_ & _ & _ & _ & _ & _ & _ & new & E & Hn & _) H. unfold cs_nodes in *.
    rewrite rev_append_rev, app_nil_r in *. rewrite E, rev_app_distr. apply Forall_app. split; [exact H|].
    apply Forall_rev. exact Hn.
  Qed.

  (* Class A.  Writer of length w whose lookups return the reference tree over bs; replica of length
     0 < r < w carrying the writer's roots for r; upgrade request {start = r, length = w - r}. *)
  Theorem upgrade_nonempty_accepted t tf rt rtf w r sg pk :
    lookups cr t tf bs w -> t_length t = w -> t_signature t = Some sg ->
    t_roots rt = ref_roots cr bs r -> t_length rt = r -> t_byte_length rt = prefix_size bs r ->
    0 < r -> r < w -> 2 * w <= u64_max ->
    length sg = 64%nat ->
    cr_verify cr pk (signable (tree_hash cr (ref_roots cr bs w)) w (t_fork t)) sg = true ->
    exists cs,
      create_valueless_proof t tf None None None (Some (mkReqUpgrade r (w - r)))
        = Ok (mkVproof (t_fork t) None None None (Some (mkDataUpgrade r (w - r) (upg_nodes cr bs r w) [] sg))) /\
      verify_proof cr rt rtf
        (mkProof (t_fork t) None None None (Some (mkDataUpgrade r (w - r) (upg_nodes cr bs r w) [] sg))) pk = Ok cs /\
      cs_roots cs = ref_roots cr bs w /\ cs_length cs = w /\ cs_byte_length cs = prefix_size bs w /\
      cs_fork cs = t_fork t /\ cs_upgraded cs = true /\ cs_signature cs = Some sg /\
      cs_hash cs = Some (tree_hash cr (ref_roots cr bs w)) /\ cs_ancestors cs = r /\
      Forall (is_ref cr bs) (cs_nodes cs) /\ commitable rt cs = true /\
      tree_commit rt cs = Ok (mkTree (ref_roots cr bs w) w (prefix_size bs w) (t_fork t) (Some sg)
                                (add_nodes (t_unflushed rt) (cs_nodes cs))).
  Proof.
    intros Hlook Hl Hsg Hroots Hrl Hrb Hr Hrw H64 Hs64 Hver.
    pose proof (upgrade_only_created t tf w r w sg Hlook Hl Hsg Hr Hrw (N.le_refl w) H64) as Hc.
    destruct (N.ltb_spec w w) as [L|_]; [lia|].
    pose proof (vinv_tree_changeset rt r Hroots Hrl Hrb) as V.
    destruct (verify_upgrade_ok (tree_changeset rt) r w (t_fork t) (upg_nodes cr bs r w) sg pk None (mkQ [] None)
                Hr Hrw H64 V) as (c1 & Hvu & V1 & G1 & U1); [|exact Hs64|exact Hver|].
    { apply serves_plain. intros x [=]. }
    cbn [q_extra] in Hvu.
    exists (cs_set_hash_sig (cs_set_fork c1 (t_fork t)) (tree_hash cr (ref_roots cr bs w)) sg).
    split; [exact Hc|]. split.
    { unfold verify_proof. cbn [p_block p_hash p_seek p_upgrade p_fork verify_tree bind].
      rewrite Hvu. cbn [bind]. reflexivity. }
    pose proof (vinv_roots c1 w V1) as R1. destruct V1 as (L1 & _ & B1).
    pose proof G1 as (A1 & _ & _ & _ & _ & O1 & O2 & _).
    cbn [tree_changeset cs_ancestors cs_orig_length cs_orig_fork] in A1, O1, O2.
    cbn [cs_set_hash_sig cs_set_fork cs_roots cs_length cs_byte_length cs_fork cs_upgraded cs_signature
         cs_hash cs_ancestors].
    assert (Hn : Forall (is_ref cr bs) (cs_nodes c1)).
    { apply (cs_nodes_grown (tree_changeset rt) c1 G1). constructor. }
    assert (Hcm : commitable rt (cs_set_hash_sig (cs_set_fork c1 (t_fork t)) (tree_hash cr (ref_roots cr bs w)) sg) = true).
    { unfold commitable. cbn [cs_set_hash_sig cs_set_fork cs_orig_fork cs_orig_length cs_upgraded].
      rewrite O1, O2, U1, !N.eqb_refl. reflexivity. }
    repeat (split; [first [assumption|reflexivity|congruence]|]).
    unfold tree_commit. rewrite Hcm. cbn [negb cs_set_hash_sig cs_set_fork cs_upgraded cs_ancestors cs_orig_length
      cs_roots cs_length cs_byte_length cs_fork cs_signature].
    rewrite U1, A1, O1, Hrl. destruct (N.ltb_spec r r) as [L|_]; [lia|].
    rewrite R1, L1, B1. reflexivity.
  Qed.
End RefUpgrade.

(* ---------- class A on the toy instance of Replicate.v ---------- *)

(* a replica holding the first three blocks: an empty replica that applied the upgrade-only proof
   of the writer at length 3 *)
Definition ex_w3 : mtree :=
  match (cs <- cs_append_all ex_cr (tree_changeset empty_tree) (firstn 3 ex_blocks) ;;
         tree_commit empty_tree (cs_hash_and_sign ex_cr cs ex_key)) with Ok t => t | _ => empty_tree end.
Definition ex_r3 : mtree :=
  match (vp <- create_valueless_proof ex_w3 file_empty None None None (Some (mkReqUpgrade 0 3)) ;;
         cs <- verify_proof ex_cr empty_tree file_empty (vp_to_proof vp None) ex_key ;;
         tree_commit empty_tree cs) with Ok t => t | _ => empty_tree end.

Lemma ex_lookups5 : lookups ex_cr ex_wt file_empty ex_blocks 5.
Proof.
  intros d o H.
  destruct d as [|[|[|d]]].
  - rewrite p2_0 in H. assert (C : o = 0 \/ o = 1 \/ o = 2 \/ o = 3 \/ o = 4) by lia.
    destruct C as [->|[->|[->|[->| ->]]]]; vm_compute; reflexivity.
  - rewrite p2_S, p2_0 in H. assert (C : o = 0 \/ o = 1) by lia.
    destruct C as [->| ->]; vm_compute; reflexivity.
  - rewrite !p2_S, p2_0 in H. assert (o = 0) as -> by lia. vm_compute. reflexivity.
  - exfalso. rewrite !p2_S in H. pose proof (p2_pos d). lia.
Qed.

Example ex_upgrade_nonempty_applies :
  t_length ex_r3 = 3 /\ map n_index (t_roots ex_r3) = [1; 4] /\
  exists cs,
    create_valueless_proof ex_wt file_empty None None None (Some (mkReqUpgrade 3 (5 - 3)))
      = Ok (mkVproof (t_fork ex_wt) None None None
              (Some (mkDataUpgrade 3 (5 - 3) (upg_nodes ex_cr ex_blocks 3 5) []
                       (match t_signature ex_wt with Some s => s | None => [] end)))) /\
    map n_index (upg_nodes ex_cr ex_blocks 3 5) = [6; 8] /\
    verify_proof ex_cr ex_r3 file_empty
      (mkProof (t_fork ex_wt) None None None
         (Some (mkDataUpgrade 3 (5 - 3) (upg_nodes ex_cr ex_blocks 3 5) []
                  (match t_signature ex_wt with Some s => s | None => [] end)))) ex_key = Ok cs /\
    cs_roots cs = ref_roots ex_cr ex_blocks 5 /\ cs_length cs = 5 /\ commitable ex_r3 cs = true.
Proof.
  split; [vm_compute; reflexivity|]. split; [vm_compute; reflexivity|].
  destruct (upgrade_nonempty_accepted ex_cr ex_blocks ltac:(vm_compute; discriminate)
              ex_wt file_empty ex_r3 file_empty 5 3
              (match t_signature ex_wt with Some s => s | None => [] end) ex_key)
    as (cs & Hc & Hv & R & L & _ & _ & _ & _ & _ & _ & _ & Hcm & _).
  - exact ex_lookups5.
  - vm_compute. reflexivity.
  - vm_compute. reflexivity.
  - vm_compute. reflexivity.
  - vm_compute. reflexivity.
  - vm_compute. reflexivity.
  - lia.
  - lia.
  - vm_compute. discriminate.
  - vm_compute. reflexivity.
  - vm_compute. reflexivity.
  - exists cs. split; [exact Hc|]. split; [vm_compute; reflexivity|]. auto.
Qed.

(* ====================================================================================== *)
(* 6. the upgrade nodes tile [r, u)                                                         *)
(* ====================================================================================== *)

Lemma tiles_conn : forall n d a xo,
  xo * p2 n <= a -> a < (xo + 1) * p2 n ->
  tiles (conn_idx n d a) ((a + 1) * p2 d) ((xo + 1) * p2 (d + n)).
Proof.
  induction n as [|n IH]; intros d a xo H1 H2; cbn [conn_idx].
  - rewrite p2_0 in *. rewrite Nat.add_0_r. cbn [tiles]. assert (a = xo) by lia. subst. reflexivity.
  - rewrite p2_S in H1, H2. replace (d + S n)%nat with (S d + n)%nat by lia.
    destruct (N.even a) eqn:Ea; rewrite FlatTreeFacts.even_mod in Ea; cbn [app tiles fst snd].
    + split; [reflexivity|].
      replace ((a + 1 + 1) * p2 d) with ((a / 2 + 1) * p2 (S d))
        by (rewrite p2_S; replace (a + 1 + 1) with (2 * (a / 2 + 1)) by lia; lia).
      apply IH; lia.
    + replace ((a + 1) * p2 d) with ((a / 2 + 1) * p2 (S d))
        by (rewrite p2_S; replace (a + 1) with (2 * (a / 2 + 1)) by lia; lia).
      apply IH; lia.
Qed.

Lemma tiles_roots_from g : forall X u, pref X u -> u - X < p2 g -> tiles (roots_from g X u) X u.
Proof.
  induction g as [|g IH]; intros X u HP Hg; cbn [roots_from].
  - rewrite p2_0 in Hg. destruct HP as (_ & _ & _ & Hle & _). cbn [tiles]. lia.
  - destruct (N.leb_spec u X) as [L|L].
    + destruct HP as (_ & _ & _ & Hle & _). cbn [tiles]. lia.
    + destruct (pref_step X u HP L) as (m & EX & H1 & H2 & HP' & Ed). cbv zeta in *.
      pose proof EX as EX2. pose proof H2 as H22. rewrite p2_S in EX2, H22.
      set (k := log2n (u - X)) in *.
      assert (Hk : p2 k <= p2 g).
      { apply p2_le_mono. assert (k < S g)%nat by (apply p2_lt_mono; lia). lia. }
      cbn [tiles fst snd]. rewrite Ed. split; [lia|].
      replace ((2 * m + 1) * p2 k) with (X + p2 k) by lia. apply IH; [exact HP'|lia].
Qed.

Lemma tiles_upg r u : 0 < r -> r < u ->
  forall g X, pref X u -> u - X < p2 g -> X <= r -> tiles (upg_idx g X r u) r u.
Proof.
  intros Hr Hru. induction g as [|g IH]; intros X HP Hg HXr.
  { rewrite p2_0 in Hg. lia. }
  assert (L : X < u) by lia.
  destruct (pref_step X u HP L) as (m & EX & H1 & H2 & HP' & Ed). cbv zeta in *.
  pose proof EX as EX2. pose proof H2 as H22. rewrite p2_S in EX2, H22.
  cbn [upg_idx]. destruct (N.leb_spec u X) as [L'|_]; [lia|]. cbv zeta.
  set (k := log2n (u - X)) in *. pose proof (p2_pos k) as Hpk.
  assert (Hk : p2 k <= p2 g).
  { apply p2_le_mono. assert (k < S g)%nat by (apply p2_lt_mono; lia). lia. }
  destruct (N.leb_spec (X + p2 k) r) as [Lm|Lm].
  - apply IH; [exact HP'|lia|exact Lm].
  - destruct (N.ltb_spec X r) as [Lr|Lr].
    + apply (tiles_app _ _ _ (X + p2 k)).
      * pose proof (tiles_conn k 0 (r - 1) (2 * m)) as T. cbn [Nat.add] in T. rewrite p2_0 in T.
        replace ((r - 1 + 1) * 1) with r in T by lia.
        replace ((2 * m + 1) * p2 k) with (X + p2 k) in T by lia. apply T; lia.
      * apply tiles_roots_from; [exact HP'|lia].
    + assert (EXr : X = r) by lia. rewrite <- EXr at 1. apply tiles_roots_from; assumption.
Qed.

Lemma idx_ge (x : nat * N) : 2 * (snd x * p2 (fst x)) <= idx x.
Proof.
  unfold idx. pose proof (ft_index_succ (N.of_nat (fst x)) (snd x)) as Hix. fold (p2 (fst x)) in Hix.
  pose proof (p2_pos (fst x)). lia.
Qed.

(* leaf i is below the node (d, o) *)
Definition covers (x : nat * N) (i : N) : bool := (snd x * p2 (fst x) <=? i) && (i <? (snd x + 1) * p2 (fst x)).

Lemma it_contains_covers d o i : it_contains (it_at (N.of_nat d) o) (2 * i) = covers (d, o) i.
Proof.
  unfold covers. cbn [fst snd].
  pose proof (it_contains_spec (it_at (N.of_nat d) o) (2 * i) (wf_at _ _)) as Hc.
  pose proof (lo_at (N.of_nat d) o) as Hlo. pose proof (hi_at (N.of_nat d) o) as Hhi. fold (p2 d) in Hlo, Hhi.
  destruct (it_contains (it_at (N.of_nat d) o) (2 * i)).
  - destruct Hc as [Hc _]. specialize (Hc eq_refl). symmetry. apply andb_true_iff. lia.
  - symmetry. apply andb_false_iff.
    destruct (N.leb_spec (o * p2 d) i) as [L1|L1]; [|left; reflexivity].
    destruct (N.ltb_spec i ((o + 1) * p2 d)) as [L2|L2]; [|right; reflexivity].
    assert (Hft : false = true) by (apply Hc; lia). discriminate Hft.
Qed.

(* siblings met when climbing n levels from (d, a) *)
Definition sibo (a : N) : N := if N.even a then a + 1 else a - 1.
Fixpoint path_idx (n d : nat) (a : N) : list (nat * N) :=
  match n with
  | O => []
  | S n' => (d, sibo a) :: path_idx n' (S d) (a / 2)
  end.

Lemma it_sibling_sibo d a : it_sibling (it_at (N.of_nat d) a) = it_at (N.of_nat d) (sibo a).
Proof.
  unfold sibo. destruct (N.even a) eqn:E.
  - apply it_sibling_at_even, E.
  - apply it_sibling_at_odd. rewrite <- N.negb_even, E. reflexivity.
Qed.

Lemma sibo_half a : sibo a / 2 = a / 2.
Proof. unfold sibo. destruct (N.even a) eqn:E; rewrite FlatTreeFacts.even_mod in E; lia. Qed.

(* ====================================================================================== *)
(* 7. block sections in (depth, offset) coordinates                                         *)
(* ====================================================================================== *)

Lemma it_new_leaf2 x : it_new (2 * x) = it_at 0 x.
Proof.
  unfold it_new. replace (N.odd (2 * x)) with false by (rewrite FlatTreeFacts.odd_mod; lia).
  replace (2 * x / 2) with x by lia. apply it_at_leaf.
Qed.

Section RefBlock.
  Variable cr : crypto.
  Variable bs : list bytes.
  Hypothesis total_fits : sumN (map len bs) <= u64_max.

  Definition path_nodes (n : nat) (i : N) : list node := map (rn cr bs) (path_idx n 0 i).

  Lemma sibo_bound a xo P : xo * (2 * P) <= a -> a < (xo + 1) * (2 * P) -> sibo a + 1 <= (xo + 1) * (2 * P).
  Proof.
    intros H1 H2. unfold sibo. destruct (N.even a) eqn:E; rewrite FlatTreeFacts.even_mod in E; lia.
  Qed.

  (* ---------- the prover ---------- *)
  Section BlockProver.
    Variable t : mtree.
    Variable tf : file.
    Variable w : N.
    Hypothesis Hlook : lookups cr t tf bs w.

    Lemma block_loop_spec sr p : forall n d a fuel acc xo,
      (n < fuel)%nat -> xo * p2 n <= a -> a < (xo + 1) * p2 n -> (xo + 1) * p2 (d + n) <= w ->
      block_proof_loop fuel t tf (it_at (N.of_nat d) a) (ft_index (N.of_nat (d + n)) xo) false sr p acc
      = Ok (p, rev acc ++ map (rn cr bs) (path_idx n d a)).
    Proof.
      induction n as [|n IH]; intros d a fuel acc xo Hf H1 H2 Hw;
        (destruct fuel as [|f]; [lia|]); cbn [block_proof_loop path_idx andb].
      - rewrite p2_0 in *. assert (a = xo) as -> by lia. rewrite Nat.add_0_r.
        unfold it_at at 1. cbn [it_index]. rewrite N.eqb_refl. cbn [map]. rewrite app_nil_r. reflexivity.
      - destruct (N.eqb_spec (it_index (it_at (N.of_nat d) a)) (ft_index (N.of_nat (d + S n)) xo)) as [Ei|Ei].
        { unfold it_at in Ei. cbn [it_index] in Ei. apply ft_index_inj in Ei. lia. }
        rewrite p2_S in H1, H2. pose proof (p2_pos d) as Hpd.
        assert (Ew : p2 (d + S n) = 2 * p2 n * p2 d) by (rewrite p2_add, p2_S; lia).
        replace (d + S n)%nat with (S d + n)%nat in * by lia.
        rewrite it_sibling_sibo. unfold it_at at 1. cbn [it_index].
        pose proof (sibo_bound a xo (p2 n) H1 H2) as Hsb.
        assert (Hsub : (sibo a + 1) * p2 d <= (xo + 1) * p2 (S d + n)).
        { rewrite Ew. apply (N.mul_le_mono_r _ _ (p2 d)) in Hsb. lia. }
        rewrite (Hlook d (sibo a)) by lia. cbn [bind].
        rewrite it_parent_at, sibo_half, it_at_nat_S.
        rewrite (IH (S d) (a / 2) f (ref_node cr bs d (sibo a) :: acc) xo); try lia.
        cbn [rev map]. rewrite <- app_assoc. reflexivity.
    Qed.

    (* the block section of a proof for the block i, up to the node (d, o) above it *)
    Lemma block_and_seek_value i nodes last sr d o p :
      o * p2 d <= i -> i < (o + 1) * p2 d -> (o + 1) * p2 d <= w -> (d < CLIMB)%nat ->
      block_and_seek_proof t tf (Some (mkIndexed true (2 * i) nodes last)) false sr (ft_index (N.of_nat d) o) p
      = Ok (mkLp (lp_seek p) (Some (path_nodes d i)) (lp_upgrade p) (lp_additional p)).
    Proof.
      intros H1 H2 Hw Hd. unfold block_and_seek_proof. cbn [ix_index ix_value].
      rewrite FlatTreeFacts.it_new_index, it_contains_covers.
      unfold covers. cbn [fst snd].
      destruct (N.leb_spec (o * p2 d) i) as [_|L]; [|lia].
      destruct (N.ltb_spec i ((o + 1) * p2 d)) as [_|L]; [|lia]. cbn [andb negb bind].
      rewrite it_new_leaf2. change 0 with (N.of_nat 0).
      change (N.of_nat d) with (N.of_nat (0 + d)).
      rewrite (block_loop_spec sr p d 0 i CLIMB [] o Hd H1 H2); [|cbn [Nat.add]; exact Hw].
      cbn [bind rev app]. reflexivity.
    Qed.
  End BlockProver.

  (* ---------- the verifier ---------- *)

  Lemma ref_parent d a :
    mkNode (ft_index (N.of_nat (S d)) (a / 2))
           (n_length (ref_node cr bs d a) + n_length (ref_node cr bs d (sibo a)))
           (parent_hash cr (ref_node cr bs d a) (ref_node cr bs d (sibo a)))
    = ref_node cr bs (S d) (a / 2).
  Proof.
    cbn [ref_node]. unfold parent_node, sibo.
    destruct (N.even a) eqn:E; rewrite FlatTreeFacts.even_mod in E.
    - replace (2 * (a / 2)) with a by lia. replace (a + 1) with (a + 1) by lia.
      replace (2 * (a / 2) + 1) with (a + 1) by lia. reflexivity.
    - replace (2 * (a / 2) + 1) with a by lia. replace (2 * (a / 2)) with (a - 1) by lia.
      cbn [n_length]. f_equal; [lia|].
      apply parent_hash_comm. rewrite !ref_node_index.
      pose proof (ft_index_lt_offset (N.of_nat d) (a - 1) a). lia.
  Qed.

  Lemma q_length_pos n l e : q_length (mkQ (n :: l) e) =? 0 = false.
  Proof. unfold q_length. cbn [q_nodes length]. lia. Qed.

  (* the climb over the reference siblings recomputes the reference node *)
  Lemma climb_ref_spec : forall n d a fuel acc xo,
    (n < fuel)%nat -> xo * p2 n <= a -> a < (xo + 1) * p2 n ->
    exists vis,
      climb cr fuel (mkQ (map (rn cr bs) (path_idx n d a)) None) (it_at (N.of_nat d) a) (ref_node cr bs d a) acc
      = Ok (ref_node cr bs (d + n) xo, acc ++ vis) /\
      Forall (is_ref cr bs) vis /\ (forall x, In x (path_idx n d a) -> In (rn cr bs x) vis).
  Proof.
    induction n as [|n IH]; intros d a fuel acc xo Hf H1 H2;
      (destruct fuel as [|f]; [lia|]); rewrite climb_S; cbn [path_idx map].
    - rewrite p2_0 in *. assert (a = xo) as -> by lia. rewrite Nat.add_0_r.
      exists []. rewrite app_nil_r. split; [reflexivity|]. split; [constructor|intros x []].
    - rewrite q_length_pos. cbv zeta. rewrite it_sibling_sibo.
      unfold q_shift. cbn [q_extra q_nodes]. unfold rn at 1 2. cbn [fst snd].
      rewrite ref_node_index. unfold it_at at 1. cbn [it_index]. rewrite N.eqb_refl. cbn [bind].
      rewrite it_parent_at, sibo_half, it_at_nat_S.
      pose proof (ref_parent d a) as Hp.
      assert (F : n_length (ref_node cr bs d a) + n_length (ref_node cr bs d (sibo a)) <= u64_max).
      { pose proof (ref_node_fits cr bs total_fits (S d) (a / 2)) as F. rewrite <- Hp in F.
        cbn [n_length] in F. unfold fits_u64 in F. lia. }
      rewrite NoPanic.add64_ok by exact F. cbn [bind].
      change (it_index (it_at (N.of_nat (S d)) (a / 2))) with (ft_index (N.of_nat (S d)) (a / 2)). rewrite Hp.
      rewrite p2_S in H1, H2.
      destruct (IH (S d) (a / 2) f (acc ++ [ref_node cr bs d (sibo a); ref_node cr bs (S d) (a / 2)]) xo)
        as (vis & Hc & Hv & Hin); try lia.
      exists ([ref_node cr bs d (sibo a); ref_node cr bs (S d) (a / 2)] ++ vis).
      replace (d + S n)%nat with (S d + n)%nat by lia.
      split; [rewrite Hc, <- app_assoc; reflexivity|]. split.
      + apply Forall_app. split; [|exact Hv]. repeat constructor; apply ref_node_is_ref.
      + intros x [<-|Hx]; [left; reflexivity|]. apply in_or_app. right. apply Hin, Hx.
  Qed.

  (* verify_tree on the block section for block i with the reference siblings up to depth n *)
  Lemma verify_tree_ref i n xo c :
    (n < CLIMB)%nat -> xo * p2 n <= i -> i < (xo + 1) * p2 n -> i * 2 <= u64_max ->
    exists vis,
      verify_tree cr (Some (mkDataBlock i (blk bs i) (path_nodes n i))) None None c
      = Ok (Some (ref_node cr bs n xo), cs_push_nodes c (ref_node cr bs 0 i :: vis)) /\
      Forall (is_ref cr bs) vis /\ (forall x, In x (path_idx n 0 i) -> In (rn cr bs x) vis).
  Proof.
    intros Hn H1 H2 Hi.
    destruct (climb_ref_spec n 0 i (S (S (length (path_nodes n i)))) [ref_node cr bs 0 i] xo) as (vis & Hc & Hv & Hin);
      [|exact H1|exact H2|].
    { unfold path_nodes. rewrite map_length.
      assert (L : forall m d a, length (path_idx m d a) = m) by (induction m; intros; cbn [path_idx length]; auto).
      rewrite L. lia. }
    exists vis. split; [|auto].
    unfold verify_tree. cbn [db_index db_value db_nodes]. rewrite NoPanic.mul64_ok by exact Hi. cbn [bind].
    rewrite Sound.it_index_it_new, (N.mul_comm i 2), it_new_leaf2.
    change (block_node cr (2 * i) (blk bs i)) with (ref_node cr bs 0 i).
    change (it_at 0 i) with (it_at (N.of_nat 0) i). unfold path_nodes in *.
    rewrite Hc. cbn [Nat.add bind app]. reflexivity.
  Qed.

  (* ---------- the prover's upgrade loop when the block lies inside the upgraded range ---------- *)

  Definition pempty (p : local_proof) : bool :=
    match lp_nodes p, lp_seek p with None, None => true | _, _ => false end.

  (* what the loop does with the nodes of the upgrade: the node above block i is replaced by the block
     section (once), every other node is sent *)
  Fixpoint emit_all (i : N) (l : list (nat * N)) (p : local_proof) (acc : list node) : local_proof * list node :=
    match l with
    | [] => (p, acc)
    | x :: l' =>
        if pempty p && covers x i
        then emit_all i l' (mkLp (lp_seek p) (Some (path_nodes (fst x) i)) (lp_upgrade p) (lp_additional p)) acc
        else emit_all i l' p (acc ++ [rn cr bs x])
    end.

  Lemma emit_all_app i l1 : forall l2 p acc,
    emit_all i (l1 ++ l2) p acc = emit_all i l2 (fst (emit_all i l1 p acc)) (snd (emit_all i l1 p acc)).
  Proof.
    induction l1 as [|x l1 IH]; intros l2 p acc; cbn [app emit_all]; [reflexivity|].
    destruct (pempty p && covers x i); apply IH.
  Qed.

  Lemma emit_all_nocover i l : forall p acc,
    (forall x, In x l -> covers x i = false) -> emit_all i l p acc = (p, acc ++ map (rn cr bs) l).
  Proof.
    induction l as [|x l IH]; intros p acc H; cbn [emit_all map].
    - rewrite app_nil_r. reflexivity.
    - rewrite (H x) by (left; reflexivity). rewrite andb_false_r.
      rewrite IH by (intros y Hy; apply H; right; exact Hy). rewrite <- app_assoc. reflexivity.
  Qed.

  Lemma emit_all_nonempty i l : forall p acc,
    pempty p = false -> emit_all i l p acc = (p, acc ++ map (rn cr bs) l).
  Proof.
    induction l as [|x l IH]; intros p acc H; cbn [emit_all map].
    - rewrite app_nil_r. reflexivity.
    - rewrite H. cbn [andb]. rewrite IH by exact H. rewrite <- app_assoc. reflexivity.
  Qed.

  Section EmitProver.
    Variable t : mtree.
    Variable tf : file.
    Variable w : N.
    Hypothesis Hlook : lookups cr t tf bs w.
    Variable i nodes last : N.
    Let ix := Some (mkIndexed true (2 * i) nodes last).

    Lemma covers_inv x : covers x i = true -> snd x * p2 (fst x) <= i /\ i < (snd x + 1) * p2 (fst x).
    Proof. unfold covers. intros H. apply andb_true_iff in H. lia. Qed.

    Lemma connect_emit : forall n d a fuel p acc xo tl,
      (n < fuel)%nat -> (d + n < CLIMB)%nat -> xo * p2 n <= a -> a < (xo + 1) * p2 n ->
      (xo + 1) * p2 (d + n) <= w -> a * p2 d <= tl -> tl < (a + 1) * p2 d ->
      connect_loop fuel t tf (it_at (N.of_nat d) a) (ft_index (N.of_nat (d + n)) xo) (2 * tl)
                   ix false (2 * i) true p acc
      = Ok (emit_all i (conn_idx n d a) p acc).
    Proof.
      induction n as [|n IH]; intros d a fuel p acc xo tl Hf Hc H1 H2 Hw T1 T2;
        (destruct fuel as [|f]; [lia|]); cbn [connect_loop conn_idx].
      - rewrite p2_0 in *. assert (a = xo) as -> by lia. rewrite Nat.add_0_r.
        unfold it_at at 1. cbn [it_index]. rewrite N.eqb_refl. reflexivity.
      - destruct (N.eqb_spec (it_index (it_at (N.of_nat d) a)) (ft_index (N.of_nat (d + S n)) xo)) as [Ei|Ei].
        { unfold it_at in Ei. cbn [it_index] in Ei. apply ft_index_inj in Ei. lia. }
        rewrite p2_S in H1, H2. pose proof (p2_pos d) as Hpd. pose proof (p2_pos n) as Hpn.
        assert (Ew : p2 (d + S n) = 2 * (p2 n * p2 d)) by (rewrite p2_add, p2_S; lia).
        replace (d + S n)%nat with (S d + n)%nat in * by lia.
        pose proof (ft_index_succ (N.of_nat d) (a + 1)) as Hi1. fold (p2 d) in Hi1.
        destruct (N.even a) eqn:Ea.
        + rewrite FlatTreeFacts.even_mod in Ea.
          rewrite it_sibling_at_even by (rewrite FlatTreeFacts.even_mod; lia).
          unfold it_at at 1. cbn [it_index].
          destruct (N.ltb_spec (2 * tl) (ft_index (N.of_nat d) (a + 1))) as [Lt|Lt]; [|lia].
          assert (Ha2 : a + 2 <= (xo + 1) * (2 * p2 n)) by lia.
          assert (Hsub : (a + 1 + 1) * p2 d <= (xo + 1) * p2 (S d + n)).
          { rewrite Ew. replace (a + 1 + 1) with (a + 2) by lia.
            apply (N.mul_le_mono_r _ _ (p2 d)) in Ha2. lia. }
          rewrite it_contains_covers. cbn [andb app emit_all]. fold (pempty p).
          destruct (pempty p && covers (d, a + 1) i) eqn:Eb.
          * apply andb_true_iff in Eb. destruct Eb as [_ Eb]. apply covers_inv in Eb. cbn [fst snd] in Eb.
            unfold it_at at 1. cbn [it_index]. unfold ix.
            rewrite (block_and_seek_value t tf w Hlook i nodes last (2 * i) d (a + 1) p); try lia.
            cbn [bind]. rewrite it_parent_at. replace ((a + 1) / 2) with (a / 2) by lia. rewrite it_at_nat_S.
            apply IH; try lia.
            -- rewrite p2_S. replace a with (2 * (a / 2)) in T1 by lia. lia.
            -- rewrite p2_S. replace a with (2 * (a / 2)) in T2 by lia. lia.
          * unfold it_at at 1. cbn [it_index].
            rewrite (Hlook d (a + 1)) by lia. cbn [bind].
            rewrite it_parent_at. replace ((a + 1) / 2) with (a / 2) by lia. rewrite it_at_nat_S.
            apply IH; try lia.
            -- rewrite p2_S. replace a with (2 * (a / 2)) in T1 by lia. lia.
            -- rewrite p2_S. replace a with (2 * (a / 2)) in T2 by lia. lia.
        + assert (Eo : a mod 2 = 1) by (rewrite FlatTreeFacts.even_mod in Ea; lia).
          rewrite it_sibling_at_odd by (rewrite FlatTreeFacts.odd_mod; lia).
          pose proof (ft_index_succ (N.of_nat d) (a - 1)) as Hi2. fold (p2 d) in Hi2.
          unfold it_at at 1. cbn [it_index].
          destruct (N.ltb_spec (2 * tl) (ft_index (N.of_nat d) (a - 1))) as [Lt|Lt].
          { exfalso. replace (2 * (a - 1) + 1) with (2 * a - 1) in Hi2 by lia.
            assert (p2 d * (2 * a - 1) <= 2 * (a * p2 d)) by nia. lia. }
          cbn [bind app].
          rewrite it_parent_at. replace ((a - 1) / 2) with (a / 2) by lia. rewrite it_at_nat_S.
          apply IH; try lia.
          * rewrite p2_S. replace a with (2 * (a / 2) + 1) in T1 by lia. lia.
          * rewrite p2_S. replace a with (2 * (a / 2) + 1) in T2 by lia. lia.
    Qed.

    Lemma rest_emit r u :
      u <= w ->
      forall g fuel X p acc,
      (g < fuel)%nat -> (g < CLIMB)%nat -> pref X u -> u - X < p2 g -> r <= X ->
      upgrade_loop fuel t tf (mkIter (2 * X) X 2) (2 * r) (2 * u) ix false (2 * i) true true p acc
      = Ok (fst (emit_all i (roots_from g X u) p acc), snd (emit_all i (roots_from g X u) p acc), true).
    Proof.
      intros Huw. induction g as [|g IH]; intros fuel X p acc Hf Hgc HP Hg HrX;
        (destruct fuel as [|f]; [lia|]); cbn [upgrade_loop roots_from].
      - rewrite p2_0 in Hg. pose proof HP as (_ & _ & _ & Hle & _). assert (X = u) as -> by lia.
        pose proof (full_root_none u u ltac:(lia)) as Hn.
        destruct (it_full_root (mkIter (2 * u) u 2) (2 * u)) as [found it1]. cbn [fst] in Hn. subst found.
        reflexivity.
      - destruct (N.leb_spec u X) as [L|L].
        + pose proof HP as (_ & _ & _ & Hle & _). assert (X = u) as -> by lia.
          pose proof (full_root_none u u ltac:(lia)) as Hn.
          destruct (it_full_root (mkIter (2 * u) u 2) (2 * u)) as [found it1]. cbn [fst] in Hn. subst found.
          reflexivity.
        + destruct (pref_step X u HP L) as (m & EX & H1 & H2 & HP' & Ed). cbv zeta in *.
          pose proof EX as EX2. pose proof H2 as H22. rewrite p2_S in EX2, H22.
          set (k := log2n (u - X)) in *. pose proof (p2_pos k) as Hpk.
          assert (Hkg : (k <= g)%nat).
          { assert (k < S g)%nat by (apply p2_lt_mono; lia). lia. }
          assert (Hk : p2 k <= p2 g) by (apply p2_le_mono; exact Hkg).
          rewrite (full_root_at u X k m EX H1 H2). cbn [negb].
          rewrite (it_at_right_end bs total_fits).
          destruct (N.ltb_spec (2 * ((2 * m + 1) * p2 k) - 1) (2 * r)) as [Lt|Lt]; [lia|].
          cbn [andb]. rewrite it_contains_covers, Ed. cbn [emit_all]. fold (pempty p).
          destruct (pempty p && covers (k, 2 * m) i) eqn:Eb.
          * apply andb_true_iff in Eb. destruct Eb as [_ Eb]. apply covers_inv in Eb. cbn [fst snd] in Eb.
            unfold it_at at 1. cbn [it_index]. unfold ix.
            rewrite (block_and_seek_value t tf w Hlook i nodes last (2 * i) k (2 * m) p); try lia.
            cbn [bind]. rewrite next_tree_at. replace ((2 * m + 1) * p2 k) with (X + p2 k) by lia.
            apply IH; [lia|lia|exact HP'|lia|lia].
          * unfold it_at at 1. cbn [it_index].
            rewrite (Hlook k (2 * m)) by lia. cbn [bind]. rewrite next_tree_at.
            replace ((2 * m + 1) * p2 k) with (X + p2 k) by lia.
            apply IH; [lia|lia|exact HP'|lia|lia].
    Qed.

    Lemma main_emit r u :
      0 < r -> r < u -> u <= w ->
      forall g fuel X p acc,
      (g < fuel)%nat -> (g < CLIMB)%nat -> pref X u -> u - X < p2 g -> X <= r ->
      upgrade_loop fuel t tf (mkIter (2 * X) X 2) (2 * r) (2 * u) ix false (2 * i) true false p acc
      = Ok (fst (emit_all i (upg_idx g X r u) p acc), snd (emit_all i (upg_idx g X r u) p acc), true).
    Proof.
      intros Hr Hru Huw. induction g as [|g IH]; intros fuel X p acc Hf Hgc HP Hg HXr.
      { rewrite p2_0 in Hg. lia. }
      destruct fuel as [|f]; [lia|].
      assert (L : X < u) by lia.
      destruct (pref_step X u HP L) as (m & EX & H1 & H2 & HP' & Ed). cbv zeta in *.
      pose proof EX as EX2. pose proof H2 as H22. rewrite p2_S in EX2, H22.
      cbn [upgrade_loop upg_idx]. destruct (N.leb_spec u X) as [L'|_]; [lia|]. cbv zeta.
      set (k := log2n (u - X)) in *. pose proof (p2_pos k) as Hpk.
      assert (Hkg : (k <= g)%nat).
      { assert (k < S g)%nat by (apply p2_lt_mono; lia). lia. }
      assert (Hk : p2 k <= p2 g) by (apply p2_le_mono; exact Hkg).
      rewrite (full_root_at u X k m EX H1 H2). cbn [negb].
      rewrite (it_at_right_end bs total_fits).
      destruct (N.leb_spec (X + p2 k) r) as [Lm|Lm].
      - destruct (N.ltb_spec (2 * ((2 * m + 1) * p2 k) - 1) (2 * r)) as [Lt|Lt]; [|lia].
        rewrite next_tree_at. replace ((2 * m + 1) * p2 k) with (X + p2 k) by lia.
        apply IH; [lia|lia|exact HP'|lia|exact Lm].
      - destruct (N.ltb_spec (2 * ((2 * m + 1) * p2 k) - 1) (2 * r)) as [Lt|Lt]; [lia|].
        cbn [negb andb].
        pose proof (it_contains_spec (it_at (N.of_nat k) (2 * m)) (2 * r - 2) (wf_at _ _)) as Hc.
        pose proof (lo_at (N.of_nat k) (2 * m)) as Hlo. pose proof (hi_at (N.of_nat k) (2 * m)) as Hhi.
        fold (p2 k) in Hlo, Hhi.
        destruct (N.ltb_spec X r) as [Lr|Lr].
        + destruct (it_contains (it_at (N.of_nat k) (2 * m)) (2 * r - 2)) eqn:Ec.
          2:{ exfalso. assert (Hft : false = true) by (apply Hc; lia). discriminate Hft. }
          replace (2 * r - 2) with (2 * (r - 1)) by lia. rewrite it_new_leaf2.
          change (it_at 0 (r - 1)) with (it_at (N.of_nat 0) (r - 1)).
          change (it_index (it_at (N.of_nat k) (2 * m))) with (ft_index (N.of_nat (0 + k)) (2 * m)).
          rewrite (connect_emit k 0 (r - 1) CLIMB p acc (2 * m) (r - 1));
            [|lia|cbn [Nat.add]; lia|lia|lia|cbn [Nat.add]; lia|rewrite p2_0; lia|rewrite p2_0; lia].
          rewrite emit_all_app.
          destruct (emit_all i (conn_idx k 0 (r - 1)) p acc) as [p1 acc1]. cbn [bind fst snd].
          rewrite next_tree_at. replace ((2 * m + 1) * p2 k) with (X + p2 k) by lia.
          apply (rest_emit r u Huw g f (X + p2 k)); [lia|lia|exact HP'|lia|lia].
        + assert (EXr : X = r) by lia.
          destruct (it_contains (it_at (N.of_nat k) (2 * m)) (2 * r - 2)) eqn:Ec.
          { exfalso. destruct Hc as [Hc _]. specialize (Hc eq_refl). lia. }
          pose proof (rest_emit r u Huw (S g) (S f) X p acc ltac:(lia) Hgc HP Hg ltac:(lia)) as Hrest.
          cbn [upgrade_loop] in Hrest. rewrite (full_root_at u X k m EX H1 H2) in Hrest. cbn [negb] in Hrest.
          rewrite (it_at_right_end bs total_fits) in Hrest.
          destruct (N.ltb_spec (2 * ((2 * m + 1) * p2 k) - 1) (2 * r)) as [Lt'|_]; [lia|].
          cbn [negb andb] in Hrest. exact Hrest.
    Qed.
  End EmitProver.
End RefBlock.

(* ====================================================================================== *)
(* 8. class C: a block and an upgrade in one request                                        *)
(* ====================================================================================== *)

Lemma it_up_n_coord : forall n d a, it_up_n n (it_at (N.of_nat d) a) = it_at (N.of_nat (d + n)) (a / p2 n).
Proof.
  induction n as [|n IH]; intros d a; cbn [it_up_n].
  - rewrite p2_0, Nat.add_0_r. f_equal. symmetry. apply N.div_1_r.
  - rewrite it_sibling_sibo, it_parent_at, sibo_half, it_at_nat_S, IH.
    replace (S d + n)%nat with (d + S n)%nat by lia. f_equal.
    rewrite p2_S, N.div_div; [reflexivity|lia|]. pose proof (p2_pos n). lia.
Qed.

(* an extra node that is asked for in the middle of the list *)
Lemma serves_extra l1 l2 e :
  Forall (fun n => n_index n <> n_index e) l1 ->
  serves (mkQ (l1 ++ l2) (Some e)) (l1 ++ e :: l2) (mkQ [] None).
Proof.
  induction l1 as [|n l1 IH]; intros H; cbn [app].
  - econstructor.
    + unfold q_shift. cbn [q_extra q_nodes]. rewrite N.eqb_refl. reflexivity.
    + apply serves_plain. intros x [=].
  - inversion H as [|? ? Hn Hl]; subst. econstructor; [|apply IH, Hl].
    unfold q_shift. cbn [q_extra q_nodes].
    destruct (N.eqb_spec (n_index e) (n_index n)) as [E|E]; [congruence|].
    rewrite N.eqb_refl. reflexivity.
Qed.

Section ClassC.
  Variable cr : crypto.
  Variable bs : list bytes.
  Hypothesis total_fits : sumN (map len bs) <= u64_max.

  Lemma upg_idx_tiles r w : 0 < r -> r < w -> 2 * w <= u64_max -> tiles (upg_idx g64 0 r w) r w.
  Proof.
    intros Hr Hrw H64. apply tiles_upg; [exact Hr|exact Hrw|apply pref_0| |lia].
    rewrite p2_64. unfold u64_max in H64. lia.
  Qed.

  Lemma cs_nodes_push_tc rt l : cs_nodes (cs_push_nodes (tree_changeset rt) l) = l.
  Proof. apply cs_nodes_push_fresh. Qed.

  (* C1: the block lies below the replica's length; its node count is the replica's own
     missing-node count, which ended on a stored node *)
  Theorem block_upgrade_below_accepted t tf rt rtf w r i k sg pk :
    lookups cr t tf bs w -> t_length t = w -> t_signature t = Some sg ->
    t_roots rt = ref_roots cr bs r -> t_length rt = r -> t_byte_length rt = prefix_size bs r ->
    (forall j n, optional_node rt rtf j = Ok (Some n) -> n_hash n = n_hash (ref_at cr bs j)) ->
    0 < r -> r < w -> 2 * w <= u64_max -> i < r ->
    missing_nodes rt rtf (2 * i) = Ok k ->
    it_contains (it_up_n (N.to_nat k) (it_new (2 * i))) (2 * t_length rt) = false ->
    length sg = 64%nat ->
    cr_verify cr pk (signable (tree_hash cr (ref_roots cr bs w)) w (t_fork t)) sg = true ->
    let ns := path_nodes cr bs (N.to_nat k) i in
    let up := mkDataUpgrade r (w - r) (upg_nodes cr bs r w) [] sg in
    exists cs,
      create_valueless_proof t tf (Some (mkReqBlock i k)) None None (Some (mkReqUpgrade r (w - r)))
        = Ok (mkVproof (t_fork t) (Some (mkDataHash i ns)) None None (Some up)) /\
      verify_proof cr rt rtf (mkProof (t_fork t) (Some (mkDataBlock i (blk bs i) ns)) None None (Some up)) pk = Ok cs /\
      cs_roots cs = ref_roots cr bs w /\ cs_length cs = w /\ cs_byte_length cs = prefix_size bs w /\
      cs_fork cs = t_fork t /\ cs_upgraded cs = true /\ cs_signature cs = Some sg /\
      cs_ancestors cs = r /\ Forall (is_ref cr bs) (cs_nodes cs) /\
      In (ref_node cr bs 0 i) (cs_nodes cs) /\ (forall n, In n ns -> In n (cs_nodes cs)) /\
      commitable rt cs = true.
  Proof.
    intros Hlook Hl Hsg Hroots Hrl Hrb Hrep Hr Hrw H64 Hir Hm Hnc Hs64 Hver ns up.
    set (kk := N.to_nat k) in *. set (o := i / p2 kk).
    assert (H2i : 2 * i < 2 * t_length rt) by lia.
    destruct (missing_nodes_gives_stored_root rt rtf i k Hm H2i) as (Hfuel & _ & _). fold kk in Hfuel.
    destruct (missing_nodes_request_wellformed rt rtf i k w Hm H2i ltac:(lia) Hnc) as (Hroot & n0 & Hn0).
    fold kk in Hroot, Hn0, Hnc.
    rewrite it_new_leaf2 in Hroot, Hn0, Hnc. change (it_at 0 i) with (it_at (N.of_nat 0) i) in Hroot, Hn0, Hnc.
    rewrite it_up_n_coord in Hroot, Hn0, Hnc. cbn [Nat.add] in Hroot, Hn0, Hnc. fold o in Hroot, Hn0, Hnc.
    pose proof (p2_pos kk) as Hpk.
    assert (Ho1 : o * p2 kk <= i) by (unfold o; nia).
    assert (Ho2 : i < (o + 1) * p2 kk).
    { unfold o. pose proof (N.mod_lt i (p2 kk) ltac:(lia)). pose proof (N.div_mod' i (p2 kk)). nia. }
    assert (Ho3 : (o + 1) * p2 kk <= r).
    { rewrite Hrl, it_contains_covers in Hnc. unfold covers in Hnc. cbn [fst snd] in Hnc.
      apply andb_false_iff in Hnc. destruct Hnc as [Hc|Hc]; lia. }
    (* the writer *)
    assert (Hcreate : create_valueless_proof t tf (Some (mkReqBlock i k)) None None (Some (mkReqUpgrade r (w - r)))
                      = Ok (mkVproof (t_fork t) (Some (mkDataHash i ns)) None None (Some up))).
    { unfold create_valueless_proof, normalize_indexed. cbn [ru_start ru_length rb_index rb_nodes bind].
      unfold u64_max in H64.
      rewrite !NoPanic.mul64_ok by (unfold u64_max; lia). cbn [bind].
      rewrite NoPanic.add64_ok by (unfold u64_max; lia). cbn [bind].
      replace (r * 2 + (w - r) * 2) with (2 * w) by lia. rewrite (N.mul_comm r 2), (N.mul_comm i 2), Hl.
      destruct (N.leb_spec (2 * w) (2 * r)) as [L1|_]; [lia|].
      destruct (N.ltb_spec (2 * w) (2 * w)) as [L2|_]; [lia|]. cbn [orb negb andb bind ix_last ix_index ix_nodes].
      destruct (N.ltb_spec i r) as [_|L3]; [|lia].
      rewrite Hroot. cbn [bind]. unfold it_at at 1. cbn [it_index].
      rewrite (block_and_seek_value cr bs total_fits t tf w Hlook i k i (2 * w) kk o lp_empty Ho1 Ho2 ltac:(lia) Hfuel).
      cbn [bind negb lp_seek lp_upgrade lp_additional lp_empty]. fold ns.
      unfold upgrade_proof. destruct (N.eqb_spec (2 * r) 0) as [E|_]; [lia|].
      change (it_new 0) with (mkIter (2 * 0) 0 2).
      assert (Hns : nosub true (mkLp None (Some ns) None None) (ft_index (N.of_nat kk) o) (2 * w))
        by (right; left; discriminate).
      rewrite (upgrade_loop_spec cr bs total_fits t tf w Hlook _ false _ true r w _ Hr Hrw (N.le_refl w) Hns g64 CLIMB 0 []);
        [|apply climb_64|apply climb_64|apply pref_0
         |rewrite p2_64; lia|lia].
      cbn [bind app lp_seek lp_nodes lp_upgrade lp_additional]. rewrite Hsg. unfold up. reflexivity. }
    (* the replica *)
    destruct (verify_tree_ref cr bs total_fits i kk o (tree_changeset rt) Hfuel Ho1 Ho2 ltac:(unfold u64_max in *; lia))
      as (vis & Hvt & Hvis & Hvin). fold ns in Hvt.
    set (c1 := cs_push_nodes (tree_changeset rt) (ref_node cr bs 0 i :: vis)) in *.
    assert (V : vinv cr bs c1 r).
    { pose proof (vinv_tree_changeset cr bs rt r Hroots Hrl Hrb) as V. exact V. }
    pose proof (upg_idx_tiles r w Hr Hrw H64) as T.
    destruct (verify_upgrade_ok cr bs total_fits c1 r w (t_fork t) (upg_nodes cr bs r w) sg pk
                (Some (ref_node cr bs kk o)) (mkQ [] (Some (ref_node cr bs kk o))) Hr Hrw H64 V)
      as (c2 & Hvu & V2 & G2 & U2); [|exact Hs64|exact Hver|].
    { apply serves_plain. intros x [= <-]. apply Forall_forall. intros n Hn.
      apply in_map_iff in Hn. destruct Hn as (y & <- & Hy). unfold rn. rewrite !ref_node_index.
      destruct (tiles_in _ _ _ y T Hy) as [Ty _].
      pose proof (idx_ge y) as G. pose proof (idx_lt (kk, o) r Ho3) as Lt. unfold idx in *. cbn [fst snd] in *. lia. }
    cbn [q_extra] in Hvu.
    exists (cs_set_hash_sig (cs_set_fork c2 (t_fork t)) (tree_hash cr (ref_roots cr bs w)) sg).
    split; [exact Hcreate|]. split.
    { unfold verify_proof. cbn [p_block p_hash p_seek p_upgrade p_fork]. rewrite Hvt. cbn [bind].
      unfold up. rewrite Hvu. cbn [bind]. rewrite ref_node_index.
      change (it_index (it_at (N.of_nat kk) o)) with (ft_index (N.of_nat kk) o) in Hn0.
      rewrite (optional_required _ _ _ _ Hn0). cbn [bind].
      assert (B : bytes_eqb (n_hash n0) (n_hash (ref_node cr bs kk o)) = true).
      { apply bytes_eqb_eq. rewrite (Hrep _ _ Hn0), ref_at_index. reflexivity. }
      rewrite B. reflexivity. }
    pose proof (vinv_roots cr bs c2 w V2) as R2. destruct V2 as (L2 & _ & B2).
    pose proof G2 as (A2 & _ & _ & _ & _ & O1 & O2 & _).
    cbn [c1 cs_push_nodes tree_changeset cs_ancestors cs_orig_length cs_orig_fork] in A2, O1, O2.
    assert (Hn1 : Forall (is_ref cr bs) (cs_nodes c1)).
    { unfold c1. rewrite cs_nodes_push_tc. constructor; [apply ref_node_is_ref|exact Hvis]. }
    pose proof (cs_nodes_grown cr bs c1 c2 G2 Hn1) as Hn2.
    assert (Hsub : forall n, In n (cs_nodes c1) -> In n (cs_nodes c2)).
    { destruct G2 as (_ & _ & _ & _ & _ & _ & _ & new & E & _). intros n. unfold cs_nodes.
      rewrite !rev_append_rev, !app_nil_r, E, rev_app_distr. intros Hin. apply in_or_app. left. exact Hin. }
    cbn [cs_set_hash_sig cs_set_fork cs_roots cs_length cs_byte_length cs_fork cs_upgraded cs_signature
         cs_hash cs_ancestors].
    split; [exact R2|]. split; [exact L2|]. split; [exact B2|]. split; [reflexivity|]. split; [exact U2|].
    split; [reflexivity|]. split; [congruence|]. split; [exact Hn2|].
    split.
    { apply Hsub. unfold c1. rewrite cs_nodes_push_tc. left. reflexivity. }
    split.
    { intros n Hn. apply Hsub. unfold c1. rewrite cs_nodes_push_tc. right.
      unfold ns, path_nodes in Hn. apply in_map_iff in Hn. destruct Hn as (x & <- & Hx). apply Hvin, Hx. }
    unfold commitable. cbn [cs_set_hash_sig cs_set_fork cs_orig_fork cs_orig_length cs_upgraded].
    rewrite O1, O2, U2, !N.eqb_refl. reflexivity.
  Qed.

  (* the replica's own count for a block it does not cover is 0 *)
  Lemma missing_nodes_beyond rt rtf i : t_length rt <= i -> missing_nodes rt rtf (2 * i) = Ok 0.
  Proof.
    intros H. unfold missing_nodes. rewrite it_new_leaf2. unfold it_right_span_index, it_at.
    cbn [it_index it_factor]. rewrite ft_index_leaf. change (2 ^ (0 + 1)) with 2.
    destruct (N.leb_spec (2 * t_length rt) (2 * i + 2 / 2 - 1)) as [_|L]; [reflexivity|lia].
  Qed.

  (* C2: the block lies in the upgraded range r <= i < w: its section ends at the upgrade node above it,
     which is then not sent *)
  Theorem block_upgrade_inside_accepted t tf rt rtf w r i k sg pk :
    lookups cr t tf bs w -> t_length t = w -> t_signature t = Some sg ->
    t_roots rt = ref_roots cr bs r -> t_length rt = r -> t_byte_length rt = prefix_size bs r ->
    0 < r -> r < w -> 2 * w <= u64_max -> r <= i -> i < w ->
    length sg = 64%nat ->
    cr_verify cr pk (signable (tree_hash cr (ref_roots cr bs w)) w (t_fork t)) sg = true ->
    exists l1 y l2 cs,
      upg_idx g64 0 r w = l1 ++ y :: l2 /\ covers y i = true /\
      let ns := path_nodes cr bs (fst y) i in
      let up := mkDataUpgrade r (w - r) (map (rn cr bs) (l1 ++ l2)) [] sg in
      create_valueless_proof t tf (Some (mkReqBlock i k)) None None (Some (mkReqUpgrade r (w - r)))
        = Ok (mkVproof (t_fork t) (Some (mkDataHash i ns)) None None (Some up)) /\
      verify_proof cr rt rtf (mkProof (t_fork t) (Some (mkDataBlock i (blk bs i) ns)) None None (Some up)) pk = Ok cs /\
      cs_roots cs = ref_roots cr bs w /\ cs_length cs = w /\ cs_byte_length cs = prefix_size bs w /\
      cs_fork cs = t_fork t /\ cs_upgraded cs = true /\ cs_signature cs = Some sg /\
      cs_ancestors cs = r /\ Forall (is_ref cr bs) (cs_nodes cs) /\
      In (ref_node cr bs 0 i) (cs_nodes cs) /\ (forall n, In n ns -> In n (cs_nodes cs)) /\
      commitable rt cs = true.
  Proof.
    intros Hlook Hl Hsg Hroots Hrl Hrb Hr Hrw H64 Hri Hiw Hs64 Hver.
    pose proof (upg_idx_tiles r w Hr Hrw H64) as T.
    destruct (tiles_split _ _ _ i T Hri Hiw) as (l1 & [d o] & l2 & El & T1 & C1 & C2 & C3).
    cbn [fst snd] in *.
    exists l1, (d, o), l2.
    assert (Hcov : covers (d, o) i = true).
    { unfold covers. cbn [fst snd]. apply andb_true_iff. lia. }
    assert (Hd : (d < CLIMB)%nat).
    { assert (p2 d < p2 g64).
      { rewrite p2_64. unfold u64_max in H64. pose proof (p2_pos d). nia. }
      apply p2_lt_mono in H. pose proof climb_64. lia. }
    assert (Hl1 : forall x, In x l1 -> covers x i = false /\ idx x <> idx (d, o)).
    { intros x Hx. destruct (tiles_in _ _ _ x T1 Hx) as [_ Tx]. split.
      - unfold covers. apply andb_false_iff. right. lia.
      - pose proof (idx_lt x _ Tx). pose proof (idx_ge (d, o)). cbn [fst snd] in *. lia. }
    cbv zeta. cbn [fst].
    set (ns := path_nodes cr bs d i).
    set (up := mkDataUpgrade r (w - r) (map (rn cr bs) (l1 ++ l2)) [] sg).
    (* the writer *)
    assert (Hemit : emit_all cr bs i (upg_idx g64 0 r w) lp_empty []
                    = (mkLp None (Some ns) None None, map (rn cr bs) (l1 ++ l2))).
    { rewrite El, emit_all_app.
      rewrite (emit_all_nocover cr bs i l1 lp_empty []) by (intros x Hx; apply Hl1, Hx).
      cbn [fst snd emit_all app]. rewrite Hcov. cbn [andb pempty lp_empty lp_nodes lp_seek lp_upgrade lp_additional fst].
      rewrite emit_all_nonempty by reflexivity. rewrite map_app. reflexivity. }
    assert (Hcreate : create_valueless_proof t tf (Some (mkReqBlock i k)) None None (Some (mkReqUpgrade r (w - r)))
                      = Ok (mkVproof (t_fork t) (Some (mkDataHash i ns)) None None (Some up))).
    { unfold create_valueless_proof, normalize_indexed. cbn [ru_start ru_length rb_index rb_nodes bind].
      unfold u64_max in H64.
      rewrite !NoPanic.mul64_ok by (unfold u64_max; lia). cbn [bind].
      rewrite NoPanic.add64_ok by (unfold u64_max; lia). cbn [bind].
      replace (r * 2 + (w - r) * 2) with (2 * w) by lia. rewrite (N.mul_comm r 2), (N.mul_comm i 2), Hl.
      destruct (N.leb_spec (2 * w) (2 * r)) as [L1|_]; [lia|].
      destruct (N.ltb_spec (2 * w) (2 * w)) as [L2|_]; [lia|]. cbn [orb negb andb bind ix_last ix_index ix_nodes].
      destruct (N.ltb_spec i r) as [L3|_]; [lia|]. cbn [bind negb].
      unfold upgrade_proof. destruct (N.eqb_spec (2 * r) 0) as [E|_]; [lia|].
      change (it_new 0) with (mkIter (2 * 0) 0 2).
      rewrite (main_emit cr bs total_fits t tf w Hlook i k i r w Hr Hrw (N.le_refl w) g64 CLIMB 0 lp_empty []);
        [|apply climb_64|apply climb_64|apply pref_0|rewrite p2_64; lia|lia].
      rewrite Hemit. cbn [bind fst snd lp_seek lp_nodes lp_upgrade lp_additional]. rewrite Hsg. reflexivity. }
    (* the replica *)
    destruct (verify_tree_ref cr bs total_fits i d o (tree_changeset rt) Hd C1 C2 ltac:(unfold u64_max in *; lia))
      as (vis & Hvt & Hvis & Hvin). fold ns in Hvt.
    set (c1 := cs_push_nodes (tree_changeset rt) (ref_node cr bs 0 i :: vis)) in *.
    assert (V : vinv cr bs c1 r).
    { pose proof (vinv_tree_changeset cr bs rt r Hroots Hrl Hrb) as V. exact V. }
    destruct (verify_upgrade_ok cr bs total_fits c1 r w (t_fork t) (map (rn cr bs) (l1 ++ l2)) sg pk
                (Some (ref_node cr bs d o)) (mkQ [] None) Hr Hrw H64 V)
      as (c2 & Hvu & V2 & G2 & U2); [|exact Hs64|exact Hver|].
    { rewrite El, !map_app. cbn [map]. unfold rn at 3. cbn [fst snd].
      apply serves_extra. apply Forall_forall. intros n Hn.
      apply in_map_iff in Hn. destruct Hn as (x & <- & Hx). unfold rn. rewrite !ref_node_index.
      apply (Hl1 x Hx). }
    cbn [q_extra] in Hvu.
    exists (cs_set_hash_sig (cs_set_fork c2 (t_fork t)) (tree_hash cr (ref_roots cr bs w)) sg).
    split; [exact El|]. split; [exact Hcov|]. split; [exact Hcreate|]. split.
    { unfold verify_proof. cbn [p_block p_hash p_seek p_upgrade p_fork]. rewrite Hvt. cbn [bind].
      unfold up. rewrite Hvu. cbn [bind]. reflexivity. }
    pose proof (vinv_roots cr bs c2 w V2) as R2. destruct V2 as (L2 & _ & B2).
    pose proof G2 as (A2 & _ & _ & _ & _ & O1 & O2 & _).
    cbn [c1 cs_push_nodes tree_changeset cs_ancestors cs_orig_length cs_orig_fork] in A2, O1, O2.
    assert (Hn1 : Forall (is_ref cr bs) (cs_nodes c1)).
    { unfold c1. rewrite cs_nodes_push_tc. constructor; [apply ref_node_is_ref|exact Hvis]. }
    pose proof (cs_nodes_grown cr bs c1 c2 G2 Hn1) as Hn2.
    assert (Hsub : forall n, In n (cs_nodes c1) -> In n (cs_nodes c2)).
    { destruct G2 as (_ & _ & _ & _ & _ & _ & _ & new & E & _). intros n. unfold cs_nodes.
      rewrite !rev_append_rev, !app_nil_r, E, rev_app_distr. intros Hin. apply in_or_app. left. exact Hin. }
    cbn [cs_set_hash_sig cs_set_fork cs_roots cs_length cs_byte_length cs_fork cs_upgraded cs_signature
         cs_hash cs_ancestors].
    split; [exact R2|]. split; [exact L2|]. split; [exact B2|]. split; [reflexivity|]. split; [exact U2|].
    split; [reflexivity|]. split; [congruence|]. split; [exact Hn2|].
    split.
    { apply Hsub. unfold c1. rewrite cs_nodes_push_tc. left. reflexivity. }
    split.
    { intros n Hn. apply Hsub. unfold c1. rewrite cs_nodes_push_tc. right.
      unfold ns, path_nodes in Hn. apply in_map_iff in Hn. destruct Hn as (x & <- & Hx). apply Hvin, Hx. }
    unfold commitable. cbn [cs_set_hash_sig cs_set_fork cs_orig_fork cs_orig_length cs_upgraded].
    rewrite O1, O2, U2, !N.eqb_refl. reflexivity.
  Qed.
End ClassC.

(* ---------- class C on the toy instance ---------- *)

Lemma ex_r3_stored j n :
  optional_node ex_r3 file_empty j = Ok (Some n) -> n_hash n = n_hash (ref_at ex_cr ex_blocks j).
Proof.
  intros H. apply optional_node_empty_file, nm_get_elements in H.
  assert (C : forallb (fun kv => bytes_eqb (n_hash (snd kv)) (n_hash (ref_at ex_cr ex_blocks (fst kv))))
                      (nm_elements (t_unflushed ex_r3)) = true) by (vm_compute; reflexivity).
  rewrite forallb_forall in C. apply C in H. cbn [fst snd] in H. now apply bytes_eqb_eq.
Qed.

Definition ex_sg : bytes := match t_signature ex_wt with Some s => s | None => [] end.

(* C1: block 0 (below the replica's length 3) with the replica's own count, and the upgrade 3 -> 5 *)
Example ex_block_upgrade_below_applies :
  missing_nodes ex_r3 file_empty (2 * 0) = Ok 1 /\
  map n_index (path_nodes ex_cr ex_blocks 1 0) = [2] /\
  exists cs,
    create_valueless_proof ex_wt file_empty (Some (mkReqBlock 0 1)) None None (Some (mkReqUpgrade 3 (5 - 3)))
      = Ok (mkVproof (t_fork ex_wt) (Some (mkDataHash 0 (path_nodes ex_cr ex_blocks 1 0))) None None
              (Some (mkDataUpgrade 3 (5 - 3) (upg_nodes ex_cr ex_blocks 3 5) [] ex_sg))) /\
    verify_proof ex_cr ex_r3 file_empty
      (mkProof (t_fork ex_wt) (Some (mkDataBlock 0 (blk ex_blocks 0) (path_nodes ex_cr ex_blocks 1 0))) None None
         (Some (mkDataUpgrade 3 (5 - 3) (upg_nodes ex_cr ex_blocks 3 5) [] ex_sg))) ex_key = Ok cs /\
    cs_roots cs = ref_roots ex_cr ex_blocks 5 /\ cs_length cs = 5 /\ commitable ex_r3 cs = true /\
    In (ref_node ex_cr ex_blocks 0 0) (cs_nodes cs).
Proof.
  split; [vm_compute; reflexivity|]. split; [vm_compute; reflexivity|].
  destruct (block_upgrade_below_accepted ex_cr ex_blocks ltac:(vm_compute; discriminate)
              ex_wt file_empty ex_r3 file_empty 5 3 0 1 ex_sg ex_key)
    as (cs & Hc & Hv & R & L & _ & _ & _ & _ & _ & _ & Hin & _ & Hcm).
  - exact ex_lookups5.
  - vm_compute. reflexivity.
  - vm_compute. reflexivity.
  - vm_compute. reflexivity.
  - vm_compute. reflexivity.
  - vm_compute. reflexivity.
  - exact ex_r3_stored.
  - lia.
  - lia.
  - vm_compute. discriminate.
  - lia.
  - vm_compute. reflexivity.
  - vm_compute. reflexivity.
  - vm_compute. reflexivity.
  - vm_compute. reflexivity.
  - exists cs. cbv zeta in Hc, Hv. change (N.to_nat 1) with 1%nat in Hc, Hv.
    repeat (split; [assumption|]). assumption.
Qed.

(* C2: block 4 (not held by the replica of length 3) and the upgrade 3 -> 5: the upgrade node above the
   block (flat index 8) is not sent, the block section stands for it *)
Example ex_block_upgrade_inside_applies :
  missing_nodes ex_r3 file_empty (2 * 4) = Ok 0 /\
  exists l1 y l2 cs,
    upg_idx g64 0 3 5 = l1 ++ y :: l2 /\ covers y 4 = true /\
    create_valueless_proof ex_wt file_empty (Some (mkReqBlock 4 0)) None None (Some (mkReqUpgrade 3 (5 - 3)))
      = Ok (mkVproof (t_fork ex_wt) (Some (mkDataHash 4 (path_nodes ex_cr ex_blocks (fst y) 4))) None None
              (Some (mkDataUpgrade 3 (5 - 3) (map (rn ex_cr ex_blocks) (l1 ++ l2)) [] ex_sg))) /\
    verify_proof ex_cr ex_r3 file_empty
      (mkProof (t_fork ex_wt) (Some (mkDataBlock 4 (blk ex_blocks 4) (path_nodes ex_cr ex_blocks (fst y) 4))) None None
         (Some (mkDataUpgrade 3 (5 - 3) (map (rn ex_cr ex_blocks) (l1 ++ l2)) [] ex_sg))) ex_key = Ok cs /\
    cs_roots cs = ref_roots ex_cr ex_blocks 5 /\ cs_length cs = 5 /\ commitable ex_r3 cs = true /\
    In (ref_node ex_cr ex_blocks 0 4) (cs_nodes cs).
Proof.
  split; [vm_compute; reflexivity|].
  destruct (block_upgrade_inside_accepted ex_cr ex_blocks ltac:(vm_compute; discriminate)
              ex_wt file_empty ex_r3 file_empty 5 3 4 0 ex_sg ex_key)
    as (l1 & y & l2 & cs & El & Hcov & Hc & Hv & R & L & _ & _ & _ & _ & _ & _ & Hin & _ & Hcm).
  - exact ex_lookups5.
  - vm_compute. reflexivity.
  - vm_compute. reflexivity.
  - vm_compute. reflexivity.
  - vm_compute. reflexivity.
  - vm_compute. reflexivity.
  - lia.
  - lia.
  - vm_compute. discriminate.
  - lia.
  - lia.
  - vm_compute. reflexivity.
  - vm_compute. reflexivity.
  - exists l1, y, l2, cs. cbv zeta in Hc, Hv. repeat (split; [assumption|]). assumption.
Qed.

(* ====================================================================================== *)
(* 9. class B: partial upgrades, the additional nodes                                       *)
(* ====================================================================================== *)

Section ClassB.
  Variable cr : crypto.
  Variable bs : list bytes.
  Hypothesis total_fits : sumN (map len bs) <= u64_max.

  (* first phase: the additional nodes that are siblings of the growing last root *)
  Lemma extra_siblings_conn : forall n d a c rest xo,
    xo * p2 n <= a -> a < (xo + 1) * p2 n -> N.even xo = true ->
    rev (cs_roots c) = map (rn cr bs) (rrl d (a + 1)) -> cs_length c = (a + 1) * p2 d ->
    cs_byte_length c = prefix_size bs ((a + 1) * p2 d) ->
    exists c',
      extra_siblings cr c (it_hd (rrl d (a + 1))) (map (rn cr bs) (conn_idx n d a) ++ rest)
        = extra_siblings cr c' (it_at (N.of_nat (d + n)) xo) rest /\
      rev (cs_roots c') = map (rn cr bs) (rrl (d + n) (xo + 1)) /\ cs_length c' = (xo + 1) * p2 (d + n) /\
      cs_byte_length c' = prefix_size bs ((xo + 1) * p2 (d + n)) /\ cs_grown cr bs c c'.
  Proof.
    induction n as [|n IH]; intros d a c rest xo H1 H2 Hxo Hr Hl Hb.
    - rewrite p2_0 in *. assert (a = xo) as -> by lia. rewrite Nat.add_0_r.
      assert (E : rrl d (xo + 1) = (d, xo) :: rrl (S d) (xo / 2)).
      { rewrite FlatTreeFacts.even_mod in Hxo. replace (xo + 1) with (2 * (xo / 2) + 1) by lia.
        rewrite rrl_odd. f_equal. f_equal. lia. }
      exists c. cbn [conn_idx map app]. rewrite E at 1. cbn [it_hd fst snd].
      split; [reflexivity|]. split; [exact Hr|]. split; [exact Hl|]. split; [exact Hb|]. apply cs_grown_refl.
    - rewrite p2_S in H1, H2. cbn [conn_idx].
      replace (d + S n)%nat with (S d + n)%nat by lia.
      destruct (N.even a) eqn:Ea.
      + rewrite FlatTreeFacts.even_mod in Ea.
        assert (E : rrl d (a + 1) = (d, a) :: rrl (S d) (a / 2)).
        { replace (a + 1) with (2 * (a / 2) + 1) by lia. rewrite rrl_odd. f_equal. f_equal. lia. }
        cbn [app map]. rewrite E. cbn [it_hd fst snd extra_siblings].
        rewrite it_sibling_at_even by (rewrite FlatTreeFacts.even_mod; lia).
        unfold rn at 1. cbn [fst snd]. rewrite ref_node_index. unfold it_at at 1. cbn [it_index].
        rewrite N.eqb_refl.
        destruct (append_root_ref cr bs total_fits c d (a + 1) Hr Hl Hb) as (c1 & Ha & R1 & L1 & B1 & G1 & U1).
        unfold rn at 1. cbn [fst snd]. rewrite Ha. cbn [bind].
        assert (E2 : rrl d (a + 1 + 1) = rrl (S d) (a / 2 + 1)).
        { replace (a + 1 + 1) with (2 * (a / 2 + 1)) by lia. apply rrl_even. }
        rewrite E2 in *.
        destruct (IH (S d) (a / 2) c1 rest xo) as (c' & Hg & R2 & L2 & B2 & G2); try assumption; try lia.
        { rewrite L1, p2_S. replace (a + 1 + 1) with (2 * (a / 2 + 1)) by lia. lia. }
        { rewrite B1, p2_S. f_equal. replace (a + 1 + 1) with (2 * (a / 2 + 1)) by lia. lia. }
        exists c'. split; [exact Hg|]. split; [exact R2|]. split; [exact L2|]. split; [exact B2|].
        eapply cs_grown_trans; eassumption.
      + assert (Eo : a mod 2 = 1) by (rewrite FlatTreeFacts.even_mod in Ea; lia).
        assert (E2 : rrl d (a + 1) = rrl (S d) (a / 2 + 1)).
        { replace (a + 1) with (2 * (a / 2 + 1)) by lia. apply rrl_even. }
        cbn [app]. rewrite E2 in *.
        destruct (IH (S d) (a / 2) c rest xo) as (c' & Hg & R2 & L2 & B2 & G2); try assumption; try lia.
        { rewrite Hl, p2_S. replace (a + 1) with (2 * (a / 2 + 1)) by lia. lia. }
        { rewrite Hb, p2_S. f_equal. replace (a + 1) with (2 * (a / 2 + 1)) by lia. lia. }
        exists c'. auto.
  Qed.

  (* the first phase stops on a node that is not the sibling; the failed test has moved the iterator *)
  Lemma extra_siblings_stop c k xo rest :
    N.even xo = true ->
    match rest with [] => True | y :: _ => n_index y <> ft_index (N.of_nat k) (xo + 1) end ->
    extra_siblings cr c (it_at (N.of_nat k) xo) rest
    = Ok (c, match rest with [] => it_at (N.of_nat k) xo | _ :: _ => it_at (N.of_nat k) (xo + 1) end, rest).
  Proof.
    intros Hxo H. destruct rest as [|y rest]; cbn [extra_siblings]; [reflexivity|].
    rewrite it_sibling_at_even by exact Hxo. unfold it_at at 1. cbn [it_index].
    destruct (N.eqb_spec (n_index y) (ft_index (N.of_nat k) (xo + 1))) as [E|E]; [contradiction|reflexivity].
  Qed.

  (* descending along left children *)
  Lemma descend_left : forall e k o fuel,
    (e < fuel)%nat ->
    descend_to fuel (it_at (N.of_nat (k + e)) o) (ft_index (N.of_nat k) (o * p2 e)) = Ok (it_at (N.of_nat k) (o * p2 e)).
  Proof.
    induction e as [|e IH]; intros k o fuel Hf; (destruct fuel as [|f]; [lia|]); cbn [descend_to].
    - rewrite p2_0, N.mul_1_r, Nat.add_0_r. unfold it_at at 1. cbn [it_index]. rewrite N.eqb_refl. reflexivity.
    - destruct (N.eqb_spec (it_index (it_at (N.of_nat (k + S e)) o)) (ft_index (N.of_nat k) (o * p2 (S e)))) as [Ei|Ei].
      { unfold it_at in Ei. cbn [it_index] in Ei. apply ft_index_inj in Ei. lia. }
      replace (N.of_nat (k + S e)) with (N.of_nat (k + e) + 1) by lia.
      assert (Ef : it_factor (it_at (N.of_nat (k + e) + 1) o) =? 2 = false).
      { unfold it_at. cbn [it_factor]. rewrite !pow2_succ. pose proof (pow2_pos (N.of_nat (k + e))). lia. }
      rewrite Ef, it_left_child_at, p2_S.
      replace (o * (2 * p2 e)) with (2 * o * p2 e) by lia. apply IH. lia.
  Qed.

  (* second phase: the remaining roots, found by descending from the iterator *)
  Lemma extra_rest_roots w : forall g X c kk oo,
    pref X w -> w - X < p2 g -> vinv cr bs c X -> oo * p2 kk = X -> (kk < CLIMB)%nat ->
    (X < w -> (log2n (w - X) <= kk)%nat) ->
    exists c' it',
      extra_rest cr c (it_at (N.of_nat kk) oo) (map (rn cr bs) (roots_from g X w)) = Ok (c', it') /\
      vinv cr bs c' w /\ cs_grown cr bs c c'.
  Proof.
    induction g as [|g IH]; intros X c kk oo HP Hg V Hoo Hkk Hdepth; cbn [roots_from].
    - rewrite p2_0 in Hg. pose proof HP as (_ & _ & _ & Hle & _). assert (X = w) as <- by lia.
      cbn [map extra_rest]. eexists _, _. split; [reflexivity|]. split; [exact V|apply cs_grown_refl].
    - destruct (N.leb_spec w X) as [L|L].
      + pose proof HP as (_ & _ & _ & Hle & _). assert (X = w) as <- by lia.
        cbn [map extra_rest]. eexists _, _. split; [reflexivity|]. split; [exact V|apply cs_grown_refl].
      + destruct (pref_step X w HP L) as (m & EX & H1 & H2 & HP' & Ed). cbv zeta in *.
        pose proof EX as EX2. pose proof H2 as H22. rewrite p2_S in EX2, H22.
        specialize (Hdepth L).
        set (k := log2n (w - X)) in *. pose proof (p2_pos k) as Hpk.
        assert (Hk : p2 k <= p2 g).
        { apply p2_le_mono. assert (k < S g)%nat by (apply p2_lt_mono; lia). lia. }
        rewrite Ed. cbn [map extra_rest]. unfold rn at 1. cbn [fst snd]. rewrite ref_node_index.
        (* the descent *)
        assert (Eoo : oo * p2 (kk - k) = 2 * m).
        { assert (E : p2 kk = p2 (kk - k) * p2 k) by (rewrite <- p2_add; f_equal; lia).
          rewrite E in Hoo. apply (N.mul_cancel_r _ _ (p2 k)); [lia|]. lia. }
        pose proof (descend_left (kk - k) k oo CLIMB ltac:(lia)) as Hd.
        replace (k + (kk - k))%nat with kk in Hd by lia. rewrite Eoo in Hd. rewrite Hd. cbn [bind].
        destruct (vinv_at cr bs total_fits c X k m V EX) as (Vr & Vl & Vb).
        destruct (append_root_ref cr bs total_fits c k (2 * m) Vr Vl Vb) as (c1 & Ha & R1 & L1 & B1 & G1 & U1).
        unfold rn at 1. cbn [fst snd]. rewrite Ha. cbn [bind]. rewrite rrl_odd. cbn [it_hd fst snd].
        rewrite it_sibling_at_even by (rewrite FlatTreeFacts.even_mod; lia).
        assert (V1 : vinv cr bs c1 (X + p2 k)).
        { unfold vinv. replace (X + p2 k) with ((2 * m + 1) * p2 k) by lia.
          rewrite rrl_shift. cbn [Nat.add]. auto. }
        destruct (IH (X + p2 k) c1 k (2 * m + 1)) as (c' & it' & Hrun & V' & G'); try assumption; try lia.
        { intros L'. assert (log2n (w - (X + p2 k)) < k)%nat; [|lia].
          apply p2_lt_mono. pose proof (log2n_spec (w - (X + p2 k)) ltac:(lia)). lia. }
        exists c', it'. split; [exact Hrun|]. split; [exact V'|]. eapply cs_grown_trans; eassumption.
  Qed.

  Lemma rrl_head m : forall d, 0 < m ->
    exists d' o' l, rrl d m = (d', o') :: l /\ N.even o' = true /\ (o' + 1) * p2 d' = m * p2 d.
  Proof.
    induction m as [|n IH|n IH] using N_bin_ind; intros d Hm.
    - lia.
    - rewrite rrl_even. destruct (IH (S d) ltac:(lia)) as (d' & o' & l & E & Ev & Es).
      exists d', o', l. rewrite p2_S in Es. split; [exact E|]. split; [exact Ev|]. lia.
    - rewrite rrl_odd. exists d, (2 * n), (rrl (S d) n). split; [reflexivity|].
      split; [rewrite FlatTreeFacts.even_mod; lia|reflexivity].
  Qed.

  Lemma odd_p2_le a d0 m0 j : a mod 2 = 1 -> a * p2 d0 = m0 * p2 j -> (j <= d0)%nat.
  Proof.
    intros Ha E. destruct (Nat.le_gt_cases j d0) as [L|L]; [exact L|]. exfalso.
    assert (Ej : p2 j = 2 * p2 (j - d0 - 1) * p2 d0).
    { rewrite <- p2_S, <- p2_add. f_equal. lia. }
    rewrite Ej in E. pose proof (p2_pos d0).
    assert (a = m0 * (2 * p2 (j - d0 - 1))).
    { apply (N.mul_cancel_r _ _ (p2 d0)); [lia|]. lia. }
    lia.
  Qed.

  (* both phases on the additional nodes of a partial upgrade u -> w *)
  Lemma extra_phase u w c1 :
    0 < u -> u < w -> w < p2 g64 -> vinv cr bs c1 u ->
    forall g X, (g <= g64)%nat -> pref X w -> w - X < p2 g -> X <= u ->
    exists c2 it2 rest c3 it3,
      extra_siblings cr c1 (it_hd (rrl 0 u)) (map (rn cr bs) (upg_idx g X u w)) = Ok (c2, it2, rest) /\
      extra_rest cr c2 it2 rest = Ok (c3, it3) /\ vinv cr bs c3 w /\ cs_grown cr bs c1 c3.
  Proof.
    intros Hu Huw Hw64 V1. pose proof climb_64 as Hc64.
    induction g as [|g IH]; intros X Hgg HP Hg HXu.
    { rewrite p2_0 in Hg. lia. }
    assert (L : X < w) by lia.
    destruct (pref_step X w HP L) as (m & EX & H1 & H2 & HP' & Ed). cbv zeta in *.
    pose proof EX as EX2. pose proof H2 as H22. rewrite p2_S in EX2, H22.
    cbn [upg_idx]. destruct (N.leb_spec w X) as [L'|_]; [lia|]. cbv zeta.
    set (k := log2n (w - X)) in *. pose proof (p2_pos k) as Hpk.
    assert (Hkg : (k <= g)%nat).
    { assert (k < S g)%nat by (apply p2_lt_mono; lia). lia. }
    assert (Hk : p2 k <= p2 g) by (apply p2_le_mono; exact Hkg).
    destruct (N.leb_spec (X + p2 k) u) as [Lm|Lm].
    - apply IH; [lia|exact HP'|lia|exact Lm].
    - destruct V1 as (V1l & V1r & V1b).
      destruct (N.ltb_spec X u) as [Lr|Lr].
      + (* u ends inside the root (k, 2m) of w *)
        rewrite map_app.
        destruct (extra_siblings_conn k 0 (u - 1) c1 (map (rn cr bs) (roots_from g (X + p2 k) w)) (2 * m))
          as (c' & Hes & R' & L' & B' & G'); try lia.
        { rewrite FlatTreeFacts.even_mod. lia. }
        { replace (u - 1 + 1) with u by lia. exact V1r. }
        { rewrite p2_0. lia. }
        { rewrite p2_0, V1b. f_equal. lia. }
        replace (u - 1 + 1) with u in Hes by lia. cbn [Nat.add] in Hes, R', L', B'.
        replace ((2 * m + 1) * p2 k) with (X + p2 k) in * by lia.
        assert (V' : vinv cr bs c' (X + p2 k)).
        { unfold vinv. replace (X + p2 k) with ((2 * m + 1) * p2 k) by lia.
          rewrite rrl_shift. cbn [Nat.add]. replace ((2 * m + 1) * p2 k) with (X + p2 k) by lia. auto. }
        destruct (extra_rest_roots w g (X + p2 k) c' k (2 * m + 1)) as (c3 & it3 & Hrest & V3 & G3);
          [exact HP'|lia|exact V'|lia|lia| |].
        { intros Lx. assert (log2n (w - (X + p2 k)) < k)%nat; [|lia].
          apply p2_lt_mono. pose proof (log2n_spec (w - (X + p2 k)) ltac:(lia)). lia. }
        rewrite Hes, extra_siblings_stop.
        * destruct (roots_from g (X + p2 k) w) as [|y0 l0] eqn:Erf.
          -- cbn [map extra_rest] in Hrest. injection Hrest as <- <-. cbn [map].
             eexists _, _, _, _, _. split; [reflexivity|]. cbn [extra_rest].
             split; [reflexivity|]. split; [exact V3|exact G'].
          -- eexists _, _, _, _, _. split; [reflexivity|]. cbn [map] in Hrest |- *.
             split; [exact Hrest|]. split; [exact V3|]. eapply cs_grown_trans; eassumption.
        * rewrite FlatTreeFacts.even_mod. lia.
        * destruct g as [|g']; [cbn [roots_from map]; exact I|].
          cbn [roots_from]. destruct (N.leb_spec w (X + p2 k)) as [Lw|Lw]; [cbn [map]; exact I|].
          cbv zeta. cbn [map]. unfold rn. cbn [fst snd]. rewrite ref_node_index.
          intros Ei. apply ft_index_inj in Ei.
          assert (log2n (w - (X + p2 k)) < k)%nat; [|lia].
          apply p2_lt_mono. pose proof (log2n_spec (w - (X + p2 k)) ltac:(lia)). lia.
      + (* u ends exactly where the root (k, 2m) of w starts *)
        assert (EXu : X = u) by lia.
        destruct (rrl_head u 0 Hu) as (d0 & o0 & l0 & Erl & Ev0 & Es0). rewrite p2_0 in Es0.
        rewrite Erl. cbn [it_hd fst snd].
        cbn [roots_from]. destruct (N.leb_spec w X) as [L'|_]; [lia|]. cbv zeta. fold k. rewrite Ed.
        pose proof (p2_pos d0) as Hpd0.
        assert (Hd0 : (d0 < g64)%nat).
        { apply p2_lt_mono. nia. }
        assert (Hkd : (k <= d0)%nat).
        { destruct HP as (j & m0 & Ej & _ & Hj).
          assert (j <= d0)%nat.
          { apply (odd_p2_le (o0 + 1) d0 m0 j); [rewrite FlatTreeFacts.even_mod in Ev0; lia|lia]. }
          assert (k < j)%nat by (apply p2_lt_mono; lia). lia. }
        assert (V1 : vinv cr bs c1 X) by (rewrite EXu; unfold vinv; auto).
        destruct (extra_rest_roots w (S g) X c1 d0 (o0 + 1)) as (c3 & it3 & Hrest & V3 & G3);
          [exact HP|exact Hg|exact V1|lia|lia| |].
        { intros _. exact Hkd. }
        cbn [roots_from] in Hrest. destruct (N.leb_spec w X) as [L'|_]; [lia|]. cbv zeta in Hrest.
        fold k in Hrest. rewrite Ed in Hrest.
        rewrite extra_siblings_stop; [|exact Ev0|].
        * cbn [map] in Hrest |- *. eexists _, _, _, _, _. split; [reflexivity|].
          split; [exact Hrest|]. split; [exact V3|exact G3].
        * cbn [map]. unfold rn. cbn [fst snd]. rewrite ref_node_index.
          intros Ei. apply ft_index_inj in Ei. rewrite FlatTreeFacts.even_mod in Ev0. lia.
  Qed.


  Lemma extra_phase_addl u w c1 :
    0 < u -> u <= w -> w < p2 g64 -> vinv cr bs c1 u ->
    exists c2 it2 rest c3 it3,
      extra_siblings cr c1 (it_hd (rrl 0 u)) (addl_nodes cr bs u w) = Ok (c2, it2, rest) /\
      extra_rest cr c2 it2 rest = Ok (c3, it3) /\ vinv cr bs c3 w /\ cs_grown cr bs c1 c3.
  Proof.
    intros Hu Huw Hw64 V1. destruct (N.ltb_spec u w) as [Lw|Lw].
    - apply (extra_phase u w c1 Hu Lw Hw64 V1 g64 0 (Nat.le_refl _) (pref_0 w)); lia.
    - assert (u = w) as <- by lia. cbn [extra_siblings]. eexists _, _, _, _, _. split; [reflexivity|].
      cbn [extra_rest]. split; [reflexivity|]. split; [exact V1|apply cs_grown_refl].
  Qed.

  (* the verifier's upgrade section in general: upgrade r -> u, additional nodes u -> w, signature for w *)
  Lemma verify_upgrade_ok2 c r u w fork nodes sg pk broot q1 :
    0 < r -> r < u -> u <= w -> 2 * w <= u64_max -> vinv cr bs c r ->
    serves (mkQ nodes broot) (upg_nodes cr bs r u) q1 ->
    length sg = 64%nat ->
    cr_verify cr pk (signable (tree_hash cr (ref_roots cr bs w)) w fork) sg = true ->
    exists c3,
      verify_upgrade cr fork (mkDataUpgrade r (u - r) nodes (addl_nodes cr bs u w) sg) broot pk c
        = Ok (match q_extra q1 with None => true | Some _ => false end,
              cs_set_hash_sig (cs_set_fork c3 fork) (tree_hash cr (ref_roots cr bs w)) sg) /\
      vinv cr bs c3 w /\ cs_grown cr bs c c3 /\ cs_upgraded c3 = true.
  Proof.
    intros Hr Hru Huw H64 V Hs Hsg Hver.
    pose proof climb_64 as Hc64.
    assert (Hw64 : w < p2 g64) by (rewrite p2_64; unfold u64_max in H64; lia).
    pose proof (vinv_roots cr bs c r V) as Hroots.
    assert (Hroots' : cs_roots c = [] ++ map (rn cr bs) (roots_from g64 0 r)).
    { rewrite Hroots, ref_roots_rrl. cbn [app]. f_equal. apply roots_from_0. lia. }
    destruct (url_main cr bs total_fits r u c Hr Hru V g64 CLIMB 0 (mkQ nodes broot) q1 [])
      as (c1 & it1 & Hrun & V1 & G1 & U1);
      [exact Hc64|exact Hc64|apply pref_0|lia|lia|exact Hroots'|exact Hs|].
    assert (Eg : match cs_roots c with [] => false | _ :: _ => true end = true).
    { destruct V as (_ & V & _). destruct (cs_roots c) as [|x l]; [|reflexivity].
      cbn [rev] in V. symmetry in V. apply map_eq_nil in V. exfalso. apply (rrl_nonempty 0 r Hr V). }
    assert (El : exists x l, rrl 0 u = x :: l).
    { destruct (rrl 0 u) as [|x l] eqn:E; [exfalso; apply (rrl_nonempty 0 u ltac:(lia) E)|eauto]. }
    destruct El as (x0 & l0 & Erl).
    assert (Elast : last_root_index c1 = Ok (n_index (rn cr bs x0))).
    { unfold last_root_index. destruct V1 as (_ & V1 & _). rewrite V1, Erl. reflexivity. }
    assert (Ehd : it_new (n_index (rn cr bs x0)) = it_hd (rrl 0 u)).
    { rewrite Erl. cbn [it_hd]. unfold rn. rewrite ref_node_index. apply FlatTreeFacts.it_new_index. }
    destruct (extra_phase_addl u w c1 ltac:(lia) Huw Hw64 V1) as (c2 & it2 & rest & c3 & it3 & He1 & He2 & V3 & G3).
    exists c3. split; [|split; [exact V3|split; [eapply cs_grown_trans; eassumption|eapply cs_grown_upgraded; eassumption]]].
    unfold verify_upgrade. cbn [du_nodes du_start du_length du_additional du_signature].
    rewrite NoPanic.add64_ok by lia. cbn [bind]. replace (r + (u - r)) with u by lia.
    rewrite NoPanic.mul64_ok by lia. cbn [bind].
    rewrite Eg. change (it_new 0) with (mkIter (2 * 0) 0 2). cbn [length] in Hrun. rewrite Hrun. cbn [bind].
    rewrite Elast. cbn [bind]. rewrite Ehd, He1. cbn [bind]. rewrite He2. cbn [bind].
    unfold cs_verify_and_set_signature, parse_signature. rewrite Hsg. cbn [Nat.eqb bind].
    change (Nat.eqb 64 64) with true. cbn [bind].
    unfold cs_signable, cs_tree_hash. cbn [cs_set_fork cs_length cs_fork cs_roots].
    rewrite (vinv_roots cr bs c3 w V3). destruct V3 as (-> & _ & _). rewrite Hver. reflexivity.
  Qed.

  (* Class B (and A as the case u = w).  Upgrade request {start = r, length = u - r} with u <= w: the
     writer adds the nodes from u to w, the replica ends with the writer's roots for w. *)
  Theorem partial_upgrade_accepted t tf rt rtf w r u sg pk :
    lookups cr t tf bs w -> t_length t = w -> t_signature t = Some sg ->
    t_roots rt = ref_roots cr bs r -> t_length rt = r -> t_byte_length rt = prefix_size bs r ->
    0 < r -> r < u -> u <= w -> 2 * w <= u64_max ->
    length sg = 64%nat ->
    cr_verify cr pk (signable (tree_hash cr (ref_roots cr bs w)) w (t_fork t)) sg = true ->
    let up := mkDataUpgrade r (u - r) (upg_nodes cr bs r u) (addl_nodes cr bs u w) sg in
    exists cs,
      create_valueless_proof t tf None None None (Some (mkReqUpgrade r (u - r)))
        = Ok (mkVproof (t_fork t) None None None (Some up)) /\
      verify_proof cr rt rtf (mkProof (t_fork t) None None None (Some up)) pk = Ok cs /\
      cs_roots cs = ref_roots cr bs w /\ cs_length cs = w /\ cs_byte_length cs = prefix_size bs w /\
      cs_fork cs = t_fork t /\ cs_upgraded cs = true /\ cs_signature cs = Some sg /\
      cs_hash cs = Some (tree_hash cr (ref_roots cr bs w)) /\ cs_ancestors cs = r /\
      Forall (is_ref cr bs) (cs_nodes cs) /\ commitable rt cs = true /\
      tree_commit rt cs = Ok (mkTree (ref_roots cr bs w) w (prefix_size bs w) (t_fork t) (Some sg)
                                (add_nodes (t_unflushed rt) (cs_nodes cs))).
  Proof.
    intros Hlook Hl Hsg Hroots Hrl Hrb Hr Hru Huw H64 Hs64 Hver up.
    pose proof (upgrade_only_created cr bs total_fits t tf w r u sg Hlook Hl Hsg Hr Hru Huw H64) as Hc.
    fold up in Hc.
    pose proof (vinv_tree_changeset cr bs rt r Hroots Hrl Hrb) as V.
    destruct (verify_upgrade_ok2 (tree_changeset rt) r u w (t_fork t) (upg_nodes cr bs r u) sg pk None (mkQ [] None)
                Hr Hru Huw H64 V) as (c1 & Hvu & V1 & G1 & U1); [|exact Hs64|exact Hver|].
    { apply serves_plain. intros x [=]. }
    cbn [q_extra] in Hvu.
    exists (cs_set_hash_sig (cs_set_fork c1 (t_fork t)) (tree_hash cr (ref_roots cr bs w)) sg).
    split; [exact Hc|]. split.
    { unfold verify_proof. cbn [p_block p_hash p_seek p_upgrade p_fork verify_tree bind].
      unfold up. rewrite Hvu. cbn [bind]. reflexivity. }
    pose proof (vinv_roots cr bs c1 w V1) as R1. destruct V1 as (L1 & _ & B1).
    pose proof G1 as (A1 & _ & _ & _ & _ & O1 & O2 & _).
    cbn [tree_changeset cs_ancestors cs_orig_length cs_orig_fork] in A1, O1, O2.
    cbn [cs_set_hash_sig cs_set_fork cs_roots cs_length cs_byte_length cs_fork cs_upgraded cs_signature
         cs_hash cs_ancestors].
    assert (Hn : Forall (is_ref cr bs) (cs_nodes c1)).
    { apply (cs_nodes_grown cr bs (tree_changeset rt) c1 G1). constructor. }
    assert (Hcm : commitable rt (cs_set_hash_sig (cs_set_fork c1 (t_fork t)) (tree_hash cr (ref_roots cr bs w)) sg) = true).
    { unfold commitable. cbn [cs_set_hash_sig cs_set_fork cs_orig_fork cs_orig_length cs_upgraded].
      rewrite O1, O2, U1, !N.eqb_refl. reflexivity. }
    repeat (split; [first [assumption|reflexivity|congruence]|]).
    unfold tree_commit. rewrite Hcm. cbn [negb cs_set_hash_sig cs_set_fork cs_upgraded cs_ancestors cs_orig_length
      cs_roots cs_length cs_byte_length cs_fork cs_signature].
    rewrite U1, A1, O1, Hrl. destruct (N.ltb_spec r r) as [L|_]; [lia|].
    rewrite R1, L1, B1. reflexivity.
  Qed.
End ClassB.

(* ---------- class B on the toy instance: replica of length 3 asks for the upgrade 3 -> 4, writer at 5 ---------- *)
Example ex_partial_upgrade_applies :
  map n_index (upg_nodes ex_cr ex_blocks 3 4) = [6] /\ map n_index (addl_nodes ex_cr ex_blocks 4 5) = [8] /\
  exists cs,
    create_valueless_proof ex_wt file_empty None None None (Some (mkReqUpgrade 3 (4 - 3)))
      = Ok (mkVproof (t_fork ex_wt) None None None
              (Some (mkDataUpgrade 3 (4 - 3) (upg_nodes ex_cr ex_blocks 3 4) (addl_nodes ex_cr ex_blocks 4 5) ex_sg))) /\
    verify_proof ex_cr ex_r3 file_empty
      (mkProof (t_fork ex_wt) None None None
         (Some (mkDataUpgrade 3 (4 - 3) (upg_nodes ex_cr ex_blocks 3 4) (addl_nodes ex_cr ex_blocks 4 5) ex_sg))) ex_key = Ok cs /\
    cs_roots cs = ref_roots ex_cr ex_blocks 5 /\ cs_length cs = 5 /\ commitable ex_r3 cs = true.
Proof.
  split; [vm_compute; reflexivity|]. split; [vm_compute; reflexivity|].
  destruct (partial_upgrade_accepted ex_cr ex_blocks ltac:(vm_compute; discriminate)
              ex_wt file_empty ex_r3 file_empty 5 3 4 ex_sg ex_key)
    as (cs & Hc & Hv & R & L & _ & _ & _ & _ & _ & _ & _ & Hcm & _).
  - exact ex_lookups5.
  - vm_compute. reflexivity.
  - vm_compute. reflexivity.
  - vm_compute. reflexivity.
  - vm_compute. reflexivity.
  - vm_compute. reflexivity.
  - lia.
  - lia.
  - lia.
  - vm_compute. discriminate.
  - vm_compute. reflexivity.
  - vm_compute. reflexivity.
  - exists cs. cbv zeta in Hc, Hv. repeat (split; [assumption|]). assumption.
Qed.

(* ====================================================================================== *)
(* 10. class C with partial upgrades                                                        *)
(* ====================================================================================== *)

Section ClassCB.
  Variable cr : crypto.
  Variable bs : list bytes.
  Hypothesis total_fits : sumN (map len bs) <= u64_max.

  Lemma additional_created t tf w (Hlook : lookups cr t tf bs w) u p :
    0 < u -> u < w -> 2 * w <= u64_max ->
    additional_upgrade_proof t tf (2 * u) (2 * w) p
    = Ok (mkLp (lp_seek p) (lp_nodes p) (lp_upgrade p) (Some (upg_nodes cr bs u w))).
  Proof.
    intros Hu Huw H64. unfold additional_upgrade_proof. destruct (N.eqb_spec (2 * u) 0) as [E|_]; [lia|].
    change (it_new 0) with (mkIter (2 * 0) 0 2).
    assert (Hns : nosub false p 0 (2 * w)) by (left; reflexivity).
    rewrite (upgrade_loop_spec cr bs total_fits t tf w Hlook None false 0 false u w p Hu Huw (N.le_refl w) Hns g64 CLIMB 0 []);
      [|apply climb_64|apply climb_64|apply pref_0|rewrite p2_64; unfold u64_max in H64; lia|lia].
    cbn [bind app]. reflexivity.
  Qed.

  (* C1 with a partial upgrade r -> u <= w *)
  Theorem block_partial_upgrade_below_accepted t tf rt rtf w r u i k sg pk :
    lookups cr t tf bs w -> t_length t = w -> t_signature t = Some sg ->
    t_roots rt = ref_roots cr bs r -> t_length rt = r -> t_byte_length rt = prefix_size bs r ->
    (forall j n, optional_node rt rtf j = Ok (Some n) -> n_hash n = n_hash (ref_at cr bs j)) ->
    0 < r -> r < u -> u <= w -> 2 * w <= u64_max -> i < r ->
    missing_nodes rt rtf (2 * i) = Ok k ->
    it_contains (it_up_n (N.to_nat k) (it_new (2 * i))) (2 * t_length rt) = false ->
    length sg = 64%nat ->
    cr_verify cr pk (signable (tree_hash cr (ref_roots cr bs w)) w (t_fork t)) sg = true ->
    let ns := path_nodes cr bs (N.to_nat k) i in
    let up := mkDataUpgrade r (u - r) (upg_nodes cr bs r u) (addl_nodes cr bs u w) sg in
    exists cs,
      create_valueless_proof t tf (Some (mkReqBlock i k)) None None (Some (mkReqUpgrade r (u - r)))
        = Ok (mkVproof (t_fork t) (Some (mkDataHash i ns)) None None (Some up)) /\
      verify_proof cr rt rtf (mkProof (t_fork t) (Some (mkDataBlock i (blk bs i) ns)) None None (Some up)) pk = Ok cs /\
      cs_roots cs = ref_roots cr bs w /\ cs_length cs = w /\ cs_byte_length cs = prefix_size bs w /\
      cs_fork cs = t_fork t /\ cs_upgraded cs = true /\ cs_signature cs = Some sg /\
      cs_ancestors cs = r /\ Forall (is_ref cr bs) (cs_nodes cs) /\
      In (ref_node cr bs 0 i) (cs_nodes cs) /\ (forall n, In n ns -> In n (cs_nodes cs)) /\
      commitable rt cs = true.
  Proof.
    intros Hlook Hl Hsg Hroots Hrl Hrb Hrep Hr Hru Huw H64 Hir Hm Hnc Hs64 Hver ns up.
    set (kk := N.to_nat k) in *. set (o := i / p2 kk).
    assert (H2i : 2 * i < 2 * t_length rt) by lia.
    destruct (missing_nodes_gives_stored_root rt rtf i k Hm H2i) as (Hfuel & _ & _). fold kk in Hfuel.
    destruct (missing_nodes_request_wellformed rt rtf i k u Hm H2i ltac:(lia) Hnc) as (Hroot & n0 & Hn0).
    fold kk in Hroot, Hn0, Hnc.
    rewrite it_new_leaf2 in Hroot, Hn0, Hnc. change (it_at 0 i) with (it_at (N.of_nat 0) i) in Hroot, Hn0, Hnc.
    rewrite it_up_n_coord in Hroot, Hn0, Hnc. cbn [Nat.add] in Hroot, Hn0, Hnc. fold o in Hroot, Hn0, Hnc.
    pose proof (p2_pos kk) as Hpk.
    assert (Ho1 : o * p2 kk <= i) by (unfold o; nia).
    assert (Ho2 : i < (o + 1) * p2 kk).
    { unfold o. pose proof (N.mod_lt i (p2 kk) ltac:(lia)). pose proof (N.div_mod' i (p2 kk)). nia. }
    assert (Ho3 : (o + 1) * p2 kk <= r).
    { rewrite Hrl, it_contains_covers in Hnc. unfold covers in Hnc. cbn [fst snd] in Hnc.
      apply andb_false_iff in Hnc. destruct Hnc as [Hc|Hc]; lia. }
    (* the writer *)
    assert (Hcreate : create_valueless_proof t tf (Some (mkReqBlock i k)) None None (Some (mkReqUpgrade r (u - r)))
                      = Ok (mkVproof (t_fork t) (Some (mkDataHash i ns)) None None (Some up))).
    { unfold create_valueless_proof, normalize_indexed. cbn [ru_start ru_length rb_index rb_nodes bind].
      unfold u64_max in H64.
      rewrite !NoPanic.mul64_ok by (unfold u64_max; lia). cbn [bind].
      rewrite NoPanic.add64_ok by (unfold u64_max; lia). cbn [bind].
      replace (r * 2 + (u - r) * 2) with (2 * u) by lia. rewrite (N.mul_comm r 2), (N.mul_comm i 2), Hl.
      destruct (N.leb_spec (2 * u) (2 * r)) as [L1|_]; [lia|].
      destruct (N.ltb_spec (2 * w) (2 * u)) as [L2|_]; [lia|]. cbn [orb negb andb bind ix_last ix_index ix_nodes].
      destruct (N.ltb_spec i r) as [_|L3]; [|lia].
      rewrite Hroot. cbn [bind]. unfold it_at at 1. cbn [it_index].
      rewrite (block_and_seek_value cr bs total_fits t tf w Hlook i k i (2 * w) kk o lp_empty Ho1 Ho2 ltac:(lia) Hfuel).
      cbn [bind negb lp_seek lp_upgrade lp_additional lp_empty]. fold ns.
      unfold upgrade_proof. destruct (N.eqb_spec (2 * r) 0) as [E|_]; [lia|].
      change (it_new 0) with (mkIter (2 * 0) 0 2).
      assert (Hns : nosub true (mkLp None (Some ns) None None) (ft_index (N.of_nat kk) o) (2 * u))
        by (right; left; discriminate).
      rewrite (upgrade_loop_spec cr bs total_fits t tf w Hlook _ false _ true r u _ Hr Hru Huw Hns g64 CLIMB 0 []);
        [|apply climb_64|apply climb_64|apply pref_0
         |rewrite p2_64; lia|lia].
      cbn [bind app lp_seek lp_nodes lp_upgrade lp_additional].
      destruct (N.ltb_spec u w) as [Lw|Lw].
      - destruct (N.ltb_spec (2 * u) (2 * w)) as [_|L3]; [|lia].
        rewrite (additional_created t tf w Hlook u _ ltac:(lia) Lw H64). cbn [bind lp_seek lp_nodes lp_upgrade lp_additional].
        rewrite Hsg. unfold up. reflexivity.
      - destruct (N.ltb_spec (2 * u) (2 * w)) as [L3|_]; [lia|].
        cbn [bind lp_seek lp_nodes lp_upgrade lp_additional]. rewrite Hsg. unfold up. reflexivity. }
    (* the replica *)
    destruct (verify_tree_ref cr bs total_fits i kk o (tree_changeset rt) Hfuel Ho1 Ho2 ltac:(unfold u64_max in *; lia))
      as (vis & Hvt & Hvis & Hvin). fold ns in Hvt.
    set (c1 := cs_push_nodes (tree_changeset rt) (ref_node cr bs 0 i :: vis)) in *.
    assert (V : vinv cr bs c1 r).
    { pose proof (vinv_tree_changeset cr bs rt r Hroots Hrl Hrb) as V. exact V. }
    pose proof (upg_idx_tiles bs total_fits r u Hr Hru ltac:(lia)) as T.
    destruct (verify_upgrade_ok2 cr bs total_fits c1 r u w (t_fork t) (upg_nodes cr bs r u) sg pk
                (Some (ref_node cr bs kk o)) (mkQ [] (Some (ref_node cr bs kk o))) Hr Hru Huw H64 V)
      as (c2 & Hvu & V2 & G2 & U2); [|exact Hs64|exact Hver|].
    { apply serves_plain. intros x [= <-]. apply Forall_forall. intros n Hn.
      apply in_map_iff in Hn. destruct Hn as (y & <- & Hy). unfold rn. rewrite !ref_node_index.
      destruct (tiles_in _ _ _ y T Hy) as [Ty _].
      pose proof (idx_ge y) as G. pose proof (idx_lt (kk, o) r Ho3) as Lt. unfold idx in *. cbn [fst snd] in *. lia. }
    cbn [q_extra] in Hvu.
    exists (cs_set_hash_sig (cs_set_fork c2 (t_fork t)) (tree_hash cr (ref_roots cr bs w)) sg).
    split; [exact Hcreate|]. split.
    { unfold verify_proof. cbn [p_block p_hash p_seek p_upgrade p_fork]. rewrite Hvt. cbn [bind].
      unfold up. rewrite Hvu. cbn [bind]. rewrite ref_node_index.
      change (it_index (it_at (N.of_nat kk) o)) with (ft_index (N.of_nat kk) o) in Hn0.
      rewrite (optional_required _ _ _ _ Hn0). cbn [bind].
      assert (B : bytes_eqb (n_hash n0) (n_hash (ref_node cr bs kk o)) = true).
      { apply bytes_eqb_eq. rewrite (Hrep _ _ Hn0), ref_at_index. reflexivity. }
      rewrite B. reflexivity. }
    pose proof (vinv_roots cr bs c2 w V2) as R2. destruct V2 as (L2 & _ & B2).
    pose proof G2 as (A2 & _ & _ & _ & _ & O1 & O2 & _).
    cbn [c1 cs_push_nodes tree_changeset cs_ancestors cs_orig_length cs_orig_fork] in A2, O1, O2.
    assert (Hn1 : Forall (is_ref cr bs) (cs_nodes c1)).
    { unfold c1. rewrite cs_nodes_push_tc. constructor; [apply ref_node_is_ref|exact Hvis]. }
    pose proof (cs_nodes_grown cr bs c1 c2 G2 Hn1) as Hn2.
    assert (Hsub : forall n, In n (cs_nodes c1) -> In n (cs_nodes c2)).
    { destruct G2 as (_ & _ & _ & _ & _ & _ & _ & new & E & _). intros n. unfold cs_nodes.
      rewrite !rev_append_rev, !app_nil_r, E, rev_app_distr. intros Hin. apply in_or_app. left. exact Hin. }
    cbn [cs_set_hash_sig cs_set_fork cs_roots cs_length cs_byte_length cs_fork cs_upgraded cs_signature
         cs_hash cs_ancestors].
    split; [exact R2|]. split; [exact L2|]. split; [exact B2|]. split; [reflexivity|]. split; [exact U2|].
    split; [reflexivity|]. split; [congruence|]. split; [exact Hn2|].
    split.
    { apply Hsub. unfold c1. rewrite cs_nodes_push_tc. left. reflexivity. }
    split.
    { intros n Hn. apply Hsub. unfold c1. rewrite cs_nodes_push_tc. right.
      unfold ns, path_nodes in Hn. apply in_map_iff in Hn. destruct Hn as (x & <- & Hx). apply Hvin, Hx. }
    unfold commitable. cbn [cs_set_hash_sig cs_set_fork cs_orig_fork cs_orig_length cs_upgraded].
    rewrite O1, O2, U2, !N.eqb_refl. reflexivity.
  Qed.


  (* C2 with a partial upgrade r -> u <= w: the block lies in r <= i < u *)
  Theorem block_partial_upgrade_inside_accepted t tf rt rtf w r u i k sg pk :
    lookups cr t tf bs w -> t_length t = w -> t_signature t = Some sg ->
    t_roots rt = ref_roots cr bs r -> t_length rt = r -> t_byte_length rt = prefix_size bs r ->
    0 < r -> r < u -> u <= w -> 2 * w <= u64_max -> r <= i -> i < u ->
    length sg = 64%nat ->
    cr_verify cr pk (signable (tree_hash cr (ref_roots cr bs w)) w (t_fork t)) sg = true ->
    exists l1 y l2 cs,
      upg_idx g64 0 r u = l1 ++ y :: l2 /\ covers y i = true /\
      let ns := path_nodes cr bs (fst y) i in
      let up := mkDataUpgrade r (u - r) (map (rn cr bs) (l1 ++ l2)) (addl_nodes cr bs u w) sg in
      create_valueless_proof t tf (Some (mkReqBlock i k)) None None (Some (mkReqUpgrade r (u - r)))
        = Ok (mkVproof (t_fork t) (Some (mkDataHash i ns)) None None (Some up)) /\
      verify_proof cr rt rtf (mkProof (t_fork t) (Some (mkDataBlock i (blk bs i) ns)) None None (Some up)) pk = Ok cs /\
      cs_roots cs = ref_roots cr bs w /\ cs_length cs = w /\ cs_byte_length cs = prefix_size bs w /\
      cs_fork cs = t_fork t /\ cs_upgraded cs = true /\ cs_signature cs = Some sg /\
      cs_ancestors cs = r /\ Forall (is_ref cr bs) (cs_nodes cs) /\
      In (ref_node cr bs 0 i) (cs_nodes cs) /\ (forall n, In n ns -> In n (cs_nodes cs)) /\
      commitable rt cs = true.
  Proof.
    intros Hlook Hl Hsg Hroots Hrl Hrb Hr Hru Huw H64 Hri Hiu Hs64 Hver.
    pose proof (upg_idx_tiles bs total_fits r u Hr Hru ltac:(lia)) as T.
    destruct (tiles_split _ _ _ i T Hri Hiu) as (l1 & [d o] & l2 & El & T1 & C1 & C2 & C3).
    cbn [fst snd] in *.
    exists l1, (d, o), l2.
    assert (Hcov : covers (d, o) i = true).
    { unfold covers. cbn [fst snd]. apply andb_true_iff. lia. }
    assert (Hd : (d < CLIMB)%nat).
    { assert (p2 d < p2 g64).
      { rewrite p2_64. unfold u64_max in H64. pose proof (p2_pos d). nia. }
      apply p2_lt_mono in H. pose proof climb_64. lia. }
    assert (Hl1 : forall x, In x l1 -> covers x i = false /\ idx x <> idx (d, o)).
    { intros x Hx. destruct (tiles_in _ _ _ x T1 Hx) as [_ Tx]. split.
      - unfold covers. apply andb_false_iff. right. lia.
      - pose proof (idx_lt x _ Tx). pose proof (idx_ge (d, o)). cbn [fst snd] in *. lia. }
    cbv zeta. cbn [fst].
    set (ns := path_nodes cr bs d i).
    set (up := mkDataUpgrade r (u - r) (map (rn cr bs) (l1 ++ l2)) (addl_nodes cr bs u w) sg).
    (* the writer *)
    assert (Hemit : emit_all cr bs i (upg_idx g64 0 r u) lp_empty []
                    = (mkLp None (Some ns) None None, map (rn cr bs) (l1 ++ l2))).
    { rewrite El, emit_all_app.
      rewrite (emit_all_nocover cr bs i l1 lp_empty []) by (intros x Hx; apply Hl1, Hx).
      cbn [fst snd emit_all app]. rewrite Hcov. cbn [andb pempty lp_empty lp_nodes lp_seek lp_upgrade lp_additional fst].
      rewrite emit_all_nonempty by reflexivity. rewrite map_app. reflexivity. }
    assert (Hcreate : create_valueless_proof t tf (Some (mkReqBlock i k)) None None (Some (mkReqUpgrade r (u - r)))
                      = Ok (mkVproof (t_fork t) (Some (mkDataHash i ns)) None None (Some up))).
    { unfold create_valueless_proof, normalize_indexed. cbn [ru_start ru_length rb_index rb_nodes bind].
      unfold u64_max in H64.
      rewrite !NoPanic.mul64_ok by (unfold u64_max; lia). cbn [bind].
      rewrite NoPanic.add64_ok by (unfold u64_max; lia). cbn [bind].
      replace (r * 2 + (u - r) * 2) with (2 * u) by lia. rewrite (N.mul_comm r 2), (N.mul_comm i 2), Hl.
      destruct (N.leb_spec (2 * u) (2 * r)) as [L1|_]; [lia|].
      destruct (N.ltb_spec (2 * w) (2 * u)) as [L2|_]; [lia|]. cbn [orb negb andb bind ix_last ix_index ix_nodes].
      destruct (N.ltb_spec i r) as [L3|_]; [lia|]. cbn [bind negb].
      unfold upgrade_proof. destruct (N.eqb_spec (2 * r) 0) as [E|_]; [lia|].
      change (it_new 0) with (mkIter (2 * 0) 0 2).
      rewrite (main_emit cr bs total_fits t tf w Hlook i k i r u Hr Hru Huw g64 CLIMB 0 lp_empty []);
        [|apply climb_64|apply climb_64|apply pref_0|rewrite p2_64; lia|lia].
      rewrite Hemit. cbn [bind fst snd lp_seek lp_nodes lp_upgrade lp_additional].
      destruct (N.ltb_spec u w) as [Lw|Lw].
      - destruct (N.ltb_spec (2 * u) (2 * w)) as [_|L3]; [|lia].
        rewrite (additional_created t tf w Hlook u _ ltac:(lia) Lw H64). cbn [bind lp_seek lp_nodes lp_upgrade lp_additional].
        rewrite Hsg. reflexivity.
      - destruct (N.ltb_spec (2 * u) (2 * w)) as [L3|_]; [lia|].
        cbn [bind lp_seek lp_nodes lp_upgrade lp_additional]. rewrite Hsg. reflexivity. }
    (* the replica *)
    destruct (verify_tree_ref cr bs total_fits i d o (tree_changeset rt) Hd C1 C2 ltac:(unfold u64_max in *; lia))
      as (vis & Hvt & Hvis & Hvin). fold ns in Hvt.
    set (c1 := cs_push_nodes (tree_changeset rt) (ref_node cr bs 0 i :: vis)) in *.
    assert (V : vinv cr bs c1 r).
    { pose proof (vinv_tree_changeset cr bs rt r Hroots Hrl Hrb) as V. exact V. }
    destruct (verify_upgrade_ok2 cr bs total_fits c1 r u w (t_fork t) (map (rn cr bs) (l1 ++ l2)) sg pk
                (Some (ref_node cr bs d o)) (mkQ [] None) Hr Hru Huw H64 V)
      as (c2 & Hvu & V2 & G2 & U2); [|exact Hs64|exact Hver|].
    { rewrite El, !map_app. cbn [map]. unfold rn at 3. cbn [fst snd].
      apply serves_extra. apply Forall_forall. intros n Hn.
      apply in_map_iff in Hn. destruct Hn as (x & <- & Hx). unfold rn. rewrite !ref_node_index.
      apply (Hl1 x Hx). }
    cbn [q_extra] in Hvu.
    exists (cs_set_hash_sig (cs_set_fork c2 (t_fork t)) (tree_hash cr (ref_roots cr bs w)) sg).
    split; [exact El|]. split; [exact Hcov|]. split; [exact Hcreate|]. split.
    { unfold verify_proof. cbn [p_block p_hash p_seek p_upgrade p_fork]. rewrite Hvt. cbn [bind].
      unfold up. rewrite Hvu. cbn [bind]. reflexivity. }
    pose proof (vinv_roots cr bs c2 w V2) as R2. destruct V2 as (L2 & _ & B2).
    pose proof G2 as (A2 & _ & _ & _ & _ & O1 & O2 & _).
    cbn [c1 cs_push_nodes tree_changeset cs_ancestors cs_orig_length cs_orig_fork] in A2, O1, O2.
    assert (Hn1 : Forall (is_ref cr bs) (cs_nodes c1)).
    { unfold c1. rewrite cs_nodes_push_tc. constructor; [apply ref_node_is_ref|exact Hvis]. }
    pose proof (cs_nodes_grown cr bs c1 c2 G2 Hn1) as Hn2.
    assert (Hsub : forall n, In n (cs_nodes c1) -> In n (cs_nodes c2)).
    { destruct G2 as (_ & _ & _ & _ & _ & _ & _ & new & E & _). intros n. unfold cs_nodes.
      rewrite !rev_append_rev, !app_nil_r, E, rev_app_distr. intros Hin. apply in_or_app. left. exact Hin. }
    cbn [cs_set_hash_sig cs_set_fork cs_roots cs_length cs_byte_length cs_fork cs_upgraded cs_signature
         cs_hash cs_ancestors].
    split; [exact R2|]. split; [exact L2|]. split; [exact B2|]. split; [reflexivity|]. split; [exact U2|].
    split; [reflexivity|]. split; [congruence|]. split; [exact Hn2|].
    split.
    { apply Hsub. unfold c1. rewrite cs_nodes_push_tc. left. reflexivity. }
    split.
    { intros n Hn. apply Hsub. unfold c1. rewrite cs_nodes_push_tc. right.
      unfold ns, path_nodes in Hn. apply in_map_iff in Hn. destruct Hn as (x & <- & Hx). apply Hvin, Hx. }
    unfold commitable. cbn [cs_set_hash_sig cs_set_fork cs_orig_fork cs_orig_length cs_upgraded].
    rewrite O1, O2, U2, !N.eqb_refl. reflexivity.
  Qed.
End ClassCB.

(* ====================================================================================== *)
Print Assumptions roots_from_0.
Print Assumptions full_root_at.
Print Assumptions merge_ref_ok.
Print Assumptions append_root_ref.
Print Assumptions grow_spec.
Print Assumptions url_rest.
Print Assumptions url_main.
Print Assumptions connect_spec.
Print Assumptions upgrade_loop_spec.
Print Assumptions upgrade_only_created.
Print Assumptions verify_upgrade_ok.
Print Assumptions upgrade_nonempty_accepted.
Print Assumptions ex_upgrade_nonempty_applies.
Print Assumptions tiles_upg.
Print Assumptions block_and_seek_value.
Print Assumptions verify_tree_ref.
Print Assumptions main_emit.
Print Assumptions block_upgrade_below_accepted.
Print Assumptions block_upgrade_inside_accepted.
Print Assumptions missing_nodes_beyond.
Print Assumptions ex_block_upgrade_below_applies.
Print Assumptions ex_block_upgrade_inside_applies.
Print Assumptions extra_phase.
Print Assumptions verify_upgrade_ok2.
Print Assumptions partial_upgrade_accepted.
Print Assumptions ex_partial_upgrade_applies.
Print Assumptions block_partial_upgrade_below_accepted.
Print Assumptions block_partial_upgrade_inside_accepted.

(* SoundCoreLib.v -- library for SoundCore.v (C04/C03 at the Core level): arithmetic of the root
   decomposition, sound node lookups of a replica (unflushed map + tree store) and their preservation
   by commit and flush, byte offsets in a SPARSE tree (only the left siblings of the path are needed),
   the climb of a block section with sizes (every visited node is the writer's node), the offset
   byte_offset_in_changeset computes for a block-only changeset. *)
From HC Require Import Base NMap Codec CodecFacts Crypto FlatTree Storage Bitfield Oplog Merkle Core.
From HC Require Import FlatTreeFacts StorageFacts BitfieldFacts OplogFacts TreeRef OffsetFacts CoreFacts
                       Sound NoPanic Refine Replicate.
From Coq Require Import FMapPositive ZifyN ZifyNat ZifyBool.
Ltac Zify.zify_post_hook ::= Z.div_mod_to_equations.
Arguments N.add : simpl never.
Arguments N.sub : simpl never.
Arguments N.mul : simpl never.
Arguments N.div : simpl never.
Arguments N.modulo : simpl never.
Arguments N.pow : simpl never.
Arguments N.eqb : simpl never.
Arguments N.ltb : simpl never.
Arguments N.leb : simpl never.
Arguments N.of_nat : simpl never.
Arguments N.to_nat : simpl never.

(* ====================================================================================== *)
(* 1. Arithmetic of the root decomposition                                                 *)
(* ====================================================================================== *)

Lemma p2_add a b : p2 (a + b) = p2 a * p2 b.
Proof. unfold p2. rewrite Nat2N.inj_add. apply N.pow_add_r. Qed.

Lemma p2_N d : 2 ^ N.of_nat d = p2 d.
Proof. reflexivity. Qed.

Lemma div_double_odd n q : 0 < q -> (2 * n + 1) / (2 * q) = n / q.
Proof.
  intros Hq. rewrite <- N.div_div by lia. f_equal. lia.
Qed.

Lemma div_double_even n q : 0 < q -> (2 * n) / (2 * q) = n / q.
Proof.
  intros Hq. rewrite <- N.div_div by lia. f_equal. lia.
Qed.

(* membership in the (reversed) root list: bit e of m is set, the root sits just below m *)
Lemma rrl_in (m : N) : forall d d' o,
  In (d', o) (rrl d m) <-> exists e, d' = (d + e)%nat /\ m / p2 e = o + 1 /\ o mod 2 = 0.
Proof.
  induction m as [|n IH|n IH] using N_bin_ind; intros d d' o.
  - cbn [rrl In]. split; [intros []|]. intros (e & _ & H & _).
    pose proof (p2_pos e). assert (0 / p2 e = 0) by (apply N.div_0_l; lia). lia.
  - rewrite rrl_even, IH. split.
    + intros (e & -> & H & Ho). exists (S e). split; [lia|]. split; [|exact Ho].
      rewrite p2_S, div_double_even by apply p2_pos. exact H.
    + intros (e & -> & H & Ho). destruct e as [|e].
      * rewrite p2_0, N.div_1_r in H. lia.
      * exists e. split; [lia|]. split; [|exact Ho].
        rewrite p2_S, div_double_even in H by apply p2_pos. exact H.
  - rewrite rrl_odd. cbn [In]. rewrite IH. split.
    + intros [E|(e & -> & H & Ho)].
      * injection E as <- <-. exists 0%nat. split; [lia|]. rewrite p2_0, N.div_1_r. lia.
      * exists (S e). split; [lia|]. split; [|exact Ho].
        rewrite p2_S, div_double_odd by apply p2_pos. exact H.
    + intros (e & -> & H & Ho). destruct e as [|e].
      * left. rewrite p2_0, N.div_1_r in H. f_equal; lia.
      * right. exists e. split; [lia|]. split; [|exact Ho].
        rewrite p2_S, div_double_odd in H by apply p2_pos. exact H.
Qed.

Lemma same_block P a b i : a * P <= i -> i < (a + 1) * P -> b * P <= i -> i < (b + 1) * P -> a = b.
Proof.
  intros H1 H2 H3 H4. destruct (N.lt_trichotomy a b) as [L|[E|L]]; [exfalso|exact E|exfalso].
  - pose proof (N.mul_le_mono_r (a + 1) b P ltac:(lia)). lia.
  - pose proof (N.mul_le_mono_r (b + 1) a P ltac:(lia)). lia.
Qed.

(* (d, o) is a root of the tree over r leaves *)
Definition is_root (r : N) (d : nat) (o : N) : Prop := r / p2 d = o + 1 /\ o mod 2 = 0.

Lemma rrl0_in r d o : In (d, o) (rrl 0 r) <-> is_root r d o.
Proof.
  rewrite rrl_in. unfold is_root. split.
  - intros (e & -> & H). exact H.
  - intros H. exists d. split; [reflexivity|exact H].
Qed.

Lemma is_root_bounds r d o : is_root r d o -> (o + 1) * p2 d <= r /\ r < (o + 2) * p2 d.
Proof.
  intros [H _]. pose proof (p2_pos d) as Hp.
  pose proof (N.div_mod r (p2 d) ltac:(lia)) as E. pose proof (N.mod_lt r (p2 d) ltac:(lia)) as L.
  rewrite H in E. nia.
Qed.

(* a full node inside [0, r) that contains a leaf of the root (D, P) is inside that root *)
Lemma node_under_root r D P d o i :
  is_root r D P -> P * p2 D <= i -> i < (P + 1) * p2 D ->
  o * p2 d <= i -> i < (o + 1) * p2 d -> (o + 1) * p2 d <= r -> (d <= D)%nat.
Proof.
  intros HR H1 H2 H3 H4 H5. destruct (is_root_bounds r D P HR) as [B1 B2]. destruct HR as [_ Hev].
  destruct (Nat.le_gt_cases d D) as [L|L]; [exact L|exfalso].
  replace d with (S D + (d - S D))%nat in * by lia. set (e := (d - S D)%nat) in *. clearbody e.
  rewrite p2_add, p2_S in *. pose proof (p2_pos D) as HpD. pose proof (p2_pos e) as Hpe.
  set (M := p2 D) in *. set (g := p2 e) in *.
  assert (A1 : o * (2 * g) <= P) by nia.
  assert (A2 : (o + 1) * (2 * g) <= P + 1) by nia.
  assert (A3 : P + 1 <= (o + 1) * (2 * g)) by nia.
  assert (A4 : P + 1 = 2 * ((o + 1) * g)) by lia.
  lia.
Qed.

(* the left sibling of a node that straddles nothing: if the parent (d+1, o) is not inside [0, r)
   but its left half is and its right half starts inside, the left half is a root of r *)
Lemma left_half_is_root r d o :
  (2 * o + 1) * p2 d <= r -> r < (2 * o + 2) * p2 d -> is_root r d (2 * o).
Proof.
  intros H1 H2. pose proof (p2_pos d) as Hp. unfold is_root. split; [|lia].
  symmetry. apply (N.div_unique r (p2 d) (2 * o + 1) (r - (2 * o + 1) * p2 d)); nia.
Qed.

(* ====================================================================================== *)
(* 2. Node lookups of a replica                                                            *)
(* ====================================================================================== *)

(* the full node at flat index j lies inside the tree over r leaves *)
Definition in_len (r j : N) : Prop := (ft_offset j + 1) * 2 ^ ft_depth j <= r.

Lemma in_len_index r d o : in_len r (ft_index (N.of_nat d) o) <-> (o + 1) * p2 d <= r.
Proof. unfold in_len. rewrite ft_depth_index, ft_offset_index. reflexivity. Qed.

Lemma in_len_mono r r' j : r <= r' -> in_len r j -> in_len r' j.
Proof. unfold in_len. lia. Qed.

Lemma in_len_lt r j : in_len r j -> j + 1 < 2 * r + 1.
Proof.
  unfold in_len. intros H. pose proof (ft_decomp j) as D. pose proof (pow2_pos (ft_depth j)). nia.
Qed.

Lemma all_zero_repeat k : all_zero (repeat 0 k) = true.
Proof. induction k as [|k IH]; [reflexivity|]. cbn [repeat all_zero forallb]. exact IH. Qed.

Lemma all_zero_spec l : all_zero l = true <-> forall k, nth k l 0 = 0.
Proof.
  induction l as [|x l IH].
  - split; [intros _ [|k]; reflexivity|reflexivity].
  - unfold all_zero in *. cbn [forallb]. rewrite andb_true_iff, IH. split.
    + intros [H1 H2] [|k]; [apply N.eqb_eq in H1; now subst|apply H2].
    + intros H. split; [apply N.eqb_eq; symmetry; apply (H 0%nat)|intros k; apply (H (S k))].
Qed.

Lemma all_zero_skipn k l : all_zero l = true -> all_zero (skipn k l) = true.
Proof.
  rewrite !all_zero_spec. intros H j. rewrite nth_skipn_add. apply H.
Qed.

Section Lookups.
  Variable cr : crypto.
  Hypothesis Hhash32 : forall x, length (cr_hash cr x) = 32%nat.
  Hypothesis Hnonblank : forall x, all_zero (cr_hash cr x) = false.
  Variable bs : list bytes.

  Let T := ref_at cr bs.

  Definition writer_fits : Prop :=
    sumN (map len bs) <= u64_max /\ NODE_SIZE * (2 * N.of_nat (length bs)) <= u64_max.

  Lemma T_index j : n_index (T j) = j.
  Proof. apply ref_at_index_id. Qed.

  Lemma T_at d o : T (ft_index (N.of_nat d) o) = ref_node cr bs d o.
  Proof. apply ref_at_index. Qed.

  Lemma T_nonblank j : node_blank (T j) = false.
  Proof. apply ref_at_nonblank, Hnonblank. Qed.

  Lemma T_hash32 j : length (n_hash (T j)) = 32%nat.
  Proof. apply ref_at_hash_length, Hhash32. Qed.

  Lemma T_fits j : sumN (map len bs) <= u64_max -> n_length (T j) <= u64_max.
  Proof.
    intros H. unfold T, ref_at.
    pose proof (ref_node_fits cr bs H (N.to_nat (ft_depth j)) (ft_offset j)) as F.
    unfold fits_u64 in F. lia.
  Qed.

  (* every record of the tree store that reads as a node is the writer's node, inside the tree over
     r leaves; the store is a whole number of records *)
  Definition file_sound (tf : file) (r : N) : Prop :=
    f_len tf mod NODE_SIZE = 0 /\
    forall j data, f_read tf (NODE_SIZE * j) NODE_SIZE = Some data ->
      node_blank (node_from_bytes j data) = false ->
      node_from_bytes j data = T j /\ in_len r j.

  Definition unfl_sound (t : mtree) (r : N) : Prop :=
    forall j nd, nm_get j (t_unflushed t) = Some nd -> nd = T j /\ in_len r j.

  Lemma node_get_sound t tf r j am nd :
    unfl_sound t r -> file_sound tf r ->
    node_get t tf j am = Ok (Some nd) -> nd = T j /\ in_len r j.
  Proof.
    intros Hu [_ Hf] H. unfold node_get in H.
    destruct (nm_get j (t_unflushed t)) as [n0|] eqn:G.
    - destruct (node_blank n0) eqn:B.
      + destruct am; discriminate H.
      + injection H as <-. apply (Hu j n0 G).
    - apply bind_ok in H. destruct H as (off & Hm & H).
      unfold mul64 in Hm. destruct (fits_u64 (NODE_SIZE * j)); [|discriminate Hm]. injection Hm as <-.
      destruct (f_read tf (NODE_SIZE * j) NODE_SIZE) as [data|] eqn:R.
      + destruct (node_blank (node_from_bytes j data)) eqn:B.
        * destruct am; discriminate H.
        * injection H as <-. apply (Hf j data R B).
      + destruct am; discriminate H.
  Qed.

  Lemma required_node_sound t tf r j nd :
    unfl_sound t r -> file_sound tf r ->
    required_node t tf j = Ok nd -> nd = T j /\ in_len r j.
  Proof.
    intros Hu Hf H. unfold required_node in H. apply bind_ok in H. destruct H as ([x|] & Hg & H).
    - injection H as <-. apply (node_get_sound t tf r j false x Hu Hf Hg).
    - discriminate H.
  Qed.

  Lemma unfl_sound_ok t r :
    sumN (map len bs) <= u64_max -> unfl_sound t r -> unflushed_ok t.
  Proof.
    intros Hfit Hu j nd G. destruct (Hu j nd G) as [-> _].
    split; [apply T_index|]. split; [apply T_hash32|apply T_fits, Hfit].
  Qed.

  Lemma unfl_sound_mono t r r' : r <= r' -> unfl_sound t r -> unfl_sound t r'.
  Proof. intros L H j nd G. destruct (H j nd G) as [E I]. split; [exact E|]. eapply in_len_mono; eassumption. Qed.

  Lemma file_sound_mono tf r r' : r <= r' -> file_sound tf r -> file_sound tf r'.
  Proof.
    intros L [A H]. split; [exact A|]. intros j data R B. destruct (H j data R B) as [E I].
    split; [exact E|]. eapply in_len_mono; eassumption.
  Qed.

  (* ---------- commit: adding authentic nodes ---------- *)

  Definition authentic (r : N) (x : node) : Prop := x = T (n_index x) /\ in_len r (n_index x).

  Lemma add_nodes_sound t t' r l :
    unfl_sound t r -> (forall x, In x l -> authentic r x) ->
    t_unflushed t' = add_nodes (t_unflushed t) l -> unfl_sound t' r.
  Proof.
    intros Hu Hl E j nd G. rewrite E in G.
    destruct (add_nodes_get l (t_unflushed t) j) as [(x & Hin & Hi & Hg)|[_ Hg]]; rewrite Hg in G.
    - injection G as <-. destruct (Hl x Hin) as [E1 E2]. rewrite Hi in E1, E2. auto.
    - apply (Hu j nd G).
  Qed.

  (* lookups that gave the writer's node keep giving it; nodes of the list are found *)
  Lemma add_nodes_lookup t t' tf r l j :
    (forall x, In x l -> authentic r x) ->
    t_unflushed t' = add_nodes (t_unflushed t) l ->
    (required_node t tf j = Ok (T j) \/ exists x, In x l /\ n_index x = j) ->
    required_node t' tf j = Ok (T j).
  Proof.
    intros Hl E H.
    destruct (required_node_add cr Hnonblank bs t t' tf l j) as [[_ Hr]|[Hno Hr]].
    - intros x Hx. apply (Hl x Hx).
    - exact E.
    - exact Hr.
    - rewrite Hr. destruct H as [H|(x & Hin & Hi)]; [exact H|]. exfalso. apply (Hno x Hin Hi).
  Qed.

  (* ---------- flush ---------- *)

  Lemma write_nodes_len ws : forall f,
    f_len f mod NODE_SIZE = 0 ->
    (forall v, In v ws -> length (n_hash v) = 32%nat) ->
    f_len (write_nodes f ws) mod NODE_SIZE = 0 /\ f_len f <= f_len (write_nodes f ws).
  Proof.
    induction ws as [|v ws IH]; intros f Hm H32; [split; [exact Hm|cbn; lia]|].
    unfold write_nodes. cbn [fold_left].
    set (f1 := f_write f (NODE_SIZE * n_index v) (node_to_bytes v)). fold (write_nodes f1 ws).
    assert (L0 : len (node_to_bytes v) = NODE_SIZE) by (apply len_node_to_bytes, H32; left; reflexivity).
    assert (Hlen : f_len f1 = N.max (f_len f) (NODE_SIZE * n_index v + NODE_SIZE)).
    { unfold f1. rewrite f_write_len, L0. reflexivity. }
    destruct (IH f1) as [I1 I2].
    - rewrite Hlen. unfold NODE_SIZE in *. lia.
    - intros x Hx. apply H32. right. exact Hx.
    - split; [exact I1|]. lia.
  Qed.

  (* a record slot beyond the old end of the store that no write targets reads as zeros *)
  Lemma write_nodes_gap ws : forall f k i,
    (forall v, In v ws -> length (n_hash v) = 32%nat) ->
    (forall v, In v ws -> n_index v <> k) ->
    (forall i, NODE_SIZE * k <= i -> i < NODE_SIZE * k + NODE_SIZE -> i < f_len f -> f_byte f i = 0) ->
    NODE_SIZE * k <= i -> i < NODE_SIZE * k + NODE_SIZE -> i < f_len (write_nodes f ws) ->
    f_byte (write_nodes f ws) i = 0.
  Proof.
    induction ws as [|v ws IH]; intros f k i H32 Hno Hz H1 H2 H3; [apply Hz; assumption|].
    unfold write_nodes in *. cbn [fold_left] in *.
    set (f1 := f_write f (NODE_SIZE * n_index v) (node_to_bytes v)) in *. fold (write_nodes f1 ws) in *.
    assert (L0 : len (node_to_bytes v) = NODE_SIZE) by (apply len_node_to_bytes, H32; left; reflexivity).
    apply (IH f1 k i); try assumption.
    - intros x Hx. apply H32. right. exact Hx.
    - intros x Hx. apply Hno. right. exact Hx.
    - intros i' A1 A2 A3. unfold f1. rewrite f_write_at by exact A3. rewrite L0.
      assert (Hk : n_index v <> k) by (apply Hno; left; reflexivity).
      destruct ((NODE_SIZE * n_index v <=? i') && (i' <? NODE_SIZE * n_index v + NODE_SIZE)) eqn:E.
      + exfalso. unfold NODE_SIZE in *. lia.
      + destruct (N.ltb_spec i' (f_len f)) as [L|L]; [apply Hz; assumption|reflexivity].
  Qed.

  Lemma node_from_zero_blank k data :
    (forall j, nth j data 0 = 0) -> node_blank (node_from_bytes k data) = true.
  Proof.
    intros H. unfold node_blank, node_from_bytes. cbn [n_hash].
    apply all_zero_skipn. apply all_zero_spec. exact H.
  Qed.

  Lemma tree_flush_sound t t' ops d d' r :
    sumN (map len bs) <= u64_max ->
    tree_flush t = Ok (t', ops) -> apply_sops d ops = Some d' ->
    unfl_sound t r -> file_sound (d_tree d) r ->
    unfl_sound t' r /\ file_sound (d_tree d') r.
  Proof.
    intros Hfit Hf Ha Hu [Hal Hfs]. pose proof (unfl_sound_ok t r Hfit Hu) as Hok.
    rewrite (tree_flush_ok t Hok) in Hf. injection Hf as <- <-.
    rewrite apply_node_writes in Ha. injection Ha as <-.
    set (ws := map snd (nm_elements (t_unflushed t))) in *.
    assert (Hws : forall v, In v ws -> nm_get (n_index v) (t_unflushed t) = Some v).
    { intros v Hv. apply in_map_iff in Hv as ([k v'] & E & Hv). cbn [snd] in E. subst v'.
      apply nm_elements_in in Hv. destruct (Hok k v Hv) as (-> & _). exact Hv. }
    assert (H32 : forall v, In v ws -> length (n_hash v) = 32%nat).
    { intros v Hv. apply Hws in Hv. apply Hok in Hv. tauto. }
    split.
    { intros j nd G. cbn [t_unflushed] in G. rewrite nm_get_empty in G. discriminate G. }
    cbn [d_set d_tree].
    destruct (write_nodes_len ws (d_tree d) Hal H32) as [Hal' Hge].
    split; [exact Hal'|].
    intros k data R B.
    destruct (write_nodes_read ws (d_tree d) k H32) as [(v & Hin & Hk & Hr)|[Hno Hr]].
    - rewrite Hr in R. injection R as <-.
      pose proof (Hws v Hin) as G. destruct (Hok _ _ G) as (_ & Hh & Hl).
      rewrite <- Hk. rewrite node_bytes_roundtrip; [|rewrite Hh; reflexivity|unfold u64_max in Hl; lia].
      rewrite Hk. rewrite Hk in G. apply (Hu k v G).
    - destruct (N.le_gt_cases (NODE_SIZE * k + NODE_SIZE) (f_len (d_tree d))) as [L|L].
      + rewrite (Hr L) in R. apply (Hfs k data R B).
      + exfalso.
        assert (Hk : f_len (d_tree d) <= NODE_SIZE * k) by (unfold NODE_SIZE in *; lia).
        pose proof R as R'. apply f_read_spec in R'. destruct R' as (Rb & Rl & Rn).
        assert (Z : forall j, nth j data 0 = 0).
        { intros j. destruct (Nat.lt_ge_cases j (length data)) as [Lj|Lj]; [|apply nth_overflow; lia].
          replace j with (N.to_nat (N.of_nat j)) by lia.
          rewrite (Rn (N.of_nat j)) by (unfold NODE_SIZE in *; lia).
          apply (write_nodes_gap ws (d_tree d) k); try assumption.
          - intros i A1 A2 A3. lia.
          - lia.
          - unfold NODE_SIZE in *. lia.
          - unfold NODE_SIZE in *. lia. }
        rewrite (node_from_zero_blank k data Z) in B. discriminate B.
  Qed.
End Lookups.

(* ====================================================================================== *)
(* 3. Byte offsets in a sparse tree                                                        *)
(* ====================================================================================== *)

Section SparseOffsets.
  Variable cr : crypto.
  Hypothesis Hhash32 : forall x, length (cr_hash cr x) = 32%nat.
  Hypothesis Hnonblank : forall x, all_zero (cr_hash cr x) = false.
  Variable bs : list bytes.
  Variable t : mtree.
  Variable tf : file.

  (* the left siblings along the path from the roots of r down to block i are found *)
  Definition left_avail (i r : N) : Prop :=
    forall dd o, (2 * o + 1) * p2 dd <= i -> i < (2 * o + 2) * p2 dd -> (2 * o + 2) * p2 dd <= r ->
      required_node t tf (ft_index (N.of_nat dd) (2 * o)) = Ok (ref_node cr bs dd (2 * o)).

  Lemma descend_sparse_ok (r : N) (d : nat) : forall fuel o i off,
    (d < fuel)%nat -> o * p2 d <= i -> i < (o + 1) * p2 d -> (o + 1) * p2 d <= r ->
    left_avail i r ->
    exists res, offset_descend fuel t tf (it_at (N.of_nat d) o) (2 * i) off = Ok (off + res) /\
                prefix_size bs (o * p2 d) + res = prefix_size bs i.
  Proof.
    induction d as [|d IH]; intros fuel o i off Hfuel H1 H2 H3 Hav;
      (destruct fuel as [|fuel]; [lia|]); cbn [offset_descend].
    - rewrite p2_0 in *. assert (i = o) as -> by lia. exists 0.
      cbn [it_at it_index]. change (N.of_nat 0) with 0. rewrite ft_index_leaf, N.eqb_refl.
      split; [f_equal; lia|]. rewrite N.mul_1_r. lia.
    - rewrite p2_S in *. pose proof (p2_pos d) as Hp. set (P := p2 d) in *.
      replace (N.of_nat (S d)) with (N.of_nat d + 1) by lia.
      pose proof (ft_index_succ (N.of_nat d + 1) o) as S. rewrite pow2_succ in S. fold (p2 d) in S. fold P in S.
      cbn [it_at it_index]. fold (it_at (N.of_nat d + 1) o).
      destruct (N.eqb_spec (ft_index (N.of_nat d + 1) o) (2 * i)) as [E|E]; [nia|].
      rewrite it_left_child_at.
      destruct (N.ltb_spec (2 * i) (ft_index (N.of_nat d + 1) o)) as [L|L].
      + destruct (IH fuel (2 * o) i off) as (res & Hr & Hs); try lia; try nia; try assumption.
        exists res. split; [exact Hr|]. replace (o * (2 * P)) with (2 * o * P) by lia. exact Hs.
      + change (it_index (it_at (N.of_nat d) (2 * o))) with (ft_index (N.of_nat d) (2 * o)).
        rewrite (Hav d o) by (fold P; nia). cbn [bind].
        rewrite it_sibling_at_even by (rewrite even_mod; lia).
        destruct (IH fuel (2 * o + 1) i (off + n_length (ref_node cr bs d (2 * o)))) as (res & Hr & Hs);
          try lia; try (fold P; nia); try assumption.
        exists (n_length (ref_node cr bs d (2 * o)) + res). split; [rewrite Hr; f_equal; lia|].
        rewrite ref_node_length. pose proof (ref_size_prefix bs d (2 * o)) as Q. fold (p2 d) in Q. fold P in Q.
        fold P in Hs. replace (o * (2 * P)) with (2 * o * P) by lia. lia.
  Qed.

  (* a successful descent has looked up every left sibling on the way *)
  Lemma descend_sparse_inv (r : N) (d : nat) : forall fuel o i off res,
    unfl_sound cr bs t r -> file_sound cr bs tf r ->
    o * p2 d <= i -> i < (o + 1) * p2 d ->
    offset_descend fuel t tf (it_at (N.of_nat d) o) (2 * i) off = Ok res ->
    forall dd oo, (dd < d)%nat -> (2 * oo + 1) * p2 dd <= i -> i < (2 * oo + 2) * p2 dd ->
      required_node t tf (ft_index (N.of_nat dd) (2 * oo)) = Ok (ref_node cr bs dd (2 * oo)).
  Proof.
    induction d as [|d IH]; intros fuel o i off res Hu Hf H1 H2 H dd oo Hdd C1 C2; [lia|].
    destruct fuel as [|fuel]; [discriminate H|]. cbn [offset_descend] in H.
    rewrite p2_S in *. pose proof (p2_pos d) as Hp. set (P := p2 d) in *.
    replace (N.of_nat (S d)) with (N.of_nat d + 1) in H by lia.
    pose proof (ft_index_succ (N.of_nat d + 1) o) as S. rewrite pow2_succ in S. fold (p2 d) in S. fold P in S.
    cbn [it_at it_index] in H. fold (it_at (N.of_nat d + 1) o) in H.
    destruct (N.eqb_spec (ft_index (N.of_nat d + 1) o) (2 * i)) as [E|E]; [nia|].
    rewrite it_left_child_at in H.
    destruct (N.ltb_spec (2 * i) (ft_index (N.of_nat d + 1) o)) as [L|L].
    - destruct (Nat.eq_dec dd d) as [->|Hne].
      + exfalso. fold P in C1, C2.
        assert (2 * oo + 1 = 2 * o) by (apply (same_block P _ _ i); lia). lia.
      + apply (IH fuel (2 * o) i off res Hu Hf); try assumption; try lia; try nia.
    - change (it_index (it_at (N.of_nat d) (2 * o))) with (ft_index (N.of_nat d) (2 * o)) in H.
      apply bind_ok in H. destruct H as (nd & Hn & H).
      destruct (Nat.eq_dec dd d) as [->|Hne].
      + fold P in C1, C2.
        assert (2 * oo + 1 = 2 * o + 1) by (apply (same_block P _ _ i); lia).
        assert (oo = o) as -> by lia.
        destruct (required_node_sound cr bs t tf r _ _ Hu Hf Hn) as [E1 _].
        rewrite Hn, E1. f_equal. apply ref_at_index.
      + rewrite it_sibling_at_even in H by (rewrite even_mod; lia).
        apply (IH fuel (2 * o + 1) i (off + n_length nd) res Hu Hf); try assumption; try lia; try (fold P; nia).
  Qed.

  (* the walk over the roots arrives at the root that contains block i *)
  Lemma offset_leaf_split r i :
    t_roots t = ref_roots cr bs r -> r <= 2 ^ 63 -> i < r ->
    exists D P, is_root r D P /\ P * p2 D <= i /\ i < (P + 1) * p2 D /\ (D < CLIMB)%nat /\
      byte_offset_from_nodes t tf (2 * i) =
      offset_descend CLIMB t tf (it_at (N.of_nat D) P) (2 * i) (prefix_size bs (P * p2 D)).
  Proof.
    intros HR Hn Hi.
    rewrite byte_offset_from_nodes_even by (rewrite odd_mod; lia).
    rewrite HR, ref_roots_rrl.
    pose proof (tiles_rrl r 0) as Tl. rewrite p2_0, N.mul_1_r in Tl.
    destruct (tiles_split _ _ _ i Tl ltac:(lia) Hi) as (pre & [d o] & post & E & Tp & H1 & H2 & H3).
    cbn [fst snd] in *.
    assert (Hin : In (d, o) (rrl 0 r)).
    { apply in_rev. rewrite E. apply in_or_app. right. left. reflexivity. }
    apply rrl0_in in Hin.
    exists d, o. split; [exact Hin|]. split; [exact H1|]. split; [exact H2|].
    pose proof (ft_index_succ (N.of_nat d) o) as S. fold (p2 d) in S. pose proof (p2_pos d) as Hp.
    assert (Hd64 : (d < CLIMB)%nat).
    { assert (p2 d <= 2 ^ 64) by (assert (2 ^ 63 < 2 ^ 64) by (apply N.pow_lt_mono_r; lia); nia).
      apply p2_le_64 in H. unfold CLIMB. lia. }
    split; [exact Hd64|].
    rewrite E, map_app. cbn [map].
    destruct (skipped_tiles cr bs pre 0 (o * p2 d) (2 * i) Tp ltac:(lia)) as [Sk Hd].
    replace (2 * 0) with 0 in Sk, Hd by lia.
    rewrite (offset_roots_skip t tf (fun _ => 0)); [|exact Sk| |].
    - unfold rn at 1. cbn [fst snd]. rewrite ref_node_index, FlatTreeFacts.it_new_index.
      f_equal. pose proof (tiles_sizes cr bs pre 0 _ Tp) as Q. rewrite prefix_size_0 in Q. lia.
    - rewrite Hd. unfold rn. cbn [fst snd]. rewrite ref_node_index. nia.
    - rewrite Hd. unfold next_head, rn. cbn [fst snd]. rewrite ref_node_index. nia.
  Qed.

  Lemma offset_leaf_beyond r i :
    t_roots t = ref_roots cr bs r -> r <= i -> byte_offset_from_nodes t tf (2 * i) = Err BadArgument.
  Proof.
    intros HR Hi. rewrite byte_offset_from_nodes_even by (rewrite odd_mod; lia).
    rewrite HR, ref_roots_rrl.
    pose proof (tiles_rrl r 0) as Tl. rewrite p2_0, N.mul_1_r in Tl.
    destruct (skipped_tiles cr bs _ 0 r (2 * i) Tl ltac:(lia)) as [Sk _].
    replace (2 * 0) with 0 in Sk by lia.
    apply (offset_roots_all_skipped t tf (fun _ => 0)). exact Sk.
  Qed.

  Lemma offset_leaf_ok r i :
    t_roots t = ref_roots cr bs r -> r <= 2 ^ 63 -> i < r -> left_avail i r ->
    byte_offset_from_nodes t tf (2 * i) = Ok (prefix_size bs i).
  Proof.
    intros HR Hn Hi Hav.
    destruct (offset_leaf_split r i HR Hn Hi) as (D & P & Hroot & H1 & H2 & HD & ->).
    destruct (is_root_bounds r D P Hroot) as [B1 _].
    destruct (descend_sparse_ok r D CLIMB P i (prefix_size bs (P * p2 D)) HD H1 H2 B1 Hav) as (res & -> & Hs).
    f_equal. exact Hs.
  Qed.

  Lemma offset_leaf_inv r i res :
    t_roots t = ref_roots cr bs r -> r <= 2 ^ 63 ->
    unfl_sound cr bs t r -> file_sound cr bs tf r ->
    byte_offset_from_nodes t tf (2 * i) = Ok res ->
    i < r /\ left_avail i r /\ res = prefix_size bs i.
  Proof.
    intros HR Hn Hu Hf H.
    destruct (N.lt_ge_cases i r) as [Hi|Hi]; [|rewrite (offset_leaf_beyond r i HR Hi) in H; discriminate H].
    split; [exact Hi|].
    assert (Hav : left_avail i r).
    { destruct (offset_leaf_split r i HR Hn Hi) as (D & P & Hroot & H1 & H2 & HD & E).
      rewrite E in H. intros dd oo C1 C2 C3.
      assert (Hle : (S dd <= D)%nat).
      { apply (node_under_root r D P (S dd) oo i Hroot H1 H2); rewrite p2_S; lia. }
      apply (descend_sparse_inv r D CLIMB P i _ res Hu Hf H1 H2 H dd oo); [lia|exact C1|exact C2]. }
    split; [exact Hav|].
    rewrite (offset_leaf_ok r i HR Hn Hi Hav) in H. now injection H.
  Qed.
End SparseOffsets.

(* ====================================================================================== *)
(* 4. The climb, with sizes                                                                *)
(* ====================================================================================== *)

Definition sib (o : N) : N := if N.even o then o + 1 else o - 1.

Lemma sib_div o : sib o / 2 = o / 2.
Proof.
  unfold sib. destruct (parity o) as [(E & _ & q & ->)|(E & O & q & ->)]; rewrite E; lia.
Qed.

Lemma sib_neq o : sib o <> o.
Proof.
  unfold sib. destruct (parity o) as [(E & _ & q & ->)|(E & O & q & ->)]; rewrite E; lia.
Qed.

Lemma it_sibling_at_sib d o : it_sibling (it_at d o) = it_at d (sib o).
Proof.
  unfold sib. destruct (N.even o) eqn:E.
  - apply it_sibling_at_even, E.
  - apply it_sibling_at_odd. rewrite <- N.negb_even, E. reflexivity.
Qed.

Lemma it_parent_sibling_at d o : it_parent (it_sibling (it_at d o)) = it_at (d + 1) (o / 2).
Proof. rewrite it_sibling_at_sib, it_parent_at, sib_div. reflexivity. Qed.

Lemma node_eq a b : n_index a = n_index b -> n_length a = n_length b -> n_hash a = n_hash b -> a = b.
Proof. destruct a, b. cbn. intros -> -> ->. reflexivity. Qed.

Lemma parent_preimage_inj_first a b a' b' :
  n_index a = n_index a' -> n_index b = n_index b' ->
  length (n_hash a) = length (n_hash a') ->
  parent_preimage a b = parent_preimage a' b' ->
  n_hash a = n_hash a' /\ n_hash b = n_hash b' /\
  (n_length a + n_length b < 2 ^ 64 -> n_length a' + n_length b' < 2 ^ 64 ->
   n_length a + n_length b = n_length a' + n_length b').
Proof.
  intros Ia Ib HL H.
  pose proof (parent_preimage_inj_gen a b a' b') as G. cbv zeta in G.
  unfold ord_pair in G. rewrite <- Ia, <- Ib in G.
  destruct (n_index a <=? n_index b); cbn [fst snd] in G.
  - destruct G as (G1 & G2 & G3); [left; exact HL | exact H |]. auto.
  - destruct G as (G1 & G2 & G3); [right; exact HL | exact H |].
    repeat split; auto. intros. rewrite (N.add_comm (n_length a)), (N.add_comm (n_length a')).
    apply G3; lia.
Qed.

Lemma u64_lt x : x <= u64_max -> x < 2 ^ 64.
Proof. change (2 ^ 64) with 18446744073709551616. unfold u64_max. lia. Qed.

Section Climb.
  Variable cr : crypto.
  Hypothesis Hhash32 : forall x, length (cr_hash cr x) = 32%nat.
  Variable bs : list bytes.
  Hypothesis Hfit : sumN (map len bs) <= u64_max.

  Let T := ref_at cr bs.
  Let R := ref_node cr bs.

  Lemma parent_hash_binds_first a b a' b' :
    n_index a = n_index a' -> n_index b = n_index b' ->
    length (n_hash a) = length (n_hash a') ->
    parent_hash cr a b = parent_hash cr a' b' ->
    (n_hash a = n_hash a' /\ n_hash b = n_hash b' /\
     (n_length a + n_length b < 2 ^ 64 -> n_length a' + n_length b' < 2 ^ 64 ->
      n_length a + n_length b = n_length a' + n_length b')) \/ some_collision cr.
  Proof.
    intros Ia Ib HL H. unfold parent_hash in H. apply hash_eq_cases in H.
    destruct H as [H|H]; [|right; exact H]. left. apply parent_preimage_inj_first; assumption.
  Qed.

  Lemma R_index d o : n_index (R d o) = ft_index (N.of_nat d) o.
  Proof. apply ref_node_index. Qed.

  Lemma R_hash32 d o : length (n_hash (R d o)) = 32%nat.
  Proof. apply ref_node_hash_length, Hhash32. Qed.

  Lemma R_fits d o : n_length (R d o) <= u64_max.
  Proof. pose proof (ref_node_fits cr bs Hfit d o) as F. unfold fits_u64 in F. unfold R. lia. Qed.

  (* the parent of (d, o) in the reference tree, in terms of the node and its sibling *)
  Lemma R_parent d o :
    n_hash (R (S d) (o / 2)) = parent_hash cr (R d o) (R d (sib o)) /\
    n_length (R (S d) (o / 2)) = n_length (R d o) + n_length (R d (sib o)).
  Proof.
    clear Hfit. unfold R. cbn [ref_node]. unfold parent_node. cbn [n_hash n_length]. unfold sib.
    destruct (parity o) as [(E & _ & q & ->)|(E & O & q & ->)]; rewrite E.
    - replace (2 * q / 2) with q by lia. split; reflexivity.
    - replace ((2 * q + 1) / 2) with q by lia. replace (2 * q + 1 - 1) with (2 * q) by lia.
      split; [|lia]. apply parent_hash_comm. rewrite !ref_node_index.
      intros H. apply ft_index_inj in H. lia.
  Qed.

  (* the nodes a climb of k levels from (d, o) visits in the reference tree: sibling, parent, ... *)
  Fixpoint ref_path (k d : nat) (o : N) : list node :=
    match k with
    | O => []
    | S k' => R d (sib o) :: R (S d) (o / 2) :: ref_path k' (S d) (o / 2)
    end.

  Lemma climb_step f q d o cur acc root visited :
    climb cr (S f) q (it_at (N.of_nat d) o) cur acc = Ok (root, visited) ->
    (q_length q =? 0) = false ->
    exists n q' l,
      n_index n = ft_index (N.of_nat d) (sib o) /\ length (q_list q) = S (length (q_list q')) /\
      add64 "left.length + right.length" (n_length cur) (n_length n) = Ok l /\
      climb cr f q' (it_at (N.of_nat (S d)) (o / 2))
            (mkNode (ft_index (N.of_nat (S d)) (o / 2)) l (parent_hash cr cur n))
            (acc ++ [n; mkNode (ft_index (N.of_nat (S d)) (o / 2)) l (parent_hash cr cur n)]) = Ok (root, visited).
  Proof.
    clear Hfit. intros H E. rewrite climb_S, E in H. cbv zeta in H.
    apply bind_ok in H. destruct H as [[n q'] [Hs H]].
    apply bind_ok in H. destruct H as [l [Hadd H]].
    apply q_shift_inv in Hs. destruct Hs as (Hn & HL & _).
    rewrite it_parent_sibling_at in H. rewrite it_sibling_at_sib in Hn.
    exists n, q', l. split; [exact Hn|]. split; [exact HL|]. split; [exact Hadd|].
    replace (N.of_nat (S d)) with (N.of_nat d + 1) by lia. exact H.
  Qed.

  Lemma climb_full : forall fuel q d o cur acc root visited,
    climb cr fuel q (it_at (N.of_nat d) o) cur acc = Ok (root, visited) ->
    n_index cur = ft_index (N.of_nat d) o -> length (n_hash cur) = 32%nat ->
    n_hash root = n_hash (T (n_index root)) ->
    n_index root = ft_index (N.of_nat (d + length (q_list q))) (o / p2 (length (q_list q))) /\
    exists ext, visited = acc ++ ext /\
      ((n_hash cur = n_hash (R d o) /\
        (n_length cur = n_length (R d o) ->
         ext = ref_path (length (q_list q)) d o /\
         root = R (d + length (q_list q)) (o / p2 (length (q_list q)))))
       \/ some_collision cr).
  Proof.
    induction fuel as [|f IH]; intros q d o cur acc root visited H Hi H32 A; [discriminate H|].
    destruct (q_length q =? 0) eqn:E.
    - rewrite climb_S, E in H. injection H as <- <-. apply N.eqb_eq in E. rewrite q_length_list in E.
      assert (E' : length (q_list q) = O) by lia. rewrite E'.
      rewrite Nat.add_0_r, p2_0, N.div_1_r. split; [exact Hi|].
      exists []. split; [now rewrite app_nil_r|]. left.
      assert (Hh : n_hash cur = n_hash (R d o)).
      { rewrite A, Hi. unfold T. rewrite ref_at_index. reflexivity. }
      split; [exact Hh|]. intros Hl. split; [reflexivity|].
      apply node_eq; [rewrite R_index; exact Hi|exact Hl|exact Hh].
    - destruct (climb_step f q d o cur acc root visited H E) as (n & q' & l & Hn & HL & Hadd & H').
      clear H.
      set (pn := mkNode (ft_index (N.of_nat (S d)) (o / 2)) l (parent_hash cr cur n)) in *.
      assert (Hpi : n_index pn = ft_index (N.of_nat (S d)) (o / 2)) by reflexivity.
      assert (Hp32 : length (n_hash pn) = 32%nat) by (apply Hhash32).
      specialize (IH q' (S d) (o / 2) pn (acc ++ [n; pn]) root visited H' Hpi Hp32 A).
      destruct IH as (IH1 & ext & -> & IH2).
      rewrite HL.
      assert (Ediv : o / 2 / p2 (length (q_list q')) = o / p2 (S (length (q_list q')))).
      { rewrite p2_S, N.div_div; [reflexivity|lia|]. pose proof (p2_pos (length (q_list q'))). lia. }
      rewrite Ediv in IH1, IH2.
      replace (S d + length (q_list q'))%nat with (d + S (length (q_list q')))%nat in IH1, IH2 by lia.
      split; [exact IH1|].
      exists ([n; pn] ++ ext). split; [now rewrite app_assoc|].
      destruct IH2 as [(Hpn & Himp)|C]; [|right; exact C].
      destruct (R_parent d o) as [Rh Rl].
      assert (Hph : parent_hash cr cur n = parent_hash cr (R d o) (R d (sib o))).
      { rewrite <- Rh. exact Hpn. }
      apply parent_hash_binds_first in Hph.
      + destruct Hph as [(A1 & A2 & A3)|C]; [|right; exact C]. left.
        split; [exact A1|]. intros Hl.
        unfold add64 in Hadd. destruct (fits_u64 (n_length cur + n_length n)) eqn:F; [|discriminate Hadd].
        injection Hadd as Hadd.
        assert (Hsum : n_length cur + n_length n = n_length (R d o) + n_length (R d (sib o))).
        { apply A3.
          - apply u64_lt. unfold fits_u64 in F. lia.
          - rewrite <- Rl. apply u64_lt, R_fits. }
        assert (En : n = R d (sib o)).
        { apply node_eq; [rewrite R_index; exact Hn|lia|exact A2]. }
        assert (Epn : pn = R (S d) (o / 2)).
        { apply node_eq; [rewrite R_index; exact Hpi| |exact Hpn].
          rewrite Rl. unfold pn. cbn [n_length]. lia. }
        destruct Himp as [Hext Hroot]; [rewrite Epn; reflexivity|].
        split; [|exact Hroot]. cbn [ref_path app]. rewrite Hext, <- En, <- Epn. reflexivity.
      + rewrite R_index. exact Hi.
      + rewrite R_index. exact Hn.
      + rewrite H32, R_hash32. reflexivity.
  Qed.
End Climb.

(* ====================================================================================== *)
(* 5. The offset of a block computed from the changeset of its proof                        *)
(* ====================================================================================== *)

Lemma div_p2_S a k : a / 2 / p2 k = a / p2 (S k).
Proof. rewrite p2_S, N.div_div; [reflexivity|lia|]. pose proof (p2_pos k). lia. Qed.

Lemma div_p2_add a j k : a / p2 j / p2 k = a / p2 (j + k).
Proof. rewrite p2_add, N.div_div; [reflexivity| |]; [pose proof (p2_pos j)|pose proof (p2_pos k)]; lia. Qed.

Lemma div_p2_bounds a k : a / p2 k * p2 k <= a /\ a < (a / p2 k + 1) * p2 k.
Proof.
  pose proof (p2_pos k) as Hp.
  pose proof (N.div_mod a (p2 k) ltac:(lia)) as E. pose proof (N.mod_lt a (p2 k) ltac:(lia)) as L. nia.
Qed.

(* the end of the span of (d, o) in leaves *)
Definition span_end (d : nat) (o : N) : N := (o + 1) * p2 d.

Lemma span_end_parent d o : span_end d o <= span_end (S d) (o / 2).
Proof. unfold span_end. rewrite p2_S. pose proof (p2_pos d). nia. Qed.

Lemma span_end_sib d o : span_end d (sib o) <= span_end (S d) (o / 2).
Proof. rewrite <- sib_div. apply span_end_parent. Qed.

Lemma span_end_up k : forall d o, span_end d o <= span_end (d + k) (o / p2 k).
Proof.
  induction k as [|k IH]; intros d o.
  - rewrite Nat.add_0_r, p2_0, N.div_1_r. lia.
  - etransitivity; [apply span_end_parent|].
    replace (d + S k)%nat with (S d + k)%nat by lia. rewrite <- div_p2_S. apply IH.
Qed.

Section BlockOffset.
  Variable cr : crypto.
  Hypothesis Hhash32 : forall x, length (cr_hash cr x) = 32%nat.
  Hypothesis Hnonblank : forall x, all_zero (cr_hash cr x) = false.
  Variable bs : list bytes.
  Hypothesis Hfit : sumN (map len bs) <= u64_max.

  Let T := ref_at cr bs.
  Let R := ref_node cr bs.

  Lemma it_is_right_at d o : it_is_right (it_at d o) = N.odd o.
  Proof. reflexivity. Qed.

  Lemma walk_ref_path : forall k d o off,
    exists res,
      cs_path_walk (ref_path cr bs k d o) (it_at (N.of_nat (S d)) (o / 2)) off (N.odd o) (Some (R d o))
        = Ok (off + res, Some (R (d + k) (o / p2 k))) /\
      prefix_size bs (o / p2 k * p2 (d + k)) + res = prefix_size bs (o * p2 d).
  Proof.
    induction k as [|k IH]; intros d o off.
    - exists 0. cbn [ref_path cs_path_walk]. rewrite Nat.add_0_r, p2_0, N.div_1_r, N.add_0_r.
      split; [reflexivity|lia].
    - cbn [ref_path cs_path_walk].
      fold R. rewrite !(R_index cr bs). cbn [it_at it_index].
      destruct (N.eqb_spec (ft_index (N.of_nat d) (sib o)) (ft_index (N.of_nat (S d)) (o / 2))) as [E|_].
      { apply ft_index_inj in E. lia. }
      rewrite N.eqb_refl. fold (it_at (N.of_nat (S d)) (o / 2)).
      rewrite it_parent_at, it_is_right_at.
      replace (N.of_nat (S d) + 1) with (N.of_nat (S (S d))) by lia.
      destruct (R_parent cr bs d o) as [_ Rl]. fold R in Rl.
      destruct (parity o) as [(Ev & Od & q & Eo)|(Ev & Od & q & Eo)]; rewrite Od; cbn [bind].
      + destruct (IH (S d) (o / 2) off) as (res & Hw & Hs). fold R in Hw.
        exists res. rewrite div_p2_S in Hw, Hs. replace (S d + k)%nat with (d + S k)%nat in Hw, Hs by lia.
        split; [exact Hw|]. rewrite Hs. f_equal. rewrite p2_S. subst o.
        replace (2 * q / 2) with q by lia. lia.
      + unfold sub64. rewrite Rl.
        destruct (N.leb_spec (n_length (R d o)) (n_length (R d o) + n_length (R d (sib o)))) as [_|L]; [|lia].
        cbn [bind].
        destruct (IH (S d) (o / 2) (off + (n_length (R d o) + n_length (R d (sib o)) - n_length (R d o))))
          as (res & Hw & Hs). fold R in Hw.
        exists (n_length (R d (sib o)) + res).
        rewrite div_p2_S in Hw, Hs. replace (S d + k)%nat with (d + S k)%nat in Hw, Hs by lia.
        split; [rewrite Hw; f_equal; f_equal; lia|].
        unfold sib. rewrite Ev. subst o. replace (2 * q + 1 - 1) with (2 * q) by lia.
        replace ((2 * q + 1) / 2) with q in Hs by lia.
        unfold R. rewrite ref_node_length.
        pose proof (ref_size_prefix bs d (2 * q)) as Q. fold (p2 d) in Q.
        rewrite (p2_S d) in Hs. replace (q * (2 * p2 d)) with (2 * q * p2 d) in Hs by lia. lia.
  Qed.

  Lemma ref_path_authentic r : forall k d o,
    span_end (d + k) (o / p2 k) <= r -> Forall (authentic cr bs r) (ref_path cr bs k d o).
  Proof.
    induction k as [|k IH]; intros d o H; cbn [ref_path]; [constructor|].
    replace (d + S k)%nat with (S d + k)%nat in H by lia. rewrite <- div_p2_S in H.
    pose proof (span_end_up k (S d) (o / 2)) as U.
    pose proof (span_end_parent d o) as P1. pose proof (span_end_sib d o) as P2.
    constructor; [|constructor; [|apply IH; exact H]]; unfold authentic; rewrite ref_node_index;
      (split; [symmetry; apply ref_at_index|apply in_len_index; unfold span_end in *; lia]).
  Qed.

  Lemma ref_path_sib_in : forall k d o j, (j < k)%nat ->
    In (R (d + j) (sib (o / p2 j))) (ref_path cr bs k d o).
  Proof.
    induction k as [|k IH]; intros d o j Hj; [lia|]. cbn [ref_path]. destruct j as [|j].
    - left. rewrite Nat.add_0_r, p2_0, N.div_1_r. reflexivity.
    - right. right. replace (d + S j)%nat with (S d + j)%nat by lia. rewrite <- div_p2_S.
      apply IH. lia.
  Qed.

  (* ---------- the roots: position and sizes ---------- *)

  Lemma position_of_ge idx : forall l s p, position_of idx l s = Some p -> (s <= p)%nat.
  Proof.
    induction l as [|x l IH]; intros s p H; cbn [position_of] in H; [discriminate H|].
    destruct (n_index x =? idx); [injection H as <-; lia|]. apply IH in H. lia.
  Qed.

  Lemma position_of_tiles idx : forall L a b s p,
    tiles L a b -> position_of idx (map (rn cr bs) L) s = Some p ->
    exists D P, idx = ft_index (N.of_nat D) P /\ In (D, P) L /\
      prefix_size bs a + sumN (map n_length (firstn (p - s) (map (rn cr bs) L))) = prefix_size bs (P * p2 D).
  Proof.
    induction L as [|[d o] L IH]; intros a b s p Tl H; cbn [map position_of] in H; [discriminate H|].
    cbn [tiles fst snd] in Tl. destruct Tl as [Ea Tl].
    unfold rn at 1 in H. cbn [fst snd] in H. rewrite ref_node_index in H.
    destruct (N.eqb_spec (ft_index (N.of_nat d) o) idx) as [E|E].
    - injection H as <-. exists d, o. split; [symmetry; exact E|]. split; [left; reflexivity|].
      rewrite Nat.sub_diag. cbn [firstn map sumN]. rewrite Ea. lia.
    - pose proof (position_of_ge _ _ _ _ H) as Hge.
      destruct (IH _ _ _ _ Tl H) as (D & P & E1 & Hin & Hs).
      exists D, P. split; [exact E1|]. split; [right; exact Hin|].
      replace (p - s)%nat with (S (p - S s)) by lia. cbn [map firstn sumN].
      unfold rn at 1. cbn [fst snd]. rewrite ref_node_length.
      pose proof (ref_size_prefix bs d o) as Q. fold (p2 d) in Q. rewrite Ea. lia.
  Qed.

  Lemma position_of_roots idx r p :
    position_of idx (ref_roots cr bs r) 0 = Some p ->
    exists D P, idx = ft_index (N.of_nat D) P /\ is_root r D P /\
      sumN (map n_length (firstn p (ref_roots cr bs r))) = prefix_size bs (P * p2 D).
  Proof.
    intros H. rewrite ref_roots_rrl in *.
    pose proof (tiles_rrl r 0) as Tl. rewrite p2_0, N.mul_1_r in Tl.
    destruct (position_of_tiles idx _ _ _ _ _ Tl H) as (D & P & E & Hin & Hs).
    exists D, P. split; [exact E|]. split.
    - apply rrl0_in. apply in_rev. exact Hin.
    - rewrite Nat.sub_0_r, prefix_size_0 in Hs. lia.
  Qed.

  (* ---------- byte_offset_from_nodes at an inner node = at its first leaf ---------- *)

  Lemma byte_offset_node_leaf t tf k O :
    byte_offset_from_nodes t tf (ft_index (N.of_nat k) O) = byte_offset_from_nodes t tf (2 * (O * p2 k)).
  Proof.
    unfold byte_offset_from_nodes.
    assert (N.odd (2 * (O * p2 k)) = false) as -> by (rewrite odd_mod; lia).
    destruct k as [|k].
    - change (N.of_nat 0) with 0. rewrite ft_index_leaf, p2_0, N.mul_1_r.
      assert (N.odd (2 * O) = false) as -> by (rewrite odd_mod; lia). reflexivity.
    - pose proof (ft_index_succ (N.of_nat (S k)) O) as S1. rewrite p2_N, p2_S in S1.
      assert (N.odd (ft_index (N.of_nat (S k)) O) = true) as -> by (rewrite odd_mod; lia).
      unfold ft_left_span. rewrite ft_depth_index, ft_offset_index.
      destruct (N.eqb_spec (N.of_nat (S k)) 0) as [E|_]; [lia|].
      f_equal. rewrite pow2_succ, p2_N. lia.
  Qed.
End BlockOffset.

(* ====================================================================================== *)
(* 7. A block section: what the verifier accepted, where the block is written               *)
(* ====================================================================================== *)

Lemma it_new_leaf2 i : it_new (2 * i) = it_at (N.of_nat 0) i.
Proof. rewrite (N.mul_comm 2 i). apply it_new_leaf. Qed.

Lemma div_p2_unique i dd oo : (2 * oo + 1) * p2 dd <= i -> i < (2 * oo + 2) * p2 dd -> i / p2 dd = 2 * oo + 1.
Proof.
  intros H1 H2. destruct (div_p2_bounds i dd) as [B1 B2].
  apply (same_block (p2 dd) _ _ i); lia.
Qed.

Section BlockSection.
  Variable cr : crypto.
  Hypothesis Hhash32 : forall x, length (cr_hash cr x) = 32%nat.
  Hypothesis Hnonblank : forall x, all_zero (cr_hash cr x) = false.
  Variable bs : list bytes.
  Hypothesis Hfit : sumN (map len bs) <= u64_max.

  Let R := ref_node cr bs.

  Lemma R_leaf i : R 0 i = block_node cr (2 * i) (blk bs i).
  Proof. reflexivity. Qed.

  (* a block-only proof accepted by verify_proof: the value, the visited nodes, the stored top *)
  Lemma verify_block_inv t tf r fork b pk cs :
    unfl_sound cr bs t r -> file_sound cr bs tf r ->
    verify_proof cr t tf (mkProof fork (Some b) None None None) pk = Ok cs ->
    (exists k : nat,
       let i := db_index b in let O := i / p2 k in
       db_value b = blk bs i /\
       cs = cs_push_nodes (tree_changeset t) (R 0 i :: ref_path cr bs k 0 i) /\
       required_node t tf (ft_index (N.of_nat k) O) = Ok (R k O) /\
       span_end k O <= r /\ 2 * i <= u64_max) \/ some_collision cr.
  Proof.
    intros Hu Hf H.
    apply verify_proof_accept_inv in H. cbn [p_block p_hash p_seek p_upgrade p_fork] in H.
    destruct H as (root & c1 & Hv & -> & Hst).
    apply verify_tree_block_inv in Hv. destruct Hv as (r0 & visited & -> & Hfits & Hc & ->).
    specialize (Hst r0 eq_refl). apply stored_check_eq in Hst. destruct Hst as (nn & Hreq & Hh).
    destruct (required_node_sound cr bs t tf r _ _ Hu Hf Hreq) as [Enn Hin].
    rewrite it_new_leaf2 in Hc.
    set (i := db_index b) in *. set (cur := block_node cr (2 * i) (db_value b)) in *.
    assert (Hci : n_index cur = ft_index (N.of_nat 0) i).
    { change (N.of_nat 0) with 0. rewrite ft_index_leaf. reflexivity. }
    assert (Hc32 : length (n_hash cur) = 32%nat) by apply Hhash32.
    assert (A : n_hash r0 = n_hash (ref_at cr bs (n_index r0))) by (rewrite <- Hh, Enn; reflexivity).
    destruct (climb_full cr Hhash32 bs Hfit _ _ _ _ _ _ _ _ Hc Hci Hc32 A) as (Hri & ext & -> & Hcase).
    destruct Hcase as [(Hch & Himp)|C]; [|right; exact C].
    assert (QL : q_list (mkQ (db_nodes b) None) = db_nodes b)
      by (unfold q_list; cbn [q_nodes q_extra]; apply app_nil_r).
    rewrite QL in *. set (k := length (db_nodes b)) in *.
    change (n_hash cur) with (leaf_hash cr (db_value b)) in Hch.
    change (n_hash (ref_node cr bs 0 i)) with (leaf_hash cr (blk bs i)) in Hch.
    apply leaf_hash_binds in Hch. destruct Hch as [Ev|C]; [|right; exact C].
    left. exists k. cbv zeta. fold i.
    destruct Himp as [Hext Hroot]; [unfold cur; cbn [block_node n_length]; rewrite Ev; reflexivity|].
    cbn [Nat.add] in Hroot, Hri.
    split; [exact Ev|]. split.
    { f_equal. cbn [app]. rewrite Hext. f_equal. unfold cur. rewrite Ev. reflexivity. }
    split.
    { rewrite Hri in Hreq. rewrite Hreq, Enn, Hri. f_equal. apply ref_at_index. }
    split.
    { rewrite Hri in Hin. apply in_len_index in Hin. exact Hin. }
    unfold fits_u64 in Hfits. lia.
  Qed.

  (* where byte_offset_in_changeset puts the block, and which stored nodes it has read *)
  Lemma block_offset_inv t tf r i k off :
    unfl_sound cr bs t r -> file_sound cr bs tf r ->
    t_roots t = ref_roots cr bs r -> t_length t = r -> r <= 2 ^ 63 -> 2 * i <= u64_max ->
    span_end k (i / p2 k) <= r ->
    byte_offset_in_changeset t tf i
      (cs_push_nodes (tree_changeset t) (R 0 i :: ref_path cr bs k 0 i)) = Ok off ->
    off = prefix_size bs i /\
    forall dd oo, (k <= dd)%nat -> (2 * oo + 1) * p2 dd <= i -> i < (2 * oo + 2) * p2 dd ->
      (2 * oo + 2) * p2 dd <= r ->
      required_node t tf (ft_index (N.of_nat dd) (2 * oo)) = Ok (R dd (2 * oo)).
  Proof.
    intros Hu Hf HR HL Hr63 Hi2 Hspan H.
    destruct (div_p2_bounds i k) as [B1 B2]. unfold span_end in Hspan. set (O := i / p2 k) in *.
    assert (Hir : i < r) by lia.
    unfold byte_offset_in_changeset in H. rewrite HL in H.
    destruct (N.eqb_spec r i) as [E|_]; [lia|].
    unfold mul64 in H. assert (fits_u64 (2 * i) = true) as Ef by (unfold fits_u64; lia).
    rewrite Ef in H. cbn [bind] in H.
    rewrite cs_nodes_push_fresh in H. cbn [cs_path_walk] in H.
    rewrite it_new_leaf2 in H. fold R in H. unfold R at 1 in H. rewrite ref_node_index in H.
    cbn [it_at it_index] in H. rewrite N.eqb_refl in H. cbn [bind] in H.
    fold (it_at (N.of_nat 0) i) in H. rewrite it_parent_at in H.
    replace (N.of_nat 0 + 1) with (N.of_nat 1) in H by lia.
    change (it_is_right (it_at (N.of_nat 0) i)) with (N.odd i) in H.
    destruct (walk_ref_path cr bs Hfit k 0 i 0) as (res & Hwalk & Hres).
    fold R in Hwalk. rewrite Hwalk in H. cbn [bind] in H.
    cbn [Nat.add] in H, Hres. fold O in H, Hres. rewrite p2_0, N.mul_1_r in Hres.
    cbn [cs_push_nodes cs_roots tree_changeset] in H. rewrite HR in H.
    unfold R in H at 1. rewrite ref_node_index in H.
    destruct (position_of (ft_index (N.of_nat k) O) (ref_roots cr bs r) 0) as [p|] eqn:Pos.
    - destruct (position_of_roots cr bs Hfit _ _ _ Pos) as (D & P & Eidx & Hroot & Hsum).
      apply ft_index_inj in Eidx. destruct Eidx as [Ed Eo].
      assert (D = k) by lia. subst D P.
      injection H as <-. rewrite Hsum. split; [lia|].
      intros dd oo Hdd C1 C2 C3. exfalso.
      assert (S dd <= k)%nat; [|lia].
      apply (node_under_root r k O (S dd) oo i Hroot); rewrite ?p2_S; lia.
    - unfold R in H. rewrite ref_node_index in H.
      apply bind_ok in H. destruct H as (off0 & Hoff & H). injection H as <-.
      rewrite (byte_offset_node_leaf cr bs Hfit) in Hoff.
      destruct (offset_leaf_inv cr bs t tf r _ _ HR Hr63 Hu Hf Hoff) as (Hlt & Hav & ->).
      split; [lia|].
      intros dd oo Hdd C1 C2 C3. apply Hav; [|lia|exact C3].
      replace dd with (k + (dd - k))%nat in * by lia. set (e := (dd - k)%nat) in *. clearbody e.
      rewrite p2_add in *. pose proof (p2_pos k) as Hpk. pose proof (p2_pos e) as Hpe.
      assert ((2 * oo + 1) * p2 e < O + 1) by nia. nia.
  Qed.
End BlockSection.

Print Assumptions rrl_in.
Print Assumptions node_under_root.
Print Assumptions left_half_is_root.
Print Assumptions node_get_sound.
Print Assumptions add_nodes_lookup.
Print Assumptions tree_flush_sound.
Print Assumptions descend_sparse_ok.
Print Assumptions descend_sparse_inv.
Print Assumptions offset_leaf_ok.
Print Assumptions offset_leaf_inv.
Print Assumptions climb_full.
Print Assumptions walk_ref_path.
Print Assumptions position_of_roots.
Print Assumptions verify_block_inv.
Print Assumptions block_offset_inv.

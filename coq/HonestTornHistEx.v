(* HonestTornHistEx.v -- non-vacuity of HonestTornHist.honest_histories_with_torn_crashes and
   honest_fresh_histories_with_torn_crashes on the toy instance of SoundCore.v / AcceptAllEx.v / HonestCrashEx.v (sc_cr,
   sc_blocks: a writer with six blocks, a replica created from the public key alone).
   History:  1. seek to byte 4 + PARTIAL upgrade 0..3 (forced flush), clean crash before the first storage operation;
             2. the same request again, clean crash after 3 storage operations: the upgrade IS committed;
             3. block 4 (native flush decision), acknowledged;
             4. HASH request for the leaf 2 + SEEK to byte 1 (no flush): the process dies DURING the entry write,
                after 20 of its 112 bytes reached the oplog store: the half-written log entry is ignored, NOT committed;
             5. the same HASH + SEEK request again with a forced flush: the process dies DURING the third storage
                operation (a tree node write of the flush group), after 17 of its 40 bytes: committed, the reopened
                replica has the leaf 2 (the unflushed map, replayed from the log, shadows the damaged record);
             6. block 0 with a seek to byte 2, acknowledged;
             7. reopen. *)
From HC Require Import Base NMap Codec CodecFacts Crypto FlatTree Storage Bitfield Oplog Merkle Core.
From HC Require Import FlatTreeFacts Sound NoPanic TreeRef OffsetFacts CoreFacts Refine Replicate Replicate2 Replicate2Z Replicate2D Replicate2E.
From HC Require Import CrashCore3 TornCoreA TornCoreB TornCore TornReplicaA TornReplicaB TornReplica.
From HC Require Import Unified1 SoundCoreLib SoundCore SoundCoreUp SoundCoreBU ReplicaDisk1 ReplicaDisk2 ReplicaDisk3 ReplicaDisk4 ReplicaDisk6.
From HC Require Import AcceptAll1 AcceptAll2 AcceptAll3 AcceptAll AcceptAllCore1 AcceptAllClo AcceptAllClo2 AcceptAllFlush AcceptAllCore2 AcceptAllCore3 AcceptAllHist AcceptAllEx.
From HC Require Import HonestApply1 HonestApply2 HonestApply3 HonestApply HonestApplyEx HonestCrash1 HonestCrash2 HonestCrashEx.
From HC Require Import HonestTornHistA HonestTornHistB HonestTornHistC HonestTornHist.
From Coq Require Import FMapPositive ZifyN ZifyNat ZifyBool.
Ltac Zify.zify_post_hook ::= Z.div_mod_to_equations.
Arguments N.add : simpl never.
Arguments N.sub : simpl never.
Arguments N.mul : simpl never.
Arguments N.div : simpl never.
Arguments N.modulo : simpl never.
Arguments N.pow : simpl never.
Arguments N.eqb : simpl never.
Arguments N.ltb : simpl never.
Arguments N.leb : simpl never.
Arguments N.of_nat : simpl never.
Arguments N.to_nat : simpl never.
Arguments N.log2 : simpl never.

Definition ht_torn (f : option bool) (rq : request) (k t : nat) : tevent :=
  TTorn f rq scW_c (w_disk scW_w) (w_journal scW_w) (w_events scW_w) sc_blocks sc_sg k t.

Definition ht_e4 := ht_torn (Some false) ha_rq4 0 20.
Definition ht_e5 := ht_torn (Some true) ha_rq4 2 17.
Definition ht_e6 := TClean (hc_serve (Some false) ha_rq5).
Definition ht_e7 := TClean CReopen.
Definition ht_es : list tevent := [TClean hc_e1; TClean hc_e2; TClean hc_e3; ht_e4; ht_e5; ht_e6; ht_e7].

(* the states of the history, computed (the first three are those of HonestCrashEx) *)
Definition ht_s4 : option (core * world) := Eval vm_compute in texec sc_cr hc3_c hc3_w ht_e4.
Definition ht4_c : core := Eval vm_compute in match ht_s4 with Some (c, _) => c | None => dummy_core end.
Definition ht4_w : world := Eval vm_compute in match ht_s4 with Some (_, w) => w | None => dummy_world end.
Lemma ht_exec4 : texec sc_cr hc3_c hc3_w ht_e4 = Some (ht4_c, ht4_w).
Proof. vm_compute. reflexivity. Qed.

Definition ht_s5 : option (core * world) := Eval vm_compute in texec sc_cr ht4_c ht4_w ht_e5.
Definition ht5_c : core := Eval vm_compute in match ht_s5 with Some (c, _) => c | None => dummy_core end.
Definition ht5_w : world := Eval vm_compute in match ht_s5 with Some (_, w) => w | None => dummy_world end.
Lemma ht_exec5 : texec sc_cr ht4_c ht4_w ht_e5 = Some (ht5_c, ht5_w).
Proof. vm_compute. reflexivity. Qed.

Definition ht_s6 : option (core * world) := Eval vm_compute in texec sc_cr ht5_c ht5_w ht_e6.
Definition ht6_c : core := Eval vm_compute in match ht_s6 with Some (c, _) => c | None => dummy_core end.
Definition ht6_w : world := Eval vm_compute in match ht_s6 with Some (_, w) => w | None => dummy_world end.
Lemma ht_exec6 : texec sc_cr ht5_c ht5_w ht_e6 = Some (ht6_c, ht6_w).
Proof. vm_compute. reflexivity. Qed.

Definition ht_s7 : option (core * world) := Eval vm_compute in texec sc_cr ht6_c ht6_w ht_e7.
Definition ht7_c : core := Eval vm_compute in match ht_s7 with Some (c, _) => c | None => dummy_core end.
Definition ht7_w : world := Eval vm_compute in match ht_s7 with Some (_, w) => w | None => dummy_world end.
Lemma ht_exec7 : texec sc_cr ht6_c ht6_w ht_e7 = Some (ht7_c, ht7_w).
Proof. vm_compute. reflexivity. Qed.

(* what the torn applications journal when they complete, and the operation that is torn: the hash + seek request
   without flush journals the entry write (112 bytes) alone -- it is torn after 20 bytes; with a forced flush the
   third operation is a 40-byte node write to the tree store -- it is torn after 17 bytes *)
Definition ht_torn_op (f : option bool) (rq : request) (c : core) (w : world) (k : nat) : option (store * N * nat * nat) :=
  match core_create_proof (rq_block rq) (rq_hash rq) (rq_seek rq) (rq_upgrade rq) scW_c scW_w with
  | (_, _, Ok (Some pf)) =>
      match core_apply_proof sc_cr f pf c w with
      | (_, w', Ok true) =>
          let delta := journal_delta (w_journal w) (w_journal w') in
          match nth_error delta k with
          | Some (SW s off data) => Some (s, off, length data, length delta)
          | _ => None
          end
      | _ => None
      end
  | _ => None
  end.

Example ht_torn_positions :
  ht_torn_op (Some false) ha_rq4 hc3_c hc3_w 0 = Some (Oplog, 8192, 112%nat, 1%nat) /\
  ht_torn_op (Some true) ha_rq4 ht4_c ht4_w 2 = Some (Tree, 0, 40%nat, 6%nat).
Proof. split; vm_compute; reflexivity. Qed.

(* the whole history runs.  The hash request torn inside its entry write left nothing (the leaf 2 is still missing
   after the reopen); torn inside the flush group it IS committed: the leaf 2 is there after the reopen *)
Example ht_run_computed :
  trun sc_cr ht_es scR_c scR_w = Some (ht7_c, ht7_w) /\
  (exists e, required_node (c_tree ht4_c) (d_tree (w_disk ht4_w)) 2 = Err e) /\
  required_node (c_tree ht5_c) (d_tree (w_disk ht5_w)) 2 = Ok (ref_at sc_cr sc_blocks 2) /\
  t_length (c_tree ht7_c) = 6 /\
  core_has ht7_c 0 = true /\ core_has ht7_c 4 = true /\ core_has ht7_c 1 = false /\
  snd (core_get 4 ht7_c ht7_w) = Ok (Some [9; 10]) /\ snd (core_get 0 ht7_c ht7_w) = Ok (Some [1; 2; 3]).
Proof. vm_compute. repeat split. eexists. reflexivity. Qed.

(* ---------- the side condition of the tears: neither torn write is a header slot write ---------- *)

Definition torn_plain (c : core) (w : world) (e : tevent) : bool :=
  match e with
  | TClean _ => true
  | TTorn f rq cw dw jw evw bw sg k t =>
      match core_create_proof (rq_block rq) (rq_hash rq) (rq_seek rq) (rq_upgrade rq) cw (mkWorld dw jw evw) with
      | (_, _, Ok (Some pf)) =>
          match core_apply_proof sc_cr f pf c w with
          | (_, w', Ok true) =>
              match nth_error (journal_delta (w_journal w) (w_journal w')) k with
              | Some o => negb (is_slot_write o)
              | None => true
              end
          | _ => true
          end
      | _ => true
      end
  end.

Lemma tsafe_plain c w e : torn_plain c w e = true -> tsafe sc_cr c w e.
Proof.
  destruct e as [e|f rq cw dw jw evw bw sg k t]; cbn [torn_plain tsafe]; [intros _; exact I|].
  destruct (core_create_proof _ _ _ _ cw _) as [[cw' ww'] [[pf|]| | |]]; try (intros _; exact I).
  destruct (core_apply_proof sc_cr f pf c w) as [[c' w'] [[|]| | |]]; try (intros _; exact I).
  unfold TornCore.crash_safe. destruct (nth_error _ k) as [o|]; [|intros _; exact I].
  destruct (apply_sops _ _) as [dk|]; [|intros _; exact I].
  intros Hns _. destruct o as [s off data| |]; try exact I. destruct s; try exact I.
  cbn [tear_safe]. cbn [is_slot_write negb] in Hns. apply negb_true_iff, N.ltb_ge in Hns.
  intros [E|E] _; rewrite E in Hns; unfold HEADER_SIZE, ENTRIES_OFFSET in *; lia.
Qed.

(* ---------- every request of the history is well formed for the state it is sent from ---------- *)

Ltac ht_arith := first [exact I | reflexivity | (vm_compute; reflexivity) | (vm_compute; discriminate)].

Lemma ht_pre5 : cpre sc_cr sc_blocks ht4_c (w_disk ht4_w) (as_cevent ht_e5).
Proof.
  unfold cpre, ht_e5, ht_torn, as_cevent, pre_all. cbv zeta.
  change (kp_public (c_keypair ht4_c)) with sc_key.
  split; [exact sc_writer_at|]. split; [ht_arith|]. split.
  { split; [exact I|].
    cbn [ha_rq4 rq_block rq_hash rq_seek rq_upgrade rb_index rb_nodes rq_target].
    unfold wf_node. cbv zeta. split; [ht_arith|]. left.
    split; [ht_arith|]. split; [ht_arith|]. split; [ht_arith|].
    unfold seek_ok, seek_in_range. cbn [rs_bytes]. split; [ht_arith|]. left. ht_arith. }
  apply guard_check_ok. vm_compute. reflexivity.
Qed.

Lemma ht_pre6 : cpre sc_cr sc_blocks ht5_c (w_disk ht5_w) (as_cevent ht_e6).
Proof.
  unfold cpre, ht_e6, hc_serve, as_cevent, pre_all. cbv zeta.
  change (kp_public (c_keypair ht5_c)) with sc_key.
  split; [exact sc_writer_at|]. split; [ht_arith|]. split.
  { split; [exact I|].
    cbn [ha_rq5 rq_block rq_hash rq_seek rq_upgrade rb_index rb_nodes rq_target].
    unfold wf_node. cbv zeta. split; [ht_arith|]. left.
    split; [ht_arith|]. split; [ht_arith|]. split; [ht_arith|].
    unfold seek_ok, seek_in_range. cbn [rs_bytes]. split; [ht_arith|]. left. ht_arith. }
  apply guard_check_ok. vm_compute. reflexivity.
Qed.

Lemma ht_pre4 : cpre sc_cr sc_blocks hc3_c (w_disk hc3_w) (as_cevent ht_e4).
Proof. exact hc_pre4. Qed.

Lemma ht_safe4 : tsafe sc_cr hc3_c hc3_w ht_e4.
Proof. apply tsafe_plain. vm_compute. reflexivity. Qed.

Lemma ht_safe5 : tsafe sc_cr ht4_c ht4_w ht_e5.
Proof. apply tsafe_plain. vm_compute. reflexivity. Qed.

Lemma thist_cons e es c w c1 w1 :
  cpre sc_cr sc_blocks c (w_disk w) (as_cevent e) -> tsafe sc_cr c w e -> texec sc_cr c w e = Some (c1, w1) ->
  thist sc_cr sc_blocks es c1 w1 -> thist sc_cr sc_blocks (e :: es) c w.
Proof.
  intros P S E Hr. cbn [thist]. split; [exact P|]. split; [exact S|].
  intros c' w' E'. rewrite E in E'. injection E' as <- <-. exact Hr.
Qed.

Lemma ht_hist : thist sc_cr sc_blocks ht_es scR_c scR_w.
Proof.
  unfold ht_es.
  apply (thist_cons (TClean hc_e1) _ scR_c scR_w hc1_c hc1_w hc_pre1 I hc_exec1).
  apply (thist_cons (TClean hc_e2) _ hc1_c hc1_w hc2_c hc2_w hc_pre2 I hc_exec2).
  apply (thist_cons (TClean hc_e3) _ hc2_c hc2_w hc3_c hc3_w hc_pre3 I hc_exec3).
  apply (thist_cons ht_e4 _ hc3_c hc3_w ht4_c ht4_w ht_pre4 ht_safe4 ht_exec4).
  apply (thist_cons ht_e5 _ ht4_c ht4_w ht5_c ht5_w ht_pre5 ht_safe5 ht_exec5).
  apply (thist_cons ht_e6 _ ht5_c ht5_w ht6_c ht6_w ht_pre6 I ht_exec6).
  apply (thist_cons ht_e7 _ ht6_c ht6_w ht7_c ht7_w I I ht_exec7).
  exact I.
Qed.

(* the toy replica starts in a closed torn-tolerant state *)
Lemma sc_R0_RCInvZ : RCInvZ sc_cr sc_blocks scR_c (w_disk scR_w) (fun _ => false).
Proof.
  apply (RCInv_RCInvZ sc_cr sc_blocks scR_c (w_disk scR_w) _ sc_hash32 sc_nonblank sc_R0_RCInv).
  change (d_tree (w_disk scR_w)) with file_empty. apply TreeOk_empty.
Qed.

(* the history theorem applies to the instance.  The checksum of the toy instance is constant, so the collision
   clause of the theorem cannot be excluded on it (no torn write of this history is a header slot write, and the run
   computed in ht_run_computed shows every observable of the first disjunct); the hypotheses RCInvZ / thist (request
   premises + tear_safe of every tear) are what non-vacuity is about *)
Example ht_torn_histories_applies :
  exists c' w',
    trun sc_cr ht_es scR_c scR_w = Some (c', w') /\
    t_length (c_tree c') = 6 /\ t_byte_length (c_tree c') = prefix_size sc_blocks 6 /\
    core_has c' 4 = true /\ core_has c' 0 = true /\ core_has c' 1 = false /\
    ((RCInvZ sc_cr sc_blocks c' (w_disk w') (theld_all (fun _ => false) ht_es) /\
      (forall i, tcommitted ht_es i -> core_has c' i = true) /\
      (forall i j2 ev2, core_has c' i = true ->
         core_get i c' (mkWorld (w_disk w') j2 ev2) = (c', mkWorld (w_disk w') j2 ev2, Ok (Some (blk sc_blocks i))))) \/
     (exists t, Crash.collision sc_cr t)).
Proof.
  pose proof (proj1 ht_run_computed) as Hrun0.
  exists ht7_c, ht7_w. split; [exact Hrun0|].
  split; [vm_compute; reflexivity|]. split; [vm_compute; reflexivity|].
  split; [vm_compute; reflexivity|]. split; [vm_compute; reflexivity|]. split; [vm_compute; reflexivity|].
  destruct scR_w as [d0 j0 ev0] eqn:Ew.
  pose proof sc_R0_RCInvZ as RC. pose proof ht_hist as Hh.
  rewrite Ew in RC, Hh. cbn [w_disk] in RC.
  destruct (honest_histories_with_torn_crashes sc_cr sc_crc_ok sc_hash32 sc_nonblank sc_hashbytes sc_blocks sc_writer_fits ht_es
              scR_c d0 j0 ev0 (fun _ => false) RC Hh)
    as [(c' & w' & Hrun & RC' & _ & _ & _ & _ & Hreq & _ & _ & Hget)|Cl]; [left|right; exact Cl].
  rewrite Hrun0 in Hrun. injection Hrun as <- <-.
  split; [exact RC'|]. split; [exact Hreq|exact Hget].
Qed.

(* from the fresh replica: the statement of honest_fresh_histories_with_torn_crashes for the toy key *)
Example ht_fresh_applies :
  exists d0 ops0 c0,
    core_open sc_cr (Some (mkKeypair sc_key None)) false disk_empty = (d0, ops0, Ok c0) /\
    (c0, d0) = (scR_c, w_disk scR_w).
Proof.
  destruct (honest_fresh_histories_with_torn_crashes sc_cr sc_crc_ok sc_hash32 sc_nonblank sc_hashbytes sc_blocks
              sc_writer_fits (mkKeypair sc_key None) ht_es eq_refl eq_refl) as (d0 & ops0 & c0 & E & _).
  exists d0, ops0, c0. split; [exact E|].
  revert E. vm_compute. intros E. injection E as <- _ <-. reflexivity.
Qed.

Print Assumptions ht_run_computed.
Print Assumptions ht_torn_positions.
Print Assumptions ht_hist.
Print Assumptions ht_torn_histories_applies.
Print Assumptions ht_fresh_applies.

(* ConstTieBits.v — source-derived constants of the bitfield pages (pinned in props/C08.v). *)
From HC Require Import Base Codec CodecFacts Crypto Storage Bitfield Oplog Merkle OplogFacts SrcConsts ConstTie.
From Coq Require Import Lia.

Lemma tie_page_bits : tied src_DYNAMIC_BITFIELD_PAGE_SIZE PAGE_BITS.                  Proof. tie. Qed.
Lemma tie_page_bits_fixed : tied src_FIXED_BITFIELD_BITS_LENGTH PAGE_BITS.            Proof. tie. Qed.
Lemma tie_page_bytes : tied src_FIXED_BITFIELD_BYTES_LENGTH PAGE_BYTES.               Proof. tie. Qed.
Lemma tie_page_words : tied (option_map (N.mul 4) src_FIXED_BITFIELD_LENGTH) PAGE_BYTES. Proof. tie. Qed.

Theorem source_bitfield_constants_are_the_models :
  tied src_DYNAMIC_BITFIELD_PAGE_SIZE PAGE_BITS /\ tied src_FIXED_BITFIELD_BITS_LENGTH PAGE_BITS /\
  tied src_FIXED_BITFIELD_BYTES_LENGTH PAGE_BYTES /\ tied (option_map (N.mul 4) src_FIXED_BITFIELD_LENGTH) PAGE_BYTES.
Proof. repeat split; tie. Qed.
Print Assumptions source_bitfield_constants_are_the_models.

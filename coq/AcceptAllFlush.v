(* AcceptAllFlush.v -- a flush does not change which tree nodes a replica can look up.
   [maybe_flush] (Core.v) either does nothing to the tree / tree store, or writes every unflushed node to
   its 40-byte record and empties the unflushed map.  Under the replica invariant [SoundCore.RInv] the set
   of indices at which [required_node] succeeds ([AcceptAllClo.navail]) is the same before and after, and
   the node found is the same ([maybe_flush_lookup_iff]).
   The new direction (a node found AFTER the flush was found BEFORE) rests on [write_nodes_read_back]:
   a record that reads as a non-blank node after the writes was written by them or was already there;
   a record inside a zero-filled gap beyond the old end of the store is blank. *)
From HC Require Import Base NMap Codec CodecFacts Crypto FlatTree Storage Bitfield Oplog Merkle Core.
From HC Require Import FlatTreeFacts StorageFacts BitfieldFacts OplogFacts TreeRef OffsetFacts CoreFacts
                       Sound NoPanic Refine Replicate SoundCoreLib SoundCore SoundCoreUp AcceptAllClo.
From Coq Require Import FMapPositive ZifyN ZifyNat ZifyBool.
Ltac Zify.zify_post_hook ::= Z.div_mod_to_equations.
Arguments N.add : simpl never.
Arguments N.sub : simpl never.
Arguments N.mul : simpl never.
Arguments N.div : simpl never.
Arguments N.modulo : simpl never.
Arguments N.pow : simpl never.
Arguments N.eqb : simpl never.
Arguments N.ltb : simpl never.
Arguments N.leb : simpl never.
Arguments N.of_nat : simpl never.
Arguments N.to_nat : simpl never.

(* ---------- 0. a record slot beyond the old end of the store that no write targets reads as zeros
   (SoundCoreLib.write_nodes_gap, restated without its unused section arguments) ---------- *)
Lemma write_nodes_gap0 ws : forall f k i,
  (forall v, In v ws -> length (n_hash v) = 32%nat) ->
  (forall v, In v ws -> n_index v <> k) ->
  (forall i, NODE_SIZE * k <= i -> i < NODE_SIZE * k + NODE_SIZE -> i < f_len f -> f_byte f i = 0) ->
  NODE_SIZE * k <= i -> i < NODE_SIZE * k + NODE_SIZE -> i < f_len (write_nodes f ws) ->
  f_byte (write_nodes f ws) i = 0.
Proof.
  induction ws as [|v ws IH]; intros f k i H32 Hno Hz H1 H2 H3; [apply Hz; assumption|].
  unfold write_nodes in *. cbn [fold_left] in *.
  set (f1 := f_write f (NODE_SIZE * n_index v) (node_to_bytes v)) in *. fold (write_nodes f1 ws) in *.
  assert (L0 : len (node_to_bytes v) = NODE_SIZE) by (apply len_node_to_bytes, H32; left; reflexivity).
  apply (IH f1 k i); try assumption.
  - intros x Hx. apply H32. right. exact Hx.
  - intros x Hx. apply Hno. right. exact Hx.
  - intros i' A1 A2 A3. unfold f1. rewrite f_write_at by exact A3. rewrite L0.
    assert (Hk : n_index v <> k) by (apply Hno; left; reflexivity).
    destruct ((NODE_SIZE * n_index v <=? i') && (i' <? NODE_SIZE * n_index v + NODE_SIZE)) eqn:E.
    + exfalso. unfold NODE_SIZE in *. lia.
    + destruct (N.ltb_spec i' (f_len f)) as [L|L]; [apply Hz; assumption|reflexivity].
Qed.

(* ---------- 1. the tree store after a group of node writes, read back ---------- *)

(* the record k of the store after the writes, when it reads as a non-blank node: either one of the
   writes targeted it, or the very same 40 bytes were in the store before.  [f_len f mod 40 = 0]: a record
   is never partly old, partly zero-filled gap. *)
Lemma write_nodes_read_back ws : forall f k data,
  (forall v, In v ws -> length (n_hash v) = 32%nat) -> f_len f mod NODE_SIZE = 0 ->
  f_read (write_nodes f ws) (NODE_SIZE * k) NODE_SIZE = Some data ->
  node_blank (node_from_bytes k data) = false ->
  (exists v, In v ws /\ n_index v = k) \/ f_read f (NODE_SIZE * k) NODE_SIZE = Some data.
Proof.
  intros f k data H32 Hal R B.
  destruct (write_nodes_read ws f k H32) as [(v & Hin & Hk & _)|[Hno Hr]].
  - left. exists v. split; assumption.
  - destruct (N.le_gt_cases (NODE_SIZE * k + NODE_SIZE) (f_len f)) as [L|L].
    + right. rewrite <- (Hr L). exact R.
    + exfalso.
      assert (Hk : f_len f <= NODE_SIZE * k) by (unfold NODE_SIZE in *; lia).
      pose proof R as R'. apply f_read_spec in R'. destruct R' as (Rb & Rl & Rn).
      assert (Z : forall j, nth j data 0 = 0).
      { intros j. destruct (Nat.lt_ge_cases j (length data)) as [Lj|Lj]; [|apply nth_overflow; lia].
        replace j with (N.to_nat (N.of_nat j)) by lia.
        rewrite (Rn (N.of_nat j)) by (unfold NODE_SIZE in *; lia).
        apply (write_nodes_gap0 ws f k); try assumption.
        - intros i A1 A2 A3. lia.
        - lia.
        - unfold NODE_SIZE in *. lia.
        - unfold NODE_SIZE in *. lia. }
      rewrite (node_from_zero_blank k data Z) in B. discriminate B.
Qed.

(* ---------- 2. tree_flush + its writes: the lookups before and after coincide ---------- *)

(* backward direction (new): what is found after the flush was found, with the same value, before.
   Hypotheses: the unflushed nodes are storable ([unflushed_ok]) and non-blank (a blank unflushed node
   would shadow the store in [node_get]); the store is a whole number of records. *)
Lemma tree_flush_lookup_back (t t' : mtree) (ops : list sop) (d d' : disk) (k : N) (x : node) :
  tree_flush t = Ok (t', ops) -> apply_sops d ops = Some d' -> unflushed_ok t ->
  (forall j nd, nm_get j (t_unflushed t) = Some nd -> node_blank nd = false) ->
  f_len (d_tree d) mod NODE_SIZE = 0 ->
  required_node t' (d_tree d') k = Ok x -> required_node t (d_tree d) k = Ok x.
Proof.
  intros Hf Ha Hok Hnb Hal Hreq. rewrite (tree_flush_ok t Hok) in Hf. injection Hf as <- <-.
  rewrite apply_node_writes in Ha. injection Ha as <-.
  set (ws := map snd (nm_elements (t_unflushed t))) in *.
  assert (Hws : forall v, In v ws -> nm_get (n_index v) (t_unflushed t) = Some v).
  { intros v Hv. apply in_map_iff in Hv as ([j v'] & E & Hv). cbn [snd] in E. subst v'.
    apply nm_elements_in in Hv. destruct (Hok j v Hv) as (-> & _). exact Hv. }
  assert (H32 : forall v, In v ws -> length (n_hash v) = 32%nat).
  { intros v Hv. apply Hws in Hv. apply Hok in Hv. tauto. }
  cbn [d_set d_tree] in Hreq.
  unfold required_node, node_get in Hreq. cbn [t_unflushed] in Hreq. rewrite nm_get_empty in Hreq.
  unfold mul64 in Hreq. destruct (fits_u64 (NODE_SIZE * k)) eqn:Fit; [|discriminate Hreq].
  cbn [bind] in Hreq.
  destruct (f_read (write_nodes (d_tree d) ws) (NODE_SIZE * k) NODE_SIZE) as [data|] eqn:R;
    [|discriminate Hreq].
  destruct (node_blank (node_from_bytes k data)) eqn:B; [discriminate Hreq|].
  cbn [bind] in Hreq. injection Hreq as <-.
  destruct (write_nodes_read ws (d_tree d) k H32) as [(v & Hin & Hk & Hr)|[Hno _]].
  - (* written by the flush: it was in the unflushed map *)
    pose proof (Hws v Hin) as G. rewrite Hk in G.
    destruct (Hok k v G) as (_ & Hh & Hl).
    rewrite Hr in R. injection R as <-.
    rewrite <- Hk. rewrite node_bytes_roundtrip; [|rewrite Hh; reflexivity|unfold u64_max in Hl; lia].
    rewrite Hk. apply required_node_unflushed; [exact G|apply (Hnb k v G)].
  - (* not written: the unflushed map had no entry k, the bytes are those of the old store *)
    assert (G : nm_get k (t_unflushed t) = None).
    { destruct (nm_get k (t_unflushed t)) as [n0|] eqn:G; [|reflexivity]. exfalso.
      destruct (Hok k n0 G) as (Hi & _). apply (Hno n0); [|exact Hi].
      apply in_map_iff. exists (k, n0). split; [reflexivity|]. apply nm_elements_in, G. }
    destruct (write_nodes_read_back ws (d_tree d) k data H32 Hal R B) as [(v & Hin & Hk)|R0].
    + exfalso. apply (Hno v Hin Hk).
    + unfold required_node, node_get. rewrite G. unfold mul64. rewrite Fit. cbn [bind].
      rewrite R0, B. reflexivity.
Qed.

Section FlushAvail.
  Variable cr : crypto.
  Hypothesis Hhash32 : forall x, length (cr_hash cr x) = 32%nat.
  Hypothesis Hnonblank : forall x, all_zero (cr_hash cr x) = false.
  Variable bs : list bytes.
  Hypothesis Hw : writer_fits bs.

  (* ---------- 3. what maybe_flush does to the tree and the tree store ---------- *)

  Lemma maybe_flush_tree_cases f c w c' w' u :
    maybe_flush cr f c w = (c', w', Ok u) -> unflushed_ok (c_tree c) ->
    (c_tree c' = c_tree c /\ d_tree (w_disk w') = d_tree (w_disk w)) \/
    (exists tops d1 d2,
       tree_flush (c_tree c) = Ok (c_tree c', tops) /\ d_tree d1 = d_tree (w_disk w) /\
       apply_sops d1 tops = Some d2 /\ d_tree (w_disk w') = d_tree d2).
  Proof.
    intros H Hok. unfold maybe_flush in H. rewrite mbind_get_core in H.
    match type of H with (if ?b then _ else _) _ _ = _ => destruct b end.
    - right. rewrite mbind_put_skip in H.
      set (c1 := mkCore (c_keypair c) (c_oplog c) (c_tree c) (c_bitfield c) (c_header c) 3) in *.
      destruct (flush_all_spec cr Hhash32 Hnonblank c1 w Hok)
        as [(c2 & w2 & E)|(o' & d' & jn & t' & tops & d1 & d2 & E & TF & T1 & D1 & A2 & T3 & D3)];
        rewrite E in H; [discriminate H|]. inversion H; subst c' w'. clear H E.
      cbn [c_tree w_disk] in *. exists tops, d1, d2.
      split; [exact TF|]. split; [exact T1|]. split; [exact A2|exact T3].
    - left. unfold put_skip in H. inversion H; subst c' w'. cbn [c_tree]. split; reflexivity.
  Qed.

  (* ---------- 4. main results ---------- *)

  (* sound lookups address records below the u64 limit *)
  Lemma sound_lookup_fits t tf r k x :
    r <= N.of_nat (length bs) -> unfl_sound cr bs t r -> file_sound cr bs tf r ->
    required_node t tf k = Ok x -> NODE_SIZE * k <= u64_max.
  Proof.
    intros Hr Hu Hf H. destruct Hw as [_ Hw2].
    destruct (required_node_sound cr bs t tf r k x Hu Hf H) as [_ Hin].
    apply in_len_lt in Hin. unfold NODE_SIZE in *. lia.
  Qed.

  (* the node found at k is the same before and after a successful maybe_flush *)
  Theorem maybe_flush_lookup_iff f c d j ev c' w' u :
    SoundCore.RInv cr bs c d ->
    maybe_flush cr f c (mkWorld d j ev) = (c', w', Ok u) ->
    forall k x, required_node (c_tree c') (d_tree (w_disk w')) k = Ok x <->
                required_node (c_tree c) (d_tree d) k = Ok x.
  Proof.
    intros (H1 & H2 & H3 & H4 & H5 & H6 & H7 & H8) H k x. split.
    - intros Hreq. pose proof Hw as [Hw1 _].
      pose proof (unfl_sound_ok cr Hhash32 bs (c_tree c) _ Hw1 H5) as Hok.
      destruct (maybe_flush_tree_cases f c _ c' w' u H Hok)
        as [[E1 E2]|(tops & d1 & d2 & TF & T1 & A2 & T3)]; cbn [w_disk] in *.
      + rewrite E1, E2 in Hreq. exact Hreq.
      + rewrite T3 in Hreq. rewrite <- T1.
        apply (tree_flush_lookup_back (c_tree c) (c_tree c') tops d1 d2 k x TF A2 Hok).
        * intros i nd G. destruct (H5 i nd G) as [-> _]. apply (T_nonblank cr Hnonblank bs).
        * rewrite T1. apply H6.
        * exact Hreq.
    - intros Hreq.
      destruct (maybe_flush_inv cr Hhash32 Hnonblank bs Hw f c _ c' w' u _ H H5 H6)
        as (_ & _ & _ & _ & _ & _ & _ & _ & _ & Gav).
      cbn [w_disk] in Gav. apply Gav; [|exact Hreq].
      apply (sound_lookup_fits (c_tree c) (d_tree d) (t_length (c_tree c)) k x H1 H5 H6 Hreq).
  Qed.

  Theorem maybe_flush_navail f c d j ev c' w' u :
    SoundCore.RInv cr bs c d ->
    maybe_flush cr f c (mkWorld d j ev) = (c', w', Ok u) ->
    forall k, navail (c_tree c') (d_tree (w_disk w')) k <-> navail (c_tree c) (d_tree d) k.
  Proof.
    intros HI H k. unfold navail. split; intros [x Hx]; exists x;
      apply (maybe_flush_lookup_iff f c d j ev c' w' u HI H k x); exact Hx.
  Qed.
End FlushAvail.

(* ---------- 5. non-vacuity ---------- *)

(* The synced replica of SoundCore.v (invariant: [sc_RInv_synced]): six blocks known, the two roots 3 and 9
   in the unflushed map, EMPTY tree store.  A forced flush succeeds, empties the map and grows the store to
   ten records (400 bytes): records 3 and 9 are written, records 0-2 and 4-8 lie in zero-filled gaps
   (the subtle case of [write_nodes_read_back]) and read as blank.  The theorem applies; exactly the
   indices 3 and 9 can be looked up, before and after. *)
Example maybe_flush_navail_applies :
  match fst sc_R1 with
  | Some (c, w) =>
      exists c' w',
        maybe_flush sc_cr (Some true) c w = (c', w', Ok tt) /\
        map fst (nm_elements (t_unflushed (c_tree c))) = [3; 9] /\ f_len (d_tree (w_disk w)) = 0 /\
        nm_elements (t_unflushed (c_tree c')) = [] /\ f_len (d_tree (w_disk w')) = 400 /\
        (forall k, navail (c_tree c') (d_tree (w_disk w')) k <-> navail (c_tree c) (d_tree (w_disk w)) k) /\
        navail (c_tree c') (d_tree (w_disk w')) 3 /\ navail (c_tree c') (d_tree (w_disk w')) 9 /\
        ~ navail (c_tree c') (d_tree (w_disk w')) 5 /\ ~ navail (c_tree c) (d_tree (w_disk w)) 5
  | None => False
  end.
Proof.
  pose proof sc_RInv_synced as HR.
  destruct (fst sc_R1) as [[c w]|] eqn:E; [|destruct HR]. destruct HR as [HR _].
  destruct (maybe_flush sc_cr (Some true) c w) as [[c' w'] r] eqn:Ef.
  assert (Hc : r = Ok tt /\
               map fst (nm_elements (t_unflushed (c_tree c))) = [3; 9] /\ f_len (d_tree (w_disk w)) = 0 /\
               nm_elements (t_unflushed (c_tree c')) = [] /\ f_len (d_tree (w_disk w')) = 400 /\
               (exists x3, required_node (c_tree c') (d_tree (w_disk w')) 3 = Ok x3) /\
               (exists x9, required_node (c_tree c') (d_tree (w_disk w')) 9 = Ok x9) /\
               required_node (c_tree c') (d_tree (w_disk w')) 5 = Err InvalidOperation /\
               required_node (c_tree c) (d_tree (w_disk w)) 5 = Err InvalidOperation).
  { vm_compute in E. injection E as <- <-. vm_compute in Ef. injection Ef as <- <- <-.
    split; [reflexivity|]. split; [vm_compute; reflexivity|]. split; [reflexivity|].
    split; [reflexivity|]. split; [reflexivity|].
    split; [eexists; vm_compute; reflexivity|]. split; [eexists; vm_compute; reflexivity|].
    split; vm_compute; reflexivity. }
  destruct Hc as (-> & G1 & G2 & G3 & G4 & G5 & G6 & G7 & G8).
  exists c', w'. split; [reflexivity|]. split; [exact G1|]. split; [exact G2|].
  split; [exact G3|]. split; [exact G4|]. split.
  - destruct w as [d j ev].
    apply (maybe_flush_navail sc_cr sc_hash32 sc_nonblank sc_blocks sc_writer_fits
             (Some true) c d j ev c' w' tt HR Ef).
  - split; [exact G5|]. split; [exact G6|].
    split; intros [x Hx]; [rewrite G7 in Hx|rewrite G8 in Hx]; discriminate Hx.
Qed.

Check write_nodes_read_back.
Check tree_flush_lookup_back.
Check maybe_flush_lookup_iff.
Check maybe_flush_navail.
Print Assumptions write_nodes_read_back.
Print Assumptions tree_flush_lookup_back.
Print Assumptions maybe_flush_lookup_iff.
Print Assumptions maybe_flush_navail.
Print Assumptions maybe_flush_navail_applies.

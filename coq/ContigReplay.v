(* ContigReplay.v — the contiguous-length hint under replay over a partially flushed bitfield.
   Self-contained (stdlib only). Bit fields are functions N -> bool; [D] is the field found on
   disk (a mixture of old and new pages), [B] the field the log entries were computed against. *)
From Coq Require Import ZArith NArith List Lia ZifyN ZifyBool Bool.
Import ListNotations.
Ltac Zify.zify_post_hook ::= Z.div_mod_to_equations.
Local Open Scope N_scope.

Definition bf := N -> bool.
Inductive upd := USet (s e : N) | UDrop (s e : N).
Definition app (u : upd) (b : bf) : bf :=
  match u with
  | USet s e => fun i => b i || ((s <=? i) && (i <? e))
  | UDrop s e => fun i => b i && negb ((s <=? i) && (i <? e))
  end.
(* relational version of the hint update: [ext b e c] = c is the first index >= e unset in b *)
Definition ext (b : bf) (e c : N) := e <= c /\ b c = false /\ forall i, e <= i < c -> b i = true.
Inductive hint_step (b' : bf) : upd -> N -> N -> Prop :=
| hs_set_fire s e c c' : s <= c <= e -> ext b' e c' -> hint_step b' (USet s e) c c'
| hs_set_skip s e c : ~ (s <= c <= e) -> hint_step b' (USet s e) c c
| hs_drop_fire s e c : c > s -> hint_step b' (UDrop s e) c s
| hs_drop_skip s e c : c <= s -> hint_step b' (UDrop s e) c c.
Definition InvAB (D B : bf) (c : N) := (forall i, i < c -> D i || B i = true) /\ (D c && B c = false).
Ltac cmp := repeat match goal with
  | |- context[?a <=? ?b] => destruct (N.leb_spec a b)
  | |- context[?a <? ?b] => destruct (N.ltb_spec a b)
  | H : context[?a <=? ?b] |- _ => destruct (N.leb_spec a b)
  | H : context[?a <? ?b] |- _ => destruct (N.ltb_spec a b)
  end.
Lemma step_pres D B u c c' :
  (forall s e, u = UDrop s e -> s < e) -> InvAB D B c -> hint_step (app u D) u c c' -> InvAB (app u D) (app u B) c'.
Proof.
  intros Hne [HA HB] Hs. inversion Hs; subst; unfold InvAB, ext, app in *; cbv beta in *.
  - match goal with H : _ /\ _ /\ _ |- _ => destruct H as (He & Hc & Hext) end. split.
    + intros i Hi. destruct (N.ltb_spec i c) as [Hlt|Hge].
      * specialize (HA i Hlt). destruct (D i), (B i), ((s <=? i) && (i <? e)); cbn in *; congruence.
      * destruct (N.lt_ge_cases i e) as [Hie|Hie].
        -- assert ((s <=? i) && (i <? e) = true) as -> by lia. rewrite !orb_true_r. reflexivity.
        -- specialize (Hext i ltac:(lia)). rewrite Hext. reflexivity.
    + rewrite Hc. reflexivity.
  - split.
    + intros i Hi. specialize (HA i Hi). destruct (D i), (B i), ((s <=? i) && (i <? e)); cbn in *; congruence.
    + assert ((s <=? c') && (c' <? e) = false) as -> by lia. rewrite !orb_false_r. exact HB.
  - split.
    + intros i Hi. specialize (HA i ltac:(lia)). assert ((c' <=? i) = false) as -> by lia.
      cbn. rewrite !andb_true_r. exact HA.
    + assert ((c' <=? c') = true) as -> by lia. destruct (N.ltb_spec c' e); cbn; rewrite ?andb_false_r, ?andb_true_r.
      * reflexivity.
      * specialize (Hne _ _ eq_refl). lia.
  - split.
    + intros i Hi. specialize (HA i Hi). assert ((s <=? i) = false) as -> by lia.
      cbn. rewrite !andb_true_r. exact HA.
    + destruct (D c'), (B c'), ((s <=? c') && (c' <? e)); cbn in *; congruence.
Qed.

(* ------------------------------------------------------------------ *)
(** * everything above is pointwise in the fields *)

Lemma ext_ext b1 b2 e c : (forall i, b1 i = b2 i) -> ext b1 e c -> ext b2 e c.
Proof.
  intros E (H1 & H2 & H3). split; [exact H1|]. split.
  - rewrite <- E. exact H2.
  - intros i Hi. rewrite <- E. apply H3. exact Hi.
Qed.

Lemma hint_step_ext b1 b2 u c c' :
  (forall i, b1 i = b2 i) -> hint_step b1 u c c' -> hint_step b2 u c c'.
Proof.
  intros E H. inversion H; subst.
  - apply hs_set_fire; [assumption|]. eapply ext_ext; eassumption.
  - apply hs_set_skip; assumption.
  - apply hs_drop_fire; assumption.
  - apply hs_drop_skip; assumption.
Qed.

Lemma InvAB_ext D B D' B' c :
  (forall i, D i = D' i) -> (forall i, B i = B' i) -> InvAB D B c -> InvAB D' B' c.
Proof.
  intros ED EB [HA HB]. split.
  - intros i Hi. rewrite <- ED, <- EB. apply HA. exact Hi.
  - rewrite <- ED, <- EB. exact HB.
Qed.

Lemma step_pres_ext D B D' B' u c c' :
  (forall s e, u = UDrop s e -> s < e) ->
  (forall i, D' i = app u D i) -> (forall i, B' i = app u B i) ->
  InvAB D B c -> hint_step D' u c c' -> InvAB D' B' c'.
Proof.
  intros Hne ED EB HI Hs.
  apply (InvAB_ext (app u D) (app u B)).
  - intros i. symmetry. apply ED.
  - intros i. symmetry. apply EB.
  - apply step_pres with (c := c); [exact Hne | exact HI |].
    eapply hint_step_ext; [|exact Hs]. exact ED.
Qed.

(* ------------------------------------------------------------------ *)
(** * replaying a list of updates *)

Definition apps (us : list upd) (b : bf) : bf := fold_left (fun b u => app u b) us b.

(* the hint follows the updates applied to the on-disk field D *)
Inductive hint_run : bf -> list upd -> N -> N -> Prop :=
| hr_nil D c : hint_run D [] c c
| hr_cons D u us c c1 c' :
    hint_step (app u D) u c c1 -> hint_run (app u D) us c1 c' -> hint_run D (u :: us) c c'.

Definition nonempty_drops (us : list upd) := forall u s e, In u us -> u = UDrop s e -> s < e.

Definition exact (B : bf) (c : N) := (forall i, i < c -> B i = true) /\ B c = false.

Lemma replay_pres us : forall D B c c',
  nonempty_drops us -> InvAB D B c -> hint_run D us c c' ->
  InvAB (apps us D) (apps us B) c'.
Proof.
  induction us as [|u us IH]; intros D B c c' Hne HI Hr.
  - inversion Hr; subst. exact HI.
  - inversion Hr; subst. unfold apps. cbn [fold_left].
    apply (IH (app u D) (app u B) c1 c').
    + intros u' s e Hin. apply Hne. right. exact Hin.
    + apply step_pres with (c := c); [|exact HI|assumption].
      intros s e Hu. apply (Hne u s e); [left; reflexivity | exact Hu].
    + assumption.
Qed.

Lemma exact_InvAB D B c : exact B c -> InvAB D B c.
Proof.
  intros [HA HB]. split.
  - intros i Hi. rewrite (HA i Hi). apply orb_true_r.
  - rewrite HB. apply andb_false_r.
Qed.

Lemma InvAB_same_exact D B c : (forall i, D i = B i) -> InvAB D B c -> exact B c.
Proof.
  intros E [HA HB]. split.
  - intros i Hi. specialize (HA i Hi). rewrite E in HA. destruct (B i); [reflexivity | discriminate].
  - rewrite E in HB. destruct (B c); [discriminate | reflexivity].
Qed.

(* Once the two fields coincide after all the updates, the hint is the exact first missing index. *)
Theorem replay_exact us D0 B0 c0 c :
  nonempty_drops us -> InvAB D0 B0 c0 -> hint_run D0 us c0 c ->
  (forall i, apps us D0 i = apps us B0 i) ->
  (forall i, i < c -> apps us B0 i = true) /\ apps us B0 c = false.
Proof.
  intros Hne HI Hr E. apply (InvAB_same_exact (apps us D0)); [exact E|].
  eapply replay_pres; eassumption.
Qed.

(* ------------------------------------------------------------------ *)
(** * each bit is decided by the last update touching it *)

Definition touched (u : upd) (i : N) : bool :=
  match u with USet s e | UDrop s e => (s <=? i) && (i <? e) end.

Definition bitstep (u : upd) (i : N) (x : bool) : bool :=
  match u with
  | USet s e => x || ((s <=? i) && (i <? e))
  | UDrop s e => x && negb ((s <=? i) && (i <? e))
  end.

Lemma app_bit u b i : app u b i = bitstep u i (b i).
Proof. destruct u; reflexivity. Qed.

Lemma apps_bit us : forall b i, apps us b i = fold_left (fun x u => bitstep u i x) us (b i).
Proof.
  induction us as [|u us IH]; intros b i.
  - reflexivity.
  - unfold apps. cbn [fold_left]. fold (apps us (app u b)). rewrite IH, app_bit. reflexivity.
Qed.

Lemma bitstep_touched u i x y : touched u i = true -> bitstep u i x = bitstep u i y.
Proof.
  destruct u; unfold touched, bitstep; intros ->.
  - rewrite !orb_true_r. reflexivity.
  - cbn [negb]. rewrite !andb_false_r. reflexivity.
Qed.

Lemma bitstep_untouched u i x : touched u i = false -> bitstep u i x = x.
Proof.
  destruct u; unfold touched, bitstep; intros ->.
  - apply orb_false_r.
  - cbn [negb]. apply andb_true_r.
Qed.

Theorem apps_agree_untouched us : forall D0 B0,
  (forall i, (forall u, In u us -> touched u i = false) -> D0 i = B0 i) ->
  forall i, apps us D0 i = apps us B0 i.
Proof.
  induction us as [|u us IH]; intros D0 B0 H i.
  - apply H. intros u [].
  - unfold apps. cbn [fold_left]. apply IH. intros j Hj.
    rewrite !app_bit. destruct (touched u j) eqn:Et.
    + apply bitstep_touched. exact Et.
    + f_equal. apply H. intros u' [<-|Hin]; [exact Et | apply Hj; exact Hin].
Qed.

(* the composite action on one bit is the identity or a constant *)
Lemma fold_bitstep_shape us i :
  (forall x, fold_left (fun x u => bitstep u i x) us x = x) \/
  (exists k, forall x, fold_left (fun x u => bitstep u i x) us x = k).
Proof.
  induction us as [|u us IH].
  - left. reflexivity.
  - cbn [fold_left]. destruct IH as [Hid|(k & Hk)].
    + destruct (touched u i) eqn:Et.
      * right. exists (bitstep u i true). intros x. rewrite Hid.
        apply bitstep_touched. exact Et.
      * left. intros x. rewrite Hid. apply bitstep_untouched. exact Et.
    + right. exists k. intros x. apply Hk.
Qed.

(* a disk field that is, bit by bit, either the old or the final value replays to the final field *)
Theorem apps_mixture us D0 B0 :
  (forall i, D0 i = B0 i \/ D0 i = apps us B0 i) ->
  forall i, apps us D0 i = apps us B0 i.
Proof.
  intros H i. rewrite (apps_bit us D0). destruct (H i) as [E|E].
  - rewrite E. symmetry. apply apps_bit.
  - rewrite E. rewrite !apps_bit.
    destruct (fold_bitstep_shape us i) as [Hid|(k & Hk)].
    + rewrite !Hid. reflexivity.
    + rewrite !Hk. reflexivity.
Qed.

(* crash recovery: exact hint for the pre-crash field, any old/new mixture on disk *)
Theorem replay_exact_mixture us D0 B0 c0 c :
  nonempty_drops us -> exact B0 c0 ->
  (forall i, D0 i = B0 i \/ D0 i = apps us B0 i) ->
  hint_run D0 us c0 c ->
  exact (apps us B0) c.
Proof.
  intros Hne Hex Hmix Hr.
  apply (replay_exact us D0 B0 c0 c Hne (exact_InvAB D0 B0 c0 Hex) Hr).
  apply apps_mixture. exact Hmix.
Qed.

Print Assumptions step_pres.
Print Assumptions step_pres_ext.
Print Assumptions replay_pres.
Print Assumptions replay_exact.
Print Assumptions apps_agree_untouched.
Print Assumptions apps_mixture.
Print Assumptions replay_exact_mixture.

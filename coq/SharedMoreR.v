(* SharedMoreR.v -- property C15: the remaining SharedCore methods as call types, REPLICA core.

   ReplicaMiscC.v instantiates the lock theory of Shared.v with the calls {apply proof, get, has, info} of a
   replica core (a core created from the public key alone).  Here the call type is extended (qcall embeds
   ReplicaMiscC.rcall) with

     QCreateProof block hash seek upgrade   -> Core.core_create_proof
     QMissingNodes index                    -> Core.core_missing_nodes
     QKeyPair                               -> the key pair field of the core

   and it is proved that
     * the new calls never change the core, the disk or the storage journal; the only trace they leave is the
       single EvGet that create_proof sends when the requested block is not held (qstep_new_frame);
     * every concurrent run over the extended call set equals its serialization in lock order
       (qshared_serializable), for bodies with one micro-step per call and for bodies in which a proof
       application is split at its storage operations and create_proof at its two await points;
     * the results of ReplicaMiscC.v (replica spec rd_ok along the serialization, reads return None or the
       writer's block, blocks of accepted proofs readable afterwards) still hold in the presence of the new calls;
     * what a create_proof / missing_nodes / key_pair call returns in a concurrent run is what the call returns on
       a state satisfying the replica invariant RDInv for the held set reached by the serialization prefix; for
       create_proof: every node served is the WRITER's node (authentic, inside the replica's length), a block
       section carries the writer's block and is served exactly when the block is held at that point, the fork
       is 0, the upgrade section is the requested range with the stored signature. *)
From HC Require Import Base NMap Codec CodecFacts Crypto FlatTree Storage Bitfield Oplog Merkle Core.
From HC Require Import FlatTreeFacts StorageFacts BitfieldFacts OplogFacts TreeRef OffsetFacts CoreFacts Crash Refine.
From HC Require Import ClearRefine Reopen ContigBridge Unified1 Unified2 CrashCore1 CrashCore2 CrashCore3 CrashClear1.
From HC Require Import Sound NoPanic Replicate SoundCoreLib SoundCore SoundCoreUp SoundCoreBU ReplicaCorA.
From HC Require Import ReplicaDisk1 ReplicaDisk2 ReplicaDisk3 ReplicaDisk4 ReplicaDisk5 ReplicaDisk6 ReplicaDisk7.
From HC Require Import ProofContent.
From HC Require Shared.
From HC Require Import SharedInst ReplicaMiscC SharedMore.
From Coq Require Import FMapPositive ZifyN ZifyNat ZifyBool.
Ltac Zify.zify_post_hook ::= Z.div_mod_to_equations.
Arguments N.add : simpl never.
Arguments N.sub : simpl never.
Arguments N.mul : simpl never.
Arguments N.div : simpl never.
Arguments N.modulo : simpl never.
Arguments N.pow : simpl never.
Arguments N.eqb : simpl never.
Arguments N.ltb : simpl never.
Arguments N.leb : simpl never.
Arguments N.max : simpl never.
Arguments N.min : simpl never.
Arguments N.of_nat : simpl never.
Arguments N.to_nat : simpl never.

(* ====================================================================================== *)
(* A. The extended calls of a shared replica core and their atomic meaning                  *)
(* ====================================================================================== *)

Inductive qcall :=
| QOld (c : rcall)                         (* apply proof / get / has / info, as in ReplicaMiscC.v *)
| QCreateProof (block hash : option req_block) (seek : option req_seek) (upgrade : option req_upgrade)
| QMissingNodes (index : N)
| QKeyPair.

Inductive qobs :=
| QOOld (o : rdobs)
| QOProof (r : res (option proof))
| QOMissing (r : res N)
| QOKeyPair (k : keypair).

Definition qstep (cr : crypto) (c : qcall) (s : rstate) : rstate * qobs :=
  match c with
  | QOld c0 => let '(s', o) := rstep cr c0 s in (s', QOOld o)
  | QCreateProof b h k u =>
      let '(c', w', r) := core_create_proof b h k u (fst s) (snd s) in ((c', w'), QOProof r)
  | QMissingNodes i =>
      let '(c', w', r) := core_missing_nodes i (fst s) (snd s) in ((c', w'), QOMissing r)
  | QKeyPair => (s, QOKeyPair (c_keypair (fst s)))
  end.

Definition qnew (c : qcall) : bool := match c with QOld _ => false | _ => true end.

(* the proofs covered are those of ReplicaDisk3.apply_keeps_RDInv *)
Definition qcall_ok (c : qcall) : Prop := match c with QOld c0 => rcall_ok c0 | _ => True end.

Definition qframe_panic : qobs := QOOld rframe_panic.

(* ====================================================================================== *)
(* B. The new calls leave core, disk and journal alone                                      *)
(* ====================================================================================== *)

Definition qnew_events (c : qcall) (s : rstate) : list event :=
  match c with
  | QCreateProof b h k u =>
      match proof_missing_block b h k u (fst s) (snd s) with Some i => [EvGet i] | None => [] end
  | _ => []
  end.

Theorem qstep_new_frame cr c s s' o :
  qnew c = true -> qstep cr c s = (s', o) ->
  fst s' = fst s /\ w_disk (snd s') = w_disk (snd s) /\ w_journal (snd s') = w_journal (snd s) /\
  w_events (snd s') = qnew_events c s ++ w_events (snd s).
Proof.
  intros Hn H. destruct c as [c0|b h k u|i| ]; [discriminate Hn| | |]; cbn [qstep qnew_events] in *.
  - destruct (core_create_proof b h k u (fst s) (snd s)) as [[c' w'] r] eqn:E. injection H as <- _.
    cbn [fst snd]. destruct (create_proof_events b h k u _ _ _ _ _ E) as (Ev & _ & Ec & Ed & Ej).
    split; [exact Ec|]. split; [exact Ed|]. split; [exact Ej|exact Ev].
  - destruct (core_missing_nodes i (fst s) (snd s)) as [[c' w'] r] eqn:E. injection H as <- _.
    cbn [fst snd]. destruct (proj1 (core_missing_nodes_quiet i) _ _ _ _ _ E) as (Ec & Ed & Ej).
    pose proof (proj1 (missing_nodes_silent i) _ _ _ _ _ E) as Ev.
    split; [exact Ec|]. split; [exact Ed|]. split; [exact Ej|exact Ev].
  - injection H as <- _. repeat split; reflexivity.
Qed.

(* ====================================================================================== *)
(* C. The held set and the old calls along an extended serialization                        *)
(* ====================================================================================== *)

(* the held set after one call: only an ACCEPTED proof application changes it *)
Definition qhold1 (H : N -> bool) (c : qcall) (o : qobs) : N -> bool :=
  match c, o with
  | QOld c0, QOOld o0 => hold1 H c0 o0
  | _, _ => H
  end.

Fixpoint qheld_by (H : N -> bool) (cs : list qcall) (rs : list qobs) : N -> bool :=
  match cs, rs with
  | c :: cs', o :: rs' => qheld_by (qhold1 H c o) cs' rs'
  | _, _ => H
  end.

(* the held set seen by the i-th completed call of a completion log *)
Definition qheld_at (H : N -> bool) (lg : list (nat * qcall * qobs)) (i : nat) : N -> bool :=
  qheld_by H (firstn i (Shared.calls lg)) (firstn i (Shared.results lg)).

(* the projection of a serialization on the old calls: the replica operations and their observations, to which
   the replica spec ReplicaDisk5.rd_ok applies *)
Definition qops1 (c : qcall) : list rdop := match c with QOld c0 => [to_rdop c0] | _ => [] end.
Definition qobs1 (c : qcall) (o : qobs) : list rdobs :=
  match c, o with QOld _, QOOld o0 => [o0] | _, _ => [] end.
Definition qops (cs : list qcall) : list rdop := flat_map qops1 cs.
Fixpoint qobsl (cs : list qcall) (rs : list qobs) : list rdobs :=
  match cs, rs with
  | c :: cs', o :: rs' => qobs1 c o ++ qobsl cs' rs'
  | _, _ => []
  end.

(* does the call (with its result) add index i to the held set? *)
Definition qadds (i : N) (co : qcall * qobs) : bool :=
  match co with (QOld c0, QOOld o0) => adds i (c0, o0) | _ => false end.

Lemma qheld_by_spec cs : forall H rs i, qheld_by H cs rs i = H i || existsb (qadds i) (combine cs rs).
Proof.
  induction cs as [|c cs IH]; intros H rs i; [cbn [qheld_by combine existsb]; now rewrite orb_false_r|].
  destruct rs as [|o rs]; [cbn [qheld_by combine existsb]; now rewrite orb_false_r|].
  cbn [qheld_by combine existsb]. rewrite IH.
  destruct c as [c0|b h k u|j| ]; cbn [qhold1 qadds]; try (cbn [orb]; reflexivity).
  destruct o as [o0|r|r|kp]; cbn [orb]; try reflexivity.
  pose proof (held_by_spec [c0] H [o0] i) as S. cbn [held_by combine existsb] in S.
  rewrite orb_false_r in S. rewrite S, orb_assoc. reflexivity.
Qed.

(* ====================================================================================== *)
(* D. What create_proof returns on a replica state                                          *)
(* ====================================================================================== *)

Section QSeq.
  Variable cr : crypto.
  Variable bs : list bytes.               (* the writer's blocks *)
  Hypothesis Hcrc : crc_ok cr.
  Hypothesis Hhash32 : forall x, length (cr_hash cr x) = 32%nat.
  Hypothesis Hnonblank : forall x, all_zero (cr_hash cr x) = false.
  Hypothesis Hhashbytes : forall x, bytes_ok (cr_hash cr x) = true.
  Hypothesis Hw : writer_fits bs.

  (* The sound proof of a replica state (core c with held set H) for a request: if a proof is returned, every
     node of every section is the WRITER's node at its flat index, inside the tree over the replica's length;
     the fork is 0; a block section carries the writer's block [db_index], which the replica holds and which is
     the requested one; an upgrade section is the requested range with the signature the replica stores; and no
     proof is returned for a requested block that the replica does not hold. *)
  Definition proof_sound (c : core) (H : N -> bool) (block : option req_block) (upgrade : option req_upgrade)
             (r : res (option proof)) : Prop :=
    (forall pf, r = Ok (Some pf) ->
       (forall x, In x (proof_nodes pf) -> authentic cr bs (t_length (c_tree c)) x) /\
       p_fork pf = 0 /\
       (forall b, p_block pf = Some b ->
          H (db_index b) = true /\ db_value b = blk bs (db_index b) /\
          exists rb, block = Some rb /\ db_index b = rb_index rb) /\
       (block = None -> p_block pf = None) /\
       (forall u, p_upgrade pf = Some u ->
          t_signature (c_tree c) = Some (du_signature u) /\
          exists ru, upgrade = Some ru /\ du_start u = ru_start ru /\ du_length u = ru_length ru)) /\
    (forall rb, block = Some rb -> H (rb_index rb) = false -> forall pf, r <> Ok (Some pf)).

  Lemma replica_create_proof_run c d H j ev block hash seek upgrade :
    RDInv cr bs c d H ->
    core_create_proof block hash seek upgrade c (mkWorld d j ev) =
    match create_valueless_proof (c_tree c) (d_tree d) block hash seek upgrade with
    | Ok vp =>
        match vp_block vp with
        | Some b =>
            if H (dh_index b)
            then (c, mkWorld d j ev,
                  Ok (Some (mkProof (vp_fork vp)
                              (Some (mkDataBlock (dh_index b) (blk bs (dh_index b)) (dh_nodes b)))
                              (vp_hash vp) (vp_seek vp) (vp_upgrade vp))))
            else (c, mkWorld d j (EvGet (dh_index b) :: ev), Ok None)
        | None => (c, mkWorld d j ev,
                   Ok (Some (mkProof (vp_fork vp) None (vp_hash vp) (vp_seek vp) (vp_upgrade vp))))
        end
    | Err e => (c, mkWorld d j ev, Err e)
    | Panic s => (c, mkWorld d j ev, Panic s)
    | OutOfFuel => (c, mkWorld d j ev, OutOfFuel)
    end.
  Proof.
    intros X. unfold core_create_proof. rewrite mbind_get_core, mbind_get_disk, mbind_lift. cbn [w_disk].
    destruct (create_valueless_proof (c_tree c) (d_tree d) block hash seek upgrade) as [vp|e|s|]; try reflexivity.
    destruct (vp_block vp) as [b|]; [|reflexivity].
    unfold mbind. rewrite (RD_get cr bs Hw c d H j ev (dh_index b) X).
    destruct (H (dh_index b)); reflexivity.
  Qed.

  Lemma from_writer_authentic c d H x :
    RDInv cr bs c d H -> from_writer (c_tree c) (d_tree d) x -> authentic cr bs (t_length (c_tree c)) x.
  Proof.
    intros X [i Hi]. destruct (RDInv_RInv cr bs c d H X) as (_ & _ & _ & _ & Hu & Hf & _).
    unfold required_node in Hi. apply bind_ok in Hi. destruct Hi as ([n|] & Hg & Hn); [|discriminate Hn].
    injection Hn as ->.
    destruct (node_get_sound cr bs _ _ _ i false x Hu Hf Hg) as [E I].
    unfold authentic. cbv zeta. rewrite E, T_index. split; [reflexivity|exact I].
  Qed.

  Theorem replica_create_proof c d H j ev block hash seek upgrade c' w' r :
    RDInv cr bs c d H ->
    core_create_proof block hash seek upgrade c (mkWorld d j ev) = (c', w', r) ->
    c' = c /\
    ((r <> Ok None /\ w' = mkWorld d j ev) \/
     (r = Ok None /\ exists rb, block = Some rb /\ H (rb_index rb) = false /\
                                w' = mkWorld d j (EvGet (rb_index rb) :: ev))) /\
    proof_sound c H block upgrade r.
  Proof.
    intros X Hc. rewrite (replica_create_proof_run c d H j ev block hash seek upgrade X) in Hc.
    destruct (create_valueless_proof (c_tree c) (d_tree d) block hash seek upgrade) as [vp|e|s|] eqn:E.
    2,3,4: (injection Hc as <- <- <-; split; [reflexivity|]; split; [left; split; [discriminate|reflexivity]|];
            split; [intros pf Hpf; discriminate Hpf|intros rb _ _ pf Hpf; discriminate Hpf]).
    destruct (create_proof_no_fabrication _ _ _ _ _ _ _ E) as (Hall & Hfork & Hblk & _ & _ & Hup & _).
    assert (Hn : forall x, In x (vproof_nodes vp) -> authentic cr bs (t_length (c_tree c)) x).
    { intros x Hx. apply (from_writer_authentic c d H x X). exact (vp_all_nodes _ vp Hall x Hx). }
    assert (HF0 : vp_fork vp = 0).
    { rewrite Hfork. destruct (RDInv_RInv cr bs c d H X) as (_ & HF0 & _). exact HF0. }
    assert (Hupg : forall u, vp_upgrade vp = Some u ->
              t_signature (c_tree c) = Some (du_signature u) /\
              exists ru, upgrade = Some ru /\ du_start u = ru_start ru /\ du_length u = ru_length ru).
    { intros u Hu. destruct (Hup u Hu) as (ru & A & B & C & D). split; [exact D|]. exists ru. auto. }
    unfold vproof_nodes in Hn.
    destruct (vp_block vp) as [b|] eqn:Eb.
    - destruct (Hblk b eq_refl) as (rb & -> & Hidx).
      destruct (H (dh_index b)) eqn:Eh; injection Hc as <- <- <-.
      + split; [reflexivity|]. split; [left; split; [discriminate|reflexivity]|]. split.
        * intros pf [= <-]. unfold proof_nodes.
          cbn [p_block p_hash p_seek p_upgrade p_fork db_nodes db_index db_value].
          split; [exact Hn|]. split; [exact HF0|]. split.
          -- intros b0 [= <-]. cbn [db_index db_value]. split; [exact Eh|]. split; [reflexivity|].
             exists rb. split; [reflexivity|exact Hidx].
          -- split; [discriminate|exact Hupg].
        * intros rb0 [= <-] Hh pf _. rewrite <- Hidx, Eh in Hh. discriminate Hh.
      + split; [reflexivity|]. split.
        * right. split; [reflexivity|]. exists rb. rewrite <- Hidx. split; [reflexivity|]. split; [exact Eh|reflexivity].
        * split; [intros pf Hpf; discriminate Hpf|intros rb0 _ _ pf Hpf; discriminate Hpf].
    - injection Hc as <- <- <-. split; [reflexivity|]. split; [left; split; [discriminate|reflexivity]|]. split.
      + intros pf [= <-]. unfold proof_nodes. cbn [p_block p_hash p_seek p_upgrade p_fork].
        split; [exact Hn|]. split; [exact HF0|]. split; [intros b0 Hb0; discriminate Hb0|].
        split; [reflexivity|exact Hupg].
      + intros rb -> Hh pf _.
        (* a request with a block section always yields a block section *)
        destruct (create_block_section _ _ _ _ _ _ _ E) as [ns Ens]. rewrite Eb in Ens. discriminate Ens.
  Qed.

  (* ====================================================================================== *)
  (* E. One call, then a sequence of calls, against the replica spec                          *)
  (* ====================================================================================== *)

  (* one call on a state satisfying the replica invariant: the application hits the 2^30 frame guard, or the
     invariant holds afterwards for the held set the spec prescribes, the key pair is unchanged, the length did
     not shrink, and the observation of an old call extends every spec-conforming continuation to a
     spec-conforming history (a new call contributes nothing to the projection on the old calls) *)
  Lemma qstep_RDInv call c d j ev H s' o :
    RDInv cr bs c d H -> qcall_ok call ->
    qstep cr call (c, mkWorld d j ev) = (s', o) ->
    (o = qframe_panic /\ exists f pf, call = QOld (QApply f pf)) \/
    (RDInv cr bs (fst s') (w_disk (snd s')) (qhold1 H call o) /\
     c_keypair (fst s') = c_keypair c /\
     t_length (c_tree c) <= t_length (c_tree (fst s')) /\
     forall rest obs, rd_ok bs (qhold1 H call o) (t_length (c_tree (fst s'))) rest obs ->
                      rd_ok bs H (t_length (c_tree c)) (qops1 call ++ rest) (qobs1 call o ++ obs)) \/
    some_collision cr \/ forged_signature cr bs (kp_public (c_keypair c)).
  Proof.
    intros X Hop E.
    destruct (qnew call) eqn:Hn.
    - right. left. destruct (qstep_new_frame cr call _ s' o Hn E) as (Ec & Ed & _). cbn [fst snd w_disk] in Ec, Ed.
      assert (Eh : qhold1 H call o = H) by (destruct call; [discriminate Hn|reflexivity..]).
      assert (E1 : qops1 call = []) by (destruct call; [discriminate Hn|reflexivity..]).
      assert (E2 : qobs1 call o = []) by (destruct call; [discriminate Hn|reflexivity..]).
      rewrite Eh, Ec, Ed, E1, E2. split; [exact X|]. split; [reflexivity|]. split; [lia|].
      intros rest obs Hr. exact Hr.
    - destruct call as [c0|b h k u|i| ]; try discriminate Hn. clear Hn.
      cbn [qstep qcall_ok] in *.
      destruct (rstep cr c0 (c, mkWorld d j ev)) as [s1 o1] eqn:E1. injection E as <- <-.
      destruct (rstep_RDInv cr bs Hcrc Hhash32 Hnonblank Hhashbytes Hw c0 c d j ev H s1 o1 X Hop E1)
        as [(-> & f & pf & ->)|[(X1 & K1 & L1 & Hext)|[C|F]]].
      + left. split; [reflexivity|]. exists f, pf. reflexivity.
      + right. left. cbn [qhold1 qops1 qobs1 app]. split; [exact X1|]. split; [exact K1|]. split; [exact L1|exact Hext].
      + right. right. left. exact C.
      + right. right. right. exact F.
  Qed.

  (* ---------- any method bodies whose atomic meaning is the Core.v operation ---------- *)
  Variable L : Type.
  Variable l0 : qcall -> L.
  Variable body : qcall -> list (rstate * L -> rstate * L).
  Variable res : qcall -> L -> qobs.
  Hypothesis Hatomic : forall c s, Shared.atomic l0 body res c s = qstep cr c s.

  (* The two possible outcomes of a serialization [cs] with results [rs] from a replica holding H.
     qmodel_run: the projection on the old calls conforms to the replica spec rd_ok, the state [s1] reached
     satisfies the replica invariant for H extended by the blocks of the accepted proofs, the key pair is the
     initial one (c0 = the initial core) and the length did not shrink.
     qframe_stop: some proof application returned Panic frame_msg (nothing is claimed about later calls). *)
  Definition qmodel_run (c0 : core) (s1 : rstate) (cs : list qcall) (rs : list qobs) (H : N -> bool) : Prop :=
    rd_ok bs H (t_length (c_tree c0)) (qops cs) (qobsl cs rs) /\
    RDInv cr bs (fst s1) (w_disk (snd s1)) (qheld_by H cs rs) /\
    c_keypair (fst s1) = c_keypair c0 /\
    t_length (c_tree c0) <= t_length (c_tree (fst s1)).
  Definition qframe_stop (cs : list qcall) (rs : list qobs) : Prop :=
    exists k f pf, nth_error cs k = Some (QOld (QApply f pf)) /\ nth_error rs k = Some qframe_panic.

  Theorem qseq_replica cs : forall c d j ev H s' rs,
    RDInv cr bs c d H -> Forall qcall_ok cs ->
    Shared.seq_run l0 body res (c, mkWorld d j ev) cs = (s', rs) ->
    qmodel_run c s' cs rs H \/ qframe_stop cs rs \/
    some_collision cr \/ forged_signature cr bs (kp_public (c_keypair c)).
  Proof.
    unfold qmodel_run, qframe_stop.
    induction cs as [|a cs IH]; intros c d j ev H s' rs X Hops E.
    - cbn [Shared.seq_run] in E. injection E as <- <-. left. cbn [qops flat_map qobsl qheld_by fst snd w_disk].
      split; [constructor|]. split; [exact X|]. split; [reflexivity|lia].
    - inversion Hops as [|? ? Hop Hops']; subst.
      cbn [Shared.seq_run] in E. rewrite Hatomic in E.
      destruct (qstep cr a (c, mkWorld d j ev)) as [s1 o] eqn:E1.
      destruct (Shared.seq_run l0 body res s1 cs) as [s2 rs'] eqn:E2.
      injection E as <- <-.
      destruct (qstep_RDInv a c d j ev H s1 o X Hop E1)
        as [(-> & f & pf & ->)|[(X1 & K1 & L1 & Hext)|[C|F]]];
        [|clear E1|right; right; left; exact C|right; right; right; exact F].
      + right. left. exists 0%nat, f, pf. split; reflexivity.
      + destruct s1 as [c1 [d1 j1 ev1]]. cbn [fst snd w_disk] in X1, K1, L1, Hext.
        destruct (IH c1 d1 j1 ev1 _ s2 rs' X1 Hops' E2)
          as [(Hr & X2 & K2 & L2)|[(k & f & pf & Hk & Hp)|[C|F]]];
          [left|right; left|right; right; left; exact C|right; right; right; rewrite <- K1; exact F].
        * unfold qops. cbn [flat_map qobsl qheld_by]. split; [apply Hext, Hr|]. split; [exact X2|].
          split; [congruence|lia].
        * exists (Datatypes.S k), f, pf. split; assumption.
  Qed.

  (* ... and call by call: the i-th result is what the i-th call returns on a state that satisfies the replica
     invariant for the held set reached by the first i calls, whose projection conforms to the replica spec
     (unless an earlier application hit the frame guard) *)
  Theorem qseq_at cs : forall c d j ev H s' rs,
    RDInv cr bs c d H -> Forall qcall_ok cs ->
    Shared.seq_run l0 body res (c, mkWorld d j ev) cs = (s', rs) ->
    forall i call r, nth_error cs i = Some call -> nth_error rs i = Some r ->
    (forall k, (k < i)%nat -> nth_error rs k <> Some qframe_panic) ->
    (exists ci di ji evi,
       RDInv cr bs ci di (qheld_by H (firstn i cs) (firstn i rs)) /\
       c_keypair ci = c_keypair c /\
       t_length (c_tree c) <= t_length (c_tree ci) /\
       rd_ok bs H (t_length (c_tree c)) (qops (firstn i cs)) (qobsl (firstn i cs) (firstn i rs)) /\
       Shared.seq_run l0 body res (c, mkWorld d j ev) (firstn i cs) = ((ci, mkWorld di ji evi), firstn i rs) /\
       r = snd (qstep cr call (ci, mkWorld di ji evi)) /\ qcall_ok call) \/
    some_collision cr \/ forged_signature cr bs (kp_public (c_keypair c)).
  Proof.
    induction cs as [|a cs IH]; intros c d j ev H s' rs X Hops E i call r Hc Hr Hno;
      [destruct i; discriminate Hc|].
    inversion Hops as [|? ? Hop Hops']; subst.
    cbn [Shared.seq_run] in E. rewrite Hatomic in E.
    destruct (qstep cr a (c, mkWorld d j ev)) as [s1 o] eqn:E1.
    destruct (Shared.seq_run l0 body res s1 cs) as [s2 rs'] eqn:E2.
    injection E as <- <-.
    destruct i as [|i].
    - cbn [nth_error] in Hc, Hr. injection Hc as ->. injection Hr as <-. left.
      cbn [firstn qheld_by qops flat_map qobsl Shared.seq_run].
      exists c, d, j, ev. rewrite E1. cbn [snd].
      split; [exact X|]. split; [reflexivity|]. split; [lia|]. split; [constructor|].
      split; [reflexivity|]. split; [reflexivity|exact Hop].
    - cbn [nth_error] in Hc, Hr.
      destruct (qstep_RDInv a c d j ev H s1 o X Hop E1)
        as [(-> & _)|[(X1 & K1 & L1 & Hext)|[C|F]]];
        [| |right; left; exact C|right; right; exact F].
      + exfalso. apply (Hno 0%nat); [lia|reflexivity].
      + destruct s1 as [c1 [d1 j1 ev1]]. cbn [fst snd w_disk] in X1, K1, L1, Hext.
        assert (Hno' : forall k, (k < i)%nat -> nth_error rs' k <> Some qframe_panic).
        { intros k Hk. apply (Hno (Datatypes.S k)). lia. }
        destruct (IH c1 d1 j1 ev1 _ s2 rs' X1 Hops' E2 i call r Hc Hr Hno')
          as [(ci & di & ji & evi & Xi & Ki & Li & Oi & Ri & Er & Hok)|[C|F]];
          [left|right; left; exact C|right; right; rewrite <- K1; exact F].
        cbn [firstn qheld_by]. unfold qops. cbn [flat_map qobsl].
        exists ci, di, ji, evi. split; [exact Xi|]. split; [congruence|]. split; [lia|].
        split; [apply Hext, Oi|]. split; [|split; [exact Er|exact Hok]].
        cbn [Shared.seq_run]. rewrite Hatomic, E1, Ri. reflexivity.
  Qed.

  (* ====================================================================================== *)
  (* F. Every concurrent run of a shared replica core over the extended calls                  *)
  (* ====================================================================================== *)

  (* the sequential semantics of a list of calls, by the Core.v operations themselves *)
  Fixpoint qrun (s : rstate) (cs : list qcall) : rstate * list qobs :=
    match cs with
    | [] => (s, [])
    | c :: cs' => let '(s1, r) := qstep cr c s in
                  let '(s2, rs) := qrun s1 cs' in (s2, r :: rs)
    end.

  Lemma qseq_run_eq cs : forall s, Shared.seq_run l0 body res s cs = qrun s cs.
  Proof.
    induction cs as [|a cs IH]; intros s; [reflexivity|].
    cbn [Shared.seq_run qrun]. rewrite Hatomic. destruct (qstep cr a s) as [s1 r]. rewrite IH. reflexivity.
  Qed.

  (* (a) SERIALIZABILITY over the extended call set: the results of the completed calls are those of the Core.v
     operations run one after the other in completion (= lock acquisition) order from the initial state, and --
     whenever the lock is free -- the shared state is the state that run reaches *)
  Theorem qshared_serializable progs cfg s0 :
    Shared.steps l0 body res (Shared.init s0 progs) cfg ->
    exists s1, qrun s0 (Shared.calls (Shared.log cfg)) = (s1, Shared.results (Shared.log cfg)) /\
               (Shared.holder cfg = None -> s1 = Shared.shared cfg).
  Proof.
    clear Hcrc Hhash32 Hnonblank Hhashbytes Hw.
    intros Hst. destruct (Shared.log_serial _ _ _ _ _ _ _ _ _ _ Hst) as [s1 H1].
    exists s1. split; [rewrite <- qseq_run_eq; exact H1|]. intros Hh.
    pose proof (Shared.serializable _ _ _ _ _ _ _ _ _ _ Hst Hh) as H2.
    unfold Shared.calls, Shared.call_of, Shared.results in *.
    rewrite H1 in H2. injection H2 as ->. reflexivity.
  Qed.

  (* Schedule-independent hypothesis: every proof applied by some program is of the covered shape.  It implies
     the hypothesis on every serialization order. *)
  Lemma qprogs_ok_log progs cfg s0 :
    Shared.steps l0 body res (Shared.init s0 progs) cfg ->
    Forall (Forall qcall_ok) progs ->
    Forall qcall_ok (Shared.calls (Shared.log cfg)).
  Proof.
    clear Hcrc Hhash32 Hnonblank Hhashbytes Hw Hatomic.
    intros Hst Hall. apply Forall_forall. intros c0 Hin.
    apply In_nth_error in Hin. destruct Hin as [k Hk].
    unfold Shared.calls in Hk. rewrite nth_error_map in Hk.
    destruct (nth_error (Shared.log cfg) k) as [[[t c1] r]|] eqn:E; cbn [option_map] in Hk; [|discriminate].
    injection Hk as Hc. unfold Shared.call_of in Hc. cbn [fst snd] in Hc. subst c1.
    destruct (log_entry_prefix _ _ _ _ _ _ _ _ _ _ Hst k t c0 r E) as [tl Ht].
    assert (Hin : In (nth t progs []) progs).
    { destruct (Nat.lt_ge_cases t (length progs)) as [Hlt|Hge]; [apply nth_In; exact Hlt|].
      rewrite nth_overflow in Ht by exact Hge. destruct (task_calls t (firstn k (Shared.log cfg))); discriminate. }
    pose proof (proj1 (Forall_forall _ _) Hall _ Hin) as Hp.
    apply (proj1 (Forall_forall _ _) Hp). rewrite Ht. apply in_or_app. right. left. reflexivity.
  Qed.

  (* MAIN THEOREM.  Any number of tasks, any programs over the extended calls, EVERY schedule, any reachable
     configuration: the projection of the completion order on the old calls conforms to the replica spec, and
     the state left by the last completed call -- the shared state itself whenever the lock is free -- satisfies
     the replica invariant for H extended by the blocks of the accepted proofs; or an application hit the frame
     guard; or a hash collision / a signature on a message the writer never signed is exhibited. *)
  Theorem qshared_replica progs cfg c d j ev H :
    RDInv cr bs c d H ->
    Forall (Forall qcall_ok) progs ->
    Shared.steps l0 body res (Shared.init (c, mkWorld d j ev) progs) cfg ->
    let cs := Shared.calls (Shared.log cfg) in
    let rs := Shared.results (Shared.log cfg) in
    exists s1, (Shared.holder cfg = None -> s1 = Shared.shared cfg) /\
      (qmodel_run c s1 cs rs H \/ qframe_stop cs rs \/
       some_collision cr \/ forged_signature cr bs (kp_public (c_keypair c))).
  Proof.
    intros X Hall Hst cs rs.
    destruct (qshared_serializable _ _ _ Hst) as (s1 & Hrun & Hfree). rewrite <- qseq_run_eq in Hrun.
    exists s1. split; [exact Hfree|].
    exact (qseq_replica cs c d j ev H s1 _ X (qprogs_ok_log progs cfg _ Hst Hall) Hrun).
  Qed.

  Theorem qshared_replica_finished progs cfg c d j ev H :
    RDInv cr bs c d H ->
    Forall (Forall qcall_ok) progs ->
    Shared.steps l0 body res (Shared.init (c, mkWorld d j ev) progs) cfg ->
    (forall tk, In tk (Shared.tasks cfg) -> Shared.st tk = Shared.Idle /\ Shared.prog tk = []) ->
    let cs := Shared.calls (Shared.log cfg) in
    let rs := Shared.results (Shared.log cfg) in
    length (Shared.log cfg) = list_sum (map (@length qcall) progs) /\
    (forall t, task_calls t (Shared.log cfg) = nth t progs []) /\
    (forall t tk, nth_error (Shared.tasks cfg) t = Some tk ->
       Shared.out tk = map snd (filter (fun e => Nat.eqb (fst (fst e)) t) (Shared.log cfg))) /\
    Shared.holder cfg = None /\
    (qmodel_run c (Shared.shared cfg) cs rs H \/ qframe_stop cs rs \/
     some_collision cr \/ forged_signature cr bs (kp_public (c_keypair c))).
  Proof.
    intros X Hall Hst Hdone cs rs.
    destruct (Shared.finished_all_serial _ _ _ _ _ _ _ _ _ _ Hst Hdone) as (F1 & F2 & F3 & _).
    split; [exact F1|]. split; [exact F2|].
    split; [exact (Shared.results_match_log _ _ _ _ _ _ _ _ _ _ Hst)|]. split; [exact F3|].
    destruct (qshared_replica progs cfg c d j ev H X Hall Hst) as (s1 & Hs1 & Hout).
    rewrite (Hs1 F3) in Hout. exact Hout.
  Qed.

  (* ====================================================================================== *)
  (* G. What each call of a concurrent run returns                                            *)
  (* ====================================================================================== *)
  Section Run.
    Variables (progs : list (list qcall)) (cfg : Shared.config rstate L qobs qcall).
    Variables (c : core) (d : disk) (j : list sop) (ev : list event) (H : N -> bool).
    Hypothesis HX : RDInv cr bs c d H.
    Hypothesis Hall : Forall (Forall qcall_ok) progs.
    Hypothesis Hst : Shared.steps l0 body res (Shared.init (c, mkWorld d j ev) progs) cfg.

    Local Notation no_panic_before i :=
      (forall k, (k < i)%nat -> nth_error (Shared.results (Shared.log cfg)) k <> Some qframe_panic).
    Local Notation bad := (some_collision cr \/ forged_signature cr bs (kp_public (c_keypair c))).

    (* THE STATE SEEN BY THE i-TH COMPLETED CALL.  It is the state (ci, di) that the Core.v operations of the i
       calls completed before it, run one after the other from the initial state, leave; it satisfies the replica
       invariant for the held set of that prefix, whose projection on the old calls conforms to the replica spec;
       it has the initial key pair and a length between the initial one and the writer's; and the result of the
       call is what its Core.v operation returns on it (unless an earlier application hit the frame guard). *)
    Theorem qshared_state_at i t call r :
      nth_error (Shared.log cfg) i = Some (t, call, r) -> no_panic_before i ->
      (exists ci di ji evi,
         RDInv cr bs ci di (qheld_at H (Shared.log cfg) i) /\
         c_keypair ci = c_keypair c /\
         t_length (c_tree c) <= t_length (c_tree ci) /\ t_length (c_tree ci) <= N.of_nat (length bs) /\
         rd_ok bs H (t_length (c_tree c)) (qops (firstn i (Shared.calls (Shared.log cfg))))
               (qobsl (firstn i (Shared.calls (Shared.log cfg))) (firstn i (Shared.results (Shared.log cfg)))) /\
         qrun (c, mkWorld d j ev) (firstn i (Shared.calls (Shared.log cfg))) =
           ((ci, mkWorld di ji evi), firstn i (Shared.results (Shared.log cfg))) /\
         r = snd (qstep cr call (ci, mkWorld di ji evi)) /\ qcall_ok call) \/ bad.
    Proof.
      intros Hi Hno.
      destruct (qshared_serializable _ _ _ Hst) as (s1 & Hrun & _). rewrite <- qseq_run_eq in Hrun.
      assert (Hc : nth_error (Shared.calls (Shared.log cfg)) i = Some call).
      { unfold Shared.calls. rewrite (map_nth_error _ _ _ Hi). reflexivity. }
      assert (Hr : nth_error (Shared.results (Shared.log cfg)) i = Some r).
      { unfold Shared.results. rewrite (map_nth_error _ _ _ Hi). reflexivity. }
      destruct (qseq_at _ c d j ev H s1 _ HX (qprogs_ok_log progs cfg _ Hst Hall) Hrun i call r Hc Hr Hno)
        as [(ci & di & ji & evi & Xi & Ki & Li & Oi & Ri & Er & Hok)|B]; [left|right; exact B].
      rewrite qseq_run_eq in Ri.
      exists ci, di, ji, evi. split; [exact Xi|]. split; [exact Ki|]. split; [exact Li|].
      split; [exact (proj1 (proj2 (RD_info cr bs ci di _ Xi)))|].
      split; [exact Oi|]. split; [exact Ri|]. split; [exact Er|exact Hok].
    Qed.

    (* ---------- (b) the old calls: the results of ReplicaMiscC.v in the presence of the new calls ---------- *)

    (* reads: the i-th completed call, if it is get idx, returns the WRITER's block idx if idx is held at this
       point of the serialization, None otherwise -- never other bytes, never an error: no partially applied
       proof is observed, whatever create_proof / missing_nodes / key_pair calls are interleaved *)
    Theorem qshared_get_outcome i t idx r :
      nth_error (Shared.log cfg) i = Some (t, QOld (QGet idx), r) -> no_panic_before i ->
      r = QOOld (ROGet (Ok (if qheld_at H (Shared.log cfg) i idx then Some (blk bs idx) else None))) \/ bad.
    Proof.
      intros Hi Hno.
      destruct (qshared_state_at i t _ r Hi Hno) as [(ci & di & ji & evi & Xi & _ & _ & _ & _ & _ & Er & _)|B];
        [left|right; exact B].
      cbn [qstep rstep fst snd] in Er. rewrite (RD_get cr bs Hw ci di _ ji evi idx Xi) in Er.
      destruct (qheld_at H (Shared.log cfg) i idx); exact Er.
    Qed.

    Theorem qshared_has_outcome i t idx r :
      nth_error (Shared.log cfg) i = Some (t, QOld (QHas idx), r) -> no_panic_before i ->
      r = QOOld (ROHas (qheld_at H (Shared.log cfg) i idx)) \/ bad.
    Proof.
      intros Hi Hno.
      destruct (qshared_state_at i t _ r Hi Hno) as [(ci & di & ji & evi & Xi & _ & _ & _ & _ & _ & Er & _)|B];
        [left|right; exact B].
      cbn [qstep rstep fst snd] in Er. rewrite (RD_has cr bs ci di _ idx Xi) in Er. exact Er.
    Qed.

    Theorem qshared_info_outcome i t r :
      nth_error (Shared.log cfg) i = Some (t, QOld QInfo, r) -> no_panic_before i ->
      (exists ri cg, t_length (c_tree c) <= ri /\ ri <= N.of_nat (length bs) /\
         r = QOOld (ROInfo (mkInfo ri (prefix_size bs ri) cg 0 false)) /\
         (forall x, x < cg -> qheld_at H (Shared.log cfg) i x = true) /\ qheld_at H (Shared.log cfg) i cg = false)
      \/ bad.
    Proof.
      intros Hi Hno.
      destruct (qshared_state_at i t _ r Hi Hno) as [(ci & di & ji & evi & Xi & _ & L1 & L2 & _ & _ & Er & _)|B];
        [left|right; exact B].
      cbn [qstep rstep fst snd] in Er. destruct (RD_info cr bs ci di _ Xi) as (I & _ & [E1 E2]). rewrite I in Er.
      exists (t_length (c_tree ci)), (hd_contig (c_header ci)).
      split; [exact L1|]. split; [exact L2|]. split; [exact Er|]. split; [exact E1|exact E2].
    Qed.

    (* afterwards: when the lock is free and no call hit the frame guard, the block of every ACCEPTED proof is in
       the shared core: has says true and get returns the writer's block *)
    Theorem qshared_block_readable i t f pf b :
      Shared.holder cfg = None ->
      ~ In qframe_panic (Shared.results (Shared.log cfg)) ->
      nth_error (Shared.log cfg) i = Some (t, QOld (QApply f pf), QOOld (ROApply (Ok true))) ->
      p_block pf = Some b ->
      let cF := fst (Shared.shared cfg) in
      let dF := w_disk (snd (Shared.shared cfg)) in
      (core_has cF (db_index b) = true /\
       forall j' ev', core_get (db_index b) cF (mkWorld dF j' ev') =
                      (cF, mkWorld dF j' ev', Ok (Some (blk bs (db_index b))))) \/ bad.
    Proof.
      intros Hfree Hnp Hi Hb cF dF.
      destruct (qshared_replica progs cfg c d j ev H HX Hall Hst) as (s1 & Hs1 & Hout).
      rewrite (Hs1 Hfree) in Hout.
      destruct Hout as [(_ & XF & _)|[(k & f0 & pf0 & _ & Hp)|B]];
        [left|exfalso; apply Hnp; exact (nth_error_In _ _ Hp)|right; exact B].
      fold cF dF in XF.
      assert (Hh : qheld_by H (Shared.calls (Shared.log cfg)) (Shared.results (Shared.log cfg)) (db_index b) = true).
      { rewrite qheld_by_spec. apply orb_true_iff. right. apply existsb_exists.
        exists (QOld (QApply f pf), QOOld (ROApply (Ok true))). split.
        - unfold Shared.calls, Shared.results. rewrite combine_map_same.
          apply in_map_iff. exists (t, QOld (QApply f pf), QOOld (ROApply (Ok true))).
          split; [reflexivity|]. apply (nth_error_In _ _ Hi).
        - cbn [qadds adds]. rewrite Hb. apply N.eqb_refl. }
      split.
      - rewrite (RD_has cr bs cF dF _ _ XF). exact Hh.
      - intros j' ev'. rewrite (RD_get cr bs Hw cF dF _ j' ev' _ XF), Hh. reflexivity.
    Qed.

    (* ---------- (c) the new calls ---------- *)

    (* create_proof: the i-th completed call, if it is create_proof, returns the sound proof of the replica state
       reached by the i calls completed before it: every node is the writer's node, a block section carries the
       writer's block and exists only for a block held at this point of the serialization (Ok None, with exactly
       one EvGet, otherwise), the fork is 0.  The result is, moreover, the one of the sequential execution. *)
    Theorem qshared_create_proof_outcome i t block hash seek upgrade r :
      nth_error (Shared.log cfg) i = Some (t, QCreateProof block hash seek upgrade, r) -> no_panic_before i ->
      (exists ci di ji evi r0,
         r = QOProof r0 /\
         qrun (c, mkWorld d j ev) (firstn i (Shared.calls (Shared.log cfg))) =
           ((ci, mkWorld di ji evi), firstn i (Shared.results (Shared.log cfg))) /\
         RDInv cr bs ci di (qheld_at H (Shared.log cfg) i) /\
         t_length (c_tree c) <= t_length (c_tree ci) /\ t_length (c_tree ci) <= N.of_nat (length bs) /\
         r0 = snd (core_create_proof block hash seek upgrade ci (mkWorld di ji evi)) /\
         proof_sound ci (qheld_at H (Shared.log cfg) i) block upgrade r0 /\
         (r0 = Ok None ->
            exists rb, block = Some rb /\ qheld_at H (Shared.log cfg) i (rb_index rb) = false /\
              qnew_events (QCreateProof block hash seek upgrade) (ci, mkWorld di ji evi) = [EvGet (rb_index rb)]) /\
         (r0 <> Ok None ->
            qnew_events (QCreateProof block hash seek upgrade) (ci, mkWorld di ji evi) = [])) \/ bad.
    Proof.
      intros Hi Hno.
      destruct (qshared_state_at i t _ r Hi Hno) as [(ci & di & ji & evi & Xi & _ & L1 & L2 & _ & Ri & Er & _)|B];
        [left|right; exact B].
      cbn [qstep fst snd] in Er.
      destruct (core_create_proof block hash seek upgrade ci (mkWorld di ji evi)) as [[c' w'] r0] eqn:E.
      cbn [snd] in Er.
      exists ci, di, ji, evi, r0. split; [exact Er|]. split; [exact Ri|]. split; [exact Xi|].
      split; [exact L1|]. split; [exact L2|]. split; [rewrite E; reflexivity|].
      destruct (replica_create_proof ci di _ ji evi block hash seek upgrade c' w' r0 Xi E) as (_ & Hev & Hs).
      split; [exact Hs|].
      destruct (create_proof_events block hash seek upgrade _ _ _ _ _ E) as (Ev & _).
      cbn [qnew_events fst snd]. cbn [w_events] in Ev.
      assert (Hnil : forall l : list event, l ++ evi = evi -> l = []).
      { intros l Hl. apply (f_equal (@length event)) in Hl. rewrite app_length in Hl.
        destruct l; [reflexivity|cbn [length] in Hl; lia]. }
      split.
      - intros Hr0. destruct Hev as [[Hne _]|(_ & rb & Hb & Hh & Hw')]; [exfalso; exact (Hne Hr0)|].
        exists rb. split; [exact Hb|]. split; [exact Hh|].
        rewrite Hw' in Ev. cbn [w_events] in Ev.
        destruct (proof_missing_block block hash seek upgrade ci (mkWorld di ji evi)) as [i0|];
          cbn [app] in Ev; [injection Ev as ->; reflexivity|].
        exfalso. apply (f_equal (@length event)) in Ev. cbn [length] in Ev. lia.
      - intros Hr0. destruct Hev as [[_ Hw']|(Hr1 & _)]; [|exfalso; exact (Hr0 Hr1)].
        rewrite Hw' in Ev. cbn [w_events] in Ev. symmetry in Ev. exact (Hnil _ Ev).
    Qed.

    (* missing_nodes: the result is the one the replica's tree gives at this point of the serialization (which
       nodes a replica stores is not determined by the replica spec: the statement is the equality with the
       sequential execution on a state satisfying the invariant) *)
    Theorem qshared_missing_nodes_outcome i t index r :
      nth_error (Shared.log cfg) i = Some (t, QMissingNodes index, r) -> no_panic_before i ->
      (exists ci di ji evi,
         qrun (c, mkWorld d j ev) (firstn i (Shared.calls (Shared.log cfg))) =
           ((ci, mkWorld di ji evi), firstn i (Shared.results (Shared.log cfg))) /\
         RDInv cr bs ci di (qheld_at H (Shared.log cfg) i) /\
         r = QOMissing (if fits_u64 (index * 2) then missing_nodes (c_tree ci) (d_tree di) (index * 2)
                        else Panic "index * 2")) \/ bad.
    Proof.
      intros Hi Hno.
      destruct (qshared_state_at i t _ r Hi Hno) as [(ci & di & ji & evi & Xi & _ & _ & _ & _ & Ri & Er & _)|B];
        [left|right; exact B].
      exists ci, di, ji, evi. split; [exact Ri|]. split; [exact Xi|].
      cbn [qstep fst snd] in Er. unfold core_missing_nodes in Er.
      rewrite mbind_get_core, mbind_get_disk, mbind_lift in Er. unfold mul64 in Er. cbn [w_disk] in Er.
      destruct (fits_u64 (index * 2)); exact Er.
    Qed.

    (* key_pair: always the key pair the core was shared with *)
    Theorem qshared_key_pair_outcome i t r :
      nth_error (Shared.log cfg) i = Some (t, QKeyPair, r) -> no_panic_before i ->
      r = QOKeyPair (c_keypair c) \/ bad.
    Proof.
      intros Hi Hno.
      destruct (qshared_state_at i t _ r Hi Hno) as [(ci & di & ji & evi & _ & Ki & _ & _ & _ & _ & Er & _)|B];
        [left|right; exact B].
      cbn [qstep fst snd] in Er. rewrite Ki in Er. exact Er.
    Qed.
  End Run.

  (* The new calls change neither the core nor the disk nor the journal in ANY concurrent run (no invariant
     needed) *)
  Theorem qshared_new_call_frame progs cfg s0 i t call r :
    Shared.steps l0 body res (Shared.init s0 progs) cfg ->
    nth_error (Shared.log cfg) i = Some (t, call, r) -> qnew call = true ->
    exists si si',
      qrun s0 (firstn i (Shared.calls (Shared.log cfg))) = (si, firstn i (Shared.results (Shared.log cfg))) /\
      qrun s0 (firstn (Datatypes.S i) (Shared.calls (Shared.log cfg))) =
        (si', firstn (Datatypes.S i) (Shared.results (Shared.log cfg))) /\
      r = snd (qstep cr call si) /\
      fst si' = fst si /\ w_disk (snd si') = w_disk (snd si) /\ w_journal (snd si') = w_journal (snd si) /\
      w_events (snd si') = qnew_events call si ++ w_events (snd si).
  Proof.
    clear Hcrc Hhash32 Hnonblank Hhashbytes Hw.
    intros Hst Hi Hn.
    destruct (qshared_serializable _ _ _ Hst) as (s1 & Hrun & _). rewrite <- qseq_run_eq in Hrun.
    assert (Hc : nth_error (Shared.calls (Shared.log cfg)) i = Some call).
    { unfold Shared.calls. rewrite (map_nth_error _ _ _ Hi). reflexivity. }
    assert (Hr : nth_error (Shared.results (Shared.log cfg)) i = Some r).
    { unfold Shared.results. rewrite (map_nth_error _ _ _ Hi). reflexivity. }
    destruct (seq_run_at _ _ _ _ _ _ _ _ _ _ _ _ _ Hrun Hc) as (si & Ri & Ei).
    rewrite Hatomic, Hr in Ei. injection Ei as Ei.
    destruct (qstep cr call si) as [si' o] eqn:E. cbn [snd] in Ei. subst o.
    exists si, si'. rewrite <- !qseq_run_eq. split; [exact Ri|].
    destruct (qstep_new_frame cr call si si' r Hn E) as (A & B & C & D).
    split; [|split; [rewrite E; reflexivity|split; [exact A|split; [exact B|split; [exact C|exact D]]]]].
    destruct (nth_error_split _ _ Hc) as (a1 & a2 & Hs & Hl).
    assert (F1 : firstn (Datatypes.S i) (Shared.calls (Shared.log cfg)) = firstn i (Shared.calls (Shared.log cfg)) ++ [call]).
    { rewrite Hs, <- Hl. rewrite firstn_app, firstn_all2 by lia.
      replace (Datatypes.S (length a1) - length a1)%nat with 1%nat by lia.
      rewrite firstn_app, Nat.sub_diag, firstn_all. cbn [firstn]. rewrite app_nil_r. reflexivity. }
    destruct (nth_error_split _ _ Hr) as (b1 & b2 & Hs' & Hl').
    assert (F2 : firstn (Datatypes.S i) (Shared.results (Shared.log cfg)) = firstn i (Shared.results (Shared.log cfg)) ++ [r]).
    { rewrite Hs', <- Hl'. rewrite firstn_app, firstn_all2 by lia.
      replace (Datatypes.S (length b1) - length b1)%nat with 1%nat by lia.
      rewrite firstn_app, Nat.sub_diag, firstn_all. cbn [firstn]. rewrite app_nil_r. reflexivity. }
    rewrite F1, F2, (Shared.seq_run_snoc _ _ _ _ _ _ _ _ _ _ _ _ Ri), Hatomic, E. reflexivity.
  Qed.

  (* the same with the ghost clock of Shared.v: the serialization order respects real time *)
  Theorem qshared_replica_realtime progs cfg k c d j ev H :
    RDInv cr bs c d H ->
    Forall (Forall qcall_ok) progs ->
    Shared.stepsT l0 body res (Shared.initT (c, mkWorld d j ev) progs) (cfg, k) ->
    let cs := Shared.calls (Shared.log cfg) in
    let rs := Shared.results (Shared.log cfg) in
    map fst (Shared.tlog k) = Shared.log cfg /\
    (forall i1 i2 a b, nth_error (Shared.tlog k) i1 = Some a -> nth_error (Shared.tlog k) i2 = Some b ->
       (Shared.fin a < Shared.sta b)%nat -> (i1 < i2)%nat) /\
    exists s1, (Shared.holder cfg = None -> s1 = Shared.shared cfg) /\
      (qmodel_run c s1 cs rs H \/ qframe_stop cs rs \/
       some_collision cr \/ forged_signature cr bs (kp_public (c_keypair c))).
  Proof.
    intros X Hall HstT cs rs.
    destruct (Shared.realtime_respected _ _ _ _ _ _ _ _ _ _ _ HstT) as [R1 R2].
    split; [exact R1|]. split; [exact R2|].
    exact (qshared_replica progs cfg c d j ev H X Hall
             (Shared.timed_reachable_erase _ _ _ _ _ _ _ _ _ _ _ HstT)).
  Qed.
End QSeq.

(* ====================================================================================== *)
(* H. Instance 1: one micro-step per call                                                  *)
(* ====================================================================================== *)

Definition qone_l0 (c : qcall) : qobs := QOOld (ROHas false).
Definition qone_body (cr : crypto) (c : qcall) : list (rstate * qobs -> rstate * qobs) :=
  [fun x => qstep cr c (fst x)].
Definition qone_res (c : qcall) (l : qobs) : qobs := l.

Lemma qone_atomic cr c s : Shared.atomic qone_l0 (qone_body cr) qone_res c s = qstep cr c s.
Proof.
  unfold Shared.atomic, qone_body, qone_res. cbn [fold_left fst]. destruct (qstep cr c s) as [s' o]. reflexivity.
Qed.

(* ====================================================================================== *)
(* I. Instance 2: application split at its storage operations, create_proof at its await   *)
(*    points                                                                               *)
(* ====================================================================================== *)

(* A proof application is the six micro-steps of ReplicaMiscC.rsplit_body.  create_proof is two micro-steps:
     1 valueless   build the valueless proof from the tree and the tree store        (reads only)
     2 value       read the block of the block section through get                   (may send EvGet)
   The other calls are one micro-step. *)
Inductive qlocal :=
| QLOld (l : rlocal)
| QLStart
| QLVp (vp : vproof)
| QLDone (o : qobs).

Definition qlift_old (f : rstate * rlocal -> rstate * rlocal) (x : rstate * qlocal) : rstate * qlocal :=
  match snd x with
  | QLOld l => (fst (f (fst x, l)), QLOld (snd (f (fst x, l))))
  | _ => x
  end.

Definition qcp_valueless (b h : option req_block) (k : option req_seek) (u : option req_upgrade)
           (x : rstate * qlocal) : rstate * qlocal :=
  match snd x with
  | QLStart =>
      match create_valueless_proof (c_tree (fst (fst x))) (d_tree (w_disk (snd (fst x)))) b h k u with
      | Ok vp => (fst x, QLVp vp)
      | Err e => (fst x, QLDone (QOProof (Err e)))
      | Panic s => (fst x, QLDone (QOProof (Panic s)))
      | OutOfFuel => (fst x, QLDone (QOProof OutOfFuel))
      end
  | _ => x
  end.

Definition qcp_value (x : rstate * qlocal) : rstate * qlocal :=
  match snd x with
  | QLVp vp =>
      match vp_block vp with
      | Some b =>
          match core_get (dh_index b) (fst (fst x)) (snd (fst x)) with
          | (c', w', Ok None) => ((c', w'), QLDone (QOProof (Ok None)))
          | (c', w', Ok (Some value)) =>
              ((c', w'), QLDone (QOProof (Ok (Some (mkProof (vp_fork vp)
                                                     (Some (mkDataBlock (dh_index b) value (dh_nodes b)))
                                                     (vp_hash vp) (vp_seek vp) (vp_upgrade vp))))))
          | (c', w', Err e) => ((c', w'), QLDone (QOProof (Err e)))
          | (c', w', Panic s) => ((c', w'), QLDone (QOProof (Panic s)))
          | (c', w', OutOfFuel) => ((c', w'), QLDone (QOProof OutOfFuel))
          end
      | None => (fst x, QLDone (QOProof (Ok (Some (mkProof (vp_fork vp) None (vp_hash vp) (vp_seek vp)
                                                     (vp_upgrade vp))))))
      end
  | _ => x
  end.

Definition qsplit_l0 (c : qcall) : qlocal :=
  match c with QOld c0 => QLOld (rsplit_l0 c0) | _ => QLStart end.
Definition qsplit_body (cr : crypto) (c : qcall) : list (rstate * qlocal -> rstate * qlocal) :=
  match c with
  | QOld c0 => map qlift_old (rsplit_body cr c0)
  | QCreateProof b h k u => [qcp_valueless b h k u; qcp_value]
  | _ => [fun x => (fst (qstep cr c (fst x)), QLDone (snd (qstep cr c (fst x))))]
  end.
Definition qsplit_res (c : qcall) (l : qlocal) : qobs :=
  match l with
  | QLOld l1 => QOOld (rsplit_res (match c with QOld c0 => c0 | _ => QInfo end) l1)
  | QLDone o => o
  | _ => QOOld (ROHas false)
  end.

Lemma fold_qlift_old fs : forall s l,
  fold_left (fun x f => f x) (map qlift_old fs) (s, QLOld l) =
  (fst (fold_left (fun x f => f x) fs (s, l)), QLOld (snd (fold_left (fun x f => f x) fs (s, l)))).
Proof.
  induction fs as [|f fs IH]; intros s l; [reflexivity|].
  cbn [map fold_left]. unfold qlift_old at 2. cbn [fst snd].
  destruct (f (s, l)) as [s1 l1]. cbn [fst snd]. apply IH.
Qed.

Lemma qsplit_atomic cr c s : Shared.atomic qsplit_l0 (qsplit_body cr) qsplit_res c s = qstep cr c s.
Proof.
  destruct c as [c0|b h k u|i| ].
  - pose proof (rsplit_atomic cr c0 s) as Ha. unfold Shared.atomic in *.
    cbn [qsplit_body qsplit_l0 qstep]. rewrite fold_qlift_old.
    destruct (fold_left (fun x f => f x) (rsplit_body cr c0) (s, rsplit_l0 c0)) as [s' l'].
    cbn [fst snd qsplit_res]. rewrite <- Ha. reflexivity.
  - destruct s as [c w]. unfold Shared.atomic. cbn [qsplit_body qsplit_l0 qstep fold_left fst snd].
    unfold core_create_proof. rewrite mbind_get_core, mbind_get_disk, mbind_lift.
    unfold qcp_valueless at 1. cbn [fst snd].
    destruct (create_valueless_proof (c_tree c) (d_tree (w_disk w)) b h k u) as [vp|e|m|]; try reflexivity.
    unfold qcp_value. cbn [fst snd].
    destruct (vp_block vp) as [blk0|]; [|reflexivity].
    unfold mbind. destruct (core_get (dh_index blk0) c w) as [[c' w'] [[v|]|e|m|]]; reflexivity.
  - unfold Shared.atomic. cbn [qsplit_body qsplit_l0 fold_left fst snd qsplit_res].
    destruct (qstep cr (QMissingNodes i) s) as [s' o]. reflexivity.
  - unfold Shared.atomic. cbn [qsplit_body qsplit_l0 fold_left fst snd qsplit_res].
    destruct (qstep cr QKeyPair s) as [s' o]. reflexivity.
Qed.

(* ====================================================================================== *)
(* J. The theorems for the split instance                                                  *)
(* ====================================================================================== *)

Section Instances.
  Variable cr : crypto.
  Variable bs : list bytes.
  Hypothesis Hcrc : crc_ok cr.
  Hypothesis Hhash32 : forall x, length (cr_hash cr x) = 32%nat.
  Hypothesis Hnonblank : forall x, all_zero (cr_hash cr x) = false.
  Hypothesis Hhashbytes : forall x, bytes_ok (cr_hash cr x) = true.
  Hypothesis Hw : writer_fits bs.

  Variables (progs : list (list qcall)).
  Variables (c : core) (d : disk) (j : list sop) (ev : list event) (H : N -> bool).
  Hypothesis HX : RDInv cr bs c d H.
  Hypothesis Hall : Forall (Forall qcall_ok) progs.

  Local Notation s0 := (c, mkWorld d j ev).
  Local Notation qsteps := (Shared.steps qsplit_l0 (qsplit_body cr) qsplit_res).
  Local Notation no_panic_before cfg i :=
    (forall k, (k < i)%nat -> nth_error (Shared.results (Shared.log cfg)) k <> Some qframe_panic).
  Local Notation bad := (some_collision cr \/ forged_signature cr bs (kp_public (c_keypair c))).

  Theorem qcore_split_serializable cfg :
    qsteps (Shared.init s0 progs) cfg ->
    exists s1, qrun cr s0 (Shared.calls (Shared.log cfg)) = (s1, Shared.results (Shared.log cfg)) /\
               (Shared.holder cfg = None -> s1 = Shared.shared cfg).
  Proof. exact (qshared_serializable cr _ _ _ _ (qsplit_atomic cr) progs cfg s0). Qed.

  Theorem qcore_one_serializable cfg :
    Shared.steps qone_l0 (qone_body cr) qone_res (Shared.init s0 progs) cfg ->
    exists s1, qrun cr s0 (Shared.calls (Shared.log cfg)) = (s1, Shared.results (Shared.log cfg)) /\
               (Shared.holder cfg = None -> s1 = Shared.shared cfg).
  Proof. exact (qshared_serializable cr _ _ _ _ (qone_atomic cr) progs cfg s0). Qed.

  Theorem qcore_split_replica cfg :
    qsteps (Shared.init s0 progs) cfg ->
    let cs := Shared.calls (Shared.log cfg) in
    let rs := Shared.results (Shared.log cfg) in
    exists s1, (Shared.holder cfg = None -> s1 = Shared.shared cfg) /\
      (qmodel_run cr bs c s1 cs rs H \/ qframe_stop cs rs \/ bad).
  Proof.
    exact (qshared_replica cr bs Hcrc Hhash32 Hnonblank Hhashbytes Hw _ _ _ _ (qsplit_atomic cr)
             progs cfg c d j ev H HX Hall).
  Qed.

  Theorem qcore_split_finished cfg :
    qsteps (Shared.init s0 progs) cfg ->
    (forall tk, In tk (Shared.tasks cfg) -> Shared.st tk = Shared.Idle /\ Shared.prog tk = []) ->
    let cs := Shared.calls (Shared.log cfg) in
    let rs := Shared.results (Shared.log cfg) in
    length (Shared.log cfg) = list_sum (map (@length qcall) progs) /\
    (forall t, task_calls t (Shared.log cfg) = nth t progs []) /\
    (forall t tk, nth_error (Shared.tasks cfg) t = Some tk ->
       Shared.out tk = map snd (filter (fun e => Nat.eqb (fst (fst e)) t) (Shared.log cfg))) /\
    Shared.holder cfg = None /\
    (qmodel_run cr bs c (Shared.shared cfg) cs rs H \/ qframe_stop cs rs \/ bad).
  Proof.
    exact (qshared_replica_finished cr bs Hcrc Hhash32 Hnonblank Hhashbytes Hw _ _ _ _ (qsplit_atomic cr)
             progs cfg c d j ev H HX Hall).
  Qed.

  Theorem qcore_split_get_outcome cfg i t idx r :
    qsteps (Shared.init s0 progs) cfg ->
    nth_error (Shared.log cfg) i = Some (t, QOld (QGet idx), r) -> no_panic_before cfg i ->
    r = QOOld (ROGet (Ok (if qheld_at H (Shared.log cfg) i idx then Some (blk bs idx) else None))) \/ bad.
  Proof.
    intros Hst.
    exact (qshared_get_outcome cr bs Hcrc Hhash32 Hnonblank Hhashbytes Hw _ _ _ _ (qsplit_atomic cr)
             progs cfg c d j ev H HX Hall Hst i t idx r).
  Qed.

  Theorem qcore_split_block_readable cfg i t f pf b :
    qsteps (Shared.init s0 progs) cfg ->
    Shared.holder cfg = None ->
    ~ In qframe_panic (Shared.results (Shared.log cfg)) ->
    nth_error (Shared.log cfg) i = Some (t, QOld (QApply f pf), QOOld (ROApply (Ok true))) ->
    p_block pf = Some b ->
    let cF := fst (Shared.shared cfg) in
    let dF := w_disk (snd (Shared.shared cfg)) in
    (core_has cF (db_index b) = true /\
     forall j' ev', core_get (db_index b) cF (mkWorld dF j' ev') =
                    (cF, mkWorld dF j' ev', Ok (Some (blk bs (db_index b))))) \/ bad.
  Proof.
    intros Hst.
    exact (qshared_block_readable cr bs Hcrc Hhash32 Hnonblank Hhashbytes Hw _ _ _ _ (qsplit_atomic cr)
             progs cfg c d j ev H HX Hall Hst i t f pf b).
  Qed.

  Theorem qcore_split_create_proof_outcome cfg i t block hash seek upgrade r :
    qsteps (Shared.init s0 progs) cfg ->
    nth_error (Shared.log cfg) i = Some (t, QCreateProof block hash seek upgrade, r) -> no_panic_before cfg i ->
    (exists ci di ji evi r0,
       r = QOProof r0 /\
       qrun cr s0 (firstn i (Shared.calls (Shared.log cfg))) =
         ((ci, mkWorld di ji evi), firstn i (Shared.results (Shared.log cfg))) /\
       RDInv cr bs ci di (qheld_at H (Shared.log cfg) i) /\
       t_length (c_tree c) <= t_length (c_tree ci) /\ t_length (c_tree ci) <= N.of_nat (length bs) /\
       r0 = snd (core_create_proof block hash seek upgrade ci (mkWorld di ji evi)) /\
       proof_sound cr bs ci (qheld_at H (Shared.log cfg) i) block upgrade r0 /\
       (r0 = Ok None ->
          exists rb, block = Some rb /\ qheld_at H (Shared.log cfg) i (rb_index rb) = false /\
            qnew_events (QCreateProof block hash seek upgrade) (ci, mkWorld di ji evi) = [EvGet (rb_index rb)]) /\
       (r0 <> Ok None ->
          qnew_events (QCreateProof block hash seek upgrade) (ci, mkWorld di ji evi) = [])) \/ bad.
  Proof.
    intros Hst.
    exact (qshared_create_proof_outcome cr bs Hcrc Hhash32 Hnonblank Hhashbytes Hw _ _ _ _ (qsplit_atomic cr)
             progs cfg c d j ev H HX Hall Hst i t block hash seek upgrade r).
  Qed.

  Theorem qcore_split_missing_nodes_outcome cfg i t index r :
    qsteps (Shared.init s0 progs) cfg ->
    nth_error (Shared.log cfg) i = Some (t, QMissingNodes index, r) -> no_panic_before cfg i ->
    (exists ci di ji evi,
       qrun cr s0 (firstn i (Shared.calls (Shared.log cfg))) =
         ((ci, mkWorld di ji evi), firstn i (Shared.results (Shared.log cfg))) /\
       RDInv cr bs ci di (qheld_at H (Shared.log cfg) i) /\
       r = QOMissing (if fits_u64 (index * 2) then missing_nodes (c_tree ci) (d_tree di) (index * 2)
                      else Panic "index * 2")) \/ bad.
  Proof.
    intros Hst.
    exact (qshared_missing_nodes_outcome cr bs Hcrc Hhash32 Hnonblank Hhashbytes Hw _ _ _ _ (qsplit_atomic cr)
             progs cfg c d j ev H HX Hall Hst i t index r).
  Qed.

  Theorem qcore_split_key_pair_outcome cfg i t r :
    qsteps (Shared.init s0 progs) cfg ->
    nth_error (Shared.log cfg) i = Some (t, QKeyPair, r) -> no_panic_before cfg i ->
    r = QOKeyPair (c_keypair c) \/ bad.
  Proof.
    intros Hst.
    exact (qshared_key_pair_outcome cr bs Hcrc Hhash32 Hnonblank Hhashbytes Hw _ _ _ _ (qsplit_atomic cr)
             progs cfg c d j ev H HX Hall Hst i t r).
  Qed.
End Instances.

Print Assumptions qstep_new_frame.
Print Assumptions qheld_by_spec.
Print Assumptions replica_create_proof_run.
Print Assumptions replica_create_proof.
Print Assumptions qstep_RDInv.
Print Assumptions qseq_replica.
Print Assumptions qseq_at.
Print Assumptions qshared_serializable.
Print Assumptions qshared_replica.
Print Assumptions qshared_replica_finished.
Print Assumptions qshared_state_at.
Print Assumptions qshared_get_outcome.
Print Assumptions qshared_has_outcome.
Print Assumptions qshared_info_outcome.
Print Assumptions qshared_block_readable.
Print Assumptions qshared_create_proof_outcome.
Print Assumptions qshared_missing_nodes_outcome.
Print Assumptions qshared_key_pair_outcome.
Print Assumptions qshared_new_call_frame.
Print Assumptions qshared_replica_realtime.
Print Assumptions qone_atomic.
Print Assumptions qsplit_atomic.
Print Assumptions qcore_split_serializable.
Print Assumptions qcore_one_serializable.
Print Assumptions qcore_split_replica.
Print Assumptions qcore_split_finished.
Print Assumptions qcore_split_get_outcome.
Print Assumptions qcore_split_block_readable.
Print Assumptions qcore_split_create_proof_outcome.
Print Assumptions qcore_split_missing_nodes_outcome.
Print Assumptions qcore_split_key_pair_outcome.

(* AcceptAll3.v -- C03: the nodes of an upgrade are maximal dyadic blocks, so a tree node inside the upgraded
   range lies under exactly one of them; block-only requests in reference coordinates. *)
From HC Require Import Base NMap Codec CodecFacts Crypto FlatTree Storage Oplog Merkle Core.
From HC Require Import FlatTreeFacts Sound NoPanic TreeRef OffsetFacts CoreFacts Refine Replicate Replicate2 Replicate2Z Replicate2D Replicate2E.
From HC Require Import AcceptAll1 AcceptAll2.
From Coq Require Import FMapPositive ZifyN ZifyNat ZifyBool.
Ltac Zify.zify_post_hook ::= Z.div_mod_to_equations.
Arguments N.add : simpl never.
Arguments N.sub : simpl never.
Arguments N.mul : simpl never.
Arguments N.div : simpl never.
Arguments N.modulo : simpl never.
Arguments N.pow : simpl never.
Arguments N.eqb : simpl never.
Arguments N.ltb : simpl never.
Arguments N.leb : simpl never.
Arguments N.of_nat : simpl never.
Arguments N.to_nat : simpl never.
Arguments N.log2 : simpl never.

(* the parent of the node x does not fit into [r, u) *)
Definition maximal (r u : N) (x : nat * N) : Prop :=
  ~ (r <= (snd x / 2) * p2 (S (fst x)) /\ (snd x / 2 + 1) * p2 (S (fst x)) <= u).

Lemma maximal_conn r u : forall n d a, a * p2 d < r -> forall x, In x (conn_idx n d a) -> maximal r u x.
Proof.
  induction n as [|n IH]; intros d a Ha x Hx; cbn [conn_idx] in Hx; [destruct Hx|].
  pose proof (p2_pos d) as Hp.
  apply in_app_or in Hx. destruct Hx as [Hx|Hx].
  - destruct (N.even a) eqn:Ea; [|destruct Hx]. destruct Hx as [<-|[]].
    rewrite FlatTreeFacts.even_mod in Ea. unfold maximal. cbn [fst snd]. rewrite p2_S.
    replace ((a + 1) / 2) with (a / 2) by lia. intros [H1 _]. nia.
  - apply (IH (S d) (a / 2)); [|exact Hx]. rewrite p2_S. nia.
Qed.

Lemma maximal_roots_from r u : forall g X, pref X u -> u - X < p2 g ->
  forall x, In x (roots_from g X u) -> maximal r u x.
Proof.
  induction g as [|g IH]; intros X HP Hg x Hx; cbn [roots_from] in Hx; [destruct Hx|].
  destruct (N.leb_spec u X) as [L|L]; [destruct Hx|].
  destruct (pref_step X u HP L) as (m & EX & H1 & H2 & HP' & Ed). cbv zeta in *.
  set (k := log2n (u - X)) in *.
  destruct Hx as [<-|Hx].
  - unfold maximal. cbn [fst snd]. rewrite Ed. replace (2 * m / 2) with m by lia.
    intros [_ Hhi]. lia.
  - apply (IH (X + p2 k) HP'); [|exact Hx].
    assert (Hk : p2 k <= p2 g).
    { apply p2_le_mono. assert (k < S g)%nat by (apply p2_lt_mono; lia). lia. }
    rewrite p2_S in H2. lia.
Qed.

Lemma maximal_upg r u : 0 < r -> r < u ->
  forall g X, pref X u -> u - X < p2 g -> X <= r -> forall x, In x (upg_idx g X r u) -> maximal r u x.
Proof.
  intros Hr Hru. induction g as [|g IH]; intros X HP Hg HXr x Hx.
  { rewrite p2_0 in Hg. lia. }
  assert (L : X < u) by lia.
  destruct (pref_step X u HP L) as (m & EX & H1 & H2 & HP' & Ed). cbv zeta in *.
  pose proof EX as EX2. pose proof H2 as H22. rewrite p2_S in EX2, H22.
  cbn [upg_idx] in Hx. destruct (N.leb_spec u X) as [L'|_]; [lia|]. cbv zeta in Hx.
  set (k := log2n (u - X)) in *. pose proof (p2_pos k) as Hpk.
  assert (Hk : p2 k <= p2 g).
  { apply p2_le_mono. assert (k < S g)%nat by (apply p2_lt_mono; lia). lia. }
  destruct (N.leb_spec (X + p2 k) r) as [Lm|Lm].
  - apply (IH (X + p2 k) HP'); [lia|exact Lm|exact Hx].
  - destruct (N.ltb_spec X r) as [Lr|Lr].
    + apply in_app_or in Hx. destruct Hx as [Hx|Hx].
      * apply (maximal_conn r u k 0 (r - 1)); [rewrite p2_0; lia|exact Hx].
      * apply (maximal_roots_from r u g (X + p2 k) HP'); [lia|exact Hx].
    + apply (maximal_roots_from r u (S g) X HP Hg). exact Hx.
Qed.

(* a node inside [r, u) lies under exactly one element of a tiling of [r, u) by maximal blocks *)
Lemma node_in_tile l r u d0 a0 :
  tiles l r u -> (forall x, In x l -> maximal r u x) ->
  r <= a0 * p2 d0 -> (a0 + 1) * p2 d0 <= u ->
  exists l1 d o l2, l = l1 ++ (d, o) :: l2 /\ (d0 <= d)%nat /\
                    o * p2 (d - d0) <= a0 /\ a0 < (o + 1) * p2 (d - d0).
Proof.
  intros T Hmax Hlo Hhi. pose proof (p2_pos d0) as Hp0.
  destruct (tiles_split _ _ _ (a0 * p2 d0) T Hlo ltac:(lia)) as (l1 & [d o] & l2 & El & T1 & C1 & C2 & C3).
  cbn [fst snd] in *. exists l1, d, o, l2. split; [exact El|].
  pose proof (p2_pos d) as Hpd.
  destruct (Nat.le_gt_cases d0 d) as [Ld|Ld].
  - split; [exact Ld|].
    assert (E : p2 d = p2 (d - d0) * p2 d0) by (rewrite <- p2_add; f_equal; lia).
    pose proof (p2_pos (d - d0)) as Hpe. rewrite E in C1, C2. split; nia.
  - exfalso.
    assert (Hy : In (d, o) l) by (rewrite El; apply in_or_app; right; left; reflexivity).
    apply (Hmax _ Hy). cbn [fst snd].
    assert (E : p2 d0 = p2 (d0 - S d) * p2 (S d)) by (rewrite <- p2_add; f_equal; lia).
    pose proof (p2_pos (d0 - S d)) as Hq. set (q := p2 (d0 - S d)) in *.
    rewrite p2_S in *. set (P := p2 d) in *.
    assert (Eo : o = 2 * (a0 * q)) by nia.
    replace (o / 2) with (a0 * q) by lia. split; nia.
Qed.

Section NodeCover.
  Variable bs : list bytes.
  Hypothesis total_fits : sumN (map len bs) <= u64_max.

  Lemma node_in_upgrade r u d0 a0 :
    0 < r -> r < u -> 2 * u <= u64_max -> r <= a0 * p2 d0 -> (a0 + 1) * p2 d0 <= u ->
    exists l1 d o l2, upg_idx g64 0 r u = l1 ++ (d, o) :: l2 /\ (d0 <= d)%nat /\
                      o * p2 (d - d0) <= a0 /\ a0 < (o + 1) * p2 (d - d0).
  Proof.
    intros Hr Hru H64 Hlo Hhi.
    assert (Hu64 : u < p2 g64) by (rewrite p2_64; unfold u64_max in H64; lia).
    apply (node_in_tile _ r u d0 a0); [apply (upg_idx_tiles bs total_fits r u Hr Hru H64)| |exact Hlo|exact Hhi].
    apply (maximal_upg r u Hr Hru g64 0 (pref_0 u)); lia.
  Qed.

  Lemma node_in_roots u d0 a0 :
    2 * u <= u64_max -> (a0 + 1) * p2 d0 <= u ->
    exists l1 d o l2, roots_from g64 0 u = l1 ++ (d, o) :: l2 /\ (d0 <= d)%nat /\
                      o * p2 (d - d0) <= a0 /\ a0 < (o + 1) * p2 (d - d0).
  Proof.
    intros H64 Hhi.
    assert (Hu64 : u < p2 g64) by (rewrite p2_64; unfold u64_max in H64; lia).
    apply (node_in_tile _ 0 u d0 a0); [apply (roots_tiles u Hu64)| |lia|exact Hhi].
    apply (maximal_roots_from 0 u g64 0 (pref_0 u)); lia.
  Qed.
End NodeCover.

(* ---------- block-only requests over the reference tree ---------- *)
Section BlockOnlyRef.
  Variable cr : crypto.
  Variable bs : list bytes.
  Hypothesis total_fits : sumN (map len bs) <= u64_max.

  Theorem block_request_served_ref t tf rt rtf w i k pk :
    lookups cr t tf bs w -> t_length t = w -> t_length rt <= w -> 2 * w <= u64_max ->
    (forall j n, optional_node rt rtf j = Ok (Some n) -> n_hash n = n_hash (ref_at cr bs j)) ->
    i < t_length rt ->
    missing_nodes rt rtf (2 * i) = Ok k ->
    let kk := N.to_nat k in let o := i / p2 kk in
    (o + 1) * p2 kk <= t_length rt ->     (* not the head case *)
    let ns := path_nodes cr bs kk i in
    exists cs,
      create_valueless_proof t tf (Some (mkReqBlock i k)) None None None
        = Ok (mkVproof (t_fork t) (Some (mkDataHash i ns)) None None None) /\
      verify_proof cr rt rtf (mkProof (t_fork t) (Some (mkDataBlock i (blk bs i) ns)) None None None) pk = Ok cs /\
      cs_upgraded cs = false /\ commitable rt cs = true /\ cs_roots cs = t_roots rt /\
      Forall (is_ref cr bs) (cs_nodes cs) /\ In (ref_node cr bs 0 i) (cs_nodes cs).
  Proof.
    intros Hlook Hl Hrw H64 Hrep Hir Hm kk o Htop ns.
    assert (Hm' : missing_nodes rt rtf (ft_index (N.of_nat 0) i) = Ok k).
    { change (N.of_nat 0) with 0. rewrite ft_index_leaf. exact Hm. }
    destruct (node_count_coord bs total_fits rt rtf 0 i k w Hm' ltac:(rewrite p2_0; lia) Htop Hrw)
      as (Hfuel & Ho1 & Ho2 & Hroot & n0 & Hn0).
    fold kk in Hfuel, Ho1, Ho2, Hroot, Hn0. fold o in Ho1, Ho2, Hroot, Hn0. cbn [Nat.add] in Hroot, Hn0.
    change (N.of_nat 0) with 0 in Hroot. rewrite ft_index_leaf in Hroot.
    assert (Hi64 : i * 2 <= u64_max) by (unfold u64_max in *; lia).
    destruct (verify_tree_ref cr bs total_fits i kk o (tree_changeset rt) Hfuel Ho1 Ho2 Hi64) as (vis & Hvt & Hvis & _).
    fold ns in Hvt.
    destruct (verify_section_stored cr bs total_fits rt rtf (t_fork t) _ _ _ (ref_node cr bs 0 i :: vis) kk o n0 pk
                Hvt Hn0 (Hrep _ _ Hn0) ltac:(constructor; [apply ref_node_is_ref|exact Hvis]))
      as (Hv & Hu & Hcm & Hr & Hn & Hsub).
    eexists. split; [|split; [exact Hv|]].
    2:{ split; [exact Hu|]. split; [exact Hcm|]. split; [exact Hr|]. split; [exact Hn|]. apply Hsub. left. reflexivity. }
    unfold create_valueless_proof, normalize_indexed. cbn [rb_index rb_nodes bind].
    unfold u64_max in H64.
    rewrite NoPanic.mul64_ok by (unfold u64_max; lia). cbn [bind]. rewrite (N.mul_comm i 2), Hl.
    destruct (N.leb_spec (2 * w) 0) as [L1|_]; [lia|].
    destruct (N.ltb_spec (2 * w) (2 * w)) as [L2|_]; [lia|]. cbn [orb negb andb bind ix_last ix_index ix_nodes].
    rewrite Hroot. cbn [bind].
    rewrite (block_and_seek_value cr bs total_fits t tf w Hlook i k i (2 * w) kk o lp_empty Ho1 Ho2 ltac:(lia) Hfuel).
    cbn [bind negb lp_seek lp_nodes lp_upgrade lp_additional lp_empty]. reflexivity.
  Qed.
End BlockOnlyRef.

Print Assumptions node_in_upgrade.
Print Assumptions node_in_roots.
Print Assumptions block_request_served_ref.

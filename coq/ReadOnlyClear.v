(* ReadOnlyClear.v — C12 / C02 for writers WITH clears: make_read_only from ANY state satisfying the
   crash-tolerant invariant CrashClear1.YInv (appends and clears, pending entries or not, after crashes or
   not, writable or already read-only): result, exact oplog file, observations, reopen, second call, every
   cut of the journal of the call, and the regression for finding D25 (after any cut + reopen + a completed
   second call no header slot holds the secret) with clears. *)
From HC Require Import Base NMap Codec CodecFacts Crypto FlatTree Storage Bitfield Oplog Merkle Core.
From HC Require Import FlatTreeFacts StorageFacts BitfieldFacts OplogFacts TreeRef OffsetFacts CoreFacts Crash Refine.
From HC Require Import ClearRefine Reopen ContigBridge Unified1 Unified2 CrashCore1 CrashCore2 CrashClear1 CrashClear2.
From HC Require Import ReadOnly.
From Coq Require Import FMapPositive ZifyN ZifyNat ZifyBool.
Ltac Zify.zify_post_hook ::= Z.div_mod_to_equations.
Arguments N.add : simpl never.
Arguments N.sub : simpl never.
Arguments N.mul : simpl never.
Arguments N.div : simpl never.
Arguments N.modulo : simpl never.
Arguments N.pow : simpl never.
Arguments N.eqb : simpl never.
Arguments N.ltb : simpl never.
Arguments N.leb : simpl never.
Arguments N.max : simpl never.
Arguments N.min : simpl never.
Arguments N.of_nat : simpl never.
Arguments N.to_nat : simpl never.

(* ====================================================================================== *)
(* A. Headers without the contiguous-length clause                                         *)
(* ====================================================================================== *)

Lemma hdr_desc'_fits kp h n : hdr_desc' kp h n -> 8 + len (enc_header h) <= HEADER_SIZE.
Proof.
  intros (Hok & _ & _ & _ & Hrh & Hsg).
  assert (Hs : len (ht_signature (hd_tree h)) <= 64).
  { destruct Hsg as [->|Hsg]; unfold len; [cbn; lia|rewrite Hsg; lia]. }
  destruct (hdr_fits_real h Hok Hrh Hs) as [F|F]; [discriminate F|]. lia.
Qed.

Lemma hdr_desc'_erase kp h n :
  hdr_desc' kp h n ->
  hdr_desc' (mkKeypair (kp_public kp) None) (set_keypair h (mkKeypair (kp_public (hd_keypair h)) None)) n.
Proof.
  intros (Hok & Hkp & Hfk & Hln & Hrh & Hsg).
  split; [apply header_ok_erase, Hok|].
  cbn [set_keypair hd_keypair hd_tree hd_contig]. rewrite Hkp.
  repeat split; assumption.
Qed.

(* the number of operations of the call before the first header slot write *)
Definition ro_np (c : core) : nat :=
  (length (ReadOnly.page_ops (c_bitfield c)) + length (node_ops (c_tree c)))%nat.

(* ====================================================================================== *)
(* B. The call from a YInv state: result, final state, exact oplog file, every cut         *)
(* ====================================================================================== *)

Section RunY.
  Variable cr : crypto.
  Hypothesis Hcrc : crc_ok cr.
  Hypothesis Hhash32 : forall x, length (cr_hash cr x) = 32%nat.
  Hypothesis Hnonblank : forall x, all_zero (cr_hash cr x) = false.
  Hypothesis Hhashbytes : forall x, bytes_ok (cr_hash cr x) = true.

  Theorem make_read_only_Y c d j ev bs cl :
    YInv cr c d bs cl ->
    let n := N.of_nat (length bs) in
    exists d',
      core_make_read_only cr c (mkWorld d j ev) =
        (ro_core c, mkWorld d' (rev (ro_ops cr c) ++ j) ev, Ok (i_writeable (core_info c))) /\
      apply_sops d (ro_ops cr c) = Some d' /\
      YInv cr (ro_core c) d' bs cl /\
      d_data d' = d_data d /\
      f_content (d_oplog d') = ro_oplog_file cr c /\ f_len (d_oplog d') = ENTRIES_OFFSET /\
      (* the stores are completely flushed *)
      (forall i, fbit (d_bitfield d') i = held n cl i) /\
      lookups cr tE (d_tree d') bs n /\
      (* every cut: a crash disk of the same (bs, cl), with the old key pair up to the last tree node write,
         with the secret-free one from the first header slot write on *)
      forall k, exists dk, apply_sops d (firstn k (ro_ops cr c)) = Some dk /\
        YDisk cr (if (k <=? ro_np c)%nat then c_keypair c else ro_keypair c) dk bs cl.
  Proof.
    intros X n.
    pose proof X as (((HL & HB & HF & HR & Hlook & Hun & Hs & Hn) & Hbf & Hcg & Hd) &
                     s0 & s1 & body & st0 & st1 & hf & l & kf & Hcont & G & Hlen & Hbytes & Hhf & Hhc & Hch &
                     Hstore & Hby & Hsync).
    fold n in HL, HR, Hlook, Hn, Hbf, Hhc, Hch, Hby.
    pose proof (gchain_le cr bs l kf n Hch) as Hle.
    pose proof (hdr_desc'_erase _ _ _ Hhc) as Hhn. fold (ro_header c) (ro_keypair c) in Hhn.
    pose proof (hdr_desc'_fits _ _ _ Hhn) as Hfit.
    destruct (make_read_only_run cr c d j ev Hun Hfit) as (d3 & A3 & Aall & E).
    set (hn := ro_header c) in *. set (bits := ol_bits (c_oplog c)) in *.
    set (b := c_bitfield c) in *. set (t := c_tree c) in *.
    set (ws := ReadOnly.unflushed_nodes t) in *.
    pose proof Hhn as (Hokn & Hkpn & _).
    pose proof G as (H0 & H1 & Hchs & Hf & Hoks).
    destruct (good_slot_lengths cr _ _ _ _ _ _ _ _ G) as [L0 L1].
    (* the two header writes *)
    destruct (header_write_step cr s0 s1 st0 st1 bits hf hn 0 true _ _ H0 H1 Hchs Hokn (or_introl eq_refl)
                (insert_header_true cr hn 0 bits Hfit))
      as (fr1 & pad1 & _ & _ & _ & _ & Eo1 & Hw1 & sa0 & sa1 & A0 & A1 & HchA & HcbA).
    injection Eo1 as Eo1. rewrite <- Eo1 in Hw1, A0, A1. clear Eo1 fr1 pad1.
    set (sl1 := slot_bytes cr (w_bit bits) hn) in *.
    set (a0 := put0 (w_slot bits) sl1 s0) in *. set (a1 := put1 (w_slot bits) sl1 s1) in *.
    assert (LA0 : length a0 = SLOT) by (destruct sa0; apply A0).
    assert (LA1 : length a1 = SLOT) by (destruct sa1; apply A1).
    destruct (header_write_step cr a0 a1 sa0 sa1 (w_bits bits) hn hn 0 true _ _ A0 A1 HchA Hokn (or_introl eq_refl)
                (insert_header_true cr hn 0 (w_bits bits) Hfit))
      as (fr2 & pad2 & _ & _ & _ & _ & Eo2 & Hw2 & sb0 & sb1 & B0 & B1 & HchB & HcbB).
    injection Eo2 as Eo2. rewrite <- Eo2 in Hw2, B0, B1. clear Eo2 fr2 pad2.
    set (sl2 := slot_bytes cr (w_bit (w_bits bits)) hn) in *.
    set (b0 := put0 (w_slot (w_bits bits)) sl2 a0) in *. set (b1 := put1 (w_slot (w_bits bits)) sl2 a1) in *.
    assert (LB0 : length b0 = SLOT) by (destruct sb0; apply B0).
    assert (LB1 : length b1 = SLOT) by (destruct sb1; apply B1).
    (* the stores during and after the flush of pages and nodes *)
    set (fb := write_pages (d_bitfield d) (bf_bits b) (bf_dirty b)).
    set (ft := write_nodes (d_tree d) ws).
    set (dN := disk_nodes c d) in *.
    assert (NT : d_tree dN = ft) by (destruct d; reflexivity).
    assert (ND : d_data dN = d_data d) by (destruct d; reflexivity).
    assert (NB : d_bitfield dN = fb) by (destruct d; reflexivity).
    assert (NO : d_oplog dN = d_oplog d) by (destruct d; reflexivity).
    assert (Hws : forall v, In v ws -> nm_get (n_index v) (t_unflushed t) = Some v)
      by (intros v Hv; apply unflushed_nodes_get; assumption).
    assert (Tw : forall ws', (forall v, In v ws' -> In v ws) -> forall m, m <= n ->
                 lookups cr tE (d_tree d) bs m -> lookups cr tE (write_nodes (d_tree d) ws') bs m).
    { intros ws' Hsub m Hm Hl0. apply (lookups_write_nodes cr bs t (d_tree d) ws' n m Hlook Hun Hm); [|exact Hl0].
      intros v Hv. apply Hws, Hsub, Hv. }
    assert (Bw : forall ps, BfY (write_pages (d_bitfield d) (bf_bits b) ps) (updates_of l) (hd_contig hf) n cl)
      by (intros ps; apply BfY_write_pages; assumption).
    assert (Hidx : forall dd o, (o + 1) * p2 dd <= n -> NODE_SIZE * ft_index (N.of_nat dd) o <= u64_max).
    { intros dd o Hfull. pose proof (ft_index_succ (N.of_nat dd) o) as S. fold (p2 dd) in S. pose proof (p2_pos dd).
      unfold NODE_SIZE in *. nia. }
    assert (LT' : lookups cr (flushed_tree t) ft bs n).
    { intros dd o Hfull.
      apply (tree_flush_preserves_lookups t (flushed_tree t) (map node_write ws) d (d_set d Tree ft) _ _
               (tree_flush_ok t Hun) (apply_node_writes ws d) Hun (Hidx dd o Hfull)).
      apply Hlook, Hfull. }
    assert (LT : lookups cr tE ft bs n).
    { intros dd o Hfull. rewrite <- (LT' dd o Hfull). apply required_node_same_unflushed. reflexivity. }
    assert (Hfb : forall i, fbit fb i = held n cl i).
    { intros i. unfold fb. rewrite (BfSync_flush _ _ Hsync i). apply Hbf. }
    assert (BX : BfY fb [] (hd_contig hn) n cl).
    { apply BfY_exact; [apply len_write_pages, Hby|exact Hfb|].
      apply (fexact_ext (bf_get b)); [exact Hbf|apply exact_contig_fexact, Hcg]. }
    (* a disk whose oplog and data stores are those of d: still a disk of the old header *)
    assert (Old : forall dk, d_data dk = d_data d -> d_oplog dk = d_oplog d ->
                  BfY (d_bitfield dk) (updates_of l) (hd_contig hf) n cl -> lookups cr tE (d_tree dk) bs kf ->
                  YDisk cr (c_keypair c) dk bs cl).
    { intros dk Ed Eo Hb' Ht'. unfold YDisk. fold n. rewrite Ed, Eo.
      split; [exact Hs|]. split; [exact Hn|]. split; [exact Hd|].
      exists s0, s1, body, st0, st1, bits, hf, l, kf.
      split; [exact Hcont|]. split; [left; exact G|]. repeat (split; [assumption|]). exact Hb'. }
    (* a disk with the flushed stores whose oplog file opens with the new header and no entries *)
    assert (New : forall dk x0 x1 xb sx0 sx1 xbits,
                  d_tree dk = ft -> d_data dk = d_data d -> d_bitfield dk = fb ->
                  f_content (d_oplog dk) = x0 ++ x1 ++ xb -> OplX cr x0 x1 xb sx0 sx1 xbits hn [] ->
                  YDisk cr (ro_keypair c) dk bs cl).
    { intros dk x0 x1 xb sx0 sx1 xbits Et Ed Eb Ec HO. unfold YDisk. fold n. rewrite Et, Ed, Eb.
      split; [exact Hs|]. split; [exact Hn|]. split; [exact Hd|].
      exists x0, x1, xb, sx0, sx1, xbits, hn, [], n.
      split; [exact Ec|]. split; [exact HO|]. split; [exact Hhn|]. split; [reflexivity|].
      split; [exact LT|exact BX]. }
    (* what a prefix of the four oplog operations leaves *)
    assert (Cut : forall ops' cont dq,
               (forall o, In o ops' -> sop_store o = Oplog) ->
               apply_sops dN ops' = Some dq -> c_apply_all (s0 ++ s1 ++ body) ops' = Some cont ->
               f_content (d_oplog dq) = cont /\ d_tree dq = ft /\ d_data dq = d_data d /\ d_bitfield dq = fb).
    { intros ops' cont dq Hst A' CA.
      assert (S' : forall s, s <> Oplog -> d_get dq s = d_get dN s).
      { intros s Hs'. apply (apply_sops_other _ _ _ _ A'). intros o Ho Heq. rewrite (Hst o Ho) in Heq.
        apply Hs'. symmetry. exact Heq. }
      split.
      - apply (c_apply_all_sound ops' dN dq cont); [apply Forall_forall, Hst|exact A'|].
        rewrite NO, Hcont. exact CA.
      - split; [rewrite <- NT; apply (S' Tree); discriminate|].
        split; [rewrite <- ND; apply (S' Data); discriminate|rewrite <- NB; apply (S' Bitfield); discriminate]. }
    set (T := ST Oplog (ENTRIES_OFFSET + 0)).
    set (W1 := SW Oplog (w_slot bits) sl1). set (W2 := SW Oplog (w_slot (w_bits bits)) sl2).
    assert (Eops : ro_oplog_ops cr bits hn = [W1; T; W2; T]) by reflexivity.
    assert (C1 : c_apply (s0 ++ s1 ++ body) W1 = Some (a0 ++ a1 ++ body)) by (cbn [c_apply W1]; rewrite Hw1; reflexivity).
    assert (C2 : c_apply (a0 ++ a1 ++ body) T = Some (a0 ++ a1 ++ [])).
    { unfold T. cbn [c_apply]. rewrite N.add_0_r, c_truncate_all_entries by assumption. reflexivity. }
    assert (C3 : c_apply (a0 ++ a1 ++ []) W2 = Some (b0 ++ b1 ++ [])) by (cbn [c_apply W2]; rewrite Hw2; reflexivity).
    assert (C4 : c_apply (b0 ++ b1 ++ []) T = Some (b0 ++ b1 ++ [])).
    { unfold T. cbn [c_apply]. rewrite N.add_0_r, c_truncate_all_entries by assumption. reflexivity. }
    assert (OA1 : OplX cr a0 a1 body sa0 sa1 (w_bits bits) hn []).
    { right. split; [reflexivity|]. split; [exact A0|]. split; [exact A1|]. split; [exact HchA|].
      exists (current_bit bits), l. split; [exact HcbA|exact Hf]. }
    assert (GA : good cr a0 a1 [] sa0 sa1 (w_bits bits) hn []).
    { split; [exact A0|]. split; [exact A1|]. split; [exact HchA|]. split; reflexivity. }
    assert (GB : good cr b0 b1 [] sb0 sb1 (w_bits (w_bits bits)) hn []).
    { split; [exact B0|]. split; [exact B1|]. split; [exact HchB|]. split; reflexivity. }
    assert (Hst4 : forall o, In o [W1; T; W2; T] -> sop_store o = Oplog).
    { intros o [<-|[<-|[<-|[<-|[]]]]]; reflexivity. }
    (* the final disk *)
    rewrite Eops in A3.
    destruct (Cut [W1; T; W2; T] (b0 ++ b1 ++ []) d3 Hst4 A3) as (Hc3 & T3 & D3 & B3).
    { cbn [c_apply_all]. rewrite C1, C2, C3, C4. reflexivity. }
    assert (Hfile : f_content (d_oplog d3) = ro_oplog_file cr c).
    { apply (c_apply_all_sound _ dN d3 _ (ro_oplog_ops_store cr bits hn)); [rewrite Eops; exact A3|].
      rewrite NO. apply ro_oplog_content_any; [|exact Hfit].
      rewrite Hcont, !len_app. unfold len. rewrite L0, L1. unfold ENTRIES_OFFSET, HEADER_SIZE. lia. }
    assert (X3 : YInv cr (ro_core c) d3 bs cl).
    { split.
      - unfold YW, TInv. cbv zeta.
        cbn [ro_core c_tree c_bitfield c_header flushed_tree t_length t_byte_length t_fork t_roots].
        fold n. rewrite T3, D3. fold t b.
        split.
        { split; [exact HL|]. split; [exact HB|]. split; [exact HF|]. split; [exact HR|]. split; [exact LT'|].
          split. { intros i x H. cbn [t_unflushed flushed_tree] in H. rewrite nm_get_empty in H. discriminate H. }
          split; [exact Hs|exact Hn]. }
        split; [exact Hbf|]. split; [exact Hcg|exact Hd].
      - cbn [ro_core c_oplog c_keypair c_header c_bitfield ol_bits ol_entries_len ol_entries_bytes].
        fold n bits hn. rewrite T3, B3.
        exists b0, b1, [], sb0, sb1, hn, [], n.
        split; [exact Hc3|].
        split; [rewrite <- w_bits_twice; exact GB|].
        split; [reflexivity|]. split; [reflexivity|]. split; [exact Hhn|]. split; [exact Hhn|].
        split; [reflexivity|]. split; [exact LT|]. split; [exact BX|].
        intros i Hne. exfalso. apply Hne. cbn [bf_get bf_bits]. rewrite Hfb. apply Hbf. }
    exists d3. split; [exact E|]. split; [exact Aall|]. split; [exact X3|]. split; [exact D3|].
    split; [exact Hfile|].
    split.
    { rewrite <- f_len_content, Hfile. unfold ro_oplog_file. rewrite len_app. unfold len.
      rewrite !length_slot_bytes by assumption. reflexivity. }
    split; [rewrite B3; exact Hfb|]. split; [rewrite T3; exact LT|].
    (* the cuts *)
    intros k.
    pose proof Aall as Afull. rewrite <- (firstn_skipn k (ro_ops cr c)) in Afull.
    destruct (apply_sops_prefix _ _ _ _ Afull) as (dk & Ak). clear Afull.
    exists dk. split; [exact Ak|].
    set (P := ReadOnly.page_ops b) in *. set (Q := node_ops t) in *.
    unfold ro_ops in Ak. fold b t bits hn P Q in Ak. rewrite Eops in Ak. rewrite firstn_app3 in Ak.
    unfold ro_np. fold b t P Q.
    destruct (le_lt_dec k (length P)) as [K1|K1].
    - (* inside the pages *)
      assert ((k <=? length P + length Q)%nat = true) as -> by (apply Nat.leb_le; lia).
      replace (k - length P)%nat with 0%nat in Ak by lia. cbn [firstn app] in Ak. rewrite app_nil_r in Ak.
      unfold P, ReadOnly.page_ops in Ak. rewrite firstn_map, apply_page_writes in Ak. injection Ak as <-.
      apply Old; try (destruct d; reflexivity).
      + replace (d_bitfield (d_set d Bitfield (write_pages (d_bitfield d) (bf_bits b) (firstn k (bf_dirty b)))))
          with (write_pages (d_bitfield d) (bf_bits b) (firstn k (bf_dirty b))) by (destruct d; reflexivity).
        apply Bw.
      + replace (d_tree (d_set d Bitfield (write_pages (d_bitfield d) (bf_bits b) (firstn k (bf_dirty b)))))
          with (d_tree d) by (destruct d; reflexivity).
        exact Hstore.
    - rewrite (firstn_all2 P) in Ak by lia.
      destruct (le_lt_dec k (length P + length Q)) as [K2|K2].
      + (* inside the nodes *)
        assert ((k <=? length P + length Q)%nat = true) as -> by (apply Nat.leb_le; lia).
        replace (k - length P - length Q)%nat with 0%nat in Ak by lia.
        cbn [firstn] in Ak. rewrite app_nil_r in Ak.
        rewrite CoreFacts.apply_sops_app in Ak. unfold P in Ak. fold b in Ak.
        change (ReadOnly.page_ops b) with (ReadOnly.page_ops (c_bitfield c)) in Ak.
        rewrite apply_page_ops in Ak.
        unfold Q, node_ops in Ak. rewrite firstn_map, apply_node_writes in Ak. injection Ak as <-.
        apply Old; try (destruct d; reflexivity).
        * replace (d_bitfield (d_set (disk_pages c d) Tree
                     (write_nodes (d_tree (disk_pages c d)) (firstn (k - length (ReadOnly.page_ops (c_bitfield c))) (ReadOnly.unflushed_nodes t)))))
            with (write_pages (d_bitfield d) (bf_bits b) (bf_dirty b)) by (destruct d; reflexivity).
          apply Bw.
        * replace (d_tree (d_set (disk_pages c d) Tree
                     (write_nodes (d_tree (disk_pages c d)) (firstn (k - length (ReadOnly.page_ops (c_bitfield c))) (ReadOnly.unflushed_nodes t)))))
            with (write_nodes (d_tree d) (firstn (k - length (ReadOnly.page_ops (c_bitfield c))) ws)) by (destruct d; reflexivity).
          apply Tw; [intros v Hv; eapply in_firstn; exact Hv|exact Hle|exact Hstore].
      + (* inside the four oplog operations *)
        assert ((k <=? length P + length Q)%nat = false) as -> by (apply Nat.leb_gt; lia).
        rewrite (firstn_all2 Q) in Ak by lia.
        rewrite CoreFacts.apply_sops_app in Ak. unfold P in Ak.
        change (ReadOnly.page_ops b) with (ReadOnly.page_ops (c_bitfield c)) in Ak.
        rewrite apply_page_ops in Ak.
        rewrite CoreFacts.apply_sops_app in Ak. unfold Q in Ak.
        change (node_ops t) with (node_ops (c_tree c)) in Ak.
        rewrite apply_node_ops in Ak. fold dN in Ak.
        set (q := (k - length (ReadOnly.page_ops (c_bitfield c)) - length (node_ops (c_tree c)))%nat) in *.
        assert (Hq : (1 <= q)%nat) by (unfold q, P, Q, b, t in *; lia).
        destruct q as [|[|[|[|q]]]]; [lia| | | |]; cbn [firstn] in Ak.
        * destruct (Cut [W1] (a0 ++ a1 ++ body) dk) as (Hc & Ht & Hda & Hb).
          { intros o [<-|[]]. reflexivity. }
          { exact Ak. }
          { cbn [c_apply_all]. rewrite C1. reflexivity. }
          apply (New dk a0 a1 body sa0 sa1 (w_bits bits)); assumption.
        * destruct (Cut [W1; T] (a0 ++ a1 ++ []) dk) as (Hc & Ht & Hda & Hb).
          { intros o [<-|[<-|[]]]; reflexivity. }
          { exact Ak. }
          { cbn [c_apply_all]. rewrite C1, C2. reflexivity. }
          apply (New dk a0 a1 [] sa0 sa1 (w_bits bits)); try assumption. left. exact GA.
        * destruct (Cut [W1; T; W2] (b0 ++ b1 ++ []) dk) as (Hc & Ht & Hda & Hb).
          { intros o [<-|[<-|[<-|[]]]]; reflexivity. }
          { exact Ak. }
          { cbn [c_apply_all]. rewrite C1, C2, C3. reflexivity. }
          apply (New dk b0 b1 [] sb0 sb1 (w_bits (w_bits bits))); try assumption. left. exact GB.
        * destruct (Cut [W1; T; W2; T] (b0 ++ b1 ++ []) dk) as (Hc & Ht & Hda & Hb).
          { exact Hst4. }
          { destruct q; exact Ak. }
          { cbn [c_apply_all]. rewrite C1, C2, C3, C4. reflexivity. }
          apply (New dk b0 b1 [] sb0 sb1 (w_bits (w_bits bits))); try assumption. left. exact GB.
  Qed.
End RunY.


(* ====================================================================================== *)
(* C. Observations, the stable invariant, reopening, the second call                       *)
(* ====================================================================================== *)

(* two states with the observations of the same (bs, cl) answer every read alike *)
Lemma obs_cleared_same_reads c d c' d' bs cl :
  obs_cleared c d bs cl -> obs_cleared c' d' bs cl -> same_reads c d c' d'.
Proof.
  intros (I & Hh & Hg) (I' & Hh' & Hg'). unfold same_reads. rewrite I, I'.
  cbn [i_length i_byte_length i_contiguous i_fork].
  do 4 (split; [reflexivity|]). split.
  - intros i. rewrite Hh, Hh'. reflexivity.
  - intros i j ev. rewrite Hg, Hg'.
    destruct (held (N.of_nat (length bs)) cl i); split; reflexivity.
Qed.

(* a YInv state without pending entries whose data store is not longer than the blocks satisfies the
   crash-free invariant FInv of Unified1.v *)
Lemma YInv_no_pending_FInv cr c d bs cl :
  YInv cr c d bs cl -> ol_entries_len (c_oplog c) = 0 -> f_len (d_data d) <= sumN (map len bs) ->
  FInv cr c d bs cl.
Proof.
  intros ((T & Hbf & Hcg & Hd) & s0 & s1 & body & st0 & st1 & hf & l & kf & Hcont & G & Hlen & Hbytes & Hhf & Hhc &
          Hch & Hstore & (Hm & Hrep & B0 & Hex & HB) & Hsync) Hz Hdl.
  assert (El : l = []) by (destruct l; [reflexivity|rewrite Hz in Hlen; cbn [length] in Hlen; lia]).
  subst l. cbn [gchain] in Hch. cbn [updates_of flat_map] in Hrep, HB.
  unfold upds_fun in Hrep, HB. cbn [fold_left] in Hrep, HB.
  split.
  - split; [exact T|]. split; [exact Hbf|]. split; [exact Hcg|]. split; [exact Hd|exact Hdl].
  - exists s0, s1, body, st0, st1, hf, [], kf.
    split; [exact Hcont|]. split; [exact G|]. split; [exact Hlen|]. split; [exact Hbytes|].
    split; [exact Hhf|]. split; [exact Hhc|]. split; [exact Hch|]. split; [exact Hstore|].
    split; [exact Hm|].
    split; [intros i Hi; rewrite Hrep in Hi; rewrite Hch; apply (held_lt _ _ _ Hi)|].
    split; [apply (fexact_ext B0); [intros i; rewrite HB, Hrep; reflexivity|exact Hex]|].
    split; [exact Hrep|].
    intros i Hne. exfalso. apply Hne. symmetry. apply Hrep.
Qed.

(* the header in memory carries the key pair of the core *)
Lemma YInv_hd_keypair cr c d bs cl : YInv cr c d bs cl -> hd_keypair (c_header c) = c_keypair c.
Proof.
  intros (_ & s0 & s1 & body & st0 & st1 & hf & l & kf & _ & _ & _ & _ & _ & (_ & Hk & _) & _). exact Hk.
Qed.

(* the slots of the file left by the call: both hold the erased header, which carries no secret *)
Lemma ro_oplog_file_slots cr c :
  header_ok (ro_header c) = true -> 8 + len (enc_header (ro_header c)) <= HEADER_SIZE ->
  let bits := ol_bits (c_oplog c) in
  ro_oplog_file cr c = slot_bytes cr (negb (fst bits)) (ro_header c) ++ slot_bytes cr (negb (snd bits)) (ro_header c) /\
  slot_is cr (slot_bytes cr (negb (fst bits)) (ro_header c)) (SValid (ro_header c) (negb (fst bits))) /\
  slot_is cr (slot_bytes cr (negb (snd bits)) (ro_header c)) (SValid (ro_header c) (negb (snd bits))) /\
  kp_secret (hd_keypair (ro_header c)) = None.
Proof.
  intros Hok Hfit bits.
  destruct (ro_file_good cr (negb (fst bits)) (negb (snd bits)) (ro_header c) Hok Hfit) as (S0 & S1 & _).
  split; [reflexivity|]. split; [exact S0|]. split; [exact S1|reflexivity].
Qed.

Section ObservationsY.
  Variable cr : crypto.
  Hypothesis Hcrc : crc_ok cr.
  Hypothesis Hhash32 : forall x, length (cr_hash cr x) = 32%nat.
  Hypothesis Hnonblank : forall x, all_zero (cr_hash cr x) = false.
  Hypothesis Hhashbytes : forall x, bytes_ok (cr_hash cr x) = true.

  (* the call as observations of the returned state, for ANY YInv state (so also for a second call, for a core
     opened read-only, for a core recovered after a crash) *)
  Theorem make_read_only_observations_Y c d j ev bs cl :
    YInv cr c d bs cl ->
    exists c' w',
      core_make_read_only cr c (mkWorld d j ev) = (c', w', Ok (i_writeable (core_info c))) /\
      w_events w' = ev /\ w_journal w' = rev (ro_ops cr c) ++ j /\
      YInv cr c' (w_disk w') bs cl /\
      (* every observation is that of the same blocks and the same cleared set, before and after *)
      obs_cleared c d bs cl /\ obs_cleared c' (w_disk w') bs cl /\ same_reads c d c' (w_disk w') /\
      i_writeable (core_info c') = false /\
      c_keypair c' = mkKeypair (kp_public (c_keypair c)) None /\
      kp_secret (hd_keypair (c_header c')) = None /\
      ol_entries_len (c_oplog c') = 0 /\ ol_entries_bytes (c_oplog c') = 0 /\
      d_data (w_disk w') = d_data d /\
      f_len (d_oplog (w_disk w')) = 8192 /\
      f_content (d_oplog (w_disk w')) = ro_oplog_file cr c /\
      (forall s, ro_oplog_file cr c = ro_oplog_file cr (with_secret c s)) /\
      (* appends are refused and change nothing *)
      (forall f batch w, core_append cr f batch c' w = (c', w, Err NotWritable)).
  Proof.
    intros X.
    destruct (make_read_only_Y cr Hhash32 Hnonblank Hhashbytes c d j ev bs cl X) as (d' & E & _ & X' & Hda & Hc & Hl & _).
    exists (ro_core c). eexists. split; [exact E|]. cbn [w_events w_journal w_disk].
    split; [reflexivity|]. split; [reflexivity|]. split; [exact X'|].
    pose proof (YInv_observations cr c d bs cl X) as O.
    pose proof (YInv_observations cr _ d' bs cl X') as O'.
    split; [exact O|]. split; [exact O'|]. split; [apply (obs_cleared_same_reads _ _ _ _ bs cl O O')|].
    split; [reflexivity|]. split; [reflexivity|]. split; [reflexivity|]. split; [reflexivity|].
    split; [reflexivity|]. split; [exact Hda|]. split; [exact Hl|]. split; [exact Hc|].
    split; [intros s; reflexivity|].
    intros f batch w. apply append_not_writable. reflexivity.
  Qed.

  (* when the data store is not longer than the blocks (always the case without crashes: FInv), the state
     after the call satisfies the crash-free invariant FInv *)
  Theorem make_read_only_FInv c d j ev bs cl :
    YInv cr c d bs cl -> f_len (d_data d) <= sumN (map len bs) ->
    exists c' w',
      core_make_read_only cr c (mkWorld d j ev) = (c', w', Ok (i_writeable (core_info c))) /\
      FInv cr c' (w_disk w') bs cl /\ kp_secret (c_keypair c') = None.
  Proof.
    intros X Hdl.
    destruct (make_read_only_Y cr Hhash32 Hnonblank Hhashbytes c d j ev bs cl X) as (d' & E & _ & X' & Hda & _).
    exists (ro_core c). eexists. split; [exact E|]. cbn [w_disk]. split; [|reflexivity].
    apply YInv_no_pending_FInv; [exact X'|reflexivity|rewrite Hda; exact Hdl].
  Qed.

  Corollary make_read_only_from_FInv c d j ev bs cl :
    FInv cr c d bs cl ->
    exists c' w',
      core_make_read_only cr c (mkWorld d j ev) = (c', w', Ok (i_writeable (core_info c))) /\
      FInv cr c' (w_disk w') bs cl /\ kp_secret (c_keypair c') = None.
  Proof.
    intros F. apply make_read_only_FInv; [apply FInv_YInv, F|].
    destruct F as ((_ & _ & _ & _ & Hdl) & _). exact Hdl.
  Qed.

  (* a second call: Ok false, and everything the first call established holds again *)
  Corollary make_read_only_twice_Y c d j ev bs cl :
    YInv cr c d bs cl ->
    exists c1 w1 c2 w2,
      core_make_read_only cr c (mkWorld d j ev) = (c1, w1, Ok (i_writeable (core_info c))) /\
      core_make_read_only cr c1 w1 = (c2, w2, Ok false) /\
      w_events w2 = ev /\ YInv cr c2 (w_disk w2) bs cl /\
      obs_cleared c2 (w_disk w2) bs cl /\ same_reads c1 (w_disk w1) c2 (w_disk w2) /\ same_reads c d c2 (w_disk w2) /\
      i_writeable (core_info c2) = false /\ kp_secret (c_keypair c2) = None /\
      c_keypair c2 = c_keypair c1 /\ hd_keypair (c_header c2) = hd_keypair (c_header c1) /\
      kp_secret (hd_keypair (c_header c2)) = None /\
      ol_entries_len (c_oplog c2) = 0 /\ ol_entries_bytes (c_oplog c2) = 0 /\
      d_data (w_disk w2) = d_data d /\
      f_len (d_oplog (w_disk w2)) = 8192 /\ f_content (d_oplog (w_disk w2)) = ro_oplog_file cr c1.
  Proof.
    intros X.
    destruct (make_read_only_observations_Y c d j ev bs cl X)
      as (c1 & w1 & E1 & Ev1 & _ & X1 & O0 & O1 & _ & Wr1 & K1 & Kh1 & _ & _ & Hd1 & _).
    destruct w1 as [d1 j1 ev1]. cbn [w_events w_disk] in *. subst ev1.
    destruct (make_read_only_observations_Y c1 d1 j1 ev bs cl X1)
      as (c2 & w2 & E2 & Ev2 & _ & X2 & _ & O2 & SR2 & Wr2 & K2 & Kh2 & P1 & P2 & Hd2 & Hl2 & Hc2 & _).
    rewrite Wr1 in E2.
    exists c1, (mkWorld d1 j1 ev), c2, w2. split; [exact E1|]. split; [exact E2|].
    split; [exact Ev2|]. split; [exact X2|]. split; [exact O2|]. cbn [w_disk].
    split; [exact SR2|]. split; [apply (obs_cleared_same_reads _ _ _ _ bs cl O0 O2)|].
    split; [exact Wr2|]. split; [rewrite K2; reflexivity|].
    split; [rewrite K2, K1; reflexivity|].
    split.
    { rewrite (YInv_hd_keypair cr _ _ _ _ X2), (YInv_hd_keypair cr _ _ _ _ X1), K2, K1. reflexivity. }
    split; [exact Kh2|]. split; [exact P1|]. split; [exact P2|]. split; [rewrite Hd2; exact Hd1|].
    split; [exact Hl2|exact Hc2].
  Qed.

  (* reopening the storage left by the call: nothing to repair, read-only, the same observations; and the
     call on the reopened core *)
  Theorem read_only_reopen_Y c d j ev bs cl :
    YInv cr c d bs cl ->
    exists c' w' c'',
      core_make_read_only cr c (mkWorld d j ev) = (c', w', Ok (i_writeable (core_info c))) /\
      core_open cr None true (w_disk w') = (w_disk w', [], Ok c'') /\
      YInv cr c'' (w_disk w') bs cl /\
      c_keypair c'' = mkKeypair (kp_public (c_keypair c)) None /\
      hd_keypair (c_header c'') = mkKeypair (kp_public (c_keypair c)) None /\
      i_writeable (core_info c'') = false /\
      obs_cleared c'' (w_disk w') bs cl /\ same_reads c d c'' (w_disk w') /\
      (forall f batch w, core_append cr f batch c'' w = (c'', w, Err NotWritable)) /\
      (forall j2 ev2, exists c3 w3,
         core_make_read_only cr c'' (mkWorld (w_disk w') j2 ev2) = (c3, w3, Ok false) /\
         YInv cr c3 (w_disk w3) bs cl /\ same_reads c d c3 (w_disk w3) /\
         i_writeable (core_info c3) = false /\
         f_len (d_oplog (w_disk w3)) = 8192 /\ f_content (d_oplog (w_disk w3)) = ro_oplog_file cr c'').
  Proof.
    intros X.
    destruct (make_read_only_observations_Y c d j ev bs cl X)
      as (c1 & w1 & E1 & _ & _ & X1 & O0 & _ & _ & _ & K1 & _).
    destruct (reopen_YInv cr Hcrc Hhash32 Hnonblank Hhashbytes c1 (w_disk w1) bs cl X1) as (c2 & Eo & X2 & K2 & _).
    rewrite K1 in K2.
    assert (Wr2 : i_writeable (core_info c2) = false)
      by (unfold core_info; cbn [i_writeable]; rewrite K2; reflexivity).
    pose proof (YInv_observations cr c2 _ bs cl X2) as O2.
    exists c1, w1, c2. split; [exact E1|]. split; [exact Eo|]. split; [exact X2|]. split; [exact K2|].
    split.
    { rewrite (YInv_hd_keypair cr _ _ _ _ X2). exact K2. }
    split; [exact Wr2|]. split; [exact O2|]. split; [apply (obs_cleared_same_reads _ _ _ _ bs cl O0 O2)|].
    split.
    - intros f batch w. apply append_not_writable. rewrite K2. reflexivity.
    - intros j2 ev2.
      destruct (make_read_only_observations_Y c2 (w_disk w1) j2 ev2 bs cl X2)
        as (c3 & w3 & E3 & _ & _ & X3 & _ & O3 & _ & Wr3 & _ & _ & _ & _ & _ & Hl3 & Hc3 & _).
      rewrite Wr2 in E3. exists c3, w3. split; [exact E3|]. split; [exact X3|].
      split; [apply (obs_cleared_same_reads _ _ _ _ bs cl O0 O3)|].
      split; [exact Wr3|]. split; [exact Hl3|exact Hc3].
  Qed.
End ObservationsY.

(* ====================================================================================== *)
(* D. A crash inside the call, and the second call after it (finding D25, with clears)      *)
(* ====================================================================================== *)

Section CutsY.
  Variable cr : crypto.
  Hypothesis Hcrc : crc_ok cr.
  Hypothesis Hhash32 : forall x, length (cr_hash cr x) = 32%nat.
  Hypothesis Hnonblank : forall x, all_zero (cr_hash cr x) = false.
  Hypothesis Hhashbytes : forall x, bytes_ok (cr_hash cr x) = true.

  (* the journal delta of the call is [ro_ops cr c] (make_read_only_Y): pages, nodes, slot, truncate, slot,
     truncate.  Whatever prefix of it reached the storage, the storage reopens (open issues at most the
     truncate that removes stale entries) to a state with the same blocks and the same cleared set; the
     recovered core has the old key pair (so the old writability) up to the last tree node write and is
     read-only from the first header slot write on *)
  Theorem make_read_only_crash_Y c d bs cl k :
    YInv cr c d bs cl ->
    exists dk, apply_sops d (firstn k (ro_ops cr c)) = Some dk /\
    exists dk' ops ck,
      core_open cr None true dk = (dk', ops, Ok ck) /\
      d_tree dk' = d_tree dk /\ d_data dk' = d_data dk /\ d_bitfield dk' = d_bitfield dk /\
      (ops = [] /\ dk' = dk \/ ops = [ST Oplog ENTRIES_OFFSET]) /\
      YInv cr ck dk' bs cl /\ obs_cleared ck dk' bs cl /\ same_reads c d ck dk' /\
      hd_keypair (c_header ck) = c_keypair ck /\
      kp_public (c_keypair ck) = kp_public (c_keypair c) /\
      ((k <= ro_np c)%nat ->
         c_keypair ck = c_keypair c /\ i_writeable (core_info ck) = i_writeable (core_info c)) /\
      ((ro_np c < k)%nat ->
         c_keypair ck = mkKeypair (kp_public (c_keypair c)) None /\ i_writeable (core_info ck) = false).
  Proof.
    intros X.
    destruct (make_read_only_Y cr Hhash32 Hnonblank Hhashbytes c d [] [] bs cl X) as (_ & _ & _ & _ & _ & _ & _ & _ & _ & C).
    destruct (C k) as (dk & Ak & XD). exists dk. split; [exact Ak|].
    destruct (reopen_Y cr Hcrc Hhash32 Hnonblank Hhashbytes _ dk bs cl XD)
      as (ck & dk' & ops & Eo & Xk & Kk & _ & Et & Ed & Eb & Hops).
    exists dk', ops, ck. split; [exact Eo|]. split; [exact Et|]. split; [exact Ed|]. split; [exact Eb|].
    split; [exact Hops|]. split; [exact Xk|].
    pose proof (YInv_observations cr c d bs cl X) as O.
    pose proof (YInv_observations cr ck dk' bs cl Xk) as Ok'.
    split; [exact Ok'|]. split; [apply (obs_cleared_same_reads _ _ _ _ bs cl O Ok')|].
    split; [apply (YInv_hd_keypair cr _ _ _ _ Xk)|].
    split; [rewrite Kk; destruct (k <=? ro_np c)%nat; reflexivity|].
    split; intros Hk.
    - assert ((k <=? ro_np c)%nat = true) as Eb' by (apply Nat.leb_le; exact Hk). rewrite Eb' in Kk.
      split; [exact Kk|]. unfold core_info. cbn [i_writeable]. rewrite Kk. reflexivity.
    - assert ((k <=? ro_np c)%nat = false) as Eb' by (apply Nat.leb_gt; exact Hk). rewrite Eb' in Kk.
      split; [exact Kk|]. unfold core_info. cbn [i_writeable]. rewrite Kk. reflexivity.
  Qed.

  (* THE REGRESSION FOR FINDING D25, with clears.  Whatever prefix of a first call reached the storage before a
     crash: after reopening, a second call always completes (it does not depend on the recovered core being
     writable) and reports the recovered writability; afterwards the oplog file is exactly two slot images of
     the erased header — both header slots hold a header without secret key, whatever the secret was — with
     every observation of (bs, cl) intact and the invariant back *)
  Theorem secret_gone_after_any_completed_call_Y c d bs cl k :
    YInv cr c d bs cl ->
    exists dk, apply_sops d (firstn k (ro_ops cr c)) = Some dk /\
    exists dk' ops ck,
      core_open cr None true dk = (dk', ops, Ok ck) /\ obs_cleared ck dk' bs cl /\ same_reads c d ck dk' /\
      forall j ev, exists c2 d2,
        core_make_read_only cr ck (mkWorld dk' j ev) =
          (c2, mkWorld d2 (rev (ro_ops cr ck) ++ j) ev, Ok (i_writeable (core_info ck))) /\
        f_len (d_oplog d2) = 8192 /\ f_content (d_oplog d2) = ro_oplog_file cr ck /\
        (forall s, ro_oplog_file cr ck = ro_oplog_file cr (with_secret ck s)) /\
        (exists x0 x1 h v0 v1,
           f_content (d_oplog d2) = x0 ++ x1 /\ slot_is cr x0 (SValid h v0) /\ slot_is cr x1 (SValid h v1) /\
           kp_secret (hd_keypair h) = None) /\
        YInv cr c2 d2 bs cl /\ obs_cleared c2 d2 bs cl /\ same_reads c d c2 d2 /\
        i_writeable (core_info c2) = false /\ kp_secret (c_keypair c2) = None /\
        kp_secret (hd_keypair (c_header c2)) = None /\
        kp_public (c_keypair c2) = kp_public (c_keypair c).
  Proof.
    intros X.
    destruct (make_read_only_crash_Y c d bs cl k X)
      as (dk & Ak & dk' & ops & ck & Eo & _ & _ & _ & _ & Xk & Ok' & SRk & _ & Kp & _).
    exists dk. split; [exact Ak|]. exists dk', ops, ck. split; [exact Eo|]. split; [exact Ok'|]. split; [exact SRk|].
    intros j ev.
    destruct (make_read_only_Y cr Hhash32 Hnonblank Hhashbytes ck dk' j ev bs cl Xk)
      as (d2 & E & _ & X2 & _ & Hc2 & Hl2 & _).
    pose proof (YInv_observations cr c d bs cl X) as O.
    pose proof (YInv_observations cr _ d2 bs cl X2) as O2.
    exists (ro_core ck), d2. split; [exact E|]. split; [exact Hl2|]. split; [exact Hc2|].
    split; [intros s; reflexivity|].
    split.
    { pose proof Xk as (_ & s0 & s1 & body & st0 & st1 & hf & l & kf & _ & _ & _ & _ & _ & Hhc & _).
      pose proof (hdr_desc'_erase _ _ _ Hhc) as Hhn. fold (ro_header ck) in Hhn.
      pose proof (hdr_desc'_fits _ _ _ Hhn) as Hfit. destruct Hhn as (Hokn & _).
      destruct (ro_oplog_file_slots cr ck Hokn Hfit) as (Ef & S0 & S1 & Hns).
      do 5 eexists. split; [rewrite Hc2; exact Ef|]. split; [exact S0|]. split; [exact S1|exact Hns]. }
    split; [exact X2|]. split; [exact O2|]. split; [apply (obs_cleared_same_reads _ _ _ _ bs cl O O2)|].
    split; [reflexivity|]. split; [reflexivity|]. split; [reflexivity|].
    cbn [ro_core c_keypair ro_keypair kp_public]. exact Kp.
  Qed.
End CutsY.

(* the oplog file afterwards, whatever it held before: exactly two 4096-byte slots, each holding the erased
   header (no secret key), the same bytes whatever the secret was *)
Theorem read_only_oplog_file_Y (cr : crypto) :
  (forall x, length (cr_hash cr x) = 32%nat) -> (forall x, all_zero (cr_hash cr x) = false) ->
  (forall x, bytes_ok (cr_hash cr x) = true) ->
  forall c d j ev bs cl,
    YInv cr c d bs cl ->
    exists c' w',
      core_make_read_only cr c (mkWorld d j ev) = (c', w', Ok (i_writeable (core_info c))) /\
      f_len (d_oplog (w_disk w')) = 8192 /\
      f_content (d_oplog (w_disk w')) = ro_oplog_file cr c /\
      (exists x0 x1 h v0 v1,
         ro_oplog_file cr c = x0 ++ x1 /\ length x0 = 4096%nat /\ length x1 = 4096%nat /\
         slot_is cr x0 (SValid h v0) /\ slot_is cr x1 (SValid h v1) /\ kp_secret (hd_keypair h) = None) /\
      d_data (w_disk w') = d_data d /\
      (forall s, ro_oplog_file cr c = ro_oplog_file cr (with_secret c s)).
Proof.
  intros Hhash32 Hnonblank Hhashbytes c d j ev bs cl X.
  destruct (make_read_only_Y cr Hhash32 Hnonblank Hhashbytes c d j ev bs cl X) as (d' & E & _ & _ & Hda & Hc & Hl & _).
  exists (ro_core c). eexists. split; [exact E|]. cbn [w_disk]. split; [exact Hl|]. split; [exact Hc|].
  split.
  { pose proof X as (_ & s0 & s1 & body & st0 & st1 & hf & l & kf & _ & _ & _ & _ & _ & Hhc & _).
    pose proof (hdr_desc'_erase _ _ _ Hhc) as Hhn. fold (ro_header c) in Hhn.
    pose proof (hdr_desc'_fits _ _ _ Hhn) as Hfit. destruct Hhn as (Hokn & _).
    destruct (ro_oplog_file_slots cr c Hokn Hfit) as (Ef & S0 & S1 & Hns).
    do 5 eexists. split; [exact Ef|].
    split; [apply (length_slot_bytes cr _ _ Hfit)|]. split; [apply (length_slot_bytes cr _ _ Hfit)|].
    split; [exact S0|]. split; [exact S1|exact Hns]. }
  split; [exact Hda|]. intros s. reflexivity.
Qed.

(* the same, phrased with the journal the call actually leaves *)
Corollary make_read_only_crash_journal_Y (cr : crypto) :
  crc_ok cr -> (forall x, length (cr_hash cr x) = 32%nat) -> (forall x, all_zero (cr_hash cr x) = false) ->
  (forall x, bytes_ok (cr_hash cr x) = true) ->
  forall c d bs cl k,
    YInv cr c d bs cl ->
    exists c' w',
      core_make_read_only cr c (mkWorld d [] []) = (c', w', Ok (i_writeable (core_info c))) /\
      let delta := rev (w_journal w') in        (* the operations of the call, oldest first *)
      exists dk, apply_sops d (firstn k delta) = Some dk /\
      exists dk' ops ck,
        core_open cr None true dk = (dk', ops, Ok ck) /\
        YInv cr ck dk' bs cl /\ obs_cleared ck dk' bs cl /\ same_reads c d ck dk' /\
        kp_public (c_keypair ck) = kp_public (c_keypair c) /\
        (c_keypair ck = c_keypair c /\ i_writeable (core_info ck) = i_writeable (core_info c) \/
         c_keypair ck = mkKeypair (kp_public (c_keypair c)) None /\ i_writeable (core_info ck) = false).
Proof.
  intros Hcrc Hhash32 Hnonblank Hhashbytes c d bs cl k X.
  destruct (make_read_only_Y cr Hhash32 Hnonblank Hhashbytes c d [] [] bs cl X) as (d' & E & _).
  exists (ro_core c). eexists. split; [exact E|]. cbn [w_journal]. rewrite app_nil_r, rev_involutive. cbv zeta.
  destruct (make_read_only_crash_Y cr Hcrc Hhash32 Hnonblank Hhashbytes c d bs cl k X)
    as (dk & Ak & dk' & ops & ck & Eo & _ & _ & _ & _ & Xk & Ok' & SR & _ & Kp & K1 & K2).
  exists dk. split; [exact Ak|]. exists dk', ops, ck.
  split; [exact Eo|]. split; [exact Xk|]. split; [exact Ok'|]. split; [exact SR|]. split; [exact Kp|].
  destruct (le_lt_dec k (ro_np c)) as [L|L]; [left; apply K1, L|right; apply K2, L].
Qed.

(* ====================================================================================== *)
(* E. Non-vacuity on the toy crypto instance: a writer with clears, pending entries, junk   *)
(* ====================================================================================== *)

Definition toy_c5 : list bytes := [[1; 2; 3]; []; [4]; [5; 6]; [7]].
Definition toy_cjunk : list bytes := [[8; 9]; [10; 11; 12]].
Definition toy_cbs : list bytes := toy_c5 ++ [[8; 9]].
Definition toy_ccl : N -> bool := fun i => (1 <=? i) && (i <? 3).

(* a writer created on empty storage; five blocks appended (f1 = whether this append flushes: both slot
   parities); an append of two more blocks crashes after its data write (junk stays in the data store);
   reopen; clear [1, 3) without a flush (pending clear entry; the bitfield store still has the bits set);
   append of one block without a flush (pending append entry) *)
Definition toy_cstate (f1 : bool) : option (core * disk) :=
  match core_open toy_cr (Some toy_keypair) false disk_empty with
  | (d0, _, Ok c0) =>
      match core_append toy_cr (Some f1) toy_c5 c0 (mkWorld d0 [] []) with
      | (c1, w1, Ok _) =>
          match core_append toy_cr (Some true) toy_cjunk c1 (mkWorld (w_disk w1) [] []) with
          | (_, w2, Ok _) =>
              match apply_sops (w_disk w1) (firstn 1 (rev (w_journal w2))) with
              | Some dk =>
                  match core_open toy_cr None true dk with
                  | (dk', _, Ok ck) =>
                      match core_clear toy_cr (Some false) 1 3 ck (mkWorld dk' [] []) with
                      | (c3, w3, Ok _) =>
                          match core_append toy_cr (Some false) [[8; 9]] c3 (mkWorld (w_disk w3) [] []) with
                          | (c4, w4, Ok _) => Some (c4, w_disk w4)
                          | _ => None
                          end
                      | _ => None
                      end
                  | _ => None
                  end
              | None => None
              end
          | _ => None
          end
      | _ => None
      end
  | _ => None
  end.

(* kernel conversion unfolds toy_cstate before anything else (keeps the Qed below from evaluating the runs lazily) *)
Local Strategy expand [toy_cstate].

(* the hypotheses of all theorems of this file hold of the toy states: YInv with a non-empty cleared set, a
   secret key, pending entries, junk after the blocks in the data store (so FInv does not hold), a bitfield
   store that still has a cleared bit set (f1 = true) or that has never been written (f1 = false) *)
Example toy_cstate_YInv f1 :
  match toy_cstate f1 with
  | Some (c, d) =>
      YInv toy_cr c d toy_cbs toy_ccl /\ kp_secret (c_keypair c) = Some (repeat 2 32%nat) /\
      2 <= ol_entries_len (c_oplog c) /\ sumN (map len toy_cbs) < f_len (d_data d) /\
      fbit (d_bitfield d) 1 = f1 /\ fbit (d_bitfield d) 0 = f1 /\ held (N.of_nat (length toy_cbs)) toy_ccl 1 = false
  | None => False
  end.
Proof.
  destruct (FInv_init toy_cr toy_crc_ok' toy_hash32 toy_nonblank toy_hashbytes toy_keypair eq_refl)
    as (d0 & ops0 & c0 & Ho & D & K).
  assert (Hcomp : match toy_cstate f1 with
                  | Some (c, d) =>
                      (2 <=? ol_entries_len (c_oplog c)) = true /\ (sumN (map len toy_cbs) <? f_len (d_data d)) = true /\
                      fbit (d_bitfield d) 1 = f1 /\ fbit (d_bitfield d) 0 = f1
                  | None => False
                  end) by (destruct f1; vm_compute; repeat split; reflexivity).
  unfold toy_cstate in *. rewrite Ho in *.
  apply FInv_YInv in D.
  assert (Hsk0 : kp_secret (c_keypair c0) = Some (repeat 2 32%nat)) by (rewrite K; reflexivity).
  destruct (core_append toy_cr (Some f1) toy_c5 c0 (mkWorld d0 [] [])) as [[c1 w1] r1] eqn:E1.
  destruct r1 as [x1| | |]; try contradiction.
  destruct (append_YInv toy_cr toy_crc_ok' toy_hash32 toy_nonblank toy_hashbytes toy_sig64 toy_sigbytes
              (Some f1) toy_c5 c0 d0 [] [] [] (fun _ => false) (repeat 2 32%nat) c1 w1 (Ok x1) D Hsk0)
    as [Hp|(_ & X1 & K1)]; [vm_compute; discriminate|vm_compute; discriminate|exact E1|discriminate Hp|].
  cbn [app length] in X1. change (N.of_nat 0) with 0 in X1.
  assert (Hsk1 : kp_secret (c_keypair c1) = Some (repeat 2 32%nat)) by (rewrite K1; exact Hsk0).
  destruct (append_Y toy_cr toy_crc_ok' toy_hash32 toy_nonblank toy_hashbytes toy_sig64 toy_sigbytes
              (Some true) toy_cjunk c1 (w_disk w1) [] [] toy_c5 _ (repeat 2 32%nat) X1 Hsk1)
    as [(dp & E2 & _)|(c2 & d2 & delta & ev2 & E2 & A2 & X2 & K2 & C2)];
    [vm_compute; discriminate|vm_compute; discriminate|rewrite E2 in *; contradiction|].
  rewrite E2 in *. cbn [w_journal] in *. rewrite app_nil_r, rev_involutive in *.
  destruct (C2 1%nat) as (dk1 & A1 & XD1). rewrite A1 in *. cbn [Nat.ltb Nat.leb] in XD1.
  destruct (reopen_Y toy_cr toy_crc_ok' toy_hash32 toy_nonblank toy_hashbytes (c_keypair c1) dk1 _ _ XD1)
    as (ck & dk' & opsk & Eo & Xk & Kk & _).
  rewrite Eo in *.
  destruct (core_clear toy_cr (Some false) 1 3 ck (mkWorld dk' [] [])) as [[c3 w3] r3] eqn:E3.
  assert (L1 : 1 < N.of_nat (length toy_c5)) by (cbn [toy_c5 length]; lia).
  destruct (clear_YInv toy_cr toy_crc_ok' toy_hash32 toy_nonblank toy_hashbytes (Some false) ck dk' [] [] toy_c5 _
              1 3 c3 w3 r3 Xk L1 ltac:(lia) ltac:(unfold u64_max; lia) E3) as (-> & X3 & K3).
  assert (Hsk3 : kp_secret (c_keypair c3) = Some (repeat 2 32%nat)) by (rewrite K3, Kk; exact Hsk1).
  destruct (core_append toy_cr (Some false) [[8; 9]] c3 (mkWorld (w_disk w3) [] [])) as [[c4 w4] r4] eqn:E4.
  destruct r4 as [x4| | |]; try contradiction.
  destruct (append_YInv toy_cr toy_crc_ok' toy_hash32 toy_nonblank toy_hashbytes toy_sig64 toy_sigbytes
              (Some false) [[8; 9]] c3 (w_disk w3) [] [] toy_c5 _ (repeat 2 32%nat) c4 w4 (Ok x4) X3 Hsk3)
    as [Hp|(_ & X4 & K4)]; [vm_compute; discriminate|vm_compute; discriminate|exact E4|discriminate Hp|].
  destruct Hcomp as (Hpend & Hjunk & Hbit & Hbit0).
  split.
  { fold toy_cbs in X4. refine (YInv_cl_ext toy_cr c4 (w_disk w4) toy_cbs _ toy_ccl _ X4).
    intros i Hi. unfold toy_ccl, cl_mask, cl_clear. cbn [toy_cbs toy_c5 app length] in Hi. cbn [toy_c5 length].
    lia. }
  split; [rewrite K4; exact Hsk3|]. split; [apply N.leb_le; exact Hpend|]. split; [apply N.ltb_lt; exact Hjunk|].
  split; [exact Hbit|]. split; [exact Hbit0|reflexivity].
Qed.

(* get i returns block i for every held index and None (with the event) elsewhere; has, info *)
Definition reads_cleared (c : core) (d : disk) (bs : list bytes) (cl : N -> bool) : bool :=
  let n := N.of_nat (length bs) in
  forallb (fun k => let i := N.of_nat k in
             Bool.eqb (core_has c i) (held n cl i) &&
             match core_get i c (mkWorld d [] []) with
             | (_, w, Ok (Some v)) =>
                 held n cl i && beq_bytes v (nth k bs []) && match w_events w with [] => true | _ => false end
             | (_, w, Ok None) =>
                 negb (held n cl i) && match w_events w with [EvGet i'] => i' =? i | _ => false end
             | _ => false
             end) (seq 0 (S (S (length bs)))) &&
  (i_length (core_info c) =? n) && (i_contiguous (core_info c) =? spec_contig bs cl) &&
  (i_byte_length (core_info c) =? sumN (map len bs)).

(* the call on the toy states: result, no events, journal, observations, second call, refused append, exact
   oplog file, reopen; for both slot parities *)
Example toy_read_only_clear_run f1 :
  match toy_cstate f1 with
  | Some (c, d) =>
      reads_cleared c d toy_cbs toy_ccl = true /\ spec_contig toy_cbs toy_ccl = 1 /\
      match core_make_read_only toy_cr c (mkWorld d [] []) with
      | (c', w', r) =>
          r = Ok true /\ w_events w' = [] /\ rev (w_journal w') = ro_ops toy_cr c /\
          Nat.ltb 1 (ro_np c) = true /\ length (ro_ops toy_cr c) = (ro_np c + 4)%nat /\
          i_writeable (core_info c) = true /\ i_writeable (core_info c') = false /\
          reads_cleared c' (w_disk w') toy_cbs toy_ccl = true /\
          snd (core_make_read_only toy_cr c' w') = Ok false /\
          snd (core_append toy_cr None [[9]] c' w') = Err NotWritable /\
          f_len (d_oplog (w_disk w')) = 8192 /\ (8192 <? f_len (d_oplog d)) = true /\
          f_content (d_oplog (w_disk w')) = ro_oplog_file toy_cr c /\
          disk_has toy_secret d = true /\ disk_has toy_secret (w_disk w') = false /\
          fbit (d_bitfield (w_disk w')) 1 = false /\
          match core_open toy_cr None true (w_disk w') with
          | (d'', ops, Ok c'') =>
              ops = [] /\ i_writeable (core_info c'') = false /\ kp_secret (c_keypair c'') = None /\
              kp_public (c_keypair c'') = kp_public toy_keypair /\
              reads_cleared c'' d'' toy_cbs toy_ccl = true /\
              snd (core_append toy_cr None [[9]] c'' (mkWorld d'' [] [])) = Err NotWritable
          | _ => False
          end
      end
  | None => False
  end.
Proof. destruct f1; vm_compute; repeat split; reflexivity. Qed.

(* every cut of the journal delta of the call: the storage reopens with the observations of (bs, cl),
   writable exactly up to the last tree node write *)
Definition toy_clear_cut_ok (c : core) (d : disk) (k : nat) : bool :=
  match apply_sops d (firstn k (ro_ops toy_cr c)) with
  | Some dk =>
      match core_open toy_cr None true dk with
      | (dk', _, Ok ck) =>
          reads_cleared ck dk' toy_cbs toy_ccl &&
          Bool.eqb (i_writeable (core_info ck)) (Nat.leb k (ro_np c))
      | _ => false
      end
  | None => false
  end.

Example toy_read_only_clear_crash f1 :
  match toy_cstate f1 with
  | Some (c, d) => forallb (toy_clear_cut_ok c d) (seq 0 (S (S (length (ro_ops toy_cr c))))) = true
  | None => False
  end.
Proof. destruct f1; vm_compute; reflexivity. Qed.

(* REGRESSION for finding D25 on a writer with clears: for EVERY cut of a first call (in particular np+1 and
   np+2, where the recovered core is read-only while the other header slot still holds the secret): reopen,
   call again: the call completes, reports the recovered writability, and afterwards no file — so no header
   slot — contains the secret bytes; the oplog file is 8192 bytes; the observations are those of (bs, cl),
   also after one more reopen *)
Definition toy_clear_second_call_ok (c : core) (d : disk) (k : nat) : bool :=
  match apply_sops d (firstn k (ro_ops toy_cr c)) with
  | Some dk =>
      match core_open toy_cr None true dk with
      | (dk', _, Ok ck) =>
          match core_make_read_only toy_cr ck (mkWorld dk' [] []) with
          | (c2, w2, Ok b) =>
              Bool.eqb b (i_writeable (core_info ck)) && Bool.eqb b (Nat.leb k (ro_np c)) &&
              negb (disk_has toy_secret (w_disk w2)) &&
              (f_len (d_oplog (w_disk w2)) =? 8192) &&
              negb (i_writeable (core_info c2)) &&
              reads_cleared c2 (w_disk w2) toy_cbs toy_ccl &&
              match core_open toy_cr None true (w_disk w2) with
              | (d3, _, Ok c3) => negb (i_writeable (core_info c3)) && reads_cleared c3 d3 toy_cbs toy_ccl
              | _ => false
              end
          | _ => false
          end
      | _ => false
      end
  | None => false
  end.

Example toy_clear_secret_gone_after_crash_then_second_call f1 :
  match toy_cstate f1 with
  | Some (c, d) =>
      let np := ro_np c in
      (* the two cuts of the finding: the recovered core is read-only and the secret is still in the file *)
      forallb (fun k =>
        match apply_sops d (firstn k (ro_ops toy_cr c)) with
        | Some dk =>
            match core_open toy_cr None true dk with
            | (dk', _, Ok ck) => negb (i_writeable (core_info ck)) && infix_of toy_secret (f_content (d_oplog dk'))
            | _ => false
            end
        | None => false
        end) [S np; S (S np)] = true /\
      (* the second call removes it, at these and all other cuts *)
      forallb (toy_clear_second_call_ok c d) (seq 0 (S (S (length (ro_ops toy_cr c))))) = true
  | None => False
  end.
Proof. destruct f1; vm_compute; repeat split; reflexivity. Qed.

(* the instances of the theorems for the toy states *)
Example toy_instance_read_only_clear f1 k :
  match toy_cstate f1 with
  | Some (c, d) =>
      (exists c' w' c'',
         core_make_read_only toy_cr c (mkWorld d [] []) = (c', w', Ok true) /\
         core_open toy_cr None true (w_disk w') = (w_disk w', [], Ok c'') /\
         obs_cleared c'' (w_disk w') toy_cbs toy_ccl /\ i_writeable (core_info c'') = false /\
         f_content (d_oplog (w_disk w')) = ro_oplog_file toy_cr c) /\
      exists dk, apply_sops d (firstn k (ro_ops toy_cr c)) = Some dk /\
      exists dk' ops ck, core_open toy_cr None true dk = (dk', ops, Ok ck) /\ obs_cleared ck dk' toy_cbs toy_ccl /\
        forall j ev, exists c2 d2,
          core_make_read_only toy_cr ck (mkWorld dk' j ev) =
            (c2, mkWorld d2 (rev (ro_ops toy_cr ck) ++ j) ev, Ok (i_writeable (core_info ck))) /\
          f_content (d_oplog d2) = ro_oplog_file toy_cr ck /\ obs_cleared c2 d2 toy_cbs toy_ccl
  | None => False
  end.
Proof.
  pose proof (toy_cstate_YInv f1) as H. destruct (toy_cstate f1) as [[c d]|]; [|exact H].
  destruct H as (X & Hsk & _).
  assert (Hw0 : i_writeable (core_info c) = true) by (unfold core_info; cbn [i_writeable]; rewrite Hsk; reflexivity).
  split.
  - destruct (read_only_reopen_Y toy_cr toy_crc_ok' toy_hash32 toy_nonblank toy_hashbytes c d [] [] _ _ X)
      as (c1 & w1 & c2 & E1 & Eo & _ & _ & _ & Hw & O2 & _).
    destruct (make_read_only_observations_Y toy_cr toy_hash32 toy_nonblank toy_hashbytes c d [] [] _ _ X)
      as (c1' & w1' & E1' & _ & _ & _ & _ & _ & _ & _ & _ & _ & _ & _ & _ & _ & Hc & _).
    rewrite E1 in E1'. injection E1' as <- <-. rewrite Hw0 in E1.
    exists c1, w1, c2. split; [exact E1|]. split; [exact Eo|]. split; [exact O2|]. split; [exact Hw|exact Hc].
  - destruct (secret_gone_after_any_completed_call_Y toy_cr toy_crc_ok' toy_hash32 toy_nonblank toy_hashbytes
                c d _ _ k X) as (dk & Ak & dk' & ops & ck & Eo & Ok' & _ & F).
    exists dk. split; [exact Ak|]. exists dk', ops, ck. split; [exact Eo|]. split; [exact Ok'|].
    intros j ev. destruct (F j ev) as (c2 & d2 & E & _ & Hc & _ & _ & _ & O2 & _).
    exists c2, d2. split; [exact E|]. split; [exact Hc|exact O2].
Qed.

Print Assumptions make_read_only_Y.
Print Assumptions YInv_no_pending_FInv.
Print Assumptions make_read_only_observations_Y.
Print Assumptions make_read_only_FInv.
Print Assumptions make_read_only_from_FInv.
Print Assumptions make_read_only_twice_Y.
Print Assumptions read_only_reopen_Y.
Print Assumptions make_read_only_crash_Y.
Print Assumptions secret_gone_after_any_completed_call_Y.
Print Assumptions make_read_only_crash_journal_Y.
Print Assumptions toy_cstate_YInv.
Print Assumptions toy_read_only_clear_run.
Print Assumptions toy_read_only_clear_crash.
Print Assumptions toy_clear_secret_gone_after_crash_then_second_call.
Print Assumptions toy_instance_read_only_clear.
Print Assumptions read_only_oplog_file_Y.

(* OrderTieStorage.v — the ORDER of the storage-relevant protocol steps of the crate's mutating calls is the model's (pinned in
   props/C02.v): data write, oplog entry = commit point, in-memory bitfield / tree commit, checkpoint; bitfield, tree, oplog inside a
   checkpoint. Where the events are sent is not part of this obligation (OrderTieEvents.v). *)
From Coq Require Import List String NArith.
From HC Require Import SrcOrder OrderTie.
Import ListNotations.
Local Open Scope string_scope.

Theorem source_storage_order_is_the_models :
  tied_order (option_map storage_steps src_order_append_batch) (storage_steps model_order_append) /\
  tied_order (option_map storage_steps src_order_clear) (storage_steps model_order_clear) /\
  tied_order (option_map storage_steps src_order_verify_and_apply_proof) (storage_steps model_order_apply) /\
  tied_order (option_map storage_steps src_order_make_read_only) (storage_steps model_order_read_only) /\
  tied_order (option_map storage_steps src_order_flush_bitfield_and_tree_and_oplog) (storage_steps model_order_flush).
Proof. repeat split; tie. Qed.

(* what the obligation says, spelled out on the model's side *)
Example storage_steps_of_the_model :
  storage_steps model_order_append = ["data"; "entry"; "bitfield"; "commit"; "checkpoint"] /\
  storage_steps model_order_clear = ["entry"; "bitfield"; "data"; "checkpoint"] /\
  storage_steps model_order_apply = ["data"; "entry"; "bitfield"; "commit"; "checkpoint"] /\
  storage_steps model_order_flush = ["flush_bitfield"; "flush_tree"; "flush_oplog"].
Proof. repeat split. Qed.

Print Assumptions source_storage_order_is_the_models.

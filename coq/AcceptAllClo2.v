(* AcceptAllClo2.v -- order-aware companion of AcceptAllClo.v: in the push order of an accepted
   changeset (cs_nodes), every node occurrence is a root of the changeset, or was available in the
   old tree, or has its PARENT occurring LATER in the list.  Pure structure: no closedness needed. *)
From HC Require Import Base NMap Codec CodecFacts Crypto FlatTree Storage Bitfield Oplog Merkle Core.
From HC Require Import FlatTreeFacts StorageFacts BitfieldFacts OplogFacts TreeRef OffsetFacts CoreFacts
                       Sound NoPanic Refine Replicate SoundCoreLib SoundCore SoundCoreUp AcceptAllClo.
From Coq Require Import FMapPositive ZifyN ZifyNat ZifyBool.
Ltac Zify.zify_post_hook ::= Z.div_mod_to_equations.
Arguments N.add : simpl never.
Arguments N.sub : simpl never.
Arguments N.mul : simpl never.
Arguments N.div : simpl never.
Arguments N.modulo : simpl never.
Arguments N.pow : simpl never.
Arguments N.eqb : simpl never.
Arguments N.ltb : simpl never.
Arguments N.leb : simpl never.
Arguments N.of_nat : simpl never.
Arguments N.to_nat : simpl never.

(* ====================================================================================== *)
(* 1. "justified or parent later", on a list in push order                                  *)
(* ====================================================================================== *)

Local Notation idx := (map n_index).

(* every element is justified by J or has its parent's index among the later elements *)
Fixpoint PLf (J : N -> Prop) (L : list node) : Prop :=
  match L with
  | [] => True
  | x :: l2 => (J (n_index x) \/ In (ft_parent (n_index x)) (idx l2)) /\ PLf J l2
  end.

Lemma PLf_weaken (J J' : N -> Prop) L : (forall j, J j -> J' j) -> PLf J L -> PLf J' L.
Proof.
  intros HJ. induction L as [|x l IH]; cbn [PLf]; [auto|].
  intros [[H|H] Hl]; (split; [|apply IH, Hl]); [left; apply HJ, H|right; exact H].
Qed.

Lemma PLf_app (J J' : N -> Prop) L1 L2 :
  PLf J L1 -> PLf J' L2 -> (forall j, J j -> J' j \/ In (ft_parent j) (idx L2)) -> PLf J' (L1 ++ L2).
Proof.
  intros H1 H2 HJ. induction L1 as [|x l IH]; cbn [app PLf]; [exact H2|].
  destruct H1 as [Hx Hl]. split; [|apply IH, Hl].
  rewrite map_app. destruct Hx as [Hx|Hx].
  - destruct (HJ _ Hx) as [H|H]; [left; exact H|right; apply in_or_app; right; exact H].
  - right. apply in_or_app. left. exact Hx.
Qed.

Lemma PLf_snoc (J J' : N -> Prop) L n :
  PLf J L -> (forall j, J j -> J' j \/ ft_parent j = n_index n) -> J' (n_index n) -> PLf J' (L ++ [n]).
Proof.
  intros H1 HJ Hn. apply (PLf_app J J' L [n] H1).
  - cbn [PLf]. split; [left; exact Hn|exact I].
  - intros j Hj. destruct (HJ j Hj) as [H|H]; [left; exact H|right; left; symmetry; exact H].
Qed.

Lemma PLf_in (J : N -> Prop) L j : PLf J L -> In j (idx L) -> J j \/ In (ft_parent j) (idx L).
Proof.
  induction L as [|x l IH]; cbn [PLf map]; [intros _ []|].
  intros [Hx Hl] [<-|Hj].
  - destruct Hx as [H|H]; [left; exact H|right; right; exact H].
  - destruct (IH Hl Hj) as [H|H]; [left; exact H|right; right; exact H].
Qed.

Lemma PLf_split (J : N -> Prop) : forall l1 x l2,
  PLf J (l1 ++ x :: l2) -> J (n_index x) \/ In (ft_parent (n_index x)) (idx l2).
Proof.
  induction l1 as [|y l1 IH]; intros x l2; cbn [app PLf].
  - intros [H _]. exact H.
  - intros [_ H]. apply IH, H.
Qed.

(* ====================================================================================== *)
(* 2. The climb and verify_tree, in order                                                   *)
(* ====================================================================================== *)

Section Order.
  Variable cr : crypto.

  Lemma climb_later : forall fuel q it cur acc r out,
    climb cr fuel q it cur acc = Ok (r, out) ->
    isat it -> n_index cur = it_index it ->
    exists V, out = acc ++ V /\
      (forall e, q_extra q = Some e -> In (n_index e) (idx V)) /\
      PLf (fun j => j = n_index r) (cur :: V).
  Proof.
    induction fuel as [|f IH]; intros q it cur acc r out H Hat Hcur; [discriminate H|].
    rewrite climb_S in H. destruct (N.eqb_spec (q_length q) 0) as [E0|E0].
    - injection H as <- <-. exists []. split; [rewrite app_nil_r; reflexivity|]. split.
      + intros e He. rewrite (q_length_0_extra q E0) in He. discriminate He.
      + cbn [PLf]. split; [left; reflexivity|exact I].
    - cbv zeta in H. apply bind_ok in H. destruct H as ([n q'] & Hs & H).
      apply bind_ok in H. destruct H as (l & _ & H).
      apply q_shift_spec in Hs. destruct Hs as [Hn Hx].
      apply IH in H; [|apply isat_parent, isat_sibling, Hat|reflexivity].
      destruct H as (V' & -> & HE & HP).
      rewrite idx_sibling in Hn by exact Hat. rewrite <- Hcur in Hn.
      set (pn := mkNode (it_index (it_parent (it_sibling it))) l (parent_hash cr cur n)) in *.
      assert (Ipn : n_index pn = ft_parent (n_index cur)).
      { unfold pn. cbn [n_index]. rewrite idx_parent_sibling by exact Hat. rewrite Hcur. reflexivity. }
      exists (n :: pn :: V'). split; [rewrite <- app_assoc; reflexivity|]. split.
      + intros e He. cbn [map]. destruct Hx as [Hx|[Hx _]].
        * right. right. apply HE. rewrite Hx. exact He.
        * rewrite He in Hx. injection Hx as ->. left. reflexivity.
      + cbn [PLf map] in *. split; [right; right; left; exact Ipn|].
        split; [right; left; rewrite Hn, ft_parent_sibling; exact Ipn|]. exact HP.
  Qed.

  Definition Ptop (top : option node) (j : N) : Prop := exists t, top = Some t /\ j = n_index t.

  Lemma vt_seek_later c sn root c1 :
    vt_seek cr c sn = Ok (root, c1) ->
    exists Vis, cs_rnodes c1 = rev Vis ++ cs_rnodes c /\ PLf (Ptop root) Vis.
  Proof.
    unfold vt_seek. destruct sn as [|n0 rest].
    - intros H. injection H as <- <-. exists []. split; [reflexivity|exact I].
    - intros H. apply bind_ok in H. destruct H as ([n q] & Hs & H).
      apply bind_ok in H. destruct H as ([r visited] & Hc & H). injection H as <- <-.
      apply q_shift_spec in Hs. destruct Hs as [Hn _].
      apply climb_later in Hc; [|apply isat_new|exact Hn].
      destruct Hc as (V & -> & _ & HP). exists (n :: V). split; [apply push_rnodes|].
      eapply PLf_weaken; [|exact HP]. intros j ->. exists r. split; reflexivity.
  Qed.

  Lemma vt_main_later root c u root' c' :
    vt_main cr root c u = Ok (root', c') ->
    exists Vis, cs_rnodes c' = rev Vis ++ cs_rnodes c /\ PLf (Ptop root') Vis /\
      ((root' = root /\ Vis = []) \/ forall r1, root = Some r1 -> In (n_index r1) (idx Vis)).
  Proof.
    unfold vt_main. destruct u as [[[value index] nodes]|].
    - intros H. apply bind_ok in H. destruct H as ([n q] & Hs & H).
      apply bind_ok in H. destruct H as ([r visited] & Hc & H). injection H as <- <-.
      assert (Hnq : n_index n = it_index (it_new index) /\
                    forall r1, root = Some r1 -> q_extra q = Some r1 \/ n = r1).
      { destruct value as [v|].
        - injection Hs as <- <-. split; [reflexivity|]. intros r1 ->. left. reflexivity.
        - apply q_shift_spec in Hs. cbn [q_extra] in Hs. destruct Hs as [Hn Hx]. split; [exact Hn|].
          intros r1 ->. destruct Hx as [Hx|[Hx _]]; [left; exact Hx|right]. now injection Hx as ->. }
      destruct Hnq as [Hn Hq].
      apply climb_later in Hc; [|apply isat_new|exact Hn].
      destruct Hc as (V & -> & HE & HP). exists (n :: V). split; [apply push_rnodes|]. split.
      + eapply PLf_weaken; [|exact HP]. intros j ->. exists r. split; reflexivity.
      + right. intros r1 Hr1. cbn [map].
        destruct (Hq r1 Hr1) as [Hx| ->]; [right; apply HE, Hx|left; reflexivity].
    - intros H. injection H as <- <-. exists []. split; [reflexivity|]. split; [exact I|].
      left. split; reflexivity.
  Qed.

  Lemma verify_tree_later block hash seek c root c1 :
    verify_tree cr block hash seek c = Ok (root, c1) ->
    exists Vis, cs_rnodes c1 = rev Vis ++ cs_rnodes c /\ PLf (Ptop root) Vis.
  Proof.
    rewrite verify_tree_eq. intros H. apply bind_ok in H. destruct H as (u & _ & H). cbv zeta in H.
    assert (B : ('(root, c1) <- vt_seek cr c (match seek with Some s => ds_nodes s | None => [] end) ;;
                 vt_main cr root c1 u) = Ok (root, c1) ->
                exists Vis, cs_rnodes c1 = rev Vis ++ cs_rnodes c /\ PLf (Ptop root) Vis).
    { intros H'. apply bind_ok in H'. destruct H' as ([r1 c0] & H1 & H2).
      apply vt_seek_later in H1. destruct H1 as (V1 & E1 & T1).
      apply vt_main_later in H2. destruct H2 as (V2 & E2 & T2 & Hr).
      exists (V1 ++ V2). split; [rewrite E2, E1, rev_app_distr, app_assoc; reflexivity|].
      apply (PLf_app (Ptop r1) (Ptop root) V1 V2 T1 T2).
      intros j (t0 & Et & ->). destruct Hr as [[-> ->]|Hr].
      - left. exists t0. split; [exact Et|reflexivity].
      - apply (PLf_in _ _ _ T2), Hr, Et. }
    destruct u as [x|]; [exact (B H)|].
    destruct (match seek with Some s => ds_nodes s | None => [] end) as [|n0 rest] eqn:E.
    - injection H as <- <-. exists []. split; [reflexivity|exact I].
    - exact (B H).
  Qed.

  (* ====================================================================================== *)
  (* 3. append_root and the upgrade loops                                                     *)
  (* ====================================================================================== *)

  (* justified: a current root index, or P (stored before / the pending top) *)
  Definition Jr (rr : list node) (P : N -> Prop) (j : N) : Prop := In j (idx rr) \/ P j.
  (* the invariant, on the pushed nodes in push order *)
  Definition OKc (c : changeset) (P : N -> Prop) : Prop := PLf (Jr (cs_roots c) P) (rev (cs_rnodes c)).

  Lemma merge_roots_later (P : N -> Prop) : forall fuel a rest nr d o rr' nr' it',
    merge_roots cr fuel (a :: rest) nr (it_at (N.of_nat d) o) = Ok (rr', nr', it') ->
    n_index a = ft_index (N.of_nat d) o ->
    PLf (Jr (a :: rest) P) (rev nr) -> PLf (Jr rr' P) (rev nr').
  Proof.
    induction fuel as [|f IH]; intros a rest nr d o rr' nr' it' H Ia HP; [discriminate H|].
    cbn [merge_roots] in H. destruct rest as [|b rest2].
    { injection H as <- <- <-. exact HP. }
    rewrite it_sibling_at_sib in H. cbn [it_at it_index] in H.
    destruct (N.eqb_spec (ft_index (N.of_nat d) (sib o)) (n_index b)) as [Eb|Eb]; cbn [negb] in H.
    2:{ injection H as <- <- <-. exact HP. }
    apply bind_ok in H. destruct H as (l & _ & H).
    fold (it_at (N.of_nat d) (sib o)) in H. rewrite it_parent_at, sib_div in H.
    replace (N.of_nat d + 1) with (N.of_nat (S d)) in H by lia.
    set (n := mkNode (it_index (it_at (N.of_nat (S d)) (o / 2))) l (parent_hash cr a b)) in H.
    assert (In_ : n_index n = ft_index (N.of_nat (S d)) (o / 2)) by reflexivity.
    assert (Fa : ft_sibling (n_index a) = n_index b) by (rewrite Ia, ft_sibling_index; exact Eb).
    assert (Pa : ft_parent (n_index a) = n_index n).
    { rewrite Ia, ft_parent_index, In_. f_equal. lia. }
    assert (Pb : ft_parent (n_index b) = n_index n) by (rewrite <- Fa, ft_parent_sibling; exact Pa).
    apply IH in H; [exact H|exact In_|].
    cbn [rev]. apply (PLf_snoc (Jr (a :: b :: rest2) P)); [exact HP| |left; left; reflexivity].
    intros j [Hj|Hj]; [|left; right; exact Hj].
    cbn [map] in Hj. destruct Hj as [<-|[<-|Hj]]; [right; exact Pa|right; exact Pb|].
    left. left. right. exact Hj.
  Qed.

  Lemma Rinv_True c : Rinv (fun _ => True) c.
  Proof. intros x _. left. exact I. Qed.

  (* pushing n discharges a pending index equal to n_index n *)
  Lemma append_root_later (P P' : N -> Prop) c n d o c' it' :
    append_root cr c n (it_at (N.of_nat d) o) = Ok (c', it') ->
    n_index n = ft_index (N.of_nat d) o ->
    (forall j, P j -> P' j \/ j = n_index n) ->
    OKc c P -> OKc c' P' /\ exists k, it' = it_at (N.of_nat (d + k)) (o / p2 k).
  Proof.
    intros H Hn HPP HO.
    pose proof (append_root_step cr (fun _ => True) c n d o c' it' H Hn (Rinv_True c)) as (_ & _ & Hk).
    split; [|exact Hk].
    unfold append_root in H. apply bind_ok in H. destruct H as (bl & _ & H).
    apply bind_ok in H. destruct H as ([[rr nr] it1] & Hm & H). injection H as <- <-.
    apply (merge_roots_later P') in Hm; [|exact Hn|].
    - unfold OKc. cbn [cs_roots cs_rnodes]. eapply PLf_weaken; [|exact Hm].
      intros j [Hj|Hj]; [left; apply (proj2 (in_map_rev _ _)), Hj|right; exact Hj].
    - cbn [rev]. apply (PLf_snoc (Jr (cs_roots c) P)); [exact HO| |left; left; reflexivity].
      intros j [Hj|Hj].
      + left. left. right. apply (proj2 (in_map_rev _ _)), Hj.
      + destruct (HPP j Hj) as [Hp| ->]; [left; right; exact Hp|left; left; left; reflexivity].
  Qed.

  (* the pending index: the extra node of the queue *)
  Definition Pq (q : nodeq) (j : N) : Prop := exists e, q_extra q = Some e /\ j = n_index e.

  Lemma Pq_shift q i n q1 : q_shift q i = Ok (n, q1) -> forall j, Pq q j -> Pq q1 j \/ j = n_index n.
  Proof.
    intros H j (e & He & ->). apply q_shift_spec in H. destruct H as [_ [H|[H _]]].
    - left. exists e. split; [congruence|reflexivity].
    - right. rewrite He in H. now injection H as ->.
  Qed.

  Lemma grow_loop_later : forall fuel c q d o ri c' q' it',
    grow_loop cr fuel c q (it_at (N.of_nat d) o) ri = Ok (c', q', it') ->
    OKc c (Pq q) -> OKc c' (Pq q').
  Proof.
    induction fuel as [|f IH]; intros c q d o ri c' q' it' H HO; [discriminate H|].
    cbn [grow_loop] in H. cbn [it_at it_index] in H.
    destruct (N.eqb_spec (ft_index (N.of_nat d) o) ri) as [E|E].
    - injection H as <- <- <-. exact HO.
    - fold (it_at (N.of_nat d) o) in H. rewrite it_sibling_at_sib in H.
      apply bind_ok in H. destruct H as ([n q1] & Hs & H).
      apply bind_ok in H. destruct H as ([c1 it1] & Ha & H).
      pose proof (q_shift_spec _ _ _ _ Hs) as [Hn _]. cbn [it_at it_index] in Hn.
      destruct (append_root_later (Pq q) (Pq q1) c n d (sib o) c1 it1 Ha Hn (Pq_shift _ _ _ _ Hs) HO)
        as (O1 & k & ->).
      apply (IH _ _ _ _ _ _ _ _ H O1).
  Qed.

  Section Url.
  Variable to : N.
  Hypothesis Hto : to mod 2 = 0.

  Lemma url_later : forall fuel c q x i (grow : bool) c' q' it',
    Jx to x ->
    upgrade_roots_loop cr fuel c q (mkIter x (x / 2) 2) to i grow = Ok (c', q', it') ->
    OKc c (Pq q) -> OKc c' (Pq q').
  Proof.
    induction fuel as [|f IH]; intros c q x i grow c' q' it' HJ H HO; [discriminate H|].
    cbn [upgrade_roots_loop] in H.
    destruct (it_full_root (mkIter x (x / 2) 2) to) as [found it1] eqn:Efr.
    destruct (full_root_at to x found it1 Hto HJ Efr) as [->|(-> & d & o & -> & Ho & Ex0 & Hstop & HJ')].
    { cbn [negb] in H. injection H as <- <- <-. exact HO. }
    cbn [negb] in H.
    assert (Hnext : it_next_tree (it_at (N.of_nat d) o) =
                    mkIter (x + 2 * p2 d) ((x + 2 * p2 d) / 2) 2).
    { rewrite it_next_tree_at. replace (2 * ((o + 1) * p2 d)) with (x + 2 * p2 d) by lia. reflexivity. }
    assert (Happ : forall i0,
      ('(n, q1) <- q_shift q (it_index (it_at (N.of_nat d) o)) ;;
       '(c1, it2) <- append_root cr c n (it_at (N.of_nat d) o) ;;
       upgrade_roots_loop cr f c1 q1 (it_next_tree it2) to i0 false) = Ok (c', q', it') ->
      OKc c' (Pq q')).
    { intros i0 H0.
      apply bind_ok in H0. destruct H0 as ([n q1] & Hs & H0).
      apply bind_ok in H0. destruct H0 as ([c1 it2] & Ha & H0).
      pose proof (q_shift_spec _ _ _ _ Hs) as [Hn _]. cbn [it_at it_index] in Hn.
      destruct (append_root_later (Pq q) (Pq q1) c n d o c1 it2 Ha Hn (Pq_shift _ _ _ _ Hs) HO)
        as (O1 & k & ->).
      destruct k as [|k].
      - rewrite Nat.add_0_r, p2_0, N.div_1_r, Hnext in H0.
        apply (IH _ _ _ _ _ _ _ _ HJ' H0 O1).
      - rewrite it_next_tree_at in H0.
        refine (IH _ _ _ _ _ _ _ _ _ H0 O1).
        split; [lia|]. left.
        pose proof (merged_end_beyond o d (S k) Ho ltac:(lia)). lia. }
    destruct (nth_error (cs_roots c) i) as [r0|].
    - destruct (n_index r0 =? it_index (it_at (N.of_nat d) o)).
      + rewrite Hnext in H. apply (IH _ _ _ _ _ _ _ _ HJ' H HO).
      + destruct grow.
        * apply bind_ok in H. destruct H as (li & Hli & H).
          apply bind_ok in H. destruct H as ([[c1 q1] it2] & Hg & H).
          rewrite it_new_at in Hg.
          replace (ft_depth li) with (N.of_nat (N.to_nat (ft_depth li))) in Hg by lia.
          pose proof (grow_loop_later _ _ _ _ _ _ _ _ _ Hg HO) as O1.
          destruct (grow_loop_step cr (fun _ => True) _ _ _ _ _ _ _ _ _ Hg (Rinv_True c))
            as (_ & _ & d' & o' & -> & Ei).
          cbn [it_at it_index] in Ei. apply ft_index_inj in Ei. destruct Ei as [Ed ->].
          assert (d' = d) by lia. subst d'.
          rewrite Hnext in H.
          apply (IH _ _ _ _ _ _ _ _ HJ' H O1).
        * apply (Happ i H).
    - apply (Happ i H).
  Qed.
  End Url.

  Lemma extra_siblings_later (P : N -> Prop) : forall extra c it c' it' rest,
    extra_siblings cr c it extra = Ok (c', it', rest) -> isat it -> OKc c P -> OKc c' P.
  Proof.
    induction extra as [|n extra IH]; intros c it c' it' rest H Hat HO; cbn [extra_siblings] in H.
    - injection H as <- <- <-. exact HO.
    - destruct (N.eqb_spec (n_index n) (it_index (it_sibling it))) as [E|E].
      + apply bind_ok in H. destruct H as ([c1 it1] & Ha & H).
        destruct (isat_nat (fun _ => True) _ (isat_sibling _ Hat)) as (d & o & Es). rewrite Es in Ha, E.
        cbn [it_at it_index] in E.
        destruct (append_root_later P P c n d o c1 it1 Ha E (fun j Hj => or_introl Hj) HO) as (O1 & k & ->).
        apply (IH _ _ _ _ _ H (isat_at _ _) O1).
      + injection H as <- <- <-. exact HO.
  Qed.

  Lemma extra_rest_later (P : N -> Prop) : forall extra c it c' it',
    extra_rest cr c it extra = Ok (c', it') -> isat it -> OKc c P -> OKc c' P.
  Proof.
    induction extra as [|n extra IH]; intros c it c' it' H Hat HO; cbn [extra_rest] in H.
    - injection H as <- <-. exact HO.
    - apply bind_ok in H. destruct H as (it1 & Hd & H).
      apply bind_ok in H. destruct H as ([c1 it2] & Ha & H).
      apply (descend_to_isat (fun _ => True)) in Hd; [|exact Hat]. destruct Hd as [Hat1 Hi].
      destruct (isat_nat (fun _ => True) _ Hat1) as (d & o & ->). cbn [it_at it_index] in Hi.
      destruct (append_root_later P P c n d o c1 it2 Ha (eq_sym Hi) (fun j Hj => or_introl Hj) HO)
        as (O1 & k & ->).
      apply (IH _ _ _ _ H); [apply isat_sibling, isat_at|exact O1].
  Qed.

  (* verify_upgrade: the block root stays pending only if it was not consumed *)
  Lemma verify_upgrade_later fork u br pk c consumed c4 :
    verify_upgrade cr fork u br pk c = Ok (consumed, c4) ->
    OKc c (Ptop br) ->
    OKc c4 (fun j => consumed = false /\ Ptop br j).
  Proof.
    intros H HO. pose proof H as H0. unfold verify_upgrade in H.
    apply bind_ok in H. destruct H as (sl & _ & H).
    apply bind_ok in H. destruct H as (to & Hto & H).
    apply bind_ok in H. destruct H as ([[c1 q1] it1] & H1 & H).
    apply bind_ok in H. destruct H as (li & _ & H).
    apply bind_ok in H. destruct H as ([[c2 it2] rest] & H2 & H).
    apply bind_ok in H. destruct H as ([c3 it3] & H3 & H).
    apply bind_ok in H. destruct H as (c4' & Hs & H). injection H as <- <-.
    unfold cs_verify_and_set_signature in Hs. apply bind_ok in Hs. destruct Hs as (s' & _ & Hs).
    destruct (cr_verify cr pk _ s'); [|discriminate Hs]. injection Hs as <-.
    assert (Eto : to mod 2 = 0).
    { unfold mul64 in Hto. destruct (fits_u64 (2 * sl)); [|discriminate Hto]. injection Hto as <-. lia. }
    change (it_new 0) with (mkIter 0 (0 / 2) 2) in H1.
    assert (J0 : Jx to 0) by (split; [reflexivity|right; apply aligned_0]).
    assert (O0 : OKc c (Pq (mkQ (du_nodes u) br))).
    { eapply PLf_weaken; [|exact HO]. intros j [Hj|(t0 & Et & ->)]; [left; exact Hj|right].
      exists t0. split; [exact Et|reflexivity]. }
    pose proof (url_later to Eto _ _ _ _ _ _ _ _ _ J0 H1 O0) as O1.
    destruct (url_step cr (fun _ => True) to Eto _ _ _ _ _ _ _ _ _ J0 H1 (Rinv_True c)) as [_ X1].
    pose proof (extra_siblings_later _ _ _ _ _ _ _ H2 (isat_new _) O1) as O2.
    destruct (extra_siblings_step cr (fun _ => True) _ _ _ _ _ _ H2 (isat_new _) (Rinv_True c1)) as [_ Hat2].
    pose proof (extra_rest_later _ _ _ _ _ _ H3 Hat2 O2) as O3.
    unfold OKc in *. cbn [cs_set_hash_sig cs_set_fork cs_roots cs_rnodes].
    eapply PLf_weaken; [|exact O3]. intros j [Hj|(e & He & ->)]; [left; exact Hj|right].
    destruct X1 as [X|(e' & _ & E2 & _)]; [|rewrite E2 in He; discriminate He].
    cbn [q_extra] in X. rewrite He in X. rewrite He. split; [reflexivity|].
    exists e. split; [symmetry; exact X|reflexivity].
  Qed.
End Order.

(* ====================================================================================== *)
(* 4. The theorem                                                                          *)
(* ====================================================================================== *)

Theorem verify_proof_parent_later cr t tf pf pk cs :
  verify_proof cr t tf pf pk = Ok cs ->
  forall l1 x l2, cs_nodes cs = l1 ++ x :: l2 ->
    In (n_index x) (map n_index (cs_roots cs)) \/ navail t tf (n_index x) \/
    In (ft_parent (n_index x)) (map n_index l2).
Proof.
  intros H.
  assert (HO : OKc cs (navail t tf)).
  { apply verify_proof_accept_inv in H. destruct H as (root & c1 & Hvt & H).
    pose proof (verify_tree_frame cr _ _ _ _ _ _ Hvt) as (_ & _ & _ & _ & _ & Fr & _).
    apply verify_tree_later in Hvt. destruct Hvt as (Vis & Ern & HT).
    cbn [tree_changeset cs_rnodes] in Ern. rewrite app_nil_r in Ern.
    assert (O1 : OKc c1 (Ptop root)).
    { unfold OKc. rewrite Ern, rev_involutive. eapply PLf_weaken; [|exact HT]. intros j Hj. right. exact Hj. }
    destruct (p_upgrade pf) as [u|].
    - destruct H as (consumed & c3 & Hvu & _ & _ & _ & _ & _ & Hchk).
      apply (verify_upgrade_later cr _ _ _ _ _ _ _ Hvu) in O1.
      eapply PLf_weaken; [|exact O1]. intros j [Hj|[Hc (t0 & Et & ->)]]; [left; exact Hj|right].
      destruct (Hchk Hc t0 Et) as (n & Hn & _). exists n. exact Hn.
    - destruct H as [-> Hchk]. eapply PLf_weaken; [|exact O1].
      intros j [Hj|(t0 & Et & ->)]; [left; exact Hj|right].
      destruct (Hchk t0 Et) as (n & Hn & _). exists n. exact Hn. }
  intros l1 x l2 E. unfold OKc in HO.
  assert (En : rev (cs_rnodes cs) = cs_nodes cs).
  { unfold cs_nodes. rewrite rev_append_rev, app_nil_r. reflexivity. }
  rewrite En, E in HO. apply PLf_split in HO. unfold Jr in HO. tauto.
Qed.

(* ====================================================================================== *)
(* 5. Non-vacuity: the three accepted proofs of AcceptAllClo.v, and an independent check     *)
(* ====================================================================================== *)

Fixpoint later_check (t : mtree) (roots : list N) (l : list node) : bool :=
  match l with
  | [] => true
  | x :: l2 =>
      (existsb (N.eqb (n_index x)) roots || availb t (n_index x) ||
       existsb (N.eqb (ft_parent (n_index x))) (map n_index l2)) && later_check t roots l2
  end.

Example parent_later_examples :
  verify_proof ex_cr ex_rt file_empty exA_pf ex_key = Ok exA_cs /\
  map n_index (cs_nodes exA_cs) = [4; 6; 5; 1; 3] /\
  later_check ex_rt (map n_index (cs_roots exA_cs)) (cs_nodes exA_cs) = true /\
  verify_proof ex_cr ex_rt file_empty exB_pf ex_key = Ok exB_cs /\
  map n_index (cs_nodes exB_cs) = [12; 10; 9; 12] /\ map n_index (cs_roots exB_cs) = [3; 9; 12] /\
  later_check ex_rt (map n_index (cs_roots exB_cs)) (cs_nodes exB_cs) = true /\
  verify_proof ex_cr empty_tree file_empty exC_pf ex_key = Ok exC_cs /\
  map n_index (cs_nodes exC_cs) = [2; 0; 1; 1; 5; 3; 9; 12] /\
  later_check empty_tree (map n_index (cs_roots exC_cs)) (cs_nodes exC_cs) = true.
Proof. vm_compute. repeat split. Qed.

(* the theorem applied: in example (b) the supplied node 10 is followed by its parent 9 *)
Example exB_parent_later :
  forall l1 x l2, cs_nodes exB_cs = l1 ++ x :: l2 ->
    In (n_index x) (map n_index (cs_roots exB_cs)) \/ navail ex_rt file_empty (n_index x) \/
    In (ft_parent (n_index x)) (map n_index l2).
Proof.
  destruct parent_later_examples as (_ & _ & _ & H & _).
  exact (verify_proof_parent_later ex_cr ex_rt file_empty exB_pf ex_key exB_cs H).
Qed.

Check verify_proof_parent_later.
Print Assumptions verify_proof_parent_later.
Print Assumptions parent_later_examples.
Print Assumptions exB_parent_later.
